(* The jump code of expressions over objects does what the code tree does (port of ExprFlatProofs.v to the
   machine with memory), hence computes the C11 value and side effects wherever it is embedded. *)
From Coq Require Import ZArith Bool List Lia.
From Chibicc Require Import Base.Mach Spec.C11Int Spec.C11IntMem Model.X86Int Model.CodegenInt Model.ExprGen Model.ExprMem Model.ExprMemFlat
     Proofs.CastTableProofs Proofs.ExprMemProofs Proofs.ExprMemCorrect Proofs.ExprMemIncDec Proofs.ExprMemMain.
Import ListNotations.
Local Open Scope Z_scope.

Definition xembedded (P : list minstr) (p : nat) (code : list minstr) : Prop :=
  forall i ins, nth_error code i = Some ins -> nth_error P (p + i) = Some ins.

Lemma xemb_app P p a b : xembedded P p (a ++ b) -> xembedded P p a /\ xembedded P (p + length a) b.
Proof.
  intros H. split; intros i ins Hi.
  - apply H. rewrite nth_error_app1; [exact Hi|]. apply nth_error_Some. rewrite Hi. discriminate.
  - rewrite <- Nat.add_assoc. apply H. rewrite nth_error_app2 by lia. replace (length a + i - length a)%nat with i by lia. exact Hi.
Qed.
Lemma xemb_cons P p x l : xembedded P p (x :: l) -> nth_error P p = Some x /\ xembedded P (S p) l.
Proof.
  intros H. split.
  - specialize (H 0%nat x eq_refl). rewrite Nat.add_0_r in H. exact H.
  - intros i ins Hi. replace (S p + i)%nat with (p + S i)%nat by lia. apply H. exact Hi.
Qed.

Lemma mflatten_length : forall c p, length (mflatten c p) = msize c.
Proof.
  induction c as [l|v| | |off|ld|sk|a IHa b IHb|a IHa ta b IHb tb|a IHa ta b IHb tb|c IHc tc a IHa b IHb]; intros p; cbn [mflatten msize]; try reflexivity.
  - apply map_length.
  - rewrite app_length, IHa, IHb. reflexivity.
  - rewrite !app_length, IHa, IHb. cbn [xcmpz gen_cmp_zero map length]. lia.
  - rewrite !app_length, IHa, IHb. cbn [xcmpz gen_cmp_zero map length]. lia.
  - rewrite !app_length, IHc, IHa, IHb. cbn [xcmpz gen_cmp_zero map length]. lia.
Qed.

Section Flat.
Variable rbp : Z.
Local Notation xstar := (xstar rbp).
Local Notation xstep := (xstep rbp).

Lemma xstar_trans P a b c : xstar P a b -> xstar P b c -> xstar P a c.
Proof. induction 1 as [|st st' st'' Hs _ IH]; intros H2; [exact H2|]. eapply xstar_step; [exact Hs|apply IH; exact H2]. Qed.
Lemma xstar_one P a b : xstep P a = Some b -> xstar P a b.
Proof. intros H. eapply xstar_step; [exact H|apply xstar_refl]. Qed.

Lemma xrun_straight P : forall l p s k m s', exec l s = Some s' -> xembedded P p (map XIns l) ->
  xstar P (p, (s, k, m)) ((p + length l)%nat, (s', k, m)).
Proof.
  induction l as [|i l IH]; intros p s k m s' He Hemb; cbn [exec] in He.
  - injection He as <-. cbn [length]. rewrite Nat.add_0_r. apply xstar_refl.
  - destruct (exec1 i s) as [s1|] eqn:E1; [|discriminate]. cbn [map] in Hemb. apply xemb_cons in Hemb. destruct Hemb as [Hi Hl].
    eapply xstar_step; [unfold ExprMemFlat.xstep; rewrite Hi, E1; reflexivity|].
    cbn [length]. replace (p + S (length l))%nat with (S p + length l)%nat by lia. apply IH; assumption.
Qed.

Lemma xrun_cmpz P t p s k m z s2 : test_zero t s = Some (z, s2) -> xembedded P p (xcmpz t) ->
  xstar P (p, (s, k, m)) (S p, (s2, k, m)) /\ f_zf s2 = z.
Proof.
  unfold test_zero, xcmpz. intros H Hemb. destruct (exec (gen_cmp_zero t) s) as [s'|] eqn:E; [|discriminate]. injection H as <- <-.
  split; [|reflexivity]. pose proof (xrun_straight P _ p s k m s' E Hemb) as R. cbn [gen_cmp_zero length] in R. replace (p + 1)%nat with (S p) in R by lia. exact R.
Qed.

Lemma x_jz P q q0 s k m t : nth_error P q0 = Some (XJz t) -> q = q0 -> xstar P (q, (s, k, m)) ((if f_zf s then t else S q), (s, k, m)).
Proof. intros H ->. apply xstar_one. unfold ExprMemFlat.xstep. rewrite H. reflexivity. Qed.
Lemma x_jnz P q q0 s k m t : nth_error P q0 = Some (XJnz t) -> q = q0 -> xstar P (q, (s, k, m)) ((if f_zf s then S q else t), (s, k, m)).
Proof. intros H ->. apply xstar_one. unfold ExprMemFlat.xstep. rewrite H. reflexivity. Qed.
Lemma x_jmp P q q0 s k m t : nth_error P q0 = Some (XJmp t) -> q = q0 -> xstar P (q, (s, k, m)) (t, (s, k, m)).
Proof. intros H ->. apply xstar_one. unfold ExprMemFlat.xstep. rewrite H. reflexivity. Qed.
Lemma x_imm P q q0 s k m v : nth_error P q0 = Some (XImm v) -> q = q0 -> xstar P (q, (s, k, m)) (S q, (set_rax s (v mod 2 ^ 64), k, m)).
Proof. intros H ->. apply xstar_one. unfold ExprMemFlat.xstep. rewrite H. reflexivity. Qed.
Lemma xstar_end P a q q' st : xstar P a (q, st) -> q = q' -> xstar P a (q', st).
Proof. intros H ->. exact H. Qed.
Lemma xstar_start P q q' st b : xstar P (q, st) b -> q = q' -> xstar P (q', st) b.
Proof. intros H ->. exact H. Qed.
Lemma xemb_at P q q' c : xembedded P q c -> q = q' -> xembedded P q' c.
Proof. intros H ->. exact H. Qed.

Tactic Notation "go" uconstr(H) := eapply xstar_trans; [eapply H; lia|].

Theorem mflatten_simulates : forall c st st', mrun rbp c st = Some st' ->
  forall P p, xembedded P p (mflatten c p) -> xstar P (p, st) ((p + msize c)%nat, st').
Proof.
  induction c as [l|v| | |off|ld|sk|a IHa b IHb|a IHa ta b IHb tb|a IHa ta b IHb tb|c IHc tc a IHa b IHb];
    intros [[s k] m] st' H P p Hemb; cbn [mrun] in H; cbn [mflatten] in Hemb.
  - destruct (exec l s) as [s'|] eqn:E; [|discriminate]. injection H as <-. cbn [msize]. apply xrun_straight; assumption.
  - injection H as <-. apply xemb_cons in Hemb. destruct Hemb as [Hi _]. cbn [msize]. replace (p + 1)%nat with (S p) by lia.
    apply xstar_one. unfold ExprMemFlat.xstep. rewrite Hi. reflexivity.
  - injection H as <-. apply xemb_cons in Hemb. destruct Hemb as [Hi _]. cbn [msize]. replace (p + 1)%nat with (S p) by lia.
    apply xstar_one. unfold ExprMemFlat.xstep. rewrite Hi. reflexivity.
  - destruct k as [|v k']; [discriminate|]. injection H as <-. apply xemb_cons in Hemb. destruct Hemb as [Hi _]. cbn [msize]. replace (p + 1)%nat with (S p) by lia.
    apply xstar_one. unfold ExprMemFlat.xstep. rewrite Hi. reflexivity.
  - injection H as <-. apply xemb_cons in Hemb. destruct Hemb as [Hi _]. cbn [msize]. replace (p + 1)%nat with (S p) by lia.
    apply xstar_one. unfold ExprMemFlat.xstep. rewrite Hi. reflexivity.
  - destruct (valid_addr (rax s) (ld_bytes ld)) eqn:V; [|discriminate]. injection H as <-.
    apply xemb_cons in Hemb. destruct Hemb as [Hi _]. cbn [msize]. replace (p + 1)%nat with (S p) by lia.
    apply xstar_one. unfold ExprMemFlat.xstep. rewrite Hi, V. reflexivity.
  - destruct (valid_addr (rdi s) (st_bytes sk)) eqn:V; [|discriminate]. injection H as <-.
    apply xemb_cons in Hemb. destruct Hemb as [Hi _]. cbn [msize]. replace (p + 1)%nat with (S p) by lia.
    apply xstar_one. unfold ExprMemFlat.xstep. rewrite Hi, V. reflexivity.
  - destruct (mrun rbp a (s, k, m)) as [st1|] eqn:Ea; [|discriminate].
    apply xemb_app in Hemb. destruct Hemb as [Ha Hb]. rewrite mflatten_length in Hb.
    eapply xstar_trans; [apply (IHa _ _ Ea P p Ha)|]. cbn [msize]. rewrite Nat.add_assoc. apply (IHb _ _ H P _ Hb).
  - (* && *)
    destruct (mrun rbp a (s, k, m)) as [[[s1 k1] m1]|] eqn:Ea; [|discriminate].
    apply xemb_app in Hemb. destruct Hemb as [Ha Hr]. rewrite mflatten_length in Hr.
    apply xemb_app in Hr. destruct Hr as [Hc1 Hr]. cbn [xcmpz gen_cmp_zero map length] in Hr.
    apply xemb_cons in Hr. destruct Hr as [Hj1 Hr].
    apply xemb_app in Hr. destruct Hr as [Hb Hr]. rewrite mflatten_length in Hr.
    apply xemb_app in Hr. destruct Hr as [Hc2 Hr]. cbn [xcmpz gen_cmp_zero map length] in Hr.
    apply xemb_cons in Hr. destruct Hr as [Hj2 Hr]. apply xemb_cons in Hr. destruct Hr as [Hm1 Hr].
    apply xemb_cons in Hr. destruct Hr as [Hje Hr]. apply xemb_cons in Hr. destruct Hr as [Hm0 _].
    eapply xstar_trans; [apply (IHa _ _ Ea P p Ha)|].
    destruct (test_zero ta s1) as [[z s2]|] eqn:T1; [|discriminate].
    destruct (xrun_cmpz P ta _ s1 k1 m1 z s2 T1 Hc1) as [S1 Z1]. eapply xstar_trans; [exact S1|].
    cbn [msize]. go (x_jz P _ _ s2 k1 m1 _ Hj1). rewrite Z1.
    destruct z.
    + injection H as <-. eapply xstar_end; [apply (x_imm P _ _ _ _ _ _ Hm0); lia|lia].
    + destruct (mrun rbp b (s2, k1, m1)) as [[[s3 k3] m3]|] eqn:Eb; [|discriminate].
      destruct (test_zero tb s3) as [[z2 s4]|] eqn:T2; [|discriminate]. injection H as <-.
      apply (xemb_at _ _ (p + msize a + 2)%nat) in Hb; [|lia].
      eapply xstar_trans; [eapply xstar_start; [apply (IHb _ _ Eb P _ Hb)|lia]|].
      apply (xemb_at _ _ (p + msize a + 2 + msize b)%nat) in Hc2; [|lia].
      destruct (xrun_cmpz P tb _ s3 k3 m3 z2 s4 T2 Hc2) as [S2 Z2]. eapply xstar_trans; [exact S2|].
      go (x_jz P _ _ s4 k3 m3 _ Hj2). rewrite Z2.
      destruct z2.
      * eapply xstar_end; [apply (x_imm P _ _ _ _ _ _ Hm0); lia|lia].
      * go (x_imm P _ _ s4 k3 m3 _ Hm1). eapply xstar_end; [apply (x_jmp P _ _ _ _ _ _ Hje); lia|lia].
  - (* || *)
    destruct (mrun rbp a (s, k, m)) as [[[s1 k1] m1]|] eqn:Ea; [|discriminate].
    apply xemb_app in Hemb. destruct Hemb as [Ha Hr]. rewrite mflatten_length in Hr.
    apply xemb_app in Hr. destruct Hr as [Hc1 Hr]. cbn [xcmpz gen_cmp_zero map length] in Hr.
    apply xemb_cons in Hr. destruct Hr as [Hj1 Hr].
    apply xemb_app in Hr. destruct Hr as [Hb Hr]. rewrite mflatten_length in Hr.
    apply xemb_app in Hr. destruct Hr as [Hc2 Hr]. cbn [xcmpz gen_cmp_zero map length] in Hr.
    apply xemb_cons in Hr. destruct Hr as [Hj2 Hr]. apply xemb_cons in Hr. destruct Hr as [Hm1 Hr].
    apply xemb_cons in Hr. destruct Hr as [Hje Hr]. apply xemb_cons in Hr. destruct Hr as [Hm0 _].
    eapply xstar_trans; [apply (IHa _ _ Ea P p Ha)|].
    destruct (test_zero ta s1) as [[z s2]|] eqn:T1; [|discriminate].
    destruct (xrun_cmpz P ta _ s1 k1 m1 z s2 T1 Hc1) as [S1 Z1]. eapply xstar_trans; [exact S1|].
    cbn [msize]. go (x_jnz P _ _ s2 k1 m1 _ Hj1). rewrite Z1.
    destruct z.
    + destruct (mrun rbp b (s2, k1, m1)) as [[[s3 k3] m3]|] eqn:Eb; [|discriminate].
      destruct (test_zero tb s3) as [[z2 s4]|] eqn:T2; [|discriminate]. injection H as <-.
      apply (xemb_at _ _ (p + msize a + 2)%nat) in Hb; [|lia].
      eapply xstar_trans; [eapply xstar_start; [apply (IHb _ _ Eb P _ Hb)|lia]|].
      apply (xemb_at _ _ (p + msize a + 2 + msize b)%nat) in Hc2; [|lia].
      destruct (xrun_cmpz P tb _ s3 k3 m3 z2 s4 T2 Hc2) as [S2 Z2]. eapply xstar_trans; [exact S2|].
      go (x_jnz P _ _ s4 k3 m3 _ Hj2). rewrite Z2.
      destruct z2.
      * go (x_imm P _ _ s4 k3 m3 _ Hm1). eapply xstar_end; [apply (x_jmp P _ _ _ _ _ _ Hje); lia|lia].
      * eapply xstar_end; [apply (x_imm P _ _ _ _ _ _ Hm0); lia|lia].
    + injection H as <-. eapply xstar_end; [apply (x_imm P _ _ _ _ _ _ Hm0); lia|lia].
  - (* ?: *)
    destruct st' as [[sF kF] mF]. destruct (mrun rbp c (s, k, m)) as [[[s1 k1] m1]|] eqn:Ec; [|discriminate].
    apply xemb_app in Hemb. destruct Hemb as [Hc Hr]. rewrite mflatten_length in Hr.
    apply xemb_app in Hr. destruct Hr as [Hc1 Hr]. cbn [xcmpz gen_cmp_zero map length] in Hr.
    apply xemb_cons in Hr. destruct Hr as [Hj1 Hr].
    apply xemb_app in Hr. destruct Hr as [Ha Hr]. rewrite mflatten_length in Hr.
    apply xemb_cons in Hr. destruct Hr as [Hje Hb].
    eapply xstar_trans; [apply (IHc _ _ Ec P p Hc)|].
    destruct (test_zero tc s1) as [[z s2]|] eqn:T1; [|discriminate].
    destruct (xrun_cmpz P tc _ s1 k1 m1 z s2 T1 Hc1) as [S1 Z1]. eapply xstar_trans; [exact S1|].
    cbn [msize]. go (x_jz P _ _ s2 k1 m1 _ Hj1). rewrite Z1.
    destruct z.
    + apply (xemb_at _ _ (p + msize c + 2 + msize a + 1)%nat) in Hb; [|lia].
      eapply xstar_end; [eapply xstar_start; [apply (IHb _ _ H P _ Hb)|lia]|lia].
    + apply (xemb_at _ _ (p + msize c + 2)%nat) in Ha; [|lia].
      eapply xstar_trans; [eapply xstar_start; [apply (IHa _ _ H P _ Ha)|lia]|].
      eapply xstar_end; [apply (x_jmp P _ _ _ _ _ _ Hje); lia|lia].
Qed.
End Flat.

(* value, side effects and control together: the jump code of a whole expression over objects, placed
   anywhere in a larger program, computes the C11 value and performs the C11 side effects *)
Theorem mexpr_code_correct : forall F e env v env',
  wf_frame F -> vars_in (nvars F) e = true -> temps_fit F e ->
  meval (ftys F) env e = Some (v, env') ->
  forall P p, xembedded P p (mflatten (mcompile F e) p) ->
  forall s k m, agree F env m ->
  exists s' m', xstar (frbp F) P (p, (s, k, m)) ((p + msize (mcompile F e))%nat, (s', k, m')) /\
                R (mtype (ftys F) e) v (rax s') /\ agree F env' m' /\ unchanged_outside F m m'.
Proof.
  intros F e env v env' WF Hv Ht H P p Hemb s k m Ha.
  destruct (mcompile_correct F e env v env' WF Hv Ht H s k m Ha) as (s' & m' & Hr & HR & Ha' & Hu).
  exists s', m'. split; [|auto]. apply (mflatten_simulates (frbp F) _ _ _ Hr P p Hemb).
Qed.
