(* The code gen_expr composes for an integer expression over local variables - reads, =, op=, ++, --
   included - computes the C11 value AND the C11 side effects: by induction on the expression, from
   the per-operator theorems of CodegenIntProofs / CastTableProofs and the byte-memory lemmas below. *)
From Coq Require Import ZArith Bool List Lia.
From Chibicc Require Import Base.Mach Spec.C11Int Spec.C11IntMem Model.X86Int Model.CodegenInt Gen.CastTable
     Model.ConstFold Proofs.ConstFoldProofs Proofs.CastTableProofs Proofs.CodegenIntProofs Model.ExprGen Proofs.ExprGenProofs Model.ExprMem.
Import ListNotations.
Local Open Scope Z_scope.

(* ====================== little-endian byte memory ====================== *)

Lemma store_le_other : forall n m a v p, p < a \/ a + Z.of_nat n <= p -> store_le m a n v p = m p.
Proof.
  induction n as [|n IH]; intros m a v p Hp; cbn [store_le]; [reflexivity|].
  rewrite IH by lia. destruct (Z.eqb_spec p a) as [E|E]; [lia|reflexivity].
Qed.

Lemma load_le_ext : forall n m m' a, (forall p, a <= p < a + Z.of_nat n -> m p = m' p) -> load_le m a n = load_le m' a n.
Proof.
  induction n as [|n IH]; intros m m' a H; cbn [load_le]; [reflexivity|].
  rewrite (H a) by lia. rewrite (IH m m' (a + 1)); [reflexivity|]. intros p Hp. apply H. lia.
Qed.

Lemma load_le_range : forall n m a, 0 <= load_le m a n < 256 ^ Z.of_nat n.
Proof.
  induction n as [|n IH]; intros m a; cbn [load_le].
  - cbn. lia.
  - rewrite Nat2Z.inj_succ, Z.pow_succ_r by lia. specialize (IH m (a + 1)).
    pose proof (Z.mod_pos_bound (m a) 256 ltac:(lia)). nia.
Qed.

Lemma load_store_same : forall n m a v, load_le (store_le m a n v) a n = v mod 256 ^ Z.of_nat n.
Proof.
  induction n as [|n IH]; intros m a v.
  - cbn [load_le store_le]. cbn. rewrite Z.mod_1_r. reflexivity.
  - cbn [load_le store_le]. rewrite IH. rewrite store_le_other by lia.
    destruct (Z.eqb_spec a a) as [_|N]; [|congruence].
    rewrite Nat2Z.inj_succ, Z.pow_succ_r by lia.
    assert (Hp : 0 < 256 ^ Z.of_nat n) by (apply Z.pow_pos_nonneg; lia).
    rewrite (Z.rem_mul_r v 256 (256 ^ Z.of_nat n)) by lia.
    rewrite Z.mod_mod by lia. reflexivity.
Qed.

(* a store does not change a load from a disjoint range (property C04: no neighbouring object is disturbed) *)
Theorem store_disjoint : forall m a1 n1 a2 n2 v,
  a2 + Z.of_nat n2 <= a1 \/ a1 + Z.of_nat n1 <= a2 ->
  load_le (store_le m a2 n2 v) a1 n1 = load_le m a1 n1.
Proof.
  intros m a1 n1 a2 n2 v H. apply load_le_ext. intros p Hp. apply store_le_other. lia.
Qed.

(* and changes no byte outside its own range at all *)
Theorem store_outside : forall m a n v p, ~ (a <= p < a + Z.of_nat n) -> store_le m a n v p = m p.
Proof. intros m a n v p H. apply store_le_other. lia. Qed.

(* ====================== frames, agreement of store and memory ====================== *)

Definition nbytes (t : ity) : nat := Z.to_nat (size_of t).
(* object representation of a value of type t: two's complement in size_of t bytes *)
Definition urepr (t : ity) (v : Z) : Z := v mod 256 ^ Z.of_nat (nbytes t).

Definition nvars (F : frame) : nat := length (fvars F).
Definition ntmps (F : frame) : nat := length (ftemps F).

Definition sep (a1 n1 a2 n2 : Z) : Prop := a1 + n1 <= a2 \/ a2 + n2 <= a1.

Definition wf_frame (F : frame) : Prop :=
  (forall x, (x < nvars F)%nat -> 0 <= vaddr F x /\ vaddr F x + vsize F x <= 2 ^ 64) /\
  (forall i, (i < ntmps F)%nat -> 0 <= taddr F i /\ taddr F i + tsize F i <= 2 ^ 64) /\
  (forall x y, (x < nvars F)%nat -> (y < nvars F)%nat -> x <> y -> sep (vaddr F x) (vsize F x) (vaddr F y) (vsize F y)) /\
  (forall x i, (x < nvars F)%nat -> (i < ntmps F)%nat -> sep (vaddr F x) (vsize F x) (taddr F i) (tsize F i)) /\
  (forall i j, (i < ntmps F)%nat -> (j < ntmps F)%nat -> i <> j -> sep (taddr F i) (tsize F i) (taddr F j) (tsize F j)).

(* a decision procedure for wf_frame *)
Definition sepb (a1 n1 a2 n2 : Z) : bool := (a1 + n1 <=? a2) || (a2 + n2 <=? a1).
Definition wf_frameb (F : frame) : bool :=
  let vs := seq 0 (nvars F) in let ts := seq 0 (ntmps F) in
  forallb (fun x => (0 <=? vaddr F x) && (vaddr F x + vsize F x <=? 2 ^ 64)) vs &&
  forallb (fun i => (0 <=? taddr F i) && (taddr F i + tsize F i <=? 2 ^ 64)) ts &&
  forallb (fun x => forallb (fun y => Nat.eqb x y || sepb (vaddr F x) (vsize F x) (vaddr F y) (vsize F y)) vs) vs &&
  forallb (fun x => forallb (fun i => sepb (vaddr F x) (vsize F x) (taddr F i) (tsize F i)) ts) vs &&
  forallb (fun i => forallb (fun j => Nat.eqb i j || sepb (taddr F i) (tsize F i) (taddr F j) (tsize F j)) ts) ts.

Lemma sepb_sep a1 n1 a2 n2 : sepb a1 n1 a2 n2 = true -> sep a1 n1 a2 n2.
Proof. unfold sepb, sep. intros H. apply orb_true_iff in H. lia. Qed.

Lemma in_seq0 x n : (x < n)%nat -> In x (seq 0 n).
Proof. intros H. apply in_seq. lia. Qed.

Lemma wf_frameb_sound F : wf_frameb F = true -> wf_frame F.
Proof.
  unfold wf_frameb. intros H.
  apply andb_true_iff in H as [H H5]. apply andb_true_iff in H as [H H4].
  apply andb_true_iff in H as [H H3]. apply andb_true_iff in H as [H1 H2].
  rewrite forallb_forall in H1, H2, H3, H4, H5.
  split; [|split; [|split; [|split]]].
  - intros x Hx. specialize (H1 x (in_seq0 _ _ Hx)). lia.
  - intros i Hi. specialize (H2 i (in_seq0 _ _ Hi)). lia.
  - intros x y Hx Hy Hxy. specialize (H3 x (in_seq0 _ _ Hx)). rewrite forallb_forall in H3.
    specialize (H3 y (in_seq0 _ _ Hy)). apply orb_true_iff in H3 as [E|E]; [apply Nat.eqb_eq in E; contradiction|apply sepb_sep; exact E].
  - intros x i Hx Hi. specialize (H4 x (in_seq0 _ _ Hx)). rewrite forallb_forall in H4.
    apply sepb_sep. apply H4. apply in_seq0. exact Hi.
  - intros i j Hi Hj Hij. specialize (H5 i (in_seq0 _ _ Hi)). rewrite forallb_forall in H5.
    specialize (H5 j (in_seq0 _ _ Hj)). apply orb_true_iff in H5 as [E|E]; [apply Nat.eqb_eq in E; contradiction|apply sepb_sep; exact E].
Qed.

(* every variable's bytes are the little-endian representation of its value, which is a value of its type *)
Definition agree (F : frame) (env : venv) (m : mem) : Prop :=
  length env = nvars F /\
  forall x, (x < nvars F)%nat ->
    in_range (vty (ftys F) x) (vget env x) = true /\
    load_le m (vaddr F x) (nbytes (vty (ftys F) x)) = urepr (vty (ftys F) x) (vget env x).

Definition in_var (F : frame) (p : Z) : Prop := exists x, (x < nvars F)%nat /\ vaddr F x <= p < vaddr F x + vsize F x.
Definition in_temp (F : frame) (lo hi : nat) (p : Z) : Prop :=
  exists i, (lo <= i < hi)%nat /\ taddr F i <= p < taddr F i + tsize F i.
(* only bytes of variables and of the temporaries lo .. hi-1 may differ *)
Definition touch_only (F : frame) (lo hi : nat) (m m' : mem) : Prop :=
  forall p, ~ in_var F p -> ~ in_temp F lo hi p -> m' p = m p.
Definition unchanged_outside (F : frame) (m m' : mem) : Prop := touch_only F 0 (ntmps F) m m'.

Lemma touch_refl F lo hi m : touch_only F lo hi m m.
Proof. intros p _ _. reflexivity. Qed.

Lemma touch_trans F lo hi lo1 hi1 lo2 hi2 m1 m2 m3 :
  touch_only F lo1 hi1 m1 m2 -> touch_only F lo2 hi2 m2 m3 ->
  (lo <= lo1)%nat -> (hi1 <= hi)%nat -> (lo <= lo2)%nat -> (hi2 <= hi)%nat ->
  touch_only F lo hi m1 m3.
Proof.
  intros H1 H2 A B C D p Hv Ht. rewrite H2, H1; auto.
  - intros (i & Hi & Hp). apply Ht. exists i. split; [lia|exact Hp].
  - intros (i & Hi & Hp). apply Ht. exists i. split; [lia|exact Hp].
Qed.

Lemma touch_mono F lo hi lo1 hi1 m1 m2 :
  touch_only F lo1 hi1 m1 m2 -> (lo <= lo1)%nat -> (hi1 <= hi)%nat -> touch_only F lo hi m1 m2.
Proof. intros H A B. eapply touch_trans; [exact H|apply (touch_refl F lo hi)| | | |]; lia. Qed.

Lemma vsize_nbytes F x : Z.of_nat (nbytes (vty (ftys F) x)) = vsize F x.
Proof. unfold nbytes, vsize. destruct (vty (ftys F) x); reflexivity. Qed.

Lemma vset_length : forall env x v, length (vset env x v) = length env.
Proof. induction env as [|a env IH]; intros [|x] v; cbn [vset length]; auto. Qed.

Lemma vget_vset_same : forall env x v, (x < length env)%nat -> vget (vset env x v) x = v.
Proof.
  unfold vget. induction env as [|a env IH]; intros [|x] v H; cbn [vset length nth] in *; try lia; auto.
  apply IH. lia.
Qed.

Lemma vget_vset_other : forall env x y v, x <> y -> vget (vset env x v) y = vget env y.
Proof.
  unfold vget. induction env as [|a env IH]; intros [|x] [|y] v H; cbn [vset nth]; try congruence; auto.
Qed.

(* ---------- a store to a variable ---------- *)
Lemma store_var_agree F env m x v r :
  wf_frame F -> agree F env m -> (x < nvars F)%nat ->
  in_range (vty (ftys F) x) v = true -> r mod 256 ^ Z.of_nat (nbytes (vty (ftys F) x)) = urepr (vty (ftys F) x) v ->
  agree F (vset env x v) (store_le m (vaddr F x) (nbytes (vty (ftys F) x)) r).
Proof.
  intros (_ & _ & Wvv & _ & _) [Hl Ha] Hx Hr Hrep. split; [rewrite vset_length; exact Hl|].
  intros y Hy. destruct (Nat.eq_dec x y) as [<-|N].
  - rewrite vget_vset_same by lia. split; [exact Hr|]. rewrite load_store_same. exact Hrep.
  - rewrite vget_vset_other by exact N. destruct (Ha y Hy) as [A B]. split; [exact A|].
    rewrite store_disjoint; [exact B|]. rewrite !vsize_nbytes. specialize (Wvv x y Hx Hy N). unfold sep in Wvv. lia.
Qed.

Lemma store_var_touch F lo hi m x n r : (x < nvars F)%nat -> Z.of_nat n = vsize F x ->
  touch_only F lo hi m (store_le m (vaddr F x) n r).
Proof.
  intros Hx Hn p Hv _. apply store_outside. intros Hp. apply Hv. exists x. split; [exact Hx|lia].
Qed.

(* ---------- a store to a temporary ---------- *)
Lemma store_temp_agree F env m i n r :
  wf_frame F -> agree F env m -> (i < ntmps F)%nat -> Z.of_nat n = tsize F i -> agree F env (store_le m (taddr F i) n r).
Proof.
  intros (_ & _ & _ & Wvt & _) [Hl Ha] Hi Hn. split; [exact Hl|]. intros y Hy. destruct (Ha y Hy) as [A B]. split; [exact A|].
  rewrite store_disjoint; [exact B|]. rewrite vsize_nbytes. specialize (Wvt y i Hy Hi). unfold sep in Wvt. lia.
Qed.

Lemma store_temp_touch F lo hi m i n r : (lo <= i < hi)%nat -> Z.of_nat n = tsize F i -> touch_only F lo hi m (store_le m (taddr F i) n r).
Proof.
  intros Hi Hn p _ Ht. apply store_outside. intros Hp. apply Ht. exists i. split; [exact Hi|]. lia.
Qed.

(* a temporary outside lo..hi-1 keeps its content *)
Lemma touch_keeps_temp F lo hi m m' i n :
  wf_frame F -> touch_only F lo hi m m' -> (i < ntmps F)%nat -> (i < lo \/ hi <= i)%nat -> (hi <= ntmps F)%nat ->
  Z.of_nat n = tsize F i ->
  load_le m' (taddr F i) n = load_le m (taddr F i) n.
Proof.
  intros (_ & _ & _ & Wvt & Wtt) Ht Hi Hout Hhi Hn. apply load_le_ext. intros p Hp. apply Ht.
  - intros (x & Hx & Hxp). specialize (Wvt x i Hx Hi). unfold sep in Wvt. lia.
  - intros (j & Hj & Hjp). assert (Hji : j <> i) by lia. specialize (Wtt j i ltac:(lia) Hi Hji). unfold sep in Wtt. lia.
Qed.

(* ====================== typing: type.c = C11 ====================== *)
Theorem mm_type_is_c11 G e : mm_type G e = mtype G e.
Proof.
  induction e as [t v|x|o a IH|o a IHa b IHb|t a IH|c IHc a IHa b IHb|a IHa b IHb|x a IH|o x a IH|post inc x];
    cbn [mm_type mtype]; auto.
  - destruct o; rewrite ?IH, ?m_promote, ?plus_promote; reflexivity.
  - rewrite IHa, IHb. destruct (is_arith o); [apply m_common_is_uac|].
    destruct (is_shift o); [apply m_promote|reflexivity].
  - rewrite IHa, IHb. apply m_common_is_uac.
Qed.

(* ====================== values stay in the range of their type ====================== *)
Lemma binval_range o ta tb x y v : in_range ta x = true -> in_range tb y = true ->
  eval_binval o ta tb x y = Some v -> in_range (type_of (Bin o (Lit ta x) (Lit tb y))) v = true.
Proof.
  intros Hx Hy H. apply range_eval. unfold eval_binval in H.
  destruct o; cbn [is_arith is_shift is_cmp] in H; try discriminate H; cbn [eval type_of]; rewrite Hx, Hy; cbn [is_arith is_shift]; exact H.
Qed.

Lemma unval_range o ta x v : in_range ta x = true ->
  eval_unval o ta x = Some v -> in_range (type_of (Un o (Lit ta x))) v = true.
Proof.
  intros Hx H. apply range_eval. unfold eval_unval in H. destruct o; cbn [eval type_of]; rewrite Hx; exact H.
Qed.

Lemma read_var_range G env x v : read_var G env x = Some v -> in_range (vty G x) v = true /\ v = vget env x.
Proof. unfold read_var. destruct (in_range _ _) eqn:E; [|discriminate]. intros H. injection H as <-. auto. Qed.

Lemma range_meval G : forall e env v env', meval G env e = Some (v, env') -> in_range (mtype G e) v = true.
Proof.
  induction e as [t v0|x|o a IH|o a IHa b IHb|t a IH|c IHc a IHa b IHb|a IHa b IHb|x a IH|o x a IH|post inc x];
    intros env v env' H.
  - cbn [meval] in H. destruct (in_range t v0) eqn:E; [|discriminate]. injection H as <- _. exact E.
  - cbn [meval] in H. destruct (read_var G env x) as [xv|] eqn:E; [|discriminate]. injection H as <- _.
    apply read_var_range in E. apply E.
  - cbn [meval] in H. destruct (meval G env a) as [[xv env1]|] eqn:Ea; [|discriminate].
    destruct (eval_unval o (mtype G a) xv) as [r|] eqn:Er; [|discriminate]. injection H as <- _.
    pose proof (unval_range o _ _ _ (IH _ _ _ Ea) Er) as Hr. destruct o; exact Hr.
  - assert (Hgen : forall x y, in_range (mtype G a) x = true -> in_range (mtype G b) y = true ->
                   eval_binval o (mtype G a) (mtype G b) x y = Some v -> in_range (mtype G (MBin o a b)) v = true).
    { intros x y Hx Hy Hv. exact (binval_range o _ _ _ _ _ Hx Hy Hv). }
    destruct o; cbn [meval lhs_first] in H;
      try (destruct (norace a b); [|discriminate];
           try (destruct (meval G env b) as [[y env1]|] eqn:Eb; [|discriminate];
                destruct (meval G env1 a) as [[x env2]|] eqn:Ea; [|discriminate]);
           try (destruct (meval G env a) as [[x env1]|] eqn:Ea; [|discriminate];
                destruct (meval G env1 b) as [[y env2]|] eqn:Eb; [|discriminate]);
           match type of H with context [eval_binval ?o' _ _ _ _] => destruct (eval_binval o' (mtype G a) (mtype G b) x y) as [r|] eqn:Er; [|discriminate] end;
           injection H as <- _; eapply Hgen; [eapply IHa; exact Ea|eapply IHb; exact Eb|exact Er]).
    + destruct (meval G env a) as [[x env1]|] eqn:Ea; [|discriminate]. destruct (x =? 0).
      * injection H as <- _. reflexivity.
      * destruct (meval G env1 b) as [[y env2]|] eqn:Eb; [|discriminate]. injection H as <- _. cbn [mtype is_arith is_shift]. apply b2z_range.
    + destruct (meval G env a) as [[x env1]|] eqn:Ea; [|discriminate]. destruct (negb (x =? 0)).
      * injection H as <- _. reflexivity.
      * destruct (meval G env1 b) as [[y env2]|] eqn:Eb; [|discriminate]. injection H as <- _. cbn [mtype is_arith is_shift]. apply b2z_range.
  - cbn [meval] in H. destruct (meval G env a) as [[xv env1]|]; [|discriminate]. injection H as <- _. apply conv_range.
  - cbn [meval] in H. destruct (meval G env c) as [[xv env1]|]; [|discriminate].
    destruct (meval G env1 _) as [[y env2]|]; [|discriminate]. injection H as <- _. apply conv_range.
  - cbn [meval] in H. destruct (meval G env a) as [[xv env1]|]; [|discriminate]. eapply IHb. exact H.
  - cbn [meval] in H. destruct (mem_nat x (writes a)); [discriminate|].
    destruct (meval G env a) as [[y env1]|]; [|discriminate]. injection H as <- _. apply conv_range.
  - cbn [meval] in H. destruct (_ || _); [discriminate|].
    destruct (meval G env a) as [[y env1]|]; [|discriminate]. destruct (read_var G env1 x); [|discriminate].
    destruct (eval_binval _ _ _ _ _); [|discriminate]. injection H as <- _. apply conv_range.
  - cbn [meval] in H. destruct (read_var G env x) as [xv|] eqn:E; [|discriminate].
    destruct (eval_binval _ _ _ _ _); [|discriminate]. injection H as <- _.
    destruct post; [apply read_var_range in E; apply E|apply conv_range].
Qed.

(* ====================== loads and stores by type ====================== *)
Ltac bytes_pow :=
  repeat match goal with
  | |- context [256 ^ Z.of_nat (nbytes ?t)] =>
    let c := eval vm_compute in (256 ^ Z.of_nat (nbytes t)) in change (256 ^ Z.of_nat (nbytes t)) with c
  | H : context [256 ^ Z.of_nat (nbytes ?t)] |- _ =>
    let c := eval vm_compute in (256 ^ Z.of_nat (nbytes t)) in change (256 ^ Z.of_nat (nbytes t)) with c in H
  end.

Lemma ld_bytes_kind t : ld_bytes (load_kind t) = nbytes t. Proof. destruct t; reflexivity. Qed.
Lemma st_bytes_kind t : st_bytes (store_kind t) = nbytes t. Proof. destruct t; reflexivity. Qed.
Lemma size_pos t : 0 < size_of t. Proof. destruct t; reflexivity. Qed.

(* load(ty): the loaded and extended object representation represents the value *)
Lemma load_R t v : in_range t v = true -> R t v (ld_ext (load_kind t) (urepr t v)).
Proof.
  intros Hr. unfold urepr. destruct t; bytes_pow; cbn [load_kind size_of Z.eqb Pos.eqb unsigned_flag ld_ext];
    unfold_x; unfold_ty; pows;
    repeat match goal with |- context [if ?c then _ else _] => destruct c eqn:? end; lia.
Qed.

(* store(ty): the low bytes of a register representing v are the object representation of v *)
Lemma R_urepr t v r : in_range t v = true -> R t v r -> r mod 256 ^ Z.of_nat (nbytes t) = urepr t v.
Proof.
  intros Hr [Hb HR]. unfold urepr. destruct t; bytes_pow; unfold_ty; pows; lia.
Qed.

(* ====================== running the code ====================== *)
Section Code.
Variable F : frame.
Hypothesis WF : wf_frame F.
Local Notation G := (ftys F).
Local Notation run := (mrun (frbp F)).

(* from any registers and stack, and a memory satisfying P: the code ends with the stack as found,
   the representation of v (of type t) in %rax and a memory satisfying Q *)
Definition runs (c : mcode) (t : ity) (v : Z) (P Q : mem -> Prop) : Prop :=
  forall s k m, P m -> exists s' m', run c (s, k, m) = Some (s', k, m') /\ R t v (rax s') /\ Q m'.

Lemma mrun_seq a b st : run (a ;;; b) st = match run a st with Some st' => run b st' | None => None end.
Proof. destruct st as [[s k] m]. reflexivity. Qed.
Lemma mrun_assoc a b c st : run ((a ;;; b) ;;; c) st = run (a ;;; b ;;; c) st.
Proof.
  rewrite (mrun_seq (a ;;; b) c), (mrun_seq a b), (mrun_seq a (b ;;; c)).
  destruct (run a st) as [st'|]; [rewrite mrun_seq; reflexivity|reflexivity].
Qed.
Lemma mrun_push c s k m : run (CPush ;;; c) (s, k, m) = run c (s, rax s :: k, m). Proof. reflexivity. Qed.
Lemma mrun_pop c s v k m : run (CPopRdi ;;; c) (s, v :: k, m) = run c (set_rdi s v, k, m). Proof. reflexivity. Qed.
Lemma mrun_lea c off s k m : run (CLea off ;;; c) (s, k, m) = run c (set_rax s ((frbp F + off) mod 2 ^ 64), k, m). Proof. reflexivity. Qed.
Lemma mrun_ins p s k m s' : exec p s = Some s' -> run (CIns p) (s, k, m) = Some (s', k, m).
Proof. intros H. cbn [mrun]. rewrite H. reflexivity. Qed.

Lemma mrun_cast from to v s k m : in_range from v = true -> R from v (rax s) ->
  exists s', run (mcast from to) (s, k, m) = Some (s', k, m) /\ R to (conv to v) (rax s').
Proof.
  intros Hr HR. destruct (cast_table_correct from to v s Hr HR) as (p & s' & Hp & He & HR').
  exists s'. split; [|exact HR']. unfold mcast. rewrite Hp. apply mrun_ins. exact He.
Qed.

Lemma mrun_done p t v s k m : done s p t v -> exists s', run (CIns p) (s, k, m) = Some (s', k, m) /\ R t v (rax s').
Proof. intros (s' & He & HR). exists s'. split; [apply mrun_ins; exact He|exact HR]. Qed.

Lemma runs_weaken c t v (P P' Q Q' : mem -> Prop) :
  runs c t v P Q -> (forall m, P' m -> P m) -> (forall m, Q m -> Q' m) -> runs c t v P' Q'.
Proof.
  intros H HP HQ s k m Hm. destruct (H s k m (HP m Hm)) as (s' & m' & E & HR & Hq). exists s', m'. auto.
Qed.

Lemma runs_cast c t x t' (P Q : mem -> Prop) : runs c t x P Q -> in_range t x = true -> runs (c ;;; mcast t t') t' (conv t' x) P Q.
Proof.
  intros H Hr s k m Hm. destruct (H s k m Hm) as (s1 & m1 & E1 & R1 & Q1). rewrite mrun_seq, E1.
  destruct (mrun_cast t t' x s1 k m1 Hr R1) as (s2 & E2 & R2). exists s2, m1. auto.
Qed.

Lemma runs_ins c t x p t' v (P Q : mem -> Prop) : runs c t x P Q ->
  (forall s, R t x (rax s) -> done s p t' v) -> runs (c ;;; CIns p) t' v P Q.
Proof.
  intros H Hd s k m Hm. destruct (H s k m Hm) as (s1 & m1 & E1 & R1 & Q1). rewrite mrun_seq, E1.
  destruct (mrun_done p t' v s1 k m1 (Hd s1 R1)) as (s2 & E2 & R2). exists s2, m1. auto.
Qed.

Lemma runs_assoc a b c t v (P Q : mem -> Prop) : runs ((a ;;; b) ;;; c) t v P Q -> runs (a ;;; b ;;; c) t v P Q.
Proof. intros H s k m Hm. rewrite <- mrun_assoc. apply H. exact Hm. Qed.

(* ---------- addresses ---------- *)
Lemma lea_var x : (x < nvars F)%nat -> (frbp F + voff F x) mod 2 ^ 64 = vaddr F x.
Proof.
  intros Hx. destruct WF as (Wv & _). specialize (Wv x Hx). unfold vaddr in *. pose proof (size_pos (vty G x)). unfold vsize in Wv.
  apply Z.mod_small. lia.
Qed.
Lemma tk_size_pos k : 0 < tk_size k. Proof. destruct k as [|t]; [reflexivity|apply size_pos]. Qed.
Lemma lea_temp i : (i < ntmps F)%nat -> (frbp F + toff F i) mod 2 ^ 64 = taddr F i.
Proof.
  intros Hi. destruct WF as (_ & Wt & _). specialize (Wt i Hi). unfold taddr in *. pose proof (tk_size_pos (tkind_at F i)). unfold tsize in Wt.
  apply Z.mod_small. lia.
Qed.
Lemma valid_var x : (x < nvars F)%nat -> valid_addr (vaddr F x) (nbytes (vty G x)) = true.
Proof.
  intros Hx. destruct WF as (Wv & _). specialize (Wv x Hx). unfold valid_addr. rewrite vsize_nbytes. lia.
Qed.
Lemma valid_temp i n : (i < ntmps F)%nat -> Z.of_nat n = tsize F i -> valid_addr (taddr F i) n = true.
Proof.
  intros Hi Hn. destruct WF as (_ & Wt & _). specialize (Wt i Hi). unfold valid_addr. lia.
Qed.

(* ---------- ND_VAR: gen_addr ; load ---------- *)
Lemma run_var x env s k m : (x < nvars F)%nat -> agree F env m ->
  exists s', run (CLea (voff F x) ;;; CLoad (load_kind (vty G x))) (s, k, m) = Some (s', k, m) /\ R (vty G x) (vget env x) (rax s').
Proof.
  intros Hx [_ Ha]. destruct (Ha x Hx) as [Hr Hl]. rewrite mrun_lea, (lea_var x Hx). cbn [mrun rax set_rax].
  rewrite ld_bytes_kind, (valid_var x Hx), Hl. eexists. split; [reflexivity|]. cbn [rax set_rax]. apply load_R. exact Hr.
Qed.

(* ---------- store(ty) into variable x whose address is in %rdi ---------- *)
Lemma run_store x env v s k m lo hi : (x < nvars F)%nat -> agree F env m ->
  in_range (vty G x) v = true -> R (vty G x) v (rax s) -> rdi s = vaddr F x ->
  exists m', run (CStore (store_kind (vty G x))) (s, k, m) = Some (s, k, m') /\
             agree F (vset env x v) m' /\ touch_only F lo hi m m'.
Proof.
  intros Hx Ha Hr HR Hd. cbn [mrun]. rewrite st_bytes_kind, Hd, (valid_var x Hx). eexists. split; [reflexivity|]. split.
  - apply store_var_agree; auto. apply R_urepr; assumption.
  - apply store_var_touch; [exact Hx|apply vsize_nbytes].
Qed.

(* ---------- the shared shape of all two-operand operators; c2 runs first ---------- *)
Lemma run_mcbin o t c1 t1 c2 t2 x1 x2 (castb : bool) tres v (P0 P1 P2 : mem -> Prop) :
  runs c2 t2 x2 P0 P1 -> runs c1 t1 x1 P1 P2 -> in_range t1 x1 = true -> in_range t2 x2 = true ->
  (forall s, R t (conv t x1) (rax s) -> R (if castb then t else t2) (if castb then conv t x2 else x2) (rdi s) -> done s (gen_binop o t) tres v) ->
  runs (mcbin o t c1 t1 c2 t2 castb) tres v P0 P2.
Proof.
  intros H2 H1 R1 R2 Hop s k m Hm. unfold mcbin. rewrite mrun_seq.
  destruct (H2 s k m Hm) as (s1 & m1 & E1 & V1 & Q1). rewrite E1. rewrite mrun_seq.
  assert (exists s2, run (if castb then mcast t2 t else CIns []) (s1, k, m1) = Some (s2, k, m1) /\
                     R (if castb then t else t2) (if castb then conv t x2 else x2) (rax s2)) as (s2 & E2 & V2).
  { destruct castb; [apply mrun_cast; assumption|]. exists s1. split; [reflexivity|exact V1]. }
  rewrite E2. rewrite mrun_push, mrun_seq.
  destruct (H1 s2 (rax s2 :: k) m1 Q1) as (s3 & m3 & E3 & V3 & Q3). rewrite E3. rewrite mrun_seq.
  destruct (mrun_cast t1 t x1 s3 (rax s2 :: k) m3 R1 V3) as (s4 & E4 & V4). rewrite E4. rewrite mrun_pop.
  destruct (mrun_done (gen_binop o t) tres v (set_rdi s4 (rax s2)) k m3) as (s5 & E5 & V5).
  { apply Hop; cbn [rax rdi set_rdi]; assumption. }
  exists s5, m3. auto.
Qed.

Lemma bin_code_ok o ca ta cb tb x y v (P0 P1 P2 : mem -> Prop) :
  eval_binval o ta tb x y = Some v -> in_range ta x = true -> in_range tb y = true ->
  (if lhs_first o then runs ca ta x P0 P1 /\ runs cb tb y P1 P2 else runs cb tb y P0 P1 /\ runs ca ta x P1 P2) ->
  runs (bin_code o ca ta cb tb) (bin_type o ta tb) v P0 P2.
Proof.
  intros H Rx Ry Hr. unfold eval_binval in H.
  destruct o; cbn [is_arith is_shift is_cmp lhs_first] in H, Hr; try discriminate H; destruct Hr as [Hr1 Hr2];
    unfold bin_code, bin_type; cbn [is_arith is_shift]; rewrite ?m_promote, ?m_common_is_uac.
  (* arithmetic and bitwise *)
  1-8: apply run_mcbin with (x1 := x) (x2 := y) (P1 := P1); try assumption;
       intros s HA HB; apply arith_codegen_ok with (a := conv (uac ta tb) x) (b := conv (uac ta tb) y);
       [apply uac_big|reflexivity|apply conv_range|apply conv_range|exact HA|exact HB|exact H].
  (* shifts *)
  1-2: apply run_mcbin with (x1 := x) (x2 := y) (P1 := P1); try assumption;
       intros s HA HB; rewrite (conv_in_range _ _ (promote_range _ _ Rx)) in HA;
       apply shift_codegen_ok with (a := x) (tn := tb) (nv := y);
       [apply promote_big|reflexivity|apply promote_range; exact Rx|exact Ry|exact HA|exact HB|exact H].
  (* == != < <= *)
  1-4: injection H as <-; apply run_mcbin with (x1 := x) (x2 := y) (P1 := P1); try assumption;
       intros s HA HB;
       match goal with |- done s (gen_binop ?o' ?t') _ _ =>
         exact (cmp_ok t' (uac_big _ _) _ _ s (conv_range _ _) (conv_range _ _) HA HB o' eq_refl ltac:(discriminate) ltac:(discriminate)) end.
  (* > >= : the parser's swap *)
  1-2: injection H as <-; rewrite (uac_comm ta tb);
       apply run_mcbin with (x1 := y) (x2 := x) (P1 := P1); try assumption;
       intros s HA HB;
       match goal with |- done s (gen_binop ?o' ?t') _ _ =>
         exact (cmp_ok t' (uac_big _ _) _ _ s (conv_range _ _) (conv_range _ _) HA HB o' eq_refl ltac:(discriminate) ltac:(discriminate)) end.
Qed.
End Code.
