(* C03 (package sw): parse.c's bookkeeping (brk_label / cont_label / current_switch saved and
   restored, unique label names from two counters, case list, labels list) followed by gen_stmt's
   labelled code and the assembler is the position-level generator sgen of Model/LoweringSw.v. *)
From Coq Require Import List Arith Bool Lia.
Import ListNotations.
From Chibicc Require Import Spec.SwSem Model.LoweringSw Model.LoweringSwParse Proofs.LoweringSwProofs.

Fixpoint pninstr (code : list pitem) : nat :=
  match code with [] => 0 | PI _ :: r => S (pninstr r) | PDef _ :: r => pninstr r end.

(* rho gives every label defined in `code`, placed at position p, the position of its definition *)
Fixpoint pcons (rho : plabel -> nat) (code : list pitem) (p : nat) : Prop :=
  match code with
  | [] => True
  | PI _ :: r => pcons rho r (S p)
  | PDef l :: r => rho l = p /\ pcons rho r p
  end.

Lemma pninstr_app a b : pninstr (a ++ b) = pninstr a + pninstr b.
Proof. induction a as [|[i|l] a IH]; cbn [app pninstr]; [reflexivity|rewrite IH; reflexivity|exact IH]. Qed.
Lemma pasm_app rho a b : pasm rho (a ++ b) = pasm rho a ++ pasm rho b.
Proof. induction a as [|[i|l] a IH]; cbn [app pasm]; [reflexivity|rewrite IH; reflexivity|exact IH]. Qed.
Lemma pdefs_app a b : pdefs (a ++ b) = pdefs a ++ pdefs b.
Proof. induction a as [|[i|l] a IH]; cbn [app pdefs]; [reflexivity|exact IH|rewrite IH; reflexivity]. Qed.
Lemma pasm_length rho code : length (pasm rho code) = pninstr code.
Proof. induction code as [|[i|l] r IH]; cbn [pasm pninstr length]; [reflexivity|rewrite IH; reflexivity|exact IH]. Qed.
Lemma pcons_app rho a : forall b p, pcons rho (a ++ b) p <-> pcons rho a p /\ pcons rho b (p + pninstr a).
Proof.
  induction a as [|[i|l] a IH]; intros b p; cbn [app pcons pninstr].
  - rewrite Nat.add_0_r. tauto.
  - rewrite IH. replace (S p + pninstr a) with (p + S (pninstr a)) by lia. tauto.
  - rewrite IH. tauto.
Qed.

Lemma pmarks_asm rho l : pasm rho (map (fun m => PI (QMark m)) l) = map JMark l.
Proof. induction l as [|m l IH]; cbn [map pasm presolve]; [reflexivity|rewrite IH; reflexivity]. Qed.
Lemma pmarks_ninstr l : pninstr (map (fun m => PI (QMark m)) l) = length l.
Proof. induction l as [|m l IH]; cbn [map pninstr length]; [reflexivity|rewrite IH; reflexivity]. Qed.
Lemma pmarks_defs l : pdefs (map (fun m => PI (QMark m)) l) = [].
Proof. induction l as [|m l IH]; cbn [map pdefs]; [reflexivity|exact IH]. Qed.

Definition rl (rho : plabel -> nat) (o : option plabel) : nat := match o with Some l => rho l | None => 0 end.
Definition rtab (rho : plabel -> nat) (t : list (nat * plabel)) : list (nat * nat) := map (fun e => (fst e, rho (snd e))) t.

Lemma rtab_app rho a b : rtab rho (a ++ b) = rtab rho a ++ rtab rho b.
Proof. apply map_app. Qed.
Lemma rtab_length rho a : length (rtab rho a) = length a.
Proof. apply map_length. Qed.

Lemma slast_app a b : slast (a ++ b) = match slast b with Some q => Some q | None => slast a end.
Proof. unfold slast. rewrite rev_app_distr. destruct (rev b); reflexivity. Qed.
Lemma slast_some_iff l : (exists q, slast l = Some q) <-> length l <> 0.
Proof.
  unfold slast. rewrite <- (rev_length l). destruct (rev l) as [|x r]; cbn [length]; split.
  - intros [q H]. discriminate.
  - intros H. congruence.
  - intros _. discriminate.
  - intros _. exists x. reflexivity.
Qed.

(* the case chain and the jump table resolve pointwise *)
Lemma pchain_asm rho cs : pasm rho (map (fun cl => PI (QCase (fst cl) (snd cl))) cs) = map (fun ct => JCase (fst ct) (snd ct)) (rtab rho cs).
Proof. induction cs as [|[c l] cs IH]; cbn [map pasm presolve rtab fst snd]; [reflexivity|]. unfold rtab in IH. rewrite IH. reflexivity. Qed.
Lemma pchain_ninstr cs : pninstr (map (fun cl => PI (QCase (fst cl) (snd cl))) cs) = length cs.
Proof. induction cs as [|[c l] cs IH]; cbn [map pninstr length]; [reflexivity|rewrite IH; reflexivity]. Qed.
Lemma pchain_defs cs : pdefs (map (fun cl => PI (QCase (fst cl) (snd cl))) cs) = [].
Proof. induction cs as [|[c l] cs IH]; cbn [map pdefs]; [reflexivity|exact IH]. Qed.

(* ---------- the labelled code of a statement, under any label assignment that is right for the
   labels the statement itself defines ---------- *)
Definition plocal_concl (rho : plabel -> nat) (LT : list (nat * nat)) (s : sstmt) (st st' : pstate) (code : list pitem) (p : nat) : Prop :=
  pasm rho code = sgen LT s p (rl rho (ps_brk st)) (rl rho (ps_cont st))
  /\ ps_brk st' = ps_brk st /\ ps_cont st' = ps_cont st
  /\ (exists new, ps_labels st' = new ++ ps_labels st /\ rtab rho new = rev (slabels s p))
  /\ match ps_sw st with
     | None => ps_sw st' = None
     | Some (cs, d) => exists cs' d', ps_sw st' = Some (cs' ++ cs, d') /\ rtab rho cs' = rev (scases s p) /\
                       option_map rho d' = match slast (sdefaults s p) with Some q => Some q | None => option_map rho d end
     end.

Lemma plocal_size rho LT s st st' code p : plocal_concl rho LT s st st' code p -> pninstr code = ssize s.
Proof. intros (H & _). rewrite <- (pasm_length rho), H. apply sgen_length. Qed.

(* a statement that registers nothing *)
Lemma plocal_leaf_sw rho (sw : option (list (nat * plabel) * option plabel)) :
  match sw with
  | None => sw = None
  | Some (cs, d) => exists cs' d', sw = Some (cs' ++ cs, d') /\ rtab rho cs' = rev [] /\
                    option_map rho d' = match slast [] with Some q => Some q | None => option_map rho d end
  end.
Proof. destruct sw as [[cs d]|]; [|reflexivity]. exists [], d. repeat split. Qed.
Lemma plocal_leaf_labels rho (labels : list (nat * plabel)) : exists new, labels = new ++ labels /\ rtab rho new = rev [].
Proof. exists []. split; reflexivity. Qed.

Lemma pcons_marks rho l : forall rest p, pcons rho (map (fun m => PI (QMark m)) l ++ rest) p <-> pcons rho rest (p + length l).
Proof.
  induction l as [|m l IH]; intros rest p; cbn [map app pcons length].
  - rewrite Nat.add_0_r. tauto.
  - rewrite IH. replace (S p + length l) with (p + S (length l)) by lia. tauto.
Qed.

Lemma plocal : forall s st node st' labels c code c' rho p LT,
  pparse s st = Some (node, st') -> pgen labels node c = (code, c') -> pcons rho code p ->
  (forall name, rho (plookup labels name) = slabel_target LT name) ->
  plocal_concl rho LT s st st' code p.
Proof.
  induction s as [n| |a IHa b IHb|k a IHa b IHb|init k inc body IHb|body IHb k| | |k body IHb|cv s1 IHs|s1 IHs|name s1 IHs|name|ki tab];
    intros st node st' labels c code c' rho p LT Hp Hg Hc Hlt; cbn [pparse] in Hp.
  - (* marker *)
    injection Hp as <- <-. cbn [pgen] in Hg. injection Hg as <- <-. unfold plocal_concl. cbn [pasm presolve sgen slabels scases sdefaults].
    repeat split; [apply plocal_leaf_labels|apply plocal_leaf_sw].
  - (* skip *)
    injection Hp as <- <-. cbn [pgen] in Hg. injection Hg as <- <-. unfold plocal_concl. cbn [pasm presolve sgen slabels scases sdefaults].
    repeat split; [apply plocal_leaf_labels|apply plocal_leaf_sw].
  - (* sequence *)
    destruct (pparse a st) as [[a' st1]|] eqn:Ea; [|discriminate]. destruct (pparse b st1) as [[b' st2]|] eqn:Eb; [|discriminate]. injection Hp as <- <-.
    cbn [pgen] in Hg. destruct (pgen labels a' c) as [ca c1] eqn:Ga. destruct (pgen labels b' c1) as [cb c2] eqn:Gb. injection Hg as <- <-.
    apply pcons_app in Hc. destruct Hc as [Hca Hcb].
    pose proof (IHa _ _ _ _ _ _ _ _ _ LT Ea Ga Hca Hlt) as Ia. rewrite (plocal_size _ _ _ _ _ _ _ Ia) in Hcb.
    pose proof (IHb _ _ _ _ _ _ _ _ _ LT Eb Gb Hcb Hlt) as Ib.
    destruct Ia as (Ha & Hbrk1 & Hcont1 & (new1 & Hl1 & Hr1) & Hsw1). destruct Ib as (Hb & Hbrk2 & Hcont2 & (new2 & Hl2 & Hr2) & Hsw2).
    unfold plocal_concl. cbn [sgen slabels scases sdefaults]. rewrite Hbrk1, Hcont1 in Hb.
    split; [rewrite pasm_app, Ha, Hb; reflexivity|]. split; [congruence|]. split; [congruence|]. split.
    + exists (new2 ++ new1). split; [rewrite Hl2, Hl1, app_assoc; reflexivity|rewrite rtab_app, rev_app_distr, Hr1, Hr2; reflexivity].
    + destruct (ps_sw st) as [[cs d]|].
      * destruct Hsw1 as (cs1 & d1 & Hs1 & Hcs1 & Hd1). rewrite Hs1 in Hsw2. destruct Hsw2 as (cs2 & d2 & Hs2 & Hcs2 & Hd2).
        exists (cs2 ++ cs1), d2. split; [rewrite Hs2, app_assoc; reflexivity|]. split; [rewrite rtab_app, rev_app_distr, Hcs1, Hcs2; reflexivity|].
        rewrite slast_app, Hd2. destruct (slast (sdefaults b (p + ssize a))); [reflexivity|exact Hd1].
      * rewrite Hsw1 in Hsw2. exact Hsw2.
  - (* if *)
    destruct (pparse a st) as [[a' st1]|] eqn:Ea; [|discriminate]. destruct (pparse b st1) as [[b' st2]|] eqn:Eb; [|discriminate]. injection Hp as <- <-.
    cbn [pgen] in Hg. destruct (pgen labels a' (S c)) as [ca c1] eqn:Ga. destruct (pgen labels b' c1) as [cb c2] eqn:Gb. injection Hg as <- <-.
    cbn [app pcons] in Hc. apply pcons_app in Hc. destruct Hc as [Hca Hc]. cbn [pcons] in Hc. destruct Hc as [Helse Hc].
    apply pcons_app in Hc. destruct Hc as [Hcb Hend]. cbn [pcons] in Hend. destruct Hend as [Hend _].
    replace (S p) with (p + 1) in * by lia.
    pose proof (IHa _ _ _ _ _ _ _ _ _ LT Ea Ga Hca Hlt) as Ia. rewrite (plocal_size _ _ _ _ _ _ _ Ia) in *.
    replace (S (p + 1 + ssize a)) with (p + 1 + ssize a + 1) in * by lia.
    pose proof (IHb _ _ _ _ _ _ _ _ _ LT Eb Gb Hcb Hlt) as Ib. rewrite (plocal_size _ _ _ _ _ _ _ Ib) in *.
    destruct Ia as (Ha & Hbrk1 & Hcont1 & (new1 & Hl1 & Hr1) & Hsw1). destruct Ib as (Hb & Hbrk2 & Hcont2 & (new2 & Hl2 & Hr2) & Hsw2).
    unfold plocal_concl. cbn [sgen slabels scases sdefaults]. rewrite Hbrk1, Hcont1 in Hb.
    split; [cbn [app pasm presolve]; rewrite pasm_app; cbn [pasm presolve]; rewrite pasm_app; cbn [pasm]; rewrite Ha, Hb, Helse, Hend, app_nil_r; reflexivity|].
    split; [congruence|]. split; [congruence|]. split.
    + exists (new2 ++ new1). split; [rewrite Hl2, Hl1, app_assoc; reflexivity|rewrite rtab_app, rev_app_distr, Hr1, Hr2; reflexivity].
    + destruct (ps_sw st) as [[cs d]|].
      * destruct Hsw1 as (cs1 & d1 & Hs1 & Hcs1 & Hd1). rewrite Hs1 in Hsw2. destruct Hsw2 as (cs2 & d2 & Hs2 & Hcs2 & Hd2).
        exists (cs2 ++ cs1), d2. split; [rewrite Hs2, app_assoc; reflexivity|]. split; [rewrite rtab_app, rev_app_distr, Hcs1, Hcs2; reflexivity|].
        rewrite slast_app, Hd2. destruct (slast (sdefaults b (p + 1 + ssize a + 1))); [reflexivity|exact Hd1].
      * rewrite Hsw1 in Hsw2. exact Hsw2.
  - (* for *)
    destruct (pparse body _) as [[body' st1]|] eqn:Eb; [|discriminate]. injection Hp as <- <-.
    cbn [pgen] in Hg. destruct (pgen labels body' (S c)) as [cb c1] eqn:Gb. injection Hg as <- <-.
    apply pcons_marks in Hc. cbn [app pcons] in Hc. destruct Hc as [Hbegin Hc].
    assert (Hc' : pcons rho (cb ++ [PDef (LU (S (ps_ctr st)))] ++ map (fun m => PI (QMark m)) inc ++ [PI (QJmp (LBegin c)); PDef (LU (ps_ctr st))]) (p + length init + sklen k)).
    { destruct k as [kk|]; cbn [app pcons sklen] in *; [replace (p + length init + 1) with (S (p + length init)) by lia; exact Hc|rewrite Nat.add_0_r; exact Hc]. }
    clear Hc. apply pcons_app in Hc'. destruct Hc' as [Hcb Hc]. cbn [app pcons] in Hc. destruct Hc as [Hcont Hc].
    apply pcons_marks in Hc. cbn [pcons] in Hc. destruct Hc as [Hbrk _].
    pose proof (IHb _ _ _ _ _ _ _ _ _ LT Eb Gb Hcb Hlt) as Ib. rewrite (plocal_size _ _ _ _ _ _ _ Ib) in *.
    destruct Ib as (Hb & Hbrk1 & Hcont1 & Hlab & Hsw). cbn [ps_brk ps_cont ps_sw ps_labels rl] in *.
    unfold plocal_concl. cbn [sgen slabels scases sdefaults ps_brk ps_cont ps_sw ps_labels].
    split; [|repeat split; assumption].
    rewrite pasm_app, pmarks_asm. cbn [app pasm]. f_equal.
    replace (S (p + length init + sklen k + ssize body + length inc)) with (p + length init + sklen k + ssize body + length inc + 1) in Hbrk by lia.
    destruct k as [kk|]; cbn [app pasm presolve]; rewrite pasm_app; cbn [app pasm]; rewrite pasm_app, pmarks_asm; cbn [pasm presolve]; rewrite Hb, Hbrk, Hcont, Hbegin; reflexivity.
  - (* do *)
    destruct (pparse body _) as [[body' st1]|] eqn:Eb; [|discriminate]. injection Hp as <- <-.
    cbn [pgen] in Hg. destruct (pgen labels body' (S c)) as [cb c1] eqn:Gb. injection Hg as <- <-.
    cbn [app pcons] in Hc. destruct Hc as [Hbegin Hc]. apply pcons_app in Hc. destruct Hc as [Hcb Hc]. cbn [pcons] in Hc. destruct Hc as (Hcont & Hbrk & _).
    pose proof (IHb _ _ _ _ _ _ _ _ _ LT Eb Gb Hcb Hlt) as Ib. rewrite (plocal_size _ _ _ _ _ _ _ Ib) in *.
    destruct Ib as (Hb & Hbrk1 & Hcont1 & Hlab & Hsw). cbn [ps_brk ps_cont ps_sw ps_labels rl] in *.
    unfold plocal_concl. cbn [sgen slabels scases sdefaults ps_brk ps_cont ps_sw ps_labels].
    split; [|repeat split; assumption].
    cbn [app pasm]. rewrite pasm_app. cbn [pasm presolve]. replace (S (p + ssize body)) with (p + ssize body + 1) in Hbrk by lia.
    rewrite Hb, Hbrk, Hcont, Hbegin. reflexivity.
  - (* break *)
    destruct (ps_brk st) as [l|] eqn:El; [|discriminate]. injection Hp as <- <-. cbn [pgen] in Hg. injection Hg as <- <-.
    unfold plocal_concl. rewrite El. cbn [pasm presolve sgen slabels scases sdefaults rl].
    repeat split; [apply plocal_leaf_labels|apply plocal_leaf_sw].
  - (* continue *)
    destruct (ps_cont st) as [l|] eqn:El; [|discriminate]. injection Hp as <- <-. cbn [pgen] in Hg. injection Hg as <- <-.
    unfold plocal_concl. rewrite El. cbn [pasm presolve sgen slabels scases sdefaults rl].
    repeat split; [apply plocal_leaf_labels|apply plocal_leaf_sw].
  - (* switch *)
    destruct (pparse body _) as [[body' st1]|] eqn:Eb; [|discriminate]. destruct (ps_sw st1) as [[cs1 d1]|] eqn:Es1; [|discriminate]. injection Hp as <- <-.
    cbn [pgen] in Hg. destruct (pgen labels body' c) as [cb c1] eqn:Gb. injection Hg as <- <-.
    cbn [app pcons] in Hc. apply pcons_app in Hc. destruct Hc as [_ Hc]. rewrite pchain_ninstr in Hc.
    apply pcons_app in Hc. destruct Hc as [_ Hc]. cbn [app pcons] in Hc. apply pcons_app in Hc. destruct Hc as [Hcb Hc]. cbn [pcons] in Hc. destruct Hc as [Hbrk _].
    match type of Hcb with pcons _ _ ?q => set (p' := q) in * end.
    pose proof (IHb _ _ _ _ _ _ _ _ _ LT Eb Gb Hcb Hlt) as Ib. rewrite (plocal_size _ _ _ _ _ _ _ Ib) in *.
    destruct Ib as (Hb & Hbrk1 & Hcont1 & Hlab & Hsw). cbn [ps_brk ps_cont ps_sw ps_labels rl] in *.
    destruct Hsw as (cs' & d' & Hs' & Hcs' & Hd'). rewrite Es1 in Hs'. injection Hs' as -> ->. rewrite app_nil_r in *.
    assert (Hp' : p' = p + sswitch_head body).
    { unfold sswitch_head. rewrite <- (scases_length body p'), <- (rev_length (scases body p')), <- Hcs', rtab_length.
      pose proof (slast_some_iff (sdefaults body p')) as Hsl. rewrite sdefaults_length in Hsl.
      destruct (slast (sdefaults body p')) as [q|]; destruct d' as [l|]; cbn [option_map] in Hd'; try discriminate.
      - assert (sndef body <> 0) as Hn by (apply Hsl; exists q; reflexivity). apply Nat.eqb_neq in Hn. rewrite Hn. subst p'. cbn [pninstr]. rewrite ?app_nil_r. lia.
      - destruct (sndef body =? 0) eqn:En; [subst p'; cbn [pninstr]; rewrite ?app_nil_r; lia|]. apply Nat.eqb_neq in En. apply Hsl in En. destruct En as [q Hq]. discriminate. }
    rewrite Hp' in *. clear Hp'.
    unfold plocal_concl. cbn [sgen slabels scases sdefaults ps_brk ps_cont ps_sw ps_labels].
    split; [|split; [reflexivity|]; split; [exact Hcont1|]; split; [exact Hlab|apply plocal_leaf_sw]].
    cbn [app pasm presolve]. rewrite pasm_app, pchain_asm, Hcs', pasm_app. f_equal. f_equal.
    destruct (slast (sdefaults body (p + sswitch_head body))) as [q|]; destruct d' as [l|]; cbn [option_map] in Hd'; try discriminate.
    + injection Hd' as Hd'. cbn [app pasm presolve]. rewrite pasm_app. cbn [pasm]. rewrite Hb, Hbrk, Hd', app_nil_r. reflexivity.
    + cbn [app pasm presolve]. rewrite pasm_app. cbn [pasm]. rewrite Hb, Hbrk, app_nil_r. reflexivity.
  - (* case *)
    destruct (ps_sw st) as [[cs d]|] eqn:Es; [|discriminate].
    destruct (pparse s1 _) as [[s1' st1]|] eqn:E1; [|discriminate]. destruct (ps_sw st1) as [[cs1 d1]|] eqn:Es1; [|discriminate]. injection Hp as <- <-.
    cbn [pgen] in Hg. destruct (pgen labels s1' c) as [c1code c1] eqn:G1. injection Hg as <- <-.
    cbn [pcons] in Hc. destruct Hc as [Hl Hc1].
    pose proof (IHs _ _ _ _ _ _ _ _ _ LT E1 G1 Hc1 Hlt) as I1. destruct I1 as (H1 & Hbrk1 & Hcont1 & Hlab & Hsw). cbn [ps_brk ps_cont ps_sw ps_labels] in *.
    destruct Hsw as (cs' & d' & Hs' & Hcs' & Hd'). rewrite Es1 in Hs'. injection Hs' as -> ->.
    unfold plocal_concl. rewrite Es. cbn [sgen slabels scases sdefaults ps_brk ps_cont ps_sw ps_labels pasm].
    split; [exact H1|]. split; [exact Hbrk1|]. split; [exact Hcont1|]. split; [exact Hlab|].
    exists ((cv, LU (ps_ctr st)) :: cs'), d'. split; [reflexivity|]. split; [|exact Hd'].
    cbn [rtab map fst snd]. rewrite rev_app_distr. cbn [rev app]. unfold rtab in Hcs'. rewrite Hcs', Hl. reflexivity.
  - (* default *)
    destruct (ps_sw st) as [[cs d]|] eqn:Es; [|discriminate].
    destruct (pparse s1 _) as [[s1' st1]|] eqn:E1; [|discriminate]. destruct (ps_sw st1) as [[cs1 d1]|] eqn:Es1; [|discriminate]. injection Hp as <- <-.
    cbn [pgen] in Hg. destruct (pgen labels s1' c) as [c1code c1] eqn:G1. injection Hg as <- <-.
    cbn [pcons] in Hc. destruct Hc as [Hl Hc1].
    pose proof (IHs _ _ _ _ _ _ _ _ _ LT E1 G1 Hc1 Hlt) as I1. destruct I1 as (H1 & Hbrk1 & Hcont1 & Hlab & Hsw). cbn [ps_brk ps_cont ps_sw ps_labels] in *.
    destruct Hsw as (cs' & d' & Hs' & Hcs' & Hd'). rewrite Es1 in Hs'. injection Hs' as -> ->.
    unfold plocal_concl. rewrite Es. cbn [sgen slabels scases sdefaults ps_brk ps_cont ps_sw ps_labels pasm].
    split; [exact H1|]. split; [exact Hbrk1|]. split; [exact Hcont1|]. split; [exact Hlab|].
    exists cs', (Some (LU (ps_ctr st))). split; [reflexivity|]. split; [exact Hcs'|].
    rewrite slast_app. cbn [slast rev app option_map]. rewrite Hl. reflexivity.
  - (* named label *)
    destruct (pparse s1 _) as [[s1' st1]|] eqn:E1; [|discriminate]. injection Hp as <- <-.
    cbn [pgen] in Hg. destruct (pgen labels s1' c) as [c1code c1] eqn:G1. injection Hg as <- <-.
    cbn [pcons] in Hc. destruct Hc as [Hl Hc1].
    pose proof (IHs _ _ _ _ _ _ _ _ _ LT E1 G1 Hc1 Hlt) as I1. destruct I1 as (H1 & Hbrk1 & Hcont1 & (new & Hn & Hr) & Hsw). cbn [ps_brk ps_cont ps_sw ps_labels] in *.
    unfold plocal_concl. cbn [sgen slabels scases sdefaults ps_brk ps_cont ps_sw ps_labels pasm].
    split; [exact H1|]. split; [exact Hbrk1|]. split; [exact Hcont1|]. split; [|exact Hsw].
    exists ((name, LU (ps_ctr st)) :: new). split; [rewrite Hn; reflexivity|].
    cbn [rtab map fst snd]. rewrite rev_app_distr. cbn [rev app]. unfold rtab in Hr. rewrite Hr, Hl. reflexivity.
  - (* goto *)
    injection Hp as <- <-. cbn [pgen] in Hg. injection Hg as <- <-. unfold plocal_concl. cbn [pasm presolve sgen slabels scases sdefaults]. rewrite Hlt.
    repeat split; [apply plocal_leaf_labels|apply plocal_leaf_sw].
  - (* goto through a table *)
    injection Hp as <- <-. cbn [pgen] in Hg. injection Hg as <- <-. unfold plocal_concl. cbn [pasm presolve sgen slabels scases sdefaults].
    rewrite map_map. rewrite (map_ext _ _ Hlt).
    repeat split; [apply plocal_leaf_labels|apply plocal_leaf_sw].
Qed.

(* ---------- every label is defined once: the two counters only grow ---------- *)
Definition pin_range (l : plabel) (a a' c c' : nat) : Prop :=
  match l with
  | LU n => a <= n < a'
  | LElse n | LEnd n | LBegin n => c <= n < c'
  | LNone => False
  end.
(* the labels defined in code are distinct and were handed out while the counters went from a to a'
   resp. from c to c' *)
Definition pfresh (code : list pitem) (a a' c c' : nat) : Prop :=
  (forall l, In l (pdefs code) -> pin_range l a a' c c') /\ NoDup (pdefs code).

Lemma pin_range_weaken l a1 a2 c1 c2 a a' c c' : pin_range l a1 a2 c1 c2 -> a <= a1 -> a2 <= a' -> c <= c1 -> c2 <= c' -> pin_range l a a' c c'.
Proof. destruct l; cbn [pin_range]; lia. Qed.
Lemma pin_range_disjoint l a1 a2 c1 c2 b1 b2 d1 d2 : pin_range l a1 a2 c1 c2 -> pin_range l b1 b2 d1 d2 -> a2 <= b1 -> c2 <= d1 -> False.
Proof. destruct l; cbn [pin_range]; lia. Qed.

Lemma NoDup_app_intro {A} (l1 l2 : list A) : NoDup l1 -> NoDup l2 -> (forall x, In x l1 -> In x l2 -> False) -> NoDup (l1 ++ l2).
Proof.
  induction l1 as [|x l1 IH]; intros H1 H2 Hd; cbn [app]; [exact H2|]. inversion H1 as [|y ys Hx Hn]; subst. constructor.
  - rewrite in_app_iff. intros [Hi|Hi]; [exact (Hx Hi)|]. apply (Hd x); [left; reflexivity|exact Hi].
  - apply IH; [exact Hn|exact H2|]. intros z Hz1 Hz2. apply (Hd z); [right; exact Hz1|exact Hz2].
Qed.

Lemma pfresh_weaken code a1 a2 c1 c2 a a' c c' : pfresh code a1 a2 c1 c2 -> a <= a1 -> a2 <= a' -> c <= c1 -> c2 <= c' -> pfresh code a a' c c'.
Proof. intros [Hr Hn] H1 H2 H3 H4. split; [|exact Hn]. intros l Hl. eapply pin_range_weaken; [apply Hr; exact Hl|assumption..]. Qed.
Lemma pfresh_app x y a a1 a2 c c1 c2 : pfresh x a a1 c c1 -> pfresh y a1 a2 c1 c2 -> a <= a1 -> a1 <= a2 -> c <= c1 -> c1 <= c2 -> pfresh (x ++ y) a a2 c c2.
Proof.
  intros [Hrx Hnx] [Hry Hny] H1 H2 H3 H4. split; rewrite pdefs_app.
  - intros l Hl. apply in_app_iff in Hl. destruct Hl as [Hl|Hl]; [eapply pin_range_weaken; [apply Hrx; exact Hl|lia..]|eapply pin_range_weaken; [apply Hry; exact Hl|lia..]].
  - apply NoDup_app_intro; [exact Hnx|exact Hny|]. intros l Hlx Hly. eapply pin_range_disjoint; [apply Hrx; exact Hlx|apply Hry; exact Hly|lia|lia].
Qed.
Lemma pfresh_nodefs code a c : pdefs code = [] -> pfresh code a a c c.
Proof. intros H. split; rewrite H; [intros l []|constructor]. Qed.
(* one more definition, of a label that the rest cannot define *)
Lemma pfresh_cons l code a a' c c' : pfresh code a a' c c' -> pin_range l a a' c c' -> ~ In l (pdefs code) -> pfresh (PDef l :: code) a a' c c'.
Proof.
  intros [Hr Hn] Hl Hni. split; cbn [pdefs].
  - intros l0 [<-|H0]; [exact Hl|apply Hr; exact H0].
  - constructor; assumption.
Qed.
Lemma pfresh_snoc l code a a' c c' : pfresh code a a' c c' -> pin_range l a a' c c' -> ~ In l (pdefs code) -> pfresh (code ++ [PDef l]) a a' c c'.
Proof.
  intros [Hr Hn] Hl Hni. split; rewrite pdefs_app; cbn [pdefs].
  - intros l0 H0. apply in_app_iff in H0. destruct H0 as [H0|[<-|[]]]; [apply Hr; exact H0|exact Hl].
  - apply NoDup_app_intro; [exact Hn|constructor; [intros []|constructor]|]. intros x Hx [<-|[]]. exact (Hni Hx).
Qed.
Lemma pfresh_instr i code a a' c c' : pfresh code a a' c c' -> pfresh (PI i :: code) a a' c c'.
Proof. intros H. exact H. Qed.
Lemma pfresh_notin code a a' c c' l : pfresh code a a' c c' -> (pin_range l a a' c c' -> False) -> ~ In l (pdefs code).
Proof. intros [Hr _] Hl Hi. apply Hl. apply Hr. exact Hi. Qed.

Lemma prange : forall s st node st' labels c code c',
  pparse s st = Some (node, st') -> pgen labels node c = (code, c') ->
  ps_ctr st <= ps_ctr st' /\ c <= c' /\ pfresh code (ps_ctr st) (ps_ctr st') c c'.
Proof.
  induction s as [n| |a IHa b IHb|k a IHa b IHb|init k inc body IHb|body IHb k| | |k body IHb|cv s1 IHs|s1 IHs|name s1 IHs|name|ki tab];
    intros st node st' labels c code c' Hp Hg; cbn [pparse] in Hp.
  - injection Hp as <- <-. cbn [pgen] in Hg. injection Hg as <- <-. repeat split; try lia; try (intros l []); constructor.
  - injection Hp as <- <-. cbn [pgen] in Hg. injection Hg as <- <-. repeat split; try lia; try (intros l []); constructor.
  - destruct (pparse a st) as [[a' st1]|] eqn:Ea; [|discriminate]. destruct (pparse b st1) as [[b' st2]|] eqn:Eb; [|discriminate]. injection Hp as <- <-.
    cbn [pgen] in Hg. destruct (pgen labels a' c) as [ca c1] eqn:Ga. destruct (pgen labels b' c1) as [cb c2] eqn:Gb. injection Hg as <- <-.
    destruct (IHa _ _ _ _ _ _ _ Ea Ga) as (Ha1 & Ha2 & Ha3). destruct (IHb _ _ _ _ _ _ _ Eb Gb) as (Hb1 & Hb2 & Hb3).
    split; [lia|]. split; [lia|]. eapply pfresh_app; eassumption.
  - destruct (pparse a st) as [[a' st1]|] eqn:Ea; [|discriminate]. destruct (pparse b st1) as [[b' st2]|] eqn:Eb; [|discriminate]. injection Hp as <- <-.
    cbn [pgen] in Hg. destruct (pgen labels a' (S c)) as [ca c1] eqn:Ga. destruct (pgen labels b' c1) as [cb c2] eqn:Gb. injection Hg as <- <-.
    destruct (IHa _ _ _ _ _ _ _ Ea Ga) as (Ha1 & Ha2 & Ha3). destruct (IHb _ _ _ _ _ _ _ Eb Gb) as (Hb1 & Hb2 & Hb3).
    split; [lia|]. split; [lia|].
    (* jf; ca; jmp; else:; cb; end: *)
    cbn [app]. apply pfresh_instr.
    assert (H1 : pfresh (ca ++ [PI (QJmp (LEnd c)); PDef (LElse c)]) (ps_ctr st) (ps_ctr st1) c c1).
    { change [PI (QJmp (LEnd c)); PDef (LElse c)] with ([PI (QJmp (LEnd c))] ++ [PDef (LElse c)]). rewrite app_assoc. apply pfresh_snoc.
      - split; rewrite pdefs_app, app_nil_r; [intros l Hl; eapply pin_range_weaken; [apply Ha3; exact Hl|lia..]|apply Ha3].
      - cbn [pin_range]. lia.
      - rewrite pdefs_app, app_nil_r. eapply pfresh_notin; [exact Ha3|]. cbn [pin_range]. lia. }
    assert (H2 : pfresh ((ca ++ [PI (QJmp (LEnd c)); PDef (LElse c)]) ++ cb) (ps_ctr st) (ps_ctr st2) c c2) by (eapply pfresh_app; try eassumption; lia).
    replace (ca ++ PI (QJmp (LEnd c)) :: PDef (LElse c) :: cb ++ [PDef (LEnd c)]) with (((ca ++ [PI (QJmp (LEnd c)); PDef (LElse c)]) ++ cb) ++ [PDef (LEnd c)])
      by (rewrite <- !app_assoc; reflexivity).
    apply pfresh_snoc; [exact H2|cbn [pin_range]; lia|].
    rewrite !pdefs_app. cbn [pdefs]. rewrite !in_app_iff. intros [[Hi|[Hi|[]]]|Hi]; [|discriminate|].
    + eapply pfresh_notin; [exact Ha3| |exact Hi]. cbn [pin_range]. lia.
    + eapply pfresh_notin; [exact Hb3| |exact Hi]. cbn [pin_range]. lia.
  - destruct (pparse body _) as [[body' st1]|] eqn:Eb; [|discriminate]. injection Hp as <- <-.
    cbn [pgen] in Hg. destruct (pgen labels body' (S c)) as [cb c1] eqn:Gb. injection Hg as <- <-.
    destruct (IHb _ _ _ _ _ _ _ Eb Gb) as (Hb1 & Hb2 & Hb3). cbn [ps_ctr] in *.
    split; [lia|]. split; [lia|].
    split.
    + intros l Hl. rewrite !pdefs_app, pmarks_defs in Hl. cbn [app pdefs] in Hl. destruct Hl as [<-|Hl]; [cbn [pin_range]; lia|].
      rewrite !pdefs_app in Hl. assert (Hk : pdefs (match k with Some kk => [PI (QCondJf kk (LU (ps_ctr st)))] | None => [] end) = []) by (destruct k; reflexivity).
      rewrite Hk in Hl. cbn [app pdefs] in Hl. rewrite pdefs_app, pmarks_defs in Hl. cbn [app pdefs] in Hl.
      apply in_app_iff in Hl. destruct Hl as [Hl|[<-|[<-|[]]]]; [eapply pin_range_weaken; [apply Hb3; exact Hl|lia..]|cbn [pin_range]; lia|cbn [pin_range]; lia].
    + rewrite !pdefs_app, pmarks_defs. cbn [app pdefs]. rewrite !pdefs_app.
      assert (Hk : pdefs (match k with Some kk => [PI (QCondJf kk (LU (ps_ctr st)))] | None => [] end) = []) by (destruct k; reflexivity).
      rewrite Hk. cbn [app pdefs]. rewrite pdefs_app, pmarks_defs. cbn [app pdefs].
      constructor.
      * rewrite in_app_iff. intros [Hi|[Hi|[Hi|[]]]]; try discriminate. eapply pfresh_notin; [exact Hb3| |exact Hi]. cbn [pin_range]. lia.
      * apply NoDup_app_intro; [apply Hb3| |].
        -- constructor; [intros [Hi|[]]; injection Hi as Hi; lia|constructor; [intros []|constructor]].
        -- intros x Hx [<-|[<-|[]]]; (eapply pfresh_notin; [exact Hb3| |exact Hx]); cbn [pin_range]; lia.
  - destruct (pparse body _) as [[body' st1]|] eqn:Eb; [|discriminate]. injection Hp as <- <-.
    cbn [pgen] in Hg. destruct (pgen labels body' (S c)) as [cb c1] eqn:Gb. injection Hg as <- <-.
    destruct (IHb _ _ _ _ _ _ _ Eb Gb) as (Hb1 & Hb2 & Hb3). cbn [ps_ctr] in *.
    split; [lia|]. split; [lia|].
    split.
    + intros l Hl. cbn [app pdefs] in Hl. destruct Hl as [<-|Hl]; [cbn [pin_range]; lia|]. rewrite pdefs_app in Hl. cbn [pdefs] in Hl.
      apply in_app_iff in Hl. destruct Hl as [Hl|[<-|[<-|[]]]]; [eapply pin_range_weaken; [apply Hb3; exact Hl|lia..]|cbn [pin_range]; lia|cbn [pin_range]; lia].
    + cbn [app pdefs]. rewrite pdefs_app. cbn [pdefs]. constructor.
      * rewrite in_app_iff. intros [Hi|[Hi|[Hi|[]]]]; try discriminate. eapply pfresh_notin; [exact Hb3| |exact Hi]. cbn [pin_range]. lia.
      * apply NoDup_app_intro; [apply Hb3| |].
        -- constructor; [intros [Hi|[]]; injection Hi as Hi; lia|constructor; [intros []|constructor]].
        -- intros x Hx [<-|[<-|[]]]; (eapply pfresh_notin; [exact Hb3| |exact Hx]); cbn [pin_range]; lia.
  - destruct (ps_brk st) as [l|]; [|discriminate]. injection Hp as <- <-. cbn [pgen] in Hg. injection Hg as <- <-. repeat split; try lia; try (intros l0 []); constructor.
  - destruct (ps_cont st) as [l|]; [|discriminate]. injection Hp as <- <-. cbn [pgen] in Hg. injection Hg as <- <-. repeat split; try lia; try (intros l0 []); constructor.
  - destruct (pparse body _) as [[body' st1]|] eqn:Eb; [|discriminate]. destruct (ps_sw st1) as [[cs1 d1]|] eqn:Es1; [|discriminate]. injection Hp as <- <-.
    cbn [pgen] in Hg. destruct (pgen labels body' c) as [cb c1] eqn:Gb. injection Hg as <- <-.
    destruct (IHb _ _ _ _ _ _ _ Eb Gb) as (Hb1 & Hb2 & Hb3). cbn [ps_ctr] in *.
    split; [lia|]. split; [lia|].
    assert (Hd : pdefs (match d1 with Some l => [PI (QJmp l)] | None => [] end) = []) by (destruct d1; reflexivity).
    split.
    + intros l Hl. cbn [app pdefs] in Hl. rewrite !pdefs_app, pchain_defs, Hd in Hl. cbn [app pdefs] in Hl. rewrite pdefs_app in Hl. cbn [pdefs] in Hl.
      apply in_app_iff in Hl. destruct Hl as [Hl|[<-|[]]]; [eapply pin_range_weaken; [apply Hb3; exact Hl|lia..]|cbn [pin_range]; lia].
    + cbn [app pdefs]. rewrite !pdefs_app, pchain_defs, Hd. cbn [app pdefs]. rewrite pdefs_app. cbn [pdefs].
      apply NoDup_app_intro; [apply Hb3|constructor; [intros []|constructor]|].
      intros x Hx [<-|[]]. eapply pfresh_notin; [exact Hb3| |exact Hx]. cbn [pin_range]. lia.
  - destruct (ps_sw st) as [[cs d]|] eqn:Es; [|discriminate].
    destruct (pparse s1 _) as [[s1' st1]|] eqn:E1; [|discriminate]. destruct (ps_sw st1) as [[cs1 d1]|] eqn:Es1; [|discriminate]. injection Hp as <- <-.
    cbn [pgen] in Hg. destruct (pgen labels s1' c) as [c1code c1] eqn:G1. injection Hg as <- <-.
    destruct (IHs _ _ _ _ _ _ _ E1 G1) as (H1 & H2 & H3). cbn [ps_ctr] in *.
    split; [lia|]. split; [lia|]. apply pfresh_cons.
    + eapply pfresh_weaken; [exact H3|lia..].
    + cbn [pin_range]. lia.
    + eapply pfresh_notin; [exact H3|]. cbn [pin_range]. lia.
  - destruct (ps_sw st) as [[cs d]|] eqn:Es; [|discriminate].
    destruct (pparse s1 _) as [[s1' st1]|] eqn:E1; [|discriminate]. destruct (ps_sw st1) as [[cs1 d1]|] eqn:Es1; [|discriminate]. injection Hp as <- <-.
    cbn [pgen] in Hg. destruct (pgen labels s1' c) as [c1code c1] eqn:G1. injection Hg as <- <-.
    destruct (IHs _ _ _ _ _ _ _ E1 G1) as (H1 & H2 & H3). cbn [ps_ctr] in *.
    split; [lia|]. split; [lia|]. apply pfresh_cons.
    + eapply pfresh_weaken; [exact H3|lia..].
    + cbn [pin_range]. lia.
    + eapply pfresh_notin; [exact H3|]. cbn [pin_range]. lia.
  - destruct (pparse s1 _) as [[s1' st1]|] eqn:E1; [|discriminate]. injection Hp as <- <-.
    cbn [pgen] in Hg. destruct (pgen labels s1' c) as [c1code c1] eqn:G1. injection Hg as <- <-.
    destruct (IHs _ _ _ _ _ _ _ E1 G1) as (H1 & H2 & H3). cbn [ps_ctr] in *.
    split; [lia|]. split; [lia|]. apply pfresh_cons.
    + eapply pfresh_weaken; [exact H3|lia..].
    + cbn [pin_range]. lia.
    + eapply pfresh_notin; [exact H3|]. cbn [pin_range]. lia.
  - injection Hp as <- <-. cbn [pgen] in Hg. injection Hg as <- <-. repeat split; try lia; try (intros l []); constructor.
  - injection Hp as <- <-. cbn [pgen] in Hg. injection Hg as <- <-. repeat split; try lia; try (intros l []); constructor.
Qed.

(* ---------- the assembler's label positions are right for every definition ---------- *)
Lemma plabel_eqb_eq a b : plabel_eqb a b = true <-> a = b.
Proof.
  destruct a, b; cbn [plabel_eqb]; try (split; [discriminate|discriminate]); try (split; reflexivity);
    rewrite Nat.eqb_eq; split; intros H; [subst; reflexivity|injection H as H; exact H|subst; reflexivity|injection H as H; exact H|subst; reflexivity|injection H as H; exact H|subst; reflexivity|injection H as H; exact H].
Qed.
Lemma ppos_some_in l : forall code p q, ppos l code p = Some q -> In l (pdefs code).
Proof.
  induction code as [|[i|l0] r IH]; intros p q H; cbn [ppos pdefs] in *; [discriminate|eapply IH; exact H|].
  destruct (plabel_eqb l l0) eqn:E; [left; symmetry; apply plabel_eqb_eq; exact E|right; eapply IH; exact H].
Qed.
Lemma ppos_none_notin l : forall code p, ~ In l (pdefs code) -> ppos l code p = None.
Proof.
  induction code as [|[i|l0] r IH]; intros p H; cbn [ppos pdefs] in *; [reflexivity|apply IH; exact H|].
  destruct (plabel_eqb l l0) eqn:E; [apply plabel_eqb_eq in E; subst; exfalso; apply H; left; reflexivity|apply IH; intros Hi; apply H; right; exact Hi].
Qed.
Lemma pcons_of_ppos rho : forall code p, NoDup (pdefs code) -> (forall l q, ppos l code p = Some q -> rho l = q) -> pcons rho code p.
Proof.
  induction code as [|[i|l0] r IH]; intros p Hn Hr; cbn [pcons pdefs] in *; [exact I|apply IH; [exact Hn|exact Hr]|].
  inversion Hn as [|x xs Hx Hn']; subst. split.
  - apply Hr. cbn [ppos]. assert (plabel_eqb l0 l0 = true) as -> by (apply plabel_eqb_eq; reflexivity). reflexivity.
  - apply IH; [exact Hn'|]. intros l q Hq. apply Hr. cbn [ppos].
    destruct (plabel_eqb l l0) eqn:E; [|exact Hq]. apply plabel_eqb_eq in E. subst. exfalso. apply Hx. eapply ppos_some_in. exact Hq.
Qed.
Lemma pcons_prho code : NoDup (pdefs code) -> pcons (prho code) code 0.
Proof. intros Hn. apply pcons_of_ppos; [exact Hn|]. intros l q Hq. unfold prho. rewrite Hq. reflexivity. Qed.

(* resolve_goto_labels then the assembler = the assembler then slabel_target *)
Lemma plookup_resolved rho labels name : rho LNone = 0 -> slabel_target (rtab rho labels) name = rho (plookup labels name).
Proof.
  intros H0. unfold slabel_target, plookup, rtab. induction labels as [|[n l] labels IH]; cbn [map find fst snd]; [symmetry; exact H0|].
  destruct (n =? name); [reflexivity|exact IH].
Qed.

(* The labels chibicc defines in the code of a function body are pairwise distinct, whatever the
   counters were at its start: the assembler accepts the code (C12_labels_unique for this part). *)
Theorem sw_parse_labels_unique : forall body ctr c code, pfunction body ctr c = Some code -> NoDup (pdefs code).
Proof.
  intros body ctr c code H. unfold pfunction in H. destruct (pparse body (pinit ctr)) as [[node st]|] eqn:Ep; [|discriminate].
  destruct (presolvable (ps_labels st) node); [|discriminate]. injection H as <-.
  destruct (pgen (ps_labels st) node c) as [code c'] eqn:Eg. cbn [fst]. destruct (prange _ _ _ _ _ _ _ _ Ep Eg) as (_ & _ & _ & Hn). exact Hn.
Qed.

(* parse.c's stmt() with its saved / replaced / restored brk_label, cont_label, current_switch,
   its case list, default_case and labels list, then resolve_goto_labels, then gen_stmt with
   count(), then the assembler: the result is exactly sprogram, the position-level code that
   sw_program_simulates speaks about.  For every statement parse.c accepts, any nesting, any
   starting values of the two label counters. *)
Theorem sw_parse_gen_is_sprogram : forall body ctr c code, pfunction body ctr c = Some code -> passemble code = sprogram body.
Proof.
  intros body ctr c code H. pose proof (sw_parse_labels_unique _ _ _ _ H) as Hn. unfold pfunction in H.
  destruct (pparse body (pinit ctr)) as [[node st]|] eqn:Ep; [|discriminate].
  destruct (presolvable (ps_labels st) node); [|discriminate]. injection H as <-.
  destruct (pgen (ps_labels st) node c) as [code c'] eqn:Eg. cbn [fst] in *.
  destruct (prange _ _ _ _ _ _ _ _ Ep Eg) as (_ & _ & Hr & _).
  assert (H0 : prho code LNone = 0).
  { unfold prho. rewrite ppos_none_notin; [reflexivity|]. intros Hi. exact (Hr _ Hi). }
  pose proof (plocal body (pinit ctr) node st (ps_labels st) c code c' (prho code) 0 (rtab (prho code) (ps_labels st)) Ep Eg (pcons_prho code Hn)) as Hl.
  assert (Hlt : forall name, prho code (plookup (ps_labels st) name) = slabel_target (rtab (prho code) (ps_labels st)) name) by (intros name; symmetry; apply plookup_resolved; exact H0).
  destruct (Hl Hlt) as (Hasm & _ & _ & (new & Hnew & Hrt) & _). cbn [pinit ps_brk ps_cont ps_labels rl] in *.
  rewrite app_nil_r in Hnew. subst new. rewrite Hrt in Hasm. exact Hasm.
Qed.

(* what parse.c rejects *)
Lemma sw_parse_rejects_stray :
  pfunction SBreak 0 0 = None /\ pfunction SContinue 0 0 = None /\ pfunction (SCase 1 SSkip) 0 0 = None /\ pfunction (SDefault SSkip) 0 0 = None /\
  pfunction (SSwitch 1 SContinue) 0 0 = None /\ pfunction (SFor [] None [] (SCase 1 SBreak)) 0 0 = None.
Proof. repeat split. Qed.

(* the composition: the ASSEMBLED code of what parse.c + gen_stmt produce simulates the structured
   semantics *)
Theorem sw_parsed_program_simulates : forall body ctr c code fuel o tr o',
  pfunction body ctr c = Some code -> swf_fn body = true -> srun fuel None body o = Some (tr, o') ->
  forall r, exists r', sstar (passemble code) (0, o, r) tr (length (passemble code), o', r').
Proof.
  intros body ctr c code fuel o tr o' Hp Hwf Hr r. rewrite (sw_parse_gen_is_sprogram _ _ _ _ Hp), sprogram_length.
  exact (sw_program_simulates fuel body o tr o' Hwf Hr r).
Qed.

(* ---------- which programs parse.c accepts ---------- *)
Definition bsome {A} (o : option A) : bool := match o with Some _ => true | None => false end.

Lemma ppreserve : forall s st node st', pparse s st = Some (node, st') ->
  ps_brk st' = ps_brk st /\ ps_cont st' = ps_cont st /\ bsome (ps_sw st') = bsome (ps_sw st) /\
  map fst (ps_labels st') = rev (slabnames s) ++ map fst (ps_labels st) /\ pgoto_names node = sgoto_names s.
Proof.
  induction s as [n| |a IHa b IHb|k a IHa b IHb|init k inc body IHb|body IHb k| | |k body IHb|cv s1 IHs|s1 IHs|name s1 IHs|name|ki tab];
    intros st node st' Hp; cbn [pparse] in Hp.
  - injection Hp as <- <-. repeat split.
  - injection Hp as <- <-. repeat split.
  - destruct (pparse a st) as [[a' st1]|] eqn:Ea; [|discriminate]. destruct (pparse b st1) as [[b' st2]|] eqn:Eb; [|discriminate]. injection Hp as <- <-.
    destruct (IHa _ _ _ Ea) as (A1 & A2 & A3 & A4 & A5). destruct (IHb _ _ _ Eb) as (B1 & B2 & B3 & B4 & B5).
    cbn [slabnames sgoto_names pgoto_names]. repeat split; try congruence. rewrite B4, A4, rev_app_distr, app_assoc. reflexivity.
  - destruct (pparse a st) as [[a' st1]|] eqn:Ea; [|discriminate]. destruct (pparse b st1) as [[b' st2]|] eqn:Eb; [|discriminate]. injection Hp as <- <-.
    destruct (IHa _ _ _ Ea) as (A1 & A2 & A3 & A4 & A5). destruct (IHb _ _ _ Eb) as (B1 & B2 & B3 & B4 & B5).
    cbn [slabnames sgoto_names pgoto_names]. repeat split; try congruence. rewrite B4, A4, rev_app_distr, app_assoc. reflexivity.
  - destruct (pparse body _) as [[body' st1]|] eqn:Eb; [|discriminate]. injection Hp as <- <-.
    destruct (IHb _ _ _ Eb) as (B1 & B2 & B3 & B4 & B5). cbn [ps_brk ps_cont ps_sw ps_labels slabnames sgoto_names pgoto_names] in *. repeat split; assumption.
  - destruct (pparse body _) as [[body' st1]|] eqn:Eb; [|discriminate]. injection Hp as <- <-.
    destruct (IHb _ _ _ Eb) as (B1 & B2 & B3 & B4 & B5). cbn [ps_brk ps_cont ps_sw ps_labels slabnames sgoto_names pgoto_names] in *. repeat split; assumption.
  - destruct (ps_brk st) as [l|] eqn:El; [|discriminate]. injection Hp as <- <-. repeat split; assumption.
  - destruct (ps_cont st) as [l|] eqn:El; [|discriminate]. injection Hp as <- <-. repeat split; assumption.
  - destruct (pparse body _) as [[body' st1]|] eqn:Eb; [|discriminate]. destruct (ps_sw st1) as [[cs1 d1]|] eqn:Es1; [|discriminate]. injection Hp as <- <-.
    destruct (IHb _ _ _ Eb) as (B1 & B2 & B3 & B4 & B5). cbn [ps_brk ps_cont ps_sw ps_labels slabnames sgoto_names pgoto_names] in *. repeat split; assumption.
  - destruct (ps_sw st) as [[cs d]|] eqn:Es; [|discriminate].
    destruct (pparse s1 _) as [[s1' st1]|] eqn:E1; [|discriminate]. destruct (ps_sw st1) as [[cs1 d1]|] eqn:Es1; [|discriminate]. injection Hp as <- <-.
    destruct (IHs _ _ _ E1) as (B1 & B2 & B3 & B4 & B5). cbn [ps_brk ps_cont ps_sw ps_labels slabnames sgoto_names pgoto_names bsome] in *. repeat split; assumption.
  - destruct (ps_sw st) as [[cs d]|] eqn:Es; [|discriminate].
    destruct (pparse s1 _) as [[s1' st1]|] eqn:E1; [|discriminate]. destruct (ps_sw st1) as [[cs1 d1]|] eqn:Es1; [|discriminate]. injection Hp as <- <-.
    destruct (IHs _ _ _ E1) as (B1 & B2 & B3 & B4 & B5). cbn [ps_brk ps_cont ps_sw ps_labels slabnames sgoto_names pgoto_names bsome] in *. repeat split; assumption.
  - destruct (pparse s1 _) as [[s1' st1]|] eqn:E1; [|discriminate]. injection Hp as <- <-.
    destruct (IHs _ _ _ E1) as (B1 & B2 & B3 & B4 & B5). cbn [ps_brk ps_cont ps_sw ps_labels slabnames sgoto_names pgoto_names map fst] in *. repeat split; try assumption.
    rewrite B4, rev_app_distr. reflexivity.
  - injection Hp as <- <-. repeat split.
  - injection Hp as <- <-. repeat split.
Qed.

Lemma paccept : forall s st, (exists r, pparse s st = Some r) <-> splaced (bsome (ps_cont st)) (bsome (ps_brk st)) (bsome (ps_sw st)) s = true.
Proof.
  induction s as [n| |a IHa b IHb|k a IHa b IHb|init k inc body IHb|body IHb k| | |k body IHb|cv s1 IHs|s1 IHs|name s1 IHs|name|ki tab];
    intros st; cbn [pparse splaced].
  - split; [reflexivity|intros _; eexists; reflexivity].
  - split; [reflexivity|intros _; eexists; reflexivity].
  - rewrite andb_true_iff, <- IHa. split.
    + intros [r Hr]. destruct (pparse a st) as [[a' st1]|] eqn:Ea; [|discriminate]. destruct (pparse b st1) as [[b' st2]|] eqn:Eb; [|discriminate].
      split; [eexists; reflexivity|]. destruct (ppreserve _ _ _ _ Ea) as (A1 & A2 & A3 & _). rewrite <- A1, <- A2, <- A3. apply IHb. eexists. exact Eb.
    + intros [[[a' st1] Ea] Hb]. rewrite Ea. destruct (ppreserve _ _ _ _ Ea) as (A1 & A2 & A3 & _). rewrite <- A1, <- A2, <- A3 in Hb.
      apply IHb in Hb. destruct Hb as [[b' st2] Eb]. rewrite Eb. eexists. reflexivity.
  - rewrite andb_true_iff, <- IHa. split.
    + intros [r Hr]. destruct (pparse a st) as [[a' st1]|] eqn:Ea; [|discriminate]. destruct (pparse b st1) as [[b' st2]|] eqn:Eb; [|discriminate].
      split; [eexists; reflexivity|]. destruct (ppreserve _ _ _ _ Ea) as (A1 & A2 & A3 & _). rewrite <- A1, <- A2, <- A3. apply IHb. eexists. exact Eb.
    + intros [[[a' st1] Ea] Hb]. rewrite Ea. destruct (ppreserve _ _ _ _ Ea) as (A1 & A2 & A3 & _). rewrite <- A1, <- A2, <- A3 in Hb.
      apply IHb in Hb. destruct Hb as [[b' st2] Eb]. rewrite Eb. eexists. reflexivity.
  - rewrite <- (IHb (mkps (S (S (ps_ctr st))) (Some (LU (ps_ctr st))) (Some (LU (S (ps_ctr st)))) (ps_sw st) (ps_labels st))). split.
    + intros [r Hr]. destruct (pparse body _) as [[body' st1]|] eqn:Eb; [|discriminate]. eexists. reflexivity.
    + intros [[body' st1] Eb]. rewrite Eb. eexists. reflexivity.
  - rewrite <- (IHb (mkps (S (S (ps_ctr st))) (Some (LU (ps_ctr st))) (Some (LU (S (ps_ctr st)))) (ps_sw st) (ps_labels st))). split.
    + intros [r Hr]. destruct (pparse body _) as [[body' st1]|] eqn:Eb; [|discriminate]. eexists. reflexivity.
    + intros [[body' st1] Eb]. rewrite Eb. eexists. reflexivity.
  - destruct (ps_brk st) as [l|]; cbn [bsome]; split; try discriminate; [intros _; reflexivity|intros _; eexists; reflexivity|intros [r Hr]; discriminate].
  - destruct (ps_cont st) as [l|]; cbn [bsome]; split; try discriminate; [intros _; reflexivity|intros _; eexists; reflexivity|intros [r Hr]; discriminate].
  - pose proof (IHb (mkps (S (ps_ctr st)) (Some (LU (ps_ctr st))) (ps_cont st) (Some ([], None)) (ps_labels st))) as Hb. cbn [ps_brk ps_cont ps_sw bsome] in Hb. rewrite <- Hb. split.
    + intros [r Hr]. destruct (pparse body _) as [[body' st1]|] eqn:Eb; [|discriminate]. eexists. reflexivity.
    + intros [[body' st1] Eb]. rewrite Eb. destruct (ppreserve _ _ _ _ Eb) as (_ & _ & A3 & _). cbn [ps_sw bsome] in A3.
      destruct (ps_sw st1) as [[cs1 d1]|]; [eexists; reflexivity|discriminate].
  - destruct (ps_sw st) as [[cs d]|] eqn:Es; cbn [bsome andb]; [|split; [intros [r Hr]; discriminate|discriminate]].
    pose proof (IHs (mkps (S (ps_ctr st)) (ps_brk st) (ps_cont st) (ps_sw st) (ps_labels st))) as H1. cbn [ps_brk ps_cont ps_sw] in H1. rewrite Es in H1. cbn [bsome] in H1. rewrite <- H1. split.
    + intros [r Hr]. destruct (pparse s1 _) as [[s1' st1]|] eqn:E1; [|discriminate]. eexists. reflexivity.
    + intros [[s1' st1] E1]. rewrite E1. destruct (ppreserve _ _ _ _ E1) as (_ & _ & A3 & _). cbn [ps_sw bsome] in A3.
      destruct (ps_sw st1) as [[cs1 d1]|]; [eexists; reflexivity|discriminate].
  - destruct (ps_sw st) as [[cs d]|] eqn:Es; cbn [bsome andb]; [|split; [intros [r Hr]; discriminate|discriminate]].
    pose proof (IHs (mkps (S (ps_ctr st)) (ps_brk st) (ps_cont st) (ps_sw st) (ps_labels st))) as H1. cbn [ps_brk ps_cont ps_sw] in H1. rewrite Es in H1. cbn [bsome] in H1. rewrite <- H1. split.
    + intros [r Hr]. destruct (pparse s1 _) as [[s1' st1]|] eqn:E1; [|discriminate]. eexists. reflexivity.
    + intros [[s1' st1] E1]. rewrite E1. destruct (ppreserve _ _ _ _ E1) as (_ & _ & A3 & _). cbn [ps_sw bsome] in A3.
      destruct (ps_sw st1) as [[cs1 d1]|]; [eexists; reflexivity|discriminate].
  - pose proof (IHs (mkps (S (ps_ctr st)) (ps_brk st) (ps_cont st) (ps_sw st) (ps_labels st))) as H1. cbn [ps_brk ps_cont ps_sw] in H1. rewrite <- H1. split.
    + intros [r Hr]. destruct (pparse s1 _) as [[s1' st1]|] eqn:E1; [|discriminate]. eexists. reflexivity.
    + intros [[s1' st1] E1]. rewrite E1. eexists. reflexivity.
  - split; [reflexivity|intros _; eexists; reflexivity].
  - split; [reflexivity|intros _; eexists; reflexivity].
Qed.

Lemma find_name_some (labels : list (nat * plabel)) name :
  (match find (fun e => fst e =? name) labels with Some _ => true | None => false end) = existsb (Nat.eqb name) (map fst labels).
Proof.
  induction labels as [|[n l] labels IH]; cbn [find map fst existsb]; [reflexivity|]. rewrite (Nat.eqb_sym name n). destruct (n =? name); [reflexivity|exact IH].
Qed.
Lemma existsb_rev_nat x (l : list nat) : existsb (Nat.eqb x) (rev l) = existsb (Nat.eqb x) l.
Proof.
  destruct (existsb (Nat.eqb x) l) eqn:E.
  - apply existsb_exists in E. destruct E as (y & Hy & Hxy). apply existsb_exists. exists y. split; [apply -> in_rev; exact Hy|exact Hxy].
  - destruct (existsb (Nat.eqb x) (rev l)) eqn:E2; [|reflexivity]. apply existsb_exists in E2. destruct E2 as (y & Hy & Hxy).
    assert (existsb (Nat.eqb x) l = true) as H; [|congruence]. apply existsb_exists. exists y. split; [apply in_rev; exact Hy|exact Hxy].
Qed.

Lemma forallb_ext_nat (f g : nat -> bool) (l : list nat) : (forall x, f x = g x) -> forallb f l = forallb g l.
Proof. intros H. induction l as [|x l IH]; cbn [forallb]; [reflexivity|rewrite H, IH; reflexivity]. Qed.

(* parse.c (stmt + resolve_goto_labels) accepts a function body exactly when break, continue, case
   and default have something to bind to and every goto names a label of the function - the
   constraints of 6.8.6.3p1, 6.8.6.2p1, 6.8.4.2 and 6.8.6.1p1. *)
Theorem sw_parse_accepts_iff : forall body ctr c, (exists code, pfunction body ctr c = Some code) <-> svalid_fn body = true.
Proof.
  intros body ctr c. unfold pfunction, svalid_fn. rewrite andb_true_iff.
  pose proof (paccept body (pinit ctr)) as Ha. cbn [pinit ps_brk ps_cont ps_sw bsome] in Ha. rewrite <- Ha.
  assert (Hres : forall node st, pparse body (pinit ctr) = Some (node, st) ->
            presolvable (ps_labels st) node = forallb (fun l => existsb (Nat.eqb l) (slabnames body)) (sgoto_names body)).
  { intros node st Ep. destruct (ppreserve _ _ _ _ Ep) as (_ & _ & _ & Hl & Hg). cbn [pinit ps_labels map] in Hl. rewrite app_nil_r in Hl.
    unfold presolvable. rewrite Hg. apply forallb_ext_nat. intros name. rewrite find_name_some, Hl. apply existsb_rev_nat. }
  split.
  - intros [code H]. destruct (pparse body (pinit ctr)) as [[node st]|] eqn:Ep; [|discriminate]. split; [eexists; reflexivity|].
    rewrite <- (Hres _ _ eq_refl). destruct (presolvable (ps_labels st) node); [reflexivity|discriminate].
  - intros [[[node st] Ep] Hg]. rewrite Ep. rewrite (Hres _ _ Ep), Hg. eexists. reflexivity.
Qed.
