(* C15 (package emit), part B: what the parser model leaves in `globals`, per identifier.
   An invariant of the fold over the declarations: the non-function objects named n are exactly the
   object declarations of n (newest first); there is exactly one function object per function name,
   its flags are those of the first declaration, is_definition = some declaration has a body, its
   recorded references are those of its body resolved by kind. *)
From Coq Require Import List Bool Arith ZArith Lia.
From Chibicc Require Import Model.Linkage Spec.LinkSpec Model.Emit Proofs.EmitAsm.
Import ListNotations.

(* ---------- lists ---------- *)
Lemma filter_map_fix {A} (P : A -> bool) (g : A -> A) l :
  (forall x, P x = true -> g x = x) -> (forall x, P (g x) = P x) -> filter P (map g l) = filter P l.
Proof.
  intros H1 H2. induction l as [|x r IH]; [reflexivity|]. cbn [map filter]. rewrite H2.
  destruct (P x) eqn:E; [rewrite (H1 x E), IH; reflexivity|exact IH].
Qed.
Lemma filter_map_comm {A} (P : A -> bool) (g : A -> A) l : (forall x, P (g x) = P x) -> filter P (map g l) = map g (filter P l).
Proof.
  intros H. induction l as [|x r IH]; [reflexivity|]. cbn [map filter]. rewrite H.
  destruct (P x); [cbn [map]; rewrite IH; reflexivity|exact IH].
Qed.
Lemma filter_none {A} (P : A -> bool) l : (forall x, In x l -> P x = false) -> filter P l = [].
Proof.
  induction l as [|x r IH]; intros H; [reflexivity|]. cbn [filter]. rewrite (H x (or_introl eq_refl)). apply IH.
  intros y Hy. apply H. right. exact Hy.
Qed.

Lemma objseq_app n a b : objseq n (a ++ b) = objseq n a ++ objseq n b.
Proof. induction a as [|d r IH]; [reflexivity|]. destruct d; cbn [app objseq]; [destruct (Nat.eqb n0 n); cbn [app]; rewrite IH; reflexivity|exact IH]. Qed.
Lemma funseq_app n a b : funseq n (a ++ b) = funseq n a ++ funseq n b.
Proof. induction a as [|d r IH]; [reflexivity|]. destruct d; cbn [app funseq]; [exact IH|destruct (Nat.eqb n0 n); cbn [app]; rewrite IH; reflexivity]. Qed.
Lemma funseq_in n p : funseq n p <> [] -> In n (map decl_name p).
Proof.
  induction p as [|d r IH]; [intros H; contradiction|]. destruct d; cbn [funseq map decl_name].
  - intros H. right. apply IH. exact H.
  - destruct (Nat.eqb_spec n0 n); [intros _; left; assumption|intros H; right; apply IH; exact H].
Qed.
Lemma objseq_in n p : objseq n p <> [] -> In n (map decl_name p).
Proof.
  induction p as [|d r IH]; [intros H; contradiction|]. destruct d; cbn [objseq map decl_name].
  - destruct (Nat.eqb_spec n0 n); [intros _; left; assumption|intros H; right; apply IH; exact H].
  - intros H. right. apply IH. exact H.
Qed.
Lemma objseq_In n p od : In od (objseq n p) <-> In (DObj n od) p.
Proof.
  induction p as [|d r IH]; [cbn; tauto|]. destruct d as [m od'|m sc il fz b]; cbn [objseq In].
  - destruct (Nat.eqb_spec m n) as [->|Hne]; cbn [In]; rewrite IH; [split; intros [H|H]; auto; [left; congruence|injection H as ->; auto]|].
    split; [auto|intros [H|H]; [injection H as -> _; contradiction|exact H]].
  - rewrite IH. split; [auto|intros [H|H]; [discriminate|exact H]].
Qed.
Lemma body_of_app s d : body_of (s ++ [d]) = match fd_body d with Some b => b | None => body_of s end.
Proof. unfold body_of. rewrite fold_left_app. reflexivity. Qed.

(* ---------- updates of function objects ---------- *)
Definition keeps (f : obj -> obj) : Prop :=
  forall o, ob_name (f o) = ob_name o /\ ob_function (f o) = ob_function o /\ ob_tentative (f o) = ob_tentative o
            /\ ob_rel (f o) = ob_rel o /\ ob_init (f o) = ob_init o /\ ob_inline (f o) = ob_inline o.
Lemma keeps_redeclare fst hb sc il : keeps (redeclare fst hb sc il). Proof. intros o. repeat split. Qed.
Lemma keeps_set_body r b : keeps (set_body r b). Proof. intros o. repeat split. Qed.
Lemma keeps_set_live b : keeps (set_live b). Proof. intros o. repeat split. Qed.

Lemma is_fun_named_keeps f n o : keeps f -> is_fun_named n (f o) = is_fun_named n o.
Proof. intros K. unfold is_fun_named. destruct (K o) as (-> & -> & _). reflexivity. Qed.
Lemma is_fun_named_excl g n o : is_fun_named g o = true -> is_fun_named n o = true -> g = n.
Proof.
  unfold is_fun_named. intros H1 H2. apply andb_true_iff in H1 as [_ H1]. apply andb_true_iff in H2 as [_ H2].
  apply ident_eqb_eq in H1. apply ident_eqb_eq in H2. congruence.
Qed.

Lemma filter_fun_update g n f gs : keeps f ->
  filter (is_fun_named g) (update_fun n f gs) = if Nat.eqb g n then map f (filter (is_fun_named g) gs) else filter (is_fun_named g) gs.
Proof.
  intros K. unfold update_fun. induction gs as [|o r IH]; [destruct (Nat.eqb g n); reflexivity|]. cbn [map filter].
  destruct (Nat.eqb_spec g n) as [->|Hne].
  - destruct (is_fun_named n o) eqn:E; [rewrite (is_fun_named_keeps f n o K), E; cbn [map]; rewrite IH; reflexivity|rewrite E; exact IH].
  - destruct (is_fun_named n o) eqn:E.
    + rewrite (is_fun_named_keeps f g o K). destruct (is_fun_named g o) eqn:E2; [exfalso; apply Hne; eapply is_fun_named_excl; eassumption|exact IH].
    + destruct (is_fun_named g o); [rewrite IH; reflexivity|exact IH].
Qed.

Definition objP (n : nat) (o : obj) : bool := same_name (User n) o && negb (ob_function o).
Lemma filter_obj_update n m f gs : keeps f -> filter (objP n) (update_fun m f gs) = filter (objP n) gs.
Proof.
  intros K. unfold update_fun. apply filter_map_fix.
  - intros o Ho. unfold objP in Ho. apply andb_true_iff in Ho as [_ Ho]. unfold is_fun_named. destruct (ob_function o); [discriminate|reflexivity].
  - intros o. destruct (is_fun_named m o); [|reflexivity]. unfold objP, same_name. destruct (K o) as (-> & -> & _). reflexivity.
Qed.

Lemma find_fun_filter n gs : find_fun n gs = hd_error (filter (is_fun_named n) gs).
Proof. induction gs as [|o r IH]; [reflexivity|]. cbn [find_fun filter]. destruct (is_fun_named n o); [reflexivity|exact IH]. Qed.

(* ---------- scope ---------- *)
Lemma resolve_kt sc (kt : nat -> bool * bool) m :
  (forall x k, In (x, k) sc -> k = kt x) -> In m (map fst sc) -> resolve sc m = Some (kt m).
Proof.
  induction sc as [|[x k] r IH]; intros H1 H2; [contradiction|]. cbn [resolve].
  destruct (Nat.eqb_spec x m) as [->|Hne]; [rewrite (H1 m k (or_introl eq_refl)); reflexivity|].
  apply IH; [intros y k' Hy; apply H1; right; exact Hy|]. destruct H2 as [H2|H2]; [cbn in H2; contradiction|exact H2].
Qed.

(* ---------- bodies ---------- *)
Definition funrefs (isf : nat -> bool) (items : list bitem) : list nat :=
  flat_map (fun i => match i with BRef m => if isf m then [m] else [] | _ => [] end) items.
Definition ubody (kt : nat -> bool * bool) (items : list bitem) : list rref :=
  flat_map (fun i => match i with BRef m => [if fst (kt m) then RFun m else RObj m (snd (kt m))] | _ => [] end) items.
Definition urefs (body : list rref) : list rref := filter (fun r => match r with RAnon _ _ => false | _ => true end) body.
Fixpoint body_anons (fn a : nat) (items : list bitem) : list obj :=
  match items with
  | [] => []
  | BRef _ :: r => body_anons fn a r
  | BStatic tl sz al arr hi :: r => anon_obj_of a tl hi sz al arr (Some fn) :: body_anons fn (S a) r
  | BString sz :: r => anon_obj_of a false true sz 1 true None :: body_anons fn (S a) r
  end.
Definition is_anon_obj (o : obj) : bool :=
  match ob_name o with
  | Anon _ => negb (ob_function o) && negb (ob_tentative o) && match ob_rel o with None => true | Some _ => false end
  | User _ => false
  end.
Lemma body_anons_anon fn a items : forall o, In o (body_anons fn a items) -> is_anon_obj o = true.
Proof.
  revert a. induction items as [|i r IH]; intros a o Ho; [contradiction|].
  destruct i; cbn [body_anons] in Ho; [eapply IH; exact Ho| |]; (destruct Ho as [<-|Ho]; [reflexivity|eapply IH; exact Ho]).
Qed.
Lemma urefs_app a b : urefs (a ++ b) = urefs a ++ urefs b. Proof. apply filter_app. Qed.

Lemma parse_body_spec sc fn kt : (forall x k, In (x, k) sc -> k = kt x) ->
  forall items anon gs refs body, (forall m, In (BRef m) items -> In m (map fst sc)) ->
  parse_body sc fn items anon gs refs body =
    (rev (body_anons fn anon items) ++ gs, (anon + length (body_anons fn anon items))%nat,
     refs ++ funrefs (fun m => fst (kt m)) items,
     snd (parse_body sc fn items anon gs refs body))
  /\ urefs (snd (parse_body sc fn items anon gs refs body)) = urefs body ++ ubody kt items.
Proof.
  intros Hsc. induction items as [|i r IH]; intros anon gs refs body Hin.
  - cbn. rewrite !app_nil_r, Nat.add_0_r. split; reflexivity.
  - assert (Hin' : forall m, In (BRef m) r -> In m (map fst sc)) by (intros m Hm; apply Hin; right; exact Hm).
    destruct i as [m|tl sz al arr hi|sz]; cbn [parse_body body_anons funrefs ubody flat_map].
    + rewrite (resolve_kt sc kt m Hsc (Hin m (or_introl eq_refl))). destruct (kt m) as [[|] t] eqn:Ek; cbn [fst snd].
      * destruct (IH anon gs (refs ++ [m]) (body ++ [RFun m]) Hin') as [E1 E2]. rewrite E1 at 1. cbn [snd]. split.
        -- unfold funrefs. rewrite <- app_assoc. reflexivity.
        -- rewrite E2, urefs_app. cbn. rewrite <- app_assoc. reflexivity.
      * destruct (IH anon gs refs (body ++ [RObj m t]) Hin') as [E1 E2]. rewrite E1 at 1. cbn [snd]. split.
        -- reflexivity.
        -- rewrite E2, urefs_app. cbn. rewrite <- app_assoc. reflexivity.
    + destruct (IH (S anon) (anon_obj_of anon tl hi sz al arr (Some fn) :: gs) refs (body ++ [RAnon anon tl]) Hin') as [E1 E2]. rewrite E1 at 1. cbn [snd]. split.
      * cbn [rev length]. rewrite <- app_assoc. cbn [app]. f_equal. f_equal. f_equal. lia.
      * rewrite E2, urefs_app. cbn. rewrite app_nil_r. reflexivity.
    + destruct (IH (S anon) (anon_obj_of anon false true sz 1 true None :: gs) refs (body ++ [RAnon anon false]) Hin') as [E1 E2]. rewrite E1 at 1. cbn [snd]. split.
      * cbn [rev length]. rewrite <- app_assoc. cbn [app]. f_equal. f_equal. f_equal. lia.
      * rewrite E2, urefs_app. cbn. rewrite app_nil_r. reflexivity.
Qed.

(* ---------- the objects of one identifier, with the alignment carried from declaration to declaration ---------- *)
Fixpoint acc_objs (n : nat) (prev : option Z) (s : list objdecl) : list obj :=
  match s with [] => [] | d :: r => let a := new_align d prev in obj_of_decl n d a :: acc_objs n (Some a) r end.
Fixpoint acc_last (prev : option Z) (s : list objdecl) : option Z :=
  match s with [] => prev | d :: r => acc_last (Some (new_align d prev)) r end.
Lemma acc_objs_snoc n s d : forall prev, acc_objs n prev (s ++ [d]) = acc_objs n prev s ++ [obj_of_decl n d (new_align d (acc_last prev s))].
Proof. induction s as [|x r IH]; intros prev; [reflexivity|]. cbn [app acc_objs acc_last]. rewrite IH. reflexivity. Qed.
Lemma hd_error_snoc {A} (l : list A) x : hd_error (l ++ [x]) = match hd_error l with Some y => Some y | None => Some x end.
Proof. destruct l; reflexivity. Qed.
Lemma acc_last_hd n s : forall prev, acc_last prev s = match hd_error (rev (acc_objs n prev s)) with Some o => Some (ob_align o) | None => prev end.
Proof.
  induction s as [|d r IH]; intros prev; [reflexivity|]. cbn [acc_last acc_objs rev]. rewrite hd_error_snoc, (IH (Some (new_align d prev))).
  destruct (hd_error (rev (acc_objs n (Some (new_align d prev)) r))); reflexivity.
Qed.
Lemma acc_objs_In n s : forall prev x, In x (acc_objs n prev s) -> exists od a, In od s /\ x = obj_of_decl n od a.
Proof.
  induction s as [|d r IH]; intros prev x H; [contradiction|]. cbn [acc_objs] in H. destruct H as [<-|H].
  - exists d, (new_align d prev). split; [left; reflexivity|reflexivity].
  - destruct (IH _ _ H) as (od & a & Hin & E). exists od, a. split; [right; exact Hin|exact E].
Qed.
Lemma acc_objs_In_conv n s od : forall prev, In od s -> exists a, In (obj_of_decl n od a) (acc_objs n prev s).
Proof.
  induction s as [|d r IH]; intros prev H; [contradiction|]. cbn [acc_objs]. destruct H as [->|H].
  - eexists. left. reflexivity.
  - destruct (IH (Some (new_align d prev)) H) as (a & Ha). exists a. right. exact Ha.
Qed.
Lemma acc_filter_len (P : obj -> bool) (Q : objdecl -> bool) n : (forall d a, P (obj_of_decl n d a) = Q d) ->
  forall s prev, length (filter P (rev (acc_objs n prev s))) = length (filter Q s).
Proof.
  intros H. induction s as [|d r IH]; intros prev; [reflexivity|]. cbn [acc_objs rev filter]. rewrite filter_app, app_length, IH. cbn [filter].
  rewrite H. destruct (Q d); cbn [length]; lia.
Qed.

(* ---------- the invariant ---------- *)
Section Parse.
Variable ds : list decl.

Definition kt (m : nat) : bool * bool := if is_fun_name ds m then (true, false) else (false, obj_tls_of ds m).
Definition isf (m : nat) : bool := fst (kt m).

Definition first_static (d1 : fundecl) : bool := sc_eqb (fd_sc d1) SC_static || (fd_inl d1 && negb (sc_eqb (fd_sc d1) SC_extern)).

(* at_: a file-scope initializer seen so far names the function *)
(* is_inline_def / is_static after all declarations so far (85373f4) *)
Definition clears (d : fundecl) : bool := clears_inline_def (fd_sc d) (fd_inl d).
Definition idef0 (d1 : fundecl) : bool := first_static d1 && negb (sc_eqb (fd_sc d1) SC_static).
Definition idef_of (s : list fundecl) : bool := match s with [] => false | d1 :: r => idef0 d1 && negb (existsb clears r) end.
Definition static_of (s : list fundecl) : bool :=
  match s with [] => false | d1 :: r => if idef0 d1 then negb (existsb clears r) else first_static d1 end.
Definition inline_of (s : list fundecl) : bool := match s with [] => false | d1 :: _ => fd_inl d1 end.
Lemma static_of_one d : static_of [d] = first_static d.
Proof. unfold static_of, idef0. cbn [existsb negb]. destruct (first_static d), (sc_eqb (fd_sc d) SC_static); reflexivity. Qed.
Lemma idef_of_snoc d1 r d : idef_of ((d1 :: r) ++ [d]) = if idef_of (d1 :: r) && clears d then false else idef_of (d1 :: r).
Proof. cbn [app idef_of]. rewrite existsb_app. cbn [existsb]. rewrite orb_false_r. destruct (idef0 d1), (existsb clears r), (clears d); reflexivity. Qed.
Lemma static_of_snoc d1 r d : static_of ((d1 :: r) ++ [d]) = if idef_of (d1 :: r) && clears d then false else static_of (d1 :: r).
Proof. cbn [app static_of idef_of]. rewrite existsb_app. cbn [existsb]. rewrite orb_false_r. destruct (idef0 d1), (existsb clears r), (clears d), (first_static d1); reflexivity. Qed.

Definition flagsA (g : nat) (s : list fundecl) (defd at_ : bool) (fo : obj) : Prop :=
  ob_name fo = User g /\ ob_function fo = true /\ ob_static fo = static_of s /\ ob_inline fo = inline_of s
  /\ ob_definition fo = defd /\ ob_root fo = negb (ob_static fo && ob_inline fo) || at_
  /\ ob_tentative fo = false /\ ob_rel fo = None /\ ob_init fo = false /\ ob_inline_def fo = idef_of s.
Definition all_funrefs (s : list fundecl) : list nat :=
  flat_map (fun d => match fd_body d with Some b => funrefs isf b | None => [] end) s.
Definition fun_flags (tk : nat -> bool) (g : nat) (s : list fundecl) (fo : obj) : Prop :=
  match s with
  | [] => False
  | d1 :: _ => flagsA g s (existsb has_body s) (tk g) fo /\ ob_refs fo = all_funrefs s /\ urefs (ob_body fo) = ubody kt (body_of s)
  end.
Definition fun_inv (tk : nat -> bool) (g : nat) (s : list fundecl) (l : list obj) : Prop :=
  match s with [] => l = [] | _ :: _ => exists fo, l = [fo] /\ fun_flags tk g s fo end.

Definition classified (p : list decl) (o : obj) : Prop :=
  (exists n od a, In (DObj n od) p /\ o = obj_of_decl n od a)
  \/ is_anon_obj o = true
  \/ (ob_function o = true /\ ob_tentative o = false /\ ob_rel o = None /\ ob_init o = false /\ exists g, ob_name o = User g).

(* tk g: "the address of g has been taken by a file-scope initializer"; instantiated with addr_taken_at_file_scope p *)
Record inv (p : list decl) (tk : nat -> bool) (st : pstate) : Prop := mkInv {
  inv_s1 : forall m k, In (m, k) (ps_scope st) -> k = kt m;
  inv_s2 : forall m, In m (map fst (ps_scope st)) <-> In m (map decl_name p);
  inv_g1 : forall n, filter (objP n) (ps_globals st) = rev (acc_objs n None (objseq n p));
  inv_g2 : forall g, fun_inv tk g (funseq g p) (filter (is_fun_named g) (ps_globals st));
  inv_cl : forall o, In o (ps_globals st) -> classified p o;
  inv_cur : ps_cur st = None }.

Definition step_ok (p : list decl) (d : decl) : Prop :=
  match d with
  | DObj n od => is_fun_name ds n = false /\ funseq n p = [] /\ o_tls od = obj_tls_of ds n
                 /\ forall t, o_init od = IAddr t -> In t (map decl_name (p ++ [d])) /\ (is_fun_name ds t = false -> funseq t p = [])
  | DFun n _ _ _ b => is_fun_name ds n = true
                      /\ (funseq n p = [] -> addr_taken_at_file_scope p n = false)
                      /\ forall items m, b = Some items -> In (BRef m) items -> In m (map decl_name (p ++ [d]))
  end.

Lemma classified_mono p q o : classified p o -> classified (p ++ q) o.
Proof.
  intros [(n & od & a & Hin & E)|[H|H]]; [left; exists n, od, a; split; [apply in_or_app; left; exact Hin|exact E]|right; left; exact H|right; right; exact H].
Qed.
Lemma classified_update p n f o : keeps f -> classified p o -> classified p (if is_fun_named n o then f o else o).
Proof.
  intros K H. destruct (is_fun_named n o) eqn:E; [|exact H]. unfold is_fun_named in E. apply andb_true_iff in E as [Ef En].
  destruct H as [(m & od & a & _ & ->)|[H|H]]; [discriminate| |].
  - unfold is_anon_obj in H. destruct (ob_name o); [discriminate|]. rewrite Ef in H. discriminate.
  - right. right. destruct (K o) as (-> & -> & -> & -> & -> & _). exact H.
Qed.

Lemma anon_not_fun_named g o : is_anon_obj o = true -> is_fun_named g o = false.
Proof. unfold is_anon_obj, is_fun_named. destruct (ob_name o); [discriminate|]. cbn. intros _. apply andb_false_r. Qed.
Lemma anon_not_objP n o : is_anon_obj o = true -> objP n o = false.
Proof. unfold is_anon_obj, objP, same_name. destruct (ob_name o); [discriminate|]. reflexivity. Qed.

Lemma inv_init tk : inv [] tk (mkPS [] [] 0 None).
Proof. constructor; cbn; intros; try tauto; try reflexivity. Qed.

Lemma keeps_set_root : keeps set_root. Proof. intros o. repeat split. Qed.
Lemma keeps_add_ref t : keeps (add_ref t). Proof. intros o. repeat split. Qed.

Lemma all_funrefs_snoc s d : all_funrefs (s ++ [d]) = all_funrefs s ++ match fd_body d with Some b => funrefs isf b | None => [] end.
Proof. unfold all_funrefs. rewrite flat_map_app. cbn [flat_map]. rewrite app_nil_r. reflexivity. Qed.

(* the root clause only matters for declared functions *)
Lemma inv_ext p tk tk' st : (forall g, funseq g p <> [] -> tk g = tk' g) -> inv p tk st -> inv p tk' st.
Proof.
  intros E I. constructor; try apply I. intros g. pose proof (inv_g2 _ _ _ I g) as H. unfold fun_inv, fun_flags in *.
  destruct (funseq g p) as [|d1 s'] eqn:Es; [exact H|]. rewrite <- (E g) by (rewrite Es; discriminate). exact H.
Qed.

(* an update of one function object that respects its flags keeps the invariant *)
Lemma inv_update p tk tk' st x f a : keeps f -> (forall g, g <> x -> tk' g = tk g) ->
  (forall fo, fun_flags tk x (funseq x p) fo -> fun_flags tk' x (funseq x p) (f fo)) ->
  inv p tk st -> inv p tk' (mkPS (update_fun x f (ps_globals st)) (ps_scope st) a None).
Proof.
  intros K Hother Hf I. constructor; cbn [ps_scope ps_globals ps_cur]; [| | | | |reflexivity].
  - apply (inv_s1 _ _ _ I).
  - apply (inv_s2 _ _ _ I).
  - intros q. rewrite filter_obj_update by exact K. apply (inv_g1 _ _ _ I).
  - intros g. rewrite filter_fun_update by exact K. pose proof (inv_g2 _ _ _ I g) as H. destruct (Nat.eqb_spec g x) as [->|Hne].
    + unfold fun_inv in *. destruct (funseq x p) as [|d1 s'] eqn:E; [rewrite H; reflexivity|]. destruct H as (fo & -> & FF).
      exists (f fo). split; [reflexivity|]. apply Hf. exact FF.
    + unfold fun_inv, fun_flags in *. destruct (funseq g p); [exact H|]. rewrite (Hother g Hne). exact H.
  - intros o' Ho. unfold update_fun in Ho. apply in_map_iff in Ho as (o0 & <- & Ho0). apply classified_update; [exact K|apply (inv_cl _ _ _ I); exact Ho0].
Qed.

Lemma inv_cons_obj p tk st n od al a : inv p tk st -> is_fun_name ds n = false -> o_tls od = obj_tls_of ds n ->
  al = new_align od (acc_last None (objseq n p)) ->
  inv (p ++ [DObj n od]) tk (mkPS (obj_of_decl n od al :: ps_globals st) ((n, (false, o_tls od)) :: ps_scope st) a None).
Proof.
  intros I Hnf Htls Hal.
  assert (Hkt : kt n = (false, o_tls od)) by (unfold kt; rewrite Hnf, Htls; reflexivity).
  constructor; cbn [ps_scope ps_globals ps_cur]; [| | | | |reflexivity].
  - intros m k [H|H]; [injection H as <- <-; symmetry; exact Hkt|apply (inv_s1 _ _ _ I); exact H].
  - intros m. rewrite map_app, in_app_iff. cbn. rewrite (inv_s2 _ _ _ I m). tauto.
  - intros q. rewrite objseq_app. cbn [filter objseq]. unfold objP at 1. unfold same_name. cbn [obj_of_decl ob_name ob_function negb ident_eqb]. rewrite andb_true_r.
    rewrite (Nat.eqb_sym q n). destruct (Nat.eqb_spec n q) as [->|Hne].
    + rewrite acc_objs_snoc, rev_app_distr. cbn [rev app]. rewrite (inv_g1 _ _ _ I q), Hal. reflexivity.
    + rewrite app_nil_r. apply (inv_g1 _ _ _ I q).
  - intros g. rewrite funseq_app. cbn [filter funseq]. unfold is_fun_named at 1. cbn [obj_of_decl ob_function andb]. rewrite app_nil_r. apply (inv_g2 _ _ _ I g).
  - intros o'. intros [<-|Ho].
    + left. exists n, od, al. split; [apply in_or_app; right; left; reflexivity|reflexivity].
    + apply classified_mono. apply (inv_cl _ _ _ I). exact Ho.
Qed.

(* find_var(name) at file scope: the newest object of that name *)
Lemma find_objP n gs : filter (is_fun_named n) gs = [] ->
  find (fun o => ident_eqb (User n) (ob_name o)) gs = hd_error (filter (objP n) gs).
Proof.
  induction gs as [|o r IH]; intros H; [reflexivity|]. cbn [filter find] in *. unfold objP at 1, same_name. unfold is_fun_named at 1 in H.
  destruct (ident_eqb (User n) (ob_name o)) eqn:E; cbn [andb].
  - destruct (ob_function o); [discriminate|reflexivity].
  - rewrite andb_false_r in H. apply IH. exact H.
Qed.
Lemma prev_align_inv p tk st n : inv p tk st -> funseq n p = [] -> prev_align (ps_globals st) n = acc_last None (objseq n p).
Proof.
  intros I Hf. unfold prev_align. pose proof (inv_g2 _ _ _ I n) as G2. rewrite Hf in G2. cbn [fun_inv] in G2.
  rewrite (find_objP n _ G2), (inv_g1 _ _ _ I n), (acc_last_hd n).
  destruct (hd_error (rev (acc_objs n None (objseq n p)))) as [o|] eqn:E; [|reflexivity].
  assert (Hin : In o (rev (acc_objs n None (objseq n p)))) by (destruct (rev (acc_objs n None (objseq n p))); [discriminate|injection E as ->; left; reflexivity]).
  apply in_rev in Hin. apply acc_objs_In in Hin as (od & a & _ & ->). reflexivity.
Qed.

Lemma update_fun_cons_obj x f n od al gs : update_fun x f (obj_of_decl n od al :: gs) = obj_of_decl n od al :: update_fun x f gs.
Proof. reflexivity. Qed.

Lemma addr_taken_snoc p d g : addr_taken_at_file_scope (p ++ [d]) g =
  addr_taken_at_file_scope p g || match d with DObj _ od => match o_init od with IAddr t => Nat.eqb t g | _ => false end | _ => false end.
Proof. unfold addr_taken_at_file_scope. rewrite existsb_app. cbn [existsb]. rewrite orb_false_r. reflexivity. Qed.

Lemma inv_step_obj p st n od : inv p (addr_taken_at_file_scope p) st -> step_ok p (DObj n od) ->
  inv (p ++ [DObj n od]) (addr_taken_at_file_scope (p ++ [DObj n od])) (step st (DObj n od)).
Proof.
  intros I (Hnf & Hfp & Htls & Haddr).
  set (al := new_align od (prev_align (ps_globals st) n)).
  assert (Hal : al = new_align od (acc_last None (objseq n p))) by (unfold al; rewrite (prev_align_inv p _ st n I Hfp); reflexivity).
  pose proof (inv_cons_obj p _ st n od al 0 I Hnf Htls Hal) as I0.
  pose proof (inv_cur _ _ _ I) as Hcur.
  set (sc := (n, (false, o_tls od)) :: ps_scope st) in *.
  set (tk := addr_taken_at_file_scope p) in *.
  assert (Hplain : step st (DObj n od) = mkPS (obj_of_decl n od al :: ps_globals st) sc (ps_anon st) None ->
                   (forall g, funseq g (p ++ [DObj n od]) <> [] -> tk g = addr_taken_at_file_scope (p ++ [DObj n od]) g) ->
                   inv (p ++ [DObj n od]) (addr_taken_at_file_scope (p ++ [DObj n od])) (step st (DObj n od))).
  { intros -> E. apply (inv_ext _ tk); [exact E|]. apply (inv_cons_obj p tk st n od al _ I Hnf Htls Hal). }
  destruct (o_init od) as [| |t] eqn:Ei.
  - apply Hplain; [cbn [step]; rewrite Ei, Hcur; reflexivity|]. intros g _. rewrite addr_taken_snoc, Ei, orb_false_r. reflexivity.
  - apply Hplain; [cbn [step]; rewrite Ei, Hcur; reflexivity|]. intros g _. rewrite addr_taken_snoc, Ei, orb_false_r. reflexivity.
  - destruct (Haddr t eq_refl) as [Hin Hobj].
    assert (Hres : resolve sc t = Some (kt t)).
    { apply (resolve_kt sc kt t (inv_s1 _ _ _ I0)). apply (inv_s2 _ _ _ I0). exact Hin. }
    destruct (is_fun_name ds t) eqn:Eft.
    + (* the initializer names a function: primary() marks it as a root (current_fn is NULL) *)
      assert (Hkt : kt t = (true, false)) by (unfold kt; rewrite Eft; reflexivity).
      assert (E : step st (DObj n od) = mkPS (obj_of_decl n od al :: update_fun t set_root (ps_globals st)) sc (ps_anon st) None).
      { cbn [step]. rewrite Ei. fold al. fold sc. rewrite Hres, Hkt, Hcur. unfold note_fun_ref. rewrite update_fun_cons_obj. reflexivity. }
      rewrite E.
      apply (inv_ext _ (fun g => tk g || Nat.eqb t g)); [intros g _; rewrite addr_taken_snoc, Ei; reflexivity|].
      apply (inv_cons_obj p _ (mkPS (update_fun t set_root (ps_globals st)) (ps_scope st) 0 None) n od al); [|exact Hnf|exact Htls|exact Hal].
      apply (inv_update p tk); [apply keeps_set_root| | |exact I].
      * intros g Hg. apply Nat.eqb_neq in Hg. rewrite (Nat.eqb_sym t g), Hg. apply orb_false_r.
      * intros fo FF. unfold fun_flags in *. destruct (funseq t p) as [|d1 s'] eqn:Et; [exact FF|]. destruct FF as (FA & FR & FB).
        split; [|split; assumption].
        destruct FA as (A1 & A2 & A3 & A4 & A5 & A6 & A7 & A8 & A9 & A10). unfold flagsA. cbn [set_root ob_name ob_function ob_static ob_inline ob_definition ob_root ob_tentative ob_rel ob_init ob_inline_def].
        repeat split; try assumption. rewrite Nat.eqb_refl, !orb_true_r. reflexivity.
    + apply Hplain; [cbn [step]; rewrite Ei; fold al; fold sc; rewrite Hres; unfold kt; rewrite Eft, Hcur; reflexivity|].
      intros g Hg. rewrite addr_taken_snoc, Ei. destruct (Nat.eqb_spec t g) as [->|]; [|rewrite orb_false_r; reflexivity].
      exfalso. apply Hg. rewrite funseq_app, (Hobj eq_refl). reflexivity.
Qed.

Definition stage1 (st : pstate) (n : nat) (sc : sclass) (il hb : bool) : list obj * list (nat * (bool * bool)) :=
  match find_fun n (ps_globals st) with
  | Some _ => (update_fun n (redeclare false hb sc il) (ps_globals st), ps_scope st)
  | None => (redeclare true hb sc il (new_fun n sc il) :: ps_globals st, (n, (true, false)) :: ps_scope st)
  end.

Lemma hd_error_nil {A} (l : list A) : hd_error l = None -> l = [].
Proof. destruct l; [reflexivity|discriminate]. Qed.

Lemma stage1_spec p tk st n sc il fsz body : inv p tk st -> is_fun_name ds n = true -> (funseq n p = [] -> tk n = false) ->
  let d := mkFD sc il body in
  let hb := has_body d in
  let s := funseq n p in
  let gs1 := fst (stage1 st n sc il hb) in
  let scope1 := snd (stage1 st n sc il hb) in
  (forall m k, In (m, k) scope1 -> k = kt m)
  /\ (forall m, In m (map fst scope1) <-> In m (map decl_name (p ++ [DFun n sc il fsz body])))
  /\ (forall q, filter (objP q) gs1 = filter (objP q) (ps_globals st))
  /\ (forall g, g <> n -> filter (is_fun_named g) gs1 = filter (is_fun_named g) (ps_globals st))
  /\ (forall o, In o gs1 -> classified p o)
  /\ exists fo1, filter (is_fun_named n) gs1 = [fo1]
       /\ flagsA n (s ++ [d]) (existsb has_body (s ++ [d])) (tk n) fo1
       /\ ob_refs fo1 = all_funrefs s /\ urefs (ob_body fo1) = ubody kt (body_of s).
Proof.
  intros I Hf Htk d hb s gs1 scope1.
  assert (Hkt : kt n = (true, false)) by (unfold kt; rewrite Hf; reflexivity).
  pose proof (inv_g2 _ _ _ I n) as G2.
  unfold gs1, scope1, stage1. subst s. rewrite find_fun_filter.
  destruct (filter (is_fun_named n) (ps_globals st)) as [|fo l] eqn:El; cbn [hd_error fst snd].
  - (* first declaration of n *)
    assert (Es : funseq n p = []) by (destruct (funseq n p); [reflexivity|destruct G2 as (fo & E & _); discriminate]).
    rewrite Es. cbn [hd app].
    assert (Hn : is_fun_named n (redeclare true hb sc il (new_fun n sc il)) = true) by (unfold is_fun_named; cbn; apply Nat.eqb_refl).
    repeat split.
    + intros m k [H|H]; [injection H as <- <-; symmetry; exact Hkt|apply (inv_s1 _ _ _ I); exact H].
    + rewrite map_app, in_app_iff. cbn. rewrite (inv_s2 _ _ _ I m). tauto.
    + rewrite map_app, in_app_iff. cbn. rewrite (inv_s2 _ _ _ I m). tauto.
    + intros q. cbn [filter]. unfold objP at 1. cbn. rewrite andb_false_r. reflexivity.
    + intros g Hg. cbn [filter]. destruct (is_fun_named g (redeclare true hb sc il (new_fun n sc il))) eqn:E; [|reflexivity].
      exfalso. apply Hg. eapply is_fun_named_excl; eassumption.
    + intros o [<-|Ho]; [|apply (inv_cl _ _ _ I); exact Ho]. right. right. cbn. repeat split. exists n. reflexivity.
    + exists (redeclare true hb sc il (new_fun n sc il)). cbn [filter]. rewrite Hn, El. split; [reflexivity|]. split; [|split; reflexivity].
      unfold flagsA. rewrite (Htk Es), static_of_one. unfold idef_of, idef0, first_static. cbn. repeat split; rewrite ?orb_false_r, ?andb_true_r; reflexivity.
  - (* redeclaration *)
    destruct (funseq n p) as [|d1 s'] eqn:Es; [discriminate|]. destruct G2 as (fo0 & E0 & (FA & FR & FB)). injection E0 as <- ->.
    cbn [hd].
    repeat split.
    + apply (inv_s1 _ _ _ I).
    + intros H. rewrite map_app, in_app_iff. left. apply (inv_s2 _ _ _ I). exact H.
    + rewrite map_app, in_app_iff. intros [H|[<-|[]]]; apply (inv_s2 _ _ _ I); [exact H|]. apply funseq_in. cbn [decl_name]. congruence.
    + intros q. apply filter_obj_update. apply keeps_redeclare.
    + intros g Hg. rewrite filter_fun_update by apply keeps_redeclare. apply Nat.eqb_neq in Hg. rewrite Hg. reflexivity.
    + intros o Ho. unfold update_fun in Ho. apply in_map_iff in Ho as (o0 & <- & Ho0). apply classified_update; [apply keeps_redeclare|apply (inv_cl _ _ _ I); exact Ho0].
    + exists (redeclare false hb sc il fo). rewrite filter_fun_update by apply keeps_redeclare. rewrite Nat.eqb_refl, El. split; [reflexivity|].
      destruct FA as (A1 & A2 & A3 & A4 & A5 & A6 & A7 & A8 & A9 & A10). split; [|split; assumption].
      assert (Hclr : negb false && ob_inline_def fo && clears_inline_def sc il = idef_of (d1 :: s') && clears d) by (rewrite A10; reflexivity).
      unfold flagsA. cbn [redeclare ob_name ob_function ob_static ob_inline ob_definition ob_root ob_tentative ob_rel ob_init ob_inline_def].
      rewrite Hclr, static_of_snoc, idef_of_snoc.
      repeat split; try assumption.
      * rewrite A3. reflexivity.
      * rewrite A5. rewrite existsb_app. cbn [existsb]. rewrite orb_false_r. reflexivity.
      * rewrite A6. destruct (idef_of (d1 :: s') && clears d), (ob_static fo), (ob_inline fo), (tk n); reflexivity.
      * rewrite A10. reflexivity.
Qed.

Lemma step_fun_unfold st n sc il fsz body :
  step st (DFun n sc il fsz body) =
  let hb := match body with Some _ => true | None => false end in
  let gs1 := fst (stage1 st n sc il hb) in
  let scope1 := snd (stage1 st n sc il hb) in
  match body with
  | None => mkPS gs1 scope1 (ps_anon st) (ps_cur st)
  | Some items =>
      let a := ps_anon st in
      let gs2 := anon_obj_of (S a) false true fsz 1 true None :: anon_obj_of a false true fsz 1 true None :: gs1 in
      let r := parse_body scope1 n items (S (S a)) gs2 [] [] in
      mkPS (update_fun n (set_body (snd (fst r)) (snd r)) (fst (fst (fst r)))) scope1 (snd (fst (fst r))) None
  end.
Proof.
  cbn [step]. unfold stage1. destruct (find_fun n (ps_globals st)); cbn [fst snd]; destruct body as [items|]; try reflexivity.
  - destruct (parse_body _ _ items _ _ [] []) as [[[g a] r] b]. reflexivity.
  - destruct (parse_body _ _ items _ _ [] []) as [[[g a] r] b]. reflexivity.
Qed.

Lemma inv_step_fun p tk st n sc il fsz body :
  inv p tk st -> is_fun_name ds n = true -> (funseq n p = [] -> tk n = false) ->
  (forall items m, body = Some items -> In (BRef m) items -> In m (map decl_name (p ++ [DFun n sc il fsz body]))) ->
  inv (p ++ [DFun n sc il fsz body]) tk (step st (DFun n sc il fsz body)).
Proof.
  intros I Hf Htk Hrefs.
  destruct (stage1_spec p tk st n sc il fsz body I Hf Htk) as (S1 & S2 & G1 & G2o & CL & fo1 & Efo & FA & FR & FB).
  cbv zeta in S1, S2, G1, G2o, CL, Efo, FA, FR, FB.
  assert (Ehb : has_body (mkFD sc il body) = match body with Some _ => true | None => false end) by (destruct body; reflexivity).
  rewrite Ehb in *. clear Ehb.
  rewrite step_fun_unfold. cbv zeta.
  set (hb := match body with Some _ => true | None => false end) in *.
  set (gs1 := fst (stage1 st n sc il hb)) in *. set (scope1 := snd (stage1 st n sc il hb)) in *.
  set (d := mkFD sc il body) in *.
  assert (Hfs : forall g, funseq g (p ++ [DFun n sc il fsz body]) = funseq g p ++ (if Nat.eqb n g then [d] else [])).
  { intros g. rewrite funseq_app. cbn [funseq]. destruct (Nat.eqb n g); reflexivity. }
  assert (Hos : forall q, objseq q (p ++ [DFun n sc il fsz body]) = objseq q p).
  { intros q. rewrite objseq_app. cbn [objseq]. apply app_nil_r. }
  destruct body as [items|].
  - (* definition *)
    set (a := ps_anon st).
    set (gs2 := anon_obj_of (S a) false true fsz 1 true None :: anon_obj_of a false true fsz 1 true None :: gs1).
    assert (Hitems : forall m, In (BRef m) items -> In m (map fst scope1)).
    { intros m Hm. apply S2. apply (Hrefs items m eq_refl Hm). }
    destruct (parse_body_spec scope1 n kt S1 items (S (S a)) gs2 [] [] Hitems) as [E1 E2].
    set (r := parse_body scope1 n items (S (S a)) gs2 [] []) in *.
    assert (Eg : fst (fst (fst r)) = rev (body_anons n (S (S a)) items) ++ gs2) by (rewrite E1; reflexivity).
    assert (Er : snd (fst r) = funrefs isf items) by (rewrite E1; reflexivity).
    rewrite Eg, Er.
    assert (Hanon : forall P : obj -> bool, (forall o, is_anon_obj o = true -> P o = false) ->
                    filter P (rev (body_anons n (S (S a)) items) ++ gs2) = filter P gs1).
    { intros P HP. rewrite filter_app. rewrite (filter_none P (rev _)).
      - unfold gs2. cbn [filter app]. rewrite !HP by reflexivity. reflexivity.
      - intros o Ho. apply HP. apply in_rev in Ho. eapply body_anons_anon. exact Ho. }
    constructor; cbn [ps_scope ps_globals ps_cur]; [| | | | |reflexivity].
    + exact S1.
    + exact S2.
    + intros q. rewrite filter_obj_update by apply keeps_set_body. rewrite (Hanon _ (anon_not_objP q)), G1, Hos. apply (inv_g1 _ _ _ I).
    + intros g. rewrite filter_fun_update by apply keeps_set_body. rewrite (Hanon _ (anon_not_fun_named g)), Hfs.
      destruct (Nat.eqb_spec g n) as [->|Hne].
      * rewrite Nat.eqb_refl, Efo. cbn [map].
        assert (Hne : funseq n p ++ [d] <> []) by (destruct (funseq n p); discriminate).
        destruct (funseq n p ++ [d]) as [|d1 s1] eqn:Es; [contradiction|]. cbn [fun_inv].
        exists (set_body (funrefs isf items) (snd r) fo1). split; [reflexivity|].
        cbn [fun_flags]. split; [|split].
        -- destruct FA as (A1 & A2 & A3 & A4 & A5 & A6 & A7 & A8 & A9 & A10). unfold flagsA. cbn [set_body ob_name ob_function ob_static ob_inline ob_definition ob_root ob_tentative ob_rel ob_init ob_inline_def]. repeat split; assumption.
        -- cbn [set_body ob_refs]. rewrite FR, <- Es, all_funrefs_snoc. reflexivity.
        -- cbn [set_body ob_body]. rewrite E2. rewrite <- Es, body_of_app. reflexivity.
      * rewrite (proj2 (Nat.eqb_neq n g) (fun E => Hne (eq_sym E))), app_nil_r, (G2o g Hne). apply (inv_g2 _ _ _ I g).
    + intros o Ho. unfold update_fun in Ho. apply in_map_iff in Ho as (o0 & <- & Ho0). apply classified_update; [apply keeps_set_body|].
      apply in_app_or in Ho0 as [Ho0|Ho0].
      * right. left. apply in_rev in Ho0. eapply body_anons_anon. exact Ho0.
      * destruct Ho0 as [<-|[<-|Ho0]]; [right; left; reflexivity|right; left; reflexivity|]. apply classified_mono. apply CL. exact Ho0.
  - (* declaration *)
    constructor; cbn [ps_scope ps_globals ps_cur]; [| | | | |apply (inv_cur _ _ _ I)].
    + exact S1.
    + exact S2.
    + intros q. rewrite G1, Hos. apply (inv_g1 _ _ _ I).
    + intros g. rewrite Hfs. destruct (Nat.eqb_spec g n) as [->|Hne].
      * rewrite Nat.eqb_refl, Efo.
        assert (Hne : funseq n p ++ [d] <> []) by (destruct (funseq n p); discriminate).
        destruct (funseq n p ++ [d]) as [|d1 s1] eqn:Es; [contradiction|]. cbn [fun_inv].
        exists fo1. split; [reflexivity|].
        cbn [fun_flags]. split; [exact FA|split].
        -- rewrite FR, <- Es, all_funrefs_snoc. unfold d. cbn [fd_body]. rewrite app_nil_r. reflexivity.
        -- rewrite FB. rewrite <- Es, body_of_app. reflexivity.
      * rewrite (proj2 (Nat.eqb_neq n g) (fun E => Hne (eq_sym E))), app_nil_r, (G2o g Hne). apply (inv_g2 _ _ _ I g).
    + intros o Ho. apply classified_mono. apply CL. exact Ho.
Qed.

Lemma inv_fold : (forall p d q, ds = p ++ d :: q -> step_ok p d) ->
  forall q p st, inv p (addr_taken_at_file_scope p) st -> p ++ q = ds -> inv ds (addr_taken_at_file_scope ds) (fold_left step q st).
Proof.
  intros Hok. induction q as [|d q IH]; intros p st I E.
  - rewrite app_nil_r in E. subst p. exact I.
  - cbn [fold_left]. apply (IH (p ++ [d])); [|rewrite <- app_assoc; exact E].
    pose proof (Hok p d q (eq_sym E)) as Hs. destruct d as [n od|n sc il fsz body].
    + apply inv_step_obj; assumption.
    + destruct Hs as (Hf & Htk & Hrefs).
      apply (inv_ext _ (addr_taken_at_file_scope p)); [intros g _; rewrite addr_taken_snoc, orb_false_r; reflexivity|].
      apply inv_step_fun; assumption.
Qed.
Theorem inv_parse : (forall p d q, ds = p ++ d :: q -> step_ok p d) -> inv ds (addr_taken_at_file_scope ds) (parse ds).
Proof. intros Hok. unfold parse. apply (inv_fold Hok ds [] _ (inv_init _)). reflexivity. Qed.
End Parse.
