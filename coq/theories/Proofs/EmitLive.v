(* C15 (package emit), part C2: consequences of `valid`, the flags of function objects read
   against 6.2.2 / 6.7.4p7, and liveness: the functions chibicc marks live are exactly the ones the
   specification calls emitted (through the soundness and completeness theorems of mark_live in
   LinkageProofs / LinkageComplete). *)
From Coq Require Import List Bool Arith ZArith Lia.
From Chibicc Require Import Model.Linkage Proofs.LinkageProofs Proofs.LinkageComplete.
From Chibicc Require Import Spec.LinkSpec Model.Emit Proofs.EmitAsm Proofs.EmitParse Proofs.EmitScan.
Import ListNotations.

Lemma nmem_In n l : nmem n l = true <-> In n l.
Proof.
  unfold nmem. rewrite existsb_exists. split; [intros (x & Hx & E); apply Nat.eqb_eq in E; subst; exact Hx|intros H; exists n; split; [exact H|apply Nat.eqb_refl]].
Qed.

(* ---------- linkage of consistent sequences ---------- *)
Lemma link_fold_consistent {A} (step : option linkage -> A -> linkage) l : forall k,
  link_consistent step (Some k) l = true -> link_fold step (Some k) l = Some k /\ forall x, In x l -> step (Some k) x = k.
Proof.
  induction l as [|a r IH]; intros k H; [split; [reflexivity|intros x []]|].
  cbn [link_consistent] in H. apply andb_true_iff in H as [H1 H2].
  assert (E : step (Some k) a = k) by (destruct k, (step (Some L_external) a), (step (Some L_internal) a); cbn in H1; congruence).
  rewrite E in H2. destruct (IH k H2) as [F1 F2]. cbn [link_fold]. rewrite E. split; [exact F1|].
  intros x [<-|Hx]; [exact E|apply F2; exact Hx].
Qed.
Lemma link_first {A} (step : option linkage -> A -> linkage) a r :
  link_consistent step None (a :: r) = true ->
  link_fold step None (a :: r) = Some (step None a) /\ forall x, In x r -> step (Some (step None a)) x = step None a.
Proof. cbn [link_consistent link_fold andb]. apply link_fold_consistent. Qed.

Definition is_internal (s : list fundecl) : bool := match fun_linkage s with Some L_internal => true | _ => false end.

Lemma clears_all r : (forall x, In x r -> fun_link_step (Some L_external) (fd_sc x) = L_external) ->
  negb (existsb clears r) = forallb inline_no_extern r.
Proof.
  induction r as [|x r IH]; intros Hall; [reflexivity|]. cbn [existsb forallb].
  assert (Hx : clears x = negb (inline_no_extern x)).
  { specialize (Hall x (or_introl eq_refl)). unfold clears, clears_inline_def, inline_no_extern.
    destruct (fd_sc x), (fd_inl x); cbn in *; try reflexivity; discriminate. }
  rewrite Hx, <- IH by (intros y Hy; apply Hall; right; exact Hy). destruct (inline_no_extern x), (existsb clears r); reflexivity.
Qed.
(* is_static after all declarations = internal linkage or a mere inline definition (85373f4 made this true for
   every valid sequence; before, it needed the exclusion kb_inline_first) *)
Lemma static_model d1 s' : valid_funseq (d1 :: s') = true ->
  static_of (d1 :: s') = is_internal (d1 :: s') || inline_definition_only (d1 :: s').
Proof.
  intros V. unfold valid_funseq in V. apply andb_true_iff in V as [V _]. destruct (link_first _ d1 s' V) as [E Hall]. cbn beta in E, Hall.
  unfold is_internal, inline_definition_only, fun_linkage. rewrite E. unfold static_of, idef0, first_static. cbn [forallb].
  unfold inline_no_extern at 1.
  destruct (fd_sc d1) eqn:Esc, (fd_inl d1) eqn:Ei; cbn; try reflexivity.
  apply clears_all. intros x Hx. specialize (Hall x Hx). cbn in Hall. exact Hall.
Qed.
Lemma skippable_model d1 s' : valid_funseq (d1 :: s') = true -> skippable (d1 :: s') = static_of (d1 :: s') && inline_of (d1 :: s').
Proof.
  intros V. rewrite (static_model d1 s' V). unfold skippable, is_internal, inline_of. rewrite andb_comm. reflexivity.
Qed.

(* ---------- declared before use ---------- *)
Lemma dbu_split : forall p seen d q, declared_before_use seen (p ++ d :: q) = true ->
  declared_before_use (rev (map decl_name p) ++ seen) (d :: q) = true.
Proof.
  induction p as [|x p IH]; intros seen d q H; [exact H|].
  cbn [map rev]. rewrite <- app_assoc. cbn [app]. apply IH.
  destruct x; cbn [app declared_before_use decl_name] in *; apply andb_true_iff in H as [_ H]; exact H.
Qed.

Lemma all_funrefs_one ds s : (length (filter has_body s) <= 1)%nat -> all_funrefs ds s = funrefs (isf ds) (body_of s).
Proof.
  induction s as [|d s IH] using rev_ind; intros H; [reflexivity|].
  unfold all_funrefs in *. rewrite flat_map_app, body_of_app. cbn [flat_map]. rewrite app_nil_r.
  rewrite filter_app, app_length in H. cbn [filter] in H. unfold has_body at 2 in H.
  destruct (fd_body d) as [b|].
  - cbn [length] in H. assert (Hz : length (filter has_body s) = 0%nat) by lia.
    rewrite (flat_map_nil _ s); [reflexivity|]. intros x Hx. pose proof (length_filter_zero has_body s Hz x Hx) as Hb.
    unfold has_body in Hb. destruct (fd_body x); [discriminate|reflexivity].
  - cbn [length] in H. rewrite IH by lia. apply app_nil_r.
Qed.

(* ---------- alignment: what chibicc carries forward is the object's alignment at every defining declaration ---------- *)
Lemma fold_max_two ta a0 l : (ta <= a0)%Z -> (forall v, In v l -> v = ta \/ v = a0) ->
  forall init, init = ta \/ init = a0 ->
  fold_left Z.max l init = if (init =? a0)%Z || existsb (fun v => (v =? a0)%Z) l then a0 else ta.
Proof.
  intros Hle. induction l as [|v r IH]; intros Hl init Hi.
  - cbn. rewrite orb_false_r. destruct (Z.eqb_spec init a0); [congruence|]. destruct Hi; congruence.
  - cbn [fold_left existsb]. rewrite IH; [|intros w Hw; apply Hl; right; exact Hw|].
    + destruct (Hl v (or_introl eq_refl)) as [-> | ->], Hi as [-> | ->];
        repeat match goal with |- context [(?x =? ?y)%Z] => destruct (Z.eqb_spec x y) end; cbn; try reflexivity; try lia.
    + destruct (Hl v (or_introl eq_refl)) as [-> | ->], Hi as [-> | ->]; lia.
Qed.

Lemma acc_valid_gen n ta a0 : (ta <= a0)%Z -> forall r,
  (forall x, In x r -> o_align x = ta /\ match o_alignas x with Some a => a = a0 | None => True end) ->
  forall seen prev, spec_positions seen r = true \/ a0 = ta ->
  (if seen then prev = Some a0 else prev = None \/ prev = Some ta) ->
  forall x, In x (acc_objs n prev r) -> exists od a, In od r /\ x = obj_of_decl n od a /\ (is_defining od = true -> a = a0).
Proof.
  intros Hle. induction r as [|d r IH]; intros Hr seen prev Hpos Hprev x Hx; [contradiction|].
  cbn [acc_objs] in Hx. destruct (Hr d (or_introl eq_refl)) as [Hta Hsp].
  set (seen' := seen || has_spec d).
  assert (Hnew : (if seen' then new_align d prev = a0 else new_align d prev = ta)).
  { unfold seen', has_spec, new_align. destruct (o_alignas d) as [a|].
    - rewrite orb_true_r. exact Hsp.
    - rewrite orb_false_r, Hta. destruct seen; [rewrite Hprev; lia|destruct Hprev as [-> | ->]; lia]. }
  destruct Hx as [<-|Hx].
  - exists d, (new_align d prev). split; [left; reflexivity|]. split; [reflexivity|]. intros He.
    destruct Hpos as [Hpos| ->].
    + cbn [spec_positions] in Hpos. fold seen' in Hpos. rewrite He in Hpos. cbn [negb orb] in Hpos. apply andb_true_iff in Hpos as [Hs _]. rewrite Hs in Hnew. exact Hnew.
    + destruct seen'; exact Hnew.
  - destruct (IH (fun y Hy => Hr y (or_intror Hy)) seen' (Some (new_align d prev))) with (x := x) as (od & a & Hin & E & Ha); [| |exact Hx|].
    + destruct Hpos as [Hpos|E]; [left|right; exact E]. cbn [spec_positions] in Hpos. fold seen' in Hpos. apply andb_true_iff in Hpos as [_ Hpos]. exact Hpos.
    + destruct seen'; [rewrite Hnew; reflexivity|right; rewrite Hnew; reflexivity].
    + exists od, a. split; [right; exact Hin|]. split; assumption.
Qed.

Lemma first_spec_none s : first_spec s = None -> forall x, In x s -> o_alignas x = None.
Proof.
  induction s as [|d r IH]; intros H x Hx; [contradiction|]. cbn [first_spec fold_right] in H. destruct (o_alignas d) eqn:E; [discriminate|].
  destruct Hx as [<-|Hx]; [exact E|apply IH; assumption].
Qed.
Lemma first_spec_some s a0 : first_spec s = Some a0 -> exists x, In x s /\ o_alignas x = Some a0.
Proof.
  induction s as [|d r IH]; intros H; [discriminate|]. cbn [first_spec fold_right] in H. destruct (o_alignas d) eqn:E.
  - injection H as ->. exists d. split; [left; reflexivity|exact E].
  - destruct (IH H) as (x & Hx & Ex). exists x. split; [right; exact Hx|exact Ex].
Qed.

Lemma acc_align_valid n d1 s' : valid_objseq (d1 :: s') = true ->
  forall x, In x (acc_objs n None (d1 :: s')) ->
  exists od a, In od (d1 :: s') /\ x = obj_of_decl n od a /\ (is_defining od = true -> a = obj_align (d1 :: s')).
Proof.
  intros V. unfold valid_objseq in V. apply andb_true_iff in V as [V Va]. apply andb_true_iff in V as [V _]. apply andb_true_iff in V as [V _]. apply andb_true_iff in V as [V _].
  rewrite forallb_forall in V.
  assert (Hta : forall x, In x (d1 :: s') -> o_align x = o_align d1).
  { intros x Hx. specialize (V x Hx). unfold od_same_type in V. apply andb_true_iff in V as [V _]. apply andb_true_iff in V as [_ V]. apply Z.eqb_eq in V. symmetry. exact V. }
  set (ta := o_align d1) in *. unfold align_ok in Va.
  destruct (first_spec (d1 :: s')) as [a0|] eqn:Efs.
  - apply andb_true_iff in Va as [Vs Vp]. rewrite forallb_forall in Vs.
    destruct (first_spec_some _ _ Efs) as (w & Hw & Ew).
    assert (Hle : (ta <= a0)%Z).
    { specialize (Vs w Hw). rewrite Ew in Vs. apply andb_true_iff in Vs as [_ Vs]. apply Z.leb_le in Vs. rewrite (Hta w Hw) in Vs. exact Vs. }
    assert (Hall : forall x, In x (d1 :: s') -> o_align x = ta /\ match o_alignas x with Some a => a = a0 | None => True end).
    { intros x Hx. split; [apply Hta; exact Hx|]. specialize (Vs x Hx). destruct (o_alignas x); [|exact I]. apply andb_true_iff in Vs as [Vs _]. apply Z.eqb_eq in Vs. exact Vs. }
    assert (HA : obj_align (d1 :: s') = a0).
    { unfold obj_align. rewrite (fold_max_two ta a0 _ Hle).
      - assert (Hex : (decl_align d1 =? a0)%Z || existsb (fun v => (v =? a0)%Z) (map decl_align s') = true).
        { destruct Hw as [<-|Hw]; [unfold decl_align; rewrite Ew, Z.eqb_refl; reflexivity|]. apply orb_true_iff. right. apply existsb_exists.
          exists (decl_align w). split; [apply in_map; exact Hw|unfold decl_align; rewrite Ew; apply Z.eqb_refl]. }
        rewrite Hex. reflexivity.
      - intros v Hv. apply in_map_iff in Hv as (y & <- & Hy). destruct (Hall y (or_intror Hy)) as [H1 H2]. unfold decl_align. destruct (o_alignas y); [right; exact H2|left; exact H1].
      - destruct (Hall d1 (or_introl eq_refl)) as [H1 H2]. unfold decl_align. destruct (o_alignas d1); [right; exact H2|left; exact H1]. }
    rewrite HA. intros x Hx. apply (acc_valid_gen n ta a0 Hle (d1 :: s') Hall false None); [left; exact Vp|left; reflexivity|exact Hx].
  - assert (Hall : forall x, In x (d1 :: s') -> o_align x = ta /\ match o_alignas x with Some a => a = ta | None => True end).
    { intros x Hx. split; [apply Hta; exact Hx|]. rewrite (first_spec_none _ Efs x Hx). exact I. }
    assert (HA : obj_align (d1 :: s') = ta).
    { unfold obj_align. rewrite (fold_max_two ta ta _ (Z.le_refl _)).
      - destruct (_ || _); reflexivity.
      - intros v Hv. apply in_map_iff in Hv as (y & <- & Hy). left. unfold decl_align. rewrite (first_spec_none _ Efs y (or_intror Hy)). apply Hta. right. exact Hy.
      - left. unfold decl_align. rewrite (first_spec_none _ Efs d1 (or_introl eq_refl)). reflexivity. }
    rewrite HA. intros x Hx. apply (acc_valid_gen n ta ta (Z.le_refl _) (d1 :: s') Hall false None); [right; reflexivity|left; reflexivity|exact Hx].
Qed.

Lemma names_cases_gen (l : list decl) n : In n (map decl_name l) -> objseq n l <> [] \/ funseq n l <> [].
Proof.
  induction l as [|d r IH]; [intros []|]. intros [<-|H].
  - destruct d; cbn [decl_name objseq funseq]; rewrite Nat.eqb_refl; [left|right]; discriminate.
  - destruct (IH H) as [H1|H1]; [left|right].
    + destruct d as [m od|m ? ? ? ?]; cbn [objseq]; [destruct (Nat.eqb m n); [discriminate|exact H1]|exact H1].
    + destruct d as [m od|m ? ? ? ?]; cbn [funseq]; [exact H1|destruct (Nat.eqb m n); [discriminate|exact H1]].
Qed.

Section Valid.
Variable ds : list decl.
Hypothesis Hvalid : valid ds = true.
Hypothesis HkbS : kb_extern_init_static ds = false.

Lemma V_parts : declared_before_use [] ds = true /\ kinds_exclusive ds = true
  /\ forallb (fun n => valid_objseq (objseq n ds) && valid_funseq (funseq n ds)) (map decl_name ds) = true.
Proof.
  unfold valid in Hvalid. apply andb_true_iff in Hvalid as [H _]. apply andb_true_iff in H as [H H3]. apply andb_true_iff in H as [H1 H2]. auto.
Qed.
Lemma V_misc d : In d ds ->
  match d with
  | DObj _ od => match o_init od with IAddr t => obj_tls_of ds t = false | _ => True end
  | _ => True
  end.
Proof.
  intros Hd. unfold valid in Hvalid. apply andb_true_iff in Hvalid as [_ H]. rewrite forallb_forall in H. specialize (H d Hd).
  destruct d as [n od|]; [|exact I]. destruct (o_init od); try exact I. apply negb_true_iff in H. exact H.
Qed.

Lemma V_objseq n : valid_objseq (objseq n ds) = true.
Proof.
  destruct (objseq n ds) eqn:E; [reflexivity|]. rewrite <- E.
  destruct V_parts as (_ & _ & H). rewrite forallb_forall in H.
  assert (Hn : In n (map decl_name ds)) by (apply objseq_in; rewrite E; discriminate).
  specialize (H n Hn). apply andb_true_iff in H as [H _]. exact H.
Qed.
Lemma V_funseq n : valid_funseq (funseq n ds) = true.
Proof.
  destruct (funseq n ds) eqn:E; [reflexivity|]. rewrite <- E.
  destruct V_parts as (_ & _ & H). rewrite forallb_forall in H.
  assert (Hn : In n (map decl_name ds)) by (apply funseq_in; rewrite E; discriminate).
  specialize (H n Hn). apply andb_true_iff in H as [_ H]. exact H.
Qed.
Lemma V_kind n : funseq n ds <> [] -> objseq n ds = [].
Proof.
  intros Hf. destruct V_parts as (_ & H & _). unfold kinds_exclusive in H. rewrite forallb_forall in H.
  specialize (H n (funseq_in n ds Hf)). destruct (funseq n ds); [contradiction|]. destruct (objseq n ds); [reflexivity|discriminate].
Qed.
Lemma V_kbS n od : In od (objseq n ds) -> sc_eqb (o_sc od) SC_extern = true -> has_init (o_init od) = true ->
  match obj_linkage (objseq n ds) with Some L_internal => False | _ => True end.
Proof.
  intros Hin He Hi. destruct (obj_linkage (objseq n ds)) as [[|]|] eqn:El; try exact I. exfalso.
  assert (Hx : kb_extern_init_static ds = true).
  { apply existsb_exists. exists n. split; [apply objseq_in; intros E; rewrite E in Hin; contradiction|].
    unfold kb_extern_init_static_seq. rewrite El. rewrite andb_true_r. apply existsb_exists. exists od. split; [exact Hin|rewrite He, Hi; reflexivity]. }
  rewrite Hx in HkbS. discriminate.
Qed.

Lemma is_fun_name_iff n : is_fun_name ds n = true <-> funseq n ds <> [].
Proof. unfold is_fun_name. destruct (funseq n ds); split; intros H; try discriminate; try contradiction; reflexivity. Qed.

(* all declarations of an object have the type of the first *)
Lemma V_same_type n d1 s' od : objseq n ds = d1 :: s' -> In od (d1 :: s') ->
  o_tls od = o_tls d1 /\ o_size od = o_size d1 /\ o_align od = o_align d1 /\ o_array od = o_array d1.
Proof.
  intros E Hin. pose proof (V_objseq n) as V. rewrite E in V. unfold valid_objseq in V.
  apply andb_true_iff in V as [V _]. apply andb_true_iff in V as [V _]. apply andb_true_iff in V as [V _]. apply andb_true_iff in V as [V _].
  rewrite forallb_forall in V. specialize (V od Hin). unfold od_same_type in V.
  apply andb_true_iff in V as [V V4]. apply andb_true_iff in V as [V V3]. apply andb_true_iff in V as [V1 V2].
  apply Bool.eqb_prop in V1. apply Bool.eqb_prop in V4. apply Z.eqb_eq in V2. apply Z.eqb_eq in V3. auto.
Qed.

Lemma V_step_ok : forall p d q, ds = p ++ d :: q -> step_ok ds p d.
Proof.
  intros p d q E.
  assert (Hd : In d ds) by (rewrite E; apply in_or_app; right; left; reflexivity).
  destruct V_parts as (Hdbu0 & _ & _). pose proof Hdbu0 as Hdbu. rewrite E in Hdbu. apply dbu_split in Hdbu. rewrite app_nil_r in Hdbu.
  assert (Hnames : forall t, In t (decl_name d :: rev (map decl_name p)) -> In t (map decl_name (p ++ [d]))).
  { intros t [<-|Ht]; rewrite map_app, in_app_iff; [right; left; reflexivity|left; apply in_rev; exact Ht]. }
  destruct d as [n od|n sc il fsz b]; cbn [step_ok].
  - assert (Hos : In od (objseq n ds)) by (apply objseq_In; exact Hd).
    assert (Hnf : is_fun_name ds n = false).
    { destruct (is_fun_name ds n) eqn:Ef; [|reflexivity]. apply is_fun_name_iff in Ef. rewrite (V_kind n Ef) in Hos. contradiction. }
    split; [exact Hnf|]. split; [unfold is_fun_name in Hnf; rewrite E, funseq_app in Hnf; destruct (funseq n p); [reflexivity|discriminate]|]. split.
    + unfold obj_tls_of. destruct (objseq n ds) as [|d1 s'] eqn:Es; [contradiction|]. apply (V_same_type n d1 s' od Es Hos).
    + intros t Ht. split.
      * cbn [declared_before_use] in Hdbu. rewrite Ht in Hdbu. apply andb_true_iff in Hdbu as [Hm _]. apply nmem_In in Hm. apply Hnames. exact Hm.
      * intros Hft. unfold is_fun_name in Hft. rewrite E, funseq_app in Hft. destruct (funseq t p); [reflexivity|discriminate].
  - assert (Hfn : funseq n ds <> []).
    { intros Ef. assert (Hin : In (mkFD sc il b) (funseq n ds)).
      { rewrite E, funseq_app. apply in_or_app. right. cbn [funseq]. rewrite Nat.eqb_refl. left. reflexivity. }
      rewrite Ef in Hin. contradiction. }
    split; [apply is_fun_name_iff; exact Hfn|]. split.
    + (* an initializer that names n comes after a declaration of n *)
      intros Ep. destruct (addr_taken_at_file_scope p n) eqn:Et; [|reflexivity]. exfalso.
      unfold addr_taken_at_file_scope in Et. apply existsb_exists in Et as (x & Hx & Hm).
      destruct x as [m od|]; [|discriminate]. destruct (o_init od) as [| |t] eqn:Ei; try discriminate. apply Nat.eqb_eq in Hm. subst t.
      destruct (in_split _ _ Hx) as (p1 & p2 & Ep12).
      assert (E' : ds = p1 ++ DObj m od :: (p2 ++ DFun n sc il fsz b :: q)) by (rewrite E, Ep12, <- app_assoc; reflexivity).
      pose proof Hdbu0 as H1. rewrite E' in H1. apply dbu_split in H1. rewrite app_nil_r in H1. cbn [declared_before_use] in H1.
      rewrite Ei in H1. apply andb_true_iff in H1 as [H1 _]. apply nmem_In in H1.
      assert (Hobj : objseq n ds = []) by (apply V_kind; exact Hfn).
      destruct H1 as [<-|H1].
      * assert (Hin : In od (objseq m ds)) by (apply objseq_In; rewrite E'; apply in_or_app; right; left; reflexivity). rewrite Hobj in Hin. contradiction.
      * apply in_rev in H1. destruct (names_cases_gen p1 n H1) as [H2|H2].
        -- apply H2. rewrite E', objseq_app in Hobj. destruct (objseq n p1); [reflexivity|discriminate].
        -- apply H2. rewrite Ep12, funseq_app in Ep. destruct (funseq n p1); [reflexivity|discriminate].
    + intros items m -> Hm. cbn [declared_before_use] in Hdbu. apply andb_true_iff in Hdbu as [Hf _]. rewrite forallb_forall in Hf.
      specialize (Hf _ Hm). cbn in Hf. apply Hnames. apply nmem_In. exact Hf.
Qed.

Definition G : list obj := ps_globals (parse ds).
Lemma Ginv : inv ds ds (addr_taken_at_file_scope ds) (parse ds).
Proof. apply inv_parse. exact V_step_ok. Qed.

(* the function object of a function name *)
Lemma fun_obj g d1 s' : funseq g ds = d1 :: s' ->
  exists fo, filter (is_fun_named g) G = [fo] /\ flagsA g (d1 :: s') (existsb has_body (d1 :: s')) (addr_taken_at_file_scope ds g) fo
             /\ ob_refs fo = funrefs (isf ds) (body_of (d1 :: s')) /\ urefs (ob_body fo) = ubody (kt ds) (body_of (d1 :: s')).
Proof.
  intros E. pose proof (inv_g2 _ _ _ _ Ginv g) as H. rewrite E in H. destruct H as (fo & Ef & FA & FR & FB).
  exists fo. split; [exact Ef|]. split; [exact FA|]. split; [|exact FB]. rewrite FR. apply all_funrefs_one.
  pose proof (V_funseq g) as V. rewrite E in V. unfold valid_funseq in V. apply andb_true_iff in V as [_ V]. apply Nat.leb_le in V. exact V.
Qed.
Lemma no_fun_obj g : funseq g ds = [] -> filter (is_fun_named g) G = [].
Proof. intros E. pose proof (inv_g2 _ _ _ _ Ginv g) as H. rewrite E in H. exact H. Qed.

Lemma ob_root_model g d1 s' fo : funseq g ds = d1 :: s' -> flagsA g (d1 :: s') (existsb has_body (d1 :: s')) (addr_taken_at_file_scope ds g) fo ->
  ob_root fo = negb (skippable (funseq g ds)) || addr_taken_at_file_scope ds g.
Proof.
  intros E (_ & _ & A3 & A4 & _ & A6 & _). rewrite A6, A3, A4, E. rewrite skippable_model; [reflexivity|]. rewrite <- E. apply V_funseq.
Qed.

(* ---------- the call graph ---------- *)
Definition to_func (g : nat) (o : obj) : func := {| f_name := g; f_root := ob_root o; f_refs := ob_refs o |}.
Lemma find_func_graph gs g : find_func (graph gs) g = option_map (to_func g) (find_fun g gs).
Proof.
  induction gs as [|o r IH]; [reflexivity|]. unfold graph in *. cbn [flat_map find_fun]. unfold is_fun_named at 1.
  destruct (ob_name o) as [m|k] eqn:En; cbn [ident_eqb].
  - destruct (ob_function o); cbn [andb app find_func f_name]; [|exact IH].
    rewrite (Nat.eqb_sym g m). destruct (Nat.eqb_spec m g) as [->|Hne]; [reflexivity|exact IH].
  - rewrite andb_false_r. exact IH.
Qed.
Lemma graph_names gs g : In g (map f_name (graph gs)) -> exists o, In o gs /\ is_fun_named g o = true.
Proof.
  unfold graph. rewrite in_map_iff. intros (f & <- & Hf). apply in_flat_map in Hf as (o & Ho & Hf). exists o. split; [exact Ho|].
  unfold is_fun_named. destruct (ob_name o) as [m|k]; [|contradiction]. destruct (ob_function o); [|contradiction].
  destruct Hf as [<-|[]]. cbn. apply Nat.eqb_refl.
Qed.
Lemma graph_nodup gs : (forall g, (length (filter (is_fun_named g) gs) <= 1)%nat) -> NoDup (map f_name (graph gs)).
Proof.
  induction gs as [|o r IH]; intros H; [constructor|].
  assert (Hr : forall g, (length (filter (is_fun_named g) r) <= 1)%nat).
  { intros g. specialize (H g). cbn [filter] in H. destruct (is_fun_named g o); cbn [length] in H; lia. }
  unfold graph in *. cbn [flat_map]. destruct (ob_name o) as [m|k] eqn:En; [|apply IH; exact Hr].
  destruct (ob_function o) eqn:Ef; [|apply IH; exact Hr]. cbn [app map f_name]. constructor; [|apply IH; exact Hr].
  intros Hin. apply graph_names in Hin as (o' & Ho' & Hn'). specialize (H m). cbn [filter] in H.
  assert (Hm : is_fun_named m o = true) by (unfold is_fun_named; rewrite Ef, En; cbn; apply Nat.eqb_refl).
  rewrite Hm in H. cbn [length] in H. pose proof (In_filter_length _ _ _ Ho' Hn'). lia.
Qed.

Lemma G_one g : (length (filter (is_fun_named g) G) <= 1)%nat.
Proof.
  destruct (funseq g ds) as [|d1 s'] eqn:E; [rewrite (no_fun_obj g E); cbn; lia|].
  destruct (fun_obj g d1 s' E) as (fo & -> & _). cbn. lia.
Qed.

Lemma find_func_G g : find_func (graph G) g =
  match funseq g ds with
  | [] => None
  | s => Some {| f_name := g; f_root := negb (skippable s) || addr_taken_at_file_scope ds g; f_refs := funrefs (isf ds) (body_of s) |}
  end.
Proof.
  rewrite find_func_graph, find_fun_filter. destruct (funseq g ds) as [|d1 s'] eqn:E; [rewrite (no_fun_obj g E); reflexivity|].
  destruct (fun_obj g d1 s' E) as (fo & -> & FA & FR & _). cbn [hd_error option_map]. unfold to_func. rewrite FR.
  rewrite (ob_root_model g d1 s' fo E FA), E. reflexivity.
Qed.

Lemma funrefs_In m items : In m (funrefs (isf ds) items) <-> existsb (refs_item m) items = true /\ is_fun_name ds m = true.
Proof.
  unfold funrefs. rewrite in_flat_map, existsb_exists. split.
  - intros (i & Hi & Hm). destruct i as [x| |]; try contradiction. unfold isf, kt in Hm. destruct (is_fun_name ds x) eqn:Ef; cbn in Hm; [|contradiction].
    destruct Hm as [<-|[]]. split; [exists (BRef x); split; [exact Hi|apply Nat.eqb_refl]|exact Ef].
  - intros ((i & Hi & Hm) & Ef). destruct i as [x| |]; try discriminate. cbn in Hm. apply Nat.eqb_eq in Hm. subst x.
    exists (BRef m). split; [exact Hi|]. unfold isf, kt. rewrite Ef. left. reflexivity.
Qed.

Lemma emitted_is_fun n : emitted_fun ds n -> is_fun_name ds n = true.
Proof. intros H. destruct H; assumption. Qed.

Lemma root_reach n : is_fun_name ds n = true -> skippable (funseq n ds) = false \/ addr_taken_at_file_scope ds n = true -> reach (graph G) [] n.
Proof.
  intros Hf Hs. apply is_fun_name_iff in Hf. pose proof (find_func_G n) as Hfind. destruct (funseq n ds) as [|d1 s'] eqn:E; [contradiction|].
  apply find_func_in in Hfind as [Hin _].
  change n with (f_name {| f_name := n; f_root := negb (skippable (d1 :: s')) || addr_taken_at_file_scope ds n; f_refs := funrefs (isf ds) (body_of (d1 :: s')) |}).
  apply reach_root; [exact Hin|]. cbn [f_root]. destruct Hs as [-> | ->]; [reflexivity|apply orb_true_r].
Qed.

Theorem reach_iff_emitted m : reach (graph G) [] m <-> emitted_fun ds m.
Proof.
  split.
  - intros H. induction H as [n []|f Hf Hr|n f u Hn IH Hfind Hu (g & Hg)].
    + (* root *)
      assert (Hname : In (f_name f) (map f_name (graph G))) by (apply in_map; exact Hf).
      apply graph_names in Hname as (o & Ho & Hno).
      assert (Hfind : find_func (graph G) (f_name f) <> None).
      { rewrite find_func_graph, find_fun_filter. pose proof (In_filter_length _ _ _ Ho Hno). destruct (filter _ G); [cbn in *; lia|discriminate]. }
      assert (Ef : find_func (graph G) (f_name f) = Some f).
      { pose proof (graph_nodup G G_one) as ND. clear - Hf ND. induction (graph G) as [|x r IH]; [contradiction|]. cbn [find_func].
        cbn [map] in ND. inversion ND as [|? ? Hnotin ND']. subst. destruct Hf as [->|Hf]; [rewrite Nat.eqb_refl; reflexivity|].
        destruct (Nat.eqb_spec (f_name x) (f_name f)) as [En|_]; [exfalso; apply Hnotin; rewrite En; apply in_map; exact Hf|apply IH; assumption]. }
      rewrite find_func_G in Ef, Hfind. destruct (funseq (f_name f) ds) as [|d1 s'] eqn:E; [contradiction|].
      injection Ef as Ef. rewrite <- Ef in Hr. cbn [f_root] in Hr.
      assert (Hfn : is_fun_name ds (f_name f) = true) by (apply is_fun_name_iff; rewrite E; discriminate).
      apply orb_true_iff in Hr as [Hr|Hr].
      * apply negb_true_iff in Hr. apply em_always; [exact Hfn|rewrite E; exact Hr].
      * rewrite <- Ef in Hr. cbn [f_name] in Hr. rewrite <- Ef in Hfn. cbn [f_name] in Hfn. rewrite <- Ef. cbn [f_name]. apply em_addr; assumption.
    + (* reference *)
      rewrite find_func_G in Hfind. destruct (funseq n ds) as [|d1 s'] eqn:E; [discriminate|]. injection Hfind as <-. cbn in Hu.
      apply funrefs_In in Hu as [Hu Hfu]. apply (em_ref ds n u IH); [rewrite E; exact Hu|exact Hfu].
  - intros H. induction H as [n Hf Hs|n Hf Ha|g n Hg IH Hb Hf].
    + apply root_reach; [exact Hf|left; exact Hs].
    + apply root_reach; [exact Hf|right; exact Ha].
    + pose proof (find_func_G g) as Hfg. pose proof (emitted_is_fun g Hg) as Hgf. apply is_fun_name_iff in Hgf.
      destruct (funseq g ds) as [|d1 s'] eqn:E; [contradiction|].
      eapply reach_ref; [exact IH|exact Hfg| |].
      * cbn. apply funrefs_In. split; assumption.
      * rewrite find_func_G. apply is_fun_name_iff in Hf. destruct (funseq n ds); [contradiction|]. eexists. reflexivity.
Qed.

Theorem model_live_iff m : model_live G m = true <-> emitted_fun ds m.
Proof.
  unfold model_live. change (existsb (Nat.eqb m) (live_set (graph G))) with (mem m (live_set (graph G))). rewrite mem_In. split.
  - intros H. apply reach_iff_emitted. apply live_set_sound. exact H.
  - intros H. apply live_set_complete; [apply graph_nodup; exact G_one|apply reach_iff_emitted; exact H|].
    unfold defined. rewrite find_func_G. pose proof (emitted_is_fun m H) as Hf. apply is_fun_name_iff in Hf. destruct (funseq m ds); [contradiction|]. eexists. reflexivity.
Qed.

Lemma model_live_eq live m : live_ok ds live -> model_live G m = live m.
Proof.
  intros L. destruct (live m) eqn:E.
  - apply model_live_iff. apply L. exact E.
  - destruct (model_live G m) eqn:E2; [|reflexivity]. apply model_live_iff in E2. apply L in E2. congruence.
Qed.
End Valid.
