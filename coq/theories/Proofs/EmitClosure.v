(* C15 (package emit): the computable candidate of the specification, closure_live (|ds|+1 rounds of the
   naive closure), decides emitted_fun - for every unit, no validity needed.  So the main theorem can be
   read with live := closure_live ds, a function of the declarations alone. *)
From Coq Require Import List Bool Arith ZArith Lia.
From Chibicc Require Import Model.Linkage Proofs.LinkageProofs Proofs.LinkageComplete Spec.LinkSpec Model.Emit Proofs.EmitAsm Proofs.EmitParse Proofs.EmitScan Proofs.EmitLive Proofs.EmitProofs Proofs.EmitAnon.
Import ListNotations.

Lemma iter_n_succ {A} (f : A -> A) k : forall x, iter_n k f (f x) = f (iter_n k f x).
Proof. induction k as [|k IH]; intros x; [reflexivity|]. cbn [iter_n]. apply IH. Qed.

Section Closure.
Variable ds : list decl.
Let F := fun_names ds.
Let R := closure_round ds.
Definition stage (k : nat) : list nat := iter_n k R [].

Lemma stage_succ k : stage (S k) = R (stage k).
Proof. unfold stage. cbn [iter_n]. apply iter_n_succ. Qed.

Lemma fun_names_In n : In n F <-> is_fun_name ds n = true.
Proof.
  unfold F, fun_names. rewrite nodup_In, in_flat_map. unfold is_fun_name. split.
  - intros (d & Hd & Hn). destruct d as [m od|m sc il fz b]; [contradiction|]. destruct Hn as [<-|[]].
    clear F R. induction ds as [|x r IH]; [contradiction|]. destruct Hd as [->|Hd].
    + cbn [funseq]. rewrite Nat.eqb_refl. reflexivity.
    + destruct x as [q od|q sc' il' fz' b']; cbn [funseq]; [apply IH; exact Hd|]. destruct (Nat.eqb q m); [reflexivity|apply IH; exact Hd].
  - intros H. clear F R. induction ds as [|x r IH]; [discriminate|]. destruct x as [q od|q sc' il' fz' b']; cbn [funseq] in H.
    + destruct (IH H) as (d & Hd & Hn). exists d. split; [right; exact Hd|exact Hn].
    + destruct (Nat.eqb_spec q n) as [->|Hne]; [eexists; split; [left; reflexivity|left; reflexivity]|].
      destruct (IH H) as (d & Hd & Hn). exists d. split; [right; exact Hd|exact Hn].
Qed.

Definition P (s : list nat) (n : nat) : bool :=
  nmem n s || negb (skippable (funseq n ds)) || addr_taken_at_file_scope ds n
  || existsb (fun g => existsb (refs_item n) (body_of (funseq g ds))) s.
Lemma R_In s n : In n (R s) <-> In n F /\ P s n = true.
Proof. unfold R, closure_round. rewrite filter_In. reflexivity. Qed.

Lemma stage_F k n : In n (stage k) -> In n F.
Proof. destruct k; [intros []|]. rewrite stage_succ, R_In. tauto. Qed.
Lemma stage_mono k n : In n (stage k) -> In n (stage (S k)).
Proof.
  intros H. rewrite stage_succ, R_In. split; [eapply stage_F; exact H|]. unfold P. apply nmem_In in H. rewrite H. reflexivity.
Qed.

(* soundness *)
Lemma stage_sound k : forall n, In n (stage k) -> emitted_fun ds n.
Proof.
  induction k as [|k IH]; intros n H; [destruct H|]. rewrite stage_succ, R_In in H. destruct H as [HF HP].
  apply fun_names_In in HF. unfold P in HP. apply orb_true_iff in HP as [HP|HP]; [apply orb_true_iff in HP as [HP|HP]; [apply orb_true_iff in HP as [HP|HP]|]|].
  - apply IH. apply nmem_In. exact HP.
  - apply em_always; [exact HF|]. apply negb_true_iff. exact HP.
  - apply em_addr; assumption.
  - apply existsb_exists in HP as (g & Hg & Hb). apply (em_ref ds g n (IH g Hg) Hb HF).
Qed.

(* a closed stage contains every emitted function *)
Definition closed (s : list nat) : Prop := forall n, In n (R s) -> In n s.
Lemma closed_complete s : closed s -> forall n, emitted_fun ds n -> In n s.
Proof.
  intros C n H. induction H as [n Hf Hs|n Hf Ha|g n Hg IH Hb Hf]; apply C; rewrite R_In; (split; [apply fun_names_In; exact Hf|]); unfold P.
  - rewrite Hs. cbn. rewrite orb_true_r. reflexivity.
  - rewrite Ha. rewrite orb_true_r. reflexivity.
  - assert (E : existsb (fun g => existsb (refs_item n) (body_of (funseq g ds))) s = true) by (apply existsb_exists; exists g; split; assumption).
    rewrite E. apply orb_true_r.
Qed.
Lemma P_mono s s' n : (forall x, In x s -> In x s') -> P s n = true -> P s' n = true.
Proof.
  intros Hs HP. unfold P in *. apply orb_true_iff in HP as [HP|HP]; [apply orb_true_iff in HP as [HP|HP]; [apply orb_true_iff in HP as [HP|HP]|]|].
  - apply nmem_In in HP. apply Hs in HP. apply nmem_In in HP. rewrite HP. reflexivity.
  - rewrite HP. rewrite orb_true_r. reflexivity.
  - rewrite HP. rewrite orb_true_r. reflexivity.
  - apply existsb_exists in HP as (g & Hg & Hb). assert (E : existsb (fun g => existsb (refs_item n) (body_of (funseq g ds))) s' = true) by (apply existsb_exists; exists g; split; [apply Hs; exact Hg|exact Hb]).
    rewrite E. apply orb_true_r.
Qed.
Lemma closed_next k : closed (stage k) -> closed (stage (S k)).
Proof.
  intros C n H. rewrite stage_succ. rewrite R_In in *. destruct H as [HF HP]. split; [exact HF|].
  apply (P_mono (stage (S k)) (stage k)); [|exact HP]. intros x Hx. rewrite stage_succ in Hx. apply C. exact Hx.
Qed.

(* the measure: how many function names a stage contains *)
Definition mu (s : list nat) : nat := length (filter (fun n => nmem n s) F).
Lemma mu_le s : (mu s <= length F)%nat.
Proof. unfold mu. clear. induction F as [|x r IH]; [cbn; lia|]. cbn [filter]. destruct (nmem x s); cbn [length]; lia. Qed.

Definition closedb (s : list nat) : bool := forallb (fun n => nmem n s) (R s).
Lemma closedb_closed s : closedb s = true <-> closed s.
Proof.
  unfold closedb, closed. rewrite forallb_forall. split; intros H n Hn; [apply nmem_In; apply H; exact Hn|apply nmem_In; apply H; exact Hn].
Qed.

Lemma progress k : closedb (stage k) = true \/ (k <= mu (stage k))%nat.
Proof.
  induction k as [|k IH]; [right; lia|]. destruct IH as [C|Hk].
  - left. apply closedb_closed. apply closed_next. apply closedb_closed. exact C.
  - destruct (closedb (stage k)) eqn:Cb; [left; apply closedb_closed; apply closed_next; apply closedb_closed; exact Cb|]. right.
    (* some n enters at round k+1 *)
    assert (Hex : exists n, In n (R (stage k)) /\ ~ In n (stage k)).
    { unfold closedb in Cb. clear - Cb. induction (R (stage k)) as [|x r IH]; [discriminate|]. cbn [forallb] in Cb.
      destruct (nmem x (stage k)) eqn:E; [destruct (IH Cb) as (n & Hn & Hnot); exists n; split; [right; exact Hn|exact Hnot]|].
      exists x. split; [left; reflexivity|]. intros Hx. apply nmem_In in Hx. congruence. }
    destruct Hex as (n & Hn & Hnot). rewrite <- stage_succ in Hn.
    assert (Hlt : (mu (stage k) < mu (stage (S k)))%nat).
    { unfold mu. apply (filter_len_lt _ _ F n).
      - intros y Hy. apply nmem_In. apply stage_mono. apply nmem_In. exact Hy.
      - eapply stage_F. exact Hn.
      - apply nmem_In. exact Hn.
      - destruct (nmem n (stage k)) eqn:E; [apply nmem_In in E; contradiction|reflexivity]. }
    lia.
Qed.

Lemma fun_names_length : (length F <= length ds)%nat.
Proof.
  unfold F, fun_names. etransitivity; [apply NoDup_incl_length; [apply NoDup_nodup|intros x Hx; apply nodup_In in Hx; exact Hx]|].
  clear. induction ds as [|d r IH]; [cbn; lia|]. cbn [flat_map]. rewrite app_length. destruct d; cbn [length]; lia.
Qed.

Theorem closure_live_ok : live_ok ds (closure_live ds).
Proof.
  intros n. unfold closure_live. fold R. fold (stage (S (length ds))). rewrite nmem_In. split; [apply stage_sound|].
  apply closed_complete. apply closedb_closed. destruct (progress (S (length ds))) as [C|Hk]; [exact C|].
  pose proof (mu_le (stage (S (length ds)))). pose proof fun_names_length. lia.
Qed.
End Closure.

(* ---------- the headline theorem with the specification as a function of the declarations alone ---------- *)
Theorem emit_symtab_computable ds o :
  valid ds = true -> kb_extern_init_static ds = false ->
  forall n, symtab_of (emit o (parse_flags ds)) n = to_result (spec_entry (closure_live ds) ds o n).
Proof. intros H1 H2 n. apply emit_symtab_correct; try assumption. apply closure_live_ok. Qed.

(* as a table: the lines nm prints for the identifiers of the unit *)
Definition nm_table (text : list directive) (names : list nat) : list (nat * entry) :=
  flat_map (fun n => match symtab_of text n with Present e => [(n, e)] | _ => [] end) names.

Theorem emit_table_correct ds o :
  valid ds = true -> kb_extern_init_static ds = false ->
  nm_table (emit o (parse_flags ds)) (declared_names ds) = spec_symtab (closure_live ds) ds o
  /\ forall n, ~ In n (declared_names ds) -> symtab_of (emit o (parse_flags ds)) n = Absent.
Proof.
  intros H1 H2. split.
  - unfold nm_table, spec_symtab. apply flat_map_ext. intros n. rewrite (emit_symtab_computable ds o H1 H2 n).
    destruct (spec_entry (closure_live ds) ds o n); reflexivity.
  - intros n Hn. rewrite (emit_symtab_computable ds o H1 H2 n). unfold spec_entry.
    assert (Hf : funseq n ds = []).
    { destruct (funseq n ds) eqn:E; [reflexivity|]. exfalso. apply Hn. unfold declared_names. apply nodup_In. apply funseq_in. rewrite E. discriminate. }
    assert (Ho : objseq n ds = []).
    { destruct (objseq n ds) eqn:E; [reflexivity|]. exfalso. apply Hn. unfold declared_names. apply nodup_In. apply objseq_in. rewrite E. discriminate. }
    rewrite Hf, Ho. reflexivity.
Qed.

(* ---------- the anonymous objects, with the owner-function rule (62ebd1d) ---------- *)
Theorem anon_placements_correct ds o live : valid ds = true -> live_ok ds live ->
  anon_placements (emit o (parse_flags ds)) = spec_anon live ds.
Proof.
  intros Hv Hl. rewrite anon_placements_model, <- (anon_entries_spec live ds 0). f_equal. apply filter_ext_in. intros x Hx.
  destruct (unit_anons_shape ds 0 x Hx) as (k & tl & hi & sz & al & arr & ow & -> & Ho).
  unfold owner_live, placed. cbn [anon_obj_of ob_owner]. destruct ow as [g|]; [|reflexivity].
  specialize (Ho g eq_refl). destruct (funseq g ds) as [|d1 s'] eqn:E; [contradiction|].
  destruct (prog_fun_obj ds Hv live Hl g d1 s' E) as (fo & Ef & _). rewrite find_fun_filter, Ef. reflexivity.
Qed.
Theorem anon_placements_computable ds o : valid ds = true -> anon_placements (emit o (parse_flags ds)) = spec_anon (closure_live ds) ds.
Proof. intros Hv. apply anon_placements_correct; [exact Hv|apply closure_live_ok]. Qed.
