(* C05 (package initcur) Part 2: locality of the spec.  Below a subobject q of U (sub U q = Some W) the cursor
   arithmetic of Spec/InitSpec.v is the arithmetic of W, prefixed by q; leaving W continues after q. *)
From Coq Require Import List Arith Bool Lia.
From Chibicc Require Import Spec.InitSyntax Spec.InitSpec Spec.InitValid Model.InitCursor Proofs.InitTree.
Import ListNotations.

Lemma sub_app : forall q U p, sub U (q ++ p) = match sub U q with Some W => sub W p | None => None end.
Proof.
  induction q as [|i q IH]; intros U p; [reflexivity|].
  cbn [app sub]. destruct (child U i) as [V|]; [apply IH|reflexivity].
Qed.

Lemma next_app : forall q U W p, sub U q = Some W ->
  next U (q ++ p) = match next W p with Some p' => Some (q ++ p') | None => next U q end.
Proof.
  induction q as [|i q IH]; intros U W p HW.
  - cbn [sub] in HW. injection HW as ->. cbn [app next]. destruct (next W p); reflexivity.
  - cbn [sub] in HW. cbn [app next]. destruct (child U i) as [V|]; [|discriminate].
    rewrite (IH V W p HW). destruct (next W p) as [p'|]; reflexivity.
Qed.

Lemma first_leaf_app : forall q U W p, sub U q = Some W -> first_leaf U (q ++ p) = q ++ first_leaf W p.
Proof.
  induction q as [|i q IH]; intros U W p HW.
  - cbn [sub] in HW. injection HW as ->. reflexivity.
  - cbn [sub] in HW. cbn [app first_leaf]. destruct (child U i) as [V|]; [|discriminate].
    rewrite (IH V W p HW). reflexivity.
Qed.

Lemma str_target_app : forall q U W p, sub U q = Some W -> str_target U (q ++ p) = q ++ str_target W p.
Proof.
  induction q as [|i q IH]; intros U W p HW.
  - cbn [sub] in HW. injection HW as ->. reflexivity.
  - cbn [sub] in HW. cbn [app str_target]. destruct (child U i) as [V|]; [|discriminate].
    rewrite (IH V W p HW). reflexivity.
Qed.

Lemma next_snoc : forall U q W i V, sub U q = Some W -> child W i = Some V ->
  next U (q ++ [i]) = match nxt W i with Some r => Some (q ++ r) | None => next U q end.
Proof.
  intros U q W i V HW HV. rewrite (next_app q U W [i] HW). cbn [next]. rewrite HV. reflexivity.
Qed.

Lemma down_child0 : forall W V, child W 0 = Some V -> down W = 0 :: down V.
Proof.
  intros W V H. destruct W as [k|n e|ms|ms]; cbn [child] in H.
  - discriminate.
  - destruct (in_bound n 0); [|discriminate]. injection H as ->. reflexivity.
  - destruct ms as [|m ms]; [discriminate|]. injection H as ->. reflexivity.
  - destruct ms as [|m ms]; [discriminate|]. injection H as ->. reflexivity.
Qed.

Lemma first_leaf_descend : forall U q W V, sub U q = Some W -> child W 0 = Some V ->
  first_leaf U q = first_leaf U (q ++ [0]).
Proof.
  intros U q W V HW HV.
  rewrite <- (app_nil_r q) at 1. rewrite (first_leaf_app q U W [] HW), (first_leaf_app q U W [0] HW).
  cbn [first_leaf]. rewrite HV. cbn [first_leaf]. rewrite (down_child0 W V HV). reflexivity.
Qed.

Lemma zero_fill_at : forall q p i room, zero_fill (q ++ p) i room = map (at_ q) (zero_fill p i room).
Proof.
  intros q p i [n|]; [|reflexivity]. unfold zero_fill. rewrite map_map. apply map_ext. intro k.
  cbn [at_]. rewrite app_assoc. reflexivity.
Qed.

Lemma string_events_at : forall q p s i room,
  string_events (q ++ p) i room s = map (at_ q) (string_events p i room s).
Proof.
  intros q p s. induction s as [|c s IH]; intros i room; [apply zero_fill_at|].
  cbn [string_events]. destruct (in_bound room i); [|reflexivity].
  cbn [map at_]. rewrite IH, app_assoc. reflexivity.
Qed.

Definition spec_init_at_stmt (v : init) : Prop :=
  forall U q W p, sub U q = Some W ->
    spec_init U (q ++ p) v = (map (at_ q) (fst (spec_init W p v)), q ++ snd (spec_init W p v)).

Lemma spec_init_at : forall v, spec_init_at_stmt v.
Proof.
  apply (init_items_ind spec_init_at_stmt
           (fun l => match l with ICons _ v' INil => spec_init_at_stmt v' | _ => True end)).
  - intros e U q W p HW. cbn [spec_init fst snd map at_]. rewrite (first_leaf_app q U W p HW). reflexivity.
  - intros s U q W p HW. cbn [spec_init fst snd].
    rewrite (str_target_app q U W p HW). rewrite sub_app, HW.
    rewrite string_events_at. reflexivity.
  - intros l Hl U q W p HW. cbn [spec_init]. rewrite sub_app, HW.
    destruct (sub W p) as [W'|]; [|reflexivity].
    assert (Hgen : (Clear (q ++ p) :: map (at_ (q ++ p)) (spec_items W' (Some [0]) l), q ++ p)
                   = (map (at_ q) (fst (Clear p :: map (at_ p) (spec_items W' (Some [0]) l), p)),
                      q ++ snd (Clear p :: map (at_ p) (spec_items W' (Some [0]) l), p))).
    { cbn [fst snd map at_]. rewrite map_at_app. reflexivity. }
    assert (Hstr : forall s, (string_events (q ++ p) 0 (array_bound (Some W')) s, q ++ p)
                   = (map (at_ q) (fst (string_events p 0 (array_bound (Some W')) s, p)),
                      q ++ snd (string_events p 0 (array_bound (Some W')) s, p))).
    { intro s. cbn [fst snd]. rewrite string_events_at. reflexivity. }
    destruct W' as [k|n e|ms|ms].
    + destruct l as [|ds v' tl]; [reflexivity|]. destruct ds as [|d ds]; [|reflexivity].
      destruct tl as [|ds2 v2 tl2]; [|reflexivity]. apply Hl. exact HW.
    + destruct l as [|ds v' tl]; [exact Hgen|]. destruct ds as [|d ds]; [|exact Hgen].
      destruct v' as [e0|s|l']; try exact Hgen. destruct tl as [|ds2 v2 tl2]; [|exact Hgen].
      destruct (is_char_array (TArray n e)); [apply Hstr|exact Hgen].
    + destruct l as [|ds v' tl]; [exact Hgen|]. destruct ds as [|d ds]; [|exact Hgen].
      destruct v' as [e0|s|l']; try exact Hgen. destruct tl as [|ds2 v2 tl2]; [|exact Hgen].
      cbn [is_char_array]. exact Hgen.
    + destruct l as [|ds v' tl]; [exact Hgen|]. destruct ds as [|d ds]; [|exact Hgen].
      destruct v' as [e0|s|l']; try exact Hgen. destruct tl as [|ds2 v2 tl2]; [|exact Hgen].
      cbn [is_char_array]. exact Hgen.
  - exact I.
  - intros ds v Hv tl Htl. destruct tl; [exact Hv|exact I].
Qed.

Lemma ok_init_at : forall v U q W p, sub U q = Some W -> ok_init U (q ++ p) v = ok_init W p v.
Proof.
  intros v U q W p HW. destruct v as [e|s|l]; cbn [ok_init]; try reflexivity.
  - rewrite sub_app, HW; reflexivity.
  - destruct s; [reflexivity|]. rewrite sub_app, HW; reflexivity.
  - rewrite sub_app, HW; reflexivity.
Qed.

Lemma spec_items_head : forall U p v tl,
  spec_items U (Some p) (ICons [] v tl)
  = fst (spec_init U p v) ++ spec_items U (next U (snd (spec_init U p v))) tl.
Proof. intros U p v tl. cbn [spec_items flat_map last]. rewrite app_nil_r. reflexivity. Qed.

Lemma ok_items_head : forall U p v tl,
  ok_items U (Some p) (ICons [] v tl) = ok_init U p v && ok_items U (next U (snd (spec_init U p v))) tl.
Proof. reflexivity. Qed.

(* a designated item does not look at the cursor *)
Lemma ok_items_desig_cursor : forall U c1 c2 d ds v tl,
  ok_items U c1 (ICons (d :: ds) v tl) = ok_items U c2 (ICons (d :: ds) v tl).
Proof. reflexivity. Qed.

Lemma spec_items_desig : forall U c d ds v tl p,
  targets U (d :: ds) = [p] ->
  spec_items U c (ICons (d :: ds) v tl) = spec_items U (Some p) (ICons [] v tl).
Proof.
  intros U c d ds v tl p H. rewrite spec_items_head.
  change (spec_items U c (ICons (d :: ds) v tl))
    with (match targets U (d :: ds) with
          | [] => spec_items U c tl
          | _ => flat_map (fun p => fst (spec_init U p v)) (targets U (d :: ds))
                 ++ spec_items U (next U (snd (spec_init U (last (targets U (d :: ds)) []) v))) tl
          end).
  rewrite H. cbn [flat_map last]. rewrite app_nil_r. reflexivity.
Qed.

Lemma spec_items_desig_many : forall U c d ds v tl, targets U (d :: ds) <> [] ->
  spec_items U c (ICons (d :: ds) v tl)
  = flat_map (fun p => fst (spec_init U p v)) (targets U (d :: ds))
    ++ spec_items U (next U (snd (spec_init U (last (targets U (d :: ds)) []) v))) tl.
Proof.
  intros U c d ds v tl H.
  change (spec_items U c (ICons (d :: ds) v tl))
    with (match targets U (d :: ds) with
          | [] => spec_items U c tl
          | _ => flat_map (fun p => fst (spec_init U p v)) (targets U (d :: ds))
                 ++ spec_items U (next U (snd (spec_init U (last (targets U (d :: ds)) []) v))) tl
          end).
  destruct (targets U (d :: ds)); [congruence|reflexivity].
Qed.

(* the elements a range designates *)
Lemma targets_range : forall n e a b, (a <=? b) && in_bound n b = true ->
  targets (TArray n e) [DRange a b] = map (fun j => [j]) (seq a (S b - a)).
Proof.
  intros n e a b H. cbn [targets]. rewrite H.
  induction (seq a (S b - a)) as [|j l IH]; [reflexivity|]. simpl. rewrite <- IH. reflexivity.
Qed.

Lemma last_map_seq : forall a n, last (map (fun j => [j]) (seq a (S n))) [] = [a + n].
Proof.
  intros a n. revert a. induction n as [|n IH]; intro a; [cbn; rewrite Nat.add_0_r; reflexivity|].
  change (seq a (S (S n))) with (a :: seq (S a) (S n)). cbn [map].
  change (last ([a] :: map (fun j => [j]) (seq (S a) (S n))) [])
    with (last (map (fun j => [j]) (seq (S a) (S n))) []).
  rewrite IH. f_equal. lia.
Qed.

(* an initializer for exactly one element j: its events lie below j and it is done with j *)
Lemma single_done : forall e v, single e v = true -> ok_init e [] v = true -> snd (spec_init e [] v) = [].
Proof.
  intros e v Hs Hok. destruct v as [x|s|l]; cbn [single] in Hs.
  - destruct e as [k| | |]; try discriminate. reflexivity.
  - cbn [spec_init snd str_target]. destruct e as [k|n e0|ms|ms]; try discriminate. cbn [down_str]. rewrite Hs. reflexivity.
  - cbn [spec_init sub]. cbn [ok_init sub] in Hok. destruct e as [k|n e0|ms|ms].
    + destruct l as [|[|d0 ds'] [x|s|l'] [|ds2 v2 tl2]]; try discriminate. reflexivity.
    + destruct l as [|[|d0 ds'] [x|s|l'] [|ds2 v2 tl2]]; try destruct (is_char_array (TArray n e0)); reflexivity.
    + destruct l as [|[|d0 ds'] [x|s|l'] [|ds2 v2 tl2]]; reflexivity.
    + destruct l as [|[|d0 ds'] [x|s|l'] [|ds2 v2 tl2]]; reflexivity.
Qed.

Lemma flat_map_ext_in' : forall (A B : Type) (f g : A -> list B) l,
  (forall a, In a l -> f a = g a) -> flat_map f l = flat_map g l.
Proof.
  intros A B f g l. induction l as [|x l IH]; intro H; [reflexivity|].
  cbn [flat_map]. rewrite (H x (or_introl eq_refl)), IH; [reflexivity|]. intros a Ha. apply H. right. exact Ha.
Qed.

Lemma flat_map_map : forall (A B C : Type) (f : B -> list C) (g : A -> B) l,
  flat_map f (map g l) = flat_map (fun x => f (g x)) l.
Proof. intros A B C f g l. induction l as [|x l IH]; [reflexivity|]. cbn [map flat_map]. rewrite IH. reflexivity. Qed.

Lemma spec_items_range : forall n e a b v tl c,
  range_ok (TArray n e) a b v = true -> ok_init (TArray n e) [b] v = true ->
  spec_items (TArray n e) c (ICons [DRange a b] v tl)
  = flat_map (fun k => map (at_ [k]) (fst (spec_init e [] v))) (seq a (S b - a))
    ++ spec_items (TArray n e) (next (TArray n e) [b]) tl
  /\ snd (spec_init (TArray n e) [b] v) = [b].
Proof.
  intros n e a b v tl c Hr Hok. set (W := TArray n e) in *.
  cbn [range_ok W] in Hr. apply andb_prop in Hr. destruct Hr as [Hab Hsingle].
  pose proof Hab as Hab'. apply andb_prop in Hab'. destruct Hab' as [Hle Hb]. apply Nat.leb_le in Hle.
  assert (Hsub : forall k, k <= b -> sub W [k] = Some e).
  { intros k Hk. cbn [sub child W]. destruct n as [n|]; cbn [in_bound] in *; [|reflexivity].
    apply Nat.ltb_lt in Hb. assert (Hkb : k <? n = true) by (apply Nat.ltb_lt; lia). rewrite Hkb. reflexivity. }
  assert (Hoke : ok_init e [] v = true).
  { pose proof (ok_init_at v W [b] e [] (Hsub b (le_n _))) as H. cbn [app] in H. rewrite <- H. exact Hok. }
  assert (Hat : forall k, k <= b -> spec_init W [k] v = (map (at_ [k]) (fst (spec_init e [] v)), [k])).
  { intros k Hk. pose proof (spec_init_at v W [k] e [] (Hsub k Hk)) as H. cbn [app] in H.
    rewrite H, (single_done e v Hsingle Hoke). reflexivity. }
  split; [|rewrite (Hat b (le_n _)); reflexivity].
  assert (Ht : targets W [DRange a b] = map (fun j => [j]) (seq a (S b - a))) by (apply targets_range; exact Hab).
  rewrite (spec_items_desig_many W c (DRange a b) [] v tl).
  - rewrite Ht. replace (S b - a) with (S (b - a)) by lia. rewrite last_map_seq. replace (a + (b - a)) with b by lia.
    f_equal; [|rewrite (Hat b (le_n _)); reflexivity]. rewrite flat_map_map.
    apply flat_map_ext_in'. intros k Hk. apply in_seq in Hk. rewrite (Hat k ltac:(lia)). reflexivity.
  - rewrite Ht. replace (S b - a) with (S (b - a)) by lia. discriminate.
Qed.

Lemma map_cons_singleton : forall (k : nat) (l : list path) p, map (cons k) l = [p] -> exists p', l = [p'] /\ p = k :: p'.
Proof.
  intros k l p H. destruct l as [|p' [|p2 l]]; cbn [map] in H; try discriminate.
  injection H as <-. exists p'. split; reflexivity.
Qed.

Lemma split_range_some : forall ds ds1 a b, split_range ds = Some (ds1, a, b) -> ds = ds1 ++ [DRange a b].
Proof.
  induction ds as [|d ds IH]; intros ds1 a b H; [discriminate|].
  cbn [split_range] in H.
  assert (Hgen : match split_range ds with Some (ds1', a', b') => Some (d :: ds1', a', b') | None => None end = Some (ds1, a, b) ->
                 d :: ds = ds1 ++ [DRange a b]).
  { intro H0. destruct (split_range ds) as [[[ds1' a'] b']|] eqn:Hs; [|discriminate]. injection H0 as <- <- <-.
    rewrite (IH ds1' a' b' eq_refl). reflexivity. }
  destruct d as [k|a0 b0|m]; try (apply Hgen; exact H).
  destruct ds as [|d2 ds2]; [injection H as <- <- <-; reflexivity|apply Hgen; exact H].
Qed.

(* the designators before the range lead to one subobject p1; what follows is relative to it *)
Lemma targets_app : forall ds1 U p1 W1 ds2, no_range ds1 = true -> targets U ds1 = [p1] -> sub U p1 = Some W1 ->
  targets U (ds1 ++ ds2) = map (app p1) (targets W1 ds2).
Proof.
  induction ds1 as [|d ds1 IH]; intros U p1 W1 ds2 Hnr Ht Hs.
  - cbn [targets] in Ht. injection Ht as <-. cbn [sub] in Hs. injection Hs as <-. cbn [app]. rewrite map_id. reflexivity.
  - cbn [no_range forallb] in Hnr. apply andb_prop in Hnr. destruct Hnr as [Hd Hnr].
    destruct d as [i|a b|m]; [| discriminate Hd |].
    + destruct U as [k|n e|ms|ms]; cbn [targets] in Ht; try discriminate.
      destruct (in_bound n i) eqn:Hb; [|discriminate].
      destruct (map_cons_singleton i _ p1 Ht) as [p1' [Ht' ->]].
      cbn [sub child] in Hs. rewrite Hb in Hs.
      cbn [app targets]. rewrite Hb, (IH e p1' W1 ds2 Hnr Ht' Hs), map_map. reflexivity.
    + destruct U as [k|n e|ms|ms]; cbn [targets] in Ht; try discriminate.
      * destruct (nth_error ms m) as [Wm|] eqn:Hm; [|discriminate].
        destruct (map_cons_singleton m _ p1 Ht) as [p1' [Ht' ->]].
        cbn [sub child] in Hs. rewrite Hm in Hs.
        cbn [app targets]. rewrite Hm, (IH Wm p1' W1 ds2 Hnr Ht' Hs), map_map. reflexivity.
      * destruct (nth_error ms m) as [Wm|] eqn:Hm; [|discriminate].
        destruct (map_cons_singleton m _ p1 Ht) as [p1' [Ht' ->]].
        cbn [sub child] in Hs. rewrite Hm in Hs.
        cbn [app targets]. rewrite Hm, (IH Wm p1' W1 ds2 Hnr Ht' Hs), map_map. reflexivity.
Qed.

Lemma last_map_seq_app : forall (p1 : path) a n, last (map (fun j => p1 ++ [j]) (seq a (S n))) [] = p1 ++ [a + n].
Proof.
  intros p1 a n. revert a. induction n as [|n IH]; intro a; [cbn; rewrite Nat.add_0_r; reflexivity|].
  change (seq a (S (S n))) with (a :: seq (S a) (S n)). cbn [map].
  change (last ((p1 ++ [a]) :: map (fun j => p1 ++ [j]) (seq (S a) (S n))) [])
    with (last (map (fun j => p1 ++ [j]) (seq (S a) (S n))) []).
  rewrite IH. f_equal. f_equal. lia.
Qed.

Lemma map_flat_map : forall (A B C : Type) (f : B -> C) (g : A -> list B) l,
  map f (flat_map g l) = flat_map (fun x => map f (g x)) l.
Proof. intros A B C f g l. induction l as [|x l IH]; [reflexivity|]. cbn [flat_map]. rewrite map_app, IH. reflexivity. Qed.

(* <designators> [a ... b] = v: the elements a..b of the array at p1 each get v, the list goes on after element b *)
Lemma spec_items_range_tail : forall U c ds1 a b p1 n e v tl,
  no_range ds1 = true -> targets U ds1 = [p1] -> sub U p1 = Some (TArray n e) ->
  range_ok (TArray n e) a b v = true -> ok_init e [] v = true ->
  spec_items U c (ICons (ds1 ++ [DRange a b]) v tl)
  = map (at_ p1) (flat_map (fun k => map (at_ [k]) (fst (spec_init e [] v))) (seq a (S b - a)))
    ++ spec_items U (next U (p1 ++ [b])) tl.
Proof.
  intros U c ds1 a b p1 n e v tl Hnr Ht Hs Hr Hoke.
  cbn [range_ok] in Hr. apply andb_prop in Hr. destruct Hr as [Hab Hsingle].
  pose proof Hab as Hab'. apply andb_prop in Hab'. destruct Hab' as [Hle Hb]. apply Nat.leb_le in Hle.
  assert (Hsub : forall k, k <= b -> sub U (p1 ++ [k]) = Some e).
  { intros k Hk. rewrite sub_app, Hs. cbn [sub child]. destruct n as [n|]; cbn [in_bound] in *; [|reflexivity].
    apply Nat.ltb_lt in Hb. assert (Hkb : k <? n = true) by (apply Nat.ltb_lt; lia). rewrite Hkb. reflexivity. }
  assert (Hat : forall k, k <= b -> spec_init U (p1 ++ [k]) v = (map (at_ (p1 ++ [k])) (fst (spec_init e [] v)), p1 ++ [k])).
  { intros k Hk. pose proof (spec_init_at v U (p1 ++ [k]) e [] (Hsub k Hk)) as H. rewrite app_nil_r in H.
    rewrite H, (single_done e v Hsingle Hoke), app_nil_r. reflexivity. }
  assert (Htg : targets U (ds1 ++ [DRange a b]) = map (fun j => p1 ++ [j]) (seq a (S b - a))).
  { rewrite (targets_app ds1 U p1 (TArray n e) [DRange a b] Hnr Ht Hs), (targets_range n e a b Hab), map_map. reflexivity. }
  assert (Hne : exists d ds, ds1 ++ [DRange a b] = d :: ds) by (destruct ds1 as [|d ds1]; eexists; eexists; reflexivity).
  destruct Hne as [d [ds Hds]]. rewrite Hds in Htg |- *.
  rewrite (spec_items_desig_many U c d ds v tl).
  - rewrite Htg. replace (S b - a) with (S (b - a)) by lia. rewrite last_map_seq_app. replace (a + (b - a)) with b by lia.
    f_equal; [|rewrite (Hat b (le_n _)); reflexivity]. rewrite flat_map_map, map_flat_map.
    apply flat_map_ext_in'. intros k Hk. apply in_seq in Hk. rewrite (Hat k ltac:(lia)). cbn [fst]. rewrite map_at_app. reflexivity.
  - rewrite Htg. replace (S b - a) with (S (b - a)) by lia. discriminate.
Qed.

(* the GNU forms inside `valid` *)
Definition simple_range (U : ty) (d : desig) (ds : list desig) (v : init) (tl : items) : Prop :=
  exists a b, d = DRange a b /\ ds = [] /\ range_ok U a b v = true /\ ok_init U [b] v = true /\
              ok_items U (next U (snd (spec_init U [b] v))) tl = true.

Definition range_nested (U : ty) (d : desig) (ds : list desig) (v : init) (tl : items) : Prop :=
  exists ds1 a b p1 n e, ds = ds1 ++ [DRange a b] /\ no_range (d :: ds1) = true /\ targets U (d :: ds1) = [p1] /\
    sub U p1 = Some (TArray n e) /\ range_ok (TArray n e) a b v = true /\ ok_init e [] v = true /\
    ok_items U (next U (p1 ++ [b])) tl = true.

Lemma ok_items_desig : forall U c d ds v tl,
  ok_items U c (ICons (d :: ds) v tl) = true ->
  (exists p, targets U (d :: ds) = [p] /\ no_range (d :: ds) = true /\
             ok_items U (Some p) (ICons [] v tl) = true) \/
  simple_range U d ds v tl \/ range_nested U d ds v tl.
Proof.
  intros U c d ds v tl H.
  change (ok_items U c (ICons (d :: ds) v tl)) with
    (match split_range (d :: ds) with
     | Some (ds1, a, b) =>
         no_range ds1 &&
         match targets U ds1 with
         | [p1] => match sub U p1 with
                   | Some W1 => range_ok W1 a b v && ok_init U (p1 ++ [b]) v
                                && ok_items U (next U (snd (spec_init U (p1 ++ [b]) v))) tl
                   | None => false
                   end
         | _ => false
         end
     | None =>
         no_range (d :: ds) &&
         match targets U (d :: ds) with
         | [p] => ok_init U p v && ok_items U (next U (snd (spec_init U p v))) tl
         | _ => false
         end
     end) in H.
  destruct (split_range (d :: ds)) as [[[ds1 a] b]|] eqn:Hsp.
  - apply split_range_some in Hsp. apply andb_prop in H. destruct H as [Hnr H].
    destruct (targets U ds1) as [|p1 [|p2 ps]] eqn:Ht; try discriminate.
    destruct (sub U p1) as [W1|] eqn:Hs; [|discriminate].
    apply andb_prop in H. destruct H as [H H3]. apply andb_prop in H. destruct H as [H1 H2].
    destruct ds1 as [|d1 ds1].
    + right. left. cbn [app] in Hsp. injection Hsp as -> ->. cbn [targets] in Ht. injection Ht as <-.
      cbn [sub] in Hs. injection Hs as <-. exists a, b. repeat split; assumption.
    + right. right. cbn [app] in Hsp. injection Hsp as -> ->.
      destruct W1 as [k|n e|ms|ms]; try discriminate H1.
      pose proof H1 as Hr. cbn [range_ok] in Hr. apply andb_prop in Hr. destruct Hr as [Hab Hsingle].
      apply andb_prop in Hab. destruct Hab as [_ Hb].
      assert (Hsubb : sub U (p1 ++ [b]) = Some e) by (rewrite sub_app, Hs; cbn [sub child]; rewrite Hb; reflexivity).
      assert (Hoke : ok_init e [] v = true).
      { pose proof (ok_init_at v U (p1 ++ [b]) e [] Hsubb) as H0. rewrite app_nil_r in H0. rewrite <- H0. exact H2. }
      pose proof (spec_init_at v U (p1 ++ [b]) e [] Hsubb) as Hsi. rewrite app_nil_r in Hsi.
      rewrite Hsi, (single_done e v Hsingle Hoke), app_nil_r in H3. cbn [snd] in H3.
      exists ds1, a, b, p1, n, e. repeat split; assumption.
  - left. apply andb_prop in H. destruct H as [Hnr H0].
    destruct (targets U (d :: ds)) as [|p [|p2 ps]]; try discriminate.
    exists p. split; [reflexivity|]. split; [exact Hnr|]. exact H0.
Qed.

Lemma simple_range_array : forall U d ds v tl, simple_range U d ds v tl -> exists n e, U = TArray n e.
Proof.
  intros U d ds v tl [a [b [_ [_ [H _]]]]]. destruct U as [k|n e|ms|ms]; try discriminate. exists n, e. reflexivity.
Qed.

Lemma spec_items_desig_any_cursor : forall U c1 c2 d ds v tl,
  ok_items U c1 (ICons (d :: ds) v tl) = true ->
  spec_items U c1 (ICons (d :: ds) v tl) = spec_items U c2 (ICons (d :: ds) v tl).
Proof.
  intros U c1 c2 d ds v tl H. apply ok_items_desig in H. destruct H as [[p [Hp _]]|[Hr|Hn]].
  - rewrite (spec_items_desig U c1 d ds v tl p Hp), (spec_items_desig U c2 d ds v tl p Hp). reflexivity.
  - destruct Hr as [a [b [-> [-> [Hr [Hok _]]]]]]. destruct U as [k|n e|ms|ms]; try discriminate.
    destruct (spec_items_range n e a b v tl c1 Hr Hok) as [H1 _].
    destruct (spec_items_range n e a b v tl c2 Hr Hok) as [H2 _]. rewrite H1, H2. reflexivity.
  - destruct Hn as [ds1 [a [b [p1 [n [e [-> [Hnr [Ht [Hs [Hr [Hoke _]]]]]]]]]]]].
    change (d :: ds1 ++ [DRange a b]) with ((d :: ds1) ++ [DRange a b]).
    rewrite (spec_items_range_tail U c1 (d :: ds1) a b p1 n e v tl Hnr Ht Hs Hr Hoke),
            (spec_items_range_tail U c2 (d :: ds1) a b p1 n e v tl Hnr Ht Hs Hr Hoke). reflexivity.
Qed.

(* the stream a parser function returns is a suffix of the stream it received *)
Inductive isuffix : items -> items -> Prop :=
| suf_refl : forall l, isuffix l l
| suf_cons : forall l ds v tl, isuffix l tl -> isuffix l (ICons ds v tl).

Lemma isuffix_trans : forall a b c, isuffix a b -> isuffix b c -> isuffix a c.
Proof.
  intros a b c Hab Hbc. induction Hbc as [l|l ds v tl Hbc IH]; [exact Hab|].
  apply suf_cons. apply IH. exact Hab.
Qed.

Lemma isuffix_length : forall a b, isuffix a b -> ilength a <= ilength b.
Proof. intros a b H. induction H as [l|l ds v tl H IH]; cbn [ilength]; lia. Qed.

Lemma isuffix_idepth : forall a b, isuffix a b -> idepth_items a <= idepth_items b.
Proof. intros a b H. induction H as [l|l ds v tl H IH]; cbn [idepth_items]; lia. Qed.

Lemma isuffix_nil : forall a, isuffix a INil -> a = INil.
Proof. intros a H. inversion H. reflexivity. Qed.

(* an undesignated item for subobject q of U, seen from W = sub U q *)
Lemma spec_at : forall U q W v rest, sub U q = Some W ->
  spec_items U (Some q) (ICons [] v rest)
  = map (at_ q) (fst (spec_init W [] v)) ++ spec_items U (next U (q ++ snd (spec_init W [] v))) rest.
Proof.
  intros U q W v rest HW. pose proof (spec_init_at v U q W [] HW) as H. rewrite app_nil_r in H.
  rewrite spec_items_head, H. reflexivity.
Qed.

Lemma ok_at : forall U q W v rest, sub U q = Some W ->
  ok_items U (Some q) (ICons [] v rest)
  = ok_init W [] v && ok_items U (next U (q ++ snd (spec_init W [] v))) rest.
Proof.
  intros U q W v rest HW. pose proof (spec_init_at v U q W [] HW) as H. rewrite app_nil_r in H.
  pose proof (ok_init_at v U q W [] HW) as H2. rewrite app_nil_r in H2.
  rewrite ok_items_head, H, H2. reflexivity.
Qed.

(* braces around the initializer of an array or struct: either { "string" } for a character array (p14), or a list *)
Definition is_agg (W : ty) : Prop := match W with TArray _ _ => True | TStruct _ => True | _ => False end.

Lemma ok_braced_cases : forall W l, is_agg W -> ok_init W [] (IList l) = true ->
  (exists s, l = ICons [] (IStr s) INil /\ is_char_array W = true /\ s <> [] /\ str_ok W = true) \/
  (ok_items W (Some [0]) l = true /\ l <> INil /\ (forall s, l = ICons [] (IStr s) INil -> is_char_array W = false)).
Proof.
  intros W l HW H. cbn [ok_init sub] in H.
  assert (Hgen : ok_items W (Some [0]) l = true -> l <> INil ->
                 (forall s, l = ICons [] (IStr s) INil -> is_char_array W = false) ->
                 (exists s, l = ICons [] (IStr s) INil /\ is_char_array W = true /\ s <> [] /\ str_ok W = true) \/
                 (ok_items W (Some [0]) l = true /\ l <> INil /\ (forall s, l = ICons [] (IStr s) INil -> is_char_array W = false))).
  { intros H1 H2 H3. right. repeat split; assumption. }
  destruct W as [k|n e|ms|ms]; try contradiction.
  - destruct l as [|ds v tl]; [discriminate|]. destruct ds as [|d0 ds']; [|apply Hgen; [exact H|discriminate|intros s Hs; discriminate]].
    destruct v as [x|s|l']; try (apply Hgen; [exact H|discriminate|intros s0 Hs; discriminate]).
    destruct tl as [|ds2 v2 tl2]; [|apply Hgen; [exact H|discriminate|intros s0 Hs; discriminate]].
    destruct (is_char_array (TArray n e)) eqn:Hca.
    + left. exists s. split; [reflexivity|]. split; [reflexivity|]. destruct s; [discriminate|]. split; [discriminate|exact H].
    + apply Hgen; [exact H|discriminate|intros s0 Hs; reflexivity].
  - destruct l as [|ds v tl]; [discriminate|]. destruct ds as [|d0 ds']; [|apply Hgen; [exact H|discriminate|intros s Hs; discriminate]].
    destruct v as [x|s|l']; try (apply Hgen; [exact H|discriminate|intros s0 Hs; discriminate]).
    destruct tl as [|ds2 v2 tl2]; [|apply Hgen; [exact H|discriminate|intros s0 Hs; discriminate]].
    cbn [is_char_array] in H. apply Hgen; [exact H|discriminate|intros s0 Hs; reflexivity].
Qed.

Lemma spec_init_braced : forall W l, (forall k, W <> TScalar k) ->
  (forall s, l = ICons [] (IStr s) INil -> is_char_array W = false) ->
  spec_init W [] (IList l) = (Clear [] :: map (at_ []) (spec_items W (Some [0]) l), []).
Proof.
  intros W l Hns Hl. cbn [spec_init sub].
  destruct W as [k|n e|ms|ms]; [exfalso; apply (Hns k); reflexivity| | |];
    (destruct l as [|ds v' tl]; [reflexivity|]; destruct ds as [|d0 ds']; [|reflexivity];
     destruct v' as [x|s|l']; try reflexivity; destruct tl as [|ds2 v2 tl2]; [|reflexivity];
     try reflexivity; rewrite (Hl s eq_refl); reflexivity).
Qed.

Lemma spec_init_braced_str : forall W s, is_char_array W = true ->
  spec_init W [] (IList (ICons [] (IStr s) INil)) = (string_events [] 0 (array_bound (Some W)) s, []).
Proof.
  intros W s H. cbn [spec_init sub]. destruct W as [k|n e|ms|ms]; try discriminate. rewrite H. reflexivity.
Qed.

(* p20: an expression (or a string literal that is not for W itself) for an aggregate or union W is for its
   first subobject *)
Definition descends (W : ty) (v : init) : Prop :=
  match v with IExpr _ => True | IStr _ => is_char_array W = false | IList _ => False end.

Lemma down_str_child0 : forall W V, child W 0 = Some V -> is_char_array W = false -> down_str W = 0 :: down_str V.
Proof.
  intros W V H Hc. destruct W as [k|n e|ms|ms]; cbn [child] in H.
  - discriminate.
  - destruct (in_bound n 0); [|discriminate]. injection H as ->. cbn [down_str]. rewrite Hc. reflexivity.
  - destruct ms as [|m ms]; [discriminate|]. injection H as ->. reflexivity.
  - destruct ms as [|m ms]; [discriminate|]. injection H as ->. reflexivity.
Qed.

Lemma str_target_descend : forall U q W V, sub U q = Some W -> child W 0 = Some V -> is_char_array W = false ->
  str_target U q = str_target U (q ++ [0]).
Proof.
  intros U q W V HW HV Hc.
  rewrite <- (app_nil_r q) at 1. rewrite (str_target_app q U W [] HW), (str_target_app q U W [0] HW).
  cbn [str_target]. rewrite HV. cbn [str_target]. rewrite (down_str_child0 W V HV Hc). reflexivity.
Qed.

Lemma spec_items_descend : forall U q W V v rest, sub U q = Some W -> child W 0 = Some V -> descends W v ->
  spec_items U (Some q) (ICons [] v rest) = spec_items U (Some (q ++ [0])) (ICons [] v rest).
Proof.
  intros U q W V v rest HW HV Hd. rewrite !spec_items_head. destruct v as [x|s|l]; [| |contradiction].
  - cbn [spec_init fst snd]. rewrite (first_leaf_descend U q W V HW HV). reflexivity.
  - cbn [descends] in Hd. cbn [spec_init fst snd]. rewrite (str_target_descend U q W V HW HV Hd). reflexivity.
Qed.

Lemma str_ok_descend : forall W V, child W 0 = Some V -> str_ok W = true -> is_char_array W = false -> str_ok V = true.
Proof.
  intros W V HV H Hc. destruct W as [k|n e|ms|ms]; cbn [child] in HV.
  - discriminate.
  - cbn [str_ok] in H. rewrite Hc in H. cbn [orb] in H. apply andb_prop in H. destruct H as [Hb H].
    rewrite Hb in HV. injection HV as <-. exact H.
  - destruct ms as [|m ms]; [discriminate|]. injection HV as ->. exact H.
  - destruct ms as [|m ms]; [discriminate|]. injection HV as ->. exact H.
Qed.

Lemma ok_items_descend : forall U q W V v rest, sub U q = Some W -> child W 0 = Some V -> descends W v ->
  ok_items U (Some q) (ICons [] v rest) = true -> ok_items U (Some (q ++ [0])) (ICons [] v rest) = true.
Proof.
  intros U q W V v rest HW HV Hd H. rewrite ok_items_head in H |- *. apply andb_prop in H. destruct H as [H1 H2].
  assert (HsV : sub U (q ++ [0]) = Some V) by (rewrite sub_app, HW; cbn [sub]; rewrite HV; reflexivity).
  destruct v as [x|s|l]; [| |contradiction].
  - cbn [spec_init fst snd ok_init] in *. rewrite <- (first_leaf_descend U q W V HW HV). rewrite HsV, H2. reflexivity.
  - cbn [descends] in Hd. cbn [spec_init fst snd ok_init] in *. rewrite <- (str_target_descend U q W V HW HV Hd), H2.
    destruct s as [|c s]; [discriminate|]. rewrite HW in H1. rewrite HsV, (str_ok_descend W V HV H1 Hd). reflexivity.
Qed.

(* a valid initializer logs something *)
Lemma str_ok_target : forall k W, tdepth W < k -> str_ok W = true ->
  exists n, sub W (down_str W) = Some (TArray n (TScalar 1)) /\ in_bound n 0 = true.
Proof.
  induction k as [|k IH]; intros W Hd H; [lia|].
  destruct W as [k0|n e|ms|ms]; cbn [str_ok] in H; try discriminate.
  - apply andb_prop in H. destruct H as [Hb H]. cbn [down_str]. destruct (is_char_array (TArray n e)) eqn:Hca.
    + cbn [sub]. cbn [is_char_array] in Hca. destruct e as [[|[|k1]]| | |]; try discriminate. exists n. split; [reflexivity|exact Hb].
    + cbn [orb] in H. cbn [sub child]. rewrite Hb. apply IH; [cbn [tdepth] in Hd; lia|exact H].
  - destruct ms as [|m ms]; [discriminate|]. cbn [down_str sub child nth_error].
    apply IH; [cbn [tdepth fold_right] in Hd; lia|exact H].
  - destruct ms as [|m ms]; [discriminate|]. cbn [down_str sub child nth_error].
    apply IH; [cbn [tdepth fold_right] in Hd; lia|exact H].
Qed.

Lemma spec_init_nonempty : forall U p v, ok_init U p v = true -> fst (spec_init U p v) <> [].
Proof.
  intros U p v H. destruct v as [x|s|l]; cbn [ok_init] in H; try discriminate.
  - destruct s as [|c s]; [discriminate|]. destruct (sub U p) as [W|] eqn:HW; [|discriminate].
    destruct (str_ok_target (S (tdepth W)) W ltac:(lia) H) as [n [Hs Hb]].
    cbn [spec_init fst]. pose proof (str_target_app p U W [] HW) as Ht. rewrite app_nil_r in Ht. cbn [str_target] in Ht.
    rewrite Ht, sub_app, HW, Hs. cbn [array_bound string_events]. rewrite Hb. discriminate.
  - cbn [spec_init]. destruct (sub U p) as [[k|n e|ms|ms]|]; try discriminate.
    + destruct l as [|ds v' tl]; [discriminate|]. destruct ds as [|d0 ds']; [|discriminate].
      destruct v' as [x|s|l']; try discriminate. destruct tl; [|discriminate]. cbn [spec_init fst]. discriminate.
    + destruct l as [|[|d0 ds'] [x|s|l'] [|ds2 v2 tl2]]; try (cbn [fst]; discriminate).
      destruct (is_char_array (TArray n e)) eqn:Hca; [|cbn [fst]; discriminate].
      destruct s as [|c s]; [discriminate|]. cbn [str_ok] in H. apply andb_prop in H. destruct H as [Hb _].
      cbn [fst array_bound string_events]. rewrite Hb. discriminate.
    + destruct l as [|[|d0 ds'] [x|s|l'] [|ds2 v2 tl2]]; cbn [is_char_array fst]; discriminate.
    + destruct l as [|[|d0 ds'] [x|s|l'] [|ds2 v2 tl2]]; cbn [is_char_array fst]; discriminate.
Qed.


Lemma split_range_app : forall ds1 a b, no_range ds1 = true -> split_range (ds1 ++ [DRange a b]) = Some (ds1, a, b).
Proof.
  induction ds1 as [|d ds1 IH]; intros a b H; [reflexivity|].
  cbn [no_range forallb] in H. apply andb_prop in H. destruct H as [Hd H]. specialize (IH a b H).
  cbn [app split_range]. destruct d as [k|a0 b0|m]; [|discriminate Hd|]; rewrite IH; destruct (ds1 ++ [DRange a b]); reflexivity.
Qed.

Lemma ok_items_range_tail : forall U c ds1 a b p1 n e v tl,
  no_range ds1 = true -> targets U ds1 = [p1] -> sub U p1 = Some (TArray n e) ->
  range_ok (TArray n e) a b v = true -> ok_init e [] v = true ->
  ok_items U c (ICons (ds1 ++ [DRange a b]) v tl) = ok_items U (next U (p1 ++ [b])) tl.
Proof.
  intros U c ds1 a b p1 n e v tl Hnr Ht Hs Hr Hoke.
  pose proof Hr as Hr'. cbn [range_ok] in Hr'. apply andb_prop in Hr'. destruct Hr' as [Hab Hsingle].
  apply andb_prop in Hab. destruct Hab as [_ Hb].
  assert (Hsubb : sub U (p1 ++ [b]) = Some e) by (rewrite sub_app, Hs; cbn [sub child]; rewrite Hb; reflexivity).
  pose proof (ok_init_at v U (p1 ++ [b]) e [] Hsubb) as Hoi. rewrite app_nil_r in Hoi.
  pose proof (spec_init_at v U (p1 ++ [b]) e [] Hsubb) as Hsi. rewrite app_nil_r in Hsi.
  rewrite (single_done e v Hsingle Hoke), app_nil_r in Hsi.
  assert (Hne : exists d ds, ds1 ++ [DRange a b] = d :: ds) by (destruct ds1 as [|d ds1]; eexists; eexists; reflexivity).
  destruct Hne as [d [ds Hds]]. pose proof (split_range_app ds1 a b Hnr) as Hsp. rewrite Hds in Hsp |- *.
  change (ok_items U c (ICons (d :: ds) v tl)) with
    (match split_range (d :: ds) with
     | Some (ds1, a, b) =>
         no_range ds1 &&
         match targets U ds1 with
         | [p1] => match sub U p1 with
                   | Some W1 => range_ok W1 a b v && ok_init U (p1 ++ [b]) v
                                && ok_items U (next U (snd (spec_init U (p1 ++ [b]) v))) tl
                   | None => false
                   end
         | _ => false
         end
     | None =>
         no_range (d :: ds) &&
         match targets U (d :: ds) with
         | [p] => ok_init U p v && ok_items U (next U (snd (spec_init U p v))) tl
         | _ => false
         end
     end).
  rewrite Hsp, Hnr, Ht, Hs, Hr, Hoi, Hoke, Hsi. reflexivity.
Qed.

Lemma split_range_none : forall ds, no_range ds = true -> split_range ds = None.
Proof.
  induction ds as [|d ds IH]; intro H; [reflexivity|].
  cbn [no_range forallb] in H. apply andb_prop in H. destruct H as [Hd H]. specialize (IH H).
  cbn [split_range]. destruct d as [k|a b|m]; [|discriminate Hd|]; rewrite IH; destruct ds; reflexivity.
Qed.

Lemma ok_items_desig_single : forall U c d ds v tl p,
  no_range (d :: ds) = true -> targets U (d :: ds) = [p] ->
  ok_items U c (ICons (d :: ds) v tl) = ok_items U (Some p) (ICons [] v tl).
Proof.
  intros U c d ds v tl p Hnr Ht.
  change (ok_items U c (ICons (d :: ds) v tl)) with
    (match split_range (d :: ds) with
     | Some (ds1, a, b) =>
         no_range ds1 &&
         match targets U ds1 with
         | [p1] => match sub U p1 with
                   | Some W1 => range_ok W1 a b v && ok_init U (p1 ++ [b]) v
                                && ok_items U (next U (snd (spec_init U (p1 ++ [b]) v))) tl
                   | None => false
                   end
         | _ => false
         end
     | None =>
         no_range (d :: ds) &&
         match targets U (d :: ds) with
         | [p] => ok_init U p v && ok_items U (next U (snd (spec_init U p v))) tl
         | _ => false
         end
     end).
  rewrite (split_range_none (d :: ds) Hnr), Hnr, Ht. reflexivity.
Qed.
