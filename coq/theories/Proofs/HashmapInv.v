(* Full invariant of the hashmap model, refinement to a dictionary and absence of aborts. *)
From Coq Require Import List NArith Bool Lia Arith.
From Chibicc Require Import Model.Hashmap Proofs.HashmapWalk.
Import ListNotations.
Local Open Scope N_scope.

(* ---------- arithmetic helpers ---------- *)
Lemma div_ge_iff a c h : c <> 0 -> (h <= a / c <-> h * c <= a).
Proof.
  intros Hc; split; intros H.
  - pose proof (N.mul_div_le a c Hc). nia.
  - apply N.div_le_lower_bound; auto. lia.
Qed.

Lemma leb_div_false a c h : c <> 0 -> (h <=? a / c) = false -> a < h * c.
Proof.
  intros Hc H. apply N.leb_gt in H.
  destruct (N.lt_ge_cases a (h * c)) as [|Hge]; auto.
  apply div_ge_iff in Hge; auto. lia.
Qed.

Lemma leb_div_true a c h : c <> 0 -> (h <=? a / c) = true -> h * c <= a.
Proof. intros Hc H. apply N.leb_le in H. apply div_ge_iff; auto. Qed.

Lemma mod_pow2_mod x a : a <= 64 -> (x mod two64) mod 2 ^ a = x mod 2 ^ a.
Proof.
  intros Ha. unfold two64.
  replace 18446744073709551616 with (2 ^ a * 2 ^ (64 - a)).
  2:{ rewrite <- N.pow_add_r. replace (a + (64 - a)) with 64 by lia. reflexivity. }
  assert (H1 : 2 ^ a <> 0) by (apply N.pow_nonzero; lia).
  assert (H2 : 2 ^ (64 - a) <> 0) by (apply N.pow_nonzero; lia).
  rewrite N.mod_mul_r by auto.
  rewrite (N.mul_comm (2 ^ a)), N.mod_add by auto.
  apply N.mod_mod; auto.
Qed.

Section Inv.
Variable K V : Type.
Variable keqb : K -> K -> bool.
Hypothesis keqb_eq : forall a b, keqb a b = true <-> a = b.
Variable hash : K -> N.
Variable P : hm_params.

Notation slot := (slot K V).
Notation hmap := (hmap K V).
Notation probe := (probe K V keqb hash).
Notation WInv := (WInv K V keqb hash).
Notation absf := (absf K V keqb hash).
Notation upd := (upd K V keqb).

(* side conditions on the constants of hashmap.c (checked on Gen/HashmapConsts.v) *)
Definition params_ok : Prop :=
  (exists a0, init_size P = 2 ^ a0) /\ init_size P < int_max1 /\
  1 <= low_wm P /\ low_wm P <= high_wm P /\ high_wm P < 100 /\
  100 <= (100 - high_wm P) * init_size P.
Hypothesis Pok : params_ok.

(* ---------- counting non-empty slots ---------- *)
Definition nonempty (s : slot) : bool := match s with Empty => false | _ => true end.
Definition cnt (bs : list slot) : nat := length (filter nonempty bs).
Definition b2n (b : bool) : nat := if b then 1%nat else 0%nat.

Lemma cnt_set_nth j x l :
  (j < length l)%nat ->
  (cnt (set_nth j x l) + b2n (nonempty (nth j l Empty)) = cnt l + b2n (nonempty x))%nat.
Proof.
  unfold cnt. revert j; induction l as [|a l IH]; intros [|j] H; simpl in *; try lia.
  - destruct (nonempty a), (nonempty x); simpl; lia.
  - specialize (IH j ltac:(lia)). destruct (nonempty a); simpl; lia.
Qed.

Lemma cnt_le_length l : (cnt l <= length l)%nat.
Proof. unfold cnt. apply filter_length_le || (induction l; simpl; [lia| destruct (nonempty a); simpl; lia]). Qed.

Lemma exists_empty l : (cnt l < length l)%nat -> exists e, (e < length l)%nat /\ nth e l Empty = Empty.
Proof.
  unfold cnt. induction l as [|a l IH]; simpl; intros H; try lia.
  destruct a; simpl in H.
  - exists 0%nat; split; [lia|auto].
  - destruct IH as [e [He E]]; [lia|]. exists (S e); split; [lia|auto].
  - destruct IH as [e [He E]]; [lia|]. exists (S e); split; [lia|auto].
Qed.

Lemma cnt_repeat n : cnt (repeat Empty n) = 0%nat.
Proof. unfold cnt. induction n; simpl; auto. Qed.

Lemma nth_repeat_empty n j : nth j (repeat (@Empty K V) n) Empty = Empty.
Proof. revert j; induction n; intros [|j]; simpl; auto. Qed.

(* ---------- the probe sequence visits every slot ---------- *)
Lemma idx_pow2 h i n a : N.of_nat n = 2 ^ a -> a <= 64 ->
  idx h i n = N.to_nat ((h + N.of_nat i) mod N.of_nat n).
Proof. intros Hn Ha. unfold idx. rewrite Hn. rewrite mod_pow2_mod; auto. Qed.

Lemma pseq_complete h n a e :
  N.of_nat n = 2 ^ a -> a <= 64 -> (e < n)%nat -> In e (pseq h n).
Proof.
  intros Hn Ha He. unfold pseq. apply in_map_iff.
  set (c := N.of_nat n). assert (Hc : c <> 0) by (unfold c; lia).
  set (hm := h mod c). assert (Hhm : hm < c) by (apply N.mod_upper_bound; auto).
  set (i := if N.of_nat e <? hm then N.of_nat e + c - hm else N.of_nat e - hm).
  assert (Hi : i < c) by (unfold i; destruct (N.ltb_spec (N.of_nat e) hm); unfold c in *; lia).
  exists (N.to_nat i). split.
  - rewrite (idx_pow2 h _ n a); auto. rewrite N2Nat.id. fold c.
    rewrite N.add_mod by auto. fold hm. rewrite (N.mod_small i c) by auto.
    assert (E : (hm + i) mod c = N.of_nat e).
    { unfold i. destruct (N.ltb_spec (N.of_nat e) hm).
      - replace (hm + (N.of_nat e + c - hm)) with (N.of_nat e + 1 * c) by lia.
        rewrite N.mod_add by auto. apply N.mod_small. unfold c; lia.
      - replace (hm + (N.of_nat e - hm)) with (N.of_nat e) by lia.
        apply N.mod_small. unfold c; lia. }
    rewrite E. apply Nat2N.id.
  - apply in_seq. unfold c in Hi. lia.
Qed.

(* ---------- the invariant ---------- *)
Definition capacity_ok (m : hmap) : Prop :=
  exists a, capacity m = 2 ^ a /\ init_size P <= capacity m /\
            capacity m < int_max1 /\ used m < capacity m.

Record Inv (m : hmap) : Prop := {
  I_w : WInv (buckets m);
  I_cnt : used m = N.of_nat (cnt (buckets m));
  I_shape : buckets m = [] \/ capacity_ok m
}.

Lemma inv_empty : Inv (empty_map K V).
Proof.
  constructor; simpl; auto.
  intros k j v Hj; simpl in Hj; lia.
Qed.

Lemma cap_pow_le64 (m : hmap) a : capacity m = 2 ^ a -> capacity m < int_max1 -> a <= 64.
Proof.
  intros E H. rewrite E in H. unfold int_max1 in H.
  change 2147483648 with (2 ^ 31) in H. apply N.pow_lt_mono_r_iff in H; lia.
Qed.

Lemma probe_not_exhausted m k :
  Inv m -> capacity_ok m -> probe k (buckets m) <> Exhausted.
Proof.
  intros [HW Hc _] [a [Ea [_ [Hlt Hu]]]].
  unfold capacity in *.
  destruct (exists_empty (buckets m)) as [e [He Ee]]; [lia|].
  rewrite probe_eq. eapply walk_not_exhausted; eauto.
  eapply pseq_complete; eauto. eapply cap_pow_le64; eauto.
Qed.

Definition notomb (bs : list slot) : Prop := forall q, nth q bs Empty <> Tomb.

(* ---------- operations ---------- *)
Lemma get_ok m k : Inv m -> hm_get K V keqb hash m k = Ok (absf (buckets m) k).
Proof.
  intros HI. unfold hm_get, HashmapWalk.absf.
  destruct (buckets m) as [|s bs'] eqn:Eb; auto.
  rewrite <- Eb.
  destruct (probe k (buckets m)) eqn:Pr; auto.
  exfalso. destruct HI as [HW Hc [Hs|Hs]]; [congruence|].
  eapply probe_not_exhausted; eauto. constructor; auto.
Qed.

Lemma inv_set (m : hmap) j s u a :
  WInv (set_nth j s (buckets m)) ->
  u = N.of_nat (cnt (set_nth j s (buckets m))) ->
  capacity m = 2 ^ a -> init_size P <= capacity m -> capacity m < int_max1 -> u < capacity m ->
  Inv {| buckets := set_nth j s (buckets m); used := u |}.
Proof.
  intros HW Hu E1 E2 E3 E4. constructor; simpl; auto.
  right. exists a. unfold capacity in *; simpl. rewrite length_set_nth. auto.
Qed.

Lemma delete_ok m k : Inv m ->
  exists m', hm_delete K V keqb hash m k = Ok m' /\ Inv m' /\
    (forall x, absf (buckets m') x = upd (absf (buckets m)) k None x) /\
    used m' = used m /\ length (buckets m') = length (buckets m).
Proof.
  intros HI. unfold hm_delete.
  destruct (buckets m) as [|s bs'] eqn:Eb.
  - exists m. split; [reflexivity|]. split; [exact HI|]. split; [|split; [reflexivity|now rewrite Eb]].
    intros x. rewrite Eb. unfold HashmapWalk.upd; simpl. destruct (keqb x k); auto.
  - rewrite <- Eb.
    assert (Hne : buckets m <> []) by congruence.
    pose proof HI as [HW Hc [Hs|Hs]]; [congruence|].
    destruct (probe k (buckets m)) as [j v| e t|] eqn:Pr.
    + (* found: tombstone it *)
      pose proof Pr as Pr0. rewrite probe_eq in Pr0.
      apply walk_found_sound in Pr0 as [Hin Ej]; auto.
      pose proof (pseq_bound (hash k) (length (buckets m))) as Hb. rewrite Forall_forall in Hb.
      specialize (Hb _ Hin).
      assert (HW' : WInv (set_nth j Tomb (buckets m))) by (eapply winv_delete; eauto).
      pose proof (cnt_set_nth j Tomb (buckets m) Hb) as Hcnt. rewrite Ej in Hcnt. simpl in Hcnt.
      destruct Hs as [a [E1 [E2 [E3 E4]]]].
      eexists; split; [reflexivity|]. split; [|split; [|split]]; simpl; auto using length_set_nth.
      * eapply inv_set; eauto. lia.
      * intros x. unfold HashmapWalk.upd. destruct (keqb x k) eqn:Exk.
        -- apply keqb_eq in Exk; subst x.
           destruct (absf (set_nth j Tomb (buckets m)) k) as [v'|] eqn:E'; auto.
           apply absf_some in E' as [j' [Hj' Ej']]; auto. rewrite length_set_nth in Hj'.
           destruct (Nat.eq_dec j' j) as [->|Hne'].
           ++ rewrite nth_set_nth_eq in Ej' by auto. discriminate.
           ++ rewrite nth_set_nth_neq in Ej' by auto.
              destruct (iw_unique K V keqb hash (buckets m) k j j' v v' (HW k) Hb Hj' Ej Ej'). congruence.
        -- apply absf_set_other with (k := k); auto.
           ++ intro; subst. rewrite keqb_refl in Exk; auto; discriminate.
           ++ rewrite Ej; simpl; rewrite Exk; discriminate.
    + exists m. split; [reflexivity|]. split; [exact HI|]. split; [|split; reflexivity].
      intros x. unfold HashmapWalk.upd.
      destruct (keqb x k) eqn:Exk; auto. apply keqb_eq in Exk; subst x.
      unfold HashmapWalk.absf. destruct (buckets m); auto. rewrite Pr; auto.
    + exfalso; eapply probe_not_exhausted; eauto.
Qed.

(* the probe-and-claim step, on a map that still has room *)
Lemma insert_ok m k v :
  Inv m -> capacity_ok m -> used m + 1 < capacity m ->
  exists m', insert_nr K V keqb hash m k v = Ok m' /\ Inv m' /\
    (forall x, absf (buckets m') x = upd (absf (buckets m)) k (Some v) x) /\
    used m' <= used m + 1 /\ length (buckets m') = length (buckets m) /\
    (notomb (buckets m) -> absf (buckets m) k = None ->
       used m' = used m + 1 /\ notomb (buckets m')).
Proof.
  intros HI Hs Hroom. pose proof HI as [HW Hc _].
  pose proof Hs as [a [E1 [E2 [E3 E4]]]].
  unfold insert_nr.
  destruct (probe k (buckets m)) as [j v0| e t|] eqn:Pr.
  - (* key present: overwrite the value *)
    pose proof Pr as Pr0. rewrite probe_eq in Pr0.
    apply walk_found_sound in Pr0 as [Hin Ej]; auto.
    pose proof (pseq_bound (hash k) (length (buckets m))) as Hb. rewrite Forall_forall in Hb.
    specialize (Hb _ Hin).
    assert (HW' : WInv (set_nth j (Full k v) (buckets m))) by (eapply winv_update; eauto).
    pose proof (cnt_set_nth j (Full k v) (buckets m) Hb) as Hcnt. rewrite Ej in Hcnt. simpl in Hcnt.
    assert (Hpres : absf (buckets m) k = Some v0) by (apply absf_some; eauto).
    eexists; split; [reflexivity|]. split; [|split; [|split; [|split]]]; simpl; auto using length_set_nth; try lia.
    + eapply inv_set; eauto. lia.
    + intros x. unfold HashmapWalk.upd. destruct (keqb x k) eqn:Exk.
      * apply keqb_eq in Exk; subst x. apply absf_some; auto. exists j.
        rewrite length_set_nth, nth_set_nth_eq; auto.
      * apply absf_set_other with (k := k); eauto.
        -- intro; subst. rewrite keqb_refl in Exk; auto; discriminate.
        -- rewrite Ej; simpl; rewrite Exk; discriminate.
    + intros _ Habs. congruence.
  - (* key absent: claim the first tombstone, else the empty slot *)
    pose proof (pseq_bound (hash k) (length (buckets m))) as Hb.
    pose proof Pr as Pr0. rewrite probe_eq in Pr0.
    destruct (walk_stop_claim K V keqb _ _ _ _ _ Hb Pr0) as [Hcl Hslot].
    assert (HW' : WInv (set_nth (claim e t) (Full k v) (buckets m))) by (eapply winv_insert; eauto).
    assert (Hupd : forall x, absf (set_nth (claim e t) (Full k v) (buckets m)) x
                             = upd (absf (buckets m)) k (Some v) x).
    { intros x. unfold HashmapWalk.upd. destruct (keqb x k) eqn:Exk.
      * apply keqb_eq in Exk; subst x. apply absf_some; auto. exists (claim e t).
        rewrite length_set_nth, nth_set_nth_eq; auto.
      * apply absf_set_other with (k := k); eauto.
        -- intro; subst. rewrite keqb_refl in Exk; auto; discriminate.
        -- destruct Hslot as [[E _]|[E _]]; rewrite E; discriminate. }
    pose proof (cnt_set_nth (claim e t) (Full k v) (buckets m) Hcl) as Hcnt.
    destruct t as [t0|]; simpl in *.
    + destruct Hslot as [[_ Hx]|[Et _]]; [discriminate|]. rewrite Et in Hcnt; simpl in Hcnt.
      eexists; split; [reflexivity|]. split; [|split; [|split; [|split]]]; simpl; auto using length_set_nth; try lia.
      * eapply inv_set; eauto. lia.
      * intros Hnt _. exfalso. eapply Hnt; eauto.
    + destruct Hslot as [[Ee _]|[_ Hx]]; [|congruence]. rewrite Ee in Hcnt; simpl in Hcnt.
      eexists; split; [reflexivity|]. split; [|split; [|split; [|split]]]; simpl; auto using length_set_nth; try lia.
      * eapply inv_set; eauto; lia.
      * intros Hnt _. split; auto. intros q. destruct (Nat.eq_dec q e) as [->|Hq].
        -- rewrite nth_set_nth_eq by auto. discriminate.
        -- rewrite nth_set_nth_neq by auto. apply Hnt.
  - exfalso; eapply probe_not_exhausted; eauto.
Qed.

(* ---------- growing ---------- *)
Lemma grow_ok nkeys : nkeys * 100 < 1073741824 ->
  forall f cap, 1 <= cap -> cap < int_max1 -> 1073741824 <= cap * 2 ^ (N.of_nat f) ->
  exists c i, grow P (S f) nkeys cap = Ok c /\ c = cap * 2 ^ i /\ nkeys * 100 < low_wm P * c /\
              c < int_max1 /\ (c = cap \/ c <= nkeys * 100 * 2).
Proof.
  intros Hn. destruct Pok as [_ [_ [Hlow _]]].
  induction f as [|f IH]; intros cap Hcap Hlt Hbig.
  - simpl in *. assert (Hc : cap <> 0) by lia.
    destruct (low_wm P <=? nkeys * 100 / cap) eqn:E.
    + apply leb_div_true in E; auto. nia.
    + apply leb_div_false in E; auto. exists cap, 0. simpl. rewrite N.mul_1_r.
      repeat split; auto.
  - assert (Hc : cap <> 0) by lia.
    cbn [grow]. destruct (low_wm P <=? nkeys * 100 / cap) eqn:E.
    + apply leb_div_true in E; auto.
      assert (Hcap2 : cap * 2 < int_max1) by (unfold int_max1; nia).
      apply N.leb_gt in Hcap2. rewrite Hcap2.
      destruct (IH (cap * 2)) as [c [i [G [Ec [Hl [Hi Hor]]]]]]; try lia.
      { apply N.leb_gt in Hcap2; auto. }
      { rewrite Nat2N.inj_succ, N.pow_succ_r' in Hbig. lia. }
      exists c, (i + 1). repeat split; auto.
      * rewrite Ec, N.pow_add_r. simpl. lia.
      * right. destruct Hor as [->|]; nia.
    + apply leb_div_false in E; auto. exists cap, 0. rewrite N.pow_0_r, N.mul_1_r.
      repeat split; auto.
Qed.

End Inv.
