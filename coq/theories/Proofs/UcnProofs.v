(* convert_universal_chars (translation phase 1 of chibicc: \uXXXX and \UXXXXXXXX are replaced
   by UTF-8 before tokenizing) against C11 6.4.3, and its composition with the literal scanners. *)
From Chibicc Require Import Base.Mach Model.Unicode Spec.Utf Model.IntLit Spec.IntLitSpec
     Proofs.UnicodeProofs Model.LitScan Spec.LitSpec Proofs.LitScanProofs.
Local Open Scope N_scope.

(* ---------- fuel: any amount at least the length of the input gives the same result ---------- *)
Lemma skipn_length_le (n : nat) (l : list N) : (length (skipn n l) <= length l - n)%nat.
Proof. rewrite skipn_length. lia. Qed.

Lemma cuc_fuel : forall f1 p f2, (length p <= f1)%nat -> (length p <= f2)%nat ->
  convert_universal_chars f1 p = convert_universal_chars f2 p.
Proof.
  induction f1 as [|f1 IH]; intros p f2 H1 H2.
  - destruct p as [|b p1]; [|cbn [length] in H1; lia]. destruct f2; reflexivity.
  - destruct p as [|b p1]; [destruct f2; reflexivity|].
    destruct f2 as [|f2]; [cbn [length] in H2; lia|].
    cbn [length] in H1, H2.
    assert (L6 : (length (skipn 6 (b :: p1)) <= length p1)%nat) by (pose proof (skipn_length_le 6 (b :: p1)); cbn [length] in *; lia).
    assert (L10 : (length (skipn 10 (b :: p1)) <= length p1)%nat) by (pose proof (skipn_length_le 10 (b :: p1)); cbn [length] in *; lia).
    cbn [convert_universal_chars].
    rewrite (IH (skipn 6 (b :: p1)) f2) by lia.
    rewrite (IH (skipn 10 (b :: p1)) f2) by lia.
    rewrite (IH p1 f2) by lia.
    destruct p1 as [|b2 p2]; [reflexivity|].
    rewrite (IH p2 f2) by (cbn [length] in *; lia). reflexivity.
Qed.

Definition cuc (p : list N) : res (list N) := convert_universal_chars (length p) p.

Lemma cuc_unfold f b p1 :
  convert_universal_chars (S f) (b :: p1) =
    let p := b :: p1 in
    if startswith p [92;117] then
      let c := read_universal_char (skipn 2 p) 4 0 in
      if negb (c =? 0) then res_map (app (encode_utf8 c)) (convert_universal_chars f (skipn 6 p))
      else res_map (cons b) (convert_universal_chars f p1)
    else if startswith p [92;85] then
      let c := read_universal_char (skipn 2 p) 8 0 in
      if negb (c =? 0) then res_map (app (encode_utf8 c)) (convert_universal_chars f (skipn 10 p))
      else res_map (cons b) (convert_universal_chars f p1)
    else if b =? 92 then
      match p1 with
      | [] => PastEnd
      | b2 :: p2 => res_map (fun r => b :: b2 :: r) (convert_universal_chars f p2)
      end
    else res_map (cons b) (convert_universal_chars f p1).
Proof. reflexivity. Qed.

(* ---------- single steps ---------- *)
Lemma cuc_plain b more : (b =? 92) = false -> cuc (b :: more) = res_map (cons b) (cuc more).
Proof.
  intros Hb. unfold cuc. cbn [length]. rewrite cuc_unfold. cbv zeta. cbn [startswith]. rewrite Hb. reflexivity.
Qed.

Lemma res_map_app_cons {A} (b : A) (bs : list A) r : res_map (cons b) (res_map (app bs) r) = res_map (app (b :: bs)) r.
Proof. destruct r; reflexivity. Qed.
Lemma res_map_app_nil {A} (r : res (list A)) : res_map (app []) r = r.
Proof. destruct r; reflexivity. Qed.
Lemma res_map_app_app {A} (a b : list A) r : res_map (app a) (res_map (app b) r) = res_map (app (a ++ b)) r.
Proof. destruct r; cbn [res_map]; try reflexivity. rewrite app_assoc. reflexivity. Qed.

Lemma cuc_plain_bytes q bs : forall more, forallb (plain_byte q) bs = true ->
  cuc (bs ++ more) = res_map (app bs) (cuc more).
Proof.
  induction bs as [|b bs IH]; intros more H.
  - cbn [app]. rewrite res_map_app_nil. reflexivity.
  - cbn [forallb] in H. apply andb_prop in H. destruct H as [Hb Hbs].
    cbn [app]. rewrite cuc_plain by (unfold plain_byte in Hb; lia).
    rewrite IH by exact Hbs. apply res_map_app_cons.
Qed.

(* the pair rule: a backslash and the character behind it are copied together, whatever
   follows - so the u of \\u is never taken for a universal character name *)
Lemma cuc_pair x more : x <> 117 -> x <> 85 ->
  cuc (92 :: x :: more) = res_map (fun r => 92 :: x :: r) (cuc more).
Proof.
  intros H1 H2. unfold cuc. cbn [length]. rewrite cuc_unfold. cbv zeta. cbn [startswith].
  replace (x =? 117) with false by lia. replace (x =? 85) with false by lia.
  change (92 =? 92) with true. cbn [andb].
  rewrite (cuc_fuel (S (length more)) more (length more)) by lia. reflexivity.
Qed.

(* ---------- read_universal_char on hexadecimal digits ---------- *)
Lemma ruc_spec ds : forall acc more, forallb (is_digit_of 16) ds = true -> acc < two32 ->
  read_universal_char (ds ++ more) (length ds) acc = fold_left hstep ds acc mod two32.
Proof.
  induction ds as [|d ds IH]; intros acc more Hds Hacc.
  - cbn [length read_universal_char fold_left]. rewrite N.mod_small by exact Hacc. reflexivity.
  - cbn [forallb] in Hds. apply andb_prop in Hds. destruct Hds as [Hd Hds].
    destruct (hexdig_facts d Hd) as [Hv [Hlt _]].
    cbn [length app read_universal_char peek tl fold_left]. rewrite <- hexdig_isxdigit, Hd.
    rewrite IH; [|exact Hds|unfold u32, two32; lia].
    apply fold_hstep_mod. unfold hstep, u32, two32.
    rewrite lor_shiftl_add by (rewrite <- Hv; change (2 ^ 4) with 16; exact Hlt).
    rewrite <- Hv. change (2 ^ 4) with 16. rewrite N.mod_mod by lia. reflexivity.
Qed.

Lemma valid_ucn_facts c : valid_ucn_value c = true ->
  c < 1114112 /\ c <> 0 /\ (forall q, q = 34 \/ q = 39 -> valid_item q (IChr c) = true).
Proof.
  unfold valid_ucn_value. intros H. apply andb_prop in H. destruct H as [Hs Hr].
  pose proof (is_scalar_bound c Hs) as Hb. repeat split; [exact Hb|lia|].
  intros q Hq. cbn [valid_item]. rewrite Hs. destruct Hq as [-> | ->]; lia.
Qed.

Lemma skipn_app_len (a b : list N) n : n = length a -> skipn n (a ++ b) = b.
Proof. intros ->. induction a as [|x a IH]; [reflexivity|exact IH]. Qed.

Lemma sw2 a b t a' b' : startswith (a :: b :: t) [a'; b'] = (a =? a') && (b =? b').
Proof. cbn [startswith]. destruct t; rewrite andb_true_r; reflexivity. Qed.

Lemma cuc_ucn (big : bool) ds more :
  (length ds = if big then 8 else 4)%nat -> forallb (is_digit_of 16) ds = true ->
  valid_ucn_value (ucn_value ds) = true ->
  cuc (92 :: (if big then 85 else 117) :: ds ++ more) = res_map (app (rfc3629 (ucn_value ds))) (cuc more).
Proof.
  intros Hlen Hds Hv. destruct (valid_ucn_facts _ Hv) as [Hb [Hnz _]].
  assert (Hr : forall n, n = length ds -> read_universal_char (ds ++ more) n 0 = ucn_value ds).
  { intros n ->. rewrite ruc_spec; [|exact Hds|unfold two32; lia].
    unfold ucn_value. rewrite digits_value_16. apply N.mod_small.
    unfold ucn_value in Hb. rewrite digits_value_16 in Hb. unfold two32. lia. }
  unfold cuc. destruct big.
  - cbn [length]. rewrite cuc_unfold. cbv zeta. rewrite !sw2.
    change (skipn 2 (92 :: 85 :: ds ++ more)) with (ds ++ more).
    change (skipn 10 (92 :: 85 :: ds ++ more)) with (skipn 8 (ds ++ more)).
    change ((92 =? 92) && (85 =? 117)) with false. cbn iota.
    change ((92 =? 92) && (85 =? 85)) with true. cbn iota.
    rewrite (Hr 8%nat) by (symmetry; exact Hlen).
    replace (ucn_value ds =? 0) with false by lia. cbn [negb].
    replace (skipn 8 (ds ++ more)) with more by (symmetry; apply skipn_app_len; symmetry; exact Hlen).
    rewrite encode_is_rfc3629 by lia.
    rewrite (cuc_fuel (S (length (ds ++ more))) more (length more)); [reflexivity|rewrite app_length; lia|lia].
  - cbn [length]. rewrite cuc_unfold. cbv zeta. rewrite !sw2.
    change (skipn 2 (92 :: 117 :: ds ++ more)) with (ds ++ more).
    change (skipn 6 (92 :: 117 :: ds ++ more)) with (skipn 4 (ds ++ more)).
    change ((92 =? 92) && (117 =? 117)) with true. cbn iota.
    rewrite (Hr 4%nat) by (symmetry; exact Hlen).
    replace (ucn_value ds =? 0) with false by lia. cbn [negb].
    replace (skipn 4 (ds ++ more)) with more by (symmetry; apply skipn_app_len; symmetry; exact Hlen).
    rewrite encode_is_rfc3629 by lia.
    rewrite (cuc_fuel (S (length (ds ++ more))) more (length more)); [reflexivity|rewrite app_length; lia|lia].
Qed.

(* ---------- one source element, then a whole body ---------- *)
Lemma escape_shape2 e : valid_escape e = true ->
  exists x ds, spell_escape_body e = x :: ds /\ forallb (is_digit_of 16) ds = true /\ x <> 117 /\ x <> 85.
Proof.
  intros Hv. destruct e as [s| |ds|ds]; cbn [spell_escape_body valid_escape] in *.
  - exists (simple_char s), []. repeat split; destruct s; discriminate.
  - exists 101, []. repeat split; discriminate.
  - apply andb_prop in Hv. destruct Hv as [Hl Hds]. destruct ds as [|d ds]; [discriminate|].
    exists d, ds. pose proof (octal_is_hex _ Hds) as Hh. cbn [forallb] in Hh, Hds.
    apply andb_prop in Hh. destruct Hh as [_ Hh]. apply andb_prop in Hds. destruct Hds as [Hd _].
    destruct (octdig_facts d Hd) as [_ [Ho _]]. unfold is_octal in Ho.
    repeat split; [exact Hh|lia|lia].
  - apply andb_prop in Hv. destruct Hv as [Hl Hds]. exists 120, ds. repeat split; [exact Hds|discriminate|discriminate].
Qed.

Lemma cuc_sitem q it more : (q = 34 \/ q = 39) -> valid_sitem q it = true ->
  cuc (spell_sitem it ++ more) = res_map (app (spell_item (resolve_sitem it))) (cuc more).
Proof.
  intros Hq Hv. destruct it as [c|e|big ds]; cbn [spell_sitem resolve_sitem spell_item valid_sitem] in *.
  - apply (cuc_plain_bytes q). apply valid_chr_bytes; assumption.
  - destruct (escape_shape2 e Hv) as [x [ds [Hsp [Hds [Hx1 Hx2]]]]].
    unfold spell_escape. rewrite Hsp. cbn [app]. rewrite cuc_pair by assumption.
    rewrite (cuc_plain_bytes q) by (apply digits_plain; assumption).
    destruct (cuc more); reflexivity.
  - apply andb_prop in Hv. destruct Hv as [Hv Hval]. apply andb_prop in Hv. destruct Hv as [Hlen Hds].
    cbn [app]. apply cuc_ucn; [|exact Hds|exact Hval].
    destruct big; apply Nat.eqb_eq in Hlen; exact Hlen.
Qed.

Lemma spell_sitems_cons it l : spell_sitems (it :: l) = spell_sitem it ++ spell_sitems l.
Proof. reflexivity. Qed.

Theorem cuc_sitems q l more : (q = 34 \/ q = 39) -> forallb (valid_sitem q) l = true ->
  cuc (spell_sitems l ++ more) = res_map (app (spell_items (map resolve_sitem l))) (cuc more).
Proof.
  intros Hq. induction l as [|it l IH]; intros Hv.
  - cbn [spell_sitems spell_items map concat app]. rewrite res_map_app_nil. reflexivity.
  - cbn [forallb] in Hv. apply andb_prop in Hv. destruct Hv as [Hit Hl].
    rewrite spell_sitems_cons, <- app_assoc, (cuc_sitem q) by assumption.
    rewrite IH by exact Hl. rewrite res_map_app_app. reflexivity.
Qed.

(* each universal character name of a valid body names a valid source character *)
Lemma resolve_valid q it : (q = 34 \/ q = 39) -> valid_sitem q it = true -> valid_item q (resolve_sitem it) = true.
Proof.
  intros Hq Hv. destruct it as [c|e|big ds]; cbn [valid_sitem resolve_sitem] in *; try exact Hv.
  apply andb_prop in Hv. destruct Hv as [_ Hval]. destruct (valid_ucn_facts _ Hval) as [_ [_ H]]. apply H. exact Hq.
Qed.

Lemma resolve_all_valid q l : (q = 34 \/ q = 39) -> forallb (valid_sitem q) l = true ->
  forallb (valid_item q) (map resolve_sitem l) = true.
Proof.
  intros Hq H. rewrite forallb_forall in *. intros it Hin. apply in_map_iff in Hin.
  destruct Hin as [s [<- Hs]]. apply resolve_valid; [exact Hq|]. apply H. exact Hs.
Qed.

(* ---------- phase 1 followed by the scanners ---------- *)
(* a string literal written with universal character names, anywhere in a buffer whose remainder
   converts to rest': after convert_universal_chars the scanner finds the array of the body in
   which every \u / \U is the character it names *)
Theorem ucn_string_literal p l rest rest' :
  forallb (valid_sitem 34) l = true -> munch_ok 34 (map resolve_sitem l) = true ->
  cuc rest = Ok rest' ->
  exists buf, cuc (spell_sitems l ++ 34 :: rest) = Ok buf /\
    string_token (model_sprefix p) buf =
      Ok (model_elem_ty (string_elem_ty p), stored_units p (map resolve_sitem l), rest').
Proof.
  intros Hv Hm Hrest.
  exists (spell_items (map resolve_sitem l) ++ 34 :: rest'). split.
  - rewrite (cuc_sitems 34) by (auto). rewrite cuc_plain by reflexivity. rewrite Hrest. reflexivity.
  - apply string_token_stored. unfold valid_items. rewrite Hm, andb_true_r.
    apply resolve_all_valid; [left; reflexivity|exact Hv].
Qed.

Theorem ucn_char_constant p it rest rest' v :
  valid_sitem 39 it = true -> spec_char_value p (resolve_sitem it) = Some v -> cuc rest = Ok rest' ->
  exists buf val, cuc (spell_sitem it ++ 39 :: rest) = Ok buf /\
    char_token (model_cprefix p) buf = Ok (val, model_char_ty (char_const_ty p), rest') /\
    num_value (model_char_ty (char_const_ty p)) val = v.
Proof.
  intros Hv Hs Hrest.
  pose proof (resolve_valid 39 it (or_intror eq_refl) Hv) as Hv'.
  destruct (char_token_spec p (resolve_sitem it) rest' v Hv' Hs) as [val [H1 H2]].
  exists (spell_item (resolve_sitem it) ++ 39 :: rest'), val. split; [|split; assumption].
  rewrite (cuc_sitem 39) by (auto). rewrite cuc_plain by reflexivity. rewrite Hrest. reflexivity.
Qed.

(* the C code treats \u0000 (and \U00000000) as "not a universal character name": value 0 is its
   failure marker; the six characters stay (6.4.3 forbids the name anyway) *)
Theorem cuc_ucn_zero more :
  cuc (92 :: 117 :: 48 :: 48 :: 48 :: 48 :: more) = res_map (app [92; 117; 48; 48; 48; 48]) (cuc more).
Proof.
  unfold cuc. cbn [length]. rewrite cuc_unfold. cbv zeta. rewrite !sw2.
  change ((92 =? 92) && (117 =? 117)) with true. cbn iota.
  change (skipn 2 (92 :: 117 :: 48 :: 48 :: 48 :: 48 :: more)) with (48 :: 48 :: 48 :: 48 :: more).
  change (read_universal_char (48 :: 48 :: 48 :: 48 :: more) 4 0) with 0.
  change (negb (0 =? 0)) with false. cbn iota.
  rewrite (cuc_fuel (S (S (S (S (S (length more)))))) (117 :: 48 :: 48 :: 48 :: 48 :: more) (length (117 :: 48 :: 48 :: 48 :: 48 :: more)))
    by (cbn [length]; lia).
  fold (cuc (117 :: 48 :: 48 :: 48 :: 48 :: more)).
  change (117 :: 48 :: 48 :: 48 :: 48 :: more) with ([117; 48; 48; 48; 48] ++ more).
  rewrite (cuc_plain_bytes 34 [117; 48; 48; 48; 48]) by reflexivity.
  fold (cuc more). destruct (cuc more); reflexivity.
Qed.
