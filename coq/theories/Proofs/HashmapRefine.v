(* rehash, put, and the refinement theorem for arbitrary histories *)
From Coq Require Import List NArith Bool Lia Arith.
From Chibicc Require Import Model.Hashmap Proofs.HashmapWalk Proofs.HashmapInv.
Import ListNotations.
Local Open Scope N_scope.

Section Refine.
Variable K V : Type.
Variable keqb : K -> K -> bool.
Hypothesis keqb_eq : forall a b, keqb a b = true <-> a = b.
Variable hash : K -> N.
Variable P : hm_params.
Hypothesis Pok : params_ok P.

Notation slot := (slot K V).
Notation hmap := (hmap K V).
Notation probe := (probe K V keqb hash).
Notation WInv := (WInv K V keqb hash).
Notation absf := (absf K V keqb hash).
Notation upd := (upd K V keqb).
Notation Inv := (Inv K V keqb hash P).
Notation capacity_ok := (capacity_ok K V P).
Notation notomb := (notomb K V).
Notation cnt := (cnt K V).

Definition dict := K -> option V.

Definition foldupd (l : list (K * V)) (d : dict) : dict :=
  fold_left (fun d kv => upd d (fst kv) (Some (snd kv))) l d.

Lemma upd_ext d d' k o : (forall x, d x = d' x) -> forall x, upd d k o x = upd d' k o x.
Proof. intros H x; unfold HashmapWalk.upd. destruct (keqb x k); auto. Qed.

Lemma foldupd_ext l : forall d d', (forall x, d x = d' x) -> forall x, foldupd l d x = foldupd l d' x.
Proof.
  induction l as [|[k v] l IH]; intros d d' H x; simpl; auto.
  apply IH. apply upd_ext; auto.
Qed.

Lemma foldupd_notin l : forall d x, ~ In x (map fst l) -> foldupd l d x = d x.
Proof.
  induction l as [|[k v] l IH]; intros d x H; simpl in *; auto.
  unfold foldupd in IH. rewrite IH by tauto. unfold HashmapWalk.upd.
  destruct (keqb x k) eqn:E; auto. apply keqb_eq in E. subst. tauto.
Qed.

Lemma foldupd_in l : forall d x v, NoDup (map fst l) -> In (x, v) l -> foldupd l d x = Some v.
Proof.
  induction l as [|[k v0] l IH]; intros d x v Hnd Hin; simpl in *; try tauto.
  inversion Hnd as [|? ? Hni Hnd']; subst.
  destruct Hin as [Heq|Hin].
  - inversion Heq; subst. fold (foldupd l (upd d x (Some v))).
    rewrite foldupd_notin by auto. unfold HashmapWalk.upd. rewrite keqb_refl; auto.
  - apply IH; auto.
Qed.

(* ---------- the list of live entries ---------- *)
Lemma live_in (bs : list slot) k v :
  In (k, v) (live K V bs) <-> exists j, (j < length bs)%nat /\ nth j bs Empty = Full k v.
Proof.
  unfold live. rewrite in_flat_map. split.
  - intros [s [Hs Hin]]. destruct s as [| |k' v']; simpl in Hin; try tauto.
    destruct Hin as [Heq|[]]. inversion Heq; subst.
    destruct (In_nth _ _ Empty Hs) as [j [Hj E]]. eauto.
  - intros [j [Hj E]]. exists (Full k v). split; [|simpl; auto]. rewrite <- E. apply nth_In; auto.
Qed.

Lemma live_nodup (bs : list slot) :
  (forall j j' k v v', (j < length bs)%nat -> (j' < length bs)%nat ->
     nth j bs Empty = Full k v -> nth j' bs Empty = Full k v' -> j = j') ->
  NoDup (map fst (live K V bs)).
Proof.
  induction bs as [|s r IH]; intros H; simpl; [constructor|].
  assert (Hr : NoDup (map fst (live K V r))).
  { apply IH. intros j j' k v v' Hj Hj' E E'.
    assert (S j = S j') by (eapply (H (S j) (S j')); simpl; eauto; lia). lia. }
  destruct s as [| |k v]; simpl; auto.
  constructor; auto. intros Hin. apply in_map_iff in Hin as [[k' v'] [Hk Hin]]. simpl in Hk; subst k'.
  apply live_in in Hin as [j' [Hj' E']].
  assert (0%nat = S j') by (eapply (H 0%nat (S j')); simpl; eauto; lia). lia.
Qed.

Lemma live_length_le (bs : list slot) : (length (live K V bs) <= cnt bs)%nat.
Proof.
  unfold HashmapInv.cnt. induction bs as [|s r IH]; simpl; auto.
  destruct s; simpl; lia.
Qed.

Lemma foldupd_live bs : WInv bs -> forall x, foldupd (live K V bs) (fun _ => None) x = absf bs x.
Proof.
  intros HW x.
  assert (Hnd : NoDup (map fst (live K V bs))).
  { apply live_nodup. intros j j' k v v' Hj Hj' E E'.
    destruct (iw_unique K V keqb hash bs k j j' v v' (HW k) Hj Hj' E E'); auto. }
  destruct (absf bs x) as [v|] eqn:E.
  - apply absf_some in E; auto. apply live_in in E. apply foldupd_in; auto.
  - rewrite foldupd_notin; auto. intros Hin. apply in_map_iff in Hin as [[k' v'] [Hk Hin]].
    simpl in Hk; subst k'. apply live_in in Hin.
    assert (absf bs x = Some v') by (apply absf_some; auto). congruence.
Qed.

Lemma absf_repeat_empty n x : absf (repeat Empty n) x = None.
Proof.
  destruct (absf (repeat Empty n) x) as [v|] eqn:E; auto.
  apply absf_some in E as [j [_ Ej]]; auto using winv_empty.
  rewrite nth_repeat_empty in Ej. discriminate.
Qed.

Lemma inv_capacity_ok m : Inv m -> buckets m <> [] -> capacity_ok m.
Proof. intros [_ _ [H|H]] Hne; auto; congruence. Qed.

(* ---------- re-inserting the live entries into the fresh array ---------- *)
Notation refill := (fold_left (fun acc kv => bind acc (fun m2 => put_fresh K V keqb hash P m2 kv))).

Lemma refill_ok : forall lv m2,
  Inv m2 -> capacity_ok m2 -> notomb (buckets m2) ->
  NoDup (map fst lv) -> (forall k, In k (map fst lv) -> absf (buckets m2) k = None) ->
  (used m2 + N.of_nat (length lv)) * 100 < low_wm P * capacity m2 ->
  (used m2 + N.of_nat (length lv)) * 100 < 1073741824 ->
  exists m3, refill lv (Ok m2) = Ok m3 /\
    Inv m3 /\ capacity_ok m3 /\ used m3 = used m2 + N.of_nat (length lv) /\
    length (buckets m3) = length (buckets m2) /\
    (forall x, absf (buckets m3) x = foldupd lv (absf (buckets m2)) x).
Proof.
  destruct Pok as [_ [_ [Hlow [Hlh [Hh Hroom]]]]].
  induction lv as [|[k v] lv IH]; intros m2 HI Hs Hnt Hnd Habs Hload Hbound.
  - exists m2. simpl in *. repeat apply conj; auto. lia.
  - simpl length in *. rewrite Nat2N.inj_succ in *.
    inversion Hnd as [|? ? Hni Hnd']; subst.
    pose proof Hs as [a [E1 [E2 [E3 E4]]]].
    assert (Hc : capacity m2 <> 0) by lia.
    assert (G1 : (int_max1 <=? used m2 * 100) = false) by (apply N.leb_gt; unfold int_max1; lia).
    assert (G2 : (high_wm P <=? used m2 * 100 / capacity m2) = false).
    { apply N.leb_gt. apply N.div_lt_upper_bound; auto. nia. }
    assert (Hpf : put_fresh K V keqb hash P m2 (k, v) = insert_nr K V keqb hash m2 k v).
    { unfold put_fresh. rewrite G1, G2. reflexivity. }
    destruct (insert_ok K V keqb keqb_eq hash P m2 k v HI Hs) as [m' [Hins [HI' [Hupd [Hu [Hlen Hnew]]]]]].
    { nia. }
    cbn [fold_left bind]. rewrite Hpf, Hins.
    destruct Hnew as [Hu1 Hnt']; auto. { apply Habs; simpl; auto. }
    assert (Hne' : buckets m' <> []).
    { intro E0. rewrite E0 in Hlen. unfold capacity in *. simpl in Hlen. lia. }
    assert (Hcap' : capacity m' = capacity m2) by (unfold capacity; congruence).
    destruct (IH m') as [m3 [Hre [HI3 [Hs3 [Hu3 [Hl3 Hab3]]]]]]; auto.
    + apply inv_capacity_ok; auto.
    + intros k' Hk'. rewrite Hupd. unfold HashmapWalk.upd.
      destruct (keqb k' k) eqn:Ek.
      * apply keqb_eq in Ek; subst. tauto.
      * apply Habs; simpl; auto.
    + rewrite Hu1, Hcap'. lia.
    + rewrite Hu1. lia.
    + exists m3. repeat apply conj; auto; try lia; try congruence.
      intros x. rewrite Hab3. simpl. apply foldupd_ext. auto.
Qed.

Lemma rehash_ok m :
  Inv m -> capacity_ok m -> used m * 100 < 1073741824 ->
  exists m2, rehash K V keqb hash P m = Ok m2 /\ Inv m2 /\ capacity_ok m2 /\
    (forall x, absf (buckets m2) x = absf (buckets m) x) /\
    used m2 <= used m /\ used m2 * 100 < low_wm P * capacity m2.
Proof.
  intros HI Hs Hbound. pose proof HI as [HW Hcnt _].
  pose proof Hs as [a [E1 [E2 [E3 E4]]]].
  pose proof Pok as [[a0 Ea0] [Hi [Hlow [Hlh [Hh Hroom]]]]].
  unfold rehash.
  set (lv := live K V (buckets m)).
  set (nkeys := N.of_nat (length lv)).
  assert (Hnk : nkeys <= used m).
  { unfold nkeys, lv. rewrite Hcnt. pose proof (live_length_le (buckets m)). lia. }
  assert (G1 : (int_max1 <=? nkeys * 100) = false) by (apply N.leb_gt; unfold int_max1; lia).
  rewrite G1.
  assert (Hcap1 : 1 <= capacity m) by nia.
  assert (Hnb : nkeys * 100 < 1073741824) by lia.
  destruct (grow_ok P Pok nkeys Hnb 63%nat (capacity m)) as [c [i [G [Ec [Hl [Hci _]]]]]]; try lia.
  change (S 63) with 64%nat in G. rewrite G. cbn [bind].
  set (m0 := {| buckets := repeat (@Empty K V) (N.to_nat c); used := 0 |}).
  assert (Hcap0 : capacity m0 = c).
  { unfold capacity, m0; simpl. rewrite repeat_length. apply N2Nat.id. }
  assert (Hc1 : capacity m <= c).
  { rewrite Ec. assert (1 <= 2 ^ i) by (pose proof (N.pow_nonzero 2 i); lia). nia. }
  assert (HI0 : Inv m0).
  { constructor; simpl.
    - apply winv_empty.
    - rewrite cnt_repeat. reflexivity.
    - right. exists (a + i). rewrite Hcap0. simpl. repeat apply conj; try lia.
      rewrite Ec, E1, N.pow_add_r. reflexivity. }
  assert (Hs0 : capacity_ok m0) by (apply inv_capacity_ok; auto; unfold m0; simpl;
    destruct (N.to_nat c) eqn:E; [lia|discriminate]).
  destruct (refill_ok lv m0) as [m3 [Hre [HI3 [Hs3 [Hu3 [Hl3 Hab3]]]]]]; auto.
  - intros q. simpl. rewrite nth_repeat_empty. discriminate.
  - apply live_nodup. intros j j' k v v' Hj Hj' E E'.
    destruct (iw_unique K V keqb hash (buckets m) k j j' v v' (HW k) Hj Hj' E E'); auto.
  - intros k _. simpl. apply absf_repeat_empty.
  - rewrite Hcap0. unfold m0; cbn [used]. fold nkeys. lia.
  - rewrite Hre. cbn [bind]. unfold m0 in Hu3; cbn [used] in Hu3. fold nkeys in Hu3.
    replace (used m3 =? nkeys) with true by (symmetry; apply N.eqb_eq; lia).
    exists m3. repeat apply conj; auto; try lia.
    + intros x. rewrite Hab3. simpl.
      rewrite (foldupd_ext lv _ (fun _ => None)) by (intros; apply absf_repeat_empty).
      apply foldupd_live; auto.
    + assert (capacity m3 = c) by (unfold capacity in *; congruence). rewrite H. lia.
Qed.

Lemma put_ok m k v :
  Inv m -> (used m + 1) * 100 < 1073741824 ->
  exists m', hm_put K V keqb hash P m k v = Ok m' /\ Inv m' /\
    (forall x, absf (buckets m') x = upd (absf (buckets m)) k (Some v) x) /\
    used m' <= used m + 1.
Proof.
  intros HI Hbound. pose proof HI as [HW Hcnt Hshape].
  pose proof Pok as [[a0 Ea0] [Hi [Hlow [Hlh [Hh Hroom]]]]].
  unfold hm_put.
  assert (Hstep : forall m1, Inv m1 -> capacity_ok m1 -> used m1 <= used m ->
            used m1 * 100 < high_wm P * capacity m1 ->
            (forall x, absf (buckets m1) x = absf (buckets m) x) ->
            exists m', insert_nr K V keqb hash m1 k v = Ok m' /\ Inv m' /\
              (forall x, absf (buckets m') x = upd (absf (buckets m)) k (Some v) x) /\
              used m' <= used m + 1).
  { intros m1 HI1 Hs1 Hu1 Hload Hab.
    pose proof Hs1 as [a [E1 [E2 [E3 E4]]]].
    destruct (insert_ok K V keqb keqb_eq hash P m1 k v HI1 Hs1) as [m' [Hins [HI' [Hupd [Hu [Hlen _]]]]]].
    { nia. }
    exists m'. repeat apply conj; auto; try lia.
    intros x. rewrite Hupd. apply upd_ext; auto. }
  destruct (buckets m) as [|s bs'] eqn:Eb.
  - cbn [bind].
    assert (Hu0 : used m = 0) by (rewrite Hcnt; try rewrite Eb; reflexivity).
    set (m1 := {| buckets := repeat (@Empty K V) (N.to_nat (init_size P)); used := used m |}).
    assert (Hcap1 : capacity m1 = init_size P).
    { unfold capacity, m1; simpl. rewrite repeat_length. apply N2Nat.id. }
    assert (HI1 : Inv m1).
    { constructor; simpl.
      - apply winv_empty.
      - rewrite cnt_repeat. auto.
      - right. exists a0. rewrite Hcap1. simpl. repeat apply conj; auto; nia. }
    destruct (Hstep m1) as [m' Hm']; auto.
    + apply inv_capacity_ok; auto. unfold m1; simpl.
      destruct (N.to_nat (init_size P)) eqn:E; [nia|discriminate].
    + simpl; lia.
    + rewrite Hcap1. simpl. nia.
    + intros x. simpl. apply absf_repeat_empty.
    + exists m'. exact Hm'.
  - rewrite <- Eb in *.
    assert (Hne : buckets m <> []) by congruence.
    assert (Hs : capacity_ok m) by (apply inv_capacity_ok; auto).
    pose proof Hs as [a [E1 [E2 [E3 E4]]]].
    assert (Hc : capacity m <> 0) by lia.
    assert (G1 : (int_max1 <=? used m * 100) = false) by (apply N.leb_gt; unfold int_max1; lia).
    rewrite G1.
    destruct (high_wm P <=? used m * 100 / capacity m) eqn:G2.
    + destruct (rehash_ok m) as [m2 [Hre [HI2 [Hs2 [Hab2 [Hu2 Hl2]]]]]]; auto; try lia.
      rewrite Hre. cbn [bind]. apply Hstep; auto.
      pose proof Hs2 as [a2 [F1 [F2 [F3 F4]]]]. nia.
    + cbn [bind]. apply Hstep; auto; try lia.
      apply leb_div_false in G2; auto.
Qed.

(* ---------- histories ---------- *)
Notation op := (op K V).

Definition spec_step (d : dict) (o : op) : dict * option V :=
  match o with
  | Put k v => (upd d k (Some v), None)
  | Get k => (d, d k)
  | Del k => (upd d k None, None)
  end.

Fixpoint spec_run (d : dict) (ops : list op) : list (option V) :=
  match ops with
  | [] => []
  | o :: r => snd (spec_step d o) :: spec_run (fst (spec_step d o)) r
  end.

Fixpoint spec_final (d : dict) (ops : list op) : dict :=
  match ops with
  | [] => d
  | o :: r => spec_final (fst (spec_step d o)) r
  end.

Lemma spec_run_ext ops : forall d d', (forall x, d x = d' x) -> spec_run d ops = spec_run d' ops.
Proof.
  induction ops as [|o r IH]; intros d d' H; simpl; auto.
  destruct o as [k v|k|k]; simpl.
  - f_equal. apply IH. apply upd_ext; auto.
  - rewrite H. f_equal. apply IH; auto.
  - f_equal. apply IH. apply upd_ext; auto.
Qed.

Lemma spec_final_ext ops : forall d d', (forall x, d x = d' x) -> forall x, spec_final d ops x = spec_final d' ops x.
Proof.
  induction ops as [|o r IH]; intros d d' H x; simpl; auto.
  destruct o as [k v|k|k]; simpl; apply IH; auto; apply upd_ext; auto.
Qed.

Theorem run_refines : forall ops m,
  Inv m -> (used m + N.of_nat (length ops)) * 100 < 1073741824 ->
  exists m' outs, run K V keqb hash P m ops = Ok (m', outs) /\
    outs = spec_run (absf (buckets m)) ops /\
    (forall x, absf (buckets m') x = spec_final (absf (buckets m)) ops x) /\ Inv m'.
Proof.
  induction ops as [|o r IH]; intros m HI Hb.
  - exists m, []. simpl. auto.
  - simpl length in Hb. rewrite Nat2N.inj_succ in Hb.
    cbn [run]. destruct o as [k v|k|k]; cbn [step].
    + destruct (put_ok m k v HI) as [m1 [Hp [HI1 [Hab1 Hu1]]]]; try lia.
      rewrite Hp. cbn [bind fst snd].
      destruct (IH m1 HI1) as [m' [outs [Hr [Ho [Hf HI']]]]]; try lia.
      rewrite Hr. cbn [bind fst snd]. exists m', (None :: outs). repeat apply conj; auto.
      * simpl. f_equal. rewrite Ho. apply spec_run_ext; auto.
      * intros x. rewrite Hf. simpl. apply spec_final_ext; auto.
    + rewrite (get_ok K V keqb hash P m k HI). cbn [bind fst snd].
      destruct (IH m HI) as [m' [outs [Hr [Ho [Hf HI']]]]]; try lia.
      rewrite Hr. cbn [bind fst snd]. exists m', (absf (buckets m) k :: outs). repeat apply conj; auto.
      simpl. f_equal. auto.
    + destruct (delete_ok K V keqb keqb_eq hash P m k HI) as [m1 [Hp [HI1 [Hab1 [Hu1 _]]]]].
      rewrite Hp. cbn [bind fst snd].
      destruct (IH m1 HI1) as [m' [outs [Hr [Ho [Hf HI']]]]]; try lia.
      rewrite Hr. cbn [bind fst snd]. exists m', (None :: outs). repeat apply conj; auto.
      * simpl. f_equal. rewrite Ho. apply spec_run_ext; auto.
      * intros x. rewrite Hf. simpl. apply spec_final_ext; auto.
Qed.

(* last-write-wins, stated per name *)
Definition lastw (k : K) (acc : option V) (o : op) : option V :=
  match o with
  | Put k' v => if keqb k k' then Some v else acc
  | Del k' => if keqb k k' then None else acc
  | Get _ => acc
  end.

Lemma spec_final_lastw ops : forall d k, spec_final d ops k = fold_left (lastw k) ops (d k).
Proof.
  induction ops as [|o r IH]; intros d k; simpl; auto.
  rewrite IH. destruct o as [k' v|k'|k']; simpl; unfold HashmapWalk.upd; auto.
Qed.

End Refine.
