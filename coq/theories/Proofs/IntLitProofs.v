From Chibicc Require Import Base.Mach Model.IntLit Spec.IntLitSpec.
Local Open Scope Z_scope.

Lemma shr_nz z n : 0 <= n -> nz (Z.shiftr z n) = negb ((0 <=? z) && (z <? 2 ^ n)).
Proof.
  intros Hn. unfold nz. rewrite Z.shiftr_div_pow2 by assumption.
  assert (0 < 2 ^ n) by (apply Z.pow_pos_nonneg; lia).
  destruct (z / 2 ^ n =? 0) eqn:E.
  - apply Z.eqb_eq in E. apply Z.div_small_iff in E; lia.
  - apply Z.eqb_neq in E. rewrite Z.div_small_iff in E by lia. lia.
Qed.

Theorem literal_type_is_c11 : forall decimal l u v t,
  (v < 18446744073709551616)%N ->
  c11_literal_type decimal l u v = Some t -> lit_type decimal l u v = t.
Proof.
  intros decimal l u v t Hv.
  unfold c11_literal_type, first_fit, lit_type.
  rewrite !shr_nz by lia. unfold sval.
  change (2 ^ 31) with 2147483648. change (2 ^ 32) with 4294967296. change (2 ^ 63) with 9223372036854775808.
  destruct decimal, l, u; cbn [candidates find fits andb];
    repeat match goal with |- context [(?a <? ?b)%N] => destruct (N.ltb_spec a b) end;
    intros E; inversion E; subst; clear E;
    repeat match goal with |- context [Z.ltb ?a ?b] => destruct (Z.ltb_spec a b) end;
    repeat match goal with |- context [Z.leb ?a ?b] => destruct (Z.leb_spec a b) end;
    cbn [andb negb]; try reflexivity; try lia.
Qed.

(* the spec's domain is exactly "some candidate fits"; outside it (decimal constants >= 2^63
   without u) C11 gives the constant no type *)
Lemma literal_type_defined decimal l u v :
  (v < 9223372036854775808)%N -> c11_literal_type decimal l u v <> None.
Proof.
  intros Hv. unfold c11_literal_type, first_fit.
  destruct decimal, l, u; cbn [candidates find fits];
    repeat match goal with |- context [(?a <? ?b)%N] => destruct (N.ltb_spec a b) end; try discriminate; lia.
Qed.
