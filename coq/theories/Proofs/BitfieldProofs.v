From Chibicc Require Import Base.Mach Model.Bitfield.
Local Open Scope Z_scope.

Lemma ones_bit n i : 0 <= n -> 0 <= i -> Z.testbit (Z.ones n) i = (i <? n).
Proof.
  intros Hn Hi. destruct (Z.ltb_spec i n).
  - apply Z.ones_spec_low. lia.
  - apply Z.ones_spec_high. lia.
Qed.

Lemma w64_bit x i : 0 <= i -> Z.testbit (w64 x) i = Z.testbit x i && (i <? 64).
Proof. intros Hi. unfold w64. rewrite Z.land_spec, ones_bit by lia. reflexivity. Qed.

Lemma m1_shift_bit i : 0 <= i -> Z.testbit (Z.shiftl (-1) 64) i = (64 <=? i).
Proof.
  intros Hi. rewrite Z.shiftl_spec by lia. destruct (Z.leb_spec 64 i).
  - apply Z.bits_m1. lia.
  - apply Z.testbit_neg_r. lia.
Qed.

Lemma sx64_bit x i : 0 <= i -> (forall j, 64 <= j -> Z.testbit x j = false) ->
  Z.testbit (sx64 x) i = if i <? 64 then Z.testbit x i else Z.testbit x 63.
Proof.
  intros Hi Hx. unfold sx64. destruct (Z.testbit x 63) eqn:E.
  - rewrite Z.lor_spec, m1_shift_bit by lia. destruct (Z.ltb_spec i 64).
    + replace (64 <=? i) with false by (symmetry; apply Z.leb_gt; lia). apply orb_false_r.
    + replace (64 <=? i) with true by (symmetry; apply Z.leb_le; lia). apply orb_true_r.
  - destruct (Z.ltb_spec i 64); [reflexivity|]. apply Hx. lia.
Qed.

(* ---------- what a load sees ---------- *)
Theorem load_u_bits u off w i : 0 <= off -> 0 < w -> off + w <= 64 -> 0 <= i ->
  Z.testbit (bf_load_u u off w) i = if i <? w then Z.testbit u (off + i) else false.
Proof.
  intros Ho Hw Hs Hi. unfold bf_load_u. rewrite Z.shiftr_spec, w64_bit, Z.shiftl_spec by lia.
  replace (i + (64 - w) - (64 - w - off)) with (off + i) by lia.
  destruct (Z.ltb_spec i w).
  - replace (i + (64 - w) <? 64) with true by (symmetry; apply Z.ltb_lt; lia). apply andb_true_r.
  - replace (i + (64 - w) <? 64) with false by (symmetry; apply Z.ltb_ge; lia). apply andb_false_r.
Qed.

Theorem load_s_bits u off w i : 0 <= off -> 0 < w -> off + w <= 64 -> 0 <= i ->
  Z.testbit (bf_load_s u off w) i = if i <? w then Z.testbit u (off + i) else Z.testbit u (off + w - 1).
Proof.
  intros Ho Hw Hs Hi. unfold bf_load_s. rewrite Z.shiftr_spec by lia.
  rewrite sx64_bit by (try lia; intros j Hj; rewrite w64_bit by lia; replace (j <? 64) with false by (symmetry; apply Z.ltb_ge; lia); apply andb_false_r).
  destruct (Z.ltb_spec i w).
  - replace (i + (64 - w) <? 64) with true by (symmetry; apply Z.ltb_lt; lia).
    rewrite w64_bit, Z.shiftl_spec by lia. replace (i + (64 - w) - (64 - w - off)) with (off + i) by lia.
    replace (i + (64 - w) <? 64) with true by (symmetry; apply Z.ltb_lt; lia). apply andb_true_r.
  - replace (i + (64 - w) <? 64) with false by (symmetry; apply Z.ltb_ge; lia).
    rewrite w64_bit, Z.shiftl_spec by lia. replace (63 - (64 - w - off)) with (off + w - 1) by lia. cbn. apply andb_true_r.
Qed.

(* ---------- what a store changes ---------- *)
Theorem store_bits u v off w i : 0 <= off -> 0 < w -> off + w <= 64 -> 0 <= i -> i < 64 ->
  Z.testbit (bf_store u v off w) i = if (off <=? i) && (i <? off + w) then Z.testbit v (i - off) else Z.testbit u i.
Proof.
  intros Ho Hw Hs Hi Hi64. unfold bf_store.
  rewrite w64_bit, Z.lor_spec, Z.land_spec, !w64_bit, Z.lnot_spec, !Z.shiftl_spec, Z.land_spec by lia.
  replace (i <? 64) with true by (symmetry; apply Z.ltb_lt; lia). rewrite !andb_true_r.
  destruct (Z.leb_spec off i); cbn [andb].
  - rewrite !ones_bit by lia. destruct (Z.ltb_spec i (off + w)).
    + replace (i - off <? w) with true by (symmetry; apply Z.ltb_lt; lia). cbn. rewrite andb_false_r, andb_true_r. reflexivity.
    + replace (i - off <? w) with false by (symmetry; apply Z.ltb_ge; lia). cbn. rewrite andb_true_r, andb_false_r, orb_false_r. reflexivity.
  - rewrite !(Z.testbit_neg_r _ (i - off)) by lia. cbn. rewrite andb_true_r, orb_false_r. reflexivity.
Qed.

Lemma store_high u v off w i : 64 <= i -> Z.testbit (bf_store u v off w) i = false.
Proof. intros Hi. unfold bf_store. rewrite w64_bit by lia. replace (i <? 64) with false by (symmetry; apply Z.ltb_ge; lia). apply andb_false_r. Qed.

(* a stored value is read back unchanged (reduced to the width of the field) *)
Theorem store_then_load_u u v off w : 0 <= off -> 0 < w -> off + w <= 64 -> bf_load_u (bf_store u v off w) off w = Z.land v (Z.ones w).
Proof.
  intros Ho Hw Hs. apply Z.bits_inj'. intros i Hi. rewrite load_u_bits, Z.land_spec, ones_bit by lia.
  destruct (Z.ltb_spec i w); [|rewrite andb_false_r; reflexivity].
  rewrite store_bits by lia. replace (off <=? off + i) with true by (symmetry; apply Z.leb_le; lia).
  replace (off + i <? off + w) with true by (symmetry; apply Z.ltb_lt; lia). cbn. replace (off + i - off) with i by lia. rewrite andb_true_r. reflexivity.
Qed.

Theorem store_then_load_s u v off w i : 0 <= off -> 0 < w -> off + w <= 64 -> 0 <= i ->
  Z.testbit (bf_load_s (bf_store u v off w) off w) i = Z.testbit v (if i <? w then i else w - 1).
Proof.
  intros Ho Hw Hs Hi. rewrite load_s_bits by lia. destruct (Z.ltb_spec i w).
  - rewrite store_bits by lia. replace (off <=? off + i) with true by (symmetry; apply Z.leb_le; lia).
    replace (off + i <? off + w) with true by (symmetry; apply Z.ltb_lt; lia). cbn. f_equal. lia.
  - rewrite store_bits by lia. replace (off <=? off + w - 1) with true by (symmetry; apply Z.leb_le; lia).
    replace (off + w - 1 <? off + w) with true by (symmetry; apply Z.ltb_lt; lia). cbn. f_equal. lia.
Qed.

(* no neighbouring bit-field in the same unit is disturbed *)
Theorem store_frame_u u v off w off2 w2 : 0 <= off -> 0 < w -> off + w <= 64 -> 0 <= off2 -> 0 < w2 -> off2 + w2 <= 64 ->
  off2 + w2 <= off \/ off + w <= off2 -> bf_load_u (bf_store u v off w) off2 w2 = bf_load_u u off2 w2.
Proof.
  intros. apply Z.bits_inj'. intros i Hi. rewrite !load_u_bits by lia. destruct (Z.ltb_spec i w2); [|reflexivity].
  rewrite store_bits by lia. destruct (Z.leb_spec off (off2 + i)); destruct (Z.ltb_spec (off2 + i) (off + w)); cbn; try reflexivity. lia.
Qed.
Theorem store_frame_s u v off w off2 w2 : 0 <= off -> 0 < w -> off + w <= 64 -> 0 <= off2 -> 0 < w2 -> off2 + w2 <= 64 ->
  off2 + w2 <= off \/ off + w <= off2 -> bf_load_s (bf_store u v off w) off2 w2 = bf_load_s u off2 w2.
Proof.
  intros. apply Z.bits_inj'. intros i Hi. rewrite !load_s_bits by lia.
  assert (E : forall j, off2 <= j < off2 + w2 -> Z.testbit (bf_store u v off w) j = Z.testbit u j).
  { intros j Hj. rewrite store_bits by lia. destruct (Z.leb_spec off j); destruct (Z.ltb_spec j (off + w)); cbn; try reflexivity. lia. }
  destruct (Z.ltb_spec i w2); apply E; lia.
Qed.

(* bits of the unit outside the field are unchanged, and nothing beyond the unit is written *)
Theorem store_keeps_other_bits u v off w i : 0 <= off -> 0 < w -> off + w <= 64 -> 0 <= i < 64 -> i < off \/ off + w <= i ->
  Z.testbit (bf_store u v off w) i = Z.testbit u i.
Proof. intros. rewrite store_bits by lia. destruct (Z.leb_spec off i); destruct (Z.ltb_spec i (off + w)); cbn; try reflexivity. lia. Qed.

Theorem unit_write_bits size reg i : 0 <= size -> 0 <= i -> Z.testbit (unit_write size reg) i = Z.testbit reg i && (i <? 8 * size).
Proof. intros. unfold unit_write. rewrite Z.land_spec, ones_bit by lia. reflexivity. Qed.

(* element addresses: no wrap-around for any index that stays inside an object below 2^63 *)
Theorem elem_addr_exact base idx size : 0 <= base -> 0 <= idx -> 0 <= size -> base + idx * size < 2 ^ 63 -> elem_addr base idx size = base + idx * size.
Proof.
  intros Hb Hi Hs Hlt. unfold elem_addr, w64. rewrite !Z.land_ones by lia.
  assert (idx * size < 2 ^ 63) by lia. assert (0 <= idx * size) by nia.
  destruct (Z.eq_dec size 0) as [->|Hne].
  - rewrite !Z.mul_0_r, Z.mod_0_l by lia. rewrite Z.add_0_r. apply Z.mod_small. lia.
  - assert (idx < 2 ^ 63) by nia. rewrite (Z.mod_small idx) by lia. rewrite (Z.mod_small (idx * size)) by lia. apply Z.mod_small. lia.
Qed.
