(* C05 (package initcur) Part 4: reading a replayed tree (leaves_of, the order of create_lvar_init / write_gvar_data)
   is reading the log (readout), when the log is `clean`. *)
From Coq Require Import List Arith Bool Lia.
From Chibicc Require Import Spec.InitSyntax Spec.InitSpec Spec.InitValid Model.InitCursor
  Proofs.InitTree Proofs.InitLocal Proofs.InitSim.
Import ListNotations.

(* ---- paths ---- *)

Lemma path_eqb_eq : forall p q, path_eqb p q = true <-> p = q.
Proof.
  induction p as [|i p IH]; intros [|j q]; cbn [path_eqb]; split; intro H; try reflexivity; try discriminate.
  - apply andb_prop in H. destruct H as [H1 H2]. apply Nat.eqb_eq in H1. apply IH in H2. subst. reflexivity.
  - injection H as -> ->. rewrite Nat.eqb_refl. apply IH. reflexivity.
Qed.

Lemma path_eqb_refl : forall p, path_eqb p p = true.
Proof. intro p. apply path_eqb_eq. reflexivity. Qed.

Lemma strip_spec : forall u q r, strip u q = Some r <-> q = u ++ r.
Proof.
  induction u as [|i u IH]; intros q r; cbn [strip app].
  - split; intro H; [injection H as ->; reflexivity|subst; reflexivity].
  - destruct q as [|j q]; [split; intro H; discriminate|].
    destruct (i =? j) eqn:Hij.
    + apply Nat.eqb_eq in Hij. subst j. rewrite IH. split; intro H; [subst; reflexivity|injection H as ->; reflexivity].
    + apply Nat.eqb_neq in Hij. split; intro H; [discriminate|]. injection H as -> _. contradiction.
Qed.

Lemma strip_app : forall u r, strip u (u ++ r) = Some r.
Proof. intros u r. apply strip_spec. reflexivity. Qed.

Lemma is_prefix_spec : forall q p, is_prefix q p = true <-> exists r, p = q ++ r.
Proof.
  induction q as [|i q IH]; intros p; cbn [is_prefix app].
  - split; [intros _; exists p; reflexivity|reflexivity].
  - destruct p as [|j p]; [split; [discriminate|intros [r H]; discriminate]|].
    split.
    + intro H. apply andb_prop in H. destruct H as [H1 H2]. apply Nat.eqb_eq in H1. apply IH in H2.
      destruct H2 as [r ->]. subst. exists r. reflexivity.
    + intros [r H]. injection H as -> ->. rewrite Nat.eqb_refl. apply IH. exists r. reflexivity.
Qed.

(* ---- navigating trees ---- *)

Fixpoint tget (t : itree) (p : path) : option itree :=
  match p with
  | [] => Some t
  | i :: q => match nth_error (children t) i with Some c => tget c q | None => None end
  end.

Lemma tget_app : forall p t q, tget t (p ++ q) = match tget t p with Some s => tget s q | None => None end.
Proof.
  induction p as [|i p IH]; intros t q; [reflexivity|].
  cbn [app tget]. destruct (nth_error (children t) i) as [c|]; [apply IH|reflexivity].
Qed.

Lemma nth_upd : forall cs i j f,
  nth_error (upd cs i f) j = if i =? j then option_map f (nth_error cs j) else nth_error cs j.
Proof.
  intros cs i j f. unfold upd. destruct (i =? j) eqn:Hij.
  - apply Nat.eqb_eq in Hij. subst j. destruct (nth_error cs i) as [c|] eqn:Hc.
    + cbn [option_map]. apply set_nth_same. apply nth_error_Some. rewrite Hc. discriminate.
    + cbn [option_map]. exact Hc.
  - apply Nat.eqb_neq in Hij. destruct (nth_error cs i) as [c|]; [|reflexivity]. apply set_nth_other. exact Hij.
Qed.

Lemma children_tset : forall t i q x, children (tset t (i :: q) x) = upd (children t) i (fun c => tset c q x).
Proof. intros [y|f e cs|cs|mem cs] i q x; cbn [tset children]; try reflexivity. unfold upd. destruct i; reflexivity. Qed.

Lemma children_ttouch : forall t i q, children (ttouch t (i :: q)) = upd (children t) i (fun c => ttouch c q).
Proof. intros [y|f e cs|cs|mem cs] i q; cbn [ttouch children]; try reflexivity. unfold upd. destruct i; reflexivity. Qed.

Lemma tget_tset_scalar : forall pre t p x y, tget t pre = Some (NScalar y) ->
  tget (tset t p x) pre = Some (NScalar (if path_eqb p pre then x else y)).
Proof.
  induction pre as [|j pre IH]; intros t p x y H.
  - cbn [tget] in H. injection H as ->. destruct p as [|i q]; reflexivity.
  - destruct p as [|i q].
    + cbn [path_eqb]. destruct t as [y0|f e cs|cs|mem cs]; cbn [tset]; try exact H.
    + cbn [tget] in H |- *. rewrite children_tset, nth_upd. cbn [path_eqb].
      destruct (i =? j) eqn:Hij.
      * destruct (nth_error (children t) j) as [c|]; [|discriminate]. cbn [option_map andb]. apply IH. exact H.
      * cbn [andb]. exact H.
Qed.

Lemma tget_ttouch_scalar : forall pre t p y, tget t pre = Some (NScalar y) -> tget (ttouch t p) pre = Some (NScalar y).
Proof.
  induction pre as [|j pre IH]; intros t p y H.
  - cbn [tget] in H. injection H as ->. destruct p as [|i q]; reflexivity.
  - destruct p as [|i q]; [exact H|].
    cbn [tget] in H |- *. rewrite children_ttouch, nth_upd.
    destruct (i =? j) eqn:Hij; [|exact H].
    destruct (nth_error (children t) j) as [c|]; [|discriminate]. cbn [option_map]. apply IH. exact H.
Qed.

Definition is_union (t : itree) : Prop := match t with NUnion _ _ => True | _ => False end.
Definition tmem (t : itree) : option nat := match t with NUnion mem _ => mem | _ => None end.
Definition through (u p : path) (cur : option nat) : option nat :=
  match strip u p with Some (m :: _) => Some m | _ => cur end.

Lemma tget_tset_union : forall u t p x s, tget t u = Some s -> is_union s ->
  exists s', tget (tset t p x) u = Some s' /\ is_union s' /\ tmem s' = through u p (tmem s).
Proof.
  induction u as [|j u IH]; intros t p x s H Hs.
  - cbn [tget] in H. injection H as ->. destruct s as [y|f e cs|cs|mem cs]; try contradiction.
    destruct p as [|i q]; cbn [tset tget]; eexists; (split; [reflexivity|]); split; try exact I; reflexivity.
  - destruct p as [|i q].
    + exists s. split; [|split; [exact Hs|reflexivity]].
      destruct t as [y0|f e cs|cs|mem cs]; cbn [tset]; exact H.
    + cbn [tget] in H |- *. rewrite children_tset, nth_upd. unfold through. cbn [strip].
      destruct (i =? j) eqn:Hij.
      * rewrite Nat.eqb_sym, Hij.
        destruct (nth_error (children t) j) as [c|]; [|discriminate]. cbn [option_map]. apply IH; assumption.
      * rewrite Nat.eqb_sym, Hij. exists s. split; [exact H|split; [exact Hs|reflexivity]].
Qed.

Lemma tget_ttouch_union : forall u t p s, tget t u = Some s -> is_union s ->
  exists s', tget (ttouch t p) u = Some s' /\ is_union s' /\ tmem s' = through u p (tmem s).
Proof.
  induction u as [|j u IH]; intros t p s H Hs.
  - cbn [tget] in H. injection H as ->. destruct s as [y|f e cs|cs|mem cs]; try contradiction.
    destruct p as [|i q]; cbn [ttouch tget]; eexists; (split; [reflexivity|]); split; try exact I; reflexivity.
  - destruct p as [|i q].
    + exists s. split; [exact H|split; [exact Hs|reflexivity]].
    + cbn [tget] in H |- *. rewrite children_ttouch, nth_upd. unfold through. cbn [strip].
      destruct (i =? j) eqn:Hij.
      * rewrite Nat.eqb_sym, Hij.
        destruct (nth_error (children t) j) as [c|]; [|discriminate]. cbn [option_map]. apply IH; assumption.
      * rewrite Nat.eqb_sym, Hij. exists s. split; [exact H|split; [exact Hs|reflexivity]].
Qed.

(* ---- the log, read naively: last Set_ at the leaf; member of the last event inside the union ---- *)

Definition step_vs (p : path) (cur : option val) (e : event) : option val :=
  match e with Set_ q x => if path_eqb q p then x else cur | Clear _ => cur end.
Definition step_as (u : path) (cur : option nat) (e : event) : option nat := through u (event_path e) cur.

Lemma replay_scalar : forall E t pre y, tget t pre = Some (NScalar y) ->
  tget (replay t E) pre = Some (NScalar (fold_left (step_vs pre) E y)).
Proof.
  induction E as [|ev E IH]; intros t pre y H; [exact H|].
  unfold replay. cbn [fold_left]. fold (replay (apply_ev t ev) E).
  destruct ev as [p x|p]; cbn [apply_ev step_vs].
  - apply IH. apply tget_tset_scalar. exact H.
  - apply IH. apply tget_ttouch_scalar. exact H.
Qed.

Lemma replay_union : forall E t u s, tget t u = Some s -> is_union s ->
  exists s', tget (replay t E) u = Some s' /\ is_union s' /\ tmem s' = fold_left (step_as u) E (tmem s).
Proof.
  induction E as [|ev E IH]; intros t u s H Hs.
  - exists s. split; [exact H|split; [exact Hs|reflexivity]].
  - unfold replay. cbn [fold_left]. fold (replay (apply_ev t ev) E).
    destruct ev as [p x|p]; cbn [apply_ev].
    + destruct (tget_tset_union u t p x s H Hs) as [s1 [H1 [Hs1 Hm1]]].
      destruct (IH (tset t p x) u s1 H1 Hs1) as [s' [H' [Hs' Hm']]].
      exists s'. split; [exact H'|split; [exact Hs'|]]. rewrite Hm', Hm1. reflexivity.
    + destruct (tget_ttouch_union u t p s H Hs) as [s1 [H1 [Hs1 Hm1]]].
      destruct (IH (ttouch t p) u s1 H1 Hs1) as [s' [H' [Hs' Hm']]].
      exists s'. split; [exact H'|split; [exact Hs'|]]. rewrite Hm', Hm1. reflexivity.
Qed.

(* ---- the empty tree ---- *)

Lemma nth_error_repeat' : forall (x : itree) n i, nth_error (repeat x n) i = if i <? n then Some x else None.
Proof.
  intros x n. induction n as [|n IH]; intros i; cbn [repeat].
  - destruct i; reflexivity.
  - destruct i as [|i]; [reflexivity|]. cbn [nth_error]. rewrite IH. reflexivity.
Qed.

Lemma children_new_struct : forall ms, forallb wf ms = true ->
  children (new_initializer (TStruct ms) false) = map (fun m => new_initializer m false) ms.
Proof.
  intros ms H. cbn [new_initializer children].
  induction ms as [|m ms IH]; [reflexivity|].
  cbn [forallb] in H. apply andb_prop in H. destruct H as [Hm Hms]. specialize (IH Hms).
  cbn [map]. destruct m as [k|[n|] e|ms1|ms1]; try (rewrite IH; reflexivity).
  cbn [wf] in Hm. discriminate.
Qed.

Lemma nth_child_new : forall U i, wf U = true ->
  nth_error (children (new_initializer U false)) i = option_map (fun V => new_initializer V false) (child U i).
Proof.
  intros U i Hwf. destruct U as [k|[n|] e|ms|ms].
  - cbn [new_initializer children child]. destruct i; reflexivity.
  - cbn [new_initializer children child in_bound]. rewrite nth_error_repeat'. destruct (i <? n); reflexivity.
  - cbn [wf] in Hwf. discriminate.
  - assert (H : forallb wf ms = true) by (cbn [wf] in Hwf; destruct ms; [discriminate|exact Hwf]).
    rewrite (children_new_struct ms H). cbn [child]. apply nth_error_map.
  - cbn [new_initializer children child]. apply nth_error_map.
Qed.

Lemma tget_new : forall pre U, wf U = true ->
  tget (new_initializer U false) pre = option_map (fun V => new_initializer V false) (sub U pre).
Proof.
  induction pre as [|i pre IH]; intros U Hwf; [reflexivity|].
  cbn [tget sub]. rewrite (nth_child_new U i Hwf).
  destruct (child U i) as [V|] eqn:HV; cbn [option_map]; [|reflexivity].
  apply IH. eapply wf_child; eassumption.
Qed.

(* ---- clean logs ---- *)

Lemma clean_clear_prefix : forall E1 E2 seen, clean_clear seen (E1 ++ E2) = true -> clean_clear seen E1 = true.
Proof.
  induction E1 as [|e E1 IH]; intros E2 seen H; [reflexivity|].
  cbn [app clean_clear] in H |- *. destruct e as [p x|q].
  - eapply IH. exact H.
  - apply andb_prop in H. destruct H as [H1 H2]. rewrite H1. eapply IH. exact H2.
Qed.

Lemma clean_clear_split : forall E1 seen q E2, clean_clear seen (E1 ++ Clear q :: E2) = true ->
  (forall p, In p seen -> is_prefix q p = false) /\ (forall e, In e E1 -> is_prefix q (event_path e) = false).
Proof.
  induction E1 as [|e E1 IH]; intros seen q E2 H.
  - cbn [app clean_clear] in H. apply andb_prop in H. destruct H as [H _]. rewrite forallb_forall in H.
    split; [|intros e []]. intros p Hp. specialize (H p Hp). destruct (is_prefix q p); [discriminate|reflexivity].
  - cbn [app clean_clear] in H. destruct e as [p x|q0].
    + destruct (IH _ _ _ H) as [H1 H2]. split.
      * intros p' Hp'. apply H1. right. exact Hp'.
      * intros e [<-|He]; [apply H1; left; reflexivity|apply H2; exact He].
    + apply andb_prop in H. destruct H as [_ H]. destruct (IH _ _ _ H) as [H1 H2]. split.
      * intros p' Hp'. apply H1. right. exact Hp'.
      * intros e [<-|He]; [apply H1; left; reflexivity|apply H2; exact He].
Qed.

Lemma clean_union_prefix : forall T E1 E2, clean_union T (E1 ++ E2) = true -> clean_union T E1 = true.
Proof.
  intros T E1 E2 H. unfold clean_union in *. rewrite forallb_forall in H. apply forallb_forall. intros e1 H1.
  specialize (H e1 (in_or_app _ _ _ (or_introl H1))). rewrite forallb_forall in H. apply forallb_forall. intros e2 H2.
  apply H. apply in_or_app. left. exact H2.
Qed.

Lemma clean_union_pair : forall T E e1 e2, clean_union T E = true -> In e1 E -> In e2 E ->
  diverge_at_union T (event_path e1) (event_path e2) = false.
Proof.
  intros T E e1 e2 H H1 H2. unfold clean_union in H. rewrite forallb_forall in H. specialize (H e1 H1).
  rewrite forallb_forall in H. specialize (H e2 H2). destruct (diverge_at_union T (event_path e1) (event_path e2)); [discriminate|reflexivity].
Qed.

Lemma diverge_through : forall u T ms m m' r r', sub T u = Some (TUnion ms) -> m <> m' ->
  diverge_at_union T (u ++ m :: r) (u ++ m' :: r') = true.
Proof.
  induction u as [|i u IH]; intros T ms m m' r r' HT Hne.
  - cbn [sub] in HT. injection HT as ->. cbn [app diverge_at_union].
    destruct (m =? m') eqn:Hm; [apply Nat.eqb_eq in Hm; contradiction|reflexivity].
  - cbn [sub] in HT. cbn [app diverge_at_union]. rewrite Nat.eqb_refl.
    destruct (child T i) as [V|]; [|discriminate]. eapply IH; eassumption.
Qed.

Lemma diverge_inv : forall q T p, diverge_at_union T q p = true ->
  exists u i j rq rp ms, q = u ++ i :: rq /\ p = u ++ j :: rp /\ i <> j /\ sub T u = Some (TUnion ms).
Proof.
  induction q as [|i q IH]; intros T p H; [discriminate|].
  destruct p as [|j p]; [discriminate|]. cbn [diverge_at_union] in H.
  destruct (i =? j) eqn:Hij.
  - apply Nat.eqb_eq in Hij. subst j. destruct (child T i) as [V|] eqn:HV; [|discriminate].
    destruct (IH V p H) as [u [i' [j' [rq [rp [ms [-> [-> [Hne Hs]]]]]]]]].
    exists (i :: u), i', j', rq, rp, ms. repeat split; try assumption. cbn [sub]. rewrite HV. exact Hs.
  - apply Nat.eqb_neq in Hij. destruct T as [k|n e|ms|ms]; try discriminate.
    exists [], i, j, q, p, ms. repeat split. exact Hij.
Qed.

Definition default0 (o : option nat) : nat := match o with Some m => m | None => 0 end.
Definition value_simple (E : list event) (p : path) : option val := fold_left (step_vs p) E None.
Definition active_simple (E : list event) (u : path) : option nat := fold_left (step_as u) E None.

Lemma no_through_fold : forall u E c,
  (forall e m r, In e E -> strip u (event_path e) <> Some (m :: r)) -> fold_left (step_as u) E c = c.
Proof.
  intros u E. induction E as [|e E IH]; intros c H; [reflexivity|].
  cbn [fold_left]. assert (Hs : step_as u c e = c).
  { unfold step_as, through. destruct (strip u (event_path e)) as [[|m r]|] eqn:Hst; try reflexivity.
    exfalso. apply (H e m r); [left; reflexivity|exact Hst]. }
  rewrite Hs. apply IH. intros e' m r He'. apply H. right. exact He'.
Qed.

Lemma active_member_simple : forall E u, clean_clear [] E = true ->
  active_member E u = default0 (active_simple E u).
Proof.
  intros E u. induction E as [|ev E IH] using rev_ind; intro Hc; [reflexivity|].
  specialize (IH (clean_clear_prefix _ _ _ Hc)).
  unfold active_member, active_simple in *. rewrite !fold_left_app. cbn [fold_left]. rewrite IH.
  set (a := fold_left (step_as u) E None).
  assert (Hnone : forall q, is_prefix q u = true -> (forall e, In e E -> is_prefix q (event_path e) = false) -> a = None).
  { intros q Hp Hno. subst a. apply no_through_fold.
    intros e m r He Hs. apply strip_spec in Hs. apply is_prefix_spec in Hp. destruct Hp as [r' ->].
    specialize (Hno e He). rewrite Hs in Hno.
    assert (Hyes : is_prefix q ((q ++ r') ++ m :: r) = true) by (apply is_prefix_spec; exists (r' ++ m :: r); rewrite app_assoc; reflexivity).
    congruence. }
  unfold step_as, through. destruct ev as [q x|q]; cbn [step_active event_path].
  - destruct (strip u q) as [[|m r]|]; reflexivity.
  - destruct (clean_clear_split E [] q [] Hc) as [_ Hno].
    destruct (strip u q) as [[|m r]|] eqn:Hst; try reflexivity.
    + destruct (is_prefix q u) eqn:Hp; [|reflexivity]. rewrite (Hnone q Hp Hno). reflexivity.
    + destruct (is_prefix q u) eqn:Hp; [|reflexivity]. rewrite (Hnone q Hp Hno). reflexivity.
Qed.

Lemma active_simple_member : forall E u m c,
  (forall e m' r', In e E -> strip u (event_path e) = Some (m' :: r') -> m' = m) ->
  (exists e r, In e E /\ strip u (event_path e) = Some (m :: r)) ->
  fold_left (step_as u) E c = Some m.
Proof.
  intros E u m. induction E as [|e E IH] using rev_ind; intros c Hall [e0 [r0 [Hin Hs0]]]; [contradiction|].
  rewrite fold_left_app. cbn [fold_left]. unfold step_as at 1, through.
  destruct (strip u (event_path e)) as [[|m' r']|] eqn:Hst.
  - apply in_app_or in Hin. destruct Hin as [Hin|[<-|[]]]; [|congruence].
    apply IH; [intros e1 m1 r1 H1; apply Hall; apply in_or_app; left; exact H1|exists e0, r0; split; assumption].
  - f_equal. apply (Hall e m' r'); [apply in_or_app; right; left; reflexivity|exact Hst].
  - apply in_app_or in Hin. destruct Hin as [Hin|[<-|[]]]; [|congruence].
    apply IH; [intros e1 m1 r1 H1; apply Hall; apply in_or_app; left; exact H1|exists e0, r0; split; assumption].
Qed.

Lemma active_of_event : forall T E u ms e m r, clean T E = true -> sub T u = Some (TUnion ms) ->
  In e E -> strip u (event_path e) = Some (m :: r) -> active_member E u = m.
Proof.
  intros T E u ms e m r Hc HT Hin Hs. unfold clean in Hc. apply andb_prop in Hc. destruct Hc as [Hcc Hcu].
  rewrite (active_member_simple E u Hcc). unfold active_simple.
  rewrite (active_simple_member E u m None); [reflexivity| |exists e, r; split; assumption].
  intros e' m' r' Hin' Hs'. destruct (Nat.eq_dec m' m) as [Heq|Hne]; [exact Heq|exfalso].
  pose proof (clean_union_pair T E e' e Hcu Hin' Hin) as Hd.
  apply strip_spec in Hs. apply strip_spec in Hs'. rewrite Hs, Hs' in Hd.
  rewrite (diverge_through u T ms m' m r' r HT Hne) in Hd. discriminate.
Qed.

Lemma no_set_fold : forall p E c, (forall x, ~ In (Set_ p x) E) -> fold_left (step_vs p) E c = c.
Proof.
  intros p E. induction E as [|e E IH]; intros c H; [reflexivity|].
  cbn [fold_left]. assert (Hs : step_vs p c e = c).
  { destruct e as [q x|q]; cbn [step_vs]; [|reflexivity]. destruct (path_eqb q p) eqn:Hq; [|reflexivity].
    apply path_eqb_eq in Hq. subst q. exfalso. apply (H x). left. reflexivity. }
  rewrite Hs. apply IH. intros x Hx. apply (H x). right. exact Hx.
Qed.

Lemma value_at_simple : forall T E p, clean_clear [] E = true ->
  (forall q x, In (Set_ q x) E -> diverge_at_union T q p = false) ->
  value_at T E p = value_simple E p.
Proof.
  intros T E p. induction E as [|ev E IH] using rev_ind; intros Hc Hnd; [reflexivity|].
  assert (IH' : value_at T E p = value_simple E p).
  { apply IH; [eapply clean_clear_prefix; exact Hc|]. intros q x Hq. apply (Hnd q x). apply in_or_app. left. exact Hq. }
  unfold value_at, value_simple in *. rewrite !fold_left_app. cbn [fold_left]. rewrite IH'.
  destruct ev as [q x|q]; cbn [step_value step_vs].
  - destruct (path_eqb q p); [reflexivity|]. rewrite (Hnd q x); [reflexivity|]. apply in_or_app. right. left. reflexivity.
  - destruct (is_prefix q p) eqn:Hp; [|reflexivity].
    destruct (clean_clear_split E [] q [] Hc) as [_ Hno].
    rewrite (no_set_fold p E None); [reflexivity|]. intros x Hx. specialize (Hno _ Hx). cbn [event_path] in Hno. congruence.
Qed.

(* ---- the main lemma ---- *)

Lemma snoc_split : forall (pre u : path) m j rp, pre ++ [m] = u ++ j :: rp ->
  (rp = [] /\ u = pre /\ j = m) \/ (exists rp', rp = rp' ++ [m] /\ pre = u ++ j :: rp').
Proof.
  intros pre u m j rp H. destruct (rev rp) as [|x rrp] eqn:Hr.
  - assert (rp = []) by (rewrite <- (rev_involutive rp), Hr; reflexivity). subst rp.
    change (u ++ [j]) with (u ++ [j]) in H. apply app_inj_tail in H. destruct H as [-> ->]. left. repeat split.
  - assert (Hrp : rp = rev rrp ++ [x]) by (rewrite <- (rev_involutive rp), Hr; reflexivity). subst rp.
    rewrite app_comm_cons, app_assoc in H. apply app_inj_tail in H. destruct H as [-> ->].
    right. exists (rev rrp). split; reflexivity.
Qed.

Section Read.
  Variable T : ty.
  Variable E : list event.
  Hypothesis HwfT : wf T = true.
  Hypothesis Hclean : clean T E = true.

  Definition on_active (p : path) : Prop :=
    forall u j rp ms, p = u ++ j :: rp -> sub T u = Some (TUnion ms) -> j = active_member E u.

  Lemma on_active_snoc_other : forall pre i, on_active pre ->
    (forall ms, sub T pre <> Some (TUnion ms)) -> on_active (pre ++ [i]).
  Proof.
    intros pre i Hoa Hnu u j rp ms Heq Hu. destruct (snoc_split pre u i j rp Heq) as [[-> [-> ->]]|[rp' [-> ->]]].
    - exfalso. apply (Hnu ms). exact Hu.
    - eapply Hoa; [reflexivity|exact Hu].
  Qed.

  Lemma on_active_snoc_union : forall pre, on_active pre -> on_active (pre ++ [active_member E pre]).
  Proof.
    intros pre Hoa u j rp ms Heq Hu. destruct (snoc_split pre u _ j rp Heq) as [[-> [-> ->]]|[rp' [-> ->]]].
    - reflexivity.
    - eapply Hoa; [reflexivity|exact Hu].
  Qed.

  Lemma nodiv : forall p q x, on_active p -> In (Set_ q x) E -> diverge_at_union T q p = false.
  Proof.
    intros p q x Hoa Hin. destruct (diverge_at_union T q p) eqn:Hd; [exfalso|reflexivity].
    destruct (diverge_inv q T p Hd) as [u [i [j [rq [rp [ms [Hq [Hp [Hne Hu]]]]]]]]].
    pose proof (Hoa u j rp ms Hp Hu) as Hj.
    rewrite (active_of_event T E u ms (Set_ q x) i rq Hclean Hu Hin) in Hj; [congruence|].
    cbn [event_path]. rewrite Hq. apply strip_app.
  Qed.

  Definition R : itree := replay (new_initializer T false) E.

  Lemma go_seq : forall (pre : path) (F : nat -> leaves) cs k,
    (forall i c, nth_error cs i = Some c -> leaves_of c (pre ++ [k + i]) = F (k + i)) ->
    (fix go (cs : list itree) (i : nat) : leaves :=
       match cs with [] => [] | c :: cs' => leaves_of c (pre ++ [i]) ++ go cs' (S i) end) cs k
    = flat_map F (seq k (length cs)).
  Proof.
    intros pre F cs. induction cs as [|c cs IH]; intros k H; [reflexivity|].
    cbn [length seq flat_map]. f_equal.
    - specialize (H 0 c eq_refl). rewrite Nat.add_0_r in H. exact H.
    - apply IH. intros i c' Hc'. specialize (H (S i) c' Hc'). rewrite Nat.add_succ_r in H. exact H.
  Qed.

  Lemma go_two : forall (pre : path) ms cs k, length ms = length cs ->
    (forall i m c, nth_error ms i = Some m -> nth_error cs i = Some c ->
                   leaves_of c (pre ++ [k + i]) = readout T E m (pre ++ [k + i])) ->
    (fix go (cs : list itree) (i : nat) : leaves :=
       match cs with [] => [] | c :: cs' => leaves_of c (pre ++ [i]) ++ go cs' (S i) end) cs k
    = (fix go (ms : list ty) (i : nat) : leaves :=
         match ms with [] => [] | m :: ms' => readout T E m (pre ++ [i]) ++ go ms' (S i) end) ms k.
  Proof.
    intros pre ms. induction ms as [|m ms IH]; intros [|c cs] k Hlen H; cbn [length] in Hlen; try discriminate; [reflexivity|].
    f_equal.
    - specialize (H 0 m c eq_refl eq_refl). rewrite Nat.add_0_r in H. exact H.
    - apply IH; [lia|]. intros i m' c' Hm' Hc'. specialize (H (S i) m' c' Hm' Hc'). rewrite Nat.add_succ_r in H. exact H.
  Qed.

  Lemma pick_two : forall (pre : path) sel ms cs k, length ms = length cs ->
    (forall i m c, nth_error ms i = Some m -> nth_error cs i = Some c -> k + i = sel ->
                   leaves_of c (pre ++ [k + i]) = readout T E m (pre ++ [k + i])) ->
    (fix pick (cs : list itree) (i : nat) : leaves :=
       match cs with [] => [] | c :: cs' => if i =? sel then leaves_of c (pre ++ [i]) else pick cs' (S i) end) cs k
    = (fix pick (ms : list ty) (i : nat) : leaves :=
         match ms with [] => [] | W :: ms' => if i =? sel then readout T E W (pre ++ [i]) else pick ms' (S i) end) ms k.
  Proof.
    intros pre sel ms. induction ms as [|m ms IH]; intros [|c cs] k Hlen H; cbn [length] in Hlen; try discriminate; [reflexivity|].
    destruct (k =? sel) eqn:Hk.
    - apply Nat.eqb_eq in Hk. specialize (H 0 m c eq_refl eq_refl). rewrite Nat.add_0_r in H. apply H. exact Hk.
    - apply IH; [lia|]. intros i m' c' Hm' Hc' Hs. specialize (H (S i) m' c' Hm' Hc'). rewrite Nat.add_succ_r in H. apply H. exact Hs.
  Qed.

  Lemma read_ok : forall n U pre r, tdepth U < n -> sub T pre = Some U -> tget R pre = Some r -> shaped U r ->
    on_active pre -> leaves_of r pre = readout T E U pre.
  Proof.
    induction n as [|n IH]; intros U pre r Hn HU Hr Hsh Hoa; [lia|].
    pose proof Hclean as Hc. unfold clean in Hc. apply andb_prop in Hc. destruct Hc as [Hcc Hcu].
    assert (Hkid : forall i V c, child U i = Some V -> nth_error (children r) i = Some c ->
                     sub T (pre ++ [i]) = Some V /\ tget R (pre ++ [i]) = Some c /\ tdepth V < n).
    { intros i V c HV Hc. split; [eapply sub_snoc; eassumption|]. split.
      - rewrite tget_app, Hr. cbn [tget]. rewrite Hc. reflexivity.
      - apply tdepth_child in HV. lia. }
    destruct r as [y|f e cs|cs|mem cs].
    - apply shaped_scalar in Hsh. destruct Hsh as [k ->]. cbn [leaves_of readout].
      assert (H0 : tget (new_initializer T false) pre = Some (NScalar None)).
      { rewrite (tget_new pre T HwfT), HU. reflexivity. }
      pose proof (replay_scalar E _ pre None H0) as H1. fold R in H1. rewrite Hr in H1. injection H1 as ->.
      rewrite (value_at_simple T E pre Hcc); [reflexivity|]. intros q x Hq. eapply nodiv; eassumption.
    - pose proof Hsh as Hsh0. apply shaped_array in Hsh. destruct Hsh as [-> [-> Hall]].
      cbn [leaves_of readout]. apply go_seq. intros i c Hc. cbn [Nat.add].
      assert (HV : child (TArray (Some (length cs)) e) i = Some e).
      { cbn [child in_bound]. assert (Hi : i < length cs) by (apply nth_error_Some; rewrite Hc; discriminate).
        apply Nat.ltb_lt in Hi. rewrite Hi. reflexivity. }
      destruct (Hkid i e c HV Hc) as [Hs [Hg Hd]].
      apply (IH e (pre ++ [i]) c Hd Hs Hg).
      + rewrite Forall_forall in Hall. apply Hall. eapply nth_error_In. exact Hc.
      + apply on_active_snoc_other; [exact Hoa|]. intros ms. rewrite HU. discriminate.
    - pose proof Hsh as Hsh0. apply shaped_struct in Hsh. destruct Hsh as [ms [-> Hall]].
      cbn [leaves_of readout]. apply go_two; [apply Forall2_length_sh; exact Hall|].
      intros i m c Hm Hc. cbn [Nat.add].
      destruct (Hkid i m c Hm Hc) as [Hs [Hg Hd]].
      apply (IH m (pre ++ [i]) c Hd Hs Hg).
      + destruct (Forall2_nth ms cs i m Hall Hm) as [c' [Hc' Hshc]]. congruence.
      + apply on_active_snoc_other; [exact Hoa|]. intros ms'. rewrite HU. discriminate.
    - pose proof Hsh as Hsh0. apply shaped_union in Hsh. destruct Hsh as [ms [-> Hall]].
      assert (H0 : tget (new_initializer T false) pre = Some (new_initializer (TUnion ms) false)).
      { rewrite (tget_new pre T HwfT), HU. reflexivity. }
      destruct (replay_union E _ pre _ H0 I) as [s' [H1 [_ Hm']]]. fold R in H1. rewrite Hr in H1. injection H1 as <-.
      cbn [tmem new_initializer] in Hm'.
      assert (Hsel : match mem with Some m => m | None => 0 end = active_member E pre).
      { rewrite (active_member_simple E pre Hcc). unfold active_simple. rewrite <- Hm'. reflexivity. }
      cbn [leaves_of readout]. rewrite Hsel.
      apply pick_two; [apply Forall2_length_sh; exact Hall|].
      intros i m c Hm Hc Hi. cbn [Nat.add] in *. subst i.
      destruct (Hkid _ m c Hm Hc) as [Hs [Hg Hd]].
      apply (IH m _ c Hd Hs Hg).
      + destruct (Forall2_nth ms cs _ m Hall Hm) as [c' [Hc' Hshc]]. congruence.
      + apply on_active_snoc_union. exact Hoa.
  Qed.

  Theorem leaves_of_replay : leaves_of R [] = readout T E T [].
  Proof.
    apply (read_ok (S (tdepth T)) T [] R); [lia|reflexivity|reflexivity| |].
    - unfold R. apply shaped_replay. apply (shaped_new (S (tdepth T))); [lia|exact HwfT].
    - intros u j rp ms Heq. destruct u; discriminate.
  Qed.
End Read.
