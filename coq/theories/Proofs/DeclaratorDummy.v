(* C08 (package decl), part 6: why the dummy pass of declarator() is sound - on EVERY token list.

   declarator() parses a parenthesised inner declarator first with `Type dummy = {}` only to find the ")" behind
   it, and later again with the real type.  That is right only if the tokens a declarator consumes, the identifier
   it finds and whether it fails do not depend on the type passed in.  Since fix fbdf355 one thing does depend on
   the type: the "array too large" test reads ty->size.  So the statement is: for all five mutually recursive
   functions of the model, every token list and every fuel, two runs that differ only in the type passed in agree
   on the tokens consumed, the identifier and the kind of failure - UNLESS one of them reports "array too large"
   (which ends the compilation anyway; DeclaratorSizes.v, chk_dummy, shows that on written declarators the dummy
   pass never reports it when the real pass would not). *)
From Coq Require Import List ZArith Bool Lia.
From Chibicc Require Import Spec.DeclSyntax Spec.DeclSpec6_7_6 Model.Declarator Proofs.DeclaratorParse.
Import ListNotations.

Definition sim_d (a b : res (option ident * mty * list tok)) : Prop :=
  match a, b with
  | TooLarge, _ => True
  | _, TooLarge => True
  | Ok r, Ok r' => fst (fst r) = fst (fst r') /\ snd r = snd r'
  | Err, Err => True
  | OutOfFuel, OutOfFuel => True
  | _, _ => False
  end.
Definition sim_s (a b : res (mty * list tok)) : Prop :=
  match a, b with
  | TooLarge, _ => True
  | _, TooLarge => True
  | Ok r, Ok r' => snd r = snd r'
  | Err, Err => True
  | OutOfFuel, OutOfFuel => True
  | _, _ => False
  end.

Lemma pointers_snd : forall toks b ty ty', snd (pointers b toks ty) = snd (pointers b toks ty').
Proof.
  induction toks as [|t toks IH]; intros b ty ty'; [reflexivity|].
  destruct t; try reflexivity; cbn [pointers].
  - apply IH.
  - destruct b; [apply IH|reflexivity].
Qed.

Definition indep (f : nat) : Prop :=
  (forall toks ty ty', sim_d (declarator f toks ty) (declarator f toks ty')) /\
  (forall toks ty ty', sim_s (type_suffix f toks ty) (type_suffix f toks ty')) /\
  (forall toks ty ty', sim_s (array_dimensions f toks ty) (array_dimensions f toks ty')) /\
  (forall toks ty ty', sim_s (func_params f toks ty) (func_params f toks ty')) /\
  (forall toks ty ty' acc acc', is_nil acc = is_nil acc' ->
     sim_s (params_loop f toks ty acc) (params_loop f toks ty' acc')).

Lemma sim_s_TooLarge_r : forall a, sim_s a TooLarge.
Proof. intros [r| | |]; exact I. Qed.
Lemma sim_d_TooLarge_r : forall a, sim_d a TooLarge.
Proof. intros [r| | |]; exact I. Qed.

Theorem independent_of_type : forall f, indep f.
Proof.
  induction f as [|f IH].
  - repeat split; intros; exact I.
  - destruct IH as [IHd [IHs [IHa [IHf IHl]]]].
    assert (Hs : forall toks ty ty', sim_s (type_suffix (S f) toks ty) (type_suffix (S f) toks ty')).
    { intros toks ty ty'. rewrite !type_suffix_S. unfold type_suffix_body.
      destruct toks as [|t toks]; [reflexivity|]. destruct t; try reflexivity; [apply IHf|apply IHa]. }
    split; [|split; [exact Hs|split; [|split]]].
    + (* declarator *)
      intros toks ty ty'. rewrite !declarator_S.
      rewrite (pointers_snd toks false ty ty').
      set (t1 := snd (pointers false toks ty')).
      set (a := fst (pointers false toks ty)). set (a' := fst (pointers false toks ty')).
      clearbody t1 a a'. unfold direct_part.
      destruct (nested_start t1) as [inner|].
      * destruct (declarator f inner dummy) as [r1| | |]; cbn [bind]; try exact I.
        destruct (snd r1) as [|t t3]; [exact I|]. destruct t; try exact I.
        pose proof (IHs t3 a a') as H.
        destruct (type_suffix f t3 a) as [r2| | |], (type_suffix f t3 a') as [r2'| | |]; cbn in *; try contradiction; auto.
        -- pose proof (IHd inner (fst r2) (fst r2')) as H'.
           destruct (declarator f inner (fst r2)) as [r3| | |], (declarator f inner (fst r2')) as [r3'| | |];
             cbn in *; try contradiction; auto. split; [exact (proj1 H')|exact H].
        -- destruct (declarator f inner (fst r2)) as [r3| | |]; exact I.
      * cbv zeta. pose proof (IHs (snd (ident_opt t1)) a a') as H.
        destruct (type_suffix f (snd (ident_opt t1)) a) as [r| | |], (type_suffix f (snd (ident_opt t1)) a') as [r'| | |];
          cbn in *; try contradiction; auto.
    + (* array_dimensions *)
      intros toks ty ty'. rewrite !array_dimensions_S. unfold array_dimensions_body.
      destruct (skip_static_quals toks) as [|t r]; [exact I|].
      destruct t; try exact I.
      * pose proof (IHs r ty ty') as H.
        destruct (type_suffix f r ty) as [r2| | |], (type_suffix f r ty') as [r2'| | |]; cbn in *; try contradiction; auto.
      * destruct r as [|t r]; [exact I|]. destruct t; try exact I.
        pose proof (IHs r ty ty') as H.
        destruct (type_suffix f r ty) as [r2| | |], (type_suffix f r ty') as [r2'| | |]; cbn [bind] in *;
          try contradiction; try exact I.
        -- destruct (too_large n (fst r2)), (too_large n (fst r2')); cbn; auto.
        -- destruct (too_large n (fst r2)); exact I.
    + (* func_params *)
      intros toks ty ty'. rewrite !func_params_S. unfold func_params_body.
      assert (Hl : sim_s (params_loop f toks ty []) (params_loop f toks ty' [])) by (apply IHl; reflexivity).
      destruct toks as [|t toks]; [exact Hl|]. destruct t; try exact Hl.
      destruct l; try exact Hl. destruct toks as [|t toks]; [exact Hl|]. destruct t; try exact Hl. reflexivity.
    + (* params_loop *)
      intros toks ty ty' acc acc' Hn. rewrite !params_loop_S. unfold params_loop_body. rewrite <- Hn.
      assert (Hstep : forall t1, sim_s (param_step f t1 ty acc) (param_step f t1 ty' acc')).
      { intros t1. unfold param_step.
        assert (Hd : sim_s (let ds := param_declspec t1 in
                            do r1 <- declarator f (snd ds) (fst ds);
                            params_loop f (snd r1) ty ((fst (fst r1), adjust_param (snd (fst r1))) :: acc))
                           (let ds := param_declspec t1 in
                            do r1 <- declarator f (snd ds) (fst ds);
                            params_loop f (snd r1) ty' ((fst (fst r1), adjust_param (snd (fst r1))) :: acc'))).
        { cbv zeta. destruct (declarator f (snd (param_declspec t1)) (fst (param_declspec t1))) as [r1| | |];
            cbn [bind]; try exact I. apply IHl. reflexivity. }
        destruct t1 as [|t t1]; [exact Hd|]. destruct t; try exact Hd.
        destruct (skip_tok_rparen t1) as [r'| | |]; cbn; auto. }
      assert (Hrest : sim_s (do t1 <- (if is_nil acc then Ok toks else skip_tok_comma toks); param_step f t1 ty acc)
                            (do t1 <- (if is_nil acc then Ok toks else skip_tok_comma toks); param_step f t1 ty' acc')).
      { destruct (if is_nil acc then Ok toks else skip_tok_comma toks) as [t1| | |]; cbn [bind]; try exact I. apply Hstep. }
      destruct toks as [|t toks]; [exact Hrest|]. destruct t; try exact Hrest. reflexivity.
Qed.

(* the dummy pass and the real pass of declarator() stop at the same token and find the same identifier *)
Theorem dummy_pass_sound : forall f toks ty,
  sim_d (declarator f toks dummy) (declarator f toks ty).
Proof. intros f toks ty. exact (proj1 (independent_of_type f) toks dummy ty). Qed.

(* the same for abstract_declarator() *)
Theorem abstract_independent_of_type : forall f toks ty ty',
  sim_s (abstract_declarator f toks ty) (abstract_declarator f toks ty').
Proof.
  induction f as [|f IH]; intros toks ty ty'; [exact I|].
  rewrite !abstract_declarator_S. rewrite (pointers_snd toks false ty ty').
  set (t1 := snd (pointers false toks ty')).
  set (a := fst (pointers false toks ty)). set (a' := fst (pointers false toks ty')).
  clearbody t1 a a'.
  pose proof (proj1 (proj2 (independent_of_type f))) as IHs.
  unfold abstract_part. destruct (nested_start t1) as [inner|]; [|apply IHs].
  destruct (abstract_declarator f inner dummy) as [r1| | |]; cbn [bind]; try exact I.
  destruct (snd r1) as [|t t3]; [exact I|]. destruct t; try exact I.
  pose proof (IHs t3 a a') as H.
  destruct (type_suffix f t3 a) as [r2| | |], (type_suffix f t3 a') as [r2'| | |]; cbn in *; try contradiction; auto.
  - pose proof (IH inner (fst r2) (fst r2')) as H'.
    destruct (abstract_declarator f inner (fst r2)) as [r3| | |], (abstract_declarator f inner (fst r2')) as [r3'| | |];
      cbn in *; try contradiction; auto.
  - destruct (abstract_declarator f inner (fst r2)) as [r3| | |]; exact I.
Qed.
