From Chibicc Require Import Base.Mach Model.Atomic.
Local Open Scope Z_scope.

Section Proofs.
Variable M : Z.
Hypothesis Mpos : 0 < M.
Notation wrap := (wrap M).
Notation step := (step M).
Notation run := (run M).
Notation seq_apply := (seq_apply M).
Notation replay := (replay M).
Notation consistent := (consistent M).

Lemma replay_app m h e : replay m (h ++ [e]) = fst (seq_apply (e_op e) (replay m h)).
Proof. revert m; induction h as [|x h IH]; intros m; cbn [replay app]; auto. Qed.

Lemma consistent_app m h e :
  consistent m (h ++ [e]) <->
  consistent m h /\ e_before e = replay m h /\ e_result e = snd (seq_apply (e_op e) (replay m h)).
Proof.
  revert m; induction h as [|x h IH]; intros m; cbn [consistent replay app].
  - tauto.
  - rewrite IH. tauto.
Qed.

(* ---------- bookkeeping of the thread table ---------- *)
Lemma nth_error_upd ts : forall i t j, (i < length ts)%nat ->
  nth_error (upd_thread ts i t) j = if Nat.eqb j i then Some t else nth_error ts j.
Proof.
  unfold upd_thread. induction ts as [|a ts IH]; intros i t j Hi; [cbn in Hi; lia|].
  destruct i as [|i]; destruct j as [|j]; cbn [firstn skipn app nth_error Nat.eqb]; auto.
  apply IH. cbn in Hi. lia.
Qed.

(* the events of thread i, in history order *)
Definition mine (i : nat) (h : list event) : list event := filter (fun e => Nat.eqb (e_tid e) i) h.

Lemma mine_app i h e : mine i (h ++ [e]) = mine i h ++ (if Nat.eqb (e_tid e) i then [e] else []).
Proof. unfold mine. rewrite filter_app. cbn [filter]. destruct (Nat.eqb (e_tid e) i); reflexivity. Qed.

(* ---------- the invariant ---------- *)
Variable init : Z.
Variable progs0 : list (list aop).

Definition thread_ok (s : sys) (i : nat) (t : thread) : Prop :=
  nth_error progs0 i = Some (map e_op (mine i (hist s)) ++ prog t) /\
  results t = map e_result (mine i (hist s)).

Definition Inv (s : sys) : Prop :=
  consistent init (hist s) /\ replay init (hist s) = mem s /\
  length (threads s) = length progs0 /\
  (forall i t, nth_error (threads s) i = Some t -> thread_ok s i t).

Definition init_sys : sys :=
  {| mem := init; threads := map (fun p => {| prog := p; at_pc := PStart; results := [] |}) progs0; hist := [] |}.

Lemma inv_init : Inv init_sys.
Proof.
  unfold Inv, init_sys; cbn. repeat split; auto.
  - apply map_length.
  - rewrite nth_error_map in H. destruct (nth_error progs0 i) eqn:E; inversion H; subst. cbn. reflexivity.
  - rewrite nth_error_map in H. destruct (nth_error progs0 i); inversion H; reflexivity.
Qed.

Lemma inv_step s i : Inv s -> Inv (step s i).
Proof.
  intros [Hc [Hr [Hl Ht]]]. unfold Atomic.step.
  assert (HI : Inv s) by (exact (conj Hc (conj Hr (conj Hl Ht)))).
  destruct (nth_error (threads s) i) as [t|] eqn:Et; [|exact HI].
  assert (Hi : (i < length (threads s))%nat) by (apply nth_error_Some; congruence).
  destruct (Ht i t Et) as [Hp Hres].
  destruct (prog t) as [|op rest] eqn:Ep; [exact HI|].
  (* a step that does not complete the operation: only the thread-local pc changes *)
  assert (Hstay : forall pc', Inv {| mem := mem s;
              threads := upd_thread (threads s) i {| prog := op :: rest; at_pc := pc'; results := results t |}; hist := hist s |}).
  { intros pc'. unfold Inv; cbn [mem threads hist]. repeat split; auto.
    - unfold upd_thread. rewrite app_length, firstn_length. cbn [length]. rewrite skipn_length. lia.
    - rewrite nth_error_upd in H by assumption. destruct (Nat.eqb_spec i0 i) as [->|Hne].
      + inversion H; subst. cbn [prog]. exact Hp.
      + destruct (Ht i0 t0 H); assumption.
    - rewrite nth_error_upd in H by assumption. destruct (Nat.eqb_spec i0 i) as [->|Hne].
      + inversion H; subst. cbn [results]. exact Hres.
      + destruct (Ht i0 t0 H); assumption. }
  (* a step that completes it at a linearization point with the sequential outcome *)
  assert (Hfin : forall m' r, (m', r) = seq_apply op (mem s) ->
            Inv {| mem := m'; threads := upd_thread (threads s) i {| prog := rest; at_pc := PStart; results := results t ++ [r] |};
                   hist := hist s ++ [{| e_tid := i; e_op := op; e_before := mem s; e_result := r |}] |}).
  { intros m' r Hseq. unfold Inv; cbn [mem threads hist].
    split; [apply consistent_app; cbn [e_before e_result e_op]; rewrite Hr, <- Hseq; auto|].
    split; [rewrite replay_app; cbn [e_op]; rewrite Hr, <- Hseq; reflexivity|].
    split; [unfold upd_thread; rewrite app_length, firstn_length; cbn [length]; rewrite skipn_length; lia|].
    intros j tj Hj. rewrite nth_error_upd in Hj by assumption. unfold thread_ok; cbn [hist].
    rewrite mine_app; cbn [e_tid].
    destruct (Nat.eqb_spec j i) as [->|Hne].
    - inversion Hj; subst. cbn [prog results]. rewrite Nat.eqb_refl, !map_app. cbn [map e_op e_result].
      rewrite <- app_assoc. cbn [app]. rewrite Hres. split; [exact Hp|reflexivity].
    - replace (Nat.eqb i j) with false by (symmetry; apply Nat.eqb_neq; congruence). rewrite app_nil_r.
      destruct (Ht j tj Hj); split; assumption. }
  destruct op as [f rn|v|e d]; destruct (at_pc t) as [|old] eqn:Epc; try apply Hstay.
  - destruct (mem s =? old) eqn:Em; [|apply Hstay].
    apply Z.eqb_eq in Em. apply Hfin. cbn [Atomic.seq_apply]. rewrite Em. reflexivity.
  - apply Hfin. reflexivity.
  - apply Hfin. reflexivity.
  - destruct (mem s =? e) eqn:Em; apply Hfin; cbn [Atomic.seq_apply]; rewrite Em; reflexivity.
  - destruct (mem s =? e) eqn:Em; apply Hfin; cbn [Atomic.seq_apply]; rewrite Em; reflexivity.
Qed.

Theorem inv_run sched : Inv (run init_sys sched).
Proof.
  unfold Atomic.run. generalize inv_init. generalize init_sys.
  induction sched as [|i r IH]; intros s Hs; cbn [fold_left]; auto using inv_step.
Qed.

(* ---------- linearizability, stated for every schedule ---------- *)
Theorem linearizable sched :
  let s := run init_sys sched in
  consistent init (hist s) /\ replay init (hist s) = mem s /\
  (forall i t, nth_error (threads s) i = Some t ->
     exists done, nth_error progs0 i = Some (done ++ prog t) /\
                  done = map e_op (mine i (hist s)) /\ results t = map e_result (mine i (hist s))).
Proof.
  cbv zeta. destruct (inv_run sched) as [Hc [Hr [_ Ht]]]. split; [exact Hc|]. split; [exact Hr|].
  intros i t Hi. destruct (Ht i t Hi) as [Hp Hres]. eexists. split; [exact Hp|]. split; [reflexivity|exact Hres].
Qed.

(* compare-exchange fails only when the object differs from the expected value, and then reports
   (stores into the expected-value object) exactly the value the object held *)
Theorem cas_failure_semantics sched ev e d x :
  In ev (hist (run init_sys sched)) -> e_op ev = Cas e d -> e_result ev = RCas false x ->
  x = e_before ev /\ e_before ev <> e.
Proof.
  intros Hin Hop Hres. destruct (inv_run sched) as [Hc _].
  revert Hc. generalize init. induction (hist (run init_sys sched)) as [|a h IH]; intros m Hc; [contradiction|].
  cbn [consistent] in Hc. destruct Hc as [Hb [Hr Hc]]. destruct Hin as [->|Hin]; [|eapply IH; eauto].
  rewrite Hop in Hr. cbn [Atomic.seq_apply] in Hr. rewrite Hb.
  destruct (m =? e) eqn:Em; cbn [snd] in Hr; rewrite Hres in Hr; inversion Hr; subst.
  split; [reflexivity|]. apply Z.eqb_neq. exact Em.
Qed.

(* no lost update: if every operation adds a constant, the object ends with the initial value plus
   the sum over ALL completed operations, whatever the interleaving *)
Definition is_add (op : aop) (c : Z) : Prop := exists rn, op = Rmw (fun m => m + c) rn.

Lemma replay_adds h : forall m cs, Forall2 (fun e c => is_add (e_op e) c) h cs ->
  replay (wrap m) h = wrap (m + fold_right Z.add 0 cs).
Proof.
  induction h as [|e h IH]; intros m cs H; inversion H; subst; cbn [replay fold_right].
  - rewrite Z.add_0_r. reflexivity.
  - match goal with Ha : is_add _ _ |- _ => destruct Ha as [rn ->] end. cbn [Atomic.seq_apply fst].
    assert (E : wrap (wrap m + y) = wrap (m + y)) by (unfold Atomic.wrap; apply Zplus_mod_idemp_l).
    rewrite E. rewrite (IH (m + y) l'); auto. f_equal. lia.
Qed.

Theorem no_lost_update sched cs :
  init = wrap init ->
  Forall2 (fun e c => is_add (e_op e) c) (hist (run init_sys sched)) cs ->
  mem (run init_sys sched) = wrap (init + fold_right Z.add 0 cs).
Proof.
  intros Hi H. destruct (inv_run sched) as [_ [Hr _]]. rewrite <- Hr. rewrite Hi at 1. apply replay_adds. exact H.
Qed.
End Proofs.
