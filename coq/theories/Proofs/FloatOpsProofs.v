(* Per-operator lemmas for the code gen_expr emits on int / float / double operands (Model/FloatGen.v)
   against Spec/C11Float.v: every operand bit pattern, NaNs, infinities, signed zeros and denormals included.
   The composition for whole trees is Proofs/FloatGenProofs.v.
   The SSE instructions are defined from the same Flocq operations as the specification, so what is
   proved here is: the selection of the ss / sd form, the order of the operands (which one reaches
   %xmm0, which %xmm1), the decoding of ZF / PF / CF after ucomis, the sign-bit xor, the rows of the
   regenerated cast table, the loads, the bit-level handling of the lanes, and the stack discipline
   of one binary operator. *)
From Coq Require Import ZArith Bool List Lia.
From Flocq Require Import Core Binary Bits.
From Chibicc Require Import Base.Mach Spec.C11Int Spec.C11Float Model.X86Int Model.CodegenInt Gen.CastTable
     Model.ConstFold Proofs.ConstFoldProofs Proofs.CastTableProofs Proofs.CodegenIntProofs
     Model.X86Sse Model.FloatGen Proofs.X86SseProofs Proofs.X86SseRowsProofs.
Local Open Scope Z_scope.

Ltac split_ifs := repeat match goal with |- context [if ?c then _ else _] => destruct c eqn:? end.

(* ---------- how a C value sits in the registers ---------- *)
Definition Rv (t : ty) (v : val) (s : mstate) : Prop :=
  match t, v with
  | TI it, VI z => R it z (rax (ix s))
  | TF32, VS x => feq (f32 (x0 s)) x
  | TF64, VD x => feq (f64 (x0 s)) x
  | _, _ => False
  end.

Section WithMem.
Variable mem : Z -> Z.

(* integer instructions act on the integer registers only *)
Lemma sexec_int p : forall s a', exec p (ix s) = Some a' -> sexec mem (map SI p) s = Some (with_ix s a').
Proof.
  induction p as [|i p IH]; intros s a' H; cbn [map sexec exec] in *.
  - injection H as <-. destruct s; reflexivity.
  - cbn [sexec1]. destruct (exec1 i (ix s)) as [a1|]; [|discriminate].
    rewrite (IH (with_ix s a1) a' H). reflexivity.
Qed.

Lemma sexec_cons i r s : sexec mem (i :: r) s = match sexec1 mem i s with Some s' => sexec mem r s' | None => None end.
Proof. reflexivity. Qed.

Lemma sexec_app p q s : sexec mem (p ++ q) s = match sexec mem p s with Some s' => sexec mem q s' | None => None end.
Proof.
  revert s. induction p as [|i p IH]; intros s; cbn [app sexec]; [reflexivity|].
  destruct (sexec1 mem i s); [apply IH|reflexivity].
Qed.

(* ---------- decoding the flags of ucomis ---------- *)
(* sete %al ; setnp %dl ; and %dl, %al : %al = ZF and not PF *)
Lemma step_e_np rest s : exists s',
  sexec mem (SI (ISet CE) :: SSetnpDl :: SAndDlAl :: rest) s = sexec mem rest s' /\
  al (ix s') = b2z (f_zf (ix s) && negb (f_pf s)) /\ x0 s' = x0 s.
Proof.
  eexists. split; [cbn [sexec sexec1 exec1]; reflexivity|].
  cbn [ix with_ix x0 f_pf cond]. split; [|reflexivity].
  rewrite al_logic_al.
  - rewrite al_set_dl, al_set_al, dl_set_dl. apply land_bits.
  - rewrite al_set_dl, al_set_al, dl_set_dl, land_bits. apply b2z_byte.
Qed.
(* setne %al ; setp %dl ; or %dl, %al : %al = not ZF or PF *)
Lemma step_ne_p rest s : exists s',
  sexec mem (SI (ISet CNE) :: SSetpDl :: SOrDlAl :: rest) s = sexec mem rest s' /\
  al (ix s') = b2z (negb (f_zf (ix s)) || f_pf s) /\ x0 s' = x0 s.
Proof.
  eexists. split; [cbn [sexec sexec1 exec1]; reflexivity|].
  cbn [ix with_ix x0 f_pf cond]. split; [|reflexivity].
  rewrite al_logic_al.
  - rewrite al_set_dl, al_set_al, dl_set_dl. apply lor_bits.
  - rewrite al_set_dl, al_set_al, dl_set_dl, lor_bits. apply b2z_byte.
Qed.
Lemma step_a rest s : exists s',
  sexec mem (SSeta :: rest) s = sexec mem rest s' /\ al (ix s') = b2z (negb (f_cf (ix s)) && negb (f_zf (ix s))) /\ x0 s' = x0 s.
Proof. eexists. split; [cbn [sexec sexec1]; reflexivity|]. cbn [ix with_ix x0]. split; [apply al_set_al|reflexivity]. Qed.
Lemma step_ae rest s : exists s',
  sexec mem (SSetae :: rest) s = sexec mem rest s' /\ al (ix s') = b2z (negb (f_cf (ix s))) /\ x0 s' = x0 s.
Proof. eexists. split; [cbn [sexec sexec1]; reflexivity|]. cbn [ix with_ix x0]. split; [apply al_set_al|reflexivity]. Qed.

(* and $1, %al ; movzb %al, %rax : the truth value as an int *)
Lemma tail_bool s b : al (ix s) = b2z b -> exists s',
  sexec mem [SAnd1Al; SI IMovzbRax] s = Some s' /\ rax (ix s') = b2z b /\ x0 s' = x0 s.
Proof.
  intros H. eexists. split; [cbn [sexec sexec1 exec1]; reflexivity|].
  cbn [ix with_ix x0 rax set_rax]. split; [|reflexivity].
  change (rax (logic_al (ix s) (Z.land (al (ix s)) 1)) mod 256) with (al (logic_al (ix s) (Z.land (al (ix s)) 1))).
  rewrite H, land_bit1. apply al_logic_al, b2z_byte.
Qed.

Lemma R_b2z b r : r = b2z b -> R I32 (b2z b) r.
Proof. intros ->. unfold R. destruct b; cbn; lia. Qed.
Lemma Rbool_b2z b r : r = b2z b -> R IBool (b2z b) r.
Proof. intros ->. unfold R. destruct b; cbn; lia. Qed.

(* ---------- cmp_zero on float / double ---------- *)
Lemma f32_zero : f32 0 = B754_zero 24 128 false. Proof. reflexivity. Qed.
Lemma f64_zero : f64 0 = B754_zero 53 1024 false. Proof. reflexivity. Qed.

Lemma after_ucomi_flags s c :
  f_zf (ix (after_ucomi s c)) = (match c with Some Eq | None => true | _ => false end) /\
  f_pf (after_ucomi s c) = (match c with None => true | _ => false end) /\
  f_cf (ix (after_ucomi s c)) = (match c with Some Lt | None => true | _ => false end) /\
  x0 (after_ucomi s c) = x0 s /\ x1 (after_ucomi s c) = x1 s.
Proof. destruct c as [[]|]; repeat split; reflexivity. Qed.

Lemma cmp_zero_fp t v s : is_fp t = true -> Rv t v s ->
  exists s', sexec mem (m_cmp_zero t) s = Some s' /\ f_zf (ix s') = negb (truth v) /\ x0 s' = x0 s.
Proof.
  intros Ht HR. destruct t as [it| |]; [discriminate| |]; destruct v as [z|x|x]; try contradiction; cbn [Rv] in HR.
  - change (sexec mem (m_cmp_zero TF32) s) with
      (sexec mem [SI (ISet CE); SSetnpDl; SAndDlAl; SCmp1Al] (after_ucomi (with_x1 s 0) (b32_compare (f32 (x0 s)) (B754_zero 24 128 false)))).
    set (c := b32_compare (f32 (x0 s)) (B754_zero 24 128 false)).
    destruct (after_ucomi_flags (with_x1 s 0) c) as (Fz & Fp & Fc & F0 & F1).
    set (s1 := after_ucomi (with_x1 s 0) c) in *.
    destruct (step_e_np [SCmp1Al] s1) as (s2 & E & A & X). rewrite E.
    eexists. split; [cbn [sexec sexec1]; reflexivity|]. cbn [ix with_ix x0 f_zf set_flags].
    split; [|rewrite X, F0; reflexivity].
    rewrite A, b2z_eq1, Fz, Fp. cbn [truth]. rewrite <- (is_zero_feq _ _ HR). unfold is_zero. change (Bcompare 24 128 (f32 (x0 s)) (B754_zero 24 128 false)) with c.
    destruct c as [[]|]; reflexivity.
  - change (sexec mem (m_cmp_zero TF64) s) with
      (sexec mem [SI (ISet CE); SSetnpDl; SAndDlAl; SCmp1Al] (after_ucomi (with_x1 s 0) (b64_compare (f64 (x0 s)) (B754_zero 53 1024 false)))).
    set (c := b64_compare (f64 (x0 s)) (B754_zero 53 1024 false)).
    destruct (after_ucomi_flags (with_x1 s 0) c) as (Fz & Fp & Fc & F0 & F1).
    set (s1 := after_ucomi (with_x1 s 0) c) in *.
    destruct (step_e_np [SCmp1Al] s1) as (s2 & E & A & X). rewrite E.
    eexists. split; [cbn [sexec sexec1]; reflexivity|]. cbn [ix with_ix x0 f_zf set_flags].
    split; [|rewrite X, F0; reflexivity].
    rewrite A, b2z_eq1, Fz, Fp. cbn [truth]. rewrite <- (is_zero_feq _ _ HR). unfold is_zero. change (Bcompare 53 1024 (f64 (x0 s)) (B754_zero 53 1024 false)) with c.
    destruct c as [[]|]; reflexivity.
Qed.

(* ---------- the floating binary operators ---------- *)
(* the right operand, in %xmm1 *)
Definition Rv1 (t : ty) (v : val) (s : mstate) : Prop :=
  match t, v with
  | TF32, VS x => feq (f32 (x1 s)) x
  | TF64, VD x => feq (f64 (x1 s)) x
  | _, _ => False
  end.

Lemma fp_arith_ok o f t va vb w s : is_fp t = true -> fop_of o = Some f -> Rv t va s -> Rv1 t vb s ->
  eval_common o t va vb = Some w ->
  exists s', sexec mem (mbinop o t) s = Some s' /\ Rv t w s'.
Proof.
  intros Ht Ho Ha Hb He.
  assert (Ar : is_arith o = true) by (destruct o; try discriminate; reflexivity).
  destruct t as [it| |]; [discriminate| |]; destruct va as [?|a|a]; try contradiction; destruct vb as [?|b|b]; try contradiction;
    cbn [Rv Rv1 eval_common] in *; rewrite Ar in He.
  - assert (M : mbinop o TF32 = [SArith f SS]) by (destruct o; try discriminate; cbn in *; injection Ho as <-; reflexivity).
    rewrite M. eexists. split; [cbn [sexec sexec1]; reflexivity|].
    pose proof (arith32_feq f _ _ _ _ Ha Hb) as E.
    destruct o; try discriminate; cbn in Ho; injection Ho as <-; cbn [arith_s vs] in He; injection He as <-;
      cbn [Rv with_x0 x0]; rewrite f32_put; exact E.
  - assert (M : mbinop o TF64 = [SArith f SD]) by (destruct o; try discriminate; cbn in *; injection Ho as <-; reflexivity).
    rewrite M. eexists. split; [cbn [sexec sexec1]; reflexivity|].
    pose proof (arith64_feq f _ _ _ _ Ha Hb) as E.
    destruct o; try discriminate; cbn in Ho; injection Ho as <-; cbn [arith_d vd] in He; injection He as <-;
      cbn [Rv with_x0 x0]; rewrite f64_put; exact E.
Qed.

Lemma compopp_swap {p e} (a b : binary_float p e) :
  Bcompare p e b a = match Bcompare p e a b with Some c => Some (CompOpp c) | None => None end.
Proof. apply Bcompare_swap. Qed.

(* ucomis %xmm0, %xmm1 compares the right operand with the left one *)
Lemma fp_cmp_ok o t va vb w s : is_fp t = true -> (o = OEq \/ o = ONe \/ o = OLt \/ o = OLe) -> Rv t va s -> Rv1 t vb s ->
  eval_common o t va vb = Some w ->
  exists s', sexec mem (mbinop o t) s = Some s' /\ Rv (TI I32) w s'.
Proof.
  intros Ht Ho Ha Hb He.
  assert (Ar : is_arith o = false) by (destruct Ho as [-> | [-> | [-> | ->]]]; reflexivity).
  destruct t as [it| |]; [discriminate| |]; destruct va as [?|a|a]; try contradiction; destruct vb as [?|b|b]; try contradiction;
    cbn [Rv Rv1 eval_common] in *; rewrite Ar in He; injection He as <-.
  - set (c := b32_compare (f32 (x1 s)) (f32 (x0 s))).
    assert (C : c = match b32_compare a b with Some c => Some (CompOpp c) | None => None end).
    { unfold c, b32_compare. rewrite (compare_feq _ _ _ _ Hb Ha). apply compopp_swap. }
    destruct (after_ucomi_flags s c) as (Fz & Fp & Fc & F0 & F1).
    destruct Ho as [-> | [-> | [-> | ->]]]; cbn [mbinop fsz_of]; rewrite sexec_cons;
      change (sexec1 mem (SUcomi01 SS) s) with (Some (after_ucomi s c)); cbv beta iota.
    + destruct (step_e_np [SAnd1Al; SI IMovzbRax] (after_ucomi s c)) as (s2 & E & A & X). rewrite E.
      destruct (tail_bool s2 _ A) as (s3 & E3 & A3 & X3). exists s3. split; [exact E3|].
      cbn [Rv]. rewrite A3, Fz, Fp, C. destruct (b32_compare a b) as [[]|]; (split; [cbn; lia|reflexivity]).
    + destruct (step_ne_p [SAnd1Al; SI IMovzbRax] (after_ucomi s c)) as (s2 & E & A & X). rewrite E.
      destruct (tail_bool s2 _ A) as (s3 & E3 & A3 & X3). exists s3. split; [exact E3|].
      cbn [Rv]. rewrite A3, Fz, Fp, C. destruct (b32_compare a b) as [[]|]; (split; [cbn; lia|reflexivity]).
    + destruct (step_a [SAnd1Al; SI IMovzbRax] (after_ucomi s c)) as (s2 & E & A & X). rewrite E.
      destruct (tail_bool s2 _ A) as (s3 & E3 & A3 & X3). exists s3. split; [exact E3|].
      cbn [Rv]. rewrite A3, Fz, Fc, C. destruct (b32_compare a b) as [[]|]; (split; [cbn; lia|reflexivity]).
    + destruct (step_ae [SAnd1Al; SI IMovzbRax] (after_ucomi s c)) as (s2 & E & A & X). rewrite E.
      destruct (tail_bool s2 _ A) as (s3 & E3 & A3 & X3). exists s3. split; [exact E3|].
      cbn [Rv]. rewrite A3, Fc, C. destruct (b32_compare a b) as [[]|]; (split; [cbn; lia|reflexivity]).
  - set (c := b64_compare (f64 (x1 s)) (f64 (x0 s))).
    assert (C : c = match b64_compare a b with Some c => Some (CompOpp c) | None => None end).
    { unfold c, b64_compare. rewrite (compare_feq _ _ _ _ Hb Ha). apply compopp_swap. }
    destruct (after_ucomi_flags s c) as (Fz & Fp & Fc & F0 & F1).
    destruct Ho as [-> | [-> | [-> | ->]]]; cbn [mbinop fsz_of]; rewrite sexec_cons;
      change (sexec1 mem (SUcomi01 SD) s) with (Some (after_ucomi s c)); cbv beta iota.
    + destruct (step_e_np [SAnd1Al; SI IMovzbRax] (after_ucomi s c)) as (s2 & E & A & X). rewrite E.
      destruct (tail_bool s2 _ A) as (s3 & E3 & A3 & X3). exists s3. split; [exact E3|].
      cbn [Rv]. rewrite A3, Fz, Fp, C. destruct (b64_compare a b) as [[]|]; (split; [cbn; lia|reflexivity]).
    + destruct (step_ne_p [SAnd1Al; SI IMovzbRax] (after_ucomi s c)) as (s2 & E & A & X). rewrite E.
      destruct (tail_bool s2 _ A) as (s3 & E3 & A3 & X3). exists s3. split; [exact E3|].
      cbn [Rv]. rewrite A3, Fz, Fp, C. destruct (b64_compare a b) as [[]|]; (split; [cbn; lia|reflexivity]).
    + destruct (step_a [SAnd1Al; SI IMovzbRax] (after_ucomi s c)) as (s2 & E & A & X). rewrite E.
      destruct (tail_bool s2 _ A) as (s3 & E3 & A3 & X3). exists s3. split; [exact E3|].
      cbn [Rv]. rewrite A3, Fz, Fc, C. destruct (b64_compare a b) as [[]|]; (split; [cbn; lia|reflexivity]).
    + destruct (step_ae [SAnd1Al; SI IMovzbRax] (after_ucomi s c)) as (s2 & E & A & X). rewrite E.
      destruct (tail_bool s2 _ A) as (s3 & E3 & A3 & X3). exists s3. split; [exact E3|].
      cbn [Rv]. rewrite A3, Fc, C. destruct (b64_compare a b) as [[]|]; (split; [cbn; lia|reflexivity]).
Qed.

(* ---------- unary minus: xor with the sign bit ---------- *)
Lemma fp_neg_ok t v w s : is_fp t = true -> Rv t v s -> eval_unary Neg t v = Some w ->
  exists s', sexec mem (mneg t) s = Some s' /\ Rv t w s'.
Proof.
  intros Ht HR He. destruct t as [it| |]; [discriminate| |]; destruct v as [z|x|x]; try contradiction;
    cbn [Rv eval_unary] in *; injection He as <-; (eexists; split; [cbn [mneg sexec sexec1]; reflexivity|]);
    cbn [Rv ix x0 x1 with_ix with_x0 with_x1 rax set_rax].
  - change (lane32 (lane64 (reg64 (lo W64 1 * 2 ^ 31)))) with (2 ^ 31).
    unfold f32 at 1. rewrite lane32_lane64, lane32_put32.
    destruct (neg_bits32 (lane32 (x0 s)) (lane32_range _)) as [Rg Eq]. rewrite (lane32_small _ Rg), Eq.
    eapply feq_trans; [apply flip_opp32|apply opp32_feq; exact HR].
  - change (lane64 (lane64 (reg64 (lo W64 1 * 2 ^ 63)))) with (2 ^ 63).
    unfold f64 at 1. rewrite lane64_idem.
    destruct (neg_bits64 (lane64 (x0 s)) (lane64_range _)) as [Rg Eq]. rewrite (lane64_small _ Rg), Eq.
    eapply feq_trans; [apply flip_opp64|apply opp64_feq; exact HR].
Qed.

(* ---------- ! ---------- *)
Lemma sete_movzx s : exists s', sexec mem [SI (ISet CE); SI IMovzxRax] s = Some s' /\ rax (ix s') = b2z (f_zf (ix s)) /\ x0 s' = x0 s.
Proof.
  eexists. split; [cbn [sexec sexec1 exec1]; reflexivity|]. cbn [ix with_ix x0 rax set_rax cond]. split; [|reflexivity].
  apply (al_set_al (ix s)).
Qed.
Lemma setne_movzx s : exists s', sexec mem [SI (ISet CNE); SI IMovzxEax] s = Some s' /\ rax (ix s') = b2z (negb (f_zf (ix s))) /\ x0 s' = x0 s.
Proof.
  eexists. split; [cbn [sexec sexec1 exec1]; reflexivity|]. cbn [ix with_ix x0 rax set_rax cond]. split; [|reflexivity].
  apply (al_set_al (ix s)).
Qed.

Lemma val_ok_int it v : val_ok (TI it) v = true -> exists z, v = VI z /\ in_range it z = true.
Proof. destruct v as [z|x|x]; cbn; try discriminate. intros H. exists z. split; [reflexivity|exact H]. Qed.

Lemma lognot_ok t v s : val_ok t v = true -> Rv t v s ->
  exists s', sexec mem (m_cmp_zero t ++ [SI (ISet CE); SI IMovzxRax]) s = Some s' /\ Rv (TI I32) (VI (b2z (negb (truth v)))) s'.
Proof.
  intros Hv HR. destruct (is_fp t) eqn:Ht.
  - rewrite sexec_app. destruct (cmp_zero_fp t v s Ht HR) as (s1 & E1 & Z1 & _). rewrite E1.
    destruct (sete_movzx s1) as (s2 & E2 & A2 & _). exists s2. split; [exact E2|].
    cbn [Rv]. rewrite A2, Z1. apply R_b2z. reflexivity.
  - destruct t as [it| |]; try discriminate. destruct (val_ok_int it v Hv) as (z & -> & Hz). cbn [Rv truth] in *.
    destruct (lognot_codegen_ok it z (ix s) Hz HR) as (a' & Ea & Ra).
    exists (with_ix s a'). split; [|rewrite negb_involutive; exact Ra].
    change (m_cmp_zero (TI it) ++ [SI (ISet CE); SI IMovzxRax]) with (map SI (gen_cmp_zero it) ++ map SI [ISet CE; IMovzxRax]).
    rewrite <- map_app. apply sexec_int. exact Ea.
Qed.

(* ---------- cast(from, to): the regenerated table ---------- *)
Lemma mcast_int f t p : gen_cast cast_table f t = Some p -> mcast (TI f) (TI t) = map SI p.
Proof. destruct f, t; vm_compute; intros [= <-]; reflexivity. Qed.

Ltac compute_cast :=
  match goal with
  | H : context [mcast ?a ?b] |- _ => let c := eval vm_compute in (mcast a b) in change (mcast a b) with c in *
  | |- context [mcast ?a ?b] => let c := eval vm_compute in (mcast a b) in change (mcast a b) with c in *
  end.

(* what cvtsi2ss / cvtsi2sd read: the signed view of %eax / %rax is the C value *)
Lemma sgn32_val f z r : (f = I8 \/ f = I16 \/ f = I32 \/ f = U8 \/ f = U16) -> in_range f z = true -> R f z r -> sgn W32 r = z.
Proof. intros Hf Hz HR. destruct Hf as [-> | [-> | [-> | [-> | ->]]]]; unfold_x; unfold_ty; pows; split_ifs; lia. Qed.
Lemma sgn64_val z r : in_range I64 z = true -> R I64 z r -> sgn W64 r = z.
Proof. intros Hz HR. unfold_x; unfold_ty; pows; split_ifs; lia. Qed.
Lemma sgn64_u32 z r : in_range U32 z = true -> R U32 z r -> sgn W64 (r mod 2 ^ 32) = z.
Proof. intros Hz HR. unfold_x; unfold_ty; pows; split_ifs; lia. Qed.

Lemma R_u64_exact f z r : (f = IBool \/ f = U64) -> in_range f z = true -> R f z r -> r = z /\ 0 <= z < 2 ^ 64.
Proof. intros [-> | ->] Hz HR; unfold_x; unfold_ty; pows; lia. Qed.

Lemma int_to_fp_ok f t z w s : is_fp t = true -> in_range f z = true -> R f z (rax (ix s)) ->
  forallb insn_modelled (mcast (TI f) t) = true -> convert t (VI z) = Some w ->
  exists s', sexec mem (mcast (TI f) t) s = Some s' /\ Rv t w s'.
Proof.
  intros Ht Hz HR Hm Hc. destruct t as [it| |]; [discriminate| |]; cbn [convert] in Hc; injection Hc as <-.
  - destruct f; compute_cast; try discriminate Hm; (eexists; split; [cbn [sexec sexec1 exec1]; reflexivity|]);
      cbn [Rv with_x0 with_ix x0 ix rax set_rax];
      first [ rewrite f32_put, cvtsi2ss_spec;
              match type of Hz with in_range ?f0 _ = true =>
                first [rewrite (sgn32_val f0 z _ ltac:(auto 6) Hz HR)|rewrite (sgn64_val z _ Hz HR)|rewrite (sgn64_u32 z _ Hz HR)] end; apply feq_refl
            | match type of Hz with in_range ?f0 _ = true =>
                destruct (R_u64_exact f0 z _ ltac:(auto) Hz HR) as [Er Rz] end;
              rewrite (exec_u64_to_f32 s z Er Rz); apply feq_refl ].
  - destruct f; compute_cast; try discriminate Hm; (eexists; split; [cbn [sexec sexec1 exec1]; reflexivity|]);
      cbn [Rv with_x0 with_ix x0 ix rax set_rax];
      first [ rewrite f64_put, cvtsi2sd_spec;
              match type of Hz with in_range ?f0 _ = true =>
                first [rewrite (sgn32_val f0 z _ ltac:(auto 6) Hz HR)|rewrite (sgn64_val z _ Hz HR)|rewrite (sgn64_u32 z _ Hz HR)] end; apply feq_refl
            | match type of Hz with in_range ?f0 _ = true =>
                destruct (R_u64_exact f0 z _ ltac:(auto) Hz HR) as [Er Rz] end;
              rewrite (exec_u64_to_f64 s z Er Rz); apply feq_refl ].
Qed.

Lemma range_w32 t z : (t = I8 \/ t = I16 \/ t = I32 \/ t = U8 \/ t = U16) -> in_range t z = true ->
  - 2 ^ (bits W32 - 1) <= z < 2 ^ (bits W32 - 1).
Proof. intros Ht Hz. change (bits W32 - 1) with 31. destruct Ht as [-> | [-> | [-> | [-> | ->]]]]; unfold_ty; pows; lia. Qed.
Lemma range_w64 t z : (t = I64 \/ t = U32) -> in_range t z = true -> - 2 ^ (bits W64 - 1) <= z < 2 ^ (bits W64 - 1).
Proof. intros Ht Hz. change (bits W64 - 1) with 63. destruct Ht as [-> | ->]; unfold_ty; pows; lia. Qed.

Lemma u64_range z : in_range U64 z = true -> 0 <= z < 2 ^ 64.
Proof. intros H. unfold_ty. pows. lia. Qed.
Lemma R_u64_self z : in_range U64 z = true -> R U64 z z.
Proof. intros H. unfold_x. unfold_ty. pows. lia. Qed.

Lemma to_int_some t ip w : to_int t ip = Some w -> exists z, ip = Some z /\ in_range t z = true /\ w = VI z.
Proof.
  unfold to_int. destruct ip as [z|]; [|discriminate]. destruct (in_range t z) eqn:E; [|discriminate].
  intros [= <-]. exists z. auto.
Qed.

(* after cvttss2si / cvttsd2si (and the narrowing instruction of the row) the register holds the C value *)
Ltac finish_fp_to_int HR I Hin :=
  match type of Hin with in_range ?t0 ?z0 = true =>
  first [rewrite (cvtt_int_part W32 _ _ z0 HR I (range_w32 t0 z0 ltac:(auto 6) Hin))
        |rewrite (cvtt_int_part W64 _ _ z0 HR I (range_w64 t0 z0 ltac:(auto 6) Hin))] end;
  unfold_x; unfold_ty; pows; split_ifs; lia.

Lemma fp_to_int_ok from t v w s : is_fp from = true -> Rv from v s ->
  forallb insn_modelled (mcast from (TI t)) = true -> convert (TI t) v = Some w ->
  exists s', sexec mem (mcast from (TI t)) s = Some s' /\ Rv (TI t) w s'.
Proof.
  intros Hf HR Hm Hc.
  destruct (ity_eqb t IBool) eqn:Eb.
  - (* _Bool: cmp_zero, setne *)
    assert (t = IBool) as -> by (destruct t; try discriminate; reflexivity).
    assert (w = VI (b2z (truth v))) as ->.
    { destruct from as [it| |]; [discriminate| |]; destruct v as [z|x|x]; try contradiction; cbn in Hc; injection Hc as <-; reflexivity. }
    change (mcast from (TI IBool)) with (m_cmp_zero from ++ [SI (ISet CNE); SI IMovzxEax]).
    rewrite sexec_app. destruct (cmp_zero_fp from v s Hf HR) as (s1 & E1 & Z1 & _). rewrite E1.
    destruct (setne_movzx s1) as (s2 & E2 & A2 & _). exists s2. split; [exact E2|].
    cbn [Rv]. rewrite A2, Z1, negb_involutive. apply Rbool_b2z. reflexivity.
  - destruct from as [it| |]; [discriminate| |]; destruct v as [z|x|x]; try contradiction; cbn [Rv] in HR.
    + assert (Hc' : to_int t (int_part x) = Some w) by (destruct t; try discriminate Eb; exact Hc).
      destruct (to_int_some _ _ _ Hc') as (z & I & Hin & ->).
      destruct t; try discriminate Eb; compute_cast; try discriminate Hm;
        (eexists; split; [cbn [sexec sexec1 exec1]; reflexivity|]);
        cbn [Rv with_x0 with_ix x0 ix rax set_rax]; first [finish_fp_to_int HR I Hin | rewrite (exec_f32_to_u64 s _ z HR I (u64_range z Hin)); apply (R_u64_self z Hin)].
    + assert (Hc' : to_int t (int_part x) = Some w) by (destruct t; try discriminate Eb; exact Hc).
      destruct (to_int_some _ _ _ Hc') as (z & I & Hin & ->).
      destruct t; try discriminate Eb; compute_cast; try discriminate Hm;
        (eexists; split; [cbn [sexec sexec1 exec1]; reflexivity|]);
        cbn [Rv with_x0 with_ix x0 ix rax set_rax]; first [finish_fp_to_int HR I Hin | rewrite (exec_f64_to_u64 s _ z HR I (u64_range z Hin)); apply (R_u64_self z Hin)].
Qed.

Lemma convert_int t z : convert (TI t) (VI z) = Some (VI (conv t z)).
Proof. destruct t; reflexivity. Qed.

Theorem cast_ok from to v w s : val_ok from v = true -> Rv from v s ->
  forallb insn_modelled (mcast from to) = true -> convert to v = Some w ->
  exists s', sexec mem (mcast from to) s = Some s' /\ Rv to w s'.
Proof.
  intros Hv HR Hm Hc. destruct from as [f| |].
  - destruct (val_ok_int f v Hv) as (z & -> & Hz). cbn [Rv] in HR. destruct to as [t| |].
    + rewrite convert_int in Hc. injection Hc as <-.
      destruct (cast_table_correct f t z (ix s) Hz HR) as (p & a' & Hp & He & HR').
      rewrite (mcast_int _ _ _ Hp). exists (with_ix s a'). split; [apply sexec_int; exact He|exact HR'].
    + apply (int_to_fp_ok f TF32 z w s eq_refl Hz HR Hm Hc).
    + apply (int_to_fp_ok f TF64 z w s eq_refl Hz HR Hm Hc).
  - destruct to as [t| |].
    + apply (fp_to_int_ok TF32 t v w s eq_refl HR Hm Hc).
    + destruct v as [z|x|x]; try discriminate Hv. cbn [convert] in Hc. injection Hc as <-.
      exists s. split; [reflexivity|exact HR].
    + destruct v as [z|x|x]; try discriminate Hv. cbn [convert] in Hc. injection Hc as <-. compute_cast.
      eexists. split; [cbn [sexec sexec1]; reflexivity|]. cbn [Rv with_x0 x0] in *. rewrite f64_put. apply cvtss2sd_feq. exact HR.
  - destruct to as [t| |].
    + apply (fp_to_int_ok TF64 t v w s eq_refl HR Hm Hc).
    + destruct v as [z|x|x]; try discriminate Hv. cbn [convert] in Hc. injection Hc as <-. compute_cast.
      eexists. split; [cbn [sexec sexec1]; reflexivity|]. cbn [Rv with_x0 x0] in *. rewrite f32_put. apply cvtsd2ss_feq. exact HR.
    + destruct v as [z|x|x]; try discriminate Hv. cbn [convert] in Hc. injection Hc as <-.
      exists s. split; [reflexivity|exact HR].
Qed.
End WithMem.

(* ---------- typing ---------- *)
Lemma mf_common_is_uac a b : mf_common a b = uac_ty a b.
Proof. destruct a as [x| |], b as [y| |]; cbn; try reflexivity. rewrite m_common_is_uac. reflexivity. Qed.
Lemma mf_promote t : mf_common (TI I32) t = promote_ty t.
Proof. destruct t as [x| |]; cbn; try reflexivity. rewrite m_promote. reflexivity. Qed.

Theorem mf_type_is_c11 e : mf_type e = ftype_of e.
Proof.
  induction e as [t z|x|x|t n|o a IH|o a IHa b IHb|t a IH|c IHc a IHa b IHb|a IHa b IHb]; cbn [mf_type ftype_of]; try reflexivity.
  - destruct o; try rewrite IH; try reflexivity; try apply mf_promote.
    destruct (ftype_of a) as [x| |]; cbn [promote_ty]; try reflexivity. rewrite plus_promote. reflexivity.
  - rewrite IHa, IHb. destruct (is_arith o); [apply mf_common_is_uac|]. destruct (is_shift o); [apply mf_promote|reflexivity].
  - rewrite IHa, IHb. apply mf_common_is_uac.
  - exact IHb.
Qed.

(* ---------- values have their types ---------- *)
Lemma convert_ok to v w : convert to v = Some w -> val_ok to w = true.
Proof.
  destruct to as [t| |], v as [z|x|x]; try rewrite convert_int; cbn [convert]; intros H; try (injection H as <-; try reflexivity).
  - apply conv_range.
  - destruct t; try (destruct (to_int_some _ _ _ H) as (z & _ & Hin & ->); exact Hin). injection H as <-. cbn [val_ok]. destruct (negb (is_zero x)); reflexivity.
  - destruct t; try (destruct (to_int_some _ _ _ H) as (z & _ & Hin & ->); exact Hin). injection H as <-. cbn [val_ok]. destruct (negb (is_zero x)); reflexivity.
Qed.

Lemma eval_bin_arith_range o t a b v : t <> IBool -> in_range t a = true -> in_range t b = true ->
  eval_bin_arith o t a b = Some v -> in_range t v = true.
Proof.
  intros Ht Ha Hb H. destruct o; cbn [eval_bin_arith] in H; try discriminate.
  - eapply arith_result_range; exact H.
  - eapply arith_result_range; exact H.
  - eapply arith_result_range; exact H.
  - destruct (b =? 0); [discriminate|]. eapply arith_result_range; exact H.
  - destruct (b =? 0) eqn:E0; [discriminate|]. destruct (in_range t (Z.quot a b)); inversion H; subst.
    apply rem_range; auto. apply Z.eqb_neq; exact E0.
  - inversion H; subst; apply conv_range.
  - inversion H; subst; apply conv_range.
  - inversion H; subst; apply conv_range.
Qed.

Lemma eval_shift_range o ta x n v : in_range ta x = true -> eval_shift o (promote ta) x n = Some v -> in_range (promote ta) v = true.
Proof.
  intros Hx H. pose proof (promote_range _ _ Hx) as Hp. unfold eval_shift in H.
  destruct ((n <? 0) || (width (promote ta) <=? n)) eqn:E; [discriminate|]. destruct o; try discriminate.
  - destruct (is_signed (promote ta)) eqn:Es.
    + destruct (x <? 0); [discriminate|]. destruct (in_range _ (x * 2 ^ n)) eqn:Er; inversion H; subst; exact Er.
    + inversion H; subst. destruct ta; try discriminate; unfold_ty; cbn; pows; lia.
  - inversion H; subst. apply shr_range; [exact Hp|]. apply orb_false_iff in E as [E _]. lia.
Qed.

Lemma fcmp_range o c : in_range I32 (fcmp o c) = true.
Proof. destruct o, c as [[]|]; reflexivity. Qed.

Lemma uac_ty_int_not_bool a b it : uac_ty a b = TI it -> it <> IBool.
Proof. destruct a as [x| |], b as [y| |]; cbn; try discriminate. intros [= <-]. apply uac_not_bool. Qed.

Lemma eval_common_ok o t x y w : (forall it, t = TI it -> it <> IBool) -> val_ok t x = true -> val_ok t y = true ->
  eval_common o t x y = Some w -> val_ok (if is_arith o then t else TI I32) w = true.
Proof.
  intros Ht Hx Hy H. destruct t as [it| |], x as [a|a|a]; try discriminate Hx; destruct y as [b|b|b]; try discriminate Hy;
    cbn [eval_common val_ok] in *; destruct (is_arith o) eqn:Ar.
  - destruct (eval_bin_arith o it a b) as [z|] eqn:E; [|discriminate]. injection H as <-.
    apply (eval_bin_arith_range o it a b z (Ht it eq_refl) Hx Hy E).
  - injection H as <-. apply cmp_range.
  - destruct (arith_s o a b); [|discriminate]. injection H as <-. reflexivity.
  - injection H as <-. apply fcmp_range.
  - destruct (arith_d o a b); [|discriminate]. injection H as <-. reflexivity.
  - injection H as <-. apply fcmp_range.
Qed.

Lemma eval_unary_ok o t x w : val_ok t x = true -> eval_unary o t x = Some w ->
  val_ok (match o with LogNot => TI I32 | _ => promote_ty t end) w = true.
Proof.
  intros Hx H. destruct o.
  - (* Neg *) destruct t as [it| |], x as [a|a|a]; try discriminate Hx; cbn [eval_unary] in H; try (injection H as <-; reflexivity).
    cbn [vi] in H. destruct (arith_result (promote it) (- a)) as [z|] eqn:E; [|discriminate]. injection H as <-.
    apply (arith_result_range _ _ _ E).
  - (* BitNot *) destruct t as [it| |], x as [a|a|a]; try discriminate Hx; cbn [eval_unary] in H; try discriminate.
    injection H as <-. apply conv_range.
  - (* LogNot *) cbn [eval_unary] in H. injection H as <-. apply b2z_range.
  - (* Plus *) destruct t as [it| |], x as [a|a|a]; try discriminate Hx; cbn [eval_unary] in H; injection H as <-; try reflexivity.
    apply promote_range. exact Hx.
Qed.

Lemma feval_ok rho : forall e v, feval rho e = Some v -> val_ok (ftype_of e) v = true.
Proof.
  induction e as [t z|x|x|t n|o a IH|o a IHa b IHb|t a IH|c IHc a IHa b IHb|a IHa b IHb]; intros v H; cbn [feval ftype_of] in *.
  - destruct (in_range t z) eqn:E; inversion H; subst; exact E.
  - inversion H; reflexivity.
  - inversion H; reflexivity.
  - destruct (val_ok t (rho n)) eqn:E; inversion H; subst; exact E.
  - destruct (feval rho a) as [x|] eqn:Ea; [|discriminate]. specialize (IH x eq_refl).
    pose proof (eval_unary_ok o _ x v IH H) as K. destruct o; exact K.
  - assert (L : forall x y, feval rho a = Some x -> feval rho b = Some y ->
                 (if is_shift o then
                    match ftype_of a, ftype_of b, x, y with
                    | TI ta, TI _, VI xa, VI n => vi (eval_shift o (promote ta) xa n)
                    | _, _, _, _ => None
                    end
                  else
                    let t := uac_ty (ftype_of a) (ftype_of b) in
                    match convert t x, convert t y with
                    | Some x', Some y' => eval_common o t x' y'
                    | _, _ => None
                    end) = Some v ->
                 val_ok (if is_arith o then uac_ty (ftype_of a) (ftype_of b) else if is_shift o then promote_ty (ftype_of a) else TI I32) v = true).
    { intros x y Ea Eb K. specialize (IHa x Ea). specialize (IHb y Eb).
      destruct (is_shift o) eqn:Sh.
      - assert (Ar : is_arith o = false) by (destruct o; try discriminate Sh; reflexivity). rewrite Ar.
        destruct (ftype_of a) as [ta| |]; try discriminate K. destruct (ftype_of b) as [tb| |]; try (destruct x; discriminate K).
        destruct x as [xa|?|?]; try discriminate K. destruct y as [n|?|?]; try discriminate K.
        destruct (eval_shift o (promote ta) xa n) as [z|] eqn:E; [|discriminate]. injection K as <-.
        apply (eval_shift_range o ta xa n z IHa E).
      - cbv zeta in K. set (t := uac_ty (ftype_of a) (ftype_of b)) in *.
        destruct (convert t x) as [x'|] eqn:Cx; [|discriminate]. destruct (convert t y) as [y'|] eqn:Cy; [|discriminate].
        pose proof (eval_common_ok o t x' y' v (fun it E => uac_ty_int_not_bool _ _ it E) (convert_ok _ _ _ Cx) (convert_ok _ _ _ Cy) K) as Q.
        destruct (is_arith o); exact Q. }
    destruct o; try (destruct (feval rho a) as [x|] eqn:Ea; [|discriminate]; destruct (feval rho b) as [y|] eqn:Eb; [|discriminate];
                     exact (L x y eq_refl eq_refl H)).
    + (* && *) destruct (feval rho a) as [x|]; [|discriminate]. destruct (negb (truth x)); [inversion H; reflexivity|].
      destruct (feval rho b) as [y|]; inversion H; subst. apply b2z_range.
    + (* || *) destruct (feval rho a) as [x|]; [|discriminate]. destruct (truth x); [inversion H; reflexivity|].
      destruct (feval rho b) as [y|]; inversion H; subst. apply b2z_range.
  - destruct (feval rho a) as [x|]; [|discriminate]. apply (convert_ok _ _ _ H).
  - destruct (feval rho c) as [x|]; [|discriminate].
    destruct (truth x); [destruct (feval rho a)|destruct (feval rho b)]; try discriminate; apply (convert_ok _ _ _ H).
  - destruct (feval rho a); [|discriminate]. auto.
Qed.

(* ---------- composition ---------- *)
Section Compose.
Variable mem : Z -> Z.

(* "the code computes v of type t": from any registers and any stack; the stack is as found *)
Definition computes (c : fcode) (t : ty) (v : val) : Prop :=
  forall s k, exists s', frun mem c (s, k) = Some (s', k) /\ Rv t v s'.

(* the right operand after popf / pop %rdi *)
Definition Rrhs (t : ty) (v : val) (s : mstate) : Prop :=
  match t, v with
  | TI it, VI z => R it z (rdi (ix s))
  | TF32, VS x => feq (f32 (x1 s)) x
  | TF64, VD x => feq (f64 (x1 s)) x
  | _, _ => False
  end.

Lemma run_seq a b st : frun mem (a ;; b) st = match frun mem a st with Some st' => frun mem b st' | None => None end.
Proof. reflexivity. Qed.
Lemma run_ins p s k s' : sexec mem p s = Some s' -> frun mem (CIns p) (s, k) = Some (s', k).
Proof. intros H. cbn [frun fst snd]. rewrite H. reflexivity. Qed.


Lemma run_cast from to v w s k : val_ok from v = true -> Rv from v s ->
  forallb insn_modelled (mcast from to) = true -> convert to v = Some w ->
  exists s', frun mem (ccast from to) (s, k) = Some (s', k) /\ Rv to w s'.
Proof.
  intros Hv HR Hm Hc. destruct (cast_ok mem from to v w s Hv HR Hm Hc) as (s' & E & R').
  exists s'. split; [apply run_ins; exact E|exact R'].
Qed.

Lemma modelled_cbin o t ca ta cb tb castb : modelled (cbin o t ca ta cb tb castb) = true ->
  modelled ca = true /\ modelled cb = true /\ (castb = true -> forallb insn_modelled (mcast tb t) = true) /\
  forallb insn_modelled (mcast ta t) = true.
Proof.
  unfold cbin, ccast. cbn [modelled]. intros H.
  apply andb_true_iff in H as [Hb H]. apply andb_true_iff in H as [Hc H]. apply andb_true_iff in H as [_ H].
  apply andb_true_iff in H as [Ha H]. apply andb_true_iff in H as [Hc' _].
  repeat split; try assumption. intros ->. exact Hc.
Qed.

Lemma run_cbin o t ca ta cb tb x y x' y' (castb : bool) tres w :
  computes ca ta x -> computes cb tb y -> val_ok ta x = true -> val_ok tb y = true ->
  modelled (cbin o t ca ta cb tb castb) = true ->
  convert t x = Some x' ->
  (if castb then convert t y = Some y' else y' = y /\ is_fp t = false /\ is_fp tb = false) ->
  (forall s, Rv t x' s -> Rrhs (if castb then t else tb) y' s -> exists s', sexec mem (mbinop o t) s = Some s' /\ Rv tres w s') ->
  computes (cbin o t ca ta cb tb castb) tres w.
Proof.
  intros Ha Hb Vx Vy Hm Cx Cy Hop s k.
  destruct (modelled_cbin _ _ _ _ _ _ _ Hm) as (Ma & Mb & Mcb & Mca).
  unfold cbin. rewrite run_seq. destruct (Hb s k) as (s1 & E1 & R1). rewrite E1. rewrite run_seq.
  assert (exists s2, frun mem (if castb then ccast tb t else CIns nil) (s1, k) = Some (s2, k) /\ Rv (if castb then t else tb) y' s2) as (s2 & E2 & R2).
  { destruct castb.
    - apply (run_cast tb t y y' s1 k Vy R1 (Mcb eq_refl) Cy).
    - destruct Cy as (-> & _ & _). exists s1. split; [reflexivity|exact R1]. }
  rewrite E2. rewrite run_seq.
  set (slot := if is_fp t then x0 s2 else rax (ix s2)).
  assert (P : frun mem (if is_fp t then CPushF else CPush) (s2, k) = Some (s2, slot :: k)) by (unfold slot; destruct (is_fp t); reflexivity).
  rewrite P. rewrite run_seq. destruct (Ha s2 (slot :: k)) as (s3 & E3 & R3). rewrite E3. rewrite run_seq.
  destruct (run_cast ta t x x' s3 (slot :: k) Vx R3 Mca Cx) as (s4 & E4 & R4). rewrite E4. rewrite run_seq.
  set (s5 := if is_fp t then with_x1 s4 slot else with_ix s4 (set_rdi (ix s4) slot)).
  assert (Q : frun mem (if is_fp t then CPopF1 else CPopRdi) (s4, slot :: k) = Some (s5, k)) by (unfold s5; destruct (is_fp t); reflexivity).
  rewrite Q.
  assert (R5 : Rv t x' s5).
  { unfold s5. destruct t as [it| |]; cbn [is_fp]; destruct x' as [?|?|?]; try contradiction; exact R4. }
  assert (R5' : Rrhs (if castb then t else tb) y' s5).
  { unfold s5, slot. destruct castb.
    - destruct t as [it| |]; cbn [is_fp]; destruct y' as [?|?|?]; try contradiction; cbn [Rrhs Rv with_x1 with_ix x1 ix rdi set_rdi] in *;
        [exact R2|rewrite f32_lane64; exact R2|rewrite f64_lane64; exact R2].
    - destruct Cy as (_ & Ft & Fb). rewrite Ft. destruct tb as [ib| |]; try discriminate Fb.
      destruct y' as [?|?|?]; try contradiction. exact R2. }
  destruct (Hop s5 R5 R5') as (s6 & E6 & R6). exists s6. split; [apply run_ins; exact E6|exact R6].
Qed.
End Compose.

Section Compose2.
Variable mem : Z -> Z.

(* every two-operand operator on converted operands, integer or floating *)
Lemma binop_ok o t x' y' w s : (forall it, t = TI it -> big it) -> val_ok t x' = true -> val_ok t y' = true ->
  is_shift o = false -> o <> OGt -> o <> OGe -> o <> LAnd -> o <> LOr ->
  Rv t x' s -> Rrhs t y' s -> eval_common o t x' y' = Some w ->
  exists s', sexec mem (mbinop o t) s = Some s' /\ Rv (if is_arith o then t else TI I32) w s'.
Proof.
  intros Hbig Vx Vy Sh N1 N2 N3 N4 HR HR' He.
  destruct t as [it| |].
  - destruct x' as [a|?|?]; try discriminate Vx. destruct y' as [b|?|?]; try discriminate Vy.
    cbn [Rv Rrhs val_ok eval_common mbinop] in *. specialize (Hbig it eq_refl).
    destruct (is_arith o) eqn:Ar.
    + destruct (eval_bin_arith o it a b) as [z|] eqn:E; [|discriminate]. injection He as <-.
      destruct (arith_codegen_ok o it a b (ix s) z Hbig Ar Vx Vy HR HR' E) as (a' & Ea & Ra).
      exists (with_ix s a'). split; [apply sexec_int; exact Ea|exact Ra].
    + injection He as <-.
      assert (Cm : is_cmp o = true) by (destruct o; try discriminate; try reflexivity; congruence).
      destruct (cmp_ok it Hbig a b (ix s) Vx Vy HR HR' o Cm N1 N2) as (a' & Ea & Ra).
      exists (with_ix s a'). split; [apply sexec_int; exact Ea|exact Ra].
  - destruct (is_arith o) eqn:Ar.
    + destruct (fop_of o) as [f|] eqn:Fo.
      * apply (fp_arith_ok mem o f TF32 x' y' w s eq_refl Fo HR); [|exact He].
        destruct y' as [?|?|?]; try discriminate Vy. exact HR'.
      * destruct x' as [?|a|?]; try discriminate Vx. destruct y' as [?|b|?]; try discriminate Vy.
        cbn [eval_common] in He. rewrite Ar in He. destruct o; try discriminate; cbn in He; discriminate.
    + apply (fp_cmp_ok mem o TF32 x' y' w s eq_refl); [|exact HR| |exact He].
      * destruct o; try discriminate; try congruence; auto.
      * destruct y' as [?|?|?]; try discriminate Vy. exact HR'.
  - destruct (is_arith o) eqn:Ar.
    + destruct (fop_of o) as [f|] eqn:Fo.
      * apply (fp_arith_ok mem o f TF64 x' y' w s eq_refl Fo HR); [|exact He].
        destruct y' as [?|?|?]; try discriminate Vy. exact HR'.
      * destruct x' as [?|?|a]; try discriminate Vx. destruct y' as [?|?|b]; try discriminate Vy.
        cbn [eval_common] in He. rewrite Ar in He. destruct o; try discriminate; cbn in He; discriminate.
    + apply (fp_cmp_ok mem o TF64 x' y' w s eq_refl); [|exact HR| |exact He].
      * destruct o; try discriminate; try congruence; auto.
      * destruct y' as [?|?|?]; try discriminate Vy. exact HR'.
Qed.
End Compose2.

Lemma uac_ty_comm a b : uac_ty a b = uac_ty b a.
Proof. destruct a as [x| |], b as [y| |]; cbn; try reflexivity. f_equal. destruct x, y; reflexivity. Qed.
Lemma uac_ty_big a b it : uac_ty a b = TI it -> big it.
Proof. destruct a as [x| |], b as [y| |]; cbn; try discriminate. intros [= <-]. apply uac_big. Qed.
Lemma promote_ty_big a it : promote_ty a = TI it -> big it.
Proof. destruct a as [x| |]; cbn; try discriminate. intros [= <-]. apply promote_big. Qed.

(* a > b is compiled as b < a : the same truth value, NaNs included *)
Lemma eval_common_swap t x y :
  eval_common OLt t y x = eval_common OGt t x y /\ eval_common OLe t y x = eval_common OGe t x y.
Proof.
  destruct t as [it| |], x as [a|a|a], y as [b|b|b]; cbn [eval_common is_arith]; try (split; reflexivity).
  - unfold b32_compare. rewrite (compopp_swap a b). destruct (Bcompare 24 128 a b) as [[]|]; split; reflexivity.
  - unfold b64_compare. rewrite (compopp_swap a b). destruct (Bcompare 53 1024 a b) as [[]|]; split; reflexivity.
Qed.

Lemma convert_promote t x : val_ok t x = true -> convert (promote_ty t) x = Some x.
Proof.
  destruct t as [it| |], x as [z|a|a]; try discriminate; cbn [promote_ty val_ok]; intros H; try reflexivity.
  rewrite convert_int, (conv_in_range _ _ (promote_range _ _ H)). reflexivity.
Qed.
Lemma mcast_same_fp t : is_fp t = true -> mcast t t = nil.
Proof. destruct t as [it| |]; try discriminate; reflexivity. Qed.

Section Compose3.
Variable mem : Z -> Z.

Lemma cbin_plain_ok o ca ta cb tb x y v :
  computes mem ca ta x -> computes mem cb tb y -> val_ok ta x = true -> val_ok tb y = true ->
  is_shift o = false -> o <> OGt -> o <> OGe -> o <> LAnd -> o <> LOr ->
  modelled (cbin o (uac_ty ta tb) ca ta cb tb true) = true ->
  match convert (uac_ty ta tb) x, convert (uac_ty ta tb) y with
  | Some x', Some y' => eval_common o (uac_ty ta tb) x' y'
  | _, _ => None
  end = Some v ->
  computes mem (cbin o (uac_ty ta tb) ca ta cb tb true) (if is_arith o then uac_ty ta tb else TI I32) v.
Proof.
  intros Ha Hb Vx Vy Sh N1 N2 N3 N4 Hm He.
  destruct (convert (uac_ty ta tb) x) as [x'|] eqn:Cx; [|discriminate].
  destruct (convert (uac_ty ta tb) y) as [y'|] eqn:Cy; [|discriminate].
  apply (run_cbin mem o _ ca ta cb tb x y x' y' true _ v Ha Hb Vx Vy Hm Cx Cy).
  intros s R1 R2. apply (binop_ok mem o _ x' y' v s); try assumption.
  - intros it E. apply (uac_ty_big _ _ _ E).
  - apply (convert_ok _ _ _ Cx).
  - apply (convert_ok _ _ _ Cy).
Qed.

Lemma cbin_shift_ok o ca ta cb tb x y v :
  computes mem ca ta x -> computes mem cb tb y -> val_ok ta x = true -> val_ok tb y = true ->
  is_shift o = true ->
  modelled (cbin o (promote_ty ta) ca ta cb tb false) = true ->
  match ta, tb, x, y with
  | TI ia, TI _, VI xa, VI n => vi (eval_shift o (promote ia) xa n)
  | _, _, _, _ => None
  end = Some v ->
  computes mem (cbin o (promote_ty ta) ca ta cb tb false) (promote_ty ta) v.
Proof.
  intros Ha Hb Vx Vy Sh Hm He.
  destruct ta as [ia| |]; try discriminate He. destruct tb as [ib| |]; try (destruct x; discriminate He).
  destruct x as [xa|?|?]; try discriminate He. destruct y as [n|?|?]; try discriminate He.
  destruct (eval_shift o (promote ia) xa n) as [z|] eqn:E; [|discriminate]. injection He as <-.
  cbn [promote_ty val_ok] in *.
  apply (run_cbin mem o _ ca (TI ia) cb (TI ib) (VI xa) (VI n) (VI xa) (VI n) false _ (VI z) Ha Hb Vx Vy Hm).
  - apply (convert_promote (TI ia) (VI xa) Vx).
  - repeat split.
  - intros s R1 R2. cbn [Rv Rrhs mbinop] in *.
    destruct (shift_codegen_ok o (promote ia) xa ib n (ix s) z (promote_big ia) Sh (promote_range _ _ Vx) Vy R1 R2 E) as (a' & Ea & Ra).
    exists (with_ix s a'). split; [apply sexec_int; exact Ea|exact Ra].
Qed.

(* ---------- tests of a value against zero ---------- *)
Lemma zero_test_ok t v s : val_ok t v = true -> Rv t v s -> exists s', test_zero mem t s = Some (negb (truth v), s').
Proof.
  intros Hv HR. unfold test_zero. destruct (is_fp t) eqn:Ht.
  - destruct (cmp_zero_fp mem t v s Ht HR) as (s1 & E1 & Z1 & _). rewrite E1, Z1. exists s1. reflexivity.
  - destruct t as [it| |]; try discriminate. destruct (val_ok_int it v Hv) as (a & -> & Ra). cbn [Rv truth] in *.
    destruct HR as [Hr HA]. cbn [m_cmp_zero gen_cmp_zero map sexec sexec1 exec1].
    eexists. cbn [ix with_ix f_zf]. rewrite negb_involutive.
    assert (Z : (lo (if size_of it <=? 4 then W32 else W64) (rax (ix s)) =? 0) = (a =? 0)).
    { destruct it; cbn [size_of Z.leb Z.compare Pos.compare Pos.compare_cont]; unfold lo; cbn [bits]; unfold_ty; pows;
        (destruct (a =? 0) eqn:Ea; [apply Z.eqb_eq in Ea; apply Z.eqb_eq|apply Z.eqb_neq in Ea; apply Z.eqb_neq]; lia). }
    rewrite Z. reflexivity.
Qed.

Lemma Rv_imm s (b : bool) : Rv (TI I32) (VI (b2z b)) (imm_rax s (if b then 1 else 0)).
Proof. cbn [Rv imm_rax ix with_ix rax set_rax]. apply R_b2z. destruct b; reflexivity. Qed.

(* ---------- operands ---------- *)
Lemma R_imm64 t z a : in_range t z = true -> R t z (rax (set_rax a (lo W64 z))).
Proof.
  intros Hr. unfold R, lo. cbn [rax set_rax bits]. split; [pows; lia|].
  destruct t; unfold_ty; pows; try lia.
Qed.

Lemma var_int_ok it z s n : mem (addr_of n) = z mod 2 ^ 64 -> in_range it z = true ->
  exists s', sexec mem [SLea n; SLoad (load_kind (TI it))] s = Some s' /\ R it z (rax (ix s')).
Proof.
  intros Hm Hz.
  destruct it;
    match goal with |- context [load_kind ?t] => let k := eval vm_compute in (load_kind t) in change (load_kind t) with k end;
    (eexists; split; [cbn [sexec sexec1]; reflexivity|]);
    cbn [ix with_ix rax set_rax]; rewrite Hm; unfold_x; unfold_ty; pows; split_ifs; lia.
Qed.
End Compose3.
