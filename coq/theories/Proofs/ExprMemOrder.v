(* 6.5p2 makes the evaluation order of unsequenced operands unobservable: whenever the two operands of an
   operator do not race (norace), evaluating the left one first or the right one first gives the same
   values, the same final store and the same definedness.  So the order Spec/C11IntMem.v fixes (the
   one chibicc uses) is not a choice that matters. *)
From Coq Require Import ZArith Bool List Lia.
From Chibicc Require Import Spec.C11Int Spec.C11IntMem Proofs.ExprMemProofs Proofs.ExprMemCorrect.
Import ListNotations.
Local Open Scope Z_scope.

Lemma mem_nat_In x l : mem_nat x l = true <-> In x l.
Proof.
  unfold mem_nat. rewrite existsb_exists. split.
  - intros (y & Hy & E). apply Nat.eqb_eq in E. subst. exact Hy.
  - intros H. exists x. split; [exact H|apply Nat.eqb_refl].
Qed.

Lemma disjoint_spec l1 l2 : disjoint l1 l2 = true -> forall x, In x l1 -> ~ In x l2.
Proof.
  unfold disjoint. rewrite forallb_forall. intros H x Hx Hx2. specialize (H x Hx).
  apply negb_true_iff in H. apply mem_nat_In in Hx2. congruence.
Qed.

(* ---------- an expression changes only the variables it may write ---------- *)
Definition frame_ok (W : list nat) (env env1 : venv) : Prop :=
  length env1 = length env /\ forall z, ~ In z W -> vget env1 z = vget env z.

Lemma frame_refl W env : frame_ok W env env. Proof. split; auto. Qed.
Lemma frame_trans W1 W2 W e0 e1 e2 : frame_ok W1 e0 e1 -> frame_ok W2 e1 e2 -> incl W1 W -> incl W2 W -> frame_ok W e0 e2.
Proof.
  intros [L1 H1] [L2 H2] I1 I2. split; [congruence|]. intros z Hz. rewrite H2, H1; auto.
Qed.
Lemma frame_mono W W' e0 e1 : frame_ok W e0 e1 -> incl W W' -> frame_ok W' e0 e1.
Proof. intros [L H] I. split; [exact L|]. intros z Hz. apply H. intros Hin. apply Hz. apply I. exact Hin. Qed.
Lemma frame_vset W env x v : In x W -> frame_ok W env (vset env x v).
Proof.
  intros Hx. split; [apply vset_length|]. intros z Hz. apply vget_vset_other. intros ->. contradiction.
Qed.

Ltac incl_tac := let z := fresh "z" in let Hz := fresh "Hz" in intros z Hz; cbn [reads writes]; clear - Hz; rewrite ?in_app_iff in *; cbn [In] in *; tauto.

Lemma meval_frame G : forall e env v env1, meval G env e = Some (v, env1) -> frame_ok (writes e) env env1.
Proof.
  induction e as [t v0|x|o a IHa|o a IHa b IHb|t a IHa|c IHc a IHa b IHb|a IHa b IHb|x a IHa|o x a IHa|post inc x];
    intros env v env1 H.
  - cbn [meval] in H. destruct (in_range t v0); [|discriminate]. injection H as _ <-. apply frame_refl.
  - cbn [meval] in H. destruct (read_var G env x); [|discriminate]. injection H as _ <-. apply frame_refl.
  - cbn [meval] in H. destruct (meval G env a) as [[xv e1]|] eqn:Ea; [|discriminate].
    destruct (eval_unval _ _ _); [|discriminate]. injection H as _ <-. exact (IHa _ _ _ Ea).
  - destruct (is_logical o) eqn:L.
    + destruct o; try discriminate L; cbn [meval] in H;
        (destruct (meval G env a) as [[xv e1]|] eqn:Ea; [|discriminate]);
        [destruct (xv =? 0)|destruct (negb (xv =? 0))];
        try (injection H as _ <-; eapply frame_mono; [exact (IHa _ _ _ Ea)|incl_tac]);
        (destruct (meval G e1 b) as [[yv e2]|] eqn:Eb; [|discriminate]); injection H as _ <-;
        (eapply frame_trans; [exact (IHa _ _ _ Ea)|exact (IHb _ _ _ Eb)|incl_tac|incl_tac]).
    + rewrite (meval_bin G env o a b L) in H. destruct (norace a b); [|discriminate]. destruct (lhs_first o).
      * destruct (meval G env a) as [[xv e1]|] eqn:Ea; [|discriminate]. destruct (meval G e1 b) as [[yv e2]|] eqn:Eb; [|discriminate].
        destruct (eval_binval _ _ _ _ _); [|discriminate]. injection H as _ <-.
        eapply frame_trans; [exact (IHa _ _ _ Ea)|exact (IHb _ _ _ Eb)|incl_tac|incl_tac].
      * destruct (meval G env b) as [[yv e1]|] eqn:Eb; [|discriminate]. destruct (meval G e1 a) as [[xv e2]|] eqn:Ea; [|discriminate].
        destruct (eval_binval _ _ _ _ _); [|discriminate]. injection H as _ <-.
        eapply frame_trans; [exact (IHb _ _ _ Eb)|exact (IHa _ _ _ Ea)|incl_tac|incl_tac].
  - cbn [meval] in H. destruct (meval G env a) as [[xv e1]|] eqn:Ea; [|discriminate]. injection H as _ <-. exact (IHa _ _ _ Ea).
  - cbn [meval] in H. destruct (meval G env c) as [[xv e1]|] eqn:Ec; [|discriminate].
    destruct (negb (xv =? 0)).
    + destruct (meval G e1 a) as [[yv e2]|] eqn:Ea; [|discriminate]. injection H as _ <-.
      eapply frame_trans; [exact (IHc _ _ _ Ec)|exact (IHa _ _ _ Ea)|incl_tac|incl_tac].
    + destruct (meval G e1 b) as [[yv e2]|] eqn:Eb; [|discriminate]. injection H as _ <-.
      eapply frame_trans; [exact (IHc _ _ _ Ec)|exact (IHb _ _ _ Eb)|incl_tac|incl_tac].
  - cbn [meval] in H. destruct (meval G env a) as [[xv e1]|] eqn:Ea; [|discriminate].
    eapply frame_trans; [exact (IHa _ _ _ Ea)|exact (IHb _ _ _ H)|incl_tac|incl_tac].
  - cbn [meval] in H. destruct (mem_nat x (writes a)); [discriminate|].
    destruct (meval G env a) as [[yv e1]|] eqn:Ea; [|discriminate]. injection H as _ <-.
    eapply frame_trans; [exact (IHa _ _ _ Ea)|apply (frame_vset [x]); left; reflexivity|incl_tac|incl_tac].
  - cbn [meval] in H. destruct (_ || _); [discriminate|].
    destruct (meval G env a) as [[yv e1]|] eqn:Ea; [|discriminate]. destruct (read_var G e1 x); [|discriminate].
    destruct (eval_binval _ _ _ _ _); [|discriminate]. injection H as _ <-.
    eapply frame_trans; [exact (IHa _ _ _ Ea)|apply (frame_vset [x]); left; reflexivity|incl_tac|incl_tac].
  - cbn [meval] in H. destruct (read_var G env x); [|discriminate]. destruct (eval_binval _ _ _ _ _); [|discriminate].
    injection H as _ <-. apply frame_vset. left. reflexivity.
Qed.

(* ---------- the result depends only on the variables the expression may read or write ---------- *)
Definition eqon (S : list nat) (e1 e2 : venv) : Prop :=
  length e1 = length e2 /\ forall z, In z S -> vget e1 z = vget e2 z.
Definition res_equiv (S : list nat) (r r' : option (Z * venv)) : Prop :=
  match r, r' with
  | Some (v, e1), Some (v', e1') => v = v' /\ eqon S e1 e1'
  | None, None => True
  | _, _ => False
  end.

Lemma vget_vset env x v z : vget (vset env x v) z = if Nat.eqb x z && (x <? length env)%nat then v else vget env z.
Proof.
  destruct (Nat.eqb_spec x z) as [<-|N]; cbn [andb].
  - destruct (Nat.ltb_spec x (length env)) as [L|L]; [apply vget_vset_same; exact L|].
    revert x L. induction env as [|a env IH]; intros [|x] L; cbn [vset length] in *; try reflexivity; try lia.
    unfold vget in *. cbn [nth]. apply IH. lia.
  - apply vget_vset_other. exact N.
Qed.

Lemma eqon_vset S e1 e2 x v : eqon S e1 e2 -> eqon S (vset e1 x v) (vset e2 x v).
Proof.
  intros [L H]. split; [rewrite !vset_length; exact L|]. intros z Hz. rewrite !vget_vset, L.
  destruct (_ && _); [reflexivity|apply H; exact Hz].
Qed.

Lemma read_var_eqon G S e1 e2 x : eqon S e1 e2 -> In x S -> read_var G e1 x = read_var G e2 x.
Proof. intros [_ H] Hx. unfold read_var. rewrite (H x Hx). reflexivity. Qed.

Ltac sub_incl H := let z := fresh "z" in let Hz := fresh "Hz" in
  intros z Hz; apply H; cbn [reads writes]; clear - Hz; rewrite ?in_app_iff in *; cbn [In] in *; tauto.

Lemma meval_indep G : forall e S env env',
  incl (reads e ++ writes e) S -> eqon S env env' -> res_equiv S (meval G env e) (meval G env' e).
Proof.
  induction e as [t v0|x|o a IHa|o a IHa b IHb|t a IHa|c IHc a IHa b IHb|a IHa b IHb|x a IHa|o x a IHa|post inc x];
    intros S env env' HI HE.
  - cbn [meval]. destruct (in_range t v0); cbn; auto.
  - cbn [meval]. rewrite (read_var_eqon G S env env' x HE) by (apply HI; left; reflexivity).
    destruct (read_var G env' x); cbn; auto.
  - cbn [meval]. assert (IA := IHa S env env' ltac:(sub_incl HI) HE).
    destruct (meval G env a) as [[xv e1]|], (meval G env' a) as [[xv' e1']|]; cbn in IA |- *; try contradiction; auto.
    destruct IA as [<- HE1]. destruct (eval_unval _ _ _); cbn; auto.
  - assert (IA := fun env env' => IHa S env env' ltac:(sub_incl HI)).
    assert (IB := fun env env' => IHb S env env' ltac:(sub_incl HI)).
    destruct (is_logical o) eqn:L.
    + destruct o; try discriminate L; cbn [meval]; specialize (IA env env' HE);
        (destruct (meval G env a) as [[xv e1]|], (meval G env' a) as [[xv' e1']|]; cbn in IA |- *; try contradiction; auto);
        destruct IA as [<- HE1];
        [destruct (xv =? 0)|destruct (negb (xv =? 0))]; cbn; auto;
        specialize (IB e1 e1' HE1);
        (destruct (meval G e1 b) as [[yv e2]|], (meval G e1' b) as [[yv' e2']|]; cbn in IB |- *; try contradiction; auto);
        destruct IB as [<- HE2]; auto.
    + rewrite !(meval_bin G _ o a b L). destruct (norace a b); [|exact I]. destruct (lhs_first o).
      * specialize (IA env env' HE).
        destruct (meval G env a) as [[xv e1]|], (meval G env' a) as [[xv' e1']|]; cbn in IA |- *; try contradiction; auto.
        destruct IA as [<- HE1]. specialize (IB e1 e1' HE1).
        destruct (meval G e1 b) as [[yv e2]|], (meval G e1' b) as [[yv' e2']|]; cbn in IB |- *; try contradiction; auto.
        destruct IB as [<- HE2]. destruct (eval_binval _ _ _ _ _); cbn; auto.
      * specialize (IB env env' HE).
        destruct (meval G env b) as [[yv e1]|], (meval G env' b) as [[yv' e1']|]; cbn in IB |- *; try contradiction; auto.
        destruct IB as [<- HE1]. specialize (IA e1 e1' HE1).
        destruct (meval G e1 a) as [[xv e2]|], (meval G e1' a) as [[xv' e2']|]; cbn in IA |- *; try contradiction; auto.
        destruct IA as [<- HE2]. destruct (eval_binval _ _ _ _ _); cbn; auto.
  - cbn [meval]. assert (IA := IHa S env env' ltac:(sub_incl HI) HE).
    destruct (meval G env a) as [[xv e1]|], (meval G env' a) as [[xv' e1']|]; cbn in IA |- *; try contradiction; auto.
    destruct IA as [<- HE1]. auto.
  - cbn [meval]. assert (IC := IHc S env env' ltac:(sub_incl HI) HE).
    destruct (meval G env c) as [[xv e1]|], (meval G env' c) as [[xv' e1']|]; cbn in IC |- *; try contradiction; auto.
    destruct IC as [<- HE1]. destruct (negb (xv =? 0)).
    + assert (IA := IHa S e1 e1' ltac:(sub_incl HI) HE1).
      destruct (meval G e1 a) as [[yv e2]|], (meval G e1' a) as [[yv' e2']|]; cbn in IA |- *; try contradiction; auto.
      destruct IA as [<- HE2]. auto.
    + assert (IB := IHb S e1 e1' ltac:(sub_incl HI) HE1).
      destruct (meval G e1 b) as [[yv e2]|], (meval G e1' b) as [[yv' e2']|]; cbn in IB |- *; try contradiction; auto.
      destruct IB as [<- HE2]. auto.
  - cbn [meval]. assert (IA := IHa S env env' ltac:(sub_incl HI) HE).
    destruct (meval G env a) as [[xv e1]|], (meval G env' a) as [[xv' e1']|]; cbn in IA |- *; try contradiction; auto.
    destruct IA as [_ HE1]. apply IHb; [sub_incl HI|exact HE1].
  - cbn [meval]. destruct (mem_nat x (writes a)); [exact I|].
    assert (IA := IHa S env env' ltac:(sub_incl HI) HE).
    destruct (meval G env a) as [[yv e1]|], (meval G env' a) as [[yv' e1']|]; cbn in IA |- *; try contradiction; auto.
    destruct IA as [<- HE1]. split; [reflexivity|apply eqon_vset; exact HE1].
  - cbn [meval]. destruct (_ || _); [exact I|].
    assert (IA := IHa S env env' ltac:(sub_incl HI) HE).
    destruct (meval G env a) as [[yv e1]|], (meval G env' a) as [[yv' e1']|]; cbn in IA |- *; try contradiction; auto.
    destruct IA as [<- HE1]. rewrite (read_var_eqon G S e1 e1' x HE1) by (apply HI; left; reflexivity).
    destruct (read_var G e1' x); cbn; auto. destruct (eval_binval _ _ _ _ _); cbn; auto.
    split; [reflexivity|apply eqon_vset; exact HE1].
  - cbn [meval]. rewrite (read_var_eqon G S env env' x HE) by (apply HI; left; reflexivity).
    destruct (read_var G env' x); cbn; auto. destruct (eval_binval _ _ _ _ _); cbn; auto.
    split; [reflexivity|apply eqon_vset; exact HE].
Qed.

(* ---------- the theorem ---------- *)
(* evaluate p, then q in the resulting store; the values of both and the final store *)
Definition eval_then (G : tyenv) (env : venv) (p q : mexpr) : option (Z * Z * venv) :=
  match meval G env p with
  | Some (x, e1) => match meval G e1 q with Some (y, e2) => Some (x, y, e2) | None => None end
  | None => None
  end.
Definition swap_res (r : option (Z * Z * venv)) : option (Z * Z * venv) :=
  match r with Some (y, x, e) => Some (x, y, e) | None => None end.

Lemma frame_eqon W S env env1 : frame_ok W env env1 -> (forall z, In z S -> ~ In z W) -> eqon S env env1.
Proof. intros [L H] HS. split; [symmetry; exact L|]. intros z Hz. symmetry. apply H. apply HS. exact Hz. Qed.

Definition outside (W : list nat) (n : nat) : list nat := filter (fun z => negb (mem_nat z W)) (seq 0 n).
Lemma outside_not W n z : In z (outside W n) -> ~ In z W.
Proof. unfold outside. rewrite filter_In. intros [_ H] Hin. apply mem_nat_In in Hin. rewrite Hin in H. discriminate. Qed.
Lemma outside_in W n z : (z < n)%nat -> ~ In z W -> In z (outside W n).
Proof.
  intros Hz Hn. unfold outside. rewrite filter_In. split; [apply in_seq; lia|].
  destruct (mem_nat z W) eqn:E; [apply mem_nat_In in E; contradiction|reflexivity].
Qed.

Theorem meval_order_irrelevant G a b env :
  norace a b = true -> eval_then G env a b = swap_res (eval_then G env b a).
Proof.
  intros Hn. unfold norace in Hn. apply andb_true_iff in Hn as [Da Db].
  pose proof (disjoint_spec _ _ Da) as DA. pose proof (disjoint_spec _ _ Db) as DB.
  set (N := length env).
  set (Sb := (reads b ++ writes b) ++ outside (writes a) N).
  set (Sa := (reads a ++ writes a) ++ outside (writes b) N).
  assert (HSb : forall z, In z Sb -> ~ In z (writes a)).
  { intros z Hz Hw. unfold Sb in Hz. apply in_app_iff in Hz as [Hz|Hz]; [exact (DA z Hw Hz)|exact (outside_not _ _ _ Hz Hw)]. }
  assert (HSa : forall z, In z Sa -> ~ In z (writes b)).
  { intros z Hz Hw. unfold Sa in Hz. apply in_app_iff in Hz as [Hz|Hz]; [exact (DB z Hw Hz)|exact (outside_not _ _ _ Hz Hw)]. }
  assert (Ib : incl (reads b ++ writes b) Sb) by (intros z Hz; unfold Sb; apply in_app_iff; left; exact Hz).
  assert (Ia : incl (reads a ++ writes a) Sa) by (intros z Hz; unfold Sa; apply in_app_iff; left; exact Hz).
  unfold eval_then.
  destruct (meval G env a) as [[x e1]|] eqn:Ea.
  - pose proof (meval_frame G a _ _ _ Ea) as FA.
    pose proof (meval_indep G b Sb env e1 Ib (frame_eqon _ _ _ _ FA HSb)) as IB.
    destruct (meval G env b) as [[y eb]|] eqn:Eb, (meval G e1 b) as [[y' e2]|] eqn:Eb1; cbn in IB; try contradiction; [|reflexivity].
    destruct IB as [<- [Lb Hb]].
    pose proof (meval_frame G b _ _ _ Eb) as FB. pose proof (meval_frame G b _ _ _ Eb1) as FB1.
    pose proof (meval_indep G a Sa env eb Ia (frame_eqon _ _ _ _ FB HSa)) as IA. rewrite Ea in IA.
    destruct (meval G eb a) as [[x' e2']|] eqn:Ea1; cbn in IA; [|contradiction].
    destruct IA as [<- [La Ha]]. pose proof (meval_frame G a _ _ _ Ea1) as FA1.
    cbn [swap_res]. f_equal. f_equal.
    destruct FA as [LA FA], FB as [LB FB], FB1 as [LB1 FB1], FA1 as [LA1 FA1].
    apply (nth_ext e2 e2' 0 0); [congruence|]. intros z Hz. fold (vget e2 z). fold (vget e2' z).
    destruct (mem_nat z (writes a)) eqn:Ez.
    + apply mem_nat_In in Ez. assert (HzSa : In z Sa) by (unfold Sa; rewrite !in_app_iff; auto).
      rewrite <- (Ha z HzSa). apply FB1. apply HSa. exact HzSa.
    + assert (Hnw : ~ In z (writes a)) by (intros Hin; apply mem_nat_In in Hin; congruence).
      assert (HzSb : In z Sb) by (unfold Sb; apply in_app_iff; right; apply outside_in; [unfold N; lia|exact Hnw]).
      rewrite <- (Hb z HzSb). symmetry. apply FA1. exact Hnw.
  - destruct (meval G env b) as [[y eb]|] eqn:Eb; [|reflexivity].
    pose proof (meval_frame G b _ _ _ Eb) as FB.
    pose proof (meval_indep G a Sa env eb Ia (frame_eqon _ _ _ _ FB HSa)) as IA. rewrite Ea in IA.
    destruct (meval G eb a) as [[x' e2']|]; cbn in IA; [contradiction|reflexivity].
Qed.

(* consequence for the specification: the order fixed in meval for a binary operator is immaterial *)
Corollary meval_bin_either_order G env o a b : is_logical o = false ->
  meval G env (MBin o a b) =
  if norace a b then
    match eval_then G env a b with
    | Some (x, y, e2) => match eval_binval o (mtype G a) (mtype G b) x y with Some v => Some (v, e2) | None => None end
    | None => None
    end
  else None.
Proof.
  intros L. rewrite (meval_bin G env o a b L). destruct (norace a b) eqn:Hn; [|reflexivity].
  destruct (lhs_first o).
  - unfold eval_then. destruct (meval G env a) as [[x e1]|]; [|reflexivity]. destruct (meval G e1 b) as [[y e2]|]; reflexivity.
  - rewrite (meval_order_irrelevant G a b env Hn). unfold eval_then.
    destruct (meval G env b) as [[y e1]|]; [|reflexivity]. destruct (meval G e1 a) as [[x e2]|]; reflexivity.
Qed.

(* ---------- the new specification extends C11Int.eval: on expressions without objects they coincide ---------- *)
Lemma pure_footprint : forall e e', to_expr e = Some e' -> reads e = [] /\ writes e = [].
Proof.
  induction e as [t v0|x|o a IHa|o a IHa b IHb|t a IHa|c IHc a IHa b IHb|a IHa b IHb|x a IHa|o x a IHa|post inc x];
    intros e' H; cbn [to_expr] in H; try discriminate H; cbn [reads writes].
  - auto.
  - destruct (to_expr a) as [a'|]; [|discriminate]. exact (IHa a' eq_refl).
  - destruct (to_expr a) as [a'|]; [|discriminate]. destruct (to_expr b) as [b'|]; [|discriminate].
    destruct (IHa a' eq_refl) as [-> ->]. destruct (IHb b' eq_refl) as [-> ->]. auto.
  - destruct (to_expr a) as [a'|]; [|discriminate]. exact (IHa a' eq_refl).
  - destruct (to_expr c) as [c'|]; [|discriminate]. destruct (to_expr a) as [a'|]; [|discriminate]. destruct (to_expr b) as [b'|]; [|discriminate].
    destruct (IHc c' eq_refl) as [-> ->]. destruct (IHa a' eq_refl) as [-> ->]. destruct (IHb b' eq_refl) as [-> ->]. auto.
  - destruct (to_expr a) as [a'|]; [|discriminate]. destruct (to_expr b) as [b'|]; [|discriminate].
    destruct (IHa a' eq_refl) as [-> ->]. destruct (IHb b' eq_refl) as [-> ->]. auto.
Qed.

Definition lift_res (env : venv) (r : option Z) : option (Z * venv) :=
  match r with Some v => Some (v, env) | None => None end.

Theorem meval_pure G : forall e e' env, to_expr e = Some e' ->
  mtype G e = type_of e' /\ meval G env e = lift_res env (eval e').
Proof.
  induction e as [t v0|x|o a IHa|o a IHa b IHb|t a IHa|c IHc a IHa b IHb|a IHa b IHb|x a IHa|o x a IHa|post inc x];
    intros e' env H; cbn [to_expr] in H; try discriminate H.
  - injection H as <-. split; [reflexivity|]. cbn [meval eval]. destruct (in_range t v0); reflexivity.
  - destruct (to_expr a) as [a'|] eqn:Ta; [|discriminate]. injection H as <-. destruct (IHa a' env eq_refl) as [Ty Ev].
    split; [destruct o; cbn [mtype type_of]; rewrite ?Ty; reflexivity|].
    cbn [meval eval]. rewrite Ev, Ty. destruct (eval a') as [xv|]; [|reflexivity]. cbn [lift_res]. unfold eval_unval.
    destruct o; cbn [lift_res]; try reflexivity.
    all: try (destruct (arith_result _ _); reflexivity).
  - destruct (to_expr a) as [a'|] eqn:Ta; [|discriminate]. destruct (to_expr b) as [b'|] eqn:Tb; [|discriminate]. injection H as <-.
    destruct (IHa a' env eq_refl) as [Tya Eva]. destruct (IHb b' env eq_refl) as [Tyb Evb].
    split; [cbn [mtype type_of]; rewrite Tya, Tyb; reflexivity|].
    destruct (is_logical o) eqn:L.
    + destruct o; try discriminate L; cbn [meval eval]; rewrite Eva; (destruct (eval a') as [xv|]; [|reflexivity]); cbn [lift_res];
        [destruct (xv =? 0)|destruct (negb (xv =? 0))]; try reflexivity; rewrite Evb; destruct (eval b'); reflexivity.
    + rewrite (meval_bin G env o a b L). unfold norace.
      destruct (pure_footprint a a' Ta) as [-> ->]. destruct (pure_footprint b b' Tb) as [-> ->]. cbn [disjoint forallb andb].
      assert (Eb2 : forall env0, meval G env0 b = lift_res env0 (eval b')) by (intros env0; apply (IHb b' env0 eq_refl)).
      assert (Ea2 : forall env0, meval G env0 a = lift_res env0 (eval a')) by (intros env0; apply (IHa a' env0 eq_refl)).
      unfold eval_binval. rewrite Tya, Tyb.
      destruct o; try discriminate L; cbn [eval lhs_first is_arith is_shift is_cmp];
        (first [rewrite Eb2; destruct (eval b') as [yv|]; cbn [lift_res];
                  [rewrite Ea2; destruct (eval a') as [xv|]; cbn [lift_res]|destruct (eval a')]
               |rewrite Ea2; destruct (eval a') as [xv|]; cbn [lift_res];
                  [rewrite Eb2; destruct (eval b') as [yv|]; cbn [lift_res]|]]);
        reflexivity.
  - destruct (to_expr a) as [a'|] eqn:Ta; [|discriminate]. injection H as <-. destruct (IHa a' env eq_refl) as [Ty Ev].
    split; [reflexivity|]. cbn [meval eval]. rewrite Ev. destruct (eval a'); reflexivity.
  - destruct (to_expr c) as [c'|] eqn:Tc; [|discriminate]. destruct (to_expr a) as [a'|] eqn:Ta; [|discriminate].
    destruct (to_expr b) as [b'|] eqn:Tb; [|discriminate]. injection H as <-.
    destruct (IHc c' env eq_refl) as [Tyc Evc].
    split; [cbn [mtype type_of]; rewrite (proj1 (IHa a' env eq_refl)), (proj1 (IHb b' env eq_refl)); reflexivity|].
    cbn [meval eval]. rewrite Evc. destruct (eval c') as [xv|]; [|reflexivity]. cbn [lift_res].
    rewrite (proj1 (IHa a' env eq_refl)), (proj1 (IHb b' env eq_refl)).
    destruct (negb (xv =? 0)).
    + rewrite (proj2 (IHa a' env eq_refl)). destruct (eval a'); reflexivity.
    + rewrite (proj2 (IHb b' env eq_refl)). destruct (eval b'); reflexivity.
  - destruct (to_expr a) as [a'|] eqn:Ta; [|discriminate]. destruct (to_expr b) as [b'|] eqn:Tb; [|discriminate]. injection H as <-.
    split; [cbn [mtype type_of]; apply (IHb b' env eq_refl)|].
    cbn [meval eval]. rewrite (proj2 (IHa a' env eq_refl)). destruct (eval a'); [|reflexivity]. cbn [lift_res]. apply (IHb b' env eq_refl).
Qed.
