(* C03 (package sw): the jump code of Model/LoweringSw.v simulates the structured semantics of
   Spec/SwSem.v - switch with fall-through, default anywhere, case labels in nested blocks / ifs /
   loops, break / continue through switches and loops, labelled statements and goto. *)
From Coq Require Import List Arith Bool Lia.
Import ListNotations.
From Chibicc Require Import Spec.SwSem Model.LoweringSw.

(* ---------- code embedded in a program ---------- *)
Definition sembedded (P : list sinstr) (p : nat) (code : list sinstr) : Prop :=
  forall i ins, nth_error code i = Some ins -> nth_error P (p + i) = Some ins.

Lemma semb_app P p a b : sembedded P p (a ++ b) -> sembedded P p a /\ sembedded P (p + length a) b.
Proof.
  intros H. split; intros i ins Hi.
  - apply H. rewrite nth_error_app1; [exact Hi|]. apply nth_error_Some. rewrite Hi. discriminate.
  - rewrite <- Nat.add_assoc. apply H. rewrite nth_error_app2 by lia. replace (length a + i - length a) with i by lia. exact Hi.
Qed.
Lemma semb_one P p ins : sembedded P p [ins] -> nth_error P p = Some ins.
Proof. intros H. specialize (H 0 ins eq_refl). rewrite Nat.add_0_r in H. exact H. Qed.
Lemma semb_cons P p ins code : sembedded P p (ins :: code) -> nth_error P p = Some ins /\ sembedded P (p + 1) code.
Proof. intros H. change (ins :: code) with ([ins] ++ code) in H. apply semb_app in H. destruct H as [H1 H2]. split; [apply semb_one; exact H1|exact H2]. Qed.
Lemma semb_self P : sembedded P 0 P.
Proof. intros i ins Hi. exact Hi. Qed.

(* ---------- runs ---------- *)
Lemma sstar_trans P s1 t1 s2 t2 s3 : sstar P s1 t1 s2 -> sstar P s2 t2 s3 -> sstar P s1 (t1 ++ t2) s3.
Proof. induction 1 as [|st ev st' tr st'' Hs _ IH]; intros H2; [exact H2|]. rewrite <- app_assoc. eapply sstar_step; [exact Hs|apply IH; exact H2]. Qed.
Lemma sstar_one P s ev s' : sstep P s = Some (ev, s') -> sstar P s ev s'.
Proof. intros H. rewrite <- (app_nil_r ev). eapply sstar_step; [exact H|apply sstar_refl]. Qed.

(* a run whatever the register holds at its start (the register is only read by the compare
   chain of a switch, right after JSel wrote it) *)
Definition sreach (P : list sinstr) (q : nat) (o : soracle) (tr : strace) (q' : nat) (o' : soracle) : Prop :=
  forall r, exists r', sstar P (q, o, r) tr (q', o', r').

Lemma sreach_refl P q o : sreach P q o [] q o.
Proof. intros r. exists r. apply sstar_refl. Qed.
Lemma sreach_trans P q1 o1 t1 q2 o2 t2 q3 o3 : sreach P q1 o1 t1 q2 o2 -> sreach P q2 o2 t2 q3 o3 -> sreach P q1 o1 (t1 ++ t2) q3 o3.
Proof. intros H1 H2 r. destruct (H1 r) as [r1 S1]. destruct (H2 r1) as [r2 S2]. exists r2. eapply sstar_trans; [exact S1|exact S2]. Qed.
Lemma sreach_eq P q o tr q' o' tr' q'' : sreach P q o tr q' o' -> tr = tr' -> q' = q'' -> sreach P q o tr' q'' o'.
Proof. intros H -> ->. exact H. Qed.

Lemma sreach_mark P q o n : nth_error P q = Some (JMark n) -> sreach P q o [n] (q + 1) o.
Proof. intros H r. exists r. apply sstar_one. unfold sstep. rewrite H. replace (q + 1) with (S q) by lia. reflexivity. Qed.
Lemma sreach_jmp P q o t : nth_error P q = Some (JJmp t) -> sreach P q o [] t o.
Proof. intros H r. exists r. apply sstar_one. unfold sstep. rewrite H. reflexivity. Qed.
Lemma sreach_jf P q o k t v : nth_error P q = Some (JCondJf k t) -> sreach P q (v :: o) [k] (if v =? 0 then t else q + 1) o.
Proof. intros H r. exists r. apply sstar_one. unfold sstep. rewrite H. replace (q + 1) with (S q) by lia. reflexivity. Qed.
Lemma sreach_jt P q o k t v : nth_error P q = Some (JCondJt k t) -> sreach P q (v :: o) [k] (if v =? 0 then q + 1 else t) o.
Proof. intros H r. exists r. apply sstar_one. unfold sstep. rewrite H. replace (q + 1) with (S q) by lia. reflexivity. Qed.
Lemma sreach_marks P l : forall q o, sembedded P q (map JMark l) -> sreach P q o l (q + length l) o.
Proof.
  induction l as [|n l IH]; intros q o H; cbn [length map] in *.
  - rewrite Nat.add_0_r. apply sreach_refl.
  - apply semb_cons in H. destruct H as [H1 H2]. change (n :: l) with ([n] ++ l).
    eapply sreach_trans; [apply sreach_mark; exact H1|]. replace (q + S (length l)) with (q + 1 + length l) by lia. apply IH. exact H2.
Qed.

(* ---------- sizes ---------- *)
Lemma scases_vals : forall s p, map fst (scases s p) = scvals s.
Proof.
  induction s as [n| |a IHa b IHb|k a IHa b IHb|init k inc body IHb|body IHb k| | |k body IHb|c s IHs|s IHs|l s IHs|l|ki tab]; intros p; cbn [scases scvals map]; try reflexivity;
    rewrite ?map_app, ?IHa, ?IHb, ?IHs; reflexivity.
Qed.
Lemma scases_length s p : length (scases s p) = length (scvals s).
Proof. rewrite <- (scases_vals s p). rewrite map_length. reflexivity. Qed.
Lemma sdefaults_length : forall s p, length (sdefaults s p) = sndef s.
Proof.
  induction s as [n| |a IHa b IHb|k a IHa b IHb|init k inc body IHb|body IHb k| | |k body IHb|c s IHs|s IHs|l s IHs|l|ki tab]; intros p; cbn [sdefaults sndef length]; try reflexivity;
    rewrite ?app_length, ?IHa, ?IHb, ?IHs; cbn [length]; try reflexivity; lia.
Qed.
Lemma slabels_names : forall s p, map fst (slabels s p) = slabnames s.
Proof.
  induction s as [n| |a IHa b IHb|k a IHa b IHb|init k inc body IHb|body IHb k| | |k body IHb|c s IHs|s IHs|l s IHs|l|ki tab]; intros p; cbn [slabels slabnames map]; try reflexivity;
    rewrite ?map_app, ?IHa, ?IHb, ?IHs; reflexivity.
Qed.

Lemma slast_length l : length (match slast l with Some d => [JJmp d] | None => [] end) = if length l =? 0 then 0 else 1.
Proof.
  unfold slast. rewrite <- (rev_length l). destruct (rev l); reflexivity.
Qed.

Lemma sgen_length lt : forall s p b c, length (sgen lt s p b c) = ssize s.
Proof.
  induction s as [n| |a IHa b0 IHb|k a IHa b0 IHb|init k inc body IHb|body IHb k| | |k body IHb|c0 s IHs|s IHs|l s IHs|l|ki tab]; intros p b c; cbn [sgen ssize length]; try reflexivity.
  - rewrite app_length, IHa, IHb. reflexivity.
  - rewrite !app_length, IHa, IHb. cbn [length]. lia.
  - rewrite !app_length, IHb, !map_length. destruct k; cbn [length sklen]; lia.
  - rewrite app_length, IHb. cbn [length]. lia.
  - rewrite !app_length, IHb, map_length, rev_length, scases_length, slast_length, sdefaults_length. cbn [length]. unfold sswitch_head. lia.
  - apply IHs.
  - apply IHs.
  - apply IHs.
Qed.

(* ---------- where a label is: the position gen_stmt prints it at, found in the order the
   structured semantics looks for it ---------- *)
Fixpoint spos (t : starget) (s : sstmt) (p : nat) : option nat :=
  match s with
  | SSeq a b => match spos t a p with Some q => Some q | None => spos t b (p + ssize a) end
  | SIf _ a b => match spos t a (p + 1) with Some q => Some q | None => spos t b (p + 1 + ssize a + 1) end
  | SFor init k _ body => spos t body (p + length init + sklen k)
  | SDo body _ => spos t body p
  | SSwitch _ body => match t with TLabel _ => spos t body (p + sswitch_head body) | _ => None end
  | SCase c s1 => if starget_eqb t (TCase c) then Some p else spos t s1 p
  | SDefault s1 => if starget_eqb t TDefault then Some p else spos t s1 p
  | SLabel l s1 => if starget_eqb t (TLabel l) then Some p else spos t s1 p
  | _ => None
  end.

(* where execution in mode m enters the code of s generated at p *)
Definition sentry (m : smode) (s : sstmt) (p : nat) : option nat :=
  match m with None => Some p | Some t => spos t s p end.

(* where control is after s (generated at p, with brk / cont) completed with outcome out *)
Definition sout_target (lt : list (nat * nat)) (out : soutcome) (p : nat) (s : sstmt) (b c : nat) : nat :=
  match out with
  | RNormal => p + ssize s
  | RBreak => b
  | RCont => c
  | RGoto l => slabel_target lt l
  | RSeek => p
  end.

Definition sconcl lt (P : list sinstr) (m : smode) (s : sstmt) (p b c : nat) (o : soracle) (tr : strace) (o' : soracle) (out : soutcome) : Prop :=
  match sentry m s p with
  | None => out = RSeek /\ tr = [] /\ o' = o
  | Some q => out <> RSeek /\ sreach P q o tr (sout_target lt out p s b c) o'
  end.

Definition sim_at lt (f : nat) : Prop :=
  forall m s o tr o' out, sexec f m s o = Some (tr, o', out) -> swf s = true ->
  forall P p b c, sembedded P p (sgen lt s p b c) -> sconcl lt P m s p b c o tr o' out.

Lemma sentry_seq m a b p : sentry m (SSeq a b) p = match sentry m a p with Some q => Some q | None => sentry m b (p + ssize a) end.
Proof. destruct m; reflexivity. Qed.
Lemma starget_eqb_refl t : starget_eqb t t = true.
Proof. destruct t; cbn; try reflexivity; apply Nat.eqb_refl. Qed.
Lemma sentry_arrive m here s p :
  (match m with Some t => if starget_eqb t here then Some p else spos t s p | None => Some p end) = sentry (sarrive m here) s p.
Proof. destruct m as [t|]; cbn [sarrive sentry]; [|reflexivity]. destruct (starget_eqb t here); reflexivity. Qed.

(* ---------- the label tables ---------- *)
Lemma find_fst_none (l : list (nat * nat)) v : ~ In v (map fst l) -> find (fun e => fst e =? v) l = None.
Proof.
  induction l as [|[c t] l IH]; intros H; cbn [find map fst] in *; [reflexivity|].
  destruct (c =? v) eqn:E; [apply Nat.eqb_eq in E; subst; exfalso; apply H; left; reflexivity|]. apply IH. intros Hin. apply H. right. exact Hin.
Qed.
Lemma find_fst_nodup (l : list (nat * nat)) v t : NoDup (map fst l) -> In (v, t) l -> find (fun e => fst e =? v) l = Some (v, t).
Proof.
  induction l as [|[c t0] l IH]; intros Hnd Hin; cbn [find map fst] in *; [contradiction|].
  inversion Hnd as [|x xs Hx Hnd']; subst. destruct Hin as [Heq|Hin].
  - injection Heq as -> ->. rewrite Nat.eqb_refl. reflexivity.
  - destruct (c =? v) eqn:E; [|apply IH; assumption]. apply Nat.eqb_eq in E. subst. exfalso. apply Hx. change v with (fst (v, t)). apply in_map. exact Hin.
Qed.
Lemma snodup_NoDup l : snodup l = true -> NoDup l.
Proof.
  induction l as [|x l IH]; intros H; [constructor|]. cbn [snodup] in H. apply andb_prop in H. destruct H as [H1 H2]. constructor; [|apply IH; exact H2].
  intros Hin. apply negb_true_iff in H1. assert (existsb (Nat.eqb x) l = true) as Hx; [|congruence]. apply existsb_exists. exists x. split; [exact Hin|apply Nat.eqb_refl].
Qed.
Lemma NoDup_app_single (l : list nat) x : NoDup l -> ~ In x l -> NoDup (l ++ [x]).
Proof.
  induction l as [|y l IH]; intros Hnd Hx; cbn [app]; [constructor; [intros []|constructor]|].
  inversion Hnd as [|z zs Hy Hnd']; subst. constructor.
  - rewrite in_app_iff. intros [H|[H|[]]]; [exact (Hy H)|]. apply Hx. left. symmetry. exact H.
  - apply IH; [exact Hnd'|]. intros H. apply Hx. right. exact H.
Qed.
Lemma NoDup_rev_nat (l : list nat) : NoDup l -> NoDup (rev l).
Proof.
  induction l as [|x l IH]; intros H; [constructor|]. inversion H as [|y ys Hx Hnd]; subst. cbn [rev].
  apply NoDup_app_single; [apply IH; exact Hnd|]. rewrite <- in_rev. exact Hx.
Qed.
(* the first entry of the reversed table with the name is THE entry, when names are distinct *)
Lemma find_rev_nodup (l : list (nat * nat)) v t : NoDup (map fst l) -> In (v, t) l -> find (fun e => fst e =? v) (rev l) = Some (v, t).
Proof.
  intros Hnd Hin. apply find_fst_nodup; [rewrite map_rev; apply NoDup_rev_nat; exact Hnd|rewrite <- in_rev; exact Hin].
Qed.
Lemma find_rev_none (l : list (nat * nat)) v : ~ In v (map fst l) -> find (fun e => fst e =? v) (rev l) = None.
Proof. intros H. apply find_fst_none. rewrite map_rev, <- in_rev. exact H. Qed.

Lemma spos_case_in : forall s p v q, spos (TCase v) s p = Some q -> In (v, q) (scases s p).
Proof.
  induction s as [n| |a IHa b IHb|k a IHa b IHb|init k inc body IHb|body IHb k| | |k body IHb|c s IHs|s IHs|l s IHs|l|ki tab]; intros p v q H; cbn [spos scases starget_eqb] in *; try discriminate.
  - rewrite in_app_iff. destruct (spos (TCase v) a p) eqn:E; [injection H as ->; left; apply IHa; exact E|right; apply IHb; exact H].
  - rewrite in_app_iff. destruct (spos (TCase v) a (p + 1)) eqn:E; [injection H as ->; left; apply IHa; exact E|right; apply IHb; exact H].
  - apply IHb. exact H.
  - apply IHb. exact H.
  - rewrite in_app_iff. destruct (v =? c) eqn:E; [apply Nat.eqb_eq in E; injection H as <-; subst; right; left; reflexivity|left; apply IHs; exact H].
  - apply IHs. exact H.
  - apply IHs. exact H.
Qed.
Lemma spos_case_none : forall s p v, spos (TCase v) s p = None -> ~ In v (scvals s).
Proof.
  induction s as [n| |a IHa b IHb|k a IHa b IHb|init k inc body IHb|body IHb k| | |k body IHb|c s IHs|s IHs|l s IHs|l|ki tab]; intros p v H; cbn [spos scvals starget_eqb] in *; try (intros []).
  - rewrite in_app_iff. destruct (spos (TCase v) a p) eqn:E; [discriminate|]. intros [Hi|Hi]; [exact (IHa _ _ E Hi)|exact (IHb _ _ H Hi)].
  - rewrite in_app_iff. destruct (spos (TCase v) a (p + 1)) eqn:E; [discriminate|]. intros [Hi|Hi]; [exact (IHa _ _ E Hi)|exact (IHb _ _ H Hi)].
  - eapply IHb. exact H.
  - eapply IHb. exact H.
  - rewrite in_app_iff. destruct (v =? c) eqn:E; [discriminate|]. apply Nat.eqb_neq in E. intros [Hi|[Hi|[]]]; [exact (IHs _ _ H Hi)|congruence].
  - eapply IHs. exact H.
  - eapply IHs. exact H.
Qed.
Lemma spos_default_in : forall s p q, spos TDefault s p = Some q -> In q (sdefaults s p).
Proof.
  induction s as [n| |a IHa b IHb|k a IHa b IHb|init k inc body IHb|body IHb k| | |k body IHb|c s IHs|s IHs|l s IHs|l|ki tab]; intros p q H; cbn [spos sdefaults starget_eqb] in *; try discriminate.
  - rewrite in_app_iff. destruct (spos TDefault a p) eqn:E; [injection H as ->; left; apply IHa; exact E|right; apply IHb; exact H].
  - rewrite in_app_iff. destruct (spos TDefault a (p + 1)) eqn:E; [injection H as ->; left; apply IHa; exact E|right; apply IHb; exact H].
  - apply IHb. exact H.
  - apply IHb. exact H.
  - apply IHs. exact H.
  - injection H as <-. rewrite in_app_iff. right. left. reflexivity.
  - apply IHs. exact H.
Qed.
Lemma spos_default_none : forall s p, spos TDefault s p = None -> sndef s = 0.
Proof.
  induction s as [n| |a IHa b IHb|k a IHa b IHb|init k inc body IHb|body IHb k| | |k body IHb|c s IHs|s IHs|l s IHs|l|ki tab]; intros p H; cbn [spos sndef starget_eqb] in *; try reflexivity; try discriminate.
  - destruct (spos TDefault a p) eqn:E; [discriminate|]. rewrite (IHa _ E), (IHb _ H). reflexivity.
  - destruct (spos TDefault a (p + 1)) eqn:E; [discriminate|]. rewrite (IHa _ E), (IHb _ H). reflexivity.
  - eapply IHb. exact H.
  - eapply IHb. exact H.
  - eapply IHs. exact H.
  - eapply IHs. exact H.
Qed.
Lemma spos_label_in : forall s p l q, spos (TLabel l) s p = Some q -> In (l, q) (slabels s p).
Proof.
  induction s as [n| |a IHa b IHb|k a IHa b IHb|init k inc body IHb|body IHb k| | |k body IHb|c s IHs|s IHs|l0 s IHs|l0|ki tab]; intros p l q H; cbn [spos slabels starget_eqb] in *; try discriminate.
  - rewrite in_app_iff. destruct (spos (TLabel l) a p) eqn:E; [injection H as ->; left; apply IHa; exact E|right; apply IHb; exact H].
  - rewrite in_app_iff. destruct (spos (TLabel l) a (p + 1)) eqn:E; [injection H as ->; left; apply IHa; exact E|right; apply IHb; exact H].
  - apply IHb. exact H.
  - apply IHb. exact H.
  - apply IHb. exact H.
  - apply IHs. exact H.
  - apply IHs. exact H.
  - rewrite in_app_iff. destruct (l =? l0) eqn:E; [apply Nat.eqb_eq in E; injection H as <-; subst; right; left; reflexivity|left; apply IHs; exact H].
Qed.

(* the compare chain: with the controlling value in the register, control goes to the target of
   the first case with that constant, else past the chain *)
Lemma schain_run P : forall (l : list (nat * nat)) q o v, sembedded P q (map (fun ct => JCase (fst ct) (snd ct)) l) ->
  sstar P (q, o, v) [] (match find (fun ct => fst ct =? v) l with Some ct => snd ct | None => q + length l end, o, v).
Proof.
  induction l as [|[c t] l IH]; intros q o v H; cbn [map find fst snd length] in *.
  - rewrite Nat.add_0_r. apply sstar_refl.
  - apply semb_cons in H. destruct H as [H1 H2]. rewrite (Nat.eqb_sym c v).
    change (@nil nat) with (@nil nat ++ []). eapply sstar_step; [unfold sstep; rewrite H1; reflexivity|].
    destruct (v =? c); [apply sstar_refl|]. replace (S q) with (q + 1) by lia. replace (q + S (length l)) with (q + 1 + length l) by lia. apply IH. exact H2.
Qed.

(* ---------- loops ---------- *)
Lemma spre_inv t r tr o' out : spre t r = Some (tr, o', out) -> exists t1, r = Some (t1, o', out) /\ tr = t ++ t1.
Proof. destruct r as [[[t1 o1] out1]|]; cbn [spre]; [|discriminate]. intros H. injection H as <- <- <-. exists t1. split; reflexivity. Qed.
Definition sloop_target (lt : list (nat * nat)) (out : soutcome) (pbrk : nat) : nat :=
  match out with RGoto l => slabel_target lt l | _ => pbrk end.
Definition sloop_out (out : soutcome) : Prop := out = RNormal \/ exists l, out = RGoto l.
(* `loop`, started at position `begin`, ends at the break target or at the label of a goto *)
Definition sloop_ok lt (P : list sinstr) (loop : soracle -> option sres) (begin pbrk : nat) : Prop :=
  forall o tr o' out, loop o = Some (tr, o', out) -> sloop_out out /\ sreach P begin o tr (sloop_target lt out pbrk) o'.

Lemma sfor_after_sim lt P loop inc body pbody begin pbrk :
  sloop_ok lt P loop begin pbrk ->
  sembedded P (pbody + ssize body) (map JMark inc ++ [JJmp begin]) ->
  forall q o t1 o1 out1 tr o' out,
    out1 <> RSeek -> sreach P q o t1 (sout_target lt out1 pbody body pbrk (pbody + ssize body)) o1 ->
    sfor_after loop inc (Some (t1, o1, out1)) = Some (tr, o', out) ->
    sloop_out out /\ sreach P q o tr (sloop_target lt out pbrk) o'.
Proof.
  intros Hloop Hemb q o t1 o1 out1 tr o' out Hns Sb H.
  apply semb_app in Hemb. destruct Hemb as [Hinc Hj]. rewrite map_length in Hj. apply semb_one in Hj.
  assert (Hgo : sreach P q o t1 (pbody + ssize body) o1 -> spre (t1 ++ inc) (loop o1) = Some (tr, o', out) ->
                sloop_out out /\ sreach P q o tr (sloop_target lt out pbrk) o').
  { intros Sx Hx. destruct (loop o1) as [[[t3 o3] out3]|] eqn:El; [|discriminate]. cbn [spre] in Hx. injection Hx as <- <- <-.
    destruct (Hloop _ _ _ _ El) as [Ho Sl]. split; [exact Ho|].
    eapply sreach_trans; [eapply sreach_trans; [exact Sx|apply sreach_marks; exact Hinc]|].
    change t3 with ([] ++ t3). eapply sreach_trans; [apply sreach_jmp; exact Hj|exact Sl]. }
  destruct out1; cbn [sfor_after sout_target] in *.
  - apply Hgo; assumption.
  - injection H as <- <- <-. split; [left; reflexivity|exact Sb].
  - apply Hgo; assumption.
  - injection H as <- <- <-. split; [right; exists l; reflexivity|exact Sb].
  - congruence.
Qed.

Lemma sfor_loop_sim lt f (IH : sim_at lt f) k inc body P begin : swf body = true ->
  let pbody := begin + sklen k in
  let pcont := pbody + ssize body in
  let pbrk := pcont + length inc + 1 in
  sembedded P begin ((match k with Some kk => [JCondJf kk pbrk] | None => [] end) ++ sgen lt body pbody pbrk pcont ++ map JMark inc ++ [JJmp begin]) ->
  forall fuel, sloop_ok lt P (sfor_loop (sexec f None) fuel k inc body) begin pbrk.
Proof.
  intros Hwf pbody pcont pbrk Hemb. apply semb_app in Hemb. destruct Hemb as [Hc Hrest].
  assert (Hlen : begin + length (match k with Some kk => [JCondJf kk pbrk] | None => [] end) = pbody) by (subst pbody; destruct k; cbn [length sklen]; lia).
  rewrite Hlen in Hrest. apply semb_app in Hrest. destruct Hrest as [Hbody Htail]. rewrite sgen_length in Htail. fold pcont in Htail.
  induction fuel as [|fuel IHl]; intros o tr o' out H; cbn [sfor_loop] in H; [discriminate|].
  assert (Hbodyrun : forall o0 r, sexec f None body o0 = r -> forall t0 tr0 o0' out0,
            sreach P begin o t0 pbody o0 ->
            spre t0 (sfor_after (sfor_loop (sexec f None) fuel k inc body) inc r) = Some (tr0, o0', out0) ->
            sloop_out out0 /\ sreach P begin o tr0 (sloop_target lt out0 pbrk) o0').
  { intros o0 r Er t0 tr0 o0' out0 S0 Hx. destruct r as [[[t1 o1] out1]|]; [|discriminate].
    pose proof (IH _ _ _ _ _ _ Er Hwf P pbody pbrk pcont Hbody) as Sb. unfold sconcl in Sb. cbn [sentry] in Sb. destruct Sb as [Hns Sb].
    apply spre_inv in Hx. destruct Hx as (t2 & Ea & ->). rename o0' into o2. rename out0 into out2.
    destruct (sfor_after_sim lt P _ inc body pbody begin pbrk IHl Htail pbody o0 t1 o1 out1 t2 o2 out2 Hns Sb Ea) as [Ho Sa].
    split; [exact Ho|]. eapply sreach_trans; [exact S0|exact Sa]. }
  destruct k as [kk|].
  - apply semb_one in Hc. destruct o as [|v o1]; [discriminate|].
    pose proof (sreach_jf P begin o1 kk pbrk v Hc) as Sc. destruct (v =? 0) eqn:Ev.
    + injection H as <- <- <-. split; [left; reflexivity|exact Sc].
    + apply (Hbodyrun o1 _ eq_refl [kk] tr o' out); [|exact H]. subst pbody. cbn [sklen]. exact Sc.
  - apply (Hbodyrun o _ eq_refl [] tr o' out); [|cbn [spre app]; destruct (sfor_after _ _ _) as [[[ta oa] outa]|]; exact H].
    subst pbody. cbn [sklen]. rewrite Nat.add_0_r. apply sreach_refl.
Qed.

Lemma sdo_after_sim lt P loop k body p :
  let pcont := p + ssize body in
  sloop_ok lt P loop p (pcont + 1) ->
  nth_error P pcont = Some (JCondJt k p) ->
  forall q o t1 o1 out1 tr o' out,
    out1 <> RSeek -> sreach P q o t1 (sout_target lt out1 p body (pcont + 1) pcont) o1 ->
    sdo_after loop k (Some (t1, o1, out1)) = Some (tr, o', out) ->
    sloop_out out /\ sreach P q o tr (sloop_target lt out (pcont + 1)) o'.
Proof.
  intros pcont Hloop Hc q o t1 o1 out1 tr o' out Hns Sb H.
  assert (Hgo : sreach P q o t1 pcont o1 ->
                match o1 with
                | [] => None
                | v :: o2 => if v =? 0 then Some (t1 ++ [k], o2, RNormal) else spre (t1 ++ [k]) (loop o2)
                end = Some (tr, o', out) ->
                sloop_out out /\ sreach P q o tr (sloop_target lt out (pcont + 1)) o').
  { intros Sx Hx. destruct o1 as [|v o2]; [discriminate|]. pose proof (sreach_jt P pcont o2 k p v Hc) as Sc. destruct (v =? 0).
    - injection Hx as <- <- <-. split; [left; reflexivity|]. eapply sreach_trans; [exact Sx|exact Sc].
    - destruct (loop o2) as [[[t3 o3] out3]|] eqn:El; [|discriminate]. cbn [spre] in Hx. injection Hx as <- <- <-.
      destruct (Hloop _ _ _ _ El) as [Ho Sl]. split; [exact Ho|]. eapply sreach_trans; [eapply sreach_trans; [exact Sx|exact Sc]|exact Sl]. }
  destruct out1; cbn [sdo_after sout_target] in *.
  - apply Hgo; assumption.
  - injection H as <- <- <-. split; [left; reflexivity|exact Sb].
  - apply Hgo; assumption.
  - injection H as <- <- <-. split; [right; exists l; reflexivity|exact Sb].
  - congruence.
Qed.

Lemma sdo_loop_sim lt f (IH : sim_at lt f) body k P p : swf body = true ->
  let pcont := p + ssize body in
  sembedded P p (sgen lt body p (pcont + 1) pcont ++ [JCondJt k p]) ->
  forall fuel, sloop_ok lt P (sdo_loop (sexec f None) fuel body k) p (pcont + 1).
Proof.
  intros Hwf pcont Hemb. apply semb_app in Hemb. destruct Hemb as [Hbody Hc]. rewrite sgen_length in Hc. apply semb_one in Hc. fold pcont in Hc.
  induction fuel as [|fuel IHl]; intros o tr o' out H; cbn [sdo_loop] in H; [discriminate|].
  destruct (sexec f None body o) as [[[t1 o1] out1]|] eqn:Eb; [|discriminate].
  pose proof (IH _ _ _ _ _ _ Eb Hwf P p (pcont + 1) pcont Hbody) as Sb. unfold sconcl in Sb. cbn [sentry] in Sb. destruct Sb as [Hns Sb].
  exact (sdo_after_sim lt P _ k body p IHl Hc p o t1 o1 out1 tr o' out Hns Sb H).
Qed.

(* ---------- switch ---------- *)
(* cond; compare chain: from the start of the switch to the label of the first case of the chain
   with the value, else to the instruction after the chain *)
Lemma sswitch_dispatch P p k (cases : list (nat * nat)) v o :
  nth_error P p = Some (JSel k) ->
  sembedded P (p + 1) (map (fun ct => JCase (fst ct) (snd ct)) cases) ->
  sreach P p (v :: o) [k] (match find (fun ct => fst ct =? v) cases with Some ct => snd ct | None => p + 1 + length cases end) o.
Proof.
  intros Hsel Hchain r. exists v. rewrite <- (app_nil_r [k]). eapply sstar_step; [unfold sstep; rewrite Hsel; reflexivity|].
  replace (S p) with (p + 1) by lia. apply schain_run. exact Hchain.
Qed.

Lemma sswitch_end_target lt t1 o1 out1 tr o' out p k body b c :
  sswitch_end (Some (t1, o1, out1)) = Some (tr, o', out) -> out1 <> RSeek ->
  tr = t1 /\ o' = o1 /\ out <> RSeek /\
  sout_target lt out1 (p + sswitch_head body) body (p + sswitch_head body + ssize body) c = sout_target lt out p (SSwitch k body) b c.
Proof.
  intros H Hns. destruct out1; cbn [sswitch_end] in H; injection H as <- <- <-; cbn [sout_target ssize]; repeat split; try discriminate; try congruence; lia.
Qed.

Lemma sentry_label m here s p (s' : sstmt) :
  (forall t, spos t s' p = if starget_eqb t here then Some p else spos t s p) ->
  sentry m s' p = sentry (sarrive m here) s p.
Proof.
  intros Hs. destruct m as [t|]; cbn [sarrive sentry]; [|reflexivity]. rewrite Hs. destruct (starget_eqb t here); reflexivity.
Qed.

(* ---------- the simulation ---------- *)
(* The code of a statement, embedded anywhere in a program, does what the structured semantics
   says: entered at its beginning, or - looking for a label - at the position of that label when
   the statement contains it (and then something is executed) and not at all when it does not
   (and then nothing is executed); same markers in the same order, same oracle values consumed;
   control ends at the end of the statement, at the break / continue target in force, or at the
   position the function's label table gives for the label of a goto. *)
Theorem sw_lowering_simulates lt : forall f, sim_at lt f.
Proof.
  induction f as [|f IH]; intros m s o tr o' out H Hwf P p b c Hemb; [discriminate|].
  destruct s as [n| |a b0|k a b0|init k inc body|body k| | |k body|c0 s1|s1|l s1|l|ki tab]; cbn [sexec] in H; cbn [swf] in Hwf; cbn [sgen] in Hemb; unfold sconcl.
  - (* marker *)
    destruct m as [t|]; injection H as <- <- <-; cbn [sentry spos].
    + repeat split.
    + split; [discriminate|]. apply semb_one in Hemb. cbn [sout_target ssize]. apply sreach_mark. exact Hemb.
  - (* skip *)
    destruct m as [t|]; injection H as <- <- <-; cbn [sentry spos].
    + repeat split.
    + split; [discriminate|]. cbn [sout_target ssize]. rewrite Nat.add_0_r. apply sreach_refl.
  - (* sequence *)
    apply andb_prop in Hwf. destruct Hwf as [Hwa Hwb].
    apply semb_app in Hemb. destruct Hemb as [Ha Hb]. rewrite sgen_length in Hb.
    destruct (sexec f m a o) as [[[t1 o1] out1]|] eqn:Ea; [|discriminate].
    pose proof (IH _ _ _ _ _ _ Ea Hwa P p b c Ha) as Sa. unfold sconcl in Sa. rewrite sentry_seq.
    destruct (sentry m a p) as [q|] eqn:Eq.
    + destruct Sa as [Hns Sa]. destruct out1; try congruence.
      * apply spre_inv in H. destruct H as (t2 & Eb & ->).
        pose proof (IH _ _ _ _ _ _ Eb Hwb P (p + ssize a) b c Hb) as Sb. unfold sconcl in Sb. cbn [sentry] in Sb. destruct Sb as [Hns2 Sb].
        split; [exact Hns2|]. eapply sreach_trans; [exact Sa|]. eapply sreach_eq; [exact Sb|reflexivity|]. destruct out; cbn [sout_target ssize]; try lia; congruence.
      * injection H as <- <- <-. split; [discriminate|exact Sa].
      * injection H as <- <- <-. split; [discriminate|exact Sa].
      * injection H as <- <- <-. split; [discriminate|exact Sa].
    + destruct Sa as (-> & -> & ->). apply spre_inv in H. destruct H as (t2 & Eb & ->). cbn [app].
      pose proof (IH _ _ _ _ _ _ Eb Hwb P (p + ssize a) b c Hb) as Sb. unfold sconcl in Sb.
      destruct (sentry m b0 (p + ssize a)) as [q|]; [|exact Sb]. destruct Sb as [Hns2 Sb]. split; [exact Hns2|].
      eapply sreach_eq; [exact Sb|reflexivity|]. destruct out; cbn [sout_target ssize]; try lia; congruence.
  - (* if *)
    apply andb_prop in Hwf. destruct Hwf as [Hwa Hwb].
    apply semb_cons in Hemb. destruct Hemb as [Hc Hrest]. apply semb_app in Hrest. destruct Hrest as [Ha Hrest]. rewrite sgen_length in Hrest.
    apply semb_cons in Hrest. destruct Hrest as [Hj Hb].
    destruct m as [t|].
    + cbn [sentry spos].
      destruct (sexec f (Some t) a o) as [[[t1 o1] out1]|] eqn:Ea; [|discriminate].
      pose proof (IH _ _ _ _ _ _ Ea Hwa P (p + 1) b c Ha) as Sa. unfold sconcl in Sa. cbn [sentry] in Sa.
      destruct (spos t a (p + 1)) as [q|] eqn:Eq.
      * destruct Sa as [Hns Sa]. destruct out1; try congruence; injection H as <- <- <-; (split; [discriminate|]); try exact Sa.
        rewrite <- (app_nil_r t1). eapply sreach_trans; [exact Sa|]. cbn [sout_target ssize]. eapply sreach_eq; [apply sreach_jmp; exact Hj|reflexivity|lia].
      * destruct Sa as (-> & -> & ->). apply spre_inv in H. destruct H as (t2 & Eb & ->). cbn [app].
        pose proof (IH _ _ _ _ _ _ Eb Hwb P (p + 1 + ssize a + 1) b c Hb) as Sb. unfold sconcl in Sb. cbn [sentry] in Sb.
        destruct (spos t b0 (p + 1 + ssize a + 1)) as [q|]; [|exact Sb]. destruct Sb as [Hns2 Sb]. split; [exact Hns2|].
        eapply sreach_eq; [exact Sb|reflexivity|]. destruct out; cbn [sout_target ssize]; try lia; congruence.
    + cbn [sentry]. destruct o as [|v o1]; [discriminate|]. apply spre_inv in H. destruct H as (t2 & Eb & ->).
      pose proof (sreach_jf P p o1 k (p + 1 + ssize a + 1) v Hc) as Sc.
      destruct (v =? 0).
      * pose proof (IH _ _ _ _ _ _ Eb Hwb P (p + 1 + ssize a + 1) b c Hb) as Sb. unfold sconcl in Sb. cbn [sentry] in Sb. destruct Sb as [Hns2 Sb].
        split; [exact Hns2|]. eapply sreach_trans; [exact Sc|]. eapply sreach_eq; [exact Sb|reflexivity|]. destruct out; cbn [sout_target ssize]; try lia; congruence.
      * pose proof (IH _ _ _ _ _ _ Eb Hwa P (p + 1) b c Ha) as Sa. unfold sconcl in Sa. cbn [sentry] in Sa. destruct Sa as [Hns Sa].
        split; [exact Hns|]. eapply sreach_trans; [exact Sc|]. destruct out; try exact Sa; try congruence.
        rewrite <- (app_nil_r t2). eapply sreach_trans; [exact Sa|]. cbn [sout_target ssize]. eapply sreach_eq; [apply sreach_jmp; exact Hj|reflexivity|lia].
  - (* for *)
    apply semb_app in Hemb. destruct Hemb as [Hinit Hloopc]. rewrite map_length in Hloopc.
    pose proof (sfor_loop_sim lt f IH k inc body P (p + length init) Hwf Hloopc f) as Hloop. cbn zeta in Hloop.
    assert (Hfin : forall out0, sloop_out out0 -> out0 <> RSeek /\
              sloop_target lt out0 (p + length init + sklen k + ssize body + length inc + 1) = sout_target lt out0 p (SFor init k inc body) b c).
    { intros out0 [->|[l ->]]; (split; [discriminate|]); cbn [sloop_target sout_target ssize]; lia. }
    destruct m as [t|].
    + cbn [sentry spos].
      apply semb_app in Hloopc. destruct Hloopc as [Hc Hrest].
      assert (Hlen : p + length init + length (match k with Some kk => [JCondJf kk (p + length init + sklen k + ssize body + length inc + 1)] | None => [] end) = p + length init + sklen k) by (destruct k; cbn [length sklen]; lia).
      rewrite Hlen in Hrest. apply semb_app in Hrest. destruct Hrest as [Hbody Htail]. rewrite sgen_length in Htail.
      destruct (sexec f (Some t) body o) as [[[t1 o1] out1]|] eqn:Eb; [|discriminate].
      pose proof (IH _ _ _ _ _ _ Eb Hwf P _ _ _ Hbody) as Sb. unfold sconcl in Sb. cbn [sentry] in Sb.
      destruct (spos t body (p + length init + sklen k)) as [q|].
      * destruct Sb as [Hns Sb].
        destruct (sfor_after_sim lt P _ inc body _ _ _ Hloop Htail q o t1 o1 out1 tr o' out Hns Sb H) as [Ho Sa].
        destruct (Hfin _ Ho) as [Hn Ht]. split; [exact Hn|]. rewrite <- Ht. exact Sa.
      * destruct Sb as (-> & -> & ->). cbn [sfor_after] in H. injection H as <- <- <-. repeat split.
    + cbn [sentry]. apply spre_inv in H. destruct H as (t2 & El & ->).
      destruct (Hloop _ _ _ _ El) as [Ho Sl]. destruct (Hfin _ Ho) as [Hn Ht]. split; [exact Hn|]. rewrite <- Ht.
      eapply sreach_trans; [apply sreach_marks; exact Hinit|exact Sl].
  - (* do *)
    pose proof (sdo_loop_sim lt f IH body k P p Hwf Hemb f) as Hloop. cbn zeta in Hloop.
    apply semb_app in Hemb. destruct Hemb as [Hbody Hc]. rewrite sgen_length in Hc. apply semb_one in Hc.
    assert (Hent : sentry m (SDo body k) p = sentry m body p) by (destruct m; reflexivity). rewrite Hent.
    destruct (sexec f m body o) as [[[t1 o1] out1]|] eqn:Eb; [|discriminate].
    pose proof (IH _ _ _ _ _ _ Eb Hwf P _ _ _ Hbody) as Sb. unfold sconcl in Sb.
    destruct (sentry m body p) as [q|].
    + destruct Sb as [Hns Sb].
      destruct (sdo_after_sim lt P _ k body p Hloop Hc q o t1 o1 out1 tr o' out Hns Sb H) as [Ho Sa].
      assert (Hfin : out <> RSeek /\ sloop_target lt out (p + ssize body + 1) = sout_target lt out p (SDo body k) b c).
      { destruct Ho as [->|[l ->]]; (split; [discriminate|]); cbn [sloop_target sout_target ssize]; lia. }
      destruct Hfin as [Hn Ht]. split; [exact Hn|]. rewrite <- Ht. exact Sa.
    + destruct Sb as (-> & -> & ->). cbn [sdo_after] in H. injection H as <- <- <-. repeat split.
  - (* break *)
    destruct m as [t|]; injection H as <- <- <-; cbn [sentry spos].
    + repeat split.
    + split; [discriminate|]. apply semb_one in Hemb. cbn [sout_target]. apply sreach_jmp. exact Hemb.
  - (* continue *)
    destruct m as [t|]; injection H as <- <- <-; cbn [sentry spos].
    + repeat split.
    + split; [discriminate|]. apply semb_one in Hemb. cbn [sout_target]. apply sreach_jmp. exact Hemb.
  - (* switch *)
    apply andb_prop in Hwf. destruct Hwf as [Hwf Hwb]. apply andb_prop in Hwf. destruct Hwf as [Hnd Hdef].
    apply snodup_NoDup in Hnd. apply Nat.leb_le in Hdef.
    apply semb_cons in Hemb. destruct Hemb as [Hsel Hrest]. apply semb_app in Hrest. destruct Hrest as [Hchain Hrest].
    rewrite map_length, rev_length, scases_length in Hrest.
    apply semb_app in Hrest. destruct Hrest as [Hd Hrest]. rewrite slast_length, sdefaults_length in Hrest.
    apply semb_cons in Hrest. destruct Hrest as [Hjb Hbody].
    assert (Hpb : p + 1 + length (scvals body) + (if sndef body =? 0 then 0 else 1) + 1 = p + sswitch_head body) by (unfold sswitch_head; lia).
    rewrite Hpb in Hbody.
    set (pbody := p + sswitch_head body) in *.
    destruct m as [[cv| |l]|].
    + injection H as <- <- <-. cbn [sentry spos]. repeat split.
    + injection H as <- <- <-. cbn [sentry spos]. repeat split.
    + cbn [sentry spos]. fold pbody.
      destruct (sexec f (Some (TLabel l)) body o) as [[[t1 o1] out1]|] eqn:Eb; [|discriminate].
      pose proof (IH _ _ _ _ _ _ Eb Hwb P _ _ _ Hbody) as Sb. unfold sconcl in Sb. cbn [sentry] in Sb.
      destruct (spos (TLabel l) body pbody) as [q|].
      * destruct Sb as [Hns Sb]. destruct (sswitch_end_target lt _ _ _ _ _ _ p k body b c H Hns) as (-> & -> & Hn & Ht).
        split; [exact Hn|]. rewrite <- Ht. exact Sb.
      * destruct Sb as (-> & -> & ->). cbn [sswitch_end] in H. injection H as <- <- <-. repeat split.
    + cbn [sentry]. destruct o as [|v o1]; [discriminate|]. apply spre_inv in H. destruct H as (t2 & H & ->).
      pose proof (sswitch_dispatch P p k (rev (scases body pbody)) v o1 Hsel Hchain) as Sd. rewrite rev_length, scases_length in Sd.
      destruct (sexec f (Some (TCase v)) body o1) as [[[t1 o2] out1]|] eqn:E1; [|discriminate].
      pose proof (IH _ _ _ _ _ _ E1 Hwb P _ _ _ Hbody) as S1. unfold sconcl in S1. cbn [sentry] in S1.
      destruct (spos (TCase v) body pbody) as [q|] eqn:Eq.
      * (* a case label carries the value *)
        destruct S1 as [Hns S1].
        assert (H' : sswitch_end (Some (t1, o2, out1)) = Some (t2, o', out)) by (destruct out1; try exact H; congruence).
        destruct (sswitch_end_target lt _ _ _ _ _ _ p k body b c H' Hns) as (-> & -> & Hn & Ht). split; [exact Hn|]. rewrite <- Ht.
        rewrite (find_rev_nodup (scases body pbody) v q) in Sd; [|rewrite scases_vals; exact Hnd|apply spos_case_in; exact Eq]. cbn [snd] in Sd.
        eapply sreach_trans; [exact Sd|exact S1].
      * destruct S1 as (-> & -> & ->).
        rewrite (find_rev_none (scases body pbody) v) in Sd; [|rewrite scases_vals; eapply spos_case_none; exact Eq].
        destruct (sexec f (Some TDefault) body o1) as [[[t3 o3] out3]|] eqn:E2; [|discriminate].
        pose proof (IH _ _ _ _ _ _ E2 Hwb P _ _ _ Hbody) as S2. unfold sconcl in S2. cbn [sentry] in S2.
        destruct (spos TDefault body pbody) as [d|] eqn:Ed.
        -- (* no case: default *)
           destruct S2 as [Hns S2].
           assert (H' : sswitch_end (Some (t3, o3, out3)) = Some (t2, o', out)) by (destruct out3; try exact H; congruence).
           destruct (sswitch_end_target lt _ _ _ _ _ _ p k body b c H' Hns) as (-> & -> & Hn & Ht). split; [exact Hn|]. rewrite <- Ht.
           apply spos_default_in in Ed. pose proof (sdefaults_length body pbody) as Hl.
           destruct (sdefaults body pbody) as [|d1 [|d2 ds]] eqn:Eds; [contradiction| |cbn [length] in Hl; lia].
           destruct Ed as [->|[]]. cbn [slast rev app] in Hd. apply semb_one in Hd.
           eapply sreach_trans; [exact Sd|]. change t3 with ([] ++ t3). eapply sreach_trans; [apply sreach_jmp; exact Hd|exact S2].
        -- (* no case, no default: nothing of the body is executed *)
           destruct S2 as (-> & -> & ->). cbn [sswitch_end] in H. injection H as <- <- <-. split; [discriminate|].
           apply spos_default_none in Ed. rewrite Ed in Hjb. cbn [Nat.eqb] in Hjb. rewrite Nat.add_0_r in Hjb.
           rewrite <- (app_nil_r [k]). eapply sreach_trans; [exact Sd|]. cbn [sout_target ssize].
           eapply sreach_eq; [apply sreach_jmp; exact Hjb|reflexivity|]. subst pbody. lia.
  - (* case label *)
    pose proof (IH _ _ _ _ _ _ H Hwf P p b c Hemb) as S1. unfold sconcl in S1.
    rewrite (sentry_label m (TCase c0) s1 p (SCase c0 s1)) by (intros t; reflexivity).
    destruct (sentry (sarrive m (TCase c0)) s1 p); [|exact S1]. destruct S1 as [Hn S1]. split; [exact Hn|]. destruct out; exact S1.
  - (* default label *)
    pose proof (IH _ _ _ _ _ _ H Hwf P p b c Hemb) as S1. unfold sconcl in S1.
    rewrite (sentry_label m TDefault s1 p (SDefault s1)) by (intros t; reflexivity).
    destruct (sentry (sarrive m TDefault) s1 p); [|exact S1]. destruct S1 as [Hn S1]. split; [exact Hn|]. destruct out; exact S1.
  - (* named label *)
    pose proof (IH _ _ _ _ _ _ H Hwf P p b c Hemb) as S1. unfold sconcl in S1.
    rewrite (sentry_label m (TLabel l) s1 p (SLabel l s1)) by (intros t; reflexivity).
    destruct (sentry (sarrive m (TLabel l)) s1 p); [|exact S1]. destruct S1 as [Hn S1]. split; [exact Hn|]. destruct out; exact S1.
  - (* goto *)
    destruct m as [t|]; injection H as <- <- <-; cbn [sentry spos].
    + repeat split.
    + split; [discriminate|]. apply semb_one in Hemb. cbn [sout_target]. apply sreach_jmp. exact Hemb.
  - (* goto *T[E] *)
    destruct m as [t|]; cbn [sentry spos].
    + injection H as <- <- <-. repeat split.
    + destruct o as [|v o1]; [discriminate|]. destruct (nth_error tab v) as [l|] eqn:En; [|discriminate]. injection H as <- <- <-.
      split; [discriminate|]. apply semb_one in Hemb. cbn [sout_target]. intros r. exists r. apply sstar_one. unfold sstep. rewrite Hemb.
      rewrite (map_nth_error (slabel_target lt) v tab En). reflexivity.
Qed.

(* ---------- whole function bodies: goto ---------- *)
Lemma sprogram_length body : length (sprogram body) = ssize body.
Proof. apply sgen_length. Qed.

(* A function body whose label names are distinct (and whose switches are well formed), run from
   its beginning - or from one of its labels -: the jump code started there prints the same
   markers, consumes the same oracle values and stops at the end of the code.  The positions given
   to break / continue outside any loop or switch are never used: srun has no result then. *)
Theorem sw_function_simulates : forall fuel m body o tr o',
  swf_fn body = true -> srun fuel m body o = Some (tr, o') ->
  exists q, sentry m body 0 = Some q /\ sreach (sprogram body) q o tr (ssize body) o'.
Proof.
  intros fuel m body o tr o' Hwf. unfold swf_fn in Hwf. apply andb_prop in Hwf. destruct Hwf as [Hwf Hnd]. apply snodup_NoDup in Hnd.
  revert m o tr o'. induction fuel as [|f IHf]; intros m o tr o' H; [discriminate|]. cbn [srun] in H.
  destruct (sexec f m body o) as [[[t o1] out]|] eqn:E; [|discriminate].
  pose proof (sw_lowering_simulates (slabtab body) f _ _ _ _ _ _ E Hwf (sprogram body) 0 0 0 (semb_self _)) as S. unfold sconcl in S.
  destruct (sentry m body 0) as [q|]; [|destruct S as (-> & _); discriminate].
  destruct S as [Hns S]. exists q. split; [reflexivity|].
  destruct out; try discriminate.
  - injection H as <- <-. exact S.
  - destruct (srun f (Some (TLabel l)) body o1) as [[t2 o2]|] eqn:E2; [|discriminate]. injection H as <- <-.
    destruct (IHf _ _ _ _ E2) as (q2 & Hq2 & S2). cbn [sentry] in Hq2.
    eapply sreach_trans; [exact S|]. cbn [sout_target]. unfold slabel_target, slabtab.
    rewrite (find_rev_nodup (slabels body 0) l q2); [exact S2|rewrite slabels_names; exact Hnd|apply spos_label_in; exact Hq2].
Qed.

Corollary sw_program_simulates : forall fuel body o tr o',
  swf_fn body = true -> srun fuel None body o = Some (tr, o') ->
  forall r, exists r', sstar (sprogram body) (0, o, r) tr (ssize body, o', r').
Proof.
  intros fuel body o tr o' Hwf H. destruct (sw_function_simulates fuel None body o tr o' Hwf H) as (q & Hq & S). cbn [sentry] in Hq. injection Hq as <-. exact S.
Qed.

(* ---------- the machine is deterministic, so the run exhibited is the run ---------- *)
Lemma sstar_det P s t1 s1 : sstar P s t1 s1 -> forall t2 s2, sstar P s t2 s2 ->
  (exists t, sstar P s1 t s2 /\ t2 = t1 ++ t) \/ (exists t, sstar P s2 t s1 /\ t1 = t2 ++ t).
Proof.
  induction 1 as [st|st ev st' tr st'' Hs Hr IH]; intros t2 s2 H2.
  - left. exists t2. split; [exact H2|reflexivity].
  - destruct H2 as [|st0 ev2 st2 tr2 st3 Hs2 Hr2].
    + right. exists (ev ++ tr). split; [eapply sstar_step; [exact Hs|exact Hr]|reflexivity].
    + rewrite Hs in Hs2. injection Hs2 as <- <-. destruct (IH _ _ Hr2) as [(t & Ht & ->)|(t & Ht & ->)].
      * left. exists t. split; [exact Ht|]. rewrite app_assoc. reflexivity.
      * right. exists t. split; [exact Ht|]. rewrite app_assoc. reflexivity.
Qed.

Lemma sstar_stuck P s t s' : sstar P s t s' -> sstep P s = None -> t = [] /\ s' = s.
Proof. intros H Hn. destruct H as [|st ev st' tr st'' Hs _]; [split; reflexivity|congruence]. Qed.

(* every run of the jump code of the function that cannot go on has printed exactly the trace of
   the structured semantics and stands at the end of the code *)
Theorem sw_program_run_unique : forall fuel body o tr o',
  swf_fn body = true -> srun fuel None body o = Some (tr, o') ->
  forall r t2 st2, sstar (sprogram body) (0, o, r) t2 st2 -> sstep (sprogram body) st2 = None ->
  t2 = tr /\ fst (fst st2) = ssize body /\ snd (fst st2) = o'.
Proof.
  intros fuel body o tr o' Hwf H r t2 st2 S2 Hstuck.
  destruct (sw_program_simulates fuel body o tr o' Hwf H r) as [r' S1].
  assert (Hend : sstep (sprogram body) (ssize body, o', r') = None).
  { unfold sstep. replace (nth_error (sprogram body) (ssize body)) with (@None sinstr); [reflexivity|]. symmetry. apply nth_error_None. rewrite sprogram_length. lia. }
  destruct (sstar_det _ _ _ _ S1 _ _ S2) as [(t & St & ->)|(t & St & ->)].
  - destruct (sstar_stuck _ _ _ _ St Hend) as [-> ->]. rewrite app_nil_r. repeat split.
  - destruct (sstar_stuck _ _ _ _ St Hstuck) as [-> <-]. rewrite app_nil_r. repeat split.
Qed.

(* the executable run used by the tie is a run of the machine *)
Lemma smrun_sound P : forall fuel st tr st', smrun fuel P st = Some (tr, st') -> sstar P st tr st' /\ fst (fst st') = length P.
Proof.
  induction fuel as [|f IH]; intros st tr st' H; [discriminate|]. cbn [smrun] in H.
  destruct (fst (fst st) =? length P) eqn:E.
  - injection H as <- <-. split; [apply sstar_refl|apply Nat.eqb_eq; exact E].
  - destruct (sstep P st) as [[ev st1]|] eqn:Es; [|discriminate]. destruct (smrun f P st1) as [[tr1 st2]|] eqn:Er; [|discriminate].
    injection H as <- <-. destruct (IH _ _ _ Er) as [S Hl]. split; [eapply sstar_step; [exact Es|exact S]|exact Hl].
Qed.

(* ---------- the constraints are needed, and chibicc does not diagnose their violation ---------- *)
(* two equal case constants, two defaults, two definitions of a label: the structured semantics
   (like every C implementation that accepts such a program would have to choose) takes the first
   in program order, chibicc's tables give the last; chibicc accepts all three programs
   (C11 6.8.4.2p3 and 6.8.1p3 require a diagnostic) *)
Definition fmap_trace (r : option (strace * smstate)) : option strace := match r with Some (t, _) => Some t | None => None end.
Definition sdup_case : sstmt := SSwitch 1 (SSeq (SCase 1 (SSeq (SMark 2) SBreak)) (SCase 1 (SMark 3))).
Definition sdup_default : sstmt := SSwitch 1 (SSeq (SDefault (SSeq (SMark 2) SBreak)) (SDefault (SMark 3))).
Definition sdup_label : sstmt := SSeq (SGoto 1) (SSeq (SLabel 1 (SSeq (SMark 2) (SGoto 2))) (SSeq (SLabel 1 (SMark 3)) (SLabel 2 SSkip))).
Lemma sw_duplicates_refuted :
  (swf_fn sdup_case = false /\ srun 20 None sdup_case [1] = Some ([1; 2], []) /\ fmap_trace (smrun 50 (sprogram sdup_case) (0, [1], 0)) = Some [1; 3]) /\
  (swf_fn sdup_default = false /\ srun 20 None sdup_default [7] = Some ([1; 2], []) /\ fmap_trace (smrun 50 (sprogram sdup_default) (0, [7], 0)) = Some [1; 3]) /\
  (swf_fn sdup_label = false /\ srun 20 None sdup_label [] = Some ([2], []) /\ fmap_trace (smrun 50 (sprogram sdup_label) (0, [], 0)) = Some [3]).
Proof. vm_compute. repeat split. Qed.

(* ---------- what the structured semantics says about binding (6.8.6.2, 6.8.6.3) ---------- *)
Lemma sfor_after_binds loop inc r tr o' out :
  (forall o1 t3 o3 out3, loop o1 = Some (t3, o3, out3) -> out3 <> RBreak /\ out3 <> RCont) ->
  sfor_after loop inc r = Some (tr, o', out) -> out <> RBreak /\ out <> RCont.
Proof.
  intros Hl H. destruct r as [[[t1 o1] out1]|]; [|discriminate]. destruct out1; cbn [sfor_after] in H;
    try (injection H as <- <- <-; split; discriminate); apply spre_inv in H; destruct H as (t3 & El & _); exact (Hl _ _ _ _ El).
Qed.
Lemma sfor_loop_binds ex : forall fuel k inc body o tr o' out, sfor_loop ex fuel k inc body o = Some (tr, o', out) -> out <> RBreak /\ out <> RCont.
Proof.
  induction fuel as [|f IHf]; intros k inc body o tr o' out H; [discriminate|]. cbn [sfor_loop] in H.
  destruct k as [kk|].
  - destruct o as [|v o1]; [discriminate|]. destruct (v =? 0); [injection H as <- <- <-; split; discriminate|].
    apply spre_inv in H. destruct H as (t1 & H & _). eapply sfor_after_binds; [|exact H]. intros o2 t3 o3 out3. apply IHf.
  - eapply sfor_after_binds; [|exact H]. intros o2 t3 o3 out3. apply IHf.
Qed.
Lemma sdo_after_binds loop k r tr o' out :
  (forall o1 t3 o3 out3, loop o1 = Some (t3, o3, out3) -> out3 <> RBreak /\ out3 <> RCont) ->
  sdo_after loop k r = Some (tr, o', out) -> out <> RBreak /\ out <> RCont.
Proof.
  intros Hl H. destruct r as [[[t1 o1] out1]|]; [|discriminate].
  assert (Hgo : match o1 with [] => None | v :: o2 => if v =? 0 then Some (t1 ++ [k], o2, RNormal) else spre (t1 ++ [k]) (loop o2) end = Some (tr, o', out) -> out <> RBreak /\ out <> RCont).
  { intros Hx. destruct o1 as [|v o2]; [discriminate|]. destruct (v =? 0); [injection Hx as <- <- <-; split; discriminate|].
    apply spre_inv in Hx. destruct Hx as (t3 & El & _). exact (Hl _ _ _ _ El). }
  destruct out1; cbn [sdo_after] in H; try (apply Hgo; exact H); injection H as <- <- <-; split; discriminate.
Qed.
Lemma sdo_loop_binds ex : forall fuel body k o tr o' out, sdo_loop ex fuel body k o = Some (tr, o', out) -> out <> RBreak /\ out <> RCont.
Proof.
  induction fuel as [|f IHf]; intros body k o tr o' out H; [discriminate|]. cbn [sdo_loop] in H.
  eapply sdo_after_binds; [|exact H]. intros o2 t3 o3 out3. apply IHf.
Qed.

(* no break and no continue leaves a loop, however the loop was entered; no break leaves a switch
   (a continue does: the switch is not an iteration statement) *)
Theorem sw_loop_binds_break_continue : forall fuel m s o tr o' out,
  (exists init k inc body, s = SFor init k inc body) \/ (exists body k, s = SDo body k) ->
  sexec fuel m s o = Some (tr, o', out) -> out <> RBreak /\ out <> RCont.
Proof.
  intros [|f] m s o tr o' out Hs H; [discriminate|]. destruct Hs as [(init & k & inc & body & ->)|(body & k & ->)]; cbn [sexec] in H.
  - destruct m as [t|].
    + eapply sfor_after_binds; [|exact H]. intros o2 t3 o3 out3. apply sfor_loop_binds.
    + apply spre_inv in H. destruct H as (t1 & H & _). eapply sfor_loop_binds. exact H.
  - eapply sdo_after_binds; [|exact H]. intros o2 t3 o3 out3. apply sdo_loop_binds.
Qed.
Theorem sw_switch_binds_break : forall fuel m k body o tr o' out,
  sexec fuel m (SSwitch k body) o = Some (tr, o', out) -> out <> RBreak.
Proof.
  intros [|f] m k body o tr o' out H; [discriminate|]. cbn [sexec] in H.
  assert (Hend : forall r, sswitch_end r = Some (tr, o', out) -> out <> RBreak).
  { intros [[[t1 o1] out1]|] Hx; [|discriminate]. destruct out1; cbn [sswitch_end] in Hx; injection Hx as <- <- <-; discriminate. }
  assert (Hend2 : forall t0 r, spre t0 (sswitch_end r) = Some (tr, o', out) -> out <> RBreak).
  { intros t0 [[[t1 o1] out1]|] Hx; [|discriminate]. destruct out1; cbn [sswitch_end spre] in Hx; injection Hx as <- <- <-; discriminate. }
  destruct m as [[cv| |l]|]; try (injection H as <- <- <-; discriminate).
  - apply Hend in H. exact H.
  - destruct o as [|v o1]; [discriminate|].
    destruct (sexec f (Some (TCase v)) body o1) as [[[t1 o2] out1]|] eqn:E1; [|discriminate].
    destruct out1; try (eapply Hend2; exact H).
    destruct (sexec f (Some TDefault) body o1) as [[[t3 o3] out3]|] eqn:E2; [|discriminate].
    destruct out3; try (eapply Hend2; exact H). cbn [spre] in H. injection H as <- <- <-. discriminate.
Qed.
