From Chibicc Require Import Base.Mach Model.Abi Spec.AbiSpec Gen.AbiConsts.
Local Open Scope Z_scope.

(* ---------- has_flonum is "no INTEGER field in the window" over the flattened fields ---------- *)
Definition win_ok (lo hi : Z) (lf : Z * bool) : bool := (fst lf <? lo) || (hi <=? fst lf) || snd lf.

Lemma forallb_app {A} (f : A -> bool) l1 l2 : forallb f (l1 ++ l2) = forallb f l1 && forallb f l2.
Proof. induction l1; simpl; auto. rewrite IHl1. apply andb_assoc. Qed.

(* induction principle for the nested type *)
Section AtyInd.
Variable P : aty -> Prop.
Hypothesis Hsc : forall f, P (ASc f).
Hypothesis Harr : forall e esz n, P e -> P (AArr e esz n).
Hypothesis Hagg : forall ms, Forall (fun om => P (snd om)) ms -> P (AAgg ms).
Fixpoint aty_ind' (t : aty) : P t :=
  match t with
  | ASc f => Hsc f
  | AArr e esz n => Harr e esz n (aty_ind' e)
  | AAgg ms => Hagg ms ((fix go (l : list (Z * aty)) : Forall (fun om => P (snd om)) l :=
                           match l with [] => Forall_nil _ | om :: r => Forall_cons om (aty_ind' (snd om)) (go r) end) ms)
  end.
End AtyInd.

Theorem has_flonum_leaves : forall ty lo hi off,
  has_flonum ty lo hi off = forallb (win_ok lo hi) (leaves ty off).
Proof.
  induction ty as [f|e esz n IH|ms IH] using aty_ind'; intros lo hi off.
  - cbn. unfold win_ok. cbn. rewrite andb_true_r. reflexivity.
  - cbn [has_flonum leaves]. induction n as [|n IHn]; [reflexivity|].
    rewrite forallb_app, <- IH, <- IHn. reflexivity.
  - cbn [has_flonum leaves]. induction ms as [|[o m] r IHr]; [reflexivity|].
    inversion IH as [|? ? Hm Hr]; subst. cbn [snd] in Hm. rewrite forallb_app, <- (Hm lo hi (off + o)), <- (IHr Hr). reflexivity.
Qed.

(* the class of an eightbyte, characterised on the field list *)
Definition in_win (k : Z) (lf : Z * bool) : bool := (8 * k <=? fst lf) && (fst lf <? 8 * k + 8).

Lemma class_fold (k : Z) l : forall c,
  fold_left (fun (c : cls) (lf : Z * bool) => if in_win k lf then merge c (if snd lf then Sse else Integer) else c) l c = Integer
  <-> c = Integer \/ existsb (fun lf => in_win k lf && negb (snd lf)) l = true.
Proof.
  induction l as [|lf l IH]; intros c; cbn [fold_left existsb].
  - split; [auto|intros [H|H]; [auto|discriminate]].
  - rewrite IH. destruct (in_win k lf) eqn:W; destruct (snd lf) eqn:F; cbn [andb negb orb].
    + split; (intros [H|H]; [left|right; exact H]); destruct c; cbn in *; congruence.
    + split; [intros _; right; reflexivity|intros _; left; destruct c; reflexivity].
    + tauto.
    + tauto.
Qed.

Lemma forall_exists k l :
  forallb (win_ok (8 * k) (8 * k + 8)) l = negb (existsb (fun lf => in_win k lf && negb (snd lf)) l).
Proof.
  induction l as [|lf l IH]; cbn [forallb existsb]; [reflexivity|]. rewrite IH, negb_orb. f_equal.
  unfold win_ok, in_win. destruct (snd lf); cbn [negb];
    destruct (Z.ltb_spec (fst lf) (8 * k)); destruct (Z.leb_spec (8 * k + 8) (fst lf));
    destruct (Z.leb_spec (8 * k) (fst lf)); destruct (Z.ltb_spec (fst lf) (8 * k + 8)); cbn; try reflexivity; lia.
Qed.

Theorem has_flonum_is_class ty k :
  has_flonum ty (8 * k) (8 * k + 8) 0 = match eightbyte_class ty k with Integer => false | _ => true end.
Proof.
  rewrite has_flonum_leaves, forall_exists. unfold eightbyte_class.
  pose proof (class_fold k (leaves ty 0) NoClass) as H. unfold in_win in H at 1.
  destruct (existsb _ (leaves ty 0)) eqn:X.
  - assert (E : fold_left (fun (c : cls) (lf : Z * bool) => if (8 * k <=? fst lf) && (fst lf <? 8 * k + 8)
                           then merge c (if snd lf then Sse else Integer) else c) (leaves ty 0) NoClass = Integer)
      by (apply H; right; reflexivity).
    rewrite E. reflexivity.
  - destruct (fold_left _ (leaves ty 0) NoClass) eqn:E; try reflexivity.
    destruct (proj1 H eq_refl) as [D|D]; discriminate.
Qed.

(* with the regenerated limits, the caller's two passes, the callee and the psABI algorithm agree
   on every argument list: any number and order of arguments of every class *)
Lemma limits_are_psabi : GP_MAX = 6%nat /\ FP_MAX = 8%nat.
Proof. split; reflexivity. Qed.

Theorem caller_is_psabi : forall args gp fp st, (gp <= 6)%nat -> (fp <= 8)%nat ->
  caller_place GP_MAX FP_MAX gp fp st args = psabi_place gp fp st args.
Proof.
  unfold GP_MAX, FP_MAX.
  induction args as [|a r IH]; intros gp fp st Hg Hf; cbn [caller_place psabi_place]; [reflexivity|].
  destruct a; cbn [words_of].
  - replace (gp + 1 <=? 6)%nat with (gp <? 6)%nat by (destruct (Nat.ltb_spec gp 6); destruct (Nat.leb_spec (gp + 1) 6); lia).
    replace (fp + 0 <=? 8)%nat with true by (symmetry; apply Nat.leb_le; lia). rewrite andb_true_r.
    destruct (Nat.ltb_spec gp 6); rewrite IH by lia; [replace (gp + 1)%nat with (S gp) by lia; replace (fp + 0)%nat with fp by lia|]; reflexivity.
  - replace (fp + 1 <=? 8)%nat with (fp <? 8)%nat by (destruct (Nat.ltb_spec fp 8); destruct (Nat.leb_spec (fp + 1) 8); lia).
    replace (gp + 0 <=? 6)%nat with true by (symmetry; apply Nat.leb_le; lia). cbn [andb].
    destruct (Nat.ltb_spec fp 8); rewrite IH by lia; [replace (fp + 1)%nat with (S fp) by lia; replace (gp + 0)%nat with gp by lia|]; reflexivity.
  - rewrite IH by lia. reflexivity.
  - rewrite andb_comm.
    destruct (Nat.leb_spec (gp + ngp) 6); destruct (Nat.leb_spec (fp + nfp) 8); cbn [andb]; rewrite IH by lia; reflexivity.
  - rewrite IH by lia. reflexivity.
Qed.

Theorem callee_is_caller : forall args gp fp st,
  callee_place GP_MAX FP_MAX gp fp st args = caller_place GP_MAX FP_MAX gp fp st args.
Proof.
  induction args as [|a r IH]; intros gp fp st; cbn [callee_place caller_place]; [reflexivity|].
  destruct a; rewrite ?IH; try reflexivity;
    repeat match goal with |- context [if ?c then _ else _] => destruct c end; rewrite ?IH; reflexivity.
Qed.

(* push_args marks an argument pass_by_stack exactly when the pop loop does not pop it *)
Theorem flags_match_pops : forall args gp fp st,
  caller_flags GP_MAX FP_MAX gp fp args = map is_stack (caller_place GP_MAX FP_MAX gp fp st args).
Proof.
  induction args as [|a r IH]; intros gp fp st; cbn [caller_flags caller_place map]; [reflexivity|].
  destruct a; try (rewrite (IH gp fp); reflexivity);
    repeat match goal with |- context [if ?c then _ else _] => destruct c end; cbn [map is_stack]; f_equal; apply IH.
Qed.

Corollary three_sites_agree : forall args,
  callee_place GP_MAX FP_MAX 0 0 0 args = psabi_place 0 0 0 args /\
  caller_place GP_MAX FP_MAX 0 0 0 args = psabi_place 0 0 0 args /\
  caller_flags GP_MAX FP_MAX 0 0 args = map is_stack (psabi_place 0 0 0 args).
Proof.
  intros args. rewrite callee_is_caller. rewrite (flags_match_pops args 0 0 0)%nat.
  rewrite caller_is_psabi by lia. auto.
Qed.

(* count_struct_regs hands out one register per existing eightbyte, an SSE one exactly when
   the psABI class of that eightbyte is not INTEGER *)
Theorem count_struct_regs_class ty size : 0 < size <= 16 ->
  count_struct_regs ty size =
  let sse k := match eightbyte_class ty k with Integer => false | _ => true end in
  let fp := (b2n (sse 0%Z) + b2n ((8 <? size)%Z && sse 1%Z))%nat in
  (((if (8 <? size)%Z then 2 else 1) - fp)%nat, fp).
Proof.
  intros Hs. unfold count_struct_regs, has_flonum1, has_flonum2.
  pose proof (has_flonum_is_class ty 0) as H0. pose proof (has_flonum_is_class ty 1) as H1.
  change (8 * 0) with 0 in H0. change (0 + 8) with 8 in H0. change (8 * 1) with 8 in H1. change (8 + 8) with 16 in H1.
  rewrite H0, H1. reflexivity.
Qed.
