(* Integer constants: the scanning part of convert_pp_int (base prefix, strtoul, suffix chain)
   against the grammar of C11 6.4.4.1 in Spec/LitSpec.v, composed with the type ladder
   theorem of Proofs/IntLitProofs.v. *)
From Chibicc Require Import Base.Mach Model.Unicode Spec.Utf Model.IntLit Spec.IntLitSpec
     Proofs.IntLitProofs Model.LitScan Spec.LitSpec Proofs.LitScanProofs.
Local Open Scope N_scope.

Definition umax : N := 18446744073709551615.

(* ------------------------------------------------------------------ *)
(* digits                                                              *)
(* ------------------------------------------------------------------ *)
Definition radix_ok (base : N) : Prop := base = 2 \/ base = 8 \/ base = 10 \/ base = 16.

Lemma digit_of_base base b : radix_ok base -> is_digit_of base b = is_base_digit base b.
Proof.
  intros Hb. class_fact b.
  destruct Hb as [-> | [-> | [-> | ->]]]; apply Bool.eqb_prop; assumption.
Qed.

Lemma digit_of_facts base b : radix_ok base -> is_digit_of base b = true ->
  strtoul_digit b = Some (dval b) /\ dval b < base /\ is_digit_of 16 b = true.
Proof.
  intros Hb H.
  assert (H16 : is_digit_of 16 b = true).
  { unfold is_digit_of in *. destruct (digit_value b) as [d|]; [|discriminate].
    destruct Hb as [-> | [-> | [-> | ->]]]; lia. }
  destruct (hexdig_facts b H16) as [_ [_ Hs]].
  repeat split; [exact Hs| |exact H16].
  unfold is_digit_of, dval in *. destruct (digit_value b) as [d|]; [lia|discriminate].
Qed.

Definition dstep (base a ch : N) : N := a * base + dval ch.

Lemma digits_value_fold base ds : digits_value base ds = fold_left (dstep base) ds 0.
Proof. reflexivity. Qed.

Lemma strtoul_digits_spec base ds : radix_ok base -> forall acc rest,
  forallb (is_digit_of base) ds = true -> is_base_digit base (peek rest) = false ->
  strtoul_digits base acc (ds ++ rest) = (fold_left (dstep base) ds acc, rest).
Proof.
  intros Hb. induction ds as [|d ds IH]; intros acc rest Hds Hrest.
  - cbn [app fold_left]. destruct rest as [|b r]; [reflexivity|].
    cbn [peek] in Hrest. unfold is_base_digit in Hrest. cbn [strtoul_digits].
    destruct (strtoul_digit b) as [x|]; [rewrite Hrest|]; reflexivity.
  - cbn [forallb] in Hds. apply andb_prop in Hds. destruct Hds as [Hd Hds].
    destruct (digit_of_facts base d Hb Hd) as [Hs [Hlt _]].
    cbn [app strtoul_digits fold_left]. rewrite Hs. replace (dval d <? base) with true by lia.
    apply IH; assumption.
Qed.

(* inversion: whatever strtoul_digits consumed were digits of the base, and it stopped at a non-digit *)
Lemma strtoul_digits_inv base : radix_ok base -> forall p acc v rest,
  strtoul_digits base acc p = (v, rest) ->
  exists ds, p = ds ++ rest /\ forallb (is_digit_of base) ds = true /\ is_base_digit base (peek rest) = false /\
             v = fold_left (dstep base) ds acc.
Proof.
  intros Hb. induction p as [|b p IH]; intros acc v rest H.
  - cbn [strtoul_digits] in H. inversion H; subst. exists []. repeat split.
  - cbn [strtoul_digits] in H.
    destruct (strtoul_digit b) as [x|] eqn:Es.
    + destruct (x <? base) eqn:El.
      * destruct (IH _ _ _ H) as [ds [Hp [Hds [Hr Hv]]]].
        assert (Hd : is_digit_of base b = true).
        { rewrite (digit_of_base base b Hb). unfold is_base_digit. rewrite Es. exact El. }
        destruct (digit_of_facts base b Hb Hd) as [Hs2 _].
        assert (x = dval b) by congruence. subst x.
        exists (b :: ds). cbn [app forallb fold_left]. rewrite Hd, Hds. subst p.
        repeat split; [exact Hr|exact Hv].
      * inversion H; subst. exists []. repeat split. cbn [peek]. unfold is_base_digit. rewrite Es. exact El.
    + inversion H; subst. exists []. repeat split. cbn [peek]. unfold is_base_digit. rewrite Es. reflexivity.
Qed.

(* ------------------------------------------------------------------ *)
(* suffixes                                                            *)
(* ------------------------------------------------------------------ *)
(* the chain on every suffix string of the grammar: the 23 spellings, by computation *)
Lemma scan_suffix_accepts sfx :
  scan_suffix (spell_isuffix sfx) = (suffix_has_l sfx, suffix_has_u sfx, []).
Proof. destruct sfx as [|u [l|]|l [u|]]; try destruct u; try destruct l; reflexivity. Qed.

Lemma suffix_in_table sfx : In (spell_isuffix sfx, (suffix_has_l sfx, suffix_has_u sfx)) suffix_table.
Proof.
  unfold suffix_table. apply in_map_iff. exists sfx. split; [reflexivity|].
  destruct sfx as [|u [l|]|l [u|]]; try destruct u; try destruct l; cbv; tauto.
Qed.

Lemma table_sound s l u : In (s, (l, u)) suffix_table ->
  exists sfx, s = spell_isuffix sfx /\ l = suffix_has_l sfx /\ u = suffix_has_u sfx.
Proof.
  unfold suffix_table. intros H. apply in_map_iff in H. destruct H as [sfx [E _]].
  exists sfx. inversion E. repeat split.
Qed.

Lemma startswith_split q : forall p, startswith p q = true -> exists r, p = q ++ r.
Proof.
  induction q as [|c q IH]; intros p H; [exists p; reflexivity|].
  destruct p as [|b p]; [discriminate|]. cbn [startswith] in H. apply andb_prop in H. destruct H as [Hb Hq].
  destruct (IH p Hq) as [r Hr]. exists r. apply N.eqb_eq in Hb. subst. reflexivity.
Qed.

Lemma skipn_app_exact (q r : list N) : skipn (length q) (q ++ r) = r.
Proof. induction q as [|c q IH]; [reflexivity|exact IH]. Qed.

Lemma tolower_108 b : tolower b = 108 -> b = 108 \/ b = 76.
Proof. unfold tolower, isupper. destruct ((65 <=? b) && (b <=? 90)) eqn:E; lia. Qed.
Lemma tolower_117 b : tolower b = 117 -> b = 117 \/ b = 85.
Proof. unfold tolower, isupper. destruct ((65 <=? b) && (b <=? 90)) eqn:E; lia. Qed.
Lemma tolower_120 b : tolower b = 120 -> b = 120 \/ b = 88.
Proof. unfold tolower, isupper. destruct ((65 <=? b) && (b <=? 90)) eqn:E; lia. Qed.
Lemma tolower_98 b : tolower b = 98 -> b = 98 \/ b = 66.
Proof. unfold tolower, isupper. destruct ((65 <=? b) && (b <=? 90)) eqn:E; lia. Qed.
Lemma tolower_48 b : tolower b = 48 -> b = 48.
Proof. unfold tolower, isupper. destruct ((65 <=? b) && (b <=? 90)) eqn:E; lia. Qed.

Lemma caseeq2_split c1 c2 p : caseeq p [c1; c2] = true ->
  exists a b r, p = a :: b :: r /\ tolower a = tolower c1 /\ tolower b = tolower c2.
Proof.
  intros H. destruct p as [|a [|b r]]; cbn [caseeq] in H; try discriminate.
  - rewrite andb_false_r in H. discriminate.
  - exists a, b, r. apply andb_prop in H. destruct H as [H1 H2]. apply andb_prop in H2. destruct H2 as [H2 _].
    apply N.eqb_eq in H1. apply N.eqb_eq in H2. auto.
Qed.

Ltac in_table := cbv; repeat (try (left; reflexivity); right); fail.

(* inversion of the chain: if it consumes the whole rest, the rest is a suffix of the grammar *)
Lemma scan_suffix_inv p l u : scan_suffix p = (l, u, []) -> In (p, (l, u)) suffix_table.
Proof.
  unfold scan_suffix. intros H.
  destruct (startswith p [76;76;85] || startswith p [76;76;117] || startswith p [108;108;85] ||
            startswith p [108;108;117] || startswith p [85;76;76] || startswith p [85;108;108] ||
            startswith p [117;76;76] || startswith p [117;108;108]) eqn:E3.
  { inversion H as [[Hl Hu Hr]]. clear H.
    repeat (apply orb_prop in E3; destruct E3 as [E3|E3]);
      apply startswith_split in E3; destruct E3 as [r ->];
      (change 3%nat with (length [76;76;85]) in Hr || idtac);
      cbn [app skipn] in Hr; subst r; in_table. }
  destruct (caseeq p [108;117] || caseeq p [117;108]) eqn:E2.
  { inversion H as [[Hl Hu Hr]]. clear H.
    apply orb_prop in E2. destruct E2 as [E2|E2];
      apply caseeq2_split in E2; destruct E2 as [a [b [r [-> [Ha Hb]]]]];
      cbn [skipn] in Hr; subst r.
    - apply tolower_108 in Ha. apply tolower_117 in Hb. destruct Ha as [-> | ->], Hb as [-> | ->]; in_table.
    - apply tolower_117 in Ha. apply tolower_108 in Hb. destruct Ha as [-> | ->], Hb as [-> | ->]; in_table. }
  destruct (startswith p [76;76] || startswith p [108;108]) eqn:E22.
  { inversion H as [[Hl Hu Hr]]. clear H.
    apply orb_prop in E22. destruct E22 as [E|E]; apply startswith_split in E; destruct E as [r ->];
      cbn [app skipn] in Hr; subst r; in_table. }
  destruct ((peek p =? 76) || (peek p =? 108)) eqn:E1.
  { inversion H as [[Hl Hu Hr]]. clear H. destruct p as [|b r]; [discriminate|]. cbn [skipn] in Hr. subst r.
    cbn [peek] in E1. apply orb_prop in E1. destruct E1 as [E|E]; apply N.eqb_eq in E; subst b; in_table. }
  destruct ((peek p =? 85) || (peek p =? 117)) eqn:E1u.
  { inversion H as [[Hl Hu Hr]]. clear H. destruct p as [|b r]; [discriminate|]. cbn [skipn] in Hr. subst r.
    cbn [peek] in E1u. apply orb_prop in E1u. destruct E1u as [E|E]; apply N.eqb_eq in E; subst b; in_table. }
  inversion H; subst. in_table.
Qed.

(* model and grammar agree on EVERY byte string: the chain consumes all of s as (l, u) iff s is
   a suffix of the grammar with that meaning - in particular lL, Ll, ulu, lul, llL, uu, lll, and
   strings with foreign characters are refused (the rest is not empty) *)
Theorem scan_suffix_iff s l u :
  scan_suffix s = (l, u, []) <-> In (s, (l, u)) suffix_table.
Proof.
  split; [apply scan_suffix_inv|].
  intros H. apply table_sound in H. destruct H as [sfx [-> [-> ->]]]. apply scan_suffix_accepts.
Qed.

(* what may follow the digits of a valid constant *)
Lemma suffix_first sfx : let b := peek (spell_isuffix sfx) in b = 0 \/ b = 117 \/ b = 85 \/ b = 108 \/ b = 76.
Proof. destruct sfx as [|u [l|]|l [u|]]; try destruct u; try destruct l; cbv; tauto. Qed.

Lemma suffix_not_digit base sfx : radix_ok base -> is_base_digit base (peek (spell_isuffix sfx)) = false.
Proof.
  intros Hb. pose proof (suffix_first sfx) as H. cbv zeta in H.
  destruct H as [-> | [-> | [-> | [-> | ->]]]]; destruct Hb as [-> | [-> | [-> | ->]]]; reflexivity.
Qed.

(* ------------------------------------------------------------------ *)
(* acceptance: every constant of the grammar                           *)
(* ------------------------------------------------------------------ *)
Lemma strtoul_plain base ds rest : radix_ok base ->
  ds <> [] -> forallb (is_digit_of base) ds = true -> is_base_digit base (peek rest) = false ->
  (base = 16 -> peek ds = 48 -> toupper (peek (tl (ds ++ rest))) <> 88) ->
  strtoul (ds ++ rest) base = (N.min (digits_value base ds) umax, rest).
Proof.
  intros Hb Hne Hds Hrest Hx. unfold strtoul.
  destruct ds as [|d ds']; [contradiction|]. clear Hne.
  assert (Hd : is_digit_of base d = true) by (cbn [forallb] in Hds; apply andb_prop in Hds; tauto).
  assert (Hsk : (base =? 16) && (peek ((d :: ds') ++ rest) =? 48) && (toupper (peek (tl ((d :: ds') ++ rest))) =? 88) = false).
  { destruct (base =? 16) eqn:E16; [|reflexivity]. apply N.eqb_eq in E16.
    cbn [app peek andb]. destruct (d =? 48) eqn:E48; [|reflexivity]. apply N.eqb_eq in E48.
    specialize (Hx E16 E48). cbn [andb]. apply N.eqb_neq. exact Hx. }
  rewrite Hsk. cbn [app peek]. rewrite <- (digit_of_base base d Hb), Hd.
  change (d :: ds' ++ rest) with ((d :: ds') ++ rest).
  rewrite (strtoul_digits_spec base (d :: ds') Hb 0 rest Hds Hrest). reflexivity.
Qed.

Lemma hex_digit_not_x b : is_digit_of 16 b = true -> toupper b <> 88.
Proof. intros H. rewrite hexdig_isxdigit in H. unfold isxdigit, isdigit, toupper, islower in *. destruct ((97 <=? b) && (b <=? 122)) eqn:E; lia. Qed.

Lemma suffix_first_not_x sfx : toupper (peek (spell_isuffix sfx)) <> 88.
Proof. destruct sfx as [|u [l|]|l [u|]]; try destruct u; try destruct l; cbv; discriminate. Qed.

Lemma second_not_x d ds sfx : forallb (is_digit_of 16) ds = true ->
  toupper (peek (tl ((d :: ds) ++ spell_isuffix sfx))) <> 88.
Proof.
  intros Hds. cbn [app tl]. destruct ds as [|d2 ds].
  - cbn [app]. apply suffix_first_not_x.
  - cbn [app peek]. apply hex_digit_not_x. cbn [forallb] in Hds. apply andb_prop in Hds. tauto.
Qed.

Lemma digit_tolower b : is_digit_of 10 b = true -> tolower b = b /\ 48 <= b <= 57.
Proof. intros H. rewrite decdig_isdigit in H. unfold isdigit, tolower, isupper in *. replace ((65 <=? b) && (b <=? 90)) with false by lia. lia. Qed.

Definition radix_of_ok b : radix_ok (base_radix b).
Proof. destruct b; unfold radix_ok; cbn [base_radix]; tauto. Qed.

(* the byte after the leading 0 of an octal constant is an octal digit, a suffix letter or nothing: never x X b B *)
Lemma oct_second ds sfx : forallb (is_digit_of 8) ds = true ->
  let b := peek (ds ++ spell_isuffix sfx) in tolower b <> 120 /\ tolower b <> 98.
Proof.
  intros Hds. destruct ds as [|d ds]; cbn [app peek].
  - pose proof (suffix_first sfx) as H. cbv zeta in H. destruct H as [-> | [-> | [-> | [-> | ->]]]]; cbv; split; discriminate.
  - cbn [forallb] in Hds. apply andb_prop in Hds. destruct Hds as [Hd _].
    destruct (octdig_facts d Hd) as [_ [Ho _]]. unfold is_octal, tolower, isupper in *.
    replace ((65 <=? d) && (d <=? 90)) with false by lia. lia.
Qed.

Lemma doubled_prefix_other base p : base <> 16 -> base <> 2 -> doubled_prefix base p = false.
Proof.
  intros H16 H2. unfold doubled_prefix.
  replace (base =? 16) with false by lia. replace (base =? 2) with false by lia. reflexivity.
Qed.

Lemma caseeq_second p c1 c2 : caseeq p [c1; c2] = true -> tolower (peek (tl p)) = tolower c2.
Proof. intros H. apply caseeq2_split in H. destruct H as [a [b [r [-> [_ Hb]]]]]. exact Hb. Qed.

Lemma tolower_x_toupper b : tolower b = 120 -> toupper b = 88.
Proof. intros H. apply tolower_120 in H. destruct H as [-> | ->]; reflexivity. Qed.

(* the digits of a valid hexadecimal / binary constant never begin with a second prefix *)
Lemma hex_not_doubled d ds sfx : forallb (is_digit_of 16) ds = true ->
  doubled_prefix 16 ((d :: ds) ++ spell_isuffix sfx) = false.
Proof.
  intros Hds. unfold doubled_prefix. change (16 =? 2) with false. change (16 =? 16) with true. cbn [andb orb].
  rewrite orb_false_r.
  destruct (caseeq ((d :: ds) ++ spell_isuffix sfx) [48; 120]) eqn:E; [|reflexivity].
  apply caseeq_second in E. change (tolower 120) with 120 in E. apply tolower_x_toupper in E.
  exfalso. exact (second_not_x d ds sfx Hds E).
Qed.

Lemma bin_not_doubled d ds sfx : forallb (is_digit_of 2) ds = true ->
  doubled_prefix 2 ((d :: ds) ++ spell_isuffix sfx) = false.
Proof.
  intros Hds. unfold doubled_prefix. change (2 =? 16) with false. change (2 =? 2) with true. cbn [andb orb].
  destruct (caseeq ((d :: ds) ++ spell_isuffix sfx) [48; 98]) eqn:E; [|reflexivity].
  apply caseeq_second in E. change (tolower 98) with 98 in E. exfalso.
  cbn [app tl] in E. destruct ds as [|d2 ds].
  - cbn [app] in E. pose proof (suffix_first sfx) as H. cbv zeta in H.
    destruct H as [H | [H | [H | [H | H]]]]; rewrite H in E; discriminate E.
  - cbn [app peek] in E. cbn [forallb] in Hds. apply andb_prop in Hds. destruct Hds as [Hd2 _].
    rewrite bindig_01 in Hd2. apply tolower_98 in E. lia.
Qed.

Theorem scan_int_accepts k : valid_iconst k = true ->
  scan_int (spell_iconst k) =
    Some (base_radix (ic_base k), N.min (iconst_value k) umax, suffix_has_l (ic_suffix k), suffix_has_u (ic_suffix k)).
Proof.
  destruct k as [b ds sfx]. unfold valid_iconst, spell_iconst, iconst_value. cbn [ic_base ic_digits ic_suffix].
  intros Hv. apply andb_prop in Hv. destruct Hv as [Hds Hshape].
  pose proof (radix_of_ok b) as Hb.
  pose proof (suffix_not_digit (base_radix b) sfx Hb) as Hsfx.
  unfold scan_int.
  destruct b as [| |up|up]; cbn [base_radix spell_base app] in *.
  - (* decimal *)
    destruct ds as [|d ds']; [discriminate|].
    assert (Hd : is_digit_of 10 d = true) by (cbn [forallb] in Hds; apply andb_prop in Hds; tauto).
    destruct (digit_tolower d Hd) as [Ht Hr].
    assert (Hbase : scan_base ((d :: ds') ++ spell_isuffix sfx) = (10, (d :: ds') ++ spell_isuffix sfx)).
    { unfold scan_base. cbn [app caseeq peek]. rewrite Ht.
      replace (d =? tolower 48) with false by (cbv [tolower isupper]; cbn; lia).
      cbn [andb]. replace (d =? 48) with false by lia. reflexivity. }
    rewrite Hbase. cbn [fst snd]. rewrite doubled_prefix_other by discriminate.
    rewrite strtoul_plain; [|exact Hb|discriminate|exact Hds|exact Hsfx|intros E; discriminate E].
    cbn [fst snd]. rewrite scan_suffix_accepts. reflexivity.
  - (* octal *)
    destruct (oct_second ds sfx Hds) as [Hnx Hnb].
    assert (Hbase : scan_base (48 :: ds ++ spell_isuffix sfx) = (8, 48 :: ds ++ spell_isuffix sfx)).
    { unfold scan_base. cbn [caseeq peek].
      destruct (ds ++ spell_isuffix sfx) as [|b2 t] eqn:E; cbn [peek] in *.
      - reflexivity.
      - cbn [caseeq]. replace (tolower b2 =? tolower 120) with false by (change (tolower 120) with 120; lia).
        replace (tolower b2 =? tolower 98) with false by (change (tolower 98) with 98; lia).
        rewrite !andb_false_r. reflexivity. }
    rewrite Hbase. cbn [fst snd]. rewrite doubled_prefix_other by discriminate.
    change (48 :: ds ++ spell_isuffix sfx) with ((48 :: ds) ++ spell_isuffix sfx).
    rewrite strtoul_plain; [|exact Hb|discriminate| |exact Hsfx|intros E; discriminate E].
    + cbn [fst snd]. rewrite scan_suffix_accepts. reflexivity.
    + cbn [forallb]. rewrite Hds. reflexivity.
  - (* hexadecimal *)
    destruct ds as [|d ds']; [discriminate|].
    assert (Hd : is_digit_of 16 d = true) by (cbn [forallb] in Hds; apply andb_prop in Hds; tauto).
    assert (Hbase : scan_base (48 :: (if up then 88 else 120) :: (d :: ds') ++ spell_isuffix sfx) = (16, (d :: ds') ++ spell_isuffix sfx)).
    { unfold scan_base. cbn [app caseeq nth skipn]. rewrite <- hexdig_isxdigit, Hd. destruct up; reflexivity. }
    rewrite Hbase. cbn [fst snd].
    rewrite hex_not_doubled by (cbn [forallb] in Hds; apply andb_prop in Hds; tauto).
    rewrite strtoul_plain; [|exact Hb|discriminate|exact Hds|exact Hsfx|].
    + cbn [fst snd]. rewrite scan_suffix_accepts. reflexivity.
    + intros _ _. apply second_not_x. cbn [forallb] in Hds. apply andb_prop in Hds. tauto.
  - (* binary *)
    destruct ds as [|d ds']; [discriminate|].
    assert (Hd : is_digit_of 2 d = true) by (cbn [forallb] in Hds; apply andb_prop in Hds; tauto).
    assert (Hbase : scan_base (48 :: (if up then 66 else 98) :: (d :: ds') ++ spell_isuffix sfx) = (2, (d :: ds') ++ spell_isuffix sfx)).
    { unfold scan_base. cbn [app caseeq nth skipn]. rewrite bindig_01 in Hd. rewrite Hd. destruct up; reflexivity. }
    rewrite Hbase. cbn [fst snd].
    rewrite bin_not_doubled by (cbn [forallb] in Hds; apply andb_prop in Hds; tauto).
    rewrite strtoul_plain; [|exact Hb|discriminate|exact Hds|exact Hsfx|intros E; discriminate E].
    cbn [fst snd]. rewrite scan_suffix_accepts. reflexivity.
Qed.

(* value and type of every integer constant of the grammar whose value fits 64 bits and to which
   6.4.4.1p5 gives a type: convert_pp_int stores exactly that value and that type *)
Theorem convert_pp_int_spec k t : valid_iconst k = true ->
  iconst_value k <= umax -> iconst_type k = Some t ->
  convert_pp_int (spell_iconst k) = Some (iconst_value k, t).
Proof.
  intros Hv Hle Ht. unfold convert_pp_int. rewrite scan_int_accepts by exact Hv.
  rewrite N.min_l by exact Hle. f_equal. f_equal.
  unfold iconst_type in Ht.
  replace (base_radix (ic_base k) =? 10) with (iconst_decimal k) by (unfold iconst_decimal; destruct (ic_base k); reflexivity).
  apply literal_type_is_c11; [unfold umax in Hle; lia|exact Ht].
Qed.

(* beyond 64 bits (6.4.4p2: a constraint violation) chibicc accepts the constant silently with
   the value 2^64-1 that strtoul returns *)
Theorem convert_pp_int_saturates k : valid_iconst k = true -> umax < iconst_value k ->
  exists t, convert_pp_int (spell_iconst k) = Some (umax, t).
Proof.
  intros Hv Hgt. unfold convert_pp_int. rewrite scan_int_accepts by exact Hv.
  rewrite N.min_r by lia. eexists. reflexivity.
Qed.

(* ------------------------------------------------------------------ *)
(* the recogniser by exhaustive search = the grammar                   *)
(* ------------------------------------------------------------------ *)
Lemma list_eqb_eq a : forall b, list_eqb a b = true <-> a = b.
Proof.
  induction a as [|x a IH]; intros [|y b]; cbn [list_eqb]; split; intros H; try reflexivity; try discriminate.
  - apply andb_prop in H. destruct H as [Hx Ha]. apply N.eqb_eq in Hx. apply IH in Ha. subst. reflexivity.
  - inversion H; subst. rewrite N.eqb_refl. cbn [andb]. apply IH. reflexivity.
Qed.

Lemma recognise_sound s k : recognise_iconst s = Some k -> valid_iconst k = true /\ spell_iconst k = s.
Proof.
  unfold recognise_iconst. intros H. apply find_some in H. destruct H as [_ H].
  apply andb_prop in H. destruct H as [Hv He]. apply list_eqb_eq in He. split; assumption.
Qed.

Lemma firstn_app_exact (a b : list N) : firstn (length a) (a ++ b) = a.
Proof. induction a as [|x a IH]; [reflexivity|]. cbn [length app firstn]. rewrite IH. reflexivity. Qed.

Lemma all_isuffix_complete sfx : In sfx all_isuffix.
Proof. destruct sfx as [|u [l|]|l [u|]]; try destruct u; try destruct l; cbv; tauto. Qed.
Lemma all_ibase_complete b : In b all_ibase.
Proof. destruct b as [| |[|]|[|]]; cbv; tauto. Qed.

Lemma candidate_in k : In k (iconst_candidates (spell_iconst k)).
Proof.
  destruct k as [b ds sfx]. unfold iconst_candidates, spell_iconst. cbn [ic_base ic_digits ic_suffix].
  apply in_flat_map. exists b. split; [apply all_ibase_complete|].
  apply in_map_iff. exists sfx. split; [|apply all_isuffix_complete].
  cbv zeta. rewrite skipn_app_exact.
  replace (length (ds ++ spell_isuffix sfx) - length (spell_isuffix sfx))%nat with (length ds) by (rewrite app_length; lia).
  rewrite firstn_app_exact. reflexivity.
Qed.

Lemma recognise_complete k : valid_iconst k = true -> recognise_iconst (spell_iconst k) <> None.
Proof.
  intros Hv Hn. unfold recognise_iconst in Hn.
  pose proof (find_none _ _ Hn k (candidate_in k)) as H. cbv beta in H.
  rewrite Hv in H. cbn [andb] in H.
  assert (E : list_eqb (spell_iconst k) (spell_iconst k) = true) by (apply list_eqb_eq; reflexivity).
  rewrite E in H. discriminate.
Qed.

(* the searched recogniser decides membership in the grammar *)
Theorem recognise_iff s : recognise_iconst s <> None <-> exists k, valid_iconst k = true /\ spell_iconst k = s.
Proof.
  split.
  - intros H. destruct (recognise_iconst s) as [k|] eqn:E; [|contradiction].
    exists k. apply recognise_sound. exact E.
  - intros [k [Hv <-]]. apply recognise_complete. exact Hv.
Qed.

(* ------------------------------------------------------------------ *)
(* rejection: what convert_pp_int accepts is in the grammar            *)
(* ------------------------------------------------------------------ *)
Lemma caseeq_0x p : caseeq p [48; 120] = true -> exists x r, p = 48 :: x :: r /\ (x = 120 \/ x = 88).
Proof.
  intros H. apply caseeq2_split in H. destruct H as [a [b [r [-> [Ha Hb]]]]].
  apply tolower_48 in Ha. apply tolower_120 in Hb. subst a. exists b, r. split; [reflexivity|exact Hb].
Qed.
Lemma caseeq_0b p : caseeq p [48; 98] = true -> exists x r, p = 48 :: x :: r /\ (x = 98 \/ x = 66).
Proof.
  intros H. apply caseeq2_split in H. destruct H as [a [b [r [-> [Ha Hb]]]]].
  apply tolower_48 in Ha. apply tolower_98 in Hb. subst a. exists b, r. split; [reflexivity|exact Hb].
Qed.

Lemma toupper_88 b : toupper b = 88 -> b = 88 \/ b = 120.
Proof. unfold toupper, islower. destruct ((97 <=? b) && (b <=? 122)) eqn:E; lia. Qed.

Lemma strtoul_noskip_inv base p : radix_ok base ->
  (base =? 16) && (peek p =? 48) && (toupper (peek (tl p)) =? 88) = false ->
  is_base_digit base (peek p) = true ->
  exists ds rest, p = ds ++ rest /\ ds <> [] /\ forallb (is_digit_of base) ds = true /\
                  strtoul p base = (N.min (digits_value base ds) umax, rest).
Proof.
  intros Hb Hsk Hd. unfold strtoul. rewrite Hsk, Hd.
  destruct (strtoul_digits base 0 p) as [v rest] eqn:E.
  destruct (strtoul_digits_inv base Hb p 0 v rest E) as [ds [Hp [Hds [Hr Hv]]]].
  exists ds, rest. repeat split; try assumption.
  - intros ->. cbn [app] in Hp. subst rest. rewrite Hd in Hr. discriminate.
  - cbn [fst snd]. subst v. reflexivity.
Qed.

Lemma suffix_close rest l u : scan_suffix rest = (l, u, []) -> exists sfx, rest = spell_isuffix sfx.
Proof.
  intros H. apply scan_suffix_inv in H. apply table_sound in H. destruct H as [sfx [E _]]. exists sfx. exact E.
Qed.

Lemma scan_tail_inv {A : Type} base p (r : A) : radix_ok base ->
  (base =? 16) && (peek p =? 48) && (toupper (peek (tl p)) =? 88) = false ->
  is_base_digit base (peek p) = true ->
  match snd (scan_suffix (snd (strtoul p base))) with [] => Some r | _ :: _ => None end = Some r ->
  exists ds sfx, p = ds ++ spell_isuffix sfx /\ ds <> [] /\ forallb (is_digit_of base) ds = true.
Proof.
  intros Hb Hsk Hd H.
  destruct (strtoul_noskip_inv base p Hb Hsk Hd) as [ds [rest [Hp [Hne [Hds Hst]]]]].
  rewrite Hst in H. cbn [snd] in H.
  destruct (scan_suffix rest) as [[l u] r'] eqn:Es. cbn [snd] in H.
  destruct r' as [|x r']; [|discriminate].
  destruct (suffix_close rest l u Es) as [sfx ->].
  exists ds, sfx. repeat split; assumption.
Qed.

Theorem scan_int_sound s r : isdigit (peek s) = true -> scan_int s = Some r ->
  exists k, valid_iconst k = true /\ spell_iconst k = s.
Proof.
  intros Hdig H. unfold scan_int in H.
  destruct (doubled_prefix (fst (scan_base s)) (snd (scan_base s))) eqn:Edp; [discriminate|].
  set (res := (fst (scan_base s), fst (strtoul (snd (scan_base s)) (fst (scan_base s))),
               fst (fst (scan_suffix (snd (strtoul (snd (scan_base s)) (fst (scan_base s)))))),
               snd (fst (scan_suffix (snd (strtoul (snd (scan_base s)) (fst (scan_base s)))))))) in H.
  assert (H' : match snd (scan_suffix (snd (strtoul (snd (scan_base s)) (fst (scan_base s))))) with
               | [] => Some res | _ :: _ => None end = Some res).
  { destruct (snd (scan_suffix (snd (strtoul (snd (scan_base s)) (fst (scan_base s)))))); [reflexivity|discriminate]. }
  clear H. revert H'. generalize res. clear res r. intros r H.
  unfold scan_base in H, Edp.
  destruct (caseeq s [48; 120] && isxdigit (nth 2 s 0)) eqn:C16.
  { (* hexadecimal *)
    apply andb_prop in C16. destruct C16 as [Cx Cd].
    destruct (caseeq_0x s Cx) as [x [t [-> Hx]]]. cbn [nth] in Cd. cbn [fst snd skipn] in H, Edp.
    destruct t as [|d t']; [discriminate|]. cbn [nth] in Cd.
    assert (Hsk : (16 =? 16) && (peek (d :: t') =? 48) && (toupper (peek (tl (d :: t'))) =? 88) = false).
    { cbn [peek tl]. change (16 =? 16) with true. cbn [andb].
      destruct (d =? 48) eqn:E48; [|reflexivity]. cbn [andb].
      destruct (toupper (peek t') =? 88) eqn:E88; [|reflexivity].
      apply N.eqb_eq in E48. apply N.eqb_eq in E88. apply toupper_88 in E88. subst d.
      destruct t' as [|y t'']; [cbn in E88; lia|]. cbn [peek] in E88.
      exfalso. destruct E88 as [-> | ->]; destruct t''; discriminate Edp. }
    assert (Hd : is_base_digit 16 (peek (d :: t')) = true).
    { cbn [peek]. rewrite <- (digit_of_base 16 d); [|unfold radix_ok; tauto]. rewrite hexdig_isxdigit. exact Cd. }
    destruct (scan_tail_inv 16 (d :: t') r ltac:(unfold radix_ok; tauto) Hsk Hd H) as [ds [sfx [Hp [Hne Hds]]]].
    exists {| ic_base := BHex (x =? 88); ic_digits := ds; ic_suffix := sfx |}.
    unfold valid_iconst, spell_iconst. cbn [ic_base ic_digits ic_suffix base_radix spell_base].
    split.
    - rewrite Hds. cbn [andb]. destruct ds; [contradiction|reflexivity].
    - rewrite Hp. destruct Hx as [-> | ->]; reflexivity. }
  destruct (caseeq s [48; 98] && ((nth 2 s 0 =? 48) || (nth 2 s 0 =? 49))) eqn:C2.
  { (* binary *)
    apply andb_prop in C2. destruct C2 as [Cx Cd].
    destruct (caseeq_0b s Cx) as [x [t [-> Hx]]]. cbn [nth] in Cd. cbn [fst snd skipn] in H.
    destruct t as [|d t']; [discriminate|]. cbn [nth] in Cd.
    assert (Hd : is_base_digit 2 (peek (d :: t')) = true).
    { cbn [peek]. rewrite <- (digit_of_base 2 d); [|unfold radix_ok; tauto]. rewrite bindig_01. exact Cd. }
    destruct (scan_tail_inv 2 (d :: t') r ltac:(unfold radix_ok; tauto) eq_refl Hd H) as [ds [sfx [Hp [Hne Hds]]]].
    exists {| ic_base := BBin (x =? 66); ic_digits := ds; ic_suffix := sfx |}.
    unfold valid_iconst, spell_iconst. cbn [ic_base ic_digits ic_suffix base_radix spell_base].
    split.
    - rewrite Hds. cbn [andb]. destruct ds; [contradiction|reflexivity].
    - rewrite Hp. destruct Hx as [-> | ->]; reflexivity. }
  destruct (peek s =? 48) eqn:C8; cbn [fst snd] in H.
  { (* octal *)
    destruct s as [|z t]; [discriminate|]. cbn [peek] in C8. apply N.eqb_eq in C8. subst z.
    destruct (scan_tail_inv 8 (48 :: t) r ltac:(unfold radix_ok; tauto) eq_refl eq_refl H) as [ds [sfx [Hp [Hne Hds]]]].
    destruct ds as [|d0 ds']; [contradiction|]. cbn [app] in Hp. inversion Hp as [[Hd0 Ht]]. subst d0.
    exists {| ic_base := BOct; ic_digits := ds'; ic_suffix := sfx |}.
    unfold valid_iconst, spell_iconst. cbn [ic_base ic_digits ic_suffix base_radix spell_base].
    cbn [forallb] in Hds. apply andb_prop in Hds. destruct Hds as [_ Hds].
    split; [rewrite Hds; reflexivity|reflexivity]. }
  { (* decimal *)
    destruct s as [|d t]; [discriminate|]. cbn [peek] in C8, Hdig.
    assert (Hd : is_base_digit 10 (peek (d :: t)) = true).
    { cbn [peek]. rewrite <- (digit_of_base 10 d); [|unfold radix_ok; tauto]. rewrite decdig_isdigit. exact Hdig. }
    destruct (scan_tail_inv 10 (d :: t) r ltac:(unfold radix_ok; tauto) eq_refl Hd H) as [ds [sfx [Hp [Hne Hds]]]].
    destruct ds as [|d0 ds']; [contradiction|]. cbn [app] in Hp. inversion Hp as [[Hd0 Ht]]. subst d0.
    exists {| ic_base := BDec; ic_digits := d :: ds'; ic_suffix := sfx |}.
    unfold valid_iconst, spell_iconst. cbn [ic_base ic_digits ic_suffix base_radix spell_base].
    split; [rewrite Hds, C8; reflexivity|reflexivity]. }
Qed.

(* a pp-number that starts with a period is never an integer constant *)
Theorem scan_int_rejects_dot t : scan_int (46 :: t) = None.
Proof. reflexivity. Qed.

(* acceptance and rejection together, for every byte string that starts with a digit:
   convert_pp_int accepts it iff the grammar of 6.4.4.1 generates it *)
Theorem convert_pp_int_iff s : isdigit (peek s) = true ->
  (convert_pp_int s <> None <-> exists k, valid_iconst k = true /\ spell_iconst k = s).
Proof.
  intros Hd. unfold convert_pp_int. split.
  - intros H. destruct (scan_int s) as [[[[b v] l] u]|] eqn:E; [|contradiction].
    eapply scan_int_sound; eassumption.
  - intros [k [Hv <-]]. rewrite scan_int_accepts by exact Hv. discriminate.
Qed.

Corollary convert_pp_int_rejects s : isdigit (peek s) = true ->
  recognise_iconst s = None -> convert_pp_int s = None.
Proof.
  intros Hd Hn. destruct (convert_pp_int s) as [r|] eqn:E; [|reflexivity].
  assert (H : convert_pp_int s <> None) by (rewrite E; discriminate).
  apply (convert_pp_int_iff s Hd) in H. apply recognise_iff in H. contradiction.
Qed.

(* the former finding (0x0x1 was accepted as 1 before commit d1a8518), now instances of the
   theorem: a doubled prefix is refused by model and grammar alike; 0x0b1 is the constant 177 *)
Example convert_pp_int_doubled_prefix :
  convert_pp_int [48; 120; 48; 120; 49] = None /\ recognise_iconst [48; 120; 48; 120; 49] = None /\
  convert_pp_int [48; 88; 48; 88; 49; 102] = None /\ convert_pp_int [48; 98; 48; 98; 49] = None /\
  convert_pp_int [48; 120; 48; 98; 49] = Some (177, TInt) /\ convert_pp_int [48; 120; 48] = Some (0, TInt).
Proof. vm_compute. repeat split; reflexivity. Qed.
