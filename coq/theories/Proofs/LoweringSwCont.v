(* C03 (package sw): the simulation theorem read with the continuation semantics (Spec/SwCont.v,
   the usual style for goto) as the specification - the seek semantics of SwSem.v is then only a
   proof device. *)
From Coq Require Import List Arith Bool.
Import ListNotations.
From Chibicc Require Import Spec.SwSem Spec.SwCont Model.LoweringSw Model.LoweringSwParse
  Proofs.LoweringSwProofs Proofs.LoweringSwParseProofs Proofs.SwContProofs Proofs.SwContComplete.

Theorem sw_code_simulates_continuation_semantics : forall body o tr o',
  swf_fn body = true -> cstar body (body, Kstop, o) tr (SSkip, Kstop, o') ->
  forall r, exists r', sstar (sprogram body) (0, o, r) tr (ssize body, o', r').
Proof.
  intros body o tr o' Hwf H r. destruct (sw_continuations_complete body o tr o' H) as [fuel Hs]. exact (sw_program_simulates fuel body o tr o' Hwf Hs r).
Qed.

(* the same for the code as parse.c and gen_stmt produce it, assembled; and every halting run of it *)
Theorem sw_parsed_code_simulates_continuation_semantics : forall body ctr c code o tr o',
  pfunction body ctr c = Some code -> swf_fn body = true -> cstar body (body, Kstop, o) tr (SSkip, Kstop, o') ->
  (forall r, exists r', sstar (passemble code) (0, o, r) tr (length (passemble code), o', r')) /\
  (forall r t2 st2, sstar (passemble code) (0, o, r) t2 st2 -> sstep (passemble code) st2 = None -> t2 = tr /\ snd (fst st2) = o').
Proof.
  intros body ctr c code o tr o' Hp Hwf H. destruct (sw_continuations_complete body o tr o' H) as [fuel Hs]. split.
  - exact (sw_parsed_program_simulates body ctr c code fuel o tr o' Hp Hwf Hs).
  - intros r t2 st2 H2 Hstuck. rewrite (sw_parse_gen_is_sprogram _ _ _ _ Hp) in *.
    destruct (sw_program_run_unique fuel body o tr o' Hwf Hs r t2 st2 H2 Hstuck) as (Ht & _ & Ho). split; assumption.
Qed.
