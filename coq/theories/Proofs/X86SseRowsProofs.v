(* The four branching rows of the cast table (unsigned long / _Bool -> float / double and float / double ->
   unsigned long), executed as X86Sse's exec_u64_to_f / exec_f_to_u64: for every unsigned 64-bit value the first
   leaves the correctly rounded float / double (below 2^63 directly, from 2^63 on by halving with a sticky bit and
   doubling); for every float / double whose integral part is representable in unsigned long the second leaves it
   (below 2^63 directly, from 2^63 on by subtracting 2^63 exactly and flipping bit 63). *)
From Coq Require Import ZArith Reals Bool List Lia.
From Flocq Require Import Core Binary Bits.
From Chibicc Require Import Base.Mach Spec.C11Int Spec.C11Float Model.X86Int Model.X86Sse Model.FloatConv
     Proofs.FloatConvProofs Proofs.X86SseProofs Proofs.FloatRoundProofs.
Local Open Scope Z_scope.

Lemma f32_lane64 v : f32 (lane64 v) = f32 v. Proof. unfold f32. rewrite lane32_lane64. reflexivity. Qed.
Lemma f64_lane64 v : f64 (lane64 v) = f64 v. Proof. unfold f64. rewrite lane64_idem. reflexivity. Qed.
Lemma f32_put32 old (r : binary32) : f32 (put32 old (bits_of_b32 r)) = r.
Proof. unfold f32. rewrite lane32_put32, (lane32_small _ (bits32_range r)). apply b32_bits. Qed.
Lemma f64_bits (r : binary64) : f64 (bits_of_b64 r) = r.
Proof. unfold f64. rewrite (lane64_small _ (bits64_range r)). apply b64_bits. Qed.

Lemma sgn64_small r : 0 <= r < 2 ^ 63 -> sgn W64 r = r.
Proof. intros H. unfold sgn. cbn [bits]. change (2 ^ (64 - 1)) with (2 ^ 63). rewrite Z.mod_small by (change (2 ^ 64) with (2 * 2 ^ 63); lia).
  destruct (2 ^ 63 <=? r) eqn:E; [apply Z.leb_le in E; lia|reflexivity]. Qed.

Lemma halve_range z : 2 ^ 63 <= z < 2 ^ 64 -> 2 ^ 62 <= halve_sticky z < 2 ^ 63.
Proof.
  intros Hz. rewrite halve_sticky_arith by lia.
  change (2 ^ 64) with (2 * 2 ^ 63) in Hz. change (2 ^ 63) with (2 * 2 ^ 62) in *.
  destruct (Z.odd z && Z.even (z / 2)) eqn:E.
  - apply andb_true_iff in E as [_ Ev]. apply even_mod in Ev. lia.
  - lia.
Qed.

(* ---------- unsigned 64-bit -> float / double ---------- *)
Lemma exec_u64_to_f32 s z : rax (ix s) = z -> 0 <= z < 2 ^ 64 -> f32 (x0 (exec_u64_to_f SS s)) = s_of_int z.
Proof.
  intros E Hz. unfold exec_u64_to_f. rewrite E. unfold reg64. rewrite (Z.mod_small z) by lia.
  destruct (z <? 2 ^ 63) eqn:C; cbn [x0 cvt_i2f double_self].
  - apply Z.ltb_lt in C. rewrite f32_lane64, f32_put32, (sgn64_small z) by lia. reflexivity.
  - apply Z.ltb_ge in C. fold (halve_sticky z). pose proof (halve_range z ltac:(lia)) as Hh.
    rewrite (sgn64_small (halve_sticky z)) by (change (2 ^ 63) with (2 * 2 ^ 62) in *; lia). rewrite !f32_lane64, !f32_put32.
    unfold arith32, cvtsi2ss, s_of_int.
    apply (double_half 24 128 xprec32 xemax32 x86_nan32 z (halve_sticky z) 39); try lia.
    apply halving_is_rne_f32. lia.
Qed.
Lemma exec_u64_to_f64 s z : rax (ix s) = z -> 0 <= z < 2 ^ 64 -> f64 (x0 (exec_u64_to_f SD s)) = d_of_int z.
Proof.
  intros E Hz. unfold exec_u64_to_f. rewrite E. unfold reg64. rewrite (Z.mod_small z) by lia.
  destruct (z <? 2 ^ 63) eqn:C; cbn [x0 cvt_i2f double_self].
  - apply Z.ltb_lt in C. rewrite f64_lane64, f64_bits, (sgn64_small z) by lia. reflexivity.
  - apply Z.ltb_ge in C. fold (halve_sticky z). pose proof (halve_range z ltac:(lia)) as Hh.
    rewrite (sgn64_small (halve_sticky z)) by (change (2 ^ 63) with (2 * 2 ^ 62) in *; lia). rewrite !f64_lane64, !f64_bits.
    unfold arith64, cvtsi2sd, d_of_int.
    apply (double_half 53 1024 xprec64 xemax64 x86_nan64 z (halve_sticky z) 10); try lia.
    apply halving_is_rne_f64. lia.
Qed.

(* ---------- float / double -> unsigned 64-bit ---------- *)
Lemma K32_val : is_finite 24 128 (f32 (two63_bits SS)) = true /\ B2R 24 128 (f32 (two63_bits SS)) = IZR (2 ^ 63).
Proof.
  split; [reflexivity|]. unfold f32, b32_of_bits, binary_float_of_bits. rewrite B2R_FF2B.
  replace (binary_float_of_bits_aux 23 8 (lane32 (two63_bits SS))) with (F754_finite false 8388608 40) by (vm_compute; reflexivity).
  unfold FF2R, F2R. cbn [Fnum Fexp cond_Zopp]. rewrite <- (IZR_pow2 40) by lia. rewrite <- mult_IZR. reflexivity.
Qed.
Lemma K64_val : is_finite 53 1024 (f64 (two63_bits SD)) = true /\ B2R 53 1024 (f64 (two63_bits SD)) = IZR (2 ^ 63).
Proof.
  split; [reflexivity|]. unfold f64, b64_of_bits, binary_float_of_bits. rewrite B2R_FF2B.
  replace (binary_float_of_bits_aux 52 11 (lane64 (two63_bits SD))) with (F754_finite false 4503599627370496 11) by (vm_compute; reflexivity).
  unfold FF2R, F2R. cbn [Fnum Fexp cond_Zopp]. rewrite <- (IZR_pow2 11) by lia. rewrite <- mult_IZR. reflexivity.
Qed.

Lemma two63_lt_emax e : 63 < e -> (IZR (2 ^ 63) < bpow radix2 e)%R.
Proof. intros H. rewrite IZR_pow2 by lia. apply bpow_lt. exact H. Qed.

Lemma exec_f32_to_u64 s x z : feq (f32 (x0 s)) x -> int_part x = Some z -> 0 <= z < 2 ^ 64 ->
  rax (ix (exec_f_to_u64 SS s)) = z.
Proof.
  intros HR I Hz.
  assert (N : is_nan 24 128 x = false) by (destruct x; try reflexivity; discriminate).
  pose proof (feq_exact _ _ HR N) as EX.
  destruct K32_val as [FK VK]. destruct (int_part_finite 24 128 xemax32 x z I) as [Fx _].
  pose proof (Bcompare_correct 24 128 x _ Fx FK) as CC.
  unfold exec_f_to_u64. rewrite EX. unfold b32_compare. set (K := f32 (two63_bits SS)) in *.
  destruct (Rcompare (B2R 24 128 x) (B2R 24 128 K)) eqn:RC; rewrite CC; cbn [after_ucomi ucomi_flags ix f_cf set_flags with_ix set_rax rax].
  - (* equal *)
    destruct (trunc_minus 24 128 xprec32 xemax32 x86_nan32 x K (2 ^ 63) z FK VK ltac:(lia) (two63_lt_emax 128 ltac:(lia)) I ltac:(lia) (or_intror CC)) as [IM Kz].
    rewrite f32_put32. change (arith32 FSub x K) with (Bminus 24 128 xprec32 xemax32 x86_nan32 mode_NE x K).
    rewrite (cvtt_int_part W64 _ _ (z - 2 ^ 63) (feq_refl _) IM) by (cbn [bits]; change (2 ^ (64 - 1)) with (2 ^ 63); change (2 ^ 64) with (2 * 2 ^ 63) in Hz; lia).
    cbn [bits]. rewrite Z.mod_small by (change (2 ^ 64) with (2 * 2 ^ 63) in *; lia).
    rewrite lxor_bit_clear by (change (2 ^ 64) with (2 * 2 ^ 63) in Hz; lia). lia.
  - (* below *)
    pose proof (trunc_below 24 128 xemax32 x K (2 ^ 63) z FK VK ltac:(lia) I CC) as Lz.
    rewrite (cvtt_int_part W64 _ _ z (feq_refl _) I) by (cbn [bits]; change (2 ^ (64 - 1)) with (2 ^ 63); lia).
    cbn [bits]. apply Z.mod_small. lia.
  - (* above *)
    destruct (trunc_minus 24 128 xprec32 xemax32 x86_nan32 x K (2 ^ 63) z FK VK ltac:(lia) (two63_lt_emax 128 ltac:(lia)) I ltac:(lia) (or_introl CC)) as [IM Kz].
    rewrite f32_put32. change (arith32 FSub x K) with (Bminus 24 128 xprec32 xemax32 x86_nan32 mode_NE x K).
    rewrite (cvtt_int_part W64 _ _ (z - 2 ^ 63) (feq_refl _) IM) by (cbn [bits]; change (2 ^ (64 - 1)) with (2 ^ 63); change (2 ^ 64) with (2 * 2 ^ 63) in Hz; lia).
    cbn [bits]. rewrite Z.mod_small by (change (2 ^ 64) with (2 * 2 ^ 63) in *; lia).
    rewrite lxor_bit_clear by (change (2 ^ 64) with (2 * 2 ^ 63) in Hz; lia). lia.
Qed.

Lemma exec_f64_to_u64 s x z : feq (f64 (x0 s)) x -> int_part x = Some z -> 0 <= z < 2 ^ 64 ->
  rax (ix (exec_f_to_u64 SD s)) = z.
Proof.
  intros HR I Hz.
  assert (N : is_nan 53 1024 x = false) by (destruct x; try reflexivity; discriminate).
  pose proof (feq_exact _ _ HR N) as EX.
  destruct K64_val as [FK VK]. destruct (int_part_finite 53 1024 xemax64 x z I) as [Fx _].
  pose proof (Bcompare_correct 53 1024 x _ Fx FK) as CC.
  unfold exec_f_to_u64. rewrite EX. unfold b64_compare. set (K := f64 (two63_bits SD)) in *.
  destruct (Rcompare (B2R 53 1024 x) (B2R 53 1024 K)) eqn:RC; rewrite CC; cbn [after_ucomi ucomi_flags ix f_cf set_flags with_ix set_rax rax].
  - (* equal *)
    destruct (trunc_minus 53 1024 xprec64 xemax64 x86_nan64 x K (2 ^ 63) z FK VK ltac:(lia) (two63_lt_emax 1024 ltac:(lia)) I ltac:(lia) (or_intror CC)) as [IM Kz].
    rewrite f64_bits. change (arith64 FSub x K) with (Bminus 53 1024 xprec64 xemax64 x86_nan64 mode_NE x K).
    rewrite (cvtt_int_part W64 _ _ (z - 2 ^ 63) (feq_refl _) IM) by (cbn [bits]; change (2 ^ (64 - 1)) with (2 ^ 63); change (2 ^ 64) with (2 * 2 ^ 63) in Hz; lia).
    cbn [bits]. rewrite Z.mod_small by (change (2 ^ 64) with (2 * 2 ^ 63) in *; lia).
    rewrite lxor_bit_clear by (change (2 ^ 64) with (2 * 2 ^ 63) in Hz; lia). lia.
  - (* below *)
    pose proof (trunc_below 53 1024 xemax64 x K (2 ^ 63) z FK VK ltac:(lia) I CC) as Lz.
    rewrite (cvtt_int_part W64 _ _ z (feq_refl _) I) by (cbn [bits]; change (2 ^ (64 - 1)) with (2 ^ 63); lia).
    cbn [bits]. apply Z.mod_small. lia.
  - (* above *)
    destruct (trunc_minus 53 1024 xprec64 xemax64 x86_nan64 x K (2 ^ 63) z FK VK ltac:(lia) (two63_lt_emax 1024 ltac:(lia)) I ltac:(lia) (or_introl CC)) as [IM Kz].
    rewrite f64_bits. change (arith64 FSub x K) with (Bminus 53 1024 xprec64 xemax64 x86_nan64 mode_NE x K).
    rewrite (cvtt_int_part W64 _ _ (z - 2 ^ 63) (feq_refl _) IM) by (cbn [bits]; change (2 ^ (64 - 1)) with (2 ^ 63); change (2 ^ 64) with (2 * 2 ^ 63) in Hz; lia).
    cbn [bits]. rewrite Z.mod_small by (change (2 ^ 64) with (2 * 2 ^ 63) in *; lia).
    rewrite lxor_bit_clear by (change (2 ^ 64) with (2 * 2 ^ 63) in Hz; lia). lia.
Qed.
