From Chibicc Require Import Base.Mach Model.Linkage.

Definition real (all : list gvar) (n : nat) : bool := existsb (fun o => g_def o && negb (g_tent o) && same n o) all.
Definition tn (n : nat) (g : gvar) : bool := g_tent g && same n g.
Definition cnt (n : nat) (l : list gvar) : nat := length (filter (tn n) l).

Lemma cnt_app n a b : cnt n (a ++ b) = (cnt n a + cnt n b)%nat.
Proof. unfold cnt. rewrite filter_app, app_length. reflexivity. Qed.

Lemma existsb_cnt n l : existsb (tn n) l = negb (Nat.eqb (cnt n l) 0).
Proof. unfold cnt. induction l as [|g r IH]; [reflexivity|]. cbn [existsb filter]. destruct (tn n g); cbn; [reflexivity|exact IH]. Qed.

Lemma same_sym a g : same a g = Nat.eqb a (g_name g). Proof. reflexivity. Qed.

(* the general invariant of the loop, for one name n *)
Lemma scan_cnt all n : forall rest kept, (cnt n kept <= 1)%nat ->
  cnt n (scan all rest kept) =
    if real all n then cnt n kept
    else if Nat.eqb (cnt n kept) 0 then (if Nat.eqb (cnt n rest) 0 then 0 else 1)%nat else cnt n kept.
Proof.
  induction rest as [|v r IH]; intros kept Hk; cbn [scan].
  - destruct (real all n); [reflexivity|]. destruct (Nat.eqb_spec (cnt n kept) 0); cbn; lia.
  - destruct (g_tent v) eqn:Et; cbn [negb].
    + (* tentative *)
      change (existsb (fun o => g_def o && negb (g_tent o) && same (g_name v) o) all) with (real all (g_name v)).
      change (existsb (fun k => g_tent k && same (g_name v) k) kept) with (existsb (tn (g_name v)) kept).
      rewrite existsb_cnt.
      destruct (Nat.eqb_spec (g_name v) n) as [En|En].
      * subst n. assert (Hv : tn (g_name v) v = true) by (unfold tn, same; rewrite Et, Nat.eqb_refl; reflexivity).
        assert (Hc : cnt (g_name v) (v :: r) = S (cnt (g_name v) r)) by (unfold cnt; cbn [filter]; rewrite Hv; reflexivity).
        destruct (real all (g_name v)) eqn:Er.
        -- rewrite orb_true_r. rewrite IH by exact Hk. rewrite ?Er. reflexivity.
        -- rewrite orb_false_r. destruct (Nat.eqb_spec (cnt (g_name v) kept) 0) as [E0|E0]; cbn [negb].
           ++ rewrite IH by (rewrite cnt_app; unfold cnt at 2; cbn [filter]; rewrite Hv; cbn; lia).
              rewrite Hc. assert (Hk1 : cnt (g_name v) (kept ++ [v]) = 1%nat) by (rewrite cnt_app; unfold cnt at 2; cbn [filter]; rewrite Hv; cbn; lia).
              rewrite Hk1. reflexivity.
           ++ rewrite IH by exact Hk. rewrite ?Er. destruct (Nat.eqb_spec (cnt (g_name v) kept) 0); [contradiction|reflexivity].
      * assert (Hv : tn n v = false) by (unfold tn, same; rewrite Et; cbn; apply Nat.eqb_neq; congruence).
        assert (Hc : cnt n (v :: r) = cnt n r) by (unfold cnt; cbn [filter]; rewrite Hv; reflexivity).
        assert (Hk' : cnt n (kept ++ [v]) = cnt n kept) by (rewrite cnt_app; unfold cnt at 2; cbn [filter]; rewrite Hv; cbn; lia).
        destruct (negb (Nat.eqb (cnt (g_name v) kept) 0) || real all (g_name v)).
        -- rewrite IH by exact Hk. rewrite Hc. reflexivity.
        -- rewrite IH by (rewrite Hk'; exact Hk). rewrite Hk', Hc. reflexivity.
    + (* not tentative: always kept *)
      assert (Hv : tn n v = false) by (unfold tn; rewrite Et; reflexivity).
      assert (Hc : cnt n (v :: r) = cnt n r) by (unfold cnt; cbn [filter]; rewrite Hv; reflexivity).
      assert (Hk' : cnt n (kept ++ [v]) = cnt n kept) by (rewrite cnt_app; unfold cnt at 2; cbn [filter]; rewrite Hv; cbn; lia).
      rewrite IH by (rewrite Hk'; exact Hk). rewrite Hk', Hc. reflexivity.
Qed.

(* with a real definition of n in the unit no tentative definition of n survives; without one,
   exactly one survives if there was any - however many there were *)
Theorem tentative_merged gs n :
  cnt n (scan_globals gs) = if real gs n then 0%nat else if Nat.eqb (cnt n gs) 0 then 0%nat else 1%nat.
Proof. unfold scan_globals. rewrite scan_cnt by (cbn; lia). cbn. reflexivity. Qed.

(* everything that is not a tentative definition passes through, in order *)
Lemma scan_nontent all : forall rest kept, filter (fun g => negb (g_tent g)) (scan all rest kept) = filter (fun g => negb (g_tent g)) kept ++ filter (fun g => negb (g_tent g)) rest.
Proof.
  induction rest as [|v r IH]; intros kept; cbn [scan]; [rewrite app_nil_r; reflexivity|].
  destruct (g_tent v) eqn:Et; cbn [negb filter].
  - rewrite Et. cbn [negb]. destruct (_ || _); rewrite IH; [reflexivity|]. rewrite filter_app. cbn [filter]. rewrite Et. cbn. rewrite app_nil_r. reflexivity.
  - rewrite Et. cbn [negb]. rewrite IH, filter_app. cbn [filter]. rewrite Et. cbn. rewrite <- app_assoc. reflexivity.
Qed.
Theorem real_definitions_kept gs : filter (fun g => negb (g_tent g)) (scan_globals gs) = filter (fun g => negb (g_tent g)) gs.
Proof. unfold scan_globals. rewrite scan_nontent. reflexivity. Qed.

(* ---------- liveness ---------- *)
Inductive reach (fs : list func) (start : list nat) : nat -> Prop :=
| reach_start n : In n start -> reach fs start n
| reach_root f : In f fs -> f_root f = true -> reach fs start (f_name f)
| reach_ref n f u : reach fs start n -> find_func fs n = Some f -> In u (f_refs f) -> (exists g, find_func fs u = Some g) -> reach fs start u.

Lemma find_func_name fs n f : find_func fs n = Some f -> f_name f = n.
Proof. induction fs as [|g r IH]; cbn; [discriminate|]. destruct (Nat.eqb_spec (f_name g) n); [intros H; injection H as <-; assumption|exact IH]. Qed.

(* soundness: nothing is marked live that is not reachable *)
Lemma mark_live_sound fs start : forall fuel live n, (forall m, In m live -> reach fs start m) -> reach fs start n ->
  forall m, In m (mark_live fuel fs live n) -> reach fs start m.
Proof.
  induction fuel as [|fuel IH]; intros live n Hl Hn m Hm; cbn [mark_live] in Hm; [apply Hl; exact Hm|].
  destruct (find_func fs n) as [f|] eqn:Ef; [|apply Hl; exact Hm].
  destruct (existsb (Nat.eqb n) live); [apply Hl; exact Hm|].
  assert (G : forall refs live', (forall x, In x live' -> reach fs start x) -> (forall u, In u refs -> In u (f_refs f)) ->
              forall x, In x (fold_left (fun l u => mark_live fuel fs l u) refs live') -> reach fs start x).
  { induction refs as [|u r IHr]; intros live' Hl' Hsub x Hx; cbn [fold_left] in Hx; [apply Hl'; exact Hx|].
    apply (IHr (mark_live fuel fs live' u)); [|intros; apply Hsub; right; assumption|exact Hx].
    intros y Hy. destruct (find_func fs u) as [g|] eqn:Eg.
    - eapply IH; [exact Hl'| |exact Hy]. eapply reach_ref; [exact Hn|exact Ef|apply Hsub; left; reflexivity|eexists; exact Eg].
    - destruct fuel; cbn [mark_live] in Hy; [apply Hl'; exact Hy|]. rewrite Eg in Hy. apply Hl'. exact Hy. }
  eapply G; [|intros u Hu; exact Hu|exact Hm].
  intros x [<-|Hx]; [exact Hn|apply Hl; exact Hx].
Qed.

Theorem live_set_sound fs : forall m, In m (live_set fs) -> reach fs [] m.
Proof.
  unfold live_set.
  assert (G : forall l live, (forall f, In f l -> In f fs) -> (forall x, In x live -> reach fs [] x) ->
              forall m, In m (fold_left (fun l f => if f_root f then mark_live (S (length fs)) fs l (f_name f) else l) l live) -> reach fs [] m).
  { induction l as [|f r IH]; intros live Hsub Hl m Hm; cbn [fold_left] in Hm; [apply Hl; exact Hm|].
    eapply IH; [intros; apply Hsub; right; assumption| |exact Hm].
    destruct (f_root f) eqn:Er; [|exact Hl]. intros x Hx. eapply mark_live_sound; [exact Hl| |exact Hx].
    apply reach_root; [apply Hsub; left; reflexivity|exact Er]. }
  intros m Hm. eapply G; [intros f Hf; exact Hf| |exact Hm]. intros x [].
Qed.

(* marking only adds *)
Lemma mark_live_mono fs : forall fuel live n x, In x live -> In x (mark_live fuel fs live n).
Proof.
  induction fuel as [|fuel IH]; intros live n x Hx; cbn [mark_live]; [exact Hx|].
  destruct (find_func fs n) as [f|]; [|exact Hx]. destruct (existsb (Nat.eqb n) live); [exact Hx|].
  assert (G : forall refs live', In x live' -> In x (fold_left (fun l u => mark_live fuel fs l u) refs live')).
  { induction refs as [|u r IHr]; intros live' H; cbn [fold_left]; [exact H|]. apply IHr. apply IH. exact H. }
  apply G. right. exact Hx.
Qed.
