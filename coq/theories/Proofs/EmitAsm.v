(* C15 (package emit), part A: the assembler model applied to what emit produces.
   The events of the whole output are the concatenation of per-object blocks that do not depend
   on the assembler state they are met in; the entry of a symbol s depends only on the events
   that name s. *)
From Coq Require Import List Bool Arith ZArith Lia.
From Chibicc Require Import Model.Linkage Spec.LinkSpec Model.Emit.
Import ListNotations.

Lemma ident_eqb_eq a b : ident_eqb a b = true <-> a = b.
Proof.
  destruct a as [x|x], b as [y|y]; cbn; split; intros H; try discriminate; try (apply Nat.eqb_eq in H; subst; reflexivity);
    try (injection H as ->; apply Nat.eqb_refl).
Qed.
Lemma ident_eqb_refl a : ident_eqb a a = true. Proof. apply ident_eqb_eq. reflexivity. Qed.
Lemma ident_eqb_sym a b : ident_eqb a b = ident_eqb b a.
Proof. destruct a, b; cbn; try reflexivity; apply Nat.eqb_sym. Qed.

(* ---------- asm over concatenations ---------- *)
Lemma asm_app a : forall sec al b, exists sec' al', asm sec al (a ++ b) = asm sec al a ++ asm sec' al' b.
Proof.
  induction a as [|d r IH]; intros sec al b; [exists sec, al; reflexivity|].
  destruct d; cbn [app asm];
    try (destruct (IH sec al b) as (s' & a' & E); exists s', a'; rewrite E; reflexivity);
    try (destruct (IH sec None b) as (s' & a' & E); exists s', a'; rewrite E; reflexivity).
  - destruct (IH p None b) as (s' & a' & E); exists s', a'; rewrite E; reflexivity.
  - destruct (IH sec (Some a) b) as (s' & a' & E); exists s', a'; rewrite E; reflexivity.
  - destruct (IH sec None b) as (s' & a' & E); exists s', a'; rewrite E, app_assoc; reflexivity.
Qed.

Lemma asm_flat_map {A} (blk : A -> list directive) :
  (forall x sec al sec' al', asm sec al (blk x) = asm sec' al' (blk x)) ->
  forall l sec al, asm sec al (flat_map blk l) = flat_map (fun x => asm P_text None (blk x)) l.
Proof.
  intros Hind l. induction l as [|x r IH]; intros sec al; [reflexivity|].
  cbn [flat_map]. destruct (asm_app (blk x) sec al (flat_map blk r)) as (s' & a' & E). rewrite E, IH.
  rewrite (Hind x sec al P_text None). reflexivity.
Qed.

Definition data_ev (fc : bool) (prog : list obj) (o : obj) : list event := asm P_text None (emit_data_obj fc prog o).
Definition text_ev (pic : bool) (prog : list obj) (o : obj) : list event := asm P_text None (emit_text_obj pic prog o).

Lemma data_blk_indep fc prog o sec al sec' al' : asm sec al (emit_data_obj fc prog o) = asm sec' al' (emit_data_obj fc prog o).
Proof.
  unfold emit_data_obj. destruct (ob_function o || negb (ob_definition o)); [reflexivity|]. destruct (negb (owner_live prog o)); [reflexivity|].
  destruct (ob_static o), (fc && ob_tentative o && negb (ob_tls o)), (ob_init o), (ob_tls o), (ob_rel o); reflexivity.
Qed.
Lemma text_blk_indep pic prog o sec al sec' al' : asm sec al (emit_text_obj pic prog o) = asm sec' al' (emit_text_obj pic prog o).
Proof.
  unfold emit_text_obj. destruct (negb (ob_function o) || negb (ob_definition o)); [reflexivity|].
  destruct (negb (ob_live o)); [reflexivity|]. destruct (ob_static o); reflexivity.
Qed.

Theorem asm_emit o prog :
  asm P_text None (emit o prog) = flat_map (data_ev (fcommon o) prog) prog ++ flat_map (text_ev (fpic o) prog) prog.
Proof.
  unfold emit. destruct (asm_app (flat_map (emit_data_obj (fcommon o) prog) prog) P_text None (flat_map (emit_text_obj (fpic o) prog) prog)) as (s' & a' & E).
  rewrite E. rewrite (asm_flat_map _ (data_blk_indep (fcommon o) prog)), (asm_flat_map _ (text_blk_indep (fpic o) prog)). reflexivity.
Qed.

(* ---------- the entry of s depends on the events that name s ---------- *)
Definition is_ref (e : event) : bool := match e with ERef _ _ => true | _ => false end.
Definition core (s : ident) (evs : list event) : list event :=
  filter (fun e => ident_eqb s (ev_name e) && negb (is_ref e)) evs.

Lemma fold_left_filter {A B} (f : A -> B -> A) (keep : B -> bool) :
  (forall a e, keep e = false -> f a e = a) -> forall l a, fold_left f (filter keep l) a = fold_left f l a.
Proof.
  intros H l. induction l as [|e r IH]; intros a; [reflexivity|]. cbn [filter fold_left].
  destruct (keep e) eqn:Ek; [cbn [fold_left]; apply IH|]. rewrite (H a e Ek). apply IH.
Qed.

Lemma ev_binding_core s evs : ev_binding s (core s evs) = ev_binding s evs.
Proof.
  unfold ev_binding, core. apply fold_left_filter. intros a e Hk. destruct e; try reflexivity. cbn in Hk.
  rewrite andb_true_r in Hk. rewrite Hk. reflexivity.
Qed.
Lemma ev_stype_core s evs : ev_stype s (core s evs) = ev_stype s evs.
Proof.
  unfold ev_stype, core. apply fold_left_filter. intros a e Hk. destruct e; try reflexivity. cbn in Hk.
  rewrite andb_true_r in Hk. rewrite Hk. reflexivity.
Qed.
Lemma ev_size_core s evs : ev_size s (core s evs) = ev_size s evs.
Proof.
  unfold ev_size, core. apply fold_left_filter. intros a e Hk. destruct e; try reflexivity; cbn in Hk;
    rewrite andb_true_r in Hk; rewrite Hk; reflexivity.
Qed.
Lemma ev_defs_core s evs : ev_defs s (core s evs) = ev_defs s evs.
Proof.
  unfold ev_defs, core. induction evs as [|e r IH]; [reflexivity|]. cbn [filter].
  destruct e; cbn [ev_name is_ref negb]; rewrite ?andb_true_r, ?andb_false_r;
    try (destruct (ident_eqb s s0) eqn:E; cbn [filter]; rewrite ?E; rewrite IH; reflexivity).
Qed.

(* sym_lookup from the core and the references *)
Definition look (s : ident) (c : list event) (rs : list bool) : lookup_result :=
  match ev_defs s c with
  | [] => match rs with
          | [] => Absent
          | ts => Present (mkEntry B_global (if existsb (fun t => t) ts then T_tls else T_notype) P_undef None None)
          end
  | [EDef _ p al] =>
      let t := ev_stype s c in
      Present (mkEntry (ev_binding s c) (if tls_place p then T_tls else t) p (ev_size s c) al)
  | [EComm _ z al] =>
      match ev_binding s c with
      | B_local => Present (mkEntry B_local T_object P_bss (Some z) (Some al))
      | B_global => Present (mkEntry B_global T_object P_common (Some z) (Some al))
      end
  | _ => Clash
  end.

Lemma sym_lookup_look evs s : sym_lookup evs s = look s (core s evs) (ev_refs s evs).
Proof.
  unfold sym_lookup, look. rewrite ev_defs_core, ev_stype_core, ev_binding_core, ev_size_core.
  destruct (ev_defs s evs) as [|e r]; [destruct (ev_refs s evs); reflexivity|reflexivity].
Qed.

Lemma core_app s a b : core s (a ++ b) = core s a ++ core s b.
Proof. apply filter_app. Qed.
Lemma filter_flat_map {A B} (f : B -> bool) (g : A -> list B) l : filter f (flat_map g l) = flat_map (fun x => filter f (g x)) l.
Proof. induction l as [|x r IH]; [reflexivity|]. cbn [flat_map]. rewrite filter_app, IH. reflexivity. Qed.
Lemma core_flat_map {A} s (g : A -> list event) l : core s (flat_map g l) = flat_map (fun x => core s (g x)) l.
Proof. apply filter_flat_map. Qed.
Lemma ev_refs_app s a b : ev_refs s (a ++ b) = ev_refs s a ++ ev_refs s b.
Proof. unfold ev_refs. apply flat_map_app. Qed.
Lemma ev_refs_flat_map {A} s (g : A -> list event) l : ev_refs s (flat_map g l) = flat_map (fun x => ev_refs s (g x)) l.
Proof. induction l as [|x r IH]; [reflexivity|]. cbn [flat_map]. rewrite ev_refs_app, IH. reflexivity. Qed.

(* ---------- closed forms of the blocks ---------- *)
Definition emits_data (prog : list obj) (o : obj) : bool := negb (ob_function o) && ob_definition o && owner_live prog o.
Definition data_place (o : obj) : place :=
  if ob_init o then (if ob_tls o then P_tdata else P_data) else (if ob_tls o then P_tbss else P_bss).
Definition data_core (fc : bool) (prog : list obj) (o : obj) : list event :=
  if emits_data prog o then
    EBind (ob_name o) (if ob_static o then B_local else B_global) ::
    if fc && ob_tentative o && negb (ob_tls o) then [EComm (ob_name o) (ob_size o) (eff_align o)]
    else [EType (ob_name o) T_object; ESize (ob_name o) (ob_size o); EDef (ob_name o) (data_place o) (Some (eff_align o))]
  else [].
Definition data_refs (fc : bool) (prog : list obj) (s : ident) (o : obj) : list bool :=
  if emits_data prog o && negb (fc && ob_tentative o && negb (ob_tls o)) && ob_init o then
    match ob_rel o with Some t => if ident_eqb s (User t) then [false] else [] | None => [] end
  else [].

Lemma emits_data_alt prog o : (if ob_function o || negb (ob_definition o) then true else negb (owner_live prog o)) = negb (emits_data prog o).
Proof. unfold emits_data. destruct (ob_function o), (ob_definition o), (owner_live prog o); reflexivity. Qed.

Lemma emit_data_obj_alt fc prog o : emit_data_obj fc prog o =
  if emits_data prog o then
    (if ob_static o then D_local (ob_name o) else D_globl (ob_name o)) ::
    if fc && ob_tentative o && negb (ob_tls o) then [D_comm (ob_name o) (ob_size o) (eff_align o)]
    else if ob_init o then
      D_section (if ob_tls o then P_tdata else P_data) :: D_type (ob_name o) T_object :: D_size (ob_name o) (ob_size o) :: D_align (eff_align o) :: D_label (ob_name o) ::
      match ob_rel o with
      | Some t => [D_quad (User t); D_bytes (ob_size o - 8)]
      | None => [D_bytes (ob_size o)]
      end
    else
      [D_section (if ob_tls o then P_tbss else P_bss); D_type (ob_name o) T_object; D_size (ob_name o) (ob_size o); D_align (eff_align o); D_label (ob_name o); D_zero (ob_size o)]
  else [].
Proof. unfold emit_data_obj, emits_data. destruct (ob_function o), (ob_definition o), (owner_live prog o); reflexivity. Qed.

Lemma core_data_ev s fc prog o : core s (data_ev fc prog o) = if same_name s o then data_core fc prog o else [].
Proof.
  unfold data_ev. rewrite emit_data_obj_alt. unfold data_core, data_place, same_name.
  destruct (emits_data prog o); cbn [negb]; [|destruct (ident_eqb s (ob_name o)); reflexivity].
  destruct (ob_static o), (fc && ob_tentative o && negb (ob_tls o)), (ob_init o), (ob_tls o), (ob_rel o);
    cbn [asm core filter ev_name is_ref negb app insn_events]; rewrite ?andb_true_r, ?andb_false_r;
    destruct (ident_eqb s (ob_name o)); reflexivity.
Qed.
Lemma refs_data_ev s fc prog o : ev_refs s (data_ev fc prog o) = data_refs fc prog s o.
Proof.
  unfold data_ev. rewrite emit_data_obj_alt. unfold data_refs.
  destruct (emits_data prog o); cbn [negb andb]; [|reflexivity].
  destruct (ob_static o), (fc && ob_tentative o && negb (ob_tls o)), (ob_init o), (ob_tls o), (ob_rel o);
    cbn [asm ev_refs flat_map app negb andb]; rewrite ?app_nil_r; reflexivity.
Qed.

(* code: only references *)
Definition code_only (ds : list directive) : bool :=
  forallb (fun d => match d with D_insn _ | D_code => true | _ => false end) ds.
Lemma asm_code ds : code_only ds = true -> forall sec al,
  asm sec al ds = flat_map (fun d => match d with D_insn i => insn_events i | _ => [] end) ds.
Proof.
  induction ds as [|d r IH]; intros Hc sec al; [reflexivity|]. cbn [code_only forallb] in Hc. apply andb_true_iff in Hc as [Hd Hr].
  destruct d; try discriminate; cbn [asm flat_map]; rewrite (IH Hr); reflexivity.
Qed.
Lemma insn_events_refs i : forallb is_ref (insn_events i) = true.
Proof. destruct i; reflexivity. Qed.
Lemma core_all_refs s evs : forallb is_ref evs = true -> core s evs = [].
Proof.
  induction evs as [|e r IH]; intros H; [reflexivity|]. cbn [forallb] in H. apply andb_true_iff in H as [He Hr].
  unfold core. cbn [filter]. rewrite He, andb_false_r. apply IH. exact Hr.
Qed.

Definition body_code (pic : bool) (prog : list obj) (body : list rref) : list directive :=
  flat_map (fun r => map D_insn (gen_addr pic (var_of_ref prog r)) ++ [D_code]) body ++ [D_code].
Lemma body_code_only pic prog body : code_only (body_code pic prog body) = true.
Proof.
  unfold body_code, code_only. rewrite forallb_app. apply andb_true_iff. split; [|reflexivity].
  apply forallb_forall. intros d Hd. apply in_flat_map in Hd as (r & _ & Hd). apply in_app_or in Hd as [Hd|[<-|[]]]; [|reflexivity].
  apply in_map_iff in Hd as (i & <- & _). reflexivity.
Qed.

Definition emits_text (o : obj) : bool := ob_function o && ob_definition o && ob_live o.
Definition text_core (o : obj) : list event :=
  if emits_text o then [EBind (ob_name o) (if ob_static o then B_local else B_global); EType (ob_name o) T_func; EDef (ob_name o) P_text None]
  else [].
(* the relocations one use produces against s *)
Definition ref_flags (s : ident) (r : rref) : list bool :=
  match r with
  | RFun m => if ident_eqb s (User m) then [false] else []
  | RObj m t => if ident_eqb s (User m) then [t] else []
  | RAnon k t => if ident_eqb s (Anon k) then [t] else []
  end.
Definition text_refs (s : ident) (o : obj) : list bool :=
  if emits_text o then flat_map (ref_flags s) (ob_body o) else [].

Lemma emits_text_alt o : (if negb (ob_function o) || negb (ob_definition o) then true else negb (ob_live o)) = negb (emits_text o).
Proof. unfold emits_text. destruct (ob_function o), (ob_definition o), (ob_live o); reflexivity. Qed.

Lemma text_ev_shape pic prog o :
  text_ev pic prog o =
  if emits_text o then
    EBind (ob_name o) (if ob_static o then B_local else B_global) :: EType (ob_name o) T_func :: EDef (ob_name o) P_text None ::
    flat_map (fun d => match d with D_insn i => insn_events i | _ => [] end) (D_code :: body_code pic prog (ob_body o))
  else [].
Proof.
  unfold text_ev, emit_text_obj, emits_text.
  destruct (ob_function o), (ob_definition o), (ob_live o); cbn [negb orb andb]; try reflexivity.
  destruct (ob_static o); cbn [asm]; fold (body_code pic prog (ob_body o));
    rewrite (asm_code _ (body_code_only pic prog (ob_body o))); reflexivity.
Qed.

Lemma code_events_refs ds : forallb is_ref (flat_map (fun d => match d with D_insn i => insn_events i | _ => [] end) ds) = true.
Proof.
  induction ds as [|d r IH]; [reflexivity|]. cbn [flat_map]. rewrite forallb_app, IH, andb_true_r.
  destruct d; try reflexivity. apply insn_events_refs.
Qed.

Lemma core_text_ev s pic prog o : core s (text_ev pic prog o) = if same_name s o then text_core o else [].
Proof.
  rewrite text_ev_shape. unfold text_core, same_name. destruct (emits_text o); [|destruct (ident_eqb s (ob_name o)); reflexivity].
  change (?a :: ?b :: ?c :: ?r) with ([a; b; c] ++ r). rewrite core_app, (core_all_refs _ _ (code_events_refs _)), app_nil_r.
  unfold core. cbn [filter ev_name is_ref negb]. rewrite andb_true_r. destruct (ident_eqb s (ob_name o)); reflexivity.
Qed.

Lemma refs_of_use s pic prog r :
  ev_refs s (flat_map (fun d => match d with D_insn i => insn_events i | _ => [] end) (map D_insn (gen_addr pic (var_of_ref prog r)) ++ [D_code]))
  = ref_flags s r.
Proof.
  destruct r as [m|m t|k t]; cbn [var_of_ref ref_flags].
  - unfold gen_addr. cbn [v_vla v_local v_tls v_function v_definition v_name].
    destruct pic; [|destruct (match find_fun m prog with Some f => ob_definition f | None => false end)];
      cbn [map app flat_map insn_events ev_refs]; rewrite ?app_nil_r; reflexivity.
  - unfold gen_addr. cbn [v_vla v_local v_tls v_function v_definition v_name].
    destruct pic, t; cbn [map app flat_map insn_events ev_refs]; rewrite ?app_nil_r; destruct (ident_eqb s (User m)); reflexivity.
  - unfold gen_addr. cbn [v_vla v_local v_tls v_function v_definition v_name].
    destruct pic, t; cbn [map app flat_map insn_events ev_refs]; rewrite ?app_nil_r; destruct (ident_eqb s (Anon k)); reflexivity.
Qed.

Lemma refs_text_ev s pic prog o : ev_refs s (text_ev pic prog o) = text_refs s o.
Proof.
  rewrite text_ev_shape. unfold text_refs. destruct (emits_text o); [|reflexivity].
  cbn [ev_refs flat_map app]. fold (ev_refs s). unfold body_code.
  change (ev_refs s (flat_map (fun d => match d with D_insn i => insn_events i | _ => [] end)
            (flat_map (fun r => map D_insn (gen_addr pic (var_of_ref prog r)) ++ [D_code]) (ob_body o) ++ [D_code])) = flat_map (ref_flags s) (ob_body o)).
  rewrite flat_map_app. cbn [flat_map app]. rewrite app_nil_r.
  induction (ob_body o) as [|r rest IH]; [reflexivity|].
  cbn [flat_map]. rewrite flat_map_app, ev_refs_app, IH. f_equal. apply refs_of_use.
Qed.

(* ---------- the table entry of s in the output of emit ---------- *)
Theorem symtab_closed_form o prog s :
  sym_lookup (asm P_text None (emit o prog)) s =
  look s (flat_map (fun x => if same_name s x then data_core (fcommon o) prog x else []) prog ++
          flat_map (fun x => if same_name s x then text_core x else []) prog)
         (flat_map (data_refs (fcommon o) prog s) prog ++ flat_map (text_refs s) prog).
Proof.
  rewrite sym_lookup_look, asm_emit, core_app, ev_refs_app, !core_flat_map, !ev_refs_flat_map. f_equal.
  - f_equal; apply flat_map_ext; intros x; [apply core_data_ev|apply core_text_ev].
  - f_equal; apply flat_map_ext; intros x; [apply refs_data_ev|apply refs_text_ev].
Qed.
