From Chibicc Require Import Base.Mach Model.Phases.
Local Open Scope N_scope.

Lemma count_lf_cons c l : count_lf (c :: l) = ((if (c =? 10)%N then 1 else 0) + count_lf l)%nat.
Proof. unfold count_lf. cbn [filter]. destruct (c =? 10); reflexivity. Qed.
Lemma count_lf_app a b : count_lf (a ++ b) = (count_lf a + count_lf b)%nat.
Proof. unfold count_lf. rewrite filter_app, app_length. reflexivity. Qed.
Lemma count_lf_repeat n : count_lf (repeat 10 n) = n.
Proof. induction n; [reflexivity|]. cbn [repeat]. rewrite count_lf_cons, IHn. reflexivity. Qed.
Lemma count_lf_firstn_repeat j n : (j <= n)%nat -> count_lf (firstn j (repeat 10 n)) = j.
Proof. revert n; induction j; intros [|n] H; cbn [firstn repeat]; try reflexivity; try lia.
  rewrite count_lf_cons, IHj by lia. reflexivity. Qed.

Lemma list_ind2 (P : list N -> Prop) :
  P [] -> (forall c, P [c]) -> (forall c d r, P r -> P (d :: r) -> P (c :: d :: r)) -> forall l, P l.
Proof.
  intros H0 H1 H2. assert (H : forall l, P l /\ forall c, P (c :: l)).
  { induction l as [|d r [IHa IHb]]; [split; [exact H0|exact H1]|]. split; [apply IHb|]. intros c. apply H2; [exact IHa|apply IHb]. }
  intros l. apply H.
Qed.

Lemma list_len_ind (P : list N -> Prop) :
  (forall p, (forall q, (length q < length p)%nat -> P q) -> P p) -> forall p, P p.
Proof.
  intros H p. remember (length p) as n eqn:E. revert p E.
  induction n as [n IHn] using (well_founded_induction Nat.lt_wf_0). intros p ->. apply H. intros q Hq. eapply IHn; [exact Hq|reflexivity].
Qed.
Ltac len := cbn [length]; lia.

(* ---------- phase 1 ---------- *)
Lemma canon_erase : forall p i, map fst (canon_idx i p) = canon p.
Proof.
  induction p as [p IH] using list_len_ind. intros i. destruct p as [|c r]; [reflexivity|]. cbn [canon canon_idx].
  destruct (c =? 13).
  - destruct r as [|d r']; [reflexivity|]. destruct (d =? 10); cbn [map fst]; f_equal; (apply IH; len).
  - cbn [map fst]. f_equal. (apply IH; len).
Qed.

(* every byte of the canonical text comes from a source byte (itself, or the CR it replaces), and
   the number of LF before it equals the number of physical line ends before its origin *)
Definition canon_byte (c b : N) : Prop := (c = b /\ c <> 13) \/ (c = 13 /\ b = 10).

Lemma canon_lines_gen : forall p i0 j b i, nth_error (canon_idx i0 p) j = Some (b, i) ->
  (i0 <= i)%nat /\ (exists c, nth_error p (i - i0) = Some c /\ canon_byte c b) /\
  count_lf (firstn j (canon p)) = terms_before p (i - i0).
Proof.
  induction p as [p IH] using list_len_ind. intros i0 j b i H. destruct p as [|c r]; [destruct j; discriminate|].
  cbn [canon canon_idx] in *. destruct (c =? 13) eqn:E13.
  - apply N.eqb_eq in E13. subst c. destruct r as [|d r'].
    + destruct j as [|[|j]]; try discriminate. injection H as <- <-. rewrite Nat.sub_diag.
      split; [lia|]. split; [exists 13; split; [reflexivity|right; auto]|reflexivity].
    + destruct (d =? 10) eqn:Ed.
      * destruct j as [|j]; cbn [nth_error firstn] in *.
        { injection H as <- <-. rewrite Nat.sub_diag. split; [lia|]. split; [exists 13; split; [reflexivity|right; auto]|reflexivity]. }
        destruct (IH r' ltac:(len) _ _ _ _ H) as (Hle & (c & Hc & Hb) & Hn).
        split; [lia|]. replace (i - i0)%nat with (S (S (i - S (S i0)))) by lia. split.
        { exists c. split; [exact Hc|exact Hb]. }
        rewrite count_lf_cons. cbn [terms_before]. unfold ends_line at 1 2. cbn [N.eqb Pos.eqb andb orb negb].
        rewrite Ed. cbn [negb andb orb]. rewrite Hn. reflexivity.
      * destruct j as [|j]; cbn [nth_error firstn] in *.
        { injection H as <- <-. rewrite Nat.sub_diag. split; [lia|]. split; [exists 13; split; [reflexivity|right; auto]|reflexivity]. }
        destruct (IH (d :: r') ltac:(len) _ _ _ _ H) as (Hle & (c & Hc & Hb) & Hn).
        split; [lia|]. replace (i - i0)%nat with (S (i - S i0)) by lia. split.
        { exists c. split; [exact Hc|exact Hb]. }
        rewrite count_lf_cons. cbn [terms_before]. unfold ends_line at 1. cbn [N.eqb Pos.eqb andb orb negb].
        rewrite Ed. cbn [negb andb orb]. rewrite Hn. reflexivity.
  - destruct j as [|j]; cbn [nth_error firstn] in *.
    { injection H as <- <-. rewrite Nat.sub_diag. split; [lia|]. split; [|reflexivity].
      exists c. split; [reflexivity|left; split; [reflexivity|]]. intros ->. discriminate. }
    destruct (IH r ltac:(len) _ _ _ _ H) as (Hle & (c' & Hc & Hb) & Hn).
    split; [lia|]. replace (i - i0)%nat with (S (i - S i0)) by lia. split.
    { exists c'. split; [exact Hc|exact Hb]. }
    rewrite count_lf_cons. cbn [terms_before]. unfold ends_line at 1. rewrite E13. cbn [andb]. rewrite orb_false_r.
    rewrite Hn. reflexivity.
Qed.

Theorem canon_lines s j b i : nth_error (canon_idx 0 s) j = Some (b, i) ->
  (exists c, nth_error s i = Some c /\ canon_byte c b) /\ line_at (canon s) j = phys_line s i.
Proof.
  intros H. destruct (canon_lines_gen _ _ _ _ _ H) as (_ & Hc & Hn). rewrite Nat.sub_0_r in *.
  split; [exact Hc|]. unfold line_at, phys_line. rewrite Hn. reflexivity.
Qed.

(* the canonical text contains no CR *)
Theorem canon_no_cr : forall p, ~ In 13 (canon p).
Proof.
  induction p as [p IH] using list_len_ind. destruct p as [|c r]; [intros []|]. cbn [canon]. destruct (c =? 13) eqn:E.
  - destruct r as [|d r']; [intros [H|[]]; discriminate|].
    destruct (d =? 10); intros [H|H]; try discriminate; (eapply IH; [|exact H]; len).
  - intros [H|H]; [subst c; discriminate|eapply IH; [|exact H]; len].
Qed.

(* ---------- phase 2 ---------- *)
Lemma map_fst_repeat {A} (a : A) n : map fst (repeat (10, a) n) = repeat 10 n.
Proof. induction n; cbn; congruence. Qed.

Lemma splice_erase : forall p i n, map fst (splice_idx i n p) = splice n p.
Proof.
  induction p as [p IH] using list_len_ind. intros i n. destruct p as [|c r]; [apply map_fst_repeat|]. cbn [splice splice_idx].
  assert (Hnormal : map fst (if c =? 10 then (10, Some (i, n)) :: repeat (10, None) n ++ splice_idx (S i) 0 r
                            else (c, Some (i, n)) :: splice_idx (S i) n r)
                    = (if c =? 10 then 10 :: repeat 10 n ++ splice 0 r else c :: splice n r)).
  { destruct (c =? 10); cbn [map fst]; [rewrite map_app, map_fst_repeat|]; f_equal; [f_equal|]; (apply IH; len). }
  destruct r as [|d r']; [exact Hnormal|]. destruct ((c =? 92) && (d =? 10)); [(apply IH; len)|exact Hnormal].
Qed.

(* "later lines keep their numbers": splicing neither adds nor removes line ends overall *)
Theorem splice_count : forall p n, count_lf (splice n p) = (n + count_lf p)%nat.
Proof.
  induction p as [p IH] using list_len_ind. intros n. destruct p as [|c r]; [cbn [splice]; rewrite count_lf_repeat; unfold count_lf; cbn; lia|].
  cbn [splice].
  assert (Hnormal : count_lf (if c =? 10 then 10 :: repeat 10 n ++ splice 0 r else c :: splice n r) = (n + count_lf (c :: r))%nat).
  { rewrite (count_lf_cons c r). destruct (c =? 10) eqn:E.
    - rewrite count_lf_cons, count_lf_app, count_lf_repeat. rewrite IH by len. cbn. lia.
    - rewrite count_lf_cons, E. rewrite IH by len. lia. }
  destruct r as [|d r']; [exact Hnormal|]. destruct ((c =? 92) && (d =? 10)) eqn:E; [|exact Hnormal].
  apply andb_prop in E. destruct E as [Ec Ed]. apply N.eqb_eq in Ec, Ed. subst c d.
  rewrite IH by len. rewrite !count_lf_cons. cbn. lia.
Qed.

Lemma nth_repeat_none {A} (a : A) n j x : nth_error (repeat (10, @None A) n) j = Some (x, Some a) -> False.
Proof. revert j; induction n; intros [|j] H; cbn in H; try discriminate; eauto. Qed.

(* every copied byte is the byte at its origin, and
   (LF before it in the output) + (splices pending there) = n0 + (LF before its origin) *)
Lemma splice_lines_gen : forall p i0 n j b i k, nth_error (splice_idx i0 n p) j = Some (b, Some (i, k)) ->
  (i0 <= i)%nat /\ nth_error p (i - i0) = Some b /\
  (count_lf (firstn j (splice n p)) + k = n + count_lf (firstn (i - i0) p))%nat.
Proof.
  induction p as [p IH] using list_len_ind. intros i0 n j b i k H. destruct p as [|c r]; [exfalso; eapply nth_repeat_none; exact H|].
  cbn [splice splice_idx] in *.
  assert (Hnormal : nth_error (if c =? 10 then (10, Some (i0, n)) :: repeat (10, None) n ++ splice_idx (S i0) 0 r
                               else (c, Some (i0, n)) :: splice_idx (S i0) n r) j = Some (b, Some (i, k)) ->
     (i0 <= i)%nat /\ nth_error (c :: r) (i - i0) = Some b /\
     (count_lf (firstn j (if (c =? 10)%N then 10%N :: repeat 10%N n ++ splice 0 r else c :: splice n r)) + k
      = n + count_lf (firstn (i - i0) (c :: r)))%nat).
  { clear H. intros H. destruct (c =? 10) eqn:E10.
    - apply N.eqb_eq in E10. subst c. destruct j as [|j]; cbn [nth_error firstn] in *.
      { injection H as <- <- <-. rewrite Nat.sub_diag. cbn. unfold count_lf; cbn. split; [lia|split; [reflexivity|lia]]. }
      destruct (Nat.lt_ge_cases j n) as [Hj|Hj].
      + rewrite nth_error_app1 in H by (rewrite repeat_length; exact Hj). exfalso; eapply nth_repeat_none; exact H.
      + rewrite nth_error_app2 in H by (rewrite repeat_length; exact Hj). rewrite repeat_length in H.
        destruct (IH r ltac:(len) _ _ _ _ _ _ H) as (Hle & Hb & Hn).
        split; [lia|]. replace (i - i0)%nat with (S (i - S i0)) by lia. split; [exact Hb|].
        cbn [firstn]. rewrite !count_lf_cons, firstn_app, repeat_length, count_lf_app.
        rewrite firstn_all2 by (rewrite repeat_length; lia). rewrite count_lf_repeat. cbn [N.eqb Pos.eqb]. lia.
    - destruct j as [|j]; cbn [nth_error firstn] in *.
      { injection H as <- <- <-. rewrite Nat.sub_diag. cbn. unfold count_lf; cbn. split; [lia|split; [reflexivity|lia]]. }
      destruct (IH r ltac:(len) _ _ _ _ _ _ H) as (Hle & Hb & Hn).
      split; [lia|]. replace (i - i0)%nat with (S (i - S i0)) by lia. split; [exact Hb|].
      cbn [firstn]. rewrite !count_lf_cons, E10. lia. }
  destruct r as [|d r']; [exact (Hnormal H)|]. destruct ((c =? 92) && (d =? 10)) eqn:E; [|exact (Hnormal H)].
  clear Hnormal. apply andb_prop in E. destruct E as [Ec Ed]. apply N.eqb_eq in Ec, Ed. subst c d.
  destruct (IH r' ltac:(len) _ _ _ _ _ _ H) as (Hle & Hb & Hn).
  split; [lia|]. replace (i - i0)%nat with (S (S (i - S (S i0)))) by lia. split; [exact Hb|].
  cbn [firstn]. rewrite !count_lf_cons. cbn [N.eqb Pos.eqb]. lia.
Qed.

Theorem splice_lines t j b i k : nth_error (splice_idx 0 0 t) j = Some (b, Some (i, k)) ->
  nth_error t i = Some b /\ (line_at (splice 0 t) j + k = line_at t i)%nat.
Proof.
  intros H. destruct (splice_lines_gen _ _ _ _ _ _ _ H) as (_ & Hb & Hn). rewrite Nat.sub_0_r in *.
  split; [exact Hb|]. unfold line_at. lia.
Qed.

(* the pending count is 0 at the start of every logical line: directly after a real new-line the
   next copied byte has k = 0 (visible in splice_idx: the recursive call after LF passes 0) *)

(* ---------- phases 1+2 together ---------- *)
(* a byte of the processed buffer at offset j, copied from canonical offset i (origin o in the
   file), with no splice pending: its computed line is the physical line of o in the file *)
Theorem phases_line_physical s j b i o :
  nth_error (splice_idx 0 0 (canon s)) j = Some (b, Some (i, 0%nat)) ->
  nth_error (canon_idx 0 s) i = Some (b, o) ->
  line_at (phases12 s) j = phys_line s o.
Proof.
  intros H1 H2. destruct (splice_lines _ _ _ _ _ H1) as [_ Hl]. destruct (canon_lines _ _ _ _ H2) as [_ Hp].
  unfold phases12. lia.
Qed.

(* with k splices pending the computed line is k short: the first physical line of the logical
   line is reported for every token of it (the refuted part of the full statement) *)
Theorem phases_line_lag s j b i o k :
  nth_error (splice_idx 0 0 (canon s)) j = Some (b, Some (i, k)) ->
  nth_error (canon_idx 0 s) i = Some (b, o) ->
  (line_at (phases12 s) j + k = phys_line s o)%nat.
Proof.
  intros H1 H2. destruct (splice_lines _ _ _ _ _ H1) as [_ Hl]. destruct (canon_lines _ _ _ _ H2) as [_ Hp].
  unfold phases12. lia.
Qed.

(* the whole file keeps its number of lines *)
Theorem phases_count s : count_lf (phases12 s) = terms_before s (length s).
Proof.
  unfold phases12. rewrite splice_count. cbn [plus].
  (* count_lf (canon s) = terms_before s (length s) *)
  revert s. induction s as [s IH] using list_len_ind. destruct s as [|c r]; [reflexivity|]. cbn [canon length terms_before].
  unfold ends_line. destruct (c =? 13) eqn:E13.
  - apply N.eqb_eq in E13. subst c. cbn [N.eqb Pos.eqb orb andb]. destruct r as [|d r']; [reflexivity|].
    destruct (d =? 10) eqn:Ed; cbn [negb].
    + rewrite count_lf_cons. rewrite IH by len. cbn [length terms_before]. unfold ends_line. rewrite Ed. cbn. reflexivity.
    + rewrite count_lf_cons. rewrite IH by len. cbn [N.eqb Pos.eqb]. reflexivity.
  - rewrite count_lf_cons. rewrite IH by len. cbn [andb]. rewrite orb_false_r. reflexivity.
Qed.

(* the full statement is false of the faithful model: a token after a backslash-newline on the
   same logical line gets the line of the backslash, not its own (replayed on the implementation:
   known finding C18-after-splice) *)
Definition refute_src : list N := [97; 32; 92; 10; 98; 10].          (* "a \<LF>b<LF>" *)
Theorem full_statement_refuted :
  exists j, nth_error (phases12 refute_src) j = Some 98 /\ line_at (phases12 refute_src) j = 1%nat /\ phys_line refute_src 4 = 2%nat.
Proof. exists 2%nat. vm_compute. repeat split. Qed.
