(* The translation-time evaluator computes the C11 type and value of every defined integer expression. *)
From Chibicc Require Import Base.Mach Spec.C11Int Model.ConstFold.
Local Open Scope Z_scope.

(* ---------- types: the size-based rule equals the rank-based rule of 6.3.1.8 ---------- *)
Lemma m_common_is_uac a b : m_common a b = uac a b.
Proof. destruct a, b; reflexivity. Qed.

Lemma m_promote t : m_common I32 t = promote t.
Proof. destruct t; reflexivity. Qed.

Lemma plus_promote t : (if size_of t <? 4 then I32 else t) = promote t.
Proof. destruct t; reflexivity. Qed.

Theorem m_type_is_c11 e : m_type e = type_of e.
Proof.
  induction e as [t v|o a IH|o a IHa b IHb|t a IH|c IHc a IHa b IHb|a IHa b IHb]; cbn [m_type type_of]; auto.
  - destruct o; rewrite ?IH, ?m_promote, ?plus_promote; reflexivity.
  - rewrite IHa, IHb. destruct (is_arith o); [apply m_common_is_uac|].
    destruct (is_shift o); [apply m_promote|reflexivity].
  - rewrite IHa, IHb. apply m_common_is_uac.
Qed.

(* ---------- arithmetic facts about conv / narrow / wrap64 ---------- *)
Definition M64 := 18446744073709551616.
Definition int64 (z : Z) : Prop := - 9223372036854775808 <= z < 9223372036854775808.
Definition eqm (a b : Z) : Prop := a mod M64 = b mod M64.

Ltac unfold_ty := unfold conv, narrow, sx, wrap64, u64, two64, two63, in_range, tmin, tmax, width, is_signed, M64, int64, eqm in *;
  cbn [Z.pow Z.sub Z.pow_pos Pos.iter Z.mul Pos.mul Z.add Z.opp Pos.pred_double Z.pos_sub Pos.add andb negb] in *.

Lemma pow_consts : 2 ^ 1 = 2 /\ 2 ^ 7 = 128 /\ 2 ^ 8 = 256 /\ 2 ^ 15 = 32768 /\ 2 ^ 16 = 65536 /\ 2 ^ 31 = 2147483648 /\
  2 ^ 32 = 4294967296 /\ 2 ^ 63 = 9223372036854775808 /\ 2 ^ 64 = 18446744073709551616 /\ 2 ^ 0 = 1.
Proof. repeat split; reflexivity. Qed.

Ltac pows := repeat match goal with
  | |- context [2 ^ ?n] => match n with
      | 1 => change (2 ^ 1) with 2 | 7 => change (2 ^ 7) with 128 | 8 => change (2 ^ 8) with 256
      | 15 => change (2 ^ 15) with 32768 | 16 => change (2 ^ 16) with 65536
      | 31 => change (2 ^ 31) with 2147483648 | 32 => change (2 ^ 32) with 4294967296
      | 63 => change (2 ^ 63) with 9223372036854775808 | 64 => change (2 ^ 64) with 18446744073709551616
      | 0 => change (2 ^ 0) with 1 end
  | H : context [2 ^ ?n] |- _ => match n with
      | 1 => change (2 ^ 1) with 2 in H | 7 => change (2 ^ 7) with 128 in H | 8 => change (2 ^ 8) with 256 in H
      | 15 => change (2 ^ 15) with 32768 in H | 16 => change (2 ^ 16) with 65536 in H
      | 31 => change (2 ^ 31) with 2147483648 in H | 32 => change (2 ^ 32) with 4294967296 in H
      | 63 => change (2 ^ 63) with 9223372036854775808 in H | 64 => change (2 ^ 64) with 18446744073709551616 in H
      | 0 => change (2 ^ 0) with 1 in H end
  end.

Lemma wrap64_int64 z : int64 (wrap64 z).
Proof. unfold int64, wrap64, two64, two63. destruct (_ <=? _) eqn:E; lia. Qed.

Lemma wrap64_id z : int64 z -> wrap64 z = z.
Proof. unfold int64, wrap64, two64, two63. intros H. destruct (_ <=? _) eqn:E; lia. Qed.

Lemma wrap64_eqm z : eqm (wrap64 z) z.
Proof. unfold eqm, wrap64, two64, two63, M64. destruct (_ <=? _) eqn:E; lia. Qed.

Lemma u64_wrap64 z : 0 <= z < M64 -> u64 (wrap64 z) = z.
Proof. unfold u64, wrap64, two64, two63, M64. intros H. destruct (_ <=? _) eqn:E; lia. Qed.

Lemma eqm_refl a : eqm a a. Proof. reflexivity. Qed.
Lemma eqm_sym a b : eqm a b -> eqm b a. Proof. unfold eqm; congruence. Qed.
Lemma eqm_trans a b c : eqm a b -> eqm b c -> eqm a c. Proof. unfold eqm; congruence. Qed.
Lemma eqm_add a a' b b' : eqm a a' -> eqm b b' -> eqm (a + b) (a' + b').
Proof. unfold eqm. intros H1 H2. rewrite Z.add_mod, H1, H2, <- Z.add_mod by (unfold M64; lia). reflexivity. Qed.
Lemma eqm_sub a a' b b' : eqm a a' -> eqm b b' -> eqm (a - b) (a' - b').
Proof. unfold eqm. intros H1 H2. rewrite Zminus_mod, H1, H2, <- Zminus_mod. reflexivity. Qed.
Lemma eqm_mul a a' b b' : eqm a a' -> eqm b b' -> eqm (a * b) (a' * b').
Proof. unfold eqm. intros H1 H2. rewrite Z.mul_mod, H1, H2, <- Z.mul_mod by (unfold M64; lia). reflexivity. Qed.
Lemma eqm_opp a a' : eqm a a' -> eqm (- a) (- a').
Proof. intros H. replace (- a) with (0 - a) by lia. replace (- a') with (0 - a') by lia. apply eqm_sub; [apply eqm_refl|exact H]. Qed.
Lemma eqm_lnot a a' : eqm a a' -> eqm (Z.lnot a) (Z.lnot a').
Proof. intros H. unfold Z.lnot. rewrite <- !Z.sub_1_r. apply eqm_sub; [apply eqm_opp; exact H|apply eqm_refl]. Qed.

Lemma eqm_bits a b : eqm a b <-> (forall i, 0 <= i < 64 -> Z.testbit a i = Z.testbit b i).
Proof.
  unfold eqm, M64. change 18446744073709551616 with (2 ^ 64). split.
  - intros H i Hi. rewrite <- (Z.mod_pow2_bits_low a 64 i), <- (Z.mod_pow2_bits_low b 64 i) by lia. rewrite H. reflexivity.
  - intros H. apply Z.bits_inj'. intros i Hi. destruct (Z.lt_ge_cases i 64).
    + rewrite !Z.mod_pow2_bits_low by lia. apply H. lia.
    + rewrite !Z.mod_pow2_bits_high by lia. reflexivity.
Qed.

Lemma eqm_land a a' b b' : eqm a a' -> eqm b b' -> eqm (Z.land a b) (Z.land a' b').
Proof. rewrite !eqm_bits. intros H1 H2 i Hi. rewrite !Z.land_spec, H1, H2 by assumption. reflexivity. Qed.
Lemma eqm_lor a a' b b' : eqm a a' -> eqm b b' -> eqm (Z.lor a b) (Z.lor a' b').
Proof. rewrite !eqm_bits. intros H1 H2 i Hi. rewrite !Z.lor_spec, H1, H2 by assumption. reflexivity. Qed.
Lemma eqm_lxor a a' b b' : eqm a a' -> eqm b b' -> eqm (Z.lxor a b) (Z.lxor a' b').
Proof. rewrite !eqm_bits. intros H1 H2 i Hi. rewrite !Z.lxor_spec, H1, H2 by assumption. reflexivity. Qed.

(* conv depends only on the residue modulo 2^64 (2^width divides 2^64) *)
Lemma conv_eqm t a b : t <> IBool -> eqm a b -> conv t a = conv t b.
Proof.
  intros Ht H. unfold eqm, M64 in H.
  assert (Hm : forall w, 0 < 2 ^ w -> (2 ^ w | 18446744073709551616) -> a mod 2 ^ w = b mod 2 ^ w).
  { intros w Hw Hd. rewrite (Znumtheory.Zmod_div_mod (2 ^ w) 18446744073709551616 a), (Znumtheory.Zmod_div_mod (2 ^ w) 18446744073709551616 b) by (assumption || lia). rewrite H. reflexivity. }
  destruct t; try congruence; unfold conv; cbn [width is_signed andb];
    (rewrite (Hm _); [reflexivity | lia | ]);
    match goal with |- (2 ^ ?w | _) => exists (2 ^ (64 - w)); reflexivity end.
Qed.

Lemma conv_in_range t v : in_range t v = true -> conv t v = v.
Proof. destruct t; unfold_ty; pows; intros H; repeat match goal with |- context [if ?c then _ else _] => destruct c eqn:? end; lia. Qed.

Lemma conv_range t v : in_range t (conv t v) = true.
Proof. destruct t; unfold_ty; pows; repeat match goal with |- context [if ?c then _ else _] => destruct c eqn:? end; lia. Qed.

Lemma in_range_bounds t v : in_range t v = true -> - 9223372036854775808 <= v < M64.
Proof. destruct t; unfold_ty; pows; lia. Qed.

Lemma in_range_int64 t v : t <> U64 -> in_range t v = true -> int64 v.
Proof. destruct t; try congruence; unfold_ty; pows; lia. Qed.

(* narrow_to_type applied to an int64 is conv *)
Lemma narrow_wrap t z : t <> IBool -> narrow t (wrap64 z) = wrap64 (conv t z).
Proof.
  intros Ht. pose proof (wrap64_int64 z) as Hi. pose proof (wrap64_eqm z) as He.
  rewrite <- (conv_eqm t _ _ Ht He). generalize dependent (wrap64 z). intros y Hi _.
  destruct t; try congruence; unfold_ty; pows;
    repeat match goal with |- context [if ?c then _ else _] => destruct c eqn:? end; lia.
Qed.

Lemma narrow_bool_wrap z : - 9223372036854775808 <= z < M64 -> narrow IBool (wrap64 z) = wrap64 (conv IBool z).
Proof.
  intros H. unfold narrow, conv.
  destruct (Z.eqb_spec z 0) as [->|Hz]; [vm_compute; reflexivity|].
  change (wrap64 1) with 1.
  destruct (Z.eqb_spec (wrap64 z) 0) as [E|E]; [|reflexivity].
  exfalso. pose proof (wrap64_eqm z) as He. unfold eqm, M64 in *. rewrite E in He. lia.
Qed.

(* the cast step: an operand whose folded value represents v, cast to any type *)
Lemma cast_step t v : - 9223372036854775808 <= v < M64 -> narrow t (wrap64 v) = wrap64 (conv t v).
Proof. intros H. destruct (ity_eqb t IBool) eqn:E; destruct t; try discriminate; try (apply narrow_wrap; discriminate). apply narrow_bool_wrap; exact H. Qed.

Lemma arith_result_conv t r v : t <> IBool -> arith_result t r = Some v -> v = conv t r.
Proof.
  intros Ht. unfold arith_result. destruct (is_signed t) eqn:Es.
  - destruct (in_range t r) eqn:Er; [|discriminate]. intros E; inversion E; subst. symmetry. apply conv_in_range. exact Er.
  - intros E; inversion E; subst. destruct t; try discriminate; try congruence; unfold conv; cbn [is_signed andb]; reflexivity.
Qed.

Lemma arith_result_range t r v : arith_result t r = Some v -> in_range t v = true.
Proof.
  unfold arith_result. destruct (is_signed t) eqn:Es.
  - destruct (in_range t r) eqn:Er; [|discriminate]. intros E; inversion E; subst; exact Er.
  - intros E; inversion E; subst. destruct t; try discriminate; unfold_ty; pows; lia.
Qed.

(* an operation that is a congruence modulo 2^64, computed on the folded operands *)
Lemma ring_op_ok t z r v : t <> IBool -> eqm z r -> arith_result t r = Some v -> narrow t (wrap64 z) = wrap64 v.
Proof.
  intros Ht He Ha. rewrite narrow_wrap by exact Ht. rewrite (conv_eqm t z r Ht He).
  rewrite (arith_result_conv t r v Ht Ha). reflexivity.
Qed.

Lemma promote_not_bool t : promote t <> IBool. Proof. destruct t; discriminate. Qed.
Lemma uac_not_bool a b : uac a b <> IBool. Proof. destruct a, b; discriminate. Qed.
Lemma promote_range t v : in_range t v = true -> in_range (promote t) v = true.
Proof. destruct t; unfold_ty; cbn; pows; lia. Qed.

(* ---------- every defined value lies in the range of its type ---------- *)
Lemma b2z_range b : in_range I32 (b2z b) = true. Proof. destruct b; reflexivity. Qed.
Lemma cmp_range o x y : in_range I32 (eval_cmp o x y) = true.
Proof. destruct o; cbn [eval_cmp]; try reflexivity; apply b2z_range. Qed.

Lemma rem_range t x y : t <> IBool -> in_range t x = true -> in_range t y = true -> y <> 0 ->
  in_range t (Z.rem x y) = true.
Proof.
  intros Ht Hx Hy Hy0.
  pose proof (Z.rem_bound_abs x y Hy0) as Hb. pose proof (Z.rem_sign_mul x y Hy0) as Hs.
  destruct t; try congruence; unfold_ty; pows; try nia.
Qed.

Lemma shr_range t x n : in_range t x = true -> 0 <= n -> in_range t (x / 2 ^ n) = true.
Proof.
  intros Hx Hn. assert (Hp : 0 < 2 ^ n) by (apply Z.pow_pos_nonneg; lia).
  pose proof (Z.div_mod x (2 ^ n) ltac:(lia)) as E. pose proof (Z.mod_pos_bound x (2 ^ n) Hp) as B.
  set (p := 2 ^ n) in *. set (q := x / p) in *. set (r := x mod p) in *.
  assert (Hq : (x < 0 -> x <= q <= -1) /\ (0 <= x -> 0 <= q <= x)) by (split; intros; nia).
  destruct t; unfold_ty; pows; lia.
Qed.

Lemma range_eval : forall e v, eval e = Some v -> in_range (type_of e) v = true.
Proof.
  induction e as [t v0|o a IH|o a IHa b IHb|t a IH|c IHc a IHa b IHb|a IHa b IHb]; intros v H; cbn [eval type_of] in *.
  - destruct (in_range t v0) eqn:E; inversion H; subst; exact E.
  - destruct (eval a) as [x|] eqn:Ea; [|discriminate]. specialize (IH x eq_refl).
    destruct o; inversion H; subst; clear H.
    + eapply arith_result_range; eauto.
    + apply conv_range.
    + apply b2z_range.
    + apply promote_range; exact IH.
  - destruct o; cbn [is_arith is_shift] in *;
      try (destruct (eval a) as [x|] eqn:Ea; [|discriminate]; destruct (eval b) as [y|] eqn:Eb; [|discriminate]);
      try (cbn [eval_bin_arith] in H; first [eapply arith_result_range; exact H | idtac]).
    + (* Div *) destruct (conv _ y =? 0); [discriminate|]. eapply arith_result_range; exact H.
    + (* Mod *) destruct (conv (uac (type_of a) (type_of b)) y =? 0) eqn:E0; [discriminate|].
      destruct (in_range _ (Z.quot _ _)); inversion H; subst.
      apply rem_range; auto using conv_range, uac_not_bool. apply Z.eqb_neq; exact E0.
    + inversion H; subst; apply conv_range.
    + inversion H; subst; apply conv_range.
    + inversion H; subst; apply conv_range.
    + (* Shl *) unfold eval_shift in H. destruct ((y <? 0) || (width _ <=? y)); [discriminate|].
      destruct (is_signed (promote (type_of a))) eqn:Es.
      * destruct (x <? 0); [discriminate|]. destruct (in_range _ (x * 2 ^ y)) eqn:Er; inversion H; subst; exact Er.
      * inversion H; subst. destruct (type_of a); try discriminate; unfold_ty; cbn; pows; lia.
    + (* Shr *) unfold eval_shift in H. destruct ((y <? 0) || (width _ <=? y)) eqn:E; [discriminate|]. inversion H; subst.
      apply shr_range; [apply promote_range; eauto|]. apply orb_false_iff in E as [E _]. lia.
    + inversion H; subst; first [apply cmp_range | apply b2z_range].
    + inversion H; subst; first [apply cmp_range | apply b2z_range].
    + inversion H; subst; first [apply cmp_range | apply b2z_range].
    + inversion H; subst; first [apply cmp_range | apply b2z_range].
    + inversion H; subst; first [apply cmp_range | apply b2z_range].
    + inversion H; subst; first [apply cmp_range | apply b2z_range].
    + (* LAnd *) destruct (eval a) as [x|]; [|discriminate]. destruct (x =? 0); [inversion H; reflexivity|].
      destruct (eval b) as [y|]; inversion H; subst. apply b2z_range.
    + (* LOr *) destruct (eval a) as [x|]; [|discriminate]. destruct (negb (x =? 0)); [inversion H; reflexivity|].
      destruct (eval b) as [y|]; inversion H; subst. apply b2z_range.
  - destruct (eval a); inversion H; subst. apply conv_range.
  - destruct (eval c) as [x|]; [|discriminate].
    destruct (negb (x =? 0)); [destruct (eval a)|destruct (eval b)]; inversion H; subst; apply conv_range.
  - destruct (eval a); [|discriminate]. auto.
Qed.

(* ---------- the folded operators ---------- *)
Lemma wrap_small t x : t <> U64 -> in_range t x = true -> wrap64 x = x.
Proof. intros Ht H. apply wrap64_id. eapply in_range_int64; eauto. Qed.

Lemma u64_unsigned t x : is_signed t = false -> in_range t x = true -> u64 (wrap64 x) = x.
Proof. intros Hs H. apply u64_wrap64. destruct t; try discriminate; unfold_ty; pows; lia. Qed.

Lemma wrap64_zero_iff t x : in_range t x = true -> (wrap64 x =? 0) = (x =? 0).
Proof.
  intros H. pose proof (in_range_bounds t x H) as B. pose proof (wrap64_eqm x) as E. unfold eqm, M64 in *.
  destruct (Z.eqb_spec x 0) as [->|Hx]; [reflexivity|]. apply Z.eqb_neq. intro W. rewrite W in E. lia.
Qed.

Lemma wrap64_inj t x y : in_range t x = true -> in_range t y = true -> (wrap64 x =? wrap64 y) = (x =? y).
Proof.
  intros Hx Hy. pose proof (in_range_bounds t x Hx). pose proof (in_range_bounds t y Hy).
  destruct (Z.eqb_spec x y) as [->|Hn]; [apply Z.eqb_refl|]. apply Z.eqb_neq. intro W.
  pose proof (wrap64_eqm x) as E1. pose proof (wrap64_eqm y) as E2. unfold eqm, M64 in *. rewrite W in E1.
  assert (x mod 18446744073709551616 = y mod 18446744073709551616) by congruence.
  destruct t; unfold_ty; pows; lia.
Qed.

Definition big (t : ity) : Prop := t = I32 \/ t = U32 \/ t = I64 \/ t = U64.
Lemma uac_big a b : big (uac a b). Proof. unfold big. destruct a, b; cbn; auto. Qed.
Lemma promote_big t : big (promote t). Proof. unfold big. destruct t; cbn; auto. Qed.
Lemma big_not_bool t : big t -> t <> IBool. Proof. intros [H|[H|[H|H]]]; subst; discriminate. Qed.

Lemma binop_arith_ok o t x y v :
  big t -> is_arith o = true -> in_range t x = true -> in_range t y = true ->
  eval_bin_arith o t x y = Some v -> m_binop o t (wrap64 x) (wrap64 y) = Val (wrap64 v).
Proof.
  intros Hb Ho Hx Hy H. pose proof (big_not_bool t Hb) as Ht.
  pose proof (wrap64_eqm x) as Ex. pose proof (wrap64_eqm y) as Ey.
  destruct o; try discriminate Ho; cbn [eval_bin_arith m_binop] in *.
  - f_equal. eapply ring_op_ok; eauto using eqm_add.
  - f_equal. eapply ring_op_ok; eauto using eqm_sub.
  - f_equal. eapply ring_op_ok; eauto using eqm_mul.
  - (* Div *)
    destruct (y =? 0) eqn:Ey0; [discriminate|]. unfold m_div. rewrite (wrap64_zero_iff t y Hy), Ey0.
    destruct (is_signed t) eqn:Es; cbn [negb fbind].
    + assert (t <> U64) by (intro; subst; discriminate).
      rewrite (wrap_small t x), (wrap_small t y) by assumption.
      destruct ((x =? - two63) && (y =? -1)) eqn:Eo.
      * exfalso. apply andb_true_iff in Eo as [E1 E2]. apply Z.eqb_eq in E1, E2. subst x y. unfold two63 in *.
        destruct Hb as [-> | [-> | [-> | ->]]]; try discriminate; vm_compute in Hx; try discriminate;
          try (vm_compute in H; discriminate).
      * cbn [fbind]. f_equal. eapply ring_op_ok; eauto using eqm_refl.
    + rewrite (u64_unsigned t x), (u64_unsigned t y) by assumption. cbn [fbind]. f_equal.
      assert (0 <= x /\ 0 < y) as [X Y].
      { apply Z.eqb_neq in Ey0. destruct t; try discriminate; unfold_ty; pows; lia. }
      rewrite Z.quot_div_nonneg in H by lia. eapply ring_op_ok; eauto using eqm_refl.
  - (* Mod *)
    destruct (y =? 0) eqn:Ey0; [discriminate|]. unfold m_div. rewrite (wrap64_zero_iff t y Hy), Ey0.
    destruct (in_range t (Z.quot x y)) eqn:Eq; inversion H; subst; clear H.
    assert (Hr : in_range t (Z.rem x y) = true) by (apply rem_range; auto; apply Z.eqb_neq; exact Ey0).
    destruct (is_signed t) eqn:Es; cbn [negb fbind].
    + assert (t <> U64) by (intro; subst; discriminate).
      rewrite (wrap_small t x), (wrap_small t y) by assumption.
      destruct ((x =? - two63) && (y =? -1)) eqn:Eo.
      * exfalso. apply andb_true_iff in Eo as [E1 E2]. apply Z.eqb_eq in E1, E2. subst x y. unfold two63 in *.
        destruct Hb as [-> | [-> | [-> | ->]]]; try discriminate; vm_compute in Hx; try discriminate;
          try (vm_compute in Eq; discriminate).
      * cbn [fbind]. f_equal. rewrite narrow_wrap by assumption. rewrite conv_in_range by assumption. reflexivity.
    + rewrite (u64_unsigned t x), (u64_unsigned t y) by assumption. cbn [fbind]. f_equal.
      assert (0 <= x /\ 0 < y) as [X Y].
      { apply Z.eqb_neq in Ey0. destruct t; try discriminate; unfold_ty; pows; lia. }
      rewrite Z.rem_mod_nonneg in Hr |- * by lia.
      rewrite narrow_wrap by assumption. rewrite conv_in_range by assumption. reflexivity.
  - inversion H; subst. f_equal. rewrite narrow_wrap by assumption. f_equal. apply conv_eqm; auto using eqm_land.
  - inversion H; subst. f_equal. rewrite narrow_wrap by assumption. f_equal. apply conv_eqm; auto using eqm_lor.
  - inversion H; subst. f_equal. rewrite narrow_wrap by assumption. f_equal. apply conv_eqm; auto using eqm_lxor.
Qed.

Lemma cmp_signed t x y : big t -> is_signed t = true -> in_range t x = true -> in_range t y = true ->
  wrap64 x = x /\ wrap64 y = y.
Proof. intros Hb Hs Hx Hy. assert (t <> U64) by (intro; subst; discriminate). split; eapply wrap_small; eauto. Qed.

Lemma binop_cmp_ok o t x y :
  big t -> is_cmp o = true -> in_range t x = true -> in_range t y = true ->
  m_binop o t (wrap64 x) (wrap64 y) = Val (wrap64 (eval_cmp o x y)).
Proof.
  intros Hb Ho Hx Hy.
  assert (W : forall b : bool, wrap64 (b2z b) = (if b then 1 else 0)) by (intros []; reflexivity).
  destruct o; try discriminate Ho; cbn [m_binop eval_cmp]; rewrite W; f_equal.
  - rewrite (wrap64_inj t x y) by assumption. reflexivity.
  - rewrite (wrap64_inj t x y) by assumption. destruct (x =? y); reflexivity.
  - destruct (is_signed t) eqn:Es.
    + destruct (cmp_signed t x y Hb Es Hx Hy) as [-> ->]. reflexivity.
    + rewrite (u64_unsigned t x), (u64_unsigned t y) by assumption. reflexivity.
  - destruct (is_signed t) eqn:Es.
    + destruct (cmp_signed t x y Hb Es Hx Hy) as [-> ->]. reflexivity.
    + rewrite (u64_unsigned t x), (u64_unsigned t y) by assumption. reflexivity.
  - destruct (is_signed t) eqn:Es.
    + destruct (cmp_signed t x y Hb Es Hx Hy) as [-> ->]. reflexivity.
    + rewrite (u64_unsigned t x), (u64_unsigned t y) by assumption. reflexivity.
  - destruct (is_signed t) eqn:Es.
    + destruct (cmp_signed t x y Hb Es Hx Hy) as [-> ->]. reflexivity.
    + rewrite (u64_unsigned t x), (u64_unsigned t y) by assumption. reflexivity.
Qed.

Lemma shift_ok o t x n tn v :
  big t -> is_shift o = true -> in_range t x = true -> in_range tn n = true ->
  eval_shift o t x n = Some v -> m_shift o t (wrap64 x) (wrap64 n) = Val (wrap64 v).
Proof.
  intros Hb Ho Hx Hn H. pose proof (big_not_bool t Hb) as Ht. unfold eval_shift in H.
  destruct ((n <? 0) || (width t <=? n)) eqn:En; [discriminate|].
  apply orb_false_iff in En as [N1 N2].
  assert (N : 0 <= n < 64) by (destruct Hb as [-> | [-> | [-> | ->]]]; cbn [width] in N2; lia).
  assert (Wn : wrap64 n = n) by (apply wrap64_id; unfold int64; lia).
  unfold m_shift. rewrite Wn.
  replace ((n <? 0) || (64 <=? n)) with false by lia.
  pose proof (wrap64_eqm x) as Ex.
  destruct o; try discriminate Ho.
  - (* Shl *)
    f_equal. destruct (is_signed t) eqn:Es.
    + destruct (x <? 0); [discriminate|]. destruct (in_range t (x * 2 ^ n)) eqn:Er; inversion H; subst.
      rewrite narrow_wrap by assumption. f_equal. rewrite <- (conv_in_range t (x * 2 ^ n) Er).
      apply conv_eqm; auto. apply eqm_mul; auto using eqm_refl.
    + inversion H; subst. rewrite narrow_wrap by assumption. f_equal.
      assert (Hc : conv t (x * 2 ^ n) = (x * 2 ^ n) mod 2 ^ width t).
      { destruct t; try discriminate; try congruence; unfold conv; cbn [is_signed andb]; reflexivity. }
      rewrite <- Hc. apply conv_eqm; auto. apply eqm_mul; auto using eqm_refl.
  - (* Shr *)
    inversion H; subst. f_equal.
    assert (Hr : in_range t (x / 2 ^ n) = true) by (apply shr_range; [assumption|lia]).
    destruct (negb (is_signed t) && (size_of t =? 8)) eqn:Eu.
    + apply andb_true_iff in Eu as [E1 _]. apply negb_true_iff in E1.
      rewrite (u64_unsigned t x) by assumption.
      rewrite narrow_wrap by assumption. rewrite conv_in_range by assumption. reflexivity.
    + assert (t <> U64) by (intro; subst; discriminate).
      rewrite (wrap_small t x) by assumption.
      rewrite narrow_wrap by assumption. rewrite conv_in_range by assumption. reflexivity.
Qed.

Lemma uac_i32_promote t : uac I32 t = promote t. Proof. destruct t; reflexivity. Qed.

(* ---------- the main theorem ---------- *)
Lemma cast_ok a va t :
  m_eval a = Val (wrap64 va) -> in_range (type_of a) va = true ->
  fbind (m_eval a) (fun x => Val (narrow t x)) = Val (wrap64 (conv t va)).
Proof.
  intros Hm Hr. rewrite Hm. cbn [fbind]. f_equal. apply cast_step. eapply in_range_bounds; eauto.
Qed.

Theorem fold_is_c11 : forall e v, eval e = Some v -> m_eval e = Val (wrap64 v).
Proof.
  induction e as [t v0|o a IH|o a IHa b IHb|t a IH|c IHc a IHa b IHb|a IHa b IHb]; intros v H.
  - (* literal *)
    cbn [eval] in H. destruct (in_range t v0) eqn:Er; inversion H; subst. cbn [m_eval]. f_equal.
    rewrite cast_step by (eapply in_range_bounds; eauto). rewrite conv_in_range by assumption. reflexivity.
  - (* unary *)
    cbn [eval] in H. destruct (eval a) as [x|] eqn:Ea; [|discriminate].
    pose proof (range_eval a x Ea) as Rx. specialize (IH x eq_refl).
    assert (Hp : in_range (promote (type_of a)) x = true) by (apply promote_range; exact Rx).
    destruct o; cbn [m_eval m_type]; rewrite ?m_type_is_c11, ?m_promote, ?plus_promote.
    + (* Neg *)
      rewrite (cast_ok a x _ IH Rx). cbn [fbind]. f_equal. rewrite (conv_in_range _ x Hp).
      eapply ring_op_ok; eauto using promote_not_bool. apply eqm_opp. apply wrap64_eqm.
    + (* BitNot *)
      inversion H; subst. rewrite (cast_ok a x _ IH Rx). cbn [fbind]. f_equal. rewrite (conv_in_range _ x Hp).
      rewrite narrow_wrap by apply promote_not_bool. f_equal. apply conv_eqm; [apply promote_not_bool|].
      apply eqm_lnot. apply wrap64_eqm.
    + (* LogNot *)
      inversion H; subst. rewrite IH. cbn [fbind]. f_equal. rewrite (wrap64_zero_iff _ x Rx).
      destruct (x =? 0); reflexivity.
    + (* Plus *)
      inversion H; subst. rewrite (cast_ok a v _ IH Rx). rewrite (conv_in_range _ v Hp). reflexivity.
  - (* binary *)
    destruct o;
    try (cbn [eval is_arith is_shift] in H;
         destruct (eval a) as [x|] eqn:Ea; [|discriminate]; destruct (eval b) as [y|] eqn:Eb; [|discriminate];
         pose proof (range_eval a x Ea) as Rx; pose proof (range_eval b y Eb) as Ry;
         specialize (IHa x eq_refl); specialize (IHb y eq_refl);
         cbn [m_eval m_type is_arith is_shift]; rewrite ?m_type_is_c11, ?m_common_is_uac, ?m_promote).
    1-8: (rewrite (cast_ok a x _ IHa Rx), (cast_ok b y _ IHb Ry); cbn [fbind];
          apply binop_arith_ok; auto using uac_big, conv_range).
    1-2: (rewrite ?uac_i32_promote; rewrite (cast_ok a x _ IHa Rx); cbn [fbind]; rewrite IHb; cbn [fbind];
          rewrite (conv_in_range _ x (promote_range _ _ Rx));
          eapply shift_ok; eauto using promote_big, promote_range).
    1-6: (inversion H; subst; rewrite (cast_ok a x _ IHa Rx), (cast_ok b y _ IHb Ry); cbn [fbind];
          apply binop_cmp_ok; auto using uac_big, conv_range).
    + (* LAnd *)
      cbn [eval] in H. destruct (eval a) as [x|] eqn:Ea; [|discriminate].
      pose proof (range_eval a x Ea) as Rx. specialize (IHa x eq_refl).
      cbn [m_eval]. rewrite IHa. cbn [fbind]. rewrite (wrap64_zero_iff _ x Rx).
      destruct (x =? 0); [inversion H; reflexivity|].
      destruct (eval b) as [y|] eqn:Eb; [|discriminate]. pose proof (range_eval b y Eb) as Ry.
      rewrite (IHb y eq_refl). cbn [fbind]. rewrite (wrap64_zero_iff _ y Ry). inversion H; subst.
      destruct (y =? 0); reflexivity.
    + (* LOr *)
      cbn [eval] in H. destruct (eval a) as [x|] eqn:Ea; [|discriminate].
      pose proof (range_eval a x Ea) as Rx. specialize (IHa x eq_refl).
      cbn [m_eval]. rewrite IHa. cbn [fbind]. rewrite (wrap64_zero_iff _ x Rx).
      destruct (x =? 0); cbn [negb] in *; [|inversion H; reflexivity].
      destruct (eval b) as [y|] eqn:Eb; [|discriminate]. pose proof (range_eval b y Eb) as Ry.
      rewrite (IHb y eq_refl). cbn [fbind]. rewrite (wrap64_zero_iff _ y Ry). inversion H; subst.
      destruct (y =? 0); reflexivity.
  - (* cast *)
    cbn [eval] in H. destruct (eval a) as [x|] eqn:Ea; inversion H; subst.
    cbn [m_eval]. apply cast_ok; auto using range_eval.
  - (* conditional *)
    cbn [eval] in H. destruct (eval c) as [x|] eqn:Ec; [|discriminate].
    pose proof (range_eval c x Ec) as Rx.
    cbn [m_eval m_type]. rewrite (IHc x eq_refl). cbn [fbind]. rewrite (wrap64_zero_iff _ x Rx).
    rewrite !m_type_is_c11, m_common_is_uac.
    destruct (negb (x =? 0)).
    + destruct (eval a) as [y|] eqn:Ea; inversion H; subst. apply cast_ok; auto using range_eval.
    + destruct (eval b) as [y|] eqn:Eb; inversion H; subst. apply cast_ok; auto using range_eval.
  - (* comma *)
    cbn [eval] in H. destruct (eval a); [|discriminate]. cbn [m_eval]. auto.
Qed.

(* consequences *)
Corollary fold_never_host_undefined e v : eval e = Some v ->
  m_eval e <> HostUB /\ m_eval e <> ErrDivZero /\ m_eval e <> ErrOverflow.
Proof. intros H. rewrite (fold_is_c11 e v H). repeat split; discriminate. Qed.
