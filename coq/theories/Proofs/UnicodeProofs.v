(* UTF-8 / UTF-16 / identifier-range proofs for the model of unicode.c *)
From Chibicc Require Import Base.Mach Model.Unicode Spec.Utf Gen.UnicodeTables.
Local Open Scope N_scope.

(* ---------- small bit facts by finite sweep ---------- *)
Lemma lor128 x : x < 64 -> N.lor 128 x = 128 + x.
Proof. intros H. change 128 with (2 * 2 ^ 6). apply lor_const_add. exact H. Qed.
Lemma lor192 x : x < 32 -> N.lor 192 x = 192 + x.
Proof. intros H. change 192 with (6 * 2 ^ 5). apply lor_const_add. exact H. Qed.
Lemma lor224 x : x < 16 -> N.lor 224 x = 224 + x.
Proof. intros H. change 224 with (14 * 2 ^ 4). apply lor_const_add. exact H. Qed.
Lemma lor240 x : x < 8 -> N.lor 240 x = 240 + x.
Proof. intros H. change 240 with (30 * 2 ^ 3). apply lor_const_add. exact H. Qed.

Lemma land63 x : N.land x 63 = x mod 64.
Proof. change 63 with (N.ones 6). rewrite land_mod. reflexivity. Qed.
Lemma land31 x : N.land x 31 = x mod 32.
Proof. change 31 with (N.ones 5). rewrite land_mod. reflexivity. Qed.
Lemma land15 x : N.land x 15 = x mod 16.
Proof. change 15 with (N.ones 4). rewrite land_mod. reflexivity. Qed.
Lemma land7 x : N.land x 7 = x mod 8.
Proof. change 7 with (N.ones 3). rewrite land_mod. reflexivity. Qed.
Lemma land1023 x : N.land x 1023 = x mod 1024.
Proof. change 1023 with (N.ones 10). rewrite land_mod. reflexivity. Qed.

Lemma shr6 x : N.shiftr x 6 = x / 64. Proof. rewrite shiftr_div. reflexivity. Qed.
Lemma shr10 x : N.shiftr x 10 = x / 1024. Proof. rewrite shiftr_div. reflexivity. Qed.
Lemma shr12 x : N.shiftr x 12 = x / 4096. Proof. rewrite shiftr_div. reflexivity. Qed.
Lemma shr18 x : N.shiftr x 18 = x / 262144. Proof. rewrite shiftr_div. reflexivity. Qed.

(* ---------- encode_utf8 in arithmetic form, and equal to RFC 3629 ---------- *)
Lemma encode_is_rfc3629 c : c < 2097152 -> encode_utf8 c = rfc3629 c.
Proof.
  intros Hc. unfold encode_utf8, rfc3629, to_char.
  rewrite !shr6, !shr12, !shr18, !land63.
  destruct (c <=? 127) eqn:E1; destruct (c <? 128) eqn:F1; try lia.
  { f_equal. apply N.mod_small. lia. }
  destruct (c <=? 2047) eqn:E2; destruct (c <? 2048) eqn:F2; try lia.
  { rewrite lor192 by lia. rewrite lor128 by lia. rewrite !N.mod_small by lia. reflexivity. }
  destruct (c <=? 65535) eqn:E3; destruct (c <? 65536) eqn:F3; try lia.
  { rewrite lor224 by lia. rewrite !lor128 by lia. rewrite !(N.mod_small _ 256) by lia. reflexivity. }
  rewrite lor240 by lia. rewrite !lor128 by lia. rewrite !(N.mod_small _ 256) by lia. reflexivity.
Qed.

(* ---------- decode_utf8 on RFC 3629 sequences ---------- *)
Lemma cont_step n c b p : 128 <= b < 192 -> c < 67108864 ->
  dec_cont (S n) c (b :: p) = dec_cont n (c * 64 + b mod 64) p.
Proof.
  intros Hb Hc. cbn [dec_cont]. rewrite shr6, land63.
  replace (b / 64 =? 2) with true by (symmetry; apply N.eqb_eq; lia).
  rewrite lor_shiftl_add by (change (2 ^ 6) with 64; lia).
  change (2 ^ 6) with 64. unfold u32. rewrite N.mod_small by lia. reflexivity.
Qed.

Theorem decode_rfc3629 c rest : c < 2097152 -> decode_utf8 (rfc3629 c ++ rest) = DecOk c rest.
Proof.
  intros Hc. unfold rfc3629.
  destruct (c <? 128) eqn:F1.
  { cbn [app decode_utf8]. rewrite F1. reflexivity. }
  destruct (c <? 2048) eqn:F2.
  { cbn [app decode_utf8].
    replace (192 + c / 64 <? 128) with false by lia.
    replace (240 <=? 192 + c / 64) with false by lia.
    replace (224 <=? 192 + c / 64) with false by lia.
    replace (192 <=? 192 + c / 64) with true by lia.
    rewrite land31. rewrite cont_step by lia. cbn [dec_cont]. f_equal. lia. }
  destruct (c <? 65536) eqn:F3.
  { cbn [app decode_utf8].
    replace (224 + c / 4096 <? 128) with false by lia.
    replace (240 <=? 224 + c / 4096) with false by lia.
    replace (224 <=? 224 + c / 4096) with true by lia.
    rewrite land15. rewrite cont_step by lia. rewrite cont_step by lia. cbn [dec_cont]. f_equal. lia. }
  cbn [app decode_utf8].
  replace (240 + c / 262144 <? 128) with false by lia.
  replace (240 <=? 240 + c / 262144) with true by lia.
  rewrite land7. rewrite cont_step by lia. rewrite cont_step by lia. rewrite cont_step by lia.
  cbn [dec_cont]. f_equal. lia.
Qed.

Theorem utf8_roundtrip c rest : c < 2097152 -> decode_utf8 (encode_utf8 c ++ rest) = DecOk c rest.
Proof. intros H. rewrite encode_is_rfc3629 by exact H. apply decode_rfc3629. exact H. Qed.

(* malformed input: a lone continuation byte, or a missing continuation byte, is an error *)
Theorem decode_rejects_lone_continuation b rest : 128 <= b < 192 -> decode_utf8 (b :: rest) = DecErr.
Proof.
  intros H. cbn [decode_utf8].
  replace (b <? 128) with false by lia. replace (240 <=? b) with false by lia.
  replace (224 <=? b) with false by lia. replace (192 <=? b) with false by lia. reflexivity.
Qed.

Theorem decode_rejects_bad_continuation b x rest :
  192 <= b < 256 -> x < 256 -> ~ (128 <= x < 192) -> decode_utf8 (b :: x :: rest) = DecErr.
Proof.
  intros Hb Hx Hn. cbn [decode_utf8].
  replace (b <? 128) with false by lia.
  assert (E : N.shiftr x 6 =? 2 = false) by (rewrite shr6; apply N.eqb_neq; lia).
  destruct (240 <=? b); [cbn [dec_cont]; rewrite E; reflexivity|].
  destruct (224 <=? b); [cbn [dec_cont]; rewrite E; reflexivity|].
  replace (192 <=? b) with true by lia. cbn [dec_cont]. rewrite E. reflexivity.
Qed.

(* ---------- UTF-16 ---------- *)
Theorem utf16_is_spec c : c < 1114112 -> utf16_units c = utf16_spec c.
Proof.
  intros Hc. unfold utf16_units, utf16_spec, to_u16, u32.
  destruct (c <? 65536) eqn:E.
  { rewrite N.mod_small by lia. reflexivity. }
  rewrite shr10, !land1023.
  replace ((c + 4294967296 - 65536) mod 4294967296) with (c - 65536) by lia.
  rewrite !(N.mod_small _ 65536) by lia.
  rewrite (N.mod_small ((c - 65536) / 1024) 1024) by lia. reflexivity.
Qed.

Theorem utf16_surrogates c : 65536 <= c < 1114112 ->
  exists w1 w2, utf16_units c = [w1; w2] /\ 55296 <= w1 <= 56319 /\ 56320 <= w2 <= 57343 /\
                utf16_decode [w1; w2] = Some c.
Proof.
  intros Hc. rewrite utf16_is_spec by lia. unfold utf16_spec.
  replace (c <? 65536) with false by lia.
  eexists; eexists. split; [reflexivity|]. unfold utf16_decode. repeat split; try lia. f_equal. lia.
Qed.

Theorem utf16_bmp c : c < 65536 -> utf16_units c = [c].
Proof. intros H. rewrite utf16_is_spec by lia. unfold utf16_spec. replace (c <? 65536) with true by lia. reflexivity. Qed.

(* ---------- interval lists: equality of piecewise-constant predicates by breakpoints ---------- *)
Definition resp (bps : list N) (f : N -> bool) : Prop :=
  forall c c', (forall b, In b bps -> (b <=? c) = (b <=? c')) -> f c = f c'.

Fixpoint bps_of (l : list (N * N)) : list N :=
  match l with [] => [] | (lo, hi) :: r => lo :: (hi + 1) :: bps_of r end.

Lemma in_range_resp l : forall bps, incl (bps_of l) bps -> resp bps (in_range l).
Proof.
  induction l as [|[lo hi] r IH]; intros bps Hi c c' H; cbn [in_range]; auto.
  cbn [bps_of] in Hi.
  assert (H1 : (lo <=? c) = (lo <=? c')) by (apply H, Hi; simpl; auto).
  assert (H2 : (hi + 1 <=? c) = (hi + 1 <=? c')) by (apply H, Hi; simpl; auto).
  assert (H3 : (c <=? hi) = (c' <=? hi)) by lia.
  rewrite H1, H3. rewrite (IH bps); auto.
  intros x Hx. apply Hi. simpl. auto.
Qed.

Lemma resp_orb bps f g : resp bps f -> resp bps g -> resp bps (fun c => f c || g c).
Proof. intros Hf Hg c c' H. rewrite (Hf c c' H), (Hg c c' H). reflexivity. Qed.
Lemma resp_andb bps f g : resp bps f -> resp bps g -> resp bps (fun c => f c && g c).
Proof. intros Hf Hg c c' H. rewrite (Hf c c' H), (Hg c c' H). reflexivity. Qed.
Lemma resp_negb bps f : resp bps f -> resp bps (fun c => negb (f c)).
Proof. intros Hf c c' H. rewrite (Hf c c' H). reflexivity. Qed.

Definition floor_bp (bps : list N) (c : N) : N :=
  fold_left (fun acc b => if (b <=? c) && (acc <=? b) then b else acc) bps 0.

Lemma floor_bp_spec bps c : forall acc, acc <= c ->
  let r := fold_left (fun acc b => if (b <=? c) && (acc <=? b) then b else acc) bps acc in
  r <= c /\ acc <= r /\ (r = acc \/ In r bps) /\ (forall b, In b bps -> b <= c -> b <= r).
Proof.
  induction bps as [|b0 bps IH]; intros acc Hacc; cbn [fold_left].
  - repeat split; auto; try lia. intros b [].
  - destruct ((b0 <=? c) && (acc <=? b0)) eqn:E.
    + destruct (IH b0) as [H1 [H2 [H3 H4]]]; [lia|]. cbv zeta in *.
      repeat split; auto; try lia.
      * destruct H3 as [->|H3]; [right; left; auto| right; right; auto].
      * intros b [->|Hb] Hle; auto.
    + destruct (IH acc Hacc) as [H1 [H2 [H3 H4]]]. cbv zeta in *.
      repeat split; auto.
      * destruct H3 as [->|H3]; [left; auto| right; right; auto].
      * intros b [->|Hb] Hle; auto. lia.
Qed.

Theorem eq_by_breakpoints bps f g :
  resp bps f -> resp bps g ->
  forallb (fun b => Bool.eqb (f b) (g b)) (0 :: bps) = true ->
  forall c, f c = g c.
Proof.
  intros Hf Hg Hall c.
  destruct (floor_bp_spec bps c 0 ltac:(lia)) as [H1 [_ [H3 H4]]]. cbv zeta in *.
  fold (floor_bp bps c) in *. set (c' := floor_bp bps c) in *.
  assert (Hsep : forall b, In b bps -> (b <=? c) = (b <=? c')).
  { intros b Hb. specialize (H4 b Hb). lia. }
  rewrite (Hf c c' Hsep), (Hg c c' Hsep).
  rewrite forallb_forall in Hall.
  assert (Hin : In c' (0 :: bps)) by (destruct H3 as [->|H3]; [left; auto|right; auto]).
  apply Hall in Hin. apply Bool.eqb_prop in Hin. exact Hin.
Qed.

(* ---------- is_ident1 / is_ident2 against Annex D ---------- *)
Definition is_ident1 (c : N) : bool := in_range ident1_ranges c.
Definition is_ident2 (c : N) : bool := is_ident1 c || in_range ident2_ranges c.

Definition all_bps : list N :=
  bps_of ident1_ranges ++ bps_of ident2_ranges ++ bps_of annex_d1 ++ bps_of annex_d2 ++
  bps_of ascii_nondigit ++ bps_of ascii_digit.

Ltac incl_tac := unfold all_bps; intros x Hx; repeat (apply in_or_app; (left; exact Hx) || right); try exact Hx.

Theorem is_ident1_annex_d : forall c, is_ident1 c = spec_ident_start c.
Proof.
  apply (eq_by_breakpoints all_bps).
  - apply in_range_resp. incl_tac.
  - unfold spec_ident_start. apply resp_orb; [apply in_range_resp; incl_tac|].
    apply resp_andb; [apply in_range_resp; incl_tac|]. apply resp_negb. apply in_range_resp. incl_tac.
  - vm_compute. reflexivity.
Qed.

Theorem is_ident2_annex_d : forall c, is_ident2 c = spec_ident_cont c.
Proof.
  apply (eq_by_breakpoints all_bps).
  - unfold is_ident2, is_ident1. apply resp_orb; apply in_range_resp; incl_tac.
  - unfold spec_ident_cont. apply resp_orb; [apply resp_orb|]; apply in_range_resp; incl_tac.
  - vm_compute. reflexivity.
Qed.
