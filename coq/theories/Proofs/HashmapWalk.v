(* Probe-loop lemmas and the functional invariant of the hashmap model. *)
From Coq Require Import List NArith Bool Lia Arith.
From Chibicc Require Import Model.Hashmap.
Import ListNotations.

(* ---------- generic list facts ---------- *)
Lemma length_set_nth {A} j (x : A) l : length (set_nth j x l) = length l.
Proof. revert j; induction l as [|a l IH]; intros [|j]; simpl; auto. Qed.

Lemma nth_set_nth_eq {A} j (x d : A) l : j < length l -> nth j (set_nth j x l) d = x.
Proof. revert j; induction l as [|a l IH]; intros [|j] H; simpl in *; try lia; auto. apply IH; lia. Qed.

Lemma nth_set_nth_neq {A} i j (x d : A) l : i <> j -> nth i (set_nth j x l) d = nth i l d.
Proof.
  revert i j; induction l as [|a l IH]; intros i j H; simpl.
  - destruct j; reflexivity.
  - destruct j as [|j]; destruct i as [|i]; simpl; try reflexivity; try lia. apply IH; lia.
Qed.

Section Walk.
Variable K V : Type.
Variable keqb : K -> K -> bool.
Hypothesis keqb_eq : forall a b, keqb a b = true <-> a = b.

Notation slot := (slot K V).
Notation walk := (walk K V keqb).

Lemma keqb_refl k : keqb k k = true.
Proof. apply keqb_eq; reflexivity. Qed.

Inductive cls := CEmpty | CSkip | CHit.
Definition cl (k : K) (s : slot) : cls :=
  match s with
  | Empty => CEmpty | Tomb => CSkip
  | Full k' _ => if keqb k k' then CHit else CSkip
  end.

Lemma cl_hit k s : cl k s = CHit <-> exists v, s = Full k v.
Proof.
  destruct s as [| |k' v]; simpl; split; try discriminate; try (intros [? ?]; discriminate).
  - destruct (keqb k k') eqn:E; try discriminate. apply keqb_eq in E; subst. eauto.
  - intros [v' H]; inversion H; subst. rewrite keqb_refl; reflexivity.
Qed.

Lemma cl_other k x s : x <> k -> (exists v, s = Full k v) -> cl x s = CSkip.
Proof.
  intros Hn [v ->]; simpl. destruct (keqb x k) eqn:E; auto. apply keqb_eq in E; congruence.
Qed.

(* a Found result is a slot holding the key, with its value, at a probed index *)
Lemma walk_found_sound k bs ps t j v :
  walk k bs ps t = Found j v -> In j ps /\ nth j bs Empty = Full k v.
Proof.
  revert t; induction ps as [|a ps IH]; intros t H; simpl in H; try discriminate.
  destruct (nth a bs Empty) as [| |k' v0] eqn:E; try discriminate.
  - apply IH in H; destruct H; split; auto; right; auto.
  - destruct (keqb k k') eqn:Ek.
    + inversion H; subst. apply keqb_eq in Ek; subst. split; [left; auto | auto].
    + apply IH in H; destruct H; split; auto; right; auto.
Qed.

(* the result Found does not depend on the tombstone accumulator *)
Lemma walk_found_tomb k bs ps t t' j v :
  walk k bs ps t = Found j v -> walk k bs ps t' = Found j v.
Proof.
  revert t t'; induction ps as [|a ps IH]; intros t t' H; simpl in *; try discriminate.
  destruct (nth a bs Empty) as [| |k' v0]; try discriminate; eauto.
  destruct (keqb k k'); eauto.
Qed.

(* monotonicity: slots that were skipped stay skipped, hits stay hits *)
Lemma walk_found_mono k bs bs' ps t j v :
  (forall q, cl k (nth q bs Empty) = CSkip -> cl k (nth q bs' Empty) = CSkip) ->
  (forall q, cl k (nth q bs Empty) = CHit -> nth q bs' Empty = nth q bs Empty) ->
  walk k bs ps t = Found j v -> walk k bs' ps t = Found j v.
Proof.
  intros Hs Hh; revert t; induction ps as [|a ps IH]; intros t H; simpl in *; try discriminate.
  destruct (nth a bs Empty) as [| |k' v0] eqn:E; try discriminate.
  - specialize (Hs a); rewrite E in Hs; specialize (Hs eq_refl).
    destruct (nth a bs' Empty) as [| |k2 v2] eqn:E'; simpl in Hs; try discriminate.
    + apply IH; auto.
    + destruct (keqb k k2); try discriminate.
      eapply walk_found_tomb; apply IH; eauto.
  - destruct (keqb k k') eqn:Ek.
    + specialize (Hh a); rewrite E in Hh; simpl in Hh; rewrite Ek in Hh.
      rewrite (Hh eq_refl), Ek. exact H.
    + specialize (Hs a); rewrite E in Hs; simpl in Hs; rewrite Ek in Hs; specialize (Hs eq_refl).
      destruct (nth a bs' Empty) as [| |k2 v2] eqn:E'; simpl in Hs; try discriminate.
      * eapply walk_found_tomb; apply IH; eauto.
      * destruct (keqb k k2); try discriminate. apply IH; auto.
Qed.

(* once a tombstone is remembered it is the one reported *)
Lemma walk_stop_some k bs ps a e t :
  walk k bs ps (Some a) = Stop e t -> t = Some a.
Proof.
  revert a; induction ps as [|b ps IH]; intros a H; simpl in H; try discriminate.
  destruct (nth b bs Empty) as [| |k' v0]; try discriminate.
  - inversion H; auto.
  - eauto.
  - destruct (keqb k k'); try discriminate; eauto.
Qed.

Definition claim (e : nat) (t : option nat) : nat := match t with Some x => x | None => e end.

(* inserting at the claimed slot makes the probe find it there *)
Lemma walk_stop_insert k bs ps e t v :
  Forall (fun j => j < length bs) ps ->
  walk k bs ps None = Stop e t ->
  walk k (set_nth (claim e t) (Full k v) bs) ps None = Found (claim e t) v.
Proof.
  intros Hb; induction ps as [|a ps IH]; intros H; simpl in H; try discriminate.
  inversion Hb as [|? ? Ha Hb']; subst.
  simpl.
  destruct (Nat.eq_dec a (claim e t)) as [Heq|Hne].
  - rewrite <- Heq, nth_set_nth_eq by auto. rewrite keqb_refl. reflexivity.
  - rewrite nth_set_nth_neq by auto.
    destruct (nth a bs Empty) as [| |k' v0] eqn:E; try discriminate.
    + inversion H; subst; simpl in Hne; congruence.
    + apply walk_stop_some in H as Ht. subst t; simpl in Hne; congruence.
    + destruct (keqb k k'); try discriminate. apply IH; auto.
Qed.

(* the claimed slot was a tombstone or empty, and is a valid index *)
Lemma walk_stop_claim k bs ps e t :
  Forall (fun j => j < length bs) ps ->
  walk k bs ps None = Stop e t ->
  claim e t < length bs /\
  (nth (claim e t) bs Empty = Empty /\ t = None \/ nth (claim e t) bs Empty = Tomb /\ t <> None).
Proof.
  intros Hb; induction ps as [|a ps IH]; intros H; simpl in H; try discriminate.
  inversion Hb as [|? ? Ha Hb']; subst.
  destruct (nth a bs Empty) as [| |k' v0] eqn:E; try discriminate.
  - inversion H; subst; simpl. split; auto.
  - apply walk_stop_some in H as Ht; subst t; simpl. split; auto. right; split; auto; discriminate.
  - destruct (keqb k k'); try discriminate. apply IH; auto.
Qed.

(* a probe that meets an Empty slot terminates *)
Lemma walk_not_exhausted k bs ps t e :
  In e ps -> nth e bs Empty = Empty -> walk k bs ps t <> (@Exhausted V).
Proof.
  revert t; induction ps as [|a ps IH]; intros t Hin He; simpl in *; try tauto.
  destruct Hin as [->|Hin].
  - rewrite He; discriminate.
  - destruct (nth a bs Empty) as [| |k' v0]; try discriminate; auto.
    destruct (keqb k k'); try discriminate; auto.
Qed.

(* without tombstones no tombstone is ever reported *)
Lemma walk_notomb k bs ps e t :
  (forall q, nth q bs Empty <> Tomb) ->
  walk k bs ps None = Stop e t -> t = None.
Proof.
  intros Hn; induction ps as [|a ps IH]; intros H; simpl in H; try discriminate.
  destruct (nth a bs Empty) as [| |k' v0] eqn:E; try discriminate.
  - inversion H; auto.
  - exfalso; eapply Hn; eauto.
  - destruct (keqb k k'); try discriminate; auto.
Qed.

(* ---------- the functional invariant ---------- *)
Variable hash : K -> N.
Notation probe := (probe K V keqb hash).

(* every slot that holds a key is the one the probe loop finds for that key *)
Lemma walk_i_eq k bs h cap : forall f i t,
  walk_i K V keqb k bs h cap i f t = walk k bs (map (fun i => idx h i cap) (seq i f)) t.
Proof.
  induction f as [|f IH]; intros i t; simpl; auto.
  destruct (nth (idx h i cap) bs Empty) as [| |k' v]; auto.
  destruct (keqb k k'); auto.
Qed.

Lemma probe_eq k bs : probe k bs = walk k bs (pseq (hash k) (length bs)) None.
Proof. unfold Hashmap.probe, pseq. apply walk_i_eq. Qed.

Definition Iw (bs : list slot) (k : K) : Prop :=
  forall j v, j < length bs -> nth j bs Empty = Full k v -> probe k bs = Found j v.
Definition WInv (bs : list slot) : Prop := forall k, Iw bs k.

Lemma pseq_bound h n : Forall (fun j => j < n) (pseq h n).
Proof.
  unfold pseq; apply Forall_forall; intros j Hj. apply in_map_iff in Hj as [i [<- Hi]].
  apply in_seq in Hi. unfold idx.
  assert (Hn : N.of_nat n <> 0%N) by lia.
  pose proof (N.mod_upper_bound (((h + N.of_nat i) mod two64)) (N.of_nat n) Hn). lia.
Qed.

Lemma iw_unique bs k j j' v v' :
  Iw bs k -> j < length bs -> j' < length bs ->
  nth j bs Empty = Full k v -> nth j' bs Empty = Full k v' -> j = j' /\ v = v'.
Proof.
  intros H Hj Hj' E E'. pose proof (H _ _ Hj E) as P1. pose proof (H _ _ Hj' E') as P2.
  rewrite P1 in P2; inversion P2; auto.
Qed.

(* abstraction: the dictionary a bucket array denotes, read through the probe *)
Definition absf (bs : list slot) (k : K) : option V :=
  match bs with
  | [] => None
  | _ => match probe k bs with Found _ v => Some v | _ => None end
  end.

Lemma absf_some bs k v : WInv bs ->
  (absf bs k = Some v <-> exists j, j < length bs /\ nth j bs Empty = Full k v).
Proof.
  intros HW; unfold absf; split.
  - destruct bs as [|s bs']; try discriminate. set (b := s :: bs') in *.
    destruct (probe k b) as [j v0| |] eqn:E; try discriminate. intros H; inversion H; subst.
    rewrite probe_eq in E. apply walk_found_sound in E as [Hin Hn]. exists j; split; auto.
    pose proof (pseq_bound (hash k) (length b)) as Hb. rewrite Forall_forall in Hb; auto.
  - intros [j [Hj E]]. destruct bs as [|s bs']; [simpl in Hj; lia|].
    rewrite (HW k j v Hj E). reflexivity.
Qed.

(* --- preservation of WInv --- *)
Lemma iw_same_cl bs bs' x :
  length bs' = length bs ->
  (forall q, cl x (nth q bs Empty) = CSkip -> cl x (nth q bs' Empty) = CSkip) ->
  (forall q, cl x (nth q bs Empty) = CHit -> nth q bs' Empty = nth q bs Empty) ->
  (forall q, cl x (nth q bs' Empty) = CHit -> nth q bs' Empty = nth q bs Empty) ->
  Iw bs x -> Iw bs' x.
Proof.
  intros Hl Hs Hh Hh' H j v Hj E.
  assert (E0 : nth j bs Empty = Full x v).
  { rewrite <- Hh'; auto. rewrite E; simpl; rewrite keqb_refl; auto. }
  rewrite Hl in Hj. specialize (H j v Hj E0).
  rewrite ?probe_eq in *. rewrite Hl. eapply walk_found_mono; eauto.
Qed.

(* replacing the value of the slot that holds k *)
Lemma winv_update bs j k v0 v :
  j < length bs -> nth j bs Empty = Full k v0 -> WInv bs -> WInv (set_nth j (Full k v) bs).
Proof.
  intros Hj E HW x.
  destruct (keqb x k) eqn:Exk.
  - apply keqb_eq in Exk; subst x.
    intros j' v' Hj' E'. rewrite length_set_nth in Hj'.
    destruct (Nat.eq_dec j' j) as [->|Hne].
    + rewrite nth_set_nth_eq in E' by auto. inversion E'; subst v'.
      pose proof (HW k j v0 Hj E) as Pr. rewrite ?probe_eq in *. rewrite length_set_nth.
      (* the walk on the updated array finds j with the new value *)
      clear E'. revert Pr. generalize (@None nat). generalize (pseq (hash k) (length bs)).
      induction l as [|a l IH]; intros t Pr; simpl in *; try discriminate.
      destruct (Nat.eq_dec a j) as [->|Hna].
      * rewrite nth_set_nth_eq by auto. rewrite keqb_refl. reflexivity.
      * rewrite nth_set_nth_neq by auto.
        destruct (nth a bs Empty) as [| |k' v1] eqn:Ea; try discriminate; auto.
        destruct (keqb k k') eqn:Ek; auto.
        inversion Pr; subst. congruence.
    + rewrite nth_set_nth_neq in E' by auto.
      destruct (iw_unique bs k j j' v0 v' (HW k) Hj Hj' E E'); congruence.
  - assert (Hxk : x <> k) by (intro; subst; rewrite keqb_refl in Exk; discriminate).
    apply iw_same_cl with (bs := bs); auto using length_set_nth.
    + intros q Hq. destruct (Nat.eq_dec q j) as [->|Hne].
      * rewrite nth_set_nth_eq by auto. simpl. rewrite Exk. auto.
      * rewrite nth_set_nth_neq by auto. auto.
    + intros q Hq. destruct (Nat.eq_dec q j) as [->|Hne].
      * rewrite E in Hq; simpl in Hq; rewrite Exk in Hq; discriminate.
      * rewrite nth_set_nth_neq by auto. auto.
    + intros q Hq. destruct (Nat.eq_dec q j) as [->|Hne].
      * rewrite nth_set_nth_eq in Hq by auto. simpl in Hq; rewrite Exk in Hq; discriminate.
      * rewrite nth_set_nth_neq by auto. auto.
Qed.

(* turning the slot that holds k into a tombstone *)
Lemma winv_delete bs j k v0 :
  j < length bs -> nth j bs Empty = Full k v0 -> WInv bs -> WInv (set_nth j Tomb bs).
Proof.
  intros Hj E HW x.
  destruct (keqb x k) eqn:Exk.
  - apply keqb_eq in Exk; subst x.
    intros j' v' Hj' E'. rewrite length_set_nth in Hj'.
    destruct (Nat.eq_dec j' j) as [->|Hne].
    + rewrite nth_set_nth_eq in E' by auto. discriminate.
    + rewrite nth_set_nth_neq in E' by auto.
      destruct (iw_unique bs k j j' v0 v' (HW k) Hj Hj' E E'); congruence.
  - apply iw_same_cl with (bs := bs); auto using length_set_nth.
    + intros q Hq. destruct (Nat.eq_dec q j) as [->|Hne].
      * rewrite nth_set_nth_eq by auto. reflexivity.
      * rewrite nth_set_nth_neq by auto. auto.
    + intros q Hq. destruct (Nat.eq_dec q j) as [->|Hne].
      * rewrite E in Hq; simpl in Hq; rewrite Exk in Hq; discriminate.
      * rewrite nth_set_nth_neq by auto. auto.
    + intros q Hq. destruct (Nat.eq_dec q j) as [->|Hne].
      * rewrite nth_set_nth_eq in Hq by auto. discriminate.
      * rewrite nth_set_nth_neq by auto. auto.
Qed.

(* claiming a tombstone or the terminating empty slot for an absent key *)
Lemma winv_insert bs k e t v :
  probe k bs = Stop e t -> WInv bs -> WInv (set_nth (claim e t) (Full k v) bs).
Proof.
  intros Pr HW x. rewrite probe_eq in Pr.
  pose proof (pseq_bound (hash k) (length bs)) as Hb.
  destruct (walk_stop_claim _ _ _ _ _ Hb Pr) as [Hc Hslot].
  set (c := claim e t) in *.
  destruct (keqb x k) eqn:Exk.
  - apply keqb_eq in Exk; subst x.
    intros j' v' Hj' E'. rewrite length_set_nth in Hj'.
    destruct (Nat.eq_dec j' c) as [->|Hne].
    + rewrite nth_set_nth_eq in E' by auto. inversion E'; subst v'.
      rewrite probe_eq. rewrite length_set_nth. apply walk_stop_insert; auto.
    + rewrite nth_set_nth_neq in E' by auto.
      pose proof (HW k j' v' Hj' E') as P2. rewrite probe_eq in P2. congruence.
  - apply iw_same_cl with (bs := bs); auto using length_set_nth.
    + intros q Hq. destruct (Nat.eq_dec q c) as [->|Hne].
      * rewrite nth_set_nth_eq by auto. simpl; rewrite Exk; auto.
      * rewrite nth_set_nth_neq by auto. auto.
    + intros q Hq. destruct (Nat.eq_dec q c) as [->|Hne].
      * destruct Hslot as [[Hs _]|[Hs _]]; rewrite Hs in Hq; discriminate.
      * rewrite nth_set_nth_neq by auto. auto.
    + intros q Hq. destruct (Nat.eq_dec q c) as [->|Hne].
      * rewrite nth_set_nth_eq in Hq by auto. simpl in Hq; rewrite Exk in Hq; discriminate.
      * rewrite nth_set_nth_neq by auto. auto.
Qed.

Lemma winv_empty n : WInv (repeat Empty n).
Proof.
  intros k j v Hj E. exfalso.
  assert (nth j (repeat (@Empty K V) n) Empty = Empty).
  { clear. revert j; induction n; intros [|j]; simpl; auto. }
  congruence.
Qed.

(* --- effect on the denoted dictionary --- *)
Definition upd (d : K -> option V) (k : K) (o : option V) : K -> option V :=
  fun x => if keqb x k then o else d x.

Lemma absf_set_other bs c s x k :
  c < length bs -> x <> k ->
  (cl x (nth c bs Empty) <> CHit) -> (exists v, s = Full k v) \/ s = Tomb ->
  WInv bs -> WInv (set_nth c s bs) ->
  absf (set_nth c s bs) x = absf bs x.
Proof.
  intros Hc Hxk Hnh Hs HW HW'.
  assert (Hcls : cl x s = CSkip).
  { destruct Hs as [[v ->]| ->]; simpl; auto. destruct (keqb x k) eqn:E; auto.
    apply keqb_eq in E; congruence. }
  destruct (absf bs x) as [v|] eqn:E.
  - apply absf_some in E as [j [Hj Ej]]; auto. apply absf_some; auto.
    exists j; rewrite length_set_nth; split; auto.
    destruct (Nat.eq_dec j c) as [->|Hne].
    + exfalso; apply Hnh. rewrite Ej; simpl; rewrite keqb_refl; auto.
    + rewrite nth_set_nth_neq by auto; auto.
  - destruct (absf (set_nth c s bs) x) as [v|] eqn:E'; auto.
    apply absf_some in E' as [j [Hj Ej]]; auto. rewrite length_set_nth in Hj.
    destruct (Nat.eq_dec j c) as [->|Hne].
    + rewrite nth_set_nth_eq in Ej by auto. subst s. simpl in Hcls. rewrite keqb_refl in Hcls; discriminate.
    + rewrite nth_set_nth_neq in Ej by auto.
      assert (absf bs x = Some v) by (apply absf_some; eauto). congruence.
Qed.

End Walk.
