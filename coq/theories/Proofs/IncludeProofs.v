From Chibicc Require Import Base.Mach Model.Include.

Section P.
Variables D N : Type.
Variable ex : D -> N -> bool.

Lemma search_from_spec : forall paths i n j d, search_from D N ex i paths n = Some (j, d) ->
  (i <= j)%nat /\ nth_error paths (j - i) = Some d /\ ex d n = true /\
  forall k d', (k < j - i)%nat -> nth_error paths k = Some d' -> ex d' n = false.
Proof.
  induction paths as [|p r IH]; intros i n j d H; cbn in H; [discriminate|]. destruct (ex p n) eqn:E.
  - injection H as <- <-. rewrite Nat.sub_diag. repeat split; auto. intros k d' Hk; lia.
  - destruct (IH _ _ _ _ H) as (Hle & Hn & He & Hb). split; [lia|]. replace (j - i)%nat with (S (j - S i)) by lia. split; [exact Hn|]. split; [exact He|].
    intros [|k] d' Hk Hd; cbn in Hd; [injection Hd as <-; exact E|]. eapply Hb; [|exact Hd]. lia.
Qed.

Lemma search_from_none : forall paths i n, search_from D N ex i paths n = None -> forall d, In d paths -> ex d n = false.
Proof.
  induction paths as [|p r IH]; intros i n H d Hin; [destruct Hin|]. cbn in H. destruct (ex p n) eqn:E; [discriminate|].
  destruct Hin as [<-|Hin]; [exact E|]. eapply IH; eassumption.
Qed.

(* the file included is the first existing one in the order: directory of the including file
   (only for "..."), -I directories in order, standard directories, -idirafter directories *)
Theorem resolve_first_match dq cur dash_i std after n d :
  resolve D N ex dq cur (include_paths D dash_i std after) n = Some d ->
  ex d n = true /\
  exists k, nth_error ((if dq then [cur] else []) ++ dash_i ++ std ++ after) k = Some d /\
    forall j d', (j < k)%nat -> nth_error ((if dq then [cur] else []) ++ dash_i ++ std ++ after) j = Some d' -> ex d' n = false.
Proof.
  unfold resolve, include_paths. destruct (dq && ex cur n) eqn:E.
  - intros H. injection H as <-. apply andb_prop in E. destruct E as [-> E]. split; [exact E|]. exists 0%nat. split; [reflexivity|]. intros j d' Hj; lia.
  - destruct (search_from D N ex 0 (dash_i ++ std ++ after) n) as [[j d0]|] eqn:Es; [|discriminate]. cbn. intros H. injection H as <-.
    destruct (search_from_spec _ _ _ _ _ Es) as (_ & Hn & He & Hb). rewrite Nat.sub_0_r in *. split; [exact He|].
    destruct dq; cbn [andb] in E.
    + exists (S j). split; [exact Hn|]. intros [|k] d' Hk Hd; cbn in Hd; [injection Hd as <-; exact E|]. eapply Hb; [|exact Hd]. lia.
    + exists j. split; [exact Hn|]. intros k d' Hk Hd. eapply Hb; eassumption.
Qed.

Theorem resolve_none dq cur paths n : resolve D N ex dq cur paths n = None ->
  (dq = true -> ex cur n = false) /\ forall d, In d paths -> ex d n = false.
Proof.
  unfold resolve. destruct (dq && ex cur n) eqn:E; [discriminate|]. destruct (search_from D N ex 0 paths n) eqn:Es; [discriminate|]. intros _.
  split; [intros ->; exact E|]. eapply search_from_none. exact Es.
Qed.

(* #include_next finds the first existing file strictly after the previous hit *)
Theorem resolve_next_spec idx paths n d : resolve_next D N ex idx paths n = Some d ->
  ex d n = true /\ exists k, (idx <= k)%nat /\ nth_error paths k = Some d /\
    forall j d', (idx <= j < k)%nat -> nth_error paths j = Some d' -> ex d' n = false.
Proof.
  unfold resolve_next. destruct (search_from D N ex idx (skipn idx paths) n) as [[j d0]|] eqn:Es; [|discriminate]. cbn. intros H. injection H as <-.
  destruct (search_from_spec _ _ _ _ _ Es) as (Hle & Hn & He & Hb). split; [exact He|]. exists j. split; [exact Hle|].
  assert (Hsk : forall m, nth_error (skipn idx paths) m = nth_error paths (idx + m)).
  { clear. revert paths; induction idx as [|i IH]; intros paths m; [reflexivity|]. destruct paths as [|p r]; [destruct m; reflexivity|]. cbn. apply IH. }
  split; [rewrite Hsk in Hn; replace (idx + (j - idx))%nat with j in Hn by lia; exact Hn|].
  intros k d' Hk Hd. apply (Hb (k - idx)%nat d'); [lia|]. rewrite Hsk. replace (idx + (k - idx))%nat with k by lia. exact Hd.
Qed.
End P.
