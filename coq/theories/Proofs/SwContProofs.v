(* C03 (package sw): the big-step seek semantics of Spec/SwSem.v agrees with the small-step
   continuation semantics of Spec/SwCont.v - for every statement, every mode, every oracle; no
   well-formedness needed (both take the first label in program order). *)
From Coq Require Import List Arith Bool Lia.
Import ListNotations.
From Chibicc Require Import Spec.SwSem Spec.SwCont.

Lemma cstar_trans fn s1 t1 s2 t2 s3 : cstar fn s1 t1 s2 -> cstar fn s2 t2 s3 -> cstar fn s1 (t1 ++ t2) s3.
Proof. induction 1 as [|st ev st' tr st'' Hs _ IH]; intros H2; [exact H2|]. rewrite <- app_assoc. eapply cstar_step; [exact Hs|apply IH; exact H2]. Qed.
Lemma cstar_one fn s ev s' : cstep fn s = Some (ev, s') -> cstar fn s ev s'.
Proof. intros H. rewrite <- (app_nil_r ev). eapply cstar_step; [exact H|apply cstar_refl]. Qed.
Lemma cstar_eq fn s t s' t' : cstar fn s t s' -> t = t' -> cstar fn s t' s'.
Proof. intros H <-. exact H. Qed.

Lemma cpre_inv t r tr o' out : spre t r = Some (tr, o', out) -> exists t1, r = Some (t1, o', out) /\ tr = t ++ t1.
Proof. destruct r as [[[t1 o1] out1]|]; cbn [spre]; [|discriminate]. intros H. injection H as <- <- <-. exists t1. split; reflexivity. Qed.

(* the state in which a statement executed with continuation k leaves the small-step machine *)
Definition coutcome (out : soutcome) (k : scont) (o' : soracle) (st : cstate) : Prop :=
  match out with
  | RNormal => st = (SSkip, k, o')
  | RBreak => st = (SBreak, k, o')
  | RCont => st = (SContinue, k, o')
  | RGoto l => exists k1, st = (SGoto l, k1, o')      (* a goto does not look at its continuation *)
  | RSeek => False
  end.
Definition cdone fn (s1 : sstmt) (k1 : scont) (o : soracle) (tr : strace) (out : soutcome) (k : scont) (o' : soracle) : Prop :=
  exists st', cstar fn (s1, k1, o) tr st' /\ coutcome out k o' st'.

Definition centry (m : smode) (s : sstmt) (k : scont) : option (sstmt * scont) :=
  match m with None => Some (s, k) | Some t => sfind t s k end.

Definition cconcl fn (m : smode) (s : sstmt) (k : scont) (o : soracle) (tr : strace) (o' : soracle) (out : soutcome) : Prop :=
  match centry m s k with
  | None => out = RSeek /\ tr = [] /\ o' = o
  | Some (s1, k1) => cdone fn s1 k1 o tr out k o'
  end.
Definition cagree_at fn (f : nat) : Prop :=
  forall m s o tr o' out, sexec f m s o = Some (tr, o', out) -> forall k, cconcl fn m s k o tr o' out.

Lemma cdone_noseek fn s1 k1 o tr out k o' : cdone fn s1 k1 o tr out k o' -> out <> RSeek.
Proof. intros (st' & _ & Ho) ->. exact Ho. Qed.
Lemma cdone_step fn s1 k1 o ev s2 k2 o2 tr out k o' :
  cstep fn (s1, k1, o) = Some (ev, (s2, k2, o2)) -> cdone fn s2 k2 o2 tr out k o' -> cdone fn s1 k1 o (ev ++ tr) out k o'.
Proof. intros Hs (st' & Hr & Ho). exists st'. split; [eapply cstar_step; [exact Hs|exact Hr]|exact Ho]. Qed.
(* a statement ran to its outcome relative to k1; something follows that turns this into an outcome relative to k *)
Lemma cdone_then fn s1 k1 o t1 out1 kmid o1 t2 out k o' :
  cdone fn s1 k1 o t1 out1 kmid o1 ->
  (forall st1, coutcome out1 kmid o1 st1 -> exists st', cstar fn st1 t2 st' /\ coutcome out k o' st') ->
  cdone fn s1 k1 o (t1 ++ t2) out k o'.
Proof. intros (st1 & Hr1 & Ho1) Hnext. destruct (Hnext st1 Ho1) as (st' & Hr2 & Ho2). exists st'. split; [eapply cstar_trans; [exact Hr1|exact Hr2]|exact Ho2]. Qed.

(* ---------- for ---------- *)
Definition cloop_ok fn (loop : soracle -> option sres) (s : sstmt) (k : scont) : Prop :=
  forall o tr o' out, loop o = Some (tr, o', out) -> cdone fn s k o tr out k o' /\ (out = RNormal \/ exists l, out = RGoto l).

Lemma cfor_after fn loop kc inc body k :
  cloop_ok fn loop (SFor [] kc inc body) k ->
  forall s1 k1 o t1 o1 out1 tr o' out,
    cdone fn s1 k1 o t1 out1 (Kfor kc inc body k) o1 ->
    sfor_after loop inc (Some (t1, o1, out1)) = Some (tr, o', out) ->
    cdone fn s1 k1 o tr out k o' /\ (out = RNormal \/ exists l, out = RGoto l).
Proof.
  intros Hloop s1 k1 o t1 o1 out1 tr o' out Hb H.
  assert (Hgo : forall st1, st1 = (SSkip, Kfor kc inc body k, o1) \/ st1 = (SContinue, Kfor kc inc body k, o1) ->
                spre (t1 ++ inc) (loop o1) = Some (tr, o', out) ->
                (exists t2, tr = t1 ++ t2 /\ exists st', cstar fn st1 t2 st' /\ coutcome out k o' st') /\ (out = RNormal \/ exists l, out = RGoto l)).
  { intros st1 Hst Hx. apply cpre_inv in Hx. destruct Hx as (t3 & El & ->). destruct (Hloop _ _ _ _ El) as [(st' & Hr & Ho) Hout]. split; [|exact Hout].
    exists (inc ++ t3). split; [rewrite app_assoc; reflexivity|]. exists st'. split; [|exact Ho].
    destruct Hst as [->| ->].
    - eapply cstar_step; [reflexivity|exact Hr].
    - change (inc ++ t3) with ([] ++ inc ++ t3). eapply cstar_step; [reflexivity|]. eapply cstar_step; [reflexivity|exact Hr]. }
  destruct Hb as (st1 & Hr1 & Ho1).
  destruct out1; cbn [sfor_after coutcome] in *.
  - destruct (Hgo st1 (or_introl Ho1) H) as [(t2 & -> & st' & Hr2 & Ho2) Hout]. split; [|exact Hout]. exists st'. split; [eapply cstar_trans; [exact Hr1|exact Hr2]|exact Ho2].
  - injection H as <- <- <-. split; [|left; reflexivity]. exists (SSkip, k, o1). split; [|reflexivity]. subst st1.
    rewrite <- (app_nil_r t1). eapply cstar_trans; [exact Hr1|]. apply cstar_one. reflexivity.
  - destruct (Hgo st1 (or_intror Ho1) H) as [(t2 & -> & st' & Hr2 & Ho2) Hout]. split; [|exact Hout]. exists st'. split; [eapply cstar_trans; [exact Hr1|exact Hr2]|exact Ho2].
  - injection H as <- <- <-. split; [|right; exists l; reflexivity]. exists st1. split; [exact Hr1|exact Ho1].
  - contradiction.
Qed.

Lemma cfor_loop fn f (IH : cagree_at fn f) kc inc body k :
  forall fuel init o tr o' out, sfor_loop (sexec f None) fuel kc inc body o = Some (tr, o', out) ->
  cdone fn (SFor init kc inc body) k o (init ++ tr) out k o' /\ (out = RNormal \/ exists l, out = RGoto l).
Proof.
  induction fuel as [|fuel IHl]; intros init o tr o' out H; cbn [sfor_loop] in H; [discriminate|].
  assert (Hloop : cloop_ok fn (sfor_loop (sexec f None) fuel kc inc body) (SFor [] kc inc body) k).
  { intros o0 tr0 o0' out0 H0. exact (IHl [] _ _ _ _ H0). }
  destruct kc as [c|].
  - destruct o as [|v o1]; [discriminate|]. destruct (v =? 0) eqn:Ev.
    + injection H as <- <- <-. split; [|left; reflexivity]. exists (SSkip, k, o1). split; [|reflexivity]. apply cstar_one. cbn [cstep]. rewrite Ev. reflexivity.
    + apply cpre_inv in H. destruct H as (t2 & H & ->).
      destruct (sexec f None body o1) as [[[t1 o2] out1]|] eqn:Eb; [|discriminate].
      pose proof (IH _ _ _ _ _ _ Eb (Kfor (Some c) inc body k)) as Sb. unfold cconcl in Sb. cbn [centry] in Sb.
      destruct (cfor_after fn _ (Some c) inc body k Hloop _ _ _ _ _ _ _ _ _ Sb H) as [Hd Hout]. split; [|exact Hout].
      rewrite app_assoc. eapply cdone_step; [|exact Hd]. cbn [cstep]. rewrite Ev. reflexivity.
  - destruct (sexec f None body o) as [[[t1 o2] out1]|] eqn:Eb; [|discriminate].
    pose proof (IH _ _ _ _ _ _ Eb (Kfor None inc body k)) as Sb. unfold cconcl in Sb. cbn [centry] in Sb.
    destruct (cfor_after fn _ None inc body k Hloop _ _ _ _ _ _ _ _ _ Sb H) as [Hd Hout]. split; [|exact Hout].
    eapply cdone_step; [|exact Hd]. reflexivity.
Qed.

(* ---------- do ---------- *)
Lemma cdo_after fn loop body kc k :
  cloop_ok fn loop (SDo body kc) k ->
  forall s1 k1 o t1 o1 out1 tr o' out,
    cdone fn s1 k1 o t1 out1 (Kdo body kc k) o1 ->
    sdo_after loop kc (Some (t1, o1, out1)) = Some (tr, o', out) ->
    cdone fn s1 k1 o tr out k o' /\ (out = RNormal \/ exists l, out = RGoto l).
Proof.
  intros Hloop s1 k1 o t1 o1 out1 tr o' out Hb H.
  assert (Hgo : forall st1, st1 = (SSkip, Kdo body kc k, o1) \/ st1 = (SContinue, Kdo body kc k, o1) ->
                match o1 with [] => None | v :: o2 => if v =? 0 then Some (t1 ++ [kc], o2, RNormal) else spre (t1 ++ [kc]) (loop o2) end = Some (tr, o', out) ->
                (exists t2, tr = t1 ++ t2 /\ exists st', cstar fn st1 t2 st' /\ coutcome out k o' st') /\ (out = RNormal \/ exists l, out = RGoto l)).
  { intros st1 Hst Hx. destruct o1 as [|v o2]; [discriminate|].
    assert (Htest : forall t3 st', cstar fn ((if v =? 0 then SSkip else SDo body kc), k, o2) t3 st' -> cstar fn st1 ([kc] ++ t3) st').
    { intros t3 st' Hr. destruct Hst as [->| ->].
      - eapply cstar_step; [reflexivity|exact Hr].
      - change ([kc] ++ t3) with ([] ++ [kc] ++ t3). eapply cstar_step; [reflexivity|]. eapply cstar_step; [reflexivity|exact Hr]. }
    destruct (v =? 0).
    - injection Hx as <- <- <-. split; [|left; reflexivity]. exists [kc]. split; [reflexivity|]. exists (SSkip, k, o2). split; [|reflexivity].
      rewrite <- (app_nil_r [kc]). apply Htest. apply cstar_refl.
    - apply cpre_inv in Hx. destruct Hx as (t3 & El & ->). destruct (Hloop _ _ _ _ El) as [(st' & Hr & Ho) Hout]. split; [|exact Hout].
      exists ([kc] ++ t3). split; [rewrite app_assoc; reflexivity|]. exists st'. split; [apply Htest; exact Hr|exact Ho]. }
  destruct Hb as (st1 & Hr1 & Ho1).
  destruct out1; cbn [sdo_after coutcome] in *.
  - destruct (Hgo st1 (or_introl Ho1) H) as [(t2 & -> & st' & Hr2 & Ho2) Hout]. split; [|exact Hout]. exists st'. split; [eapply cstar_trans; [exact Hr1|exact Hr2]|exact Ho2].
  - injection H as <- <- <-. split; [|left; reflexivity]. exists (SSkip, k, o1). split; [|reflexivity]. subst st1.
    rewrite <- (app_nil_r t1). eapply cstar_trans; [exact Hr1|]. apply cstar_one. reflexivity.
  - destruct (Hgo st1 (or_intror Ho1) H) as [(t2 & -> & st' & Hr2 & Ho2) Hout]. split; [|exact Hout]. exists st'. split; [eapply cstar_trans; [exact Hr1|exact Hr2]|exact Ho2].
  - injection H as <- <- <-. split; [|right; exists l; reflexivity]. exists st1. split; [exact Hr1|exact Ho1].
  - contradiction.
Qed.

Lemma cdo_loop fn f (IH : cagree_at fn f) body kc k :
  forall fuel, cloop_ok fn (sdo_loop (sexec f None) fuel body kc) (SDo body kc) k.
Proof.
  induction fuel as [|fuel IHl]; intros o tr o' out H; cbn [sdo_loop] in H; [discriminate|].
  destruct (sexec f None body o) as [[[t1 o1] out1]|] eqn:Eb; [|discriminate].
  pose proof (IH _ _ _ _ _ _ Eb (Kdo body kc k)) as Sb. unfold cconcl in Sb. cbn [centry] in Sb.
  destruct (cdo_after fn _ body kc k IHl _ _ _ _ _ _ _ _ _ Sb H) as [Hd Hout]. split; [|exact Hout].
  change tr with ([] ++ tr). eapply cdone_step; [|exact Hd]. reflexivity.
Qed.

(* ---------- switch ---------- *)
Lemma cswitch_end fn s1 k1 o t1 o1 out1 k tr o' out :
  cdone fn s1 k1 o t1 out1 (Kswitch k) o1 -> sswitch_end (Some (t1, o1, out1)) = Some (tr, o', out) -> cdone fn s1 k1 o tr out k o'.
Proof.
  intros (st1 & Hr1 & Ho1) H. destruct out1; cbn [sswitch_end coutcome] in *; injection H as <- <- <-; subst.
  - exists (SSkip, k, o1). split; [|reflexivity]. rewrite <- (app_nil_r t1). eapply cstar_trans; [exact Hr1|]. apply cstar_one. reflexivity.
  - exists (SSkip, k, o1). split; [|reflexivity]. rewrite <- (app_nil_r t1). eapply cstar_trans; [exact Hr1|]. apply cstar_one. reflexivity.
  - exists (SContinue, k, o1). split; [|reflexivity]. rewrite <- (app_nil_r t1). eapply cstar_trans; [exact Hr1|]. apply cstar_one. reflexivity.
  - destruct Ho1 as [k2 ->]. exists (SGoto l, k2, o1). split; [exact Hr1|]. exists k2. reflexivity.
  - contradiction.
Qed.

Lemma centry_label m here s1 k (s' : sstmt) :
  (forall t, sfind t s' k = if starget_eqb t here then Some (s1, k) else sfind t s1 k) ->
  forall t, m = Some t -> centry m s' k = centry (sarrive m here) s1 k.
Proof. intros Hs t ->. cbn [centry sarrive]. rewrite Hs. destruct (starget_eqb t here); reflexivity. Qed.

(* ---------- the two semantics agree on every statement ---------- *)
Theorem sw_seek_agrees_with_continuations fn : forall f, cagree_at fn f.
Proof.
  induction f as [|f IH]; intros m s o tr o' out H k; [discriminate|].
  destruct s as [n| |a b|c a b|init kc inc body|body kc| | |c body|cv s1|s1|l s1|l|c tab]; cbn [sexec] in H; unfold cconcl.
  - (* marker *)
    destruct m as [t|]; injection H as <- <- <-; cbn [centry sfind]; [repeat split|].
    exists (SSkip, k, o). split; [apply cstar_one; reflexivity|reflexivity].
  - (* skip *)
    destruct m as [t|]; injection H as <- <- <-; cbn [centry sfind]; [repeat split|].
    exists (SSkip, k, o). split; [apply cstar_refl|reflexivity].
  - (* sequence *)
    destruct (sexec f m a o) as [[[t1 o1] out1]|] eqn:Ea; [|discriminate].
    pose proof (IH _ _ _ _ _ _ Ea (Kseq b k)) as Sa. unfold cconcl in Sa.
    assert (Hafter : forall s1 k1, cdone fn s1 k1 o t1 out1 (Kseq b k) o1 -> cdone fn s1 k1 o tr out k o').
    { intros s1 k1 Hd. pose proof (cdone_noseek _ _ _ _ _ _ _ _ Hd) as Hns. destruct out1; try congruence.
      - apply cpre_inv in H. destruct H as (t2 & Eb & ->). pose proof (IH _ _ _ _ _ _ Eb k) as Sb. unfold cconcl in Sb. cbn [centry] in Sb.
        eapply cdone_then; [exact Hd|]. intros st1 Ho1. cbn [coutcome] in Ho1. subst st1. destruct Sb as (st' & Hr & Ho). exists st'. split; [|exact Ho].
        change t2 with ([] ++ t2). eapply cstar_step; [reflexivity|exact Hr].
      - injection H as <- <- <-. rewrite <- (app_nil_r t1). eapply cdone_then; [exact Hd|]. intros st1 Ho1. cbn [coutcome] in Ho1. subst st1.
        exists (SBreak, k, o1). split; [apply cstar_one; reflexivity|reflexivity].
      - injection H as <- <- <-. rewrite <- (app_nil_r t1). eapply cdone_then; [exact Hd|]. intros st1 Ho1. cbn [coutcome] in Ho1. subst st1.
        exists (SContinue, k, o1). split; [apply cstar_one; reflexivity|reflexivity].
      - injection H as <- <- <-. destruct Hd as (st1 & Hr1 & Ho1). exists st1. split; [exact Hr1|exact Ho1]. }
    destruct m as [t|]; cbn [centry sfind] in *.
    + destruct (sfind t a (Kseq b k)) as [[s1 k1]|].
      * apply Hafter. exact Sa.
      * destruct Sa as (-> & -> & ->). apply cpre_inv in H. destruct H as (t2 & Eb & ->). cbn [app].
        pose proof (IH _ _ _ _ _ _ Eb k) as Sb. unfold cconcl in Sb. cbn [centry] in Sb. exact Sb.
    + pose proof (Hafter _ _ Sa) as Hd. change tr with ([] ++ tr). eapply cdone_step; [|exact Hd]. reflexivity.
  - (* if *)
    destruct m as [t|]; cbn [centry sfind].
    + destruct (sexec f (Some t) a o) as [[[t1 o1] out1]|] eqn:Ea; [|discriminate].
      pose proof (IH _ _ _ _ _ _ Ea k) as Sa. unfold cconcl in Sa. cbn [centry] in Sa.
      destruct (sfind t a k) as [[s1 k1]|].
      * pose proof (cdone_noseek _ _ _ _ _ _ _ _ Sa) as Hns. destruct out1; try congruence; injection H as <- <- <-; exact Sa.
      * destruct Sa as (-> & -> & ->). apply cpre_inv in H. destruct H as (t2 & Eb & ->). cbn [app].
        pose proof (IH _ _ _ _ _ _ Eb k) as Sb. unfold cconcl in Sb. cbn [centry] in Sb. exact Sb.
    + destruct o as [|v o1]; [discriminate|]. apply cpre_inv in H. destruct H as (t2 & Eb & ->).
      pose proof (IH _ _ _ _ _ _ Eb k) as Sb. unfold cconcl in Sb. cbn [centry] in Sb.
      eapply cdone_step; [|exact Sb]. reflexivity.
  - (* for *)
    destruct m as [t|]; cbn [centry sfind].
    + destruct (sexec f (Some t) body o) as [[[t1 o1] out1]|] eqn:Eb; [|discriminate].
      pose proof (IH _ _ _ _ _ _ Eb (Kfor kc inc body k)) as Sb. unfold cconcl in Sb. cbn [centry] in Sb.
      destruct (sfind t body (Kfor kc inc body k)) as [[s1 k1]|].
      * assert (Hloop : cloop_ok fn (sfor_loop (sexec f None) f kc inc body) (SFor [] kc inc body) k).
        { intros o0 tr0 o0' out0 H0. exact (cfor_loop fn f IH kc inc body k f [] _ _ _ _ H0). }
        exact (proj1 (cfor_after fn _ kc inc body k Hloop _ _ _ _ _ _ _ _ _ Sb H)).
      * destruct Sb as (-> & -> & ->). cbn [sfor_after] in H. injection H as <- <- <-. repeat split.
    + apply cpre_inv in H. destruct H as (t2 & El & ->). exact (proj1 (cfor_loop fn f IH kc inc body k f init _ _ _ _ El)).
  - (* do *)
    assert (Hloop : cloop_ok fn (sdo_loop (sexec f None) f body kc) (SDo body kc) k) by (apply cdo_loop; exact IH).
    destruct (sexec f m body o) as [[[t1 o1] out1]|] eqn:Eb; [|discriminate].
    pose proof (IH _ _ _ _ _ _ Eb (Kdo body kc k)) as Sb. unfold cconcl in Sb.
    destruct m as [t|]; cbn [centry sfind] in *.
    + destruct (sfind t body (Kdo body kc k)) as [[s1 k1]|].
      * exact (proj1 (cdo_after fn _ body kc k Hloop _ _ _ _ _ _ _ _ _ Sb H)).
      * destruct Sb as (-> & -> & ->). cbn [sdo_after] in H. injection H as <- <- <-. repeat split.
    + pose proof (proj1 (cdo_after fn _ body kc k Hloop _ _ _ _ _ _ _ _ _ Sb H)) as Hd.
      change tr with ([] ++ tr). eapply cdone_step; [|exact Hd]. reflexivity.
  - (* break *)
    destruct m as [t|]; injection H as <- <- <-; cbn [centry sfind]; [repeat split|].
    exists (SBreak, k, o). split; [apply cstar_refl|reflexivity].
  - (* continue *)
    destruct m as [t|]; injection H as <- <- <-; cbn [centry sfind]; [repeat split|].
    exists (SContinue, k, o). split; [apply cstar_refl|reflexivity].
  - (* switch *)
    destruct m as [[cv| |l]|]; cbn [centry sfind].
    + injection H as <- <- <-. repeat split.
    + injection H as <- <- <-. repeat split.
    + destruct (sexec f (Some (TLabel l)) body o) as [[[t1 o1] out1]|] eqn:Eb; [|discriminate].
      pose proof (IH _ _ _ _ _ _ Eb (Kswitch k)) as Sb. unfold cconcl in Sb. cbn [centry] in Sb.
      destruct (sfind (TLabel l) body (Kswitch k)) as [[s1 k1]|].
      * eapply cswitch_end; [exact Sb|exact H].
      * destruct Sb as (-> & -> & ->). cbn [sswitch_end] in H. injection H as <- <- <-. repeat split.
    + destruct o as [|v o1]; [discriminate|]. apply cpre_inv in H. destruct H as (t2 & H & ->).
      destruct (sexec f (Some (TCase v)) body o1) as [[[t1 o2] out1]|] eqn:E1; [|discriminate].
      pose proof (IH _ _ _ _ _ _ E1 (Kswitch k)) as S1. unfold cconcl in S1. cbn [centry] in S1.
      destruct (sfind (TCase v) body (Kswitch k)) as [[s1 k1]|] eqn:F1.
      * pose proof (cdone_noseek _ _ _ _ _ _ _ _ S1) as Hns.
        assert (H' : sswitch_end (Some (t1, o2, out1)) = Some (t2, o', out)) by (destruct out1; try exact H; congruence).
        eapply cdone_step; [|eapply cswitch_end; [exact S1|exact H']]. cbn [cstep]. rewrite F1. reflexivity.
      * destruct S1 as (-> & -> & ->).
        destruct (sexec f (Some TDefault) body o1) as [[[t3 o3] out3]|] eqn:E2; [|discriminate].
        pose proof (IH _ _ _ _ _ _ E2 (Kswitch k)) as S2. unfold cconcl in S2. cbn [centry] in S2.
        destruct (sfind TDefault body (Kswitch k)) as [[s2 k2]|] eqn:F2.
        -- pose proof (cdone_noseek _ _ _ _ _ _ _ _ S2) as Hns.
           assert (H' : sswitch_end (Some (t3, o3, out3)) = Some (t2, o', out)) by (destruct out3; try exact H; congruence).
           eapply cdone_step; [|eapply cswitch_end; [exact S2|exact H']]. cbn [cstep]. rewrite F1, F2. reflexivity.
        -- destruct S2 as (-> & -> & ->). cbn [sswitch_end] in H. injection H as <- <- <-.
           exists (SSkip, k, o1). split; [|reflexivity]. apply cstar_one. cbn [cstep]. rewrite F1, F2. reflexivity.
  - (* case label *)
    pose proof (IH _ _ _ _ _ _ H k) as S1. unfold cconcl in S1. destruct m as [t|].
    + rewrite (centry_label (Some t) (TCase cv) s1 k (SCase cv s1) (fun t0 => eq_refl) t eq_refl). exact S1.
    + cbn [sarrive centry] in *. change tr with ([] ++ tr). eapply cdone_step; [|exact S1]. reflexivity.
  - (* default label *)
    pose proof (IH _ _ _ _ _ _ H k) as S1. unfold cconcl in S1. destruct m as [t|].
    + rewrite (centry_label (Some t) TDefault s1 k (SDefault s1) (fun t0 => eq_refl) t eq_refl). exact S1.
    + cbn [sarrive centry] in *. change tr with ([] ++ tr). eapply cdone_step; [|exact S1]. reflexivity.
  - (* named label *)
    pose proof (IH _ _ _ _ _ _ H k) as S1. unfold cconcl in S1. destruct m as [t|].
    + rewrite (centry_label (Some t) (TLabel l) s1 k (SLabel l s1) (fun t0 => eq_refl) t eq_refl). exact S1.
    + cbn [sarrive centry] in *. change tr with ([] ++ tr). eapply cdone_step; [|exact S1]. reflexivity.
  - (* goto *)
    destruct m as [t|]; injection H as <- <- <-; cbn [centry sfind]; [repeat split|].
    exists (SGoto l, k, o). split; [apply cstar_refl|exists k; reflexivity].
  - (* goto through a table *)
    destruct m as [t|]; cbn [centry sfind].
    + injection H as <- <- <-. repeat split.
    + destruct o as [|v o1]; [discriminate|]. destruct (nth_error tab v) as [l|] eqn:En; [|discriminate]. injection H as <- <- <-.
      exists (SGoto l, k, o1). split; [apply cstar_one; cbn [cstep]; rewrite En; reflexivity|exists k; reflexivity].
Qed.

(* ---------- function bodies ---------- *)
(* whenever the seek semantics gives the function body a complete run (through any number of
   gotos), the continuation machine runs from the body - or from the labelled statement it was
   entered at - with the same trace to the final state: nothing left to do *)
Theorem sw_function_agrees_with_continuations : forall fuel m body o tr o',
  srun fuel m body o = Some (tr, o') ->
  exists s1 k1, centry m body Kstop = Some (s1, k1) /\ cstar body (s1, k1, o) tr (SSkip, Kstop, o').
Proof.
  induction fuel as [|f IHf]; intros m body o tr o' H; [discriminate|]. cbn [srun] in H.
  destruct (sexec f m body o) as [[[t o1] out]|] eqn:E; [|discriminate].
  pose proof (sw_seek_agrees_with_continuations body f _ _ _ _ _ _ E Kstop) as S. unfold cconcl in S.
  destruct (centry m body Kstop) as [[s1 k1]|]; [|destruct S as (-> & _); discriminate].
  exists s1, k1. split; [reflexivity|]. destruct S as (st' & Hr & Ho).
  destruct out; try discriminate; cbn [coutcome] in Ho.
  - injection H as <- <-. subst st'. exact Hr.
  - destruct (srun f (Some (TLabel l)) body o1) as [[t2 o2]|] eqn:E2; [|discriminate]. injection H as <- <-.
    destruct (IHf _ _ _ _ _ E2) as (s2 & k2 & Hf & Hr2). cbn [centry] in Hf. destruct Ho as [k3 ->].
    eapply cstar_trans; [exact Hr|]. change t2 with ([] ++ t2). eapply cstar_step; [|exact Hr2]. cbn [cstep]. rewrite Hf. reflexivity.
Qed.

Corollary sw_program_agrees_with_continuations : forall fuel body o tr o',
  srun fuel None body o = Some (tr, o') -> cstar body (body, Kstop, o) tr (SSkip, Kstop, o').
Proof.
  intros fuel body o tr o' H. destruct (sw_function_agrees_with_continuations _ _ _ _ _ _ H) as (s1 & k1 & He & Hr). cbn [centry] in He. injection He as <- <-. exact Hr.
Qed.

(* the continuation machine is a function, so its runs are unique: conversely, every run of it that
   reaches the final state has the trace of the seek semantics *)
Lemma cstar_det fn s t1 s1 : cstar fn s t1 s1 -> forall t2 s2, cstar fn s t2 s2 ->
  (exists t, cstar fn s1 t s2 /\ t2 = t1 ++ t) \/ (exists t, cstar fn s2 t s1 /\ t1 = t2 ++ t).
Proof.
  induction 1 as [st|st ev st' tr st'' Hs Hr IH]; intros t2 s2 H2.
  - left. exists t2. split; [exact H2|reflexivity].
  - destruct H2 as [|st0 ev2 st2 tr2 st3 Hs2 Hr2].
    + right. exists (ev ++ tr). split; [eapply cstar_step; [exact Hs|exact Hr]|reflexivity].
    + rewrite Hs in Hs2. injection Hs2 as <- <-. destruct (IH _ _ Hr2) as [(t & Ht & ->)|(t & Ht & ->)].
      * left. exists t. split; [exact Ht|]. rewrite app_assoc. reflexivity.
      * right. exists t. split; [exact Ht|]. rewrite app_assoc. reflexivity.
Qed.
Lemma cstar_final fn o t st : cstar fn (SSkip, Kstop, o) t st -> t = [] /\ st = (SSkip, Kstop, o).
Proof. intros H. inversion H as [|st0 ev st1 tr st2 Hs Hr]; subst; [split; reflexivity|discriminate]. Qed.

Theorem sw_continuation_run_unique : forall fuel body o tr o',
  srun fuel None body o = Some (tr, o') ->
  forall t2 o2, cstar body (body, Kstop, o) t2 (SSkip, Kstop, o2) -> t2 = tr /\ o2 = o'.
Proof.
  intros fuel body o tr o' H t2 o2 H2. pose proof (sw_program_agrees_with_continuations _ _ _ _ _ H) as H1.
  destruct (cstar_det _ _ _ _ H1 _ _ H2) as [(t & Ht & ->)|(t & Ht & ->)].
  - destruct (cstar_final body _ _ _ Ht) as [-> Heq]. injection Heq as <-. rewrite app_nil_r. split; reflexivity.
  - destruct (cstar_final body _ _ _ Ht) as [-> Heq]. injection Heq as <-. rewrite app_nil_r. split; reflexivity.
Qed.

(* the executable run used by the tie *)
Lemma crun_sound fn : forall fuel st tr o', crun fuel fn st = Some (tr, o') -> cstar fn st tr (SSkip, Kstop, o').
Proof.
  induction fuel as [|f IH]; intros st tr o' H; [discriminate|]. cbn [crun] in H.
  assert (Hgen : match cstep fn st with
                 | Some (ev, st1) => match crun f fn st1 with Some (tr0, o0) => Some (ev ++ tr0, o0) | None => None end
                 | None => None end = Some (tr, o') -> cstar fn st tr (SSkip, Kstop, o')).
  { intros Hx. destruct (cstep fn st) as [[ev st1]|] eqn:Es; [|discriminate]. destruct (crun f fn st1) as [[tr0 o0]|] eqn:Er; [|discriminate].
    injection Hx as <- <-. eapply cstar_step; [exact Es|apply IH; exact Er]. }
  destruct st as [[s k] o]. destruct s; try (apply Hgen; exact H). destruct k; try (apply Hgen; exact H).
  injection H as <- <-. apply cstar_refl.
Qed.
