(* The main theorem for ALL integer expressions over local variables (C01, package exprmem). *)
From Coq Require Import ZArith Bool List Lia.
From Chibicc Require Import Base.Mach Spec.C11Int Spec.C11IntMem Model.X86Int Model.CodegenInt Gen.CastTable
     Model.ConstFold Proofs.ConstFoldProofs Proofs.CastTableProofs Proofs.CodegenIntProofs Model.ExprGen Proofs.ExprGenProofs
     Model.ExprMem Proofs.ExprMemProofs Proofs.ExprMemCorrect Proofs.ExprMemIncDec.
Import ListNotations.
Local Open Scope Z_scope.

(* the frame holds the temporaries the parser creates for e: in creation order, of the right kinds *)
Definition temps_fit (F : frame) (e : mexpr) : Prop := kinds_at F 0 (temps_of (ftys F) e).

(* a decision procedure for temps_fit: the kinds of the frame's temporaries start with those of e *)
Fixpoint kinds_prefixb (l ks : list tkind) : bool :=
  match l, ks with
  | [], _ => true
  | k :: l', k' :: ks' =>
    (match k, k' with TPtr, TPtr => true | TSaved a, TSaved b => ity_eqb a b | _, _ => false end) && kinds_prefixb l' ks'
  | _ :: _, [] => false
  end.
Definition temps_fitb (F : frame) (e : mexpr) : bool := kinds_prefixb (temps_of (ftys F) e) (map fst (ftemps F)).

Lemma ity_eqb_eq a b : ity_eqb a b = true -> a = b.
Proof. destruct a, b; intros H; try discriminate H; reflexivity. Qed.

Lemma temps_fitb_sound F e : temps_fitb F e = true -> temps_fit F e.
Proof.
  unfold temps_fitb, temps_fit, kinds_at, tkind_at, ntmps. generalize (temps_of (ftys F) e) as l.
  rewrite <- (map_length fst (ftemps F)).
  assert (Hn : forall i, fst (nth i (ftemps F) (TPtr, 0)) = nth i (map fst (ftemps F)) TPtr)
    by (intros i; symmetry; apply (map_nth fst (ftemps F) (TPtr, 0))).
  intros l. setoid_rewrite Hn. generalize (map fst (ftemps F)) as ks. clear Hn.
  induction l as [|k l IH]; intros ks H i k0 Hi; [destruct i; discriminate Hi|].
  destruct ks as [|k' ks]; [discriminate H|]. cbn [kinds_prefixb] in H. apply andb_true_iff in H as [Hk Hl].
  destruct i as [|i]; cbn [nth_error] in Hi.
  - injection Hi as <-. cbn [Nat.add nth length]. split; [lia|].
    destruct k as [|a], k' as [|b]; try discriminate Hk; [reflexivity|]. apply ity_eqb_eq in Hk. subst. reflexivity.
  - destruct (IH ks Hl i k0 Hi) as [A B]. cbn [Nat.add nth length] in *. split; [lia|exact B].
Qed.

Theorem mcompile_correct : forall F e env v env',
  wf_frame F -> vars_in (nvars F) e = true -> temps_fit F e ->
  meval (ftys F) env e = Some (v, env') ->
  forall s k m, agree F env m ->
  exists s' m', mrun (frbp F) (mcompile F e) (s, k, m) = Some (s', k, m') /\
                R (mtype (ftys F) e) v (rax s') /\ agree F env' m' /\ unchanged_outside F m m'.
Proof.
  intros F e env v env' WF Hv Ht H s k m Ha. unfold mcompile.
  rewrite <- (desugar_meval (ftys F) e env) in H.
  assert (Hb : (0 + ntemps (desugar (ftys F) e) <= ntmps F)%nat).
  { rewrite desugar_ntemps, <- (temps_of_length (ftys F) e). apply kinds_at_bound; [exact Ht|lia]. }
  destruct (mcomp_correct F WF (desugar (ftys F) e) (desugar_core _ e)
              ltac:(rewrite desugar_vars; exact Hv) 0%nat env v env' Hb ltac:(rewrite desugar_temps; exact Ht) H s k m Ha)
    as (s' & m' & E & HR & Ha' & Htouch).
  exists s', m'. split; [exact E|]. split; [rewrite <- (desugar_type (ftys F) e); exact HR|]. split; [exact Ha'|].
  unfold unchanged_outside. eapply touch_mono; [exact Htouch|lia|]. exact Hb.
Qed.

(* a checkable form of agree, for examples *)
Definition agreeb (F : frame) (env : venv) (m : mem) : bool :=
  Nat.eqb (length env) (nvars F) &&
  forallb (fun x => in_range (vty (ftys F) x) (vget env x) &&
                    (load_le m (vaddr F x) (nbytes (vty (ftys F) x)) =? urepr (vty (ftys F) x) (vget env x))) (seq 0 (nvars F)).
Lemma agreeb_sound F env m : agreeb F env m = true -> agree F env m.
Proof.
  unfold agreeb. intros H. apply andb_true_iff in H as [H1 H2]. apply Nat.eqb_eq in H1. rewrite forallb_forall in H2.
  split; [exact H1|]. intros x Hx. specialize (H2 x (in_seq0 _ _ Hx)). apply andb_true_iff in H2 as [A B]. apply Z.eqb_eq in B. auto.
Qed.

(* a memory that agrees with a store: write every variable *)
Fixpoint init_mem (F : frame) (env : venv) (n : nat) (m : mem) : mem :=
  match n with
  | O => m
  | S k => store_le (init_mem F env k m) (vaddr F k) (nbytes (vty (ftys F) k)) (vget env k)
  end.
