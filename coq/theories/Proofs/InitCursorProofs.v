(* C05 (package initcur) Part 5: the theorems.
   (Part 1 Proofs/InitTree.v, Part 2 Proofs/InitLocal.v, Part 3 Proofs/InitSim.v, Part 4 Proofs/InitRead.v) *)
From Coq Require Import List Arith Bool Lia.
From Chibicc Require Import Spec.InitSyntax Spec.InitSpec Spec.InitValid Model.InitCursor
  Proofs.InitTree Proofs.InitLocal Proofs.InitSim Proofs.InitRead Proofs.InitUnknown.
Import ListNotations.

(* a complete type has no flexible part: the flag of new_initializer does not matter *)
Lemma new_initializer_flag : forall U, wf U = true -> new_initializer U true = new_initializer U false.
Proof.
  intros U Hwf. destruct U as [k|[n|] e|ms|ms]; try reflexivity.
  - cbn [wf] in Hwf. discriminate.
  - cbn [new_initializer]. f_equal. cbn [wf] in Hwf.
    assert (H : forallb wf ms = true) by (destruct ms; [discriminate|exact Hwf]). clear Hwf.
    induction ms as [|m ms IH]; [reflexivity|].
    cbn [forallb] in H. apply andb_prop in H. destruct H as [Hm Hms]. specialize (IH Hms).
    destruct m as [k|[n|] e|ms1|ms1]; try (rewrite IH; reflexivity).
    cbn [wf] in Hm. discriminate.
Qed.

(* Stage 1+2+unions: on a complete type and an initializer that obeys the constraints, parse.c's tree is the
   replay of the C11 event log on the empty tree *)
Theorem initializer_is_replay : forall T v,
  wf T = true -> ok_init T [] v = true ->
  initializer T v = Some (replay (new_initializer T false) (spec_events T v)).
Proof.
  intros T v Hwf Hok. unfold initializer.
  destruct (levels_ok (S (tdepth T + idepth v))) as [HI _].
  assert (Hsh : shaped T (new_initializer T false)) by (apply (shaped_new (S (tdepth T))); [lia|exact Hwf]).
  assert (Hd : tdepth T + idepth_items (ICons [] v INil) < S (tdepth T + idepth v)) by (cbn [idepth_items]; lia).
  assert (Hok1 : ok_items T (Some []) (ICons [] v INil) = true).
  { rewrite ok_items_head, Hok. reflexivity. }
  destruct (HI T (new_initializer T false) T [] v INil Hsh Hwf eq_refl Hd Hok1) as [E [tok' [Hr [_ [Hs [_ Hsuf]]]]]].
  apply isuffix_nil in Hsuf. subst tok'.
  rewrite spec_items_head, !spec_items_nil, !app_nil_r, map_at_nil in Hs.
  rewrite (new_initializer_flag T Hwf), Hr. unfold spec_events. rewrite Hs. reflexivity.
Qed.

Lemma complete_wf : forall T ev, wf T = true -> complete T ev = T.
Proof.
  intros T ev Hwf. destruct T as [k|[n|] e|ms|ms]; try reflexivity.
  - cbn [wf] in Hwf. discriminate.
  - cbn [complete]. f_equal. cbn [wf] in Hwf.
    assert (H : forallb wf ms = true) by (destruct ms; [discriminate|exact Hwf]). clear Hwf.
    generalize 0 as i. induction ms as [|m ms IH]; intro i; [reflexivity|].
    cbn [forallb] in H. apply andb_prop in H. destruct H as [Hm Hms].
    cbn [complete_last]. destruct m as [k|[n|] e|ms1|ms1]; try (rewrite (IH Hms); destruct ms; reflexivity).
    cbn [wf] in Hm. discriminate.
Qed.

Lemma type_of_wf : forall T t, wf T = true -> type_of T t = T.
Proof.
  intros T t Hwf. destruct T as [k|[n|] e|ms|ms]; try reflexivity.
  - cbn [wf] in Hwf. discriminate.
  - destruct t as [y|f e cs|cs|mem cs]; try reflexivity. cbn [type_of]. f_equal. cbn [wf] in Hwf.
    assert (H : forallb wf ms = true) by (destruct ms; [discriminate|exact Hwf]). clear Hwf.
    revert cs. induction ms as [|m ms IH]; intro cs; [destruct cs; reflexivity|].
    cbn [forallb] in H. apply andb_prop in H. destruct H as [Hm Hms].
    destruct m as [k|[n|] e|ms1|ms1]; try (destruct cs as [|c cs]; [reflexivity|rewrite (IH Hms cs); reflexivity]).
    cbn [wf] in Hm. discriminate.
Qed.

(* complete object types: model = spec *)
Theorem model_is_spec_complete : forall T v,
  wf T = true -> ok_init T [] v = true -> clean T (spec_events T v) = true ->
  model T v = Some (spec T v).
Proof.
  intros T v Hwf Hok Hclean. unfold model, spec.
  rewrite (initializer_is_replay T v Hwf Hok). rewrite (complete_wf T _ Hwf), (type_of_wf T _ Hwf).
  f_equal. f_equal. apply (leaves_of_replay T (spec_events T v) Hwf Hclean).
Qed.

(* arrays of unknown bound (6.7.9p22): count_array_init_elements finds the spec's bound, and the object is the
   spec's object of that length *)
Theorem model_is_spec_unknown : forall e l,
  wf e = true -> ok_items (TArray None e) (Some [0]) l = true -> l <> INil ->
  (forall s, l = ICons [] (IStr s) INil -> is_char_array (TArray None e) = false) ->
  clean (TArray None e) (spec_events (TArray None e) (IList l)) = true ->
  model (TArray None e) (IList l) = Some (spec (TArray None e) (IList l)).
Proof.
  intros e l Hwfe Hokl Hlne Hnstr Hclean. set (T := TArray None e) in *.
  assert (Hie : forall s, l = ICons [] (IStr s) INil -> is_integer_elem e = false).
  { intros s ->. rewrite ok_items_head in Hokl. apply andb_prop in Hokl. destruct Hokl as [Hs1 _].
    cbn [ok_init sub child T in_bound] in Hs1. destruct s; [discriminate|].
    destruct e; [discriminate Hs1|reflexivity|reflexivity|reflexivity]. }
  set (Einf := spec_items T (Some [0]) l).
  set (n := hmax Einf).
  assert (Hn : 0 < n).
  { destruct l as [|ds v tl]; [congruence|]. apply (first_item_head e (Some [0]) ds v tl I Hokl). }
  assert (Hnb : 0 <? n = true) by (apply Nat.ltb_lt; exact Hn).
  destruct (bounded_transfer e n l (Some [0]) I Hokl (le_n _)) as [Hsp Hokn]. cbn [restrict] in Hsp, Hokn. rewrite Hnb in Hsp, Hokn.
  set (Wn := TArray (Some n) e) in *.
  assert (HwfWn : wf Wn = true) by (cbn [wf Wn]; rewrite Hnb, Hwfe; reflexivity).
  assert (Hev : spec_events T (IList l) = Clear [] :: Einf).
  { unfold spec_events. rewrite (spec_init_braced T l ltac:(intros k; discriminate) Hnstr). cbn [fst]. rewrite map_at_nil. reflexivity. }
  assert (Hbound : bound (Clear [] :: Einf) [] = n) by (rewrite bound_hmax; reflexivity).
  unfold model, initializer.
  set (d0 := tdepth T + idepth (IList l)).
  destruct (levels_ok d0) as [HI [HD [HIs [HDs HDr]]]].
  cbn [level]. destruct (level d0) as [i2c dc] eqn:Hlev. cbn [fst snd] in HI, HD, HIs, HDs, HDr. cbn [fst].
  change (new_initializer T true) with (NArray true e []).
  rewrite (init2_array_braced i2c dc true e [] l INil Hie).
  unfold array_initializer1, unflex, count_array_init_elements.
  rewrite (new_initializer_flag e Hwfe).
  assert (Hshe : shaped e (new_initializer e false)) by (apply (shaped_new (S (tdepth e))); [lia|exact Hwfe]).
  rewrite (count_ok i2c dc d0 HI HD HDs HDr (S (ilength l)) e (new_initializer e false) 0 0 l Hshe Hwfe ltac:(lia)
             ltac:(unfold d0; cbn [tdepth T idepth]; lia) Hokl).
  cbn [Nat.max]. change (hmax (spec_items (TArray None e) (Some [0]) l)) with n.
  assert (Hcur : cur1 n 0 = Some [0]) by (unfold cur1; rewrite Hnb; reflexivity).
  destruct (array_loop1_ok i2c dc d0 HI HD HDs HDr (S (ilength l)) e n (repeat (new_initializer e false) n) 0 l) as [E [cs' [Hr [Hw2 Hs]]]].
  { apply repeat_length. }
  { apply Forall_forall. intros c Hc. apply repeat_spec in Hc. subst c. exact Hshe. }
  { exact HwfWn. }
  { lia. }
  { unfold d0. cbn [tdepth T idepth]. lia. }
  { rewrite Hcur. exact Hokn. }
  rewrite Hr. fold Wn in Hs. rewrite Hcur, Hsp in Hs. subst E.
  assert (HR : NArray false e cs' = R Wn (Clear [] :: Einf)) by (rewrite Hw2; reflexivity).
  assert (Hlen : length cs' = n).
  { assert (Hsh : shaped Wn (NArray false e cs')).
    { rewrite HR. unfold R. apply shaped_replay. apply (shaped_new (S (tdepth Wn))); [lia|exact HwfWn]. }
    apply shaped_array in Hsh. destruct Hsh as [_ [Heq _]]. injection Heq as ->. reflexivity. }
  unfold spec. rewrite Hev. cbn [complete T]. rewrite Hbound. fold Wn.
  cbn [type_of T]. rewrite Hlen. fold Wn. f_equal. f_equal.
  rewrite HR. apply (leaves_of_replay Wn (Clear [] :: Einf) HwfWn).
  apply clean_bound. rewrite <- Hev. exact Hclean.
Qed.

(* a character array of unknown bound and a string literal, bare or in braces (p14, p22) *)
Lemma string_events_bounded : forall q s i n, i + length s = n ->
  string_events q i (Some n) s = string_events q i None s.
Proof.
  intros q s. induction s as [|c s IH]; intros i n H.
  - cbn [string_events zero_fill length] in *. replace (n - i) with 0 by lia. reflexivity.
  - cbn [string_events in_bound length] in *. assert (Hb : i <? n = true) by (apply Nat.ltb_lt; lia). rewrite Hb.
    f_equal. apply IH. lia.
Qed.

Lemma hmax_string : forall s i, s <> [] -> hmax (string_events [] i None s) = i + length s.
Proof.
  induction s as [|c s IH]; intros i H; [congruence|].
  cbn [string_events in_bound hmax fold_right app event_path head1 length].
  fold (hmax (string_events [] (S i) None s)). destruct s as [|c' s].
  - cbn. lia.
  - rewrite IH by discriminate. cbn [length]. lia.
Qed.

Theorem model_is_spec_unknown_string : forall (s : list nat) (braced : bool),
  s <> [] ->
  let T := TArray None (TScalar 1) in
  let v := if braced then IList (ICons [] (IStr s) INil) else IStr s in
  clean T (spec_events T v) = true -> model T v = Some (spec T v).
Proof.
  intros s braced Hs T v Hclean.
  set (e := TScalar 1) in *. set (n := length s).
  set (Wn := TArray (Some n) e).
  set (ev0 := string_events [] 0 None s).
  assert (Hn : 0 < n) by (destruct s; [congruence|cbn; lia]).
  assert (HwfWn : wf Wn = true).
  { cbn [wf Wn e]. assert (Hb : 0 <? n = true) by (apply Nat.ltb_lt; exact Hn). rewrite Hb. reflexivity. }
  assert (Hev0 : string_events [] 0 (Some n) s = ev0) by (apply string_events_bounded; unfold n; lia).
  set (cs := repeat (new_initializer e false) n).
  assert (Hlen : length cs = n) by apply repeat_length.
  assert (Hall : Forall (shaped e) cs).
  { apply Forall_forall. intros c Hc. apply repeat_spec in Hc. subst c. apply shaped_scalar. exists 1. reflexivity. }
  destruct (string_fill_ok e cs s Hall ltac:(rewrite Hlen; reflexivity)) as [cs' [Hsf Hrep]].
  rewrite Hlen, Hev0 in Hrep.
  assert (Hsh' : shaped Wn (NArray false e cs')).
  { rewrite <- Hrep. apply shaped_replay. apply shaped_array. rewrite Hlen. repeat split. exact Hall. }
  assert (Hlen' : length cs' = n).
  { apply shaped_array in Hsh'. destruct Hsh' as [_ [Heq _]]. injection Heq as ->. reflexivity. }
  assert (Hev : spec_events T v = ev0) by (destruct braced; reflexivity).
  assert (Hbound : bound (spec_events T v) [] = n).
  { rewrite Hev, bound_hmax. unfold ev0. rewrite (hmax_string s 0 Hs). reflexivity. }
  assert (Hinit : initializer T v = Some (NArray false e cs')).
  { unfold initializer. cbn [level]. destruct (level (tdepth T + idepth v)) as [i2c dc].
    cbn [fst]. change (new_initializer T true) with (NArray true e []).
    destruct braced; unfold v, initializer2, string_initializer; cbn [is_integer_elem e]; fold e; fold n; fold cs; rewrite Hsf; reflexivity. }
  unfold model. rewrite Hinit. unfold spec. cbn [complete T]. rewrite Hbound. fold Wn.
  cbn [type_of T]. rewrite Hlen'. fold Wn. f_equal. f_equal.
  assert (HR : NArray false e cs' = R Wn (spec_events T v)).
  { unfold R. change (new_initializer Wn false) with (NArray false e cs). rewrite Hev, <- Hrep. reflexivity. }
  rewrite HR. apply (leaves_of_replay Wn (spec_events T v) HwfWn). apply clean_bound. exact Hclean.
Qed.

(* the headline: every valid input *)
Theorem model_is_spec : forall T v, valid T v = true -> model T v = Some (spec T v).
Proof.
  intros T v Hv. unfold valid in Hv. apply andb_prop in Hv. destruct Hv as [Hv Hclean].
  apply andb_prop in Hv. destruct Hv as [Hv Hok]. apply andb_prop in Hv. destruct Hv as [Hwf Htop].
  destruct T as [k|[n|] e|ms|ms]; try (apply model_is_spec_complete; assumption).
  cbn [wf_top] in Hwf. destruct v as [x|s|l]; try discriminate.
  - (* char s[] = "..." *)
    cbn [top_ok is_char_array] in Htop. destruct e as [[|[|k]]| | |]; try discriminate.
    cbn [ok_init sub str_ok] in Hok. destruct s as [|c s]; [discriminate|].
    apply (model_is_spec_unknown_string (c :: s) false); [discriminate|exact Hclean].
  - destruct (ok_braced_cases (TArray None e) l I Hok) as [[s [-> [Hca [Hsne _]]]]|[Hokl [Hlne Hnstr]]].
    + cbn [is_char_array] in Hca. destruct e as [[|[|k]]| | |]; try discriminate.
      apply (model_is_spec_unknown_string s true); [exact Hsne|exact Hclean].
    + apply model_is_spec_unknown; assumption.
Qed.

(* ---- the exclusions of `valid` are real: the two deviations of parse.c (findings) ---- *)

(* struct Q { struct { int a, b; } p; int c; } q = { 1, 2, 3, .p = { 5 } };
   6.7.9p19/p21: the braced initializer for q.p overrides the earlier 1 and 2: q.p.b is 0; parse.c keeps the 2 *)
Definition ex_override_ty : ty := TStruct [TStruct [TScalar 0; TScalar 0]; TScalar 0].
Definition ex_override_init : init :=
  IList (ICons [] (IExpr 1) (ICons [] (IExpr 2) (ICons [] (IExpr 3)
        (ICons [DField 0] (IList (ICons [] (IExpr 5) INil)) INil)))).

Lemma braced_override_refuted :
  exists T v, wf_top T = true /\ top_ok T v = true /\ ok_init T [] v = true /\ clean T (spec_events T v) = false /\
              model T v <> Some (spec T v).
Proof.
  exists ex_override_ty, ex_override_init. repeat split; try (vm_compute; reflexivity). vm_compute. discriminate.
Qed.

(* int x[2][6] = { [1][2 ... 4] = 7, 8 };   gcc (whose extension ranges are): 8 goes to x[1][5], after the range.
   parse.c did put it into x[1][3] (designation: begin + 1); repaired in /repo 43bd8ea (end + 1), and the model with it.
   A designator list ENDING in a range is now inside `valid`. *)
Definition ex_range_ty : ty := TArray (Some 2) (TArray (Some 6) (TScalar 0)).
Definition ex_range_init : init :=
  IList (ICons [DIndex 1; DRange 2 4] (IExpr 7) (ICons [] (IExpr 8) INil)).

Lemma nested_range_example :
  valid ex_range_ty ex_range_init = true /\
  model ex_range_ty ex_range_init = Some (spec ex_range_ty ex_range_init) /\
  nth_error (snd (spec ex_range_ty ex_range_init)) 11 = Some ([1; 5], Some (VExpr 8)).
Proof. vm_compute. repeat split. Qed.

(* ---- non-vacuity ---- *)

(* struct { struct { int a[2]; int b; } s[2]; union { int i; long l; } u; int c; } x[] =
     { 1, 2, 3, [1].s[1].a[1] = 4, 5, [1].u.l = 6, 7, { .c = 8, .s[0] = { { 9 } } }, [0].c = 10 };  *)
Definition ex_valid_ty : ty :=
  TArray None (TStruct [TArray (Some 2) (TStruct [TArray (Some 2) (TScalar 0); TScalar 0]);
                        TUnion [TScalar 0; TScalar 2]; TScalar 0]).
Definition ex_valid_init : init :=
  IList (ICons [] (IExpr 1) (ICons [] (IExpr 2) (ICons [] (IExpr 3)
        (ICons [DIndex 1; DField 0; DIndex 1; DField 0; DIndex 1] (IExpr 4) (ICons [] (IExpr 5)
        (ICons [DIndex 1; DField 1; DField 1] (IExpr 6) (ICons [] (IExpr 7)
        (ICons [] (IList (ICons [DField 2] (IExpr 8)
                         (ICons [DField 0; DIndex 0] (IList (ICons [] (IList (ICons [] (IExpr 9) INil)) INil)) INil)))
        (ICons [DIndex 0; DField 2] (IExpr 10) INil))))))))).

Lemma valid_nonvacuous :
  valid ex_valid_ty ex_valid_init = true /\
  option_map (fun r => length (snd r)) (model ex_valid_ty ex_valid_init) = Some 24 /\
  model ex_valid_ty ex_valid_init = Some (spec ex_valid_ty ex_valid_init).
Proof. vm_compute. repeat split. Qed.

(* struct { char s[2][3]; } x = { "ab" };   6.7.9p20 + p14 (and gcc): "ab" initializes x.s[0], reached by brace
   elision through the array s.  parse.c stopped with an internal error; repaired in /repo 50fe612 (initializer2 hands
   a string literal to string_initializer only for an array of integers), and the model with it: the input is now
   inside `valid` and model = spec. *)
Definition ex_strarr_ty : ty := TStruct [TArray (Some 2) (TArray (Some 3) (TScalar 1))].
Definition ex_strarr_init : init := IList (ICons [] (IStr [97; 98; 0]) INil).

Lemma string_elision_example :
  valid ex_strarr_ty ex_strarr_init = true /\
  model ex_strarr_ty ex_strarr_init
  = Some (ex_strarr_ty, [([0; 0; 0], Some (VChar 97)); ([0; 0; 1], Some (VChar 98)); ([0; 0; 2], Some (VChar 0));
                         ([0; 1; 0], None); ([0; 1; 1], None); ([0; 1; 2], None)]).
Proof. vm_compute. split; reflexivity. Qed.

(* struct R { char name[8]; } r = { "default", .name = "ab" };   the second literal initializes the whole array again:
   the bytes behind "ab" are zero (p19, p21; /repo 2e393ab) - inside `valid` *)
Definition ex_stroverride_ty : ty := TStruct [TArray (Some 8) (TScalar 1)].
Definition ex_stroverride_init : init :=
  IList (ICons [] (IStr [100; 101; 102; 97; 117; 108; 116; 0]) (ICons [DField 0] (IStr [97; 98; 0]) INil)).

Lemma string_override_example :
  valid ex_stroverride_ty ex_stroverride_init = true /\
  model ex_stroverride_ty ex_stroverride_init
  = Some (ex_stroverride_ty, [([0; 0], Some (VChar 97)); ([0; 1], Some (VChar 98)); ([0; 2], Some (VChar 0));
                              ([0; 3], None); ([0; 4], None); ([0; 5], None); ([0; 6], None); ([0; 7], None)]).
Proof. vm_compute. split; reflexivity. Qed.

(* struct { char name[4]; int n; } t[] = { "ab", 1, { "cdef", 2 }, [3].name = { "g" } };  char u[] = "hi"; *)
Definition ex_str_ty : ty := TArray None (TStruct [TArray (Some 4) (TScalar 1); TScalar 0]).
Definition ex_str_init : init :=
  IList (ICons [] (IStr [97; 98; 0]) (ICons [] (IExpr 1)
        (ICons [] (IList (ICons [] (IStr [99; 100; 101; 102; 0]) (ICons [] (IExpr 2) INil)))
        (ICons [DIndex 3; DField 0] (IList (ICons [] (IStr [103; 0]) INil)) INil)))).

Lemma valid_nonvacuous_strings :
  valid ex_str_ty ex_str_init = true /\
  option_map (fun r => length (snd r)) (model ex_str_ty ex_str_init) = Some 20 /\
  valid (TArray None (TScalar 1)) (IStr [104; 105; 0]) = true /\
  option_map fst (model (TArray None (TScalar 1)) (IStr [104; 105; 0])) = Some (TArray (Some 3) (TScalar 1)).
Proof. vm_compute. repeat split. Qed.

(* struct { union { struct { int x, y; } s; long l; } u; int c; } v = { .u.s.x = 1, .u.l = 2, .u.s.y = 3 };
   the initializer for u.l overrides the one for the overlapping u.s.x (p19); when u.s becomes the initialized member
   again, x is zero (gcc, clang: 0 3).  parse.c finds the stale 1 in the children of u.s: 1 3.  Same root as the
   braced override: an overridden subobject is never reset. *)
Definition ex_switch_ty : ty := TStruct [TUnion [TStruct [TScalar 0; TScalar 0]; TScalar 2]; TScalar 0].
Definition ex_switch_init : init :=
  IList (ICons [DField 0; DField 0; DField 0] (IExpr 1) (ICons [DField 0; DField 1] (IExpr 2)
        (ICons [DField 0; DField 0; DField 1] (IExpr 3) INil))).

Lemma union_switch_refuted :
  exists T v, wf_top T = true /\ top_ok T v = true /\ ok_init T [] v = true /\ clean T (spec_events T v) = false /\
              model T v <> Some (spec T v).
Proof.
  exists ex_switch_ty, ex_switch_init. repeat split; try (vm_compute; reflexivity). vm_compute. discriminate.
Qed.

(* int a[][2] = { [1 ... 2] = { 1, 2 }, 3 };   4 elements: zeros, {1,2}, {1,2}, {3,0} *)
Definition ex_rng_ty : ty := TArray None (TArray (Some 2) (TScalar 0)).
Definition ex_rng_init : init :=
  IList (ICons [DRange 1 2] (IList (ICons [] (IExpr 1) (ICons [] (IExpr 2) INil))) (ICons [] (IExpr 3) INil)).
Lemma valid_nonvacuous_range :
  valid ex_rng_ty ex_rng_init = true /\
  model ex_rng_ty ex_rng_init
  = Some (TArray (Some 4) (TArray (Some 2) (TScalar 0)),
          [([0; 0], None); ([0; 1], None); ([1; 0], Some (VExpr 1)); ([1; 1], Some (VExpr 2));
           ([2; 0], Some (VExpr 1)); ([2; 1], Some (VExpr 2)); ([3; 0], Some (VExpr 3)); ([3; 1], None)]).
Proof. vm_compute. split; reflexivity. Qed.
