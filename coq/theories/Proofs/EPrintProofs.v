(* The -E printer (Model/EPrint.v) against the tokenizer (Model/Lexer.v).

   1. [first_token_cut]: the heart.  If the tokenizer, standing in front of p ++ r1, cuts a token
      that lies inside p, then it cuts the same token in front of p ++ sep :: r2, whatever r2 is:
      replacing the text behind p by a space or a new-line never changes a token that ended inside
      p (maximal munch can only be stopped earlier by a separator, never made longer).  All kinds:
      identifiers, pp-numbers (with their e+ E- p+ P- pairs), punctuators (table regenerated from
      tokenize.c), string and character literals with every prefix.
   2. [eprint_relex]: for every token list whose tokens are what the tokenizer cut from the texts
      they came from ([printable]), tokenizing the printed text gives back exactly the tokens -
      kinds, spellings, and the flags [relex] predicts.
   3. Corollaries: the Spec/EPrintSpec.v statement (same preprocessing tokens; no `#` at the start
      of a line unless the list begins with one - and that exception is real: [leading_hash_refuted]),
      and idempotence of print-after-read. *)
From Chibicc Require Import Base.Mach Model.Lexer Gen.PunctTable Proofs.LexerProofs Model.Phases Model.EPrint Spec.EPrintSpec.
Local Open Scope N_scope.

(* ---------- unfolding equations (cbn on the fuelled scanners unfolds too much) ---------- *)
Lemma scan_num_cons2 c0 c1 r :
  scan_num (c0 :: c1 :: r) = if is_exp c0 && is_sign c1 then S (S (scan_num r))
                             else if num_char c0 then S (scan_num (c1 :: r)) else 0%nat.
Proof. reflexivity. Qed.
Lemma scan_num_one c0 : scan_num [c0] = if num_char c0 then 1%nat else 0%nat.
Proof. reflexivity. Qed.

Lemma scan_num_sep c r : is_sep c = true -> scan_num (c :: r) = 0%nat.
Proof.
  intros Hc. destruct (sep_facts c Hc) as [_ [E2 [_ [E4 _]]]].
  destruct r as [|d r]; [rewrite scan_num_one|rewrite scan_num_cons2]; rewrite ?E4, ?E2; reflexivity.
Qed.

Lemma scan_num_digit d r : is_digit d = true -> (1 <= scan_num (d :: r))%nat.
Proof.
  intros Hd. assert (Hn : num_char d = true) by (unfold num_char, is_alnum; rewrite Hd; reflexivity).
  destruct r as [|e r]; [rewrite scan_num_one|rewrite scan_num_cons2]; rewrite ?Hn.
  - lia.
  - destruct (is_exp d && is_sign e); lia.
Qed.

(* ---------- the scanners: a result inside the common prefix survives the cut ---------- *)
Lemma scan_ident2_cut : forall p r1 c r2 n, is_sep c = true ->
  scan_ident2 (p ++ r1) = n -> (n <= length p)%nat -> scan_ident2 (p ++ c :: r2) = n.
Proof.
  induction p as [|y p IH]; intros r1 c r2 n Hc H Hn; cbn [app scan_ident2 length] in *.
  - destruct (sep_facts c Hc) as [E _]. rewrite E. lia.
  - destruct (is_ident2 y); [|exact H]. destruct n as [|n]; [discriminate|]. injection H as H. f_equal.
    apply (IH r1 c r2 n Hc H). lia.
Qed.

Lemma scan_num_cut : forall k p r1 c r2 n, (length p <= k)%nat -> is_sep c = true ->
  scan_num (p ++ r1) = n -> (n <= length p)%nat -> scan_num (p ++ c :: r2) = n.
Proof.
  induction k as [|k IH]; intros p r1 c r2 n Hk Hc H Hn.
  - destruct p as [|y p]; [|cbn in Hk; lia]. cbn [app length] in *. rewrite (scan_num_sep c r2 Hc). lia.
  - destruct p as [|y p].
    + cbn [app length] in *. rewrite (scan_num_sep c r2 Hc). lia.
    + destruct p as [|z p].
      * (* the last byte of the common prefix *)
        cbn [app length] in *. rewrite scan_num_cons2, (scan_num_sep c r2 Hc).
        destruct (sep_facts c Hc) as [_ [_ [S2 _]]]. rewrite S2, andb_false_r.
        destruct r1 as [|c1 r1].
        -- rewrite scan_num_one in H. exact H.
        -- rewrite scan_num_cons2 in H. destruct (is_exp y && is_sign c1); [lia|].
           destruct (num_char y); [lia|exact H].
      * cbn [app length] in *. rewrite scan_num_cons2 in *.
        destruct (is_exp y && is_sign z).
        -- destruct n as [|[|n]]; try discriminate. injection H as H. do 2 f_equal.
           apply (IH p r1 c r2 n); auto; lia.
        -- destruct (num_char y); [|exact H]. destruct n as [|n]; [discriminate|]. injection H as H. f_equal.
           apply (IH (z :: p) r1 c r2 n); auto; cbn [length]; lia.
Qed.

(* ---------- fixed strings (comment openers, literal prefixes, table entries) ---------- *)
Definition nosep (pre : list N) : bool := forallb (fun b => negb (is_sep b)) pre.

Lemma sw_cut pre p r1 c r2 : is_sep c = true -> nosep pre = true ->
  (starts_with (p ++ r1) pre = true -> (length pre <= length p)%nat) ->
  starts_with (p ++ c :: r2) pre = starts_with (p ++ r1) pre.
Proof.
  intros Hc Hp Hl. destruct (starts_with (p ++ r1) pre) eqn:A.
  - specialize (Hl eq_refl). rewrite starts_with_app in A |- * by exact Hl. exact A.
  - destruct (starts_with (p ++ c :: r2) pre) eqn:B; [|reflexivity].
    pose proof (starts_with_sep pre p c r2 Hc Hp B) as L. rewrite starts_with_app in A, B by exact L. congruence.
Qed.

(* a fixed string that is absent in front of p ++ r1 is absent in front of p ++ sep :: r2 *)
Lemma sw_cut_false pre p r1 c r2 : is_sep c = true -> nosep pre = true ->
  starts_with (p ++ r1) pre = false -> starts_with (p ++ c :: r2) pre = false.
Proof. intros Hc Hp A. rewrite (sw_cut pre p r1 c r2 Hc Hp); [exact A|]. rewrite A. discriminate. Qed.

Lemma str_prefix_cut p r1 c r2 : is_sep c = true ->
  (forall k, str_prefix (p ++ r1) = Some k -> (S k <= length p)%nat) ->
  str_prefix (p ++ c :: r2) = str_prefix (p ++ r1).
Proof.
  intros Hc Hk. unfold str_prefix in *.
  assert (E1 : starts_with (p ++ c :: r2) [34] = starts_with (p ++ r1) [34]).
  { apply sw_cut; auto. intros A. rewrite A in Hk. exact (Hk _ eq_refl). }
  rewrite E1. destruct (starts_with (p ++ r1) [34]); [reflexivity|].
  assert (E2 : starts_with (p ++ c :: r2) [117; 56; 34] = starts_with (p ++ r1) [117; 56; 34]).
  { apply sw_cut; auto. intros A. rewrite A in Hk. exact (Hk _ eq_refl). }
  rewrite E2. destruct (starts_with (p ++ r1) [117; 56; 34]); [reflexivity|].
  assert (E3 : starts_with (p ++ c :: r2) [117; 34] = starts_with (p ++ r1) [117; 34]).
  { apply sw_cut; auto. intros A. rewrite A in Hk. exact (Hk _ eq_refl). }
  assert (E4 : starts_with (p ++ c :: r2) [76; 34] = starts_with (p ++ r1) [76; 34]).
  { apply sw_cut; auto. intros A. rewrite A, orb_true_r in Hk. exact (Hk _ eq_refl). }
  assert (E5 : starts_with (p ++ c :: r2) [85; 34] = starts_with (p ++ r1) [85; 34]).
  { apply sw_cut; auto. intros A. rewrite A, orb_true_r in Hk. exact (Hk _ eq_refl). }
  rewrite E3, E4, E5. reflexivity.
Qed.

Lemma chr_prefix_cut p r1 c r2 : is_sep c = true ->
  (forall k, chr_prefix (p ++ r1) = Some k -> (S k <= length p)%nat) ->
  chr_prefix (p ++ c :: r2) = chr_prefix (p ++ r1).
Proof.
  intros Hc Hk. unfold chr_prefix in *.
  assert (E1 : starts_with (p ++ c :: r2) [39] = starts_with (p ++ r1) [39]).
  { apply sw_cut; auto. intros A. rewrite A in Hk. exact (Hk _ eq_refl). }
  rewrite E1. destruct (starts_with (p ++ r1) [39]); [reflexivity|].
  assert (E3 : starts_with (p ++ c :: r2) [117; 39] = starts_with (p ++ r1) [117; 39]).
  { apply sw_cut; auto. intros A. rewrite A in Hk. exact (Hk _ eq_refl). }
  assert (E4 : starts_with (p ++ c :: r2) [76; 39] = starts_with (p ++ r1) [76; 39]).
  { apply sw_cut; auto. intros A. rewrite A, orb_true_r in Hk. exact (Hk _ eq_refl). }
  assert (E5 : starts_with (p ++ c :: r2) [85; 39] = starts_with (p ++ r1) [85; 39]).
  { apply sw_cut; auto. intros A. rewrite A, orb_true_r in Hk. exact (Hk _ eq_refl). }
  rewrite E3, E4, E5. reflexivity.
Qed.

Section Cut.
Variable tbl : list (list N).
Hypothesis tbl_nosep : forallb nosep tbl = true.

Lemma first_match_cut : forall t p r1 c r2, forallb nosep t = true -> is_sep c = true ->
  (forall kw, first_match (p ++ r1) t = Some kw -> (length kw <= length p)%nat) ->
  first_match (p ++ c :: r2) t = first_match (p ++ r1) t.
Proof.
  induction t as [|kw t IH]; intros p r1 c r2 Ht Hc Hb; cbn [first_match] in *; [reflexivity|].
  cbn [forallb] in Ht. apply andb_true_iff in Ht as [Hkw Ht].
  assert (E : starts_with (p ++ c :: r2) kw = starts_with (p ++ r1) kw).
  { apply sw_cut; auto. intros A. rewrite A in Hb. exact (Hb _ eq_refl). }
  rewrite E. destruct (starts_with (p ++ r1) kw); [reflexivity|]. apply IH; auto.
Qed.

Lemma read_punct_cut p r1 c r2 : p <> [] -> is_sep c = true ->
  (read_punct tbl (p ++ r1) <= length p)%nat ->
  read_punct tbl (p ++ c :: r2) = read_punct tbl (p ++ r1).
Proof.
  intros Hp Hc Hb. unfold read_punct in *.
  rewrite (first_match_cut tbl p r1 c r2 tbl_nosep Hc).
  - destruct p; [congruence|]. reflexivity.
  - intros kw E. rewrite E in Hb. exact Hb.
Qed.

Lemma first_token_pos s k n : first_token tbl s = Some (k, n) -> (1 <= n)%nat.
Proof.
  unfold first_token. destruct s as [|c r]; [discriminate|].
  destruct (is_digit c || _); [intros H; inversion H; lia|].
  destruct (str_prefix (c :: r)) as [k'|].
  { destruct (string_end _); intros H; inversion H; lia. }
  destruct (chr_prefix (c :: r)) as [k'|].
  { destruct (char_body _); intros H; inversion H; lia. }
  destruct (read_ident (c :: r)); [|intros H; inversion H; lia].
  destruct (read_punct tbl (c :: r)); intros H; inversion H; lia.
Qed.

(* THE cut lemma *)
Theorem first_token_cut p r1 c r2 k n : is_sep c = true ->
  first_token tbl (p ++ r1) = Some (k, n) -> (n <= length p)%nat ->
  first_token tbl (p ++ c :: r2) = Some (k, n).
Proof.
  intros Hc H Hn. pose proof (first_token_pos _ _ _ H) as Hpos.
  destruct p as [|y x]; [cbn [length] in Hn; lia|].
  unfold first_token in *. cbn [app length] in *.
  (* the test for the start of a number looks at one byte after y *)
  assert (Hd : (is_digit y || (y =? 46) && match x ++ c :: r2 with d :: _ => is_digit d | [] => false end)
             = (is_digit y || (y =? 46) && match x ++ r1 with d :: _ => is_digit d | [] => false end)).
  { destruct (is_digit y); [reflexivity|]. cbn [orb] in *. destruct x as [|z x]; [|reflexivity].
    cbn [app] in *. destruct (sep_facts c Hc) as [_ [_ [_ [_ [_ [D2 _]]]]]]. rewrite D2, andb_false_r.
    destruct ((y =? 46) && match r1 with d :: _ => is_digit d | [] => false end) eqn:T; [|reflexivity].
    exfalso. apply andb_true_iff in T as [_ T]. destruct r1 as [|d r1]; [discriminate|].
    pose proof (scan_num_digit d r1 T) as L. remember (scan_num (d :: r1)) as q eqn:Eq_. clear Eq_.
    injection H as _ Hm. cbn [length] in Hn. lia. }
  rewrite Hd. destruct (is_digit y || (y =? 46) && _) eqn:Enum.
  - inversion H; subst. do 3 f_equal. apply (scan_num_cut (length x) x r1 c r2); auto. lia.
  - change (y :: x ++ r1) with ((y :: x) ++ r1) in *. change (y :: x ++ c :: r2) with ((y :: x) ++ c :: r2).
    destruct (str_prefix ((y :: x) ++ r1)) as [k'|] eqn:Ep.
    + destruct (string_end (skipn (S k') ((y :: x) ++ r1))) as [m|] eqn:Ee; [|discriminate].
      inversion H; subst.
      rewrite (str_prefix_cut (y :: x) r1 c r2 Hc), Ep by (intros k0 E0; rewrite Ep in E0; inversion E0; subst; cbn [length]; lia).
      rewrite skipn_app_le in Ee |- * by (cbn [length]; lia).
      assert (Hlen : length (skipn (S k') (y :: x)) = (length (y :: x) - S k')%nat) by apply skipn_length.
      cbn [length] in Hlen.
      rewrite (string_end_stable (length (skipn (S k') (y :: x))) _ r1 (c :: r2) m (le_n _) Ee) by lia. reflexivity.
    + rewrite (str_prefix_cut (y :: x) r1 c r2 Hc), Ep by (intros k0 E0; rewrite Ep in E0; discriminate).
      destruct (chr_prefix ((y :: x) ++ r1)) as [k'|] eqn:Eq.
      * destruct (char_body (skipn (S k') ((y :: x) ++ r1))) as [m|] eqn:Ee; [|discriminate].
        inversion H; subst.
        rewrite (chr_prefix_cut (y :: x) r1 c r2 Hc), Eq by (intros k0 E0; rewrite Eq in E0; inversion E0; subst; cbn [length]; lia).
        rewrite skipn_app_le in Ee |- * by (cbn [length]; lia).
        assert (Hlen : length (skipn (S k') (y :: x)) = (length (y :: x) - S k')%nat) by apply skipn_length.
        cbn [length] in Hlen.
        rewrite (char_body_stable _ r1 (c :: r2) m Ee) by lia. reflexivity.
      * rewrite (chr_prefix_cut (y :: x) r1 c r2 Hc), Eq by (intros k0 E0; rewrite Eq in E0; discriminate).
        cbn [app read_ident] in *. destruct (is_ident1 y) eqn:Ei.
        -- inversion H; subst. do 3 f_equal. apply (scan_ident2_cut x r1 c r2); auto. lia.
        -- change (y :: x ++ r1) with ((y :: x) ++ r1) in *. change (y :: x ++ c :: r2) with ((y :: x) ++ c :: r2).
           rewrite (read_punct_cut (y :: x) r1 c r2); auto; [discriminate|].
           destruct (read_punct tbl ((y :: x) ++ r1)); [discriminate|]. inversion H; subst. exact Hn.
Qed.
End Cut.

(* ---------- white space never starts a token ---------- *)
Definition no_space_head (kw : list N) : bool := match kw with d :: _ => negb (is_space d) | [] => false end.

Lemma space_facts c : is_space c = true ->
  is_digit c = false /\ (c =? 46) = false /\ (34 =? c) = false /\ (117 =? c) = false /\ (76 =? c) = false /\
  (85 =? c) = false /\ (39 =? c) = false /\ is_ident1 c = false /\ is_punct c = false.
Proof.
  intros H. assert (E : c = 9 \/ c = 10 \/ c = 11 \/ c = 12 \/ c = 13 \/ c = 32) by (unfold is_space in H; lia).
  destruct E as [E|[E|[E|[E|[E|E]]]]]; subst c; vm_compute; repeat split; reflexivity.
Qed.

Lemma first_match_space : forall t c r, is_space c = true -> forallb no_space_head t = true ->
  first_match (c :: r) t = None.
Proof.
  induction t as [|kw t IH]; intros c r Hc Ht; cbn [first_match]; [reflexivity|].
  cbn [forallb] in Ht. apply andb_true_iff in Ht as [Hk Ht].
  destruct kw as [|d kw]; [discriminate|]. cbn [starts_with no_space_head] in *.
  destruct (d =? c) eqn:E.
  - apply N.eqb_eq in E. subst d. rewrite Hc in Hk. discriminate.
  - cbn [andb]. apply IH; assumption.
Qed.

Section Relex.
Variable tbl : list (list N).
Hypothesis tbl_nosep : forallb nosep tbl = true.
Hypothesis tbl_nospace : forallb no_space_head tbl = true.

Lemma first_token_space c r : is_space c = true -> first_token tbl (c :: r) = None.
Proof.
  intros Hc. destruct (space_facts c Hc) as [D [P [Q1 [Q2 [Q3 [Q4 [Q5 [I U]]]]]]]].
  unfold first_token. rewrite D, P. cbn [orb andb].
  unfold str_prefix, chr_prefix. cbn [starts_with]. rewrite Q1, Q2, Q3, Q4, Q5. cbn [andb orb].
  cbn [read_ident]. rewrite I. unfold read_punct. rewrite (first_match_space tbl c r Hc tbl_nospace), U. reflexivity.
Qed.

(* ---------- the hypothesis of the round trip, in terms of the source text ---------- *)
(* [a] is the token of kind [k] that tokenize() cuts when it stands in front of [a ++ ctx]:
   no comment opens there, and the scanners stop exactly behind [a] *)
Definition lexed_in (k : tkind) (a ctx : list N) : Prop :=
  first_token tbl (a ++ ctx) = Some (k, length a) /\
  starts_with (a ++ ctx) [47; 47] = false /\ starts_with (a ++ ctx) [47; 42] = false.

(* Every token was cut by the tokenizer from SOME text in which it was followed by the spellings
   of the tokens that are glued to it (adjacent, no has_space, not starting a line) and then by
   anything ([src]: the rest of that source text, different for every token).  This is what
   tokenize() guarantees for tokens whose `adjacent` test succeeds: they lie side by side in one
   buffer that one tokenizer run cut into exactly these tokens.  A token made by the preprocessor
   (pasted, stringized, __LINE__ ...) is alone in its buffer: nothing glued, src = []. *)
Fixpoint printable (ts : list etok) : Prop :=
  match ts with
  | [] => True
  | t :: r => (exists src, lexed_in (e_kind t) (e_text t) (glue_text r ++ src)) /\ printable r
  end.

Lemma kind_match_eq k k' :
  match k, k' with
  | LIdent, LIdent | LPunct, LPunct | LNum, LNum | LStr, LStr | LChr, LChr => true
  | _, _ => false end = true <-> k = k'.
Proof. destruct k, k'; split; intros H; try reflexivity; try discriminate. Qed.

Lemma lexed_in_b_iff k a ctx : lexed_in_b tbl k a ctx = true <-> lexed_in k a ctx.
Proof.
  unfold lexed_in_b, lexed_in. split.
  - intros H. apply andb_true_iff in H as [H H3]. apply andb_true_iff in H as [H1 H2].
    apply negb_true_iff in H1. apply negb_true_iff in H2.
    destruct (first_token tbl (a ++ ctx)) as [[k' n]|]; [|discriminate].
    apply andb_true_iff in H3 as [Hk Hn]. apply kind_match_eq in Hk. apply Nat.eqb_eq in Hn. subst. auto.
  - intros [H1 [H2 H3]]. rewrite H1, H2, H3. cbn [negb andb].
    apply andb_true_iff. split; [apply kind_match_eq; reflexivity|apply Nat.eqb_eq; reflexivity].
Qed.

(* cutting the source behind the glued spellings and putting a separator there changes nothing *)
Lemma lexed_in_cut k a g src c r2 : is_sep c = true ->
  lexed_in k a (g ++ src) -> lexed_in k a (g ++ c :: r2).
Proof.
  unfold lexed_in. intros Hc [H1 [H2 H3]]. rewrite app_assoc in *.
  repeat split.
  - apply (first_token_cut tbl tbl_nosep (a ++ g) src c r2 k (length a) Hc H1). rewrite app_length. lia.
  - apply (sw_cut_false [47; 47] (a ++ g) src c r2 Hc eq_refl H2).
  - apply (sw_cut_false [47; 42] (a ++ g) src c r2 Hc eq_refl H3).
Qed.

(* the hypothesis is decidable: it is enough to try the new-line as the rest of the source *)
Theorem printable_iff : forall ts, printable ts <-> printable_b tbl ts = true.
Proof.
  induction ts as [|t r IH]; cbn [printable printable_b]; [split; auto|].
  rewrite andb_true_iff, lexed_in_b_iff, <- IH. split.
  - intros [[src H] Hr]. split; [|exact Hr]. exact (lexed_in_cut _ _ _ src 10 [] eq_refl H).
  - intros [H Hr]. split; [exists [10]; exact H|exact Hr].
Qed.

(* ---------- the printed text: glued spellings, then a separator ---------- *)
Lemma glued_no_sep pb t : glued t = true -> sep_before false pb t = [].
Proof.
  unfold glued, sep_before, starts_line, wants_space.
  destruct (e_adj t), (e_space t), (e_bol t), (is_hash (e_text t)); cbn; intros H; try discriminate; reflexivity.
Qed.
Lemma not_glued_sep pb t : glued t = false -> exists c more, is_sep c = true /\ sep_before false pb t = c :: more.
Proof.
  unfold glued, sep_before, starts_line, wants_space, newline.
  destruct (e_adj t), (e_space t), (e_bol t), (is_hash (e_text t)), pb; cbn; intros H; try discriminate;
    eexists _, _; (split; [|reflexivity]); reflexivity.
Qed.

Lemma eprint_from_split : forall r pb, exists c more, is_sep c = true /\ eprint_from false pb r = glue_text r ++ c :: more.
Proof.
  induction r as [|t r IH]; intros pb; cbn [eprint_from glue_text].
  - unfold newline. destruct pb; eexists _, _; (split; [|reflexivity]); reflexivity.
  - destruct (glued t) eqn:G.
    + destruct (IH (is_bslash (e_text t))) as [c [more [Hc E]]]. exists c, more. split; [exact Hc|].
      rewrite (glued_no_sep pb t G), E. cbn [app]. rewrite app_assoc. reflexivity.
    + destruct (not_glued_sep pb t G) as [c [more [Hc E]]]. rewrite E. exists c. eexists. split; [exact Hc|]. reflexivity.
Qed.

(* ---------- steps of the tokenizer ---------- *)
Lemma lex_nl f r bol sp : lex tbl (S f) (10 :: r) bol sp = lex tbl f r true false.
Proof. reflexivity. Qed.
Lemma lex_sp f r bol sp : lex tbl (S f) (32 :: r) bol sp = lex tbl f r bol true.
Proof. reflexivity. Qed.
Lemma lex_cons f c r bol sp : lex tbl (S f) (c :: r) bol sp =
  if starts_with (c :: r) [47; 47] then lex tbl f (skip_to_newline r) bol true
  else if starts_with (c :: r) [47; 42] then
    match skip_block_comment (skipn 2 (c :: r)) with Some r' => lex tbl f r' bol true | None => LexErr end
  else if c =? 10 then lex tbl f r true false
  else if is_space c then lex tbl f r bol true
  else match first_token tbl (c :: r) with
       | Some (k, n) => match lex tbl f (skipn n (c :: r)) false false with
                        | LexOk l => LexOk (mk k (c :: r) n sp bol :: l) | LexErr => LexErr end
       | None => LexErr
       end.
Proof. reflexivity. Qed.

Lemma lex_token_step f a rest k bol sp l : lexed_in k a rest -> lex tbl f rest false false = LexOk l ->
  lex tbl (S f) (a ++ rest) bol sp = LexOk ({| t_kind := k; t_text := a; t_space := sp; t_bol := bol |} :: l).
Proof.
  intros [H1 [H2 H3]] Hl. pose proof (first_token_pos tbl _ _ _ H1) as Hpos.
  destruct a as [|c a]; [cbn [length] in Hpos; lia|].
  assert (Hs : is_space c = false).
  { destruct (is_space c) eqn:E; [|reflexivity]. cbn [app] in H1. rewrite (first_token_space c _ E) in H1. discriminate. }
  assert (Hn : (c =? 10) = false).
  { destruct (c =? 10) eqn:E; [|reflexivity]. apply N.eqb_eq in E. subst c. discriminate. }
  change ((c :: a) ++ rest) with (c :: a ++ rest) in *. rewrite lex_cons, H2, H3, Hn, Hs, H1.
  change (c :: a ++ rest) with ((c :: a) ++ rest). rewrite skipn_app_exact, Hl.
  unfold mk. rewrite firstn_app_exact. reflexivity.
Qed.

Lemma lex_newline pb f r bol sp : lex tbl (length (newline pb) + f) (newline pb ++ r) bol sp = lex tbl f r true false.
Proof. destruct pb; reflexivity. Qed.
Lemma lex_newline_end pb f bol sp : lex tbl (length (newline pb) + f) (newline pb) bol sp = LexOk [].
Proof. destruct pb, f; reflexivity. Qed.

Lemma eprint_from_length first pb ts : (1 <= length (eprint_from first pb ts))%nat.
Proof.
  revert first pb; induction ts as [|t r IH]; intros first pb; cbn [eprint_from]; rewrite ?app_length.
  - destruct pb; cbn; lia.
  - specialize (IH false (is_bslash (e_text t))). lia.
Qed.

Lemma printable_head t r pb : printable (t :: r) -> lexed_in (e_kind t) (e_text t) (eprint_from false pb r).
Proof.
  intros [[src Hsrc] _]. destruct (eprint_from_split r pb) as [c [more [Hc E]]].
  rewrite E. exact (lexed_in_cut _ _ _ src c more Hc Hsrc).
Qed.

(* ---------- the round trip ---------- *)
Lemma relex_from_ok : forall ts first pb sp0 f, printable ts -> (length (eprint_from first pb ts) < f)%nat ->
  lex tbl f (eprint_from first pb ts) first sp0 = LexOk (relex_from first sp0 ts).
Proof.
  induction ts as [|t r IH]; intros first pb sp0 f Hp Hf.
  - cbn [eprint_from relex_from] in *.
    assert (Hx : exists f', f = (length (newline pb) + f')%nat) by (exists (f - length (newline pb))%nat; lia).
    destruct Hx as [f' ->]. apply lex_newline_end.
  - pose proof (printable_head t r (is_bslash (e_text t)) Hp) as L. destruct Hp as [_ Hr].
    cbn [eprint_from relex_from] in *.
    pose proof (first_token_pos tbl _ _ _ (proj1 L)) as Hpos.
    pose proof (eprint_from_length false (is_bslash (e_text t)) r) as Hrest.
    unfold sep_before, relex_tok in *. destruct (starts_line first t) eqn:SL.
    + (* a new-line (behind a space if the previous token is a backslash), then the token *)
      assert (Hfirst : first = false) by (unfold starts_line in SL; destruct first; [discriminate|reflexivity]).
      rewrite !app_length in Hf.
      assert (Hx : exists f', f = (length (newline pb) + S f')%nat /\
                              (length (eprint_from false (is_bslash (e_text t)) r) < f')%nat).
      { exists (f - length (newline pb) - 1)%nat. lia. }
      destruct Hx as [f' [-> Hf']]. rewrite lex_newline.
      rewrite (lex_token_step f' _ _ _ true false (relex_from false false r) L); [reflexivity|].
      apply IH; [exact Hr|exact Hf'].
    + destruct (wants_space first t) eqn:WS.
      * cbn [app] in *. cbn [length] in Hf. rewrite app_length in Hf.
        destruct f as [|[|f]]; try lia. rewrite lex_sp.
        rewrite (lex_token_step f _ _ _ first true (relex_from false false r) L); [rewrite orb_true_r; reflexivity|].
        apply IH; [exact Hr|lia].
      * cbn [app] in *. rewrite app_length in Hf.
        destruct f as [|f]; try lia.
        rewrite (lex_token_step f _ _ _ first sp0 (relex_from false false r) L); [rewrite orb_false_r; reflexivity|].
        apply IH; [exact Hr|lia].
Qed.

Theorem eprint_relex : forall ts, printable ts -> tokenize tbl (eprint ts) = LexOk (relex ts).
Proof.
  intros ts Hp. unfold tokenize, eprint, relex. destruct (bom_guard ts).
  - cbn [app length]. rewrite lex_sp. apply relex_from_ok; [exact Hp|lia].
  - cbn [app]. apply relex_from_ok; [exact Hp|lia].
Qed.
End Relex.

(* ---------- every token list that ONE tokenizer run produces is printable ---------- *)
Lemma scan_ident2_le : forall p, (scan_ident2 p <= length p)%nat.
Proof. induction p as [|c p IH]; cbn [scan_ident2 length]; [lia|]. destruct (is_ident2 c); lia. Qed.

Lemma scan_num_le : forall k p, (length p <= k)%nat -> (scan_num p <= length p)%nat.
Proof.
  induction k as [|k IH]; intros p Hk.
  - destruct p; [cbn; lia|cbn in Hk; lia].
  - destruct p as [|c0 [|c1 r]]; [cbn; lia| |].
    + rewrite scan_num_one. destruct (num_char c0); cbn [length]; lia.
    + rewrite scan_num_cons2. cbn [length] in *.
      destruct (is_exp c0 && is_sign c1).
      * specialize (IH r). lia.
      * destruct (num_char c0); [|lia]. specialize (IH (c1 :: r)). cbn [length] in IH. lia.
Qed.

Lemma find_quote_lt : forall p n, find_quote p = Some n -> (n < length p)%nat.
Proof.
  induction p as [|c p IH]; intros n H; cbn [find_quote length] in *; [discriminate|].
  destruct (c =? 39); [inversion H; lia|]. destruct (find_quote p) as [m|]; [|discriminate].
  cbn in H. inversion H. specialize (IH m eq_refl). lia.
Qed.

Lemma string_end_lt : forall k p n, (length p <= k)%nat -> string_end p = Some n -> (n < length p)%nat.
Proof.
  induction k as [|k IH]; intros p n Hk H.
  - destruct p; [discriminate|cbn in Hk; lia].
  - destruct p as [|c r]; [discriminate|]. cbn [string_end length] in *.
    destruct (c =? 34); [inversion H; lia|]. destruct (c =? 10); [discriminate|].
    destruct (c =? 92).
    + destruct r as [|d r']; [discriminate|]. destruct (string_end r') as [m|] eqn:E; [|discriminate].
      cbn in H. inversion H. cbn [length] in *. specialize (IH r' m). lia.
    + destruct (string_end r) as [m|] eqn:E; [|discriminate]. cbn in H. inversion H. specialize (IH r m). lia.
Qed.

Lemma char_body_le p n : char_body p = Some n -> (n <= length p)%nat.
Proof.
  unfold char_body. destruct p as [|c r]; [discriminate|]. cbn [length]. destruct (c =? 92).
  - destruct r as [|d r']; [discriminate|]. destruct (find_quote r') as [m|] eqn:E; [|discriminate].
    cbn. intros H. inversion H. apply find_quote_lt in E. cbn [length]. lia.
  - destruct (find_quote r) as [m|] eqn:E; [|discriminate]. cbn. intros H. inversion H. apply find_quote_lt in E. lia.
Qed.

Lemma starts_with_length : forall pre p, starts_with p pre = true -> (length pre <= length p)%nat.
Proof.
  induction pre as [|a pre IH]; intros p H; [cbn; lia|]. destruct p as [|b p]; [discriminate|].
  cbn [starts_with length] in *. apply andb_true_iff in H as [_ H]. specialize (IH p H). lia.
Qed.

Lemma first_match_length : forall t p kw, first_match p t = Some kw -> (length kw <= length p)%nat.
Proof.
  induction t as [|k t IH]; intros p kw H; cbn [first_match] in H; [discriminate|].
  destruct (starts_with p k) eqn:E; [inversion H; subst; exact (starts_with_length _ _ E)|exact (IH p kw H)].
Qed.

Section Lexed.
Variable tbl : list (list N).

Lemma first_token_le p k n : first_token tbl p = Some (k, n) -> (n <= length p)%nat.
Proof.
  unfold first_token. destruct p as [|c r]; [discriminate|].
  destruct (is_digit c || _).
  { intros H. inversion H. pose proof (scan_num_le (length r) r (le_n _)). cbn [length]. lia. }
  destruct (str_prefix (c :: r)) as [k'|].
  { destruct (string_end (skipn (S k') (c :: r))) as [m|] eqn:E; [|discriminate]. intros H. inversion H.
    apply (string_end_lt _ _ _ (le_n _)) in E. rewrite skipn_length in E. lia. }
  destruct (chr_prefix (c :: r)) as [k'|].
  { destruct (char_body (skipn (S k') (c :: r))) as [m|] eqn:E; [|discriminate]. intros H. inversion H.
    assert (Hs : skipn (S k') (c :: r) <> []) by (intros Z; rewrite Z in E; discriminate).
    apply char_body_le in E. rewrite skipn_length in E.
    assert (S k' < length (c :: r))%nat; [|lia].
    destruct (Nat.lt_ge_cases (S k') (length (c :: r))) as [L|L]; [exact L|]. exfalso. apply Hs. apply skipn_all2. exact L. }
  cbn [read_ident]. destruct (is_ident1 c).
  { intros H. inversion H. pose proof (scan_ident2_le r). cbn [length]. lia. }
  unfold read_punct. destruct (first_match (c :: r) tbl) as [kw|] eqn:E.
  - apply first_match_length in E. destruct (length kw); [discriminate|]. intros H. inversion H. subst. exact E.
  - destruct (is_punct c); [|discriminate]. intros H. inversion H. cbn [length]. lia.
Qed.

(* a token read after white space, a comment or a new-line carries one of the two flags *)
Lemma lex_first_flags : forall f p bol sp t l, lex tbl f p bol sp = LexOk (t :: l) ->
  bol || sp = true -> t_bol t || t_space t = true.
Proof.
  induction f as [|f IH]; intros p bol sp t l H Hb.
  - cbn [lex] in H. destruct p; discriminate.
  - destruct p as [|c r]; [discriminate|]. rewrite lex_cons in H.
    destruct (starts_with (c :: r) [47; 47]). { apply (IH _ _ _ _ _ H). apply orb_true_r. }
    destruct (starts_with (c :: r) [47; 42]).
    { destruct (skip_block_comment _); [|discriminate]. apply (IH _ _ _ _ _ H). apply orb_true_r. }
    destruct (c =? 10). { apply (IH _ _ _ _ _ H). reflexivity. }
    destruct (is_space c). { apply (IH _ _ _ _ _ H). apply orb_true_r. }
    destruct (first_token tbl (c :: r)) as [[k n]|]; [|discriminate].
    destruct (lex tbl f _ false false); [|discriminate]. inversion H; subst. exact Hb.
Qed.

Lemma flagged_no_glue t l : t_bol t || t_space t = true -> glue_text (of_lexed (t :: l)) = [].
Proof.
  intros H. cbn [of_lexed map glue_text]. unfold glued. cbn [e_adj e_space e_bol e_text].
  destruct (t_bol t), (t_space t); try discriminate; reflexivity.
Qed.

Lemma lex_flagged_no_glue f p bol sp l : lex tbl f p bol sp = LexOk l -> bol || sp = true ->
  glue_text (of_lexed l) = [].
Proof.
  intros H Hb. destruct l as [|t l]; [reflexivity|]. apply flagged_no_glue. exact (lex_first_flags _ _ _ _ _ _ H Hb).
Qed.

(* the text in front of the tokenizer begins with the spellings of the tokens glued to each other *)
Lemma lex_glue_prefix : forall f p bol sp l, lex tbl f p bol sp = LexOk l ->
  exists src, p = glue_text (of_lexed l) ++ src.
Proof.
  induction f as [|f IH]; intros p bol sp l H.
  - cbn [lex] in H. destruct p; [|discriminate]. inversion H. exists []. reflexivity.
  - destruct p as [|c r]; [inversion H; exists []; reflexivity|]. rewrite lex_cons in H.
    destruct (starts_with (c :: r) [47; 47]).
    { rewrite (lex_flagged_no_glue _ _ _ _ _ H (orb_true_r _)). exists (c :: r). reflexivity. }
    destruct (starts_with (c :: r) [47; 42]).
    { destruct (skip_block_comment _); [|discriminate].
      rewrite (lex_flagged_no_glue _ _ _ _ _ H (orb_true_r _)). exists (c :: r). reflexivity. }
    destruct (c =? 10). { rewrite (lex_flagged_no_glue _ _ _ _ _ H eq_refl). exists (c :: r). reflexivity. }
    destruct (is_space c). { rewrite (lex_flagged_no_glue _ _ _ _ _ H (orb_true_r _)). exists (c :: r). reflexivity. }
    destruct (first_token tbl (c :: r)) as [[k n]|]; [|discriminate].
    destruct (lex tbl f (skipn n (c :: r)) false false) as [l'|] eqn:E; [|discriminate]. inversion H; subst.
    cbn [of_lexed map glue_text]. fold (of_lexed l'). destruct (glued _); [|exists (c :: r); reflexivity].
    destruct (IH _ _ _ _ E) as [src Hs]. exists src. cbn [e_text mk t_text]. rewrite <- app_assoc, <- Hs.
    symmetry. apply firstn_skipn.
Qed.

Theorem lex_printable : forall f p bol sp l, lex tbl f p bol sp = LexOk l -> printable tbl (of_lexed l).
Proof.
  induction f as [|f IH]; intros p bol sp l H.
  - cbn [lex] in H. destruct p; [|discriminate]. inversion H. exact I.
  - destruct p as [|c r]; [inversion H; exact I|]. rewrite lex_cons in H.
    destruct (starts_with (c :: r) [47; 47]) eqn:C1. { exact (IH _ _ _ _ H). }
    destruct (starts_with (c :: r) [47; 42]) eqn:C2. { destruct (skip_block_comment _); [|discriminate]. exact (IH _ _ _ _ H). }
    destruct (c =? 10). { exact (IH _ _ _ _ H). }
    destruct (is_space c). { exact (IH _ _ _ _ H). }
    destruct (first_token tbl (c :: r)) as [[k n]|] eqn:Ft; [|discriminate].
    destruct (lex tbl f (skipn n (c :: r)) false false) as [l'|] eqn:E; [|discriminate]. inversion H; subst.
    cbn [of_lexed map printable]. fold (of_lexed l'). split; [|exact (IH _ _ _ _ E)].
    destruct (lex_glue_prefix _ _ _ _ _ E) as [src Hs]. exists src. cbn [e_kind e_text mk t_kind t_text].
    pose proof (first_token_le _ _ _ Ft) as Hn.
    unfold lexed_in. rewrite <- Hs, firstn_skipn, firstn_length_le by exact Hn. auto.
Qed.

Theorem tokenize_printable text l : tokenize tbl text = LexOk l -> printable tbl (of_lexed l).
Proof. apply lex_printable. Qed.
End Lexed.

(* ---------- what the flags of the re-read tokens say ---------- *)
Definition given (ts : list etok) : list pptoken := map (fun t => (e_kind t, e_text t)) ts.

Lemma relex_from_given : forall ts first sp0, map pptoken_of (relex_from first sp0 ts) = given ts.
Proof.
  induction ts as [|t r IH]; intros first sp0; cbn [relex_from map given]; [reflexivity|].
  f_equal; [|apply IH]. unfold relex_tok, pptoken_of. destruct (starts_line first t); reflexivity.
Qed.

Lemma relex_from_false_no_directive : forall ts sp0, no_directive (relex_from false sp0 ts) = true.
Proof.
  induction ts as [|t r IH]; intros sp0; cbn [relex_from no_directive forallb]; [reflexivity|].
  fold (no_directive (relex_from false false r)). rewrite IH, andb_true_r.
  unfold relex_tok, begins_directive. destruct (starts_line false t) eqn:SL; cbn [t_bol t_text andb negb]; [|reflexivity].
  unfold starts_line in SL. apply andb_true_iff in SL as [_ SL]. unfold is_hash in SL. exact SL.
Qed.

(* a `#` stands at the beginning of a line of the printed text iff the list begins with one *)
Theorem relex_no_directive ts : no_directive (relex ts) = negb (leading_hash ts).
Proof.
  unfold relex. destruct ts as [|t r]; [reflexivity|]. cbn [relex_from no_directive forallb leading_hash].
  fold (no_directive (relex_from false false r)). rewrite relex_from_false_no_directive, andb_true_r.
  unfold relex_tok, starts_line, begins_directive. cbn [negb andb t_bol t_text]. reflexivity.
Qed.

(* ---------- printing what was read back prints the same text ---------- *)
Lemma relex_tok_text first sp0 t : t_text (relex_tok first sp0 t) = e_text t.
Proof. unfold relex_tok. destruct (starts_line first t); reflexivity. Qed.
Lemma relex_tok_kind first sp0 t : t_kind (relex_tok first sp0 t) = e_kind t.
Proof. unfold relex_tok. destruct (starts_line first t); reflexivity. Qed.

Lemma eprint_of_relex_from : forall ts pb,
  eprint_from false pb (of_lexed (relex_from false false ts)) = eprint_from false pb ts.
Proof.
  induction ts as [|t r IH]; intros pb; cbn [relex_from of_lexed map eprint_from]; [reflexivity|].
  fold (of_lexed (relex_from false false r)). cbn [e_text]. rewrite relex_tok_text, IH. f_equal.
  unfold relex_tok, sep_before. destruct (starts_line false t) eqn:SL.
  - unfold starts_line in *. cbn [e_bol e_text t_bol t_text t_space t_kind].
    apply andb_true_iff in SL as [_ H]. rewrite H. reflexivity.
  - unfold starts_line, wants_space in *. cbn [e_bol e_text e_space e_adj t_bol t_text t_space t_kind negb andb orb] in *.
    destruct (e_space t), (e_adj t); reflexivity.
Qed.

Theorem eprint_of_relex ts : eprint (of_lexed (relex ts)) = eprint ts.
Proof.
  destruct ts as [|t r]; [reflexivity|].
  unfold eprint, relex. cbn [relex_from of_lexed map eprint_from bom_guard].
  fold (of_lexed (relex_from false false r)). cbn [e_text e_space]. rewrite relex_tok_text, eprint_of_relex_from.
  unfold relex_tok, sep_before, starts_line, wants_space.
  cbn [negb andb orb e_bol e_text e_space e_adj t_bol t_text t_space t_kind].
  destruct (e_space t), (bom_start (e_text t)); reflexivity.
Qed.

(* ---------- the printed text passes phases 1-2 of a reader unchanged ---------- *)
Definition starts_nl (p : list N) : bool := match p with d :: _ => d =? 10 | [] => false end.

Lemma has_bs_nl_spec : forall p, has_bs_nl p = has_splice p.
Proof. induction p as [|c p IH]; cbn [has_bs_nl has_splice]; [reflexivity|]. rewrite IH. reflexivity. Qed.

Lemma has_splice_cons2 c d r : has_splice (c :: d :: r) = ((c =? 92) && (d =? 10)) || has_splice (d :: r).
Proof. reflexivity. Qed.
Lemma ends_cons2 c d r : ends_in_bslash (c :: d :: r) = ends_in_bslash (d :: r).
Proof. reflexivity. Qed.

Lemma has_splice_app : forall a b,
  has_splice (a ++ b) = has_splice a || (ends_in_bslash a && starts_nl b) || has_splice b.
Proof.
  induction a as [|c a IH]; intros b; [reflexivity|]. destruct a as [|d a].
  - cbn [app has_splice ends_in_bslash]. change (match b with d :: _ => d =? 10 | [] => false end) with (starts_nl b).
    destruct (c =? 92), (starts_nl b), (has_splice b); reflexivity.
  - change ((c :: d :: a) ++ b) with (c :: d :: (a ++ b)). rewrite !has_splice_cons2, ends_cons2.
    change (d :: a ++ b) with ((d :: a) ++ b). rewrite IH, !orb_assoc. reflexivity.
Qed.

Lemma sep_before_clean first pb t :
  has_splice (sep_before first pb t) = false /\ ends_in_bslash (sep_before first pb t) = false /\
  has_cr (sep_before first pb t) = false.
Proof.
  unfold sep_before, newline. destruct (starts_line first t), (wants_space first t), pb; repeat split; reflexivity.
Qed.

Lemma clean_text_facts a : clean_text a = true ->
  has_cr a = false /\ has_splice a = false /\ (ends_in_bslash a = true -> is_bslash a = true).
Proof.
  unfold clean_text, has_cr. rewrite !andb_true_iff, !negb_true_iff, has_bs_nl_spec. intros [[H1 H2] H3].
  split; [exact H1|]. split; [exact H2|]. intros E. rewrite E in H3. exact H3.
Qed.

Section Survive.
Variable tbl : list (list N).
Hypothesis tbl_nosep : forallb nosep tbl = true.
Hypothesis tbl_nospace : forallb no_space_head tbl = true.

Lemma lexed_in_first_byte k a rest : lexed_in tbl k a rest ->
  exists c a', a = c :: a' /\ (c =? 10) = false /\ is_space c = false.
Proof.
  intros [H1 _]. pose proof (first_token_pos tbl _ _ _ H1) as Hpos.
  destruct a as [|c a]; [cbn [length] in Hpos; lia|]. exists c, a. split; [reflexivity|].
  assert (Hs : is_space c = false).
  { destruct (is_space c) eqn:E; [|reflexivity]. cbn [app] in H1. rewrite (first_token_space tbl tbl_nospace c _ E) in H1. discriminate. }
  split; [|exact Hs]. destruct (c =? 10) eqn:E; [|reflexivity]. apply N.eqb_eq in E. subst c. discriminate.
Qed.

(* behind a `\` token the printer never continues with a new-line byte *)
Lemma starts_nl_after_bslash r : printable tbl r -> starts_nl (eprint_from false true r) = false.
Proof.
  destruct r as [|t r]; intros Hp; [reflexivity|]. cbn [eprint_from]. unfold sep_before, newline.
  destruct (starts_line false t); [reflexivity|]. destruct (wants_space false t); [reflexivity|]. cbn [app].
  destruct (lexed_in_first_byte _ _ _ (printable_head tbl tbl_nosep t r (is_bslash (e_text t)) Hp)) as [c [a' [E [Hn _]]]].
  rewrite E. cbn [app starts_nl]. exact Hn.
Qed.

Lemma no_splice_from : forall ts first pb, printable tbl ts -> clean_tokens ts = true ->
  has_splice (eprint_from first pb ts) = false.
Proof.
  induction ts as [|t r IH]; intros first pb Hp Hc; cbn [eprint_from].
  - unfold newline. destruct pb; reflexivity.
  - cbn [clean_tokens forallb] in Hc. apply andb_true_iff in Hc as [Ht Hc]. fold (clean_tokens r) in Hc.
    destruct (clean_text_facts _ Ht) as [_ [Hs He]]. destruct (sep_before_clean first pb t) as [S1 [S2 _]].
    rewrite has_splice_app, S1, S2. cbn [andb orb].
    rewrite has_splice_app, Hs, (IH false (is_bslash (e_text t)) (proj2 Hp) Hc). cbn [orb]. rewrite orb_false_r.
    destruct (ends_in_bslash (e_text t)) eqn:E; [|reflexivity]. rewrite (He eq_refl). cbn [andb].
    exact (starts_nl_after_bslash r (proj2 Hp)).
Qed.

Lemma no_cr_from : forall ts first pb, clean_tokens ts = true -> has_cr (eprint_from first pb ts) = false.
Proof.
  induction ts as [|t r IH]; intros first pb Hc; cbn [eprint_from].
  - unfold newline. destruct pb; reflexivity.
  - cbn [clean_tokens forallb] in Hc. apply andb_true_iff in Hc as [Ht Hc]. fold (clean_tokens r) in Hc.
    destruct (clean_text_facts _ Ht) as [Hr _]. destruct (sep_before_clean first pb t) as [_ [_ S3]].
    unfold has_cr in *. rewrite !existsb_app, S3, Hr, (IH false _ Hc). reflexivity.
Qed.

Lemma bom_head_neq c x : (c =? 239) = false -> begins_with_bom (c :: x) = false.
Proof. intros H. destruct x as [|b [|d x]]; cbn [begins_with_bom]; try reflexivity. rewrite H. reflexivity. Qed.

Lemma first_token_239 r : first_token tbl (239 :: r) = Some (LIdent, S (scan_ident2 r)).
Proof. reflexivity. Qed.

(* a token that does not begin with EF BB BF does not make the text begin with it either *)
Lemma no_bom_head k a rest : lexed_in tbl k a rest -> bom_start a = false -> begins_with_bom (a ++ rest) = false.
Proof.
  intros [H1 _] Hb. destruct (begins_with_bom (a ++ rest)) eqn:B; [exfalso|reflexivity].
  pose proof (first_token_pos tbl _ _ _ H1) as Hpos.
  destruct a as [|c1 [|c2 [|c3 a]]]; [cbn [length] in Hpos; lia| | |].
  - cbn [app] in *. destruct rest as [|r1 [|r2 rest]]; try discriminate. cbn [begins_with_bom] in B.
    apply andb_true_iff in B as [B B3]. apply andb_true_iff in B as [B1 B2].
    apply N.eqb_eq in B1, B2, B3. subst. rewrite first_token_239 in H1. discriminate.
  - cbn [app] in *. destruct rest as [|r1 rest]; try discriminate. cbn [begins_with_bom] in B.
    apply andb_true_iff in B as [B B3]. apply andb_true_iff in B as [B1 B2].
    apply N.eqb_eq in B1, B2, B3. subst. rewrite first_token_239 in H1. discriminate.
  - cbn [app begins_with_bom bom_start] in *. congruence.
Qed.

Theorem eprint_survives : forall ts, printable tbl ts -> clean_tokens ts = true ->
  survives_phases_1_2 (eprint ts) = true.
Proof.
  intros ts Hp Hc. unfold survives_phases_1_2, eprint.
  assert (H2 : has_splice ((if bom_guard ts then [32] else []) ++ eprint_from true false ts) = false).
  { pose proof (no_splice_from ts true false Hp Hc) as H. destruct (bom_guard ts); [|exact H]. cbn [app has_splice]. exact H. }
  assert (H3 : has_cr ((if bom_guard ts then [32] else []) ++ eprint_from true false ts) = false).
  { pose proof (no_cr_from ts true false Hc) as H. destruct (bom_guard ts); [|exact H]. unfold has_cr in *. cbn [app existsb]. exact H. }
  assert (H1 : begins_with_bom ((if bom_guard ts then [32] else []) ++ eprint_from true false ts) = false).
  { destruct ts as [|t r]; [reflexivity|]. cbn [bom_guard eprint_from]. unfold sep_before, starts_line, wants_space.
    cbn [negb andb orb]. destruct (e_space t); cbn [negb andb orb app]; [apply bom_head_neq; reflexivity|].
    destruct (bom_start (e_text t)) eqn:B; cbn [app]; [apply bom_head_neq; reflexivity|].
    exact (no_bom_head _ _ _ (printable_head tbl tbl_nosep t r (is_bslash (e_text t)) Hp) B). }
  rewrite H1, H2, H3. reflexivity.
Qed.
End Survive.

(* ---------- instance: the punctuator table regenerated from tokenize.c ---------- *)
Lemma punct_table_nosep' : forallb nosep punct_table = true.
Proof. exact punct_table_nosep. Qed.
Lemma punct_table_nospace : forallb no_space_head punct_table = true.
Proof. vm_compute. reflexivity. Qed.

Definition printable_src := printable punct_table.

(* soundness of the printer's decision for one pair: whenever it prints b directly behind a, the
   tokenizer standing in front of the printed text  a b ...  cuts a *)
Theorem glued_pair_sound : forall a b rest pb, printable_src (a :: b :: rest) -> glued b = true ->
  exists more, eprint_from false pb (a :: b :: rest) = sep_before false pb a ++ e_text a ++ e_text b ++ more /\
               first_token punct_table (e_text a ++ e_text b ++ more) = Some (e_kind a, length (e_text a)).
Proof.
  intros a b rest pb [[src Hsrc] _] G. cbn [eprint_from]. rewrite (glued_no_sep (is_bslash (e_text a)) b G). cbn [app].
  exists (eprint_from false (is_bslash (e_text b)) rest). split; [reflexivity|].
  destruct (eprint_from_split rest (is_bslash (e_text b))) as [c [more [Hc E]]]. rewrite E.
  cbn [glue_text] in Hsrc. rewrite G in Hsrc.
  pose proof (proj1 (lexed_in_cut punct_table punct_table_nosep' _ _ (e_text b ++ glue_text rest) src c more Hc Hsrc)) as H.
  rewrite <- app_assoc in H. exact H.
Qed.

(* THE round trip *)
Theorem eprint_roundtrip : forall ts, printable_src ts ->
  tokenize punct_table (eprint ts) = LexOk (relex ts).
Proof. exact (eprint_relex punct_table punct_table_nosep' punct_table_nospace). Qed.

Theorem eprint_same_tokens : forall ts, printable_src ts ->
  same_tokens (tokenize punct_table) (eprint ts) (given ts).
Proof.
  intros ts Hp. exists (relex ts). split; [apply eprint_roundtrip; exact Hp|apply relex_from_given].
Qed.

(* phases 1-2 of a reader leave the -E text alone: no byte order mark in front, no backslash-new-line,
   no carriage return - provided no spelling holds one ([clean_tokens]) *)
Theorem eprint_survives_phases_1_2 : forall ts, printable_src ts -> clean_tokens ts = true ->
  survives_phases_1_2 (eprint ts) = true.
Proof. exact (eprint_survives punct_table punct_table_nosep' punct_table_nospace). Qed.

Theorem eprint_faithful : forall ts, printable_src ts -> clean_tokens ts = true -> leading_hash ts = false ->
  faithful (tokenize punct_table) (eprint ts) (given ts).
Proof.
  intros ts Hp Hc Hl. exists (relex ts). split; [apply eprint_roundtrip; exact Hp|]. split; [apply relex_from_given|].
  split; [rewrite relex_no_directive, Hl; reflexivity|]. exact (eprint_survives_phases_1_2 ts Hp Hc).
Qed.

(* the exclusion is exact: EVERY printable list that begins with `#` is printed with that `#` at the
   start of the first line, where it is read as the beginning of a directive *)
Theorem leading_hash_always_refuted : forall ts, printable_src ts -> leading_hash ts = true ->
  ~ faithful (tokenize punct_table) (eprint ts) (given ts).
Proof.
  intros ts Hp Hl [l [Hlex [_ [Hnd _]]]]. rewrite (eprint_roundtrip ts Hp) in Hlex. injection Hlex as <-.
  rewrite relex_no_directive, Hl in Hnd. discriminate.
Qed.

(* clause (3) of the spec against the model of tokenize_file's own phases 1-2 (Model/Phases.v:
   canonicalize_newline, remove_backslash_newline) and its byte-order-mark test: a text that
   [survives_phases_1_2] is what these functions return for it *)
Definition strip_bom (text : list N) : list N := if begins_with_bom text then skipn 3 text else text.

Lemma canon_id : forall p, has_cr p = false -> canon p = p.
Proof.
  induction p as [|c r IH]; intros H; [reflexivity|]. unfold has_cr in *. cbn [existsb canon] in *.
  apply orb_false_iff in H as [H1 H2]. rewrite H1, (IH H2). reflexivity.
Qed.

Lemma splice_id : forall p, has_splice p = false -> splice 0 p = p.
Proof.
  induction p as [|c r IH]; intros H; [reflexivity|]. cbn [has_splice] in H. apply orb_false_iff in H as [H1 H2].
  specialize (IH H2). cbn [splice]. rewrite IH.
  assert (E : (if c =? 10 then 10 :: repeat 10 0 ++ r else c :: r) = c :: r).
  { destruct (c =? 10) eqn:C; [|reflexivity]. apply N.eqb_eq in C. subst c. reflexivity. }
  rewrite E. destruct r as [|d r']; [reflexivity|]. rewrite H1. reflexivity.
Qed.

Theorem survives_is_identity text : survives_phases_1_2 text = true -> phases12 (strip_bom text) = text.
Proof.
  unfold survives_phases_1_2, strip_bom, phases12. rewrite !andb_true_iff, !negb_true_iff. intros [[H1 H2] H3].
  rewrite H1, (canon_id _ H3). apply splice_id. exact H2.
Qed.

(* reading the -E text again the way tokenize_file does: phases 1-2, then the tokenizer *)
Theorem eprint_reread : forall ts, printable_src ts -> clean_tokens ts = true ->
  tokenize punct_table (phases12 (strip_bom (eprint ts))) = LexOk (relex ts).
Proof.
  intros ts Hp Hc. rewrite (survives_is_identity _ (eprint_survives_phases_1_2 ts Hp Hc)). exact (eprint_roundtrip ts Hp).
Qed.

(* the witness of the open finding C19-leading-hash:  #define H #  /  H define X 1  /  X   *)
Definition leading_hash_witness : list etok :=
  [ {| e_kind := LPunct; e_text := [35]; e_space := false; e_bol := true; e_adj := false |};
    {| e_kind := LIdent; e_text := [100; 101; 102; 105; 110; 101]; e_space := true; e_bol := false; e_adj := false |};
    {| e_kind := LIdent; e_text := [88]; e_space := true; e_bol := false; e_adj := false |};
    {| e_kind := LNum; e_text := [49]; e_space := true; e_bol := false; e_adj := false |};
    {| e_kind := LIdent; e_text := [88]; e_space := false; e_bol := true; e_adj := false |} ].

Theorem leading_hash_refuted : exists ts, printable_src ts /\ leading_hash ts = true /\
  eprint ts = [35; 32; 100; 101; 102; 105; 110; 101; 32; 88; 32; 49; 10; 88; 10] /\
  ~ faithful (tokenize punct_table) (eprint ts) (given ts).
Proof.
  exists leading_hash_witness.
  assert (Hp : printable_src leading_hash_witness) by (apply printable_iff; [exact punct_table_nosep'|vm_compute; reflexivity]).
  split; [exact Hp|]. split; [reflexivity|]. split; [vm_compute; reflexivity|].
  apply leading_hash_always_refuted; [exact Hp|reflexivity].
Qed.

(* idempotence: read the -E text, print the tokens read (adjacency as the tokenizer of ONE text
   gives it): the same text; read again: the same tokens *)
Theorem eprint_idempotent : forall ts, printable_src ts ->
  exists l, tokenize punct_table (eprint ts) = LexOk l /\ eprint (of_lexed l) = eprint ts /\
            tokenize punct_table (eprint (of_lexed l)) = LexOk l.
Proof.
  intros ts Hp. exists (relex ts). pose proof (eprint_roundtrip ts Hp) as H.
  split; [exact H|]. split; [apply eprint_of_relex|]. rewrite eprint_of_relex. exact H.
Qed.

(* the hypothesis is what tokenize() delivers: the tokens of ANY text it accepts are printable, and
   printing them (what -E does with a file without directives and macros) reads back as the same
   preprocessing tokens *)
Lemma given_of_lexed l : given (of_lexed l) = map pptoken_of l.
Proof. unfold given, of_lexed. rewrite map_map. reflexivity. Qed.

Theorem tokenizer_output_printable : forall text l, tokenize punct_table text = LexOk l -> printable_src (of_lexed l).
Proof. exact (tokenize_printable punct_table). Qed.

Theorem plain_text_roundtrip : forall text l, tokenize punct_table text = LexOk l ->
  exists l', tokenize punct_table (eprint (of_lexed l)) = LexOk l' /\ map pptoken_of l' = map pptoken_of l.
Proof.
  intros text l H. exists (relex (of_lexed l)). split.
  - apply eprint_roundtrip. exact (tokenizer_output_printable text l H).
  - unfold relex. rewrite relex_from_given. apply given_of_lexed.
Qed.

(* ---------- computed examples ---------- *)
Definition T (k : tkind) (s : list N) (sp bol adj : bool) : etok :=
  {| e_kind := k; e_text := s; e_space := sp; e_bol := bol; e_adj := adj |}.

(* `x=-N;` with `#define N -1`: x = - are adjacent in the source line, the - and the 1 of N are
   adjacent in the definition, the two - are not adjacent, neither are 1 and ; *)
Definition ex_minus : list etok :=
  [T LIdent [120] false true false; T LPunct [61] false false true; T LPunct [45] false false true;
   T LPunct [45] false false false; T LNum [49] false false true; T LPunct [59] false false false].
(* u8 (from a macro) in front of "a"; 1e in front of +; / in front of *; . in front of 5; L in front of 'c';
   then, on a new line, a `#` that is not a directive, and %: as two tokens *)
Definition ex_mixed : list etok :=
  [T LIdent [117; 56] false true false; T LStr [34; 97; 34] false false false;
   T LNum [49; 101] true false false; T LPunct [43] false false false;
   T LPunct [47] false false false; T LPunct [42] false false false;
   T LPunct [46] false false false; T LNum [53] false false false;
   T LIdent [76] false false false; T LChr [39; 99; 39] false false false;
   T LPunct [35] false true false; T LIdent [100] false false true;
   T LPunct [37] false true false; T LPunct [58] false false true].

Lemma ex_minus_ok :
  printable_src ex_minus /\ eprint ex_minus = [120; 61; 45; 32; 45; 49; 32; 59; 10] /\
  tokenize punct_table (eprint ex_minus) = LexOk (relex ex_minus) /\ length (relex ex_minus) = 6%nat.
Proof.
  assert (Hp : printable_src ex_minus) by (apply printable_iff; [exact punct_table_nosep'|vm_compute; reflexivity]).
  split; [exact Hp|]. split; [vm_compute; reflexivity|]. split; [exact (eprint_roundtrip _ Hp)|reflexivity].
Qed.

Lemma ex_mixed_ok :
  printable_src ex_mixed /\ leading_hash ex_mixed = false /\
  eprint ex_mixed = [117; 56; 32; 34; 97; 34; 32; 49; 101; 32; 43; 32; 47; 32; 42; 32; 46; 32; 53; 32; 76; 32; 39; 99; 39;
                     32; 35; 100; 10; 37; 58; 10] /\
  faithful (tokenize punct_table) (eprint ex_mixed) (given ex_mixed).
Proof.
  assert (Hp : printable_src ex_mixed) by (apply printable_iff; [exact punct_table_nosep'|vm_compute; reflexivity]).
  split; [exact Hp|]. split; [reflexivity|]. split; [vm_compute; reflexivity|]. exact (eprint_faithful _ Hp eq_refl eq_refl).
Qed.

(* `a \ ` / `x\` (glued) / `b \ ` at the very end: every `\` token is followed by a space *)
Definition ex_bslash : list etok :=
  [T LIdent [97] false true false; T LPunct [92] true false false;
   T LIdent [120] false true false; T LPunct [92] false false true;
   T LIdent [98] false true false; T LPunct [92] true false false].
(* an identifier beginning with U+FEFF as the very first token, no has_space *)
Definition ex_bom : list etok :=
  [T LIdent [239; 187; 191; 120] false true false; T LPunct [61] true false false; T LNum [49] true false false].

Lemma ex_bslash_ok :
  printable_src ex_bslash /\ clean_tokens ex_bslash = true /\
  eprint ex_bslash = [97; 32; 92; 32; 10; 120; 92; 32; 10; 98; 32; 92; 32; 10] /\
  faithful (tokenize punct_table) (eprint ex_bslash) (given ex_bslash).
Proof.
  assert (Hp : printable_src ex_bslash) by (apply printable_iff; [exact punct_table_nosep'|vm_compute; reflexivity]).
  split; [exact Hp|]. split; [reflexivity|]. split; [vm_compute; reflexivity|]. exact (eprint_faithful _ Hp eq_refl eq_refl).
Qed.

Lemma ex_bom_ok :
  printable_src ex_bom /\ clean_tokens ex_bom = true /\
  eprint ex_bom = [32; 239; 187; 191; 120; 32; 61; 32; 49; 10] /\
  faithful (tokenize punct_table) (eprint ex_bom) (given ex_bom).
Proof.
  assert (Hp : printable_src ex_bom) by (apply printable_iff; [exact punct_table_nosep'|vm_compute; reflexivity]).
  split; [exact Hp|]. split; [reflexivity|]. split; [vm_compute; reflexivity|]. exact (eprint_faithful _ Hp eq_refl eq_refl).
Qed.

(* the hypothesis has teeth: token lists that no tokenizer run can have produced are rejected -
   two adjacent `-` (one buffer holding -- is cut as ONE token), u8 glued to a string, 1e glued to + *)
Lemma not_printable_examples :
  printable_b punct_table [T LPunct [45] false true false; T LPunct [45] false false true] = false /\
  printable_b punct_table [T LIdent [117; 56] false true false; T LStr [34; 97; 34] false false true] = false /\
  printable_b punct_table [T LNum [49; 101] false true false; T LPunct [43] false false true] = false /\
  printable_b punct_table [T LPunct [47] false true false; T LPunct [42] false false true] = false /\
  (* ... while the same pairs are fine as soon as the printer is told they were not adjacent *)
  printable_b punct_table [T LPunct [45] false true false; T LPunct [45] false false false] = true.
Proof. vm_compute. repeat split; reflexivity. Qed.
