(* C08 (package decl), part 1: what Model/Declarator.v (parse.c) computes on the written form of every
   declarator of Spec/DeclSpec6_7_6.v.

   [m_apply d ty] is the model-level denotation of a declarator: the mty that parse.c's constructors build when
   the derivations of d are applied to ty inside-out (pointers first, then - through the two passes - the
   suffixes, right to left).  [chk d ty] collects every "array too large" test parse.c performs on the way
   (those of the dummy passes included).  Main result [declarator_print]:

       declarator fuel (print_decl d ++ rest) ty
       = if chk d ty then Ok (name_of d, m_apply d ty, rest) else TooLarge

   for every declarator d (any nesting of pointers, parentheses, arrays, functions with parameters, identifier
   present or omitted) that satisfies [c11_ok] (Spec), every start type ty, every continuation `rest` that starts
   with "," ")" or an uninvolved token, and every fuel above an explicit cost, in particular the fuel of the entry
   point [parse_declarator].  The same for abstract_declarator / typename when the identifier is omitted.
   (Update 2: follows the repaired parse.c - fbdf355, 8507b9f, 053b61b; the former predicate chibicc_ok is gone:
   nothing of the abstract syntax is excluded any more.)
   Part 2 (DeclaratorTypes.v) relates m_apply to the C11 type, part 3 (DeclaratorSizes.v) to the psABI numbers
   and [chk] to sizes of 2^31 bytes and more. *)
From Coq Require Import List ZArith Bool Lia Arith.
From Chibicc Require Import Spec.DeclSyntax Spec.DeclSpec6_7_6 Model.Declarator.
Import ListNotations.

Definition is_empty_dd (dd : direct) : bool := match dd with DIdent None => true | _ => false end.

(* ------------------------------------------------------------------ the denotation on model types *)
Definition len_of (n : option Z) : Z := match n with Some k => int32 k | None => (-1)%Z end.

Definition m_variadic (ps : params) : bool :=
  match ps with PUnspec => true | PVoid => false | PList _ v => v end.

Fixpoint m_apply (d : decl) (ty : mty) : mty :=
  match d with
  | DPtr _ d' => m_apply d' (MPtr ty)
  | DDirect dd => m_apply_dd dd ty
  end
with m_apply_dd (dd : direct) (ty : mty) : mty :=
  match dd with
  | DIdent _ => ty
  | DParen d => m_apply d ty
  | DArray dd' n => m_apply_dd dd' (array_of ty (len_of n))
  | DFunc dd' ps => m_apply_dd dd' (MFunc ty (m_params ps) (m_variadic ps))
  end
with m_params (ps : params) : list (option ident * mty) :=
  match ps with
  | PUnspec => []
  | PVoid => []
  | PList l _ => m_plist l
  end
with m_plist (l : plist) : list (option ident * mty) :=
  match l with
  | POne p => [m_param p]
  | PCons p l' => m_param p :: m_plist l'
  end
with m_param (p : param) : option ident * mty :=
  match p with Param b d => (name_of d, adjust_param (m_apply d (MBase b))) end.

(* suffixes that follow a direct declarator *)
Inductive suffix := SArr (n : option Z) | SFun (ps : params).
Definition print_suf (s : suffix) : list tok :=
  match s with
  | SArr (Some n) => [TLBrack; TNum n; TRBrack]
  | SArr None => [TLBrack; TRBrack]
  | SFun ps => TLParen :: print_params ps ++ [TRParen]
  end.
Fixpoint print_sufs (l : list suffix) : list tok :=
  match l with [] => [] | s :: r => print_suf s ++ print_sufs r end.
Definition m_suf (s : suffix) (ty : mty) : mty :=
  match s with
  | SArr n => array_of ty (len_of n)
  | SFun ps => MFunc ty (m_params ps) (m_variadic ps)
  end.
Definition m_sufs (l : list suffix) (ty : mty) : mty := fold_right m_suf ty l.

(* ------------------------------------------------------------------ the "array too large" tests on the way *)
Definition fit (n : option Z) (elem : mty) : bool :=
  match n with Some k => negb (too_large k elem) | None => true end.

Fixpoint chk (d : decl) (ty : mty) : bool :=
  match d with
  | DPtr _ d' => chk d' (MPtr ty)
  | DDirect dd => chk_dd dd ty
  end
with chk_dd (dd : direct) (ty : mty) : bool :=
  match dd with
  | DIdent _ => true
  | DParen d => chk d dummy && chk d ty               (* the dummy pass, then the real one *)
  | DArray dd' n => fit n ty && chk_dd dd' (array_of ty (len_of n))
  | DFunc dd' ps => chk_params ps && chk_dd dd' (MFunc ty (m_params ps) (m_variadic ps))
  end
with chk_params (ps : params) : bool :=
  match ps with
  | PUnspec => true
  | PVoid => true
  | PList l _ => chk_plist l
  end
with chk_plist (l : plist) : bool :=
  match l with
  | POne p => chk_param p
  | PCons p l' => chk_param p && chk_plist l'
  end
with chk_param (p : param) : bool :=
  match p with Param b d => chk d (MBase b) end.

Fixpoint chk_sufs (l : list suffix) (ty : mty) : bool :=
  match l with
  | [] => true
  | SArr n :: r => chk_sufs r ty && fit n (m_sufs r ty)
  | SFun ps :: r => chk_sufs r ty && chk_params ps
  end.

(* ------------------------------------------------------------------ fuel: an explicit cost *)
Fixpoint cost (d : decl) : nat :=
  match d with
  | DPtr _ d' => cost d'
  | DDirect dd => cost_dd dd + 2
  end
with cost_dd (dd : direct) : nat :=
  match dd with
  | DIdent _ => 0
  | DParen d => cost d
  | DArray dd' _ => cost_dd dd' + 2
  | DFunc dd' ps => cost_dd dd' + 1 + cost_params ps
  end
with cost_params (ps : params) : nat :=
  match ps with
  | PUnspec => 2
  | PVoid => 1
  | PList l _ => 1 + cost_plist l
  end
with cost_plist (l : plist) : nat :=
  match l with
  | POne p => cost_param p + 2
  | PCons p l' => 1 + cost_param p + cost_plist l'
  end
with cost_param (p : param) : nat :=
  match p with Param _ d => cost d end.

(* ------------------------------------------------------------------ one-step equations of the model *)
Definition direct_part (f : nat) (t1 : list tok) (ty1 : mty) : res (option ident * mty * list tok) :=
  match nested_start t1 with
  | Some inner =>
      do r1 <- declarator f inner dummy;
      match snd r1 with
      | TRParen :: t3 =>
          do r2 <- type_suffix f t3 ty1;
          do r3 <- declarator f inner (fst r2);
          Ok (fst (fst r3), snd (fst r3), snd r2)
      | _ => Err
      end
  | None =>
      let nm := ident_opt t1 in
      do r2 <- type_suffix f (snd nm) ty1;
      Ok (fst nm, fst r2, snd r2)
  end.

Lemma declarator_S f toks ty :
  declarator (S f) toks ty = direct_part f (snd (pointers false toks ty)) (fst (pointers false toks ty)).
Proof. reflexivity. Qed.

Definition type_suffix_body (f : nat) (toks : list tok) (ty : mty) : res (mty * list tok) :=
  match toks with
  | TLParen :: r => func_params f r ty
  | TLBrack :: r => array_dimensions f r ty
  | _ => Ok (ty, toks)
  end.
Lemma type_suffix_S f toks ty : type_suffix (S f) toks ty = type_suffix_body f toks ty.
Proof. reflexivity. Qed.

Definition array_dimensions_body (f : nat) (toks : list tok) (ty : mty) : res (mty * list tok) :=
  match skip_static_quals toks with
  | TRBrack :: r =>
      do r2 <- type_suffix f r ty;
      Ok (array_of (fst r2) (-1), snd r2)
  | TNum n :: TRBrack :: r =>
      do r2 <- type_suffix f r ty;
      if too_large n (fst r2) then TooLarge else Ok (array_of (fst r2) (int32 n), snd r2)
  | _ => Err
  end.
Lemma array_dimensions_S f toks ty : array_dimensions (S f) toks ty = array_dimensions_body f toks ty.
Proof. reflexivity. Qed.

Definition func_params_body (f : nat) (toks : list tok) (ret : mty) : res (mty * list tok) :=
  match toks with
  | TBase LVoid :: TRParen :: r => Ok (MFunc ret [] false, r)
  | _ => params_loop f toks ret []
  end.
Lemma func_params_S f toks ret : func_params (S f) toks ret = func_params_body f toks ret.
Proof. reflexivity. Qed.

Definition param_step (f : nat) (t1 : list tok) (ret : mty) (acc : list (option ident * mty)) : res (mty * list tok) :=
  match t1 with
  | TEllipsis :: r =>
      do r' <- skip_tok_rparen r;
      Ok (MFunc ret (rev acc) true, r')
  | _ =>
      let ds := param_declspec t1 in
      do r1 <- declarator f (snd ds) (fst ds);
      params_loop f (snd r1) ret ((fst (fst r1), adjust_param (snd (fst r1))) :: acc)
  end.
Definition params_loop_body (f : nat) (toks : list tok) (ret : mty) (acc : list (option ident * mty))
  : res (mty * list tok) :=
  match toks with
  | TRParen :: r => Ok (MFunc ret (rev acc) (is_nil acc), r)
  | _ =>
    do t1 <- (if is_nil acc then Ok toks else skip_tok_comma toks);
    param_step f t1 ret acc
  end.
Lemma params_loop_S f toks ret acc : params_loop (S f) toks ret acc = params_loop_body f toks ret acc.
Proof. reflexivity. Qed.

Definition abstract_part (f : nat) (t1 : list tok) (ty1 : mty) : res (mty * list tok) :=
  match nested_start t1 with
  | Some inner =>
      do r1 <- abstract_declarator f inner dummy;
      match snd r1 with
      | TRParen :: t3 =>
          do r2 <- type_suffix f t3 ty1;
          do r3 <- abstract_declarator f inner (fst r2);
          Ok (fst r3, snd r2)
      | _ => Err
      end
  | None => type_suffix f t1 ty1
  end.
Lemma abstract_declarator_S f toks ty :
  abstract_declarator (S f) toks ty
  = abstract_part f (snd (pointers false toks ty)) (fst (pointers false toks ty)).
Proof. reflexivity. Qed.

(* ------------------------------------------------------------------ first tokens *)
Definition hd_in (P : tok -> bool) (l : list tok) : Prop :=
  match l with [] => True | t :: _ => P t = true end.

(* what may follow a complete declarator *)
Definition stop_tok (t : tok) : bool := match t with TComma | TRParen | TOther => true | _ => false end.
Definition stops (rest : list tok) : Prop := hd_in stop_tok rest.

Definition dd_start (t : tok) : bool := match t with TIdent _ | TLParen | TLBrack => true | _ => false end.
Definition decl_start (t : tok) : bool := match t with TStar | TIdent _ | TLParen | TLBrack => true | _ => false end.

Lemma print_dd_hd : forall dd, hd_in dd_start (print_dd dd).
Proof.
  induction dd as [x|d|dd' IH n|dd' IH ps].
  - destruct x as [x|]; exact eq_refl || exact I.
  - reflexivity.
  - destruct n as [n|]; cbn [print_dd]; destruct (print_dd dd') as [|t l]; [reflexivity|exact IH|reflexivity|exact IH].
  - cbn [print_dd]. destruct (print_dd dd') as [|t l]; [reflexivity|exact IH].
Qed.

Lemma print_decl_hd : forall d, hd_in decl_start (print_decl d).
Proof.
  destruct d as [q d'|dd].
  - reflexivity.
  - cbn [print_decl]. pose proof (print_dd_hd dd) as H. destruct (print_dd dd) as [|t l]; [exact I|].
    cbn [hd_in] in *. destruct t; try discriminate H; reflexivity.
Qed.

Lemma pointers_nostar : forall X b ty,
  hd_in (fun t => dd_start t || stop_tok t) X -> pointers b X ty = (ty, X).
Proof.
  intros X b ty H. destruct X as [|t l]; [reflexivity|]. cbn [hd_in] in H.
  destruct t; try discriminate H; reflexivity.
Qed.

Lemma pointers_flag : forall X ty,
  hd_in (fun t => decl_start t || stop_tok t) X -> pointers true X ty = pointers false X ty.
Proof.
  intros X ty H. destruct X as [|t l]; [reflexivity|]. cbn [hd_in] in H.
  destruct t; try discriminate H; reflexivity.
Qed.

Lemma pointers_quals : forall q X ty, pointers true (map TQual q ++ X) ty = pointers true X ty.
Proof. induction q as [|a q IH]; intros X ty; [reflexivity|]. cbn [map app pointers]. apply IH. Qed.

Lemma hd_app : forall P l X, hd_in P l -> hd_in P X -> hd_in P (l ++ X).
Proof. intros P l X Hl HX. destruct l as [|t l]; [exact HX|exact Hl]. Qed.

Lemma hd_weaken : forall (P Q : tok -> bool) l, (forall t, P t = true -> Q t = true) -> hd_in P l -> hd_in Q l.
Proof. intros P Q l H Hl. destruct l as [|t l]; [exact I|]. apply H. exact Hl. Qed.

Lemma hd_dd_rest : forall dd X, stops X -> hd_in (fun t => dd_start t || stop_tok t) (print_dd dd ++ X).
Proof.
  intros dd X HX. apply hd_app.
  - eapply hd_weaken; [|apply print_dd_hd]. intros t Ht. rewrite Ht. reflexivity.
  - eapply hd_weaken; [|exact HX]. intros t Ht. cbv beta. rewrite Ht. apply orb_true_r.
Qed.

Lemma hd_decl_rest : forall d X, stops X -> hd_in (fun t => decl_start t || stop_tok t) (print_decl d ++ X).
Proof.
  intros d X HX. apply hd_app.
  - eapply hd_weaken; [|apply print_decl_hd]. intros t Ht. rewrite Ht. reflexivity.
  - eapply hd_weaken; [|exact HX]. intros t Ht. cbv beta. rewrite Ht. apply orb_true_r.
Qed.

(* a "*" with its qualifiers in front of a declarator *)
Lemma declarator_star : forall f q d rest ty,
  stops rest ->
  declarator (S f) (print_decl (DPtr q d) ++ rest) ty = declarator (S f) (print_decl d ++ rest) (MPtr ty).
Proof.
  intros f q d rest ty Hs. rewrite !declarator_S.
  assert (E : pointers false (print_decl (DPtr q d) ++ rest) ty = pointers false (print_decl d ++ rest) (MPtr ty)).
  { cbn [print_decl app pointers]. rewrite <- app_assoc, pointers_quals.
    apply pointers_flag, hd_decl_rest, Hs. }
  rewrite E. reflexivity.
Qed.

Lemma abstract_star : forall f q d rest ty,
  stops rest ->
  abstract_declarator (S f) (print_decl (DPtr q d) ++ rest) ty
  = abstract_declarator (S f) (print_decl d ++ rest) (MPtr ty).
Proof.
  intros f q d rest ty Hs. rewrite !abstract_declarator_S.
  assert (E : pointers false (print_decl (DPtr q d) ++ rest) ty = pointers false (print_decl d ++ rest) (MPtr ty)).
  { cbn [print_decl app pointers]. rewrite <- app_assoc, pointers_quals.
    apply pointers_flag, hd_decl_rest, Hs. }
  rewrite E. reflexivity.
Qed.

(* ------------------------------------------------------------------ where a nested declarator starts *)
Lemma print_decl_nonempty : forall d, is_empty_decl d = false ->
  exists t l, print_decl d = t :: l /\ decl_start t = true.
Proof.
  intros d H. pose proof (print_decl_hd d) as Hh.
  destruct (print_decl d) as [|t l] eqn:E.
  - exfalso. destruct d as [q d'|dd]; cbn [print_decl] in E; [discriminate|].
    destruct dd as [[x|]|d|dd' n|dd' ps]; cbn [print_dd] in E.
    + discriminate.
    + discriminate H.
    + discriminate.
    + destruct n; apply app_eq_nil in E; destruct E; discriminate.
    + apply app_eq_nil in E; destruct E; discriminate.
  - exists t, l. split; [reflexivity|exact Hh].
Qed.

Lemma nested_start_paren : forall d X, is_empty_decl d = false ->
  nested_start (TLParen :: print_decl d ++ X) = Some (print_decl d ++ X).
Proof.
  intros d X H. destruct (print_decl_nonempty d H) as [t [l [E Ht]]]. rewrite E. cbn [app nested_start].
  destruct t; try discriminate Ht; reflexivity.
Qed.

Lemma plist_first : forall l, exists b d X, print_plist l = TBase b :: print_decl d ++ X /\
  (c11_ok_plist l = true -> c11_ok_param (Param b d) = true) /\ (X = [] \/ exists X', X = TComma :: X').
Proof.
  destruct l as [[b d]|[b d] l'].
  - exists b, d, []. cbn [print_plist print_param c11_ok_plist]. rewrite app_nil_r. auto.
  - exists b, d, (TComma :: print_plist l'). cbn [print_plist print_param c11_ok_plist]. split; [reflexivity|].
    split; [|right; eauto]. intros H. apply andb_prop in H. exact (proj1 H).
Qed.

(* a parameter list starts with ")" or a type keyword: the "(" in front of it is NOT a nested declarator *)
Lemma nested_start_params : forall ps X, nested_start (TLParen :: print_params ps ++ TRParen :: X) = None.
Proof.
  intros ps X. destruct ps as [| |l v]; try reflexivity.
  cbn [print_params]. destruct (plist_first l) as [b [d [Y [E _]]]]. rewrite E. reflexivity.
Qed.

Ltac norm_app := repeat (first [rewrite <- app_assoc | rewrite app_nil_r | progress cbn [app]]).

Lemma plain_sufs : forall l rest, stops rest ->
  nested_start (print_sufs l ++ rest) = None /\ ident_opt (print_sufs l ++ rest) = (None, print_sufs l ++ rest).
Proof.
  intros l rest Hs. destruct l as [|s l].
  - cbn [print_sufs app]. destruct rest as [|t r]; [split; reflexivity|].
    cbn [stops hd_in] in Hs. destruct t; try discriminate Hs; split; reflexivity.
  - destruct s as [n|ps].
    + destruct n; split; reflexivity.
    + cbn [print_sufs print_suf]. norm_app. split; [apply nested_start_params|reflexivity].
Qed.

(* ------------------------------------------------------------------ suffix chains *)
(* [good c l]: with fuel >= c, type_suffix parses the written suffixes l completely and builds m_sufs l,
   or reports "array too large" - exactly when one of its tests fires *)
Definition good (c : nat) (l : list suffix) : Prop :=
  forall fuel ty rest, stops rest -> c <= fuel ->
    type_suffix fuel (print_sufs l ++ rest) ty = if chk_sufs l ty then Ok (m_sufs l ty, rest) else TooLarge.

Lemma type_suffix_stops : forall f rest ty, stops rest -> type_suffix (S f) rest ty = Ok (ty, rest).
Proof.
  intros f rest ty H. rewrite type_suffix_S. destruct rest as [|t l]; [reflexivity|].
  cbn [stops hd_in] in H. destruct t; try discriminate H; reflexivity.
Qed.

Lemma good_nil : good 1 [].
Proof.
  intros fuel ty rest Hs Hf. destruct fuel as [|f]; [lia|]. cbn [print_sufs app m_sufs fold_right chk_sufs].
  apply type_suffix_stops, Hs.
Qed.

Lemma good_arr : forall c l n, good c l -> good (c + 2) (SArr n :: l).
Proof.
  intros c l n Hg fuel ty rest Hs Hf.
  destruct fuel as [|[|f]]; [lia|lia|].
  assert (Hc : c <= f) by lia.
  rewrite type_suffix_S. cbn [print_sufs m_sufs fold_right chk_sufs].
  destruct n as [n|]; cbn [print_suf app type_suffix_body]; rewrite array_dimensions_S;
    unfold array_dimensions_body; cbn [skip_static_quals];
    rewrite (Hg f ty rest Hs Hc); destruct (chk_sufs l ty); cbn [bind fst snd andb fit m_suf len_of]; try reflexivity.
  fold (m_sufs l ty). destruct (too_large n (m_sufs l ty)); reflexivity.
Qed.

Lemma app_cons_assoc : forall (A : Type) (l : list A) x r, (l ++ [x]) ++ r = l ++ x :: r.
Proof. intros A l x r. rewrite <- app_assoc. reflexivity. Qed.

(* ------------------------------------------------------------------ the mutual induction *)
Definition P_decl (d : decl) : Prop :=
  c11_ok d = true ->
  forall fuel ty rest, stops rest -> cost d <= fuel ->
    declarator fuel (print_decl d ++ rest) ty
    = if chk d ty then Ok (name_of d, m_apply d ty, rest) else TooLarge.

Definition P_dd (dd : direct) : Prop :=
  c11_ok_dd dd = true ->
  forall c l, good c l ->
    (is_func_dd dd = true -> l = []) ->
  forall fuel ty rest, stops rest -> cost_dd dd + c <= fuel ->
    direct_part fuel (print_dd dd ++ print_sufs l ++ rest) ty
    = if chk_dd dd (m_sufs l ty) && chk_sufs l ty
      then Ok (name_of_dd dd, m_apply_dd dd (m_sufs l ty), rest) else TooLarge.

Definition P_params (ps : params) : Prop :=
  c11_ok_params ps = true ->
  forall fuel ret rest, cost_params ps <= fuel ->
    func_params fuel (print_params ps ++ TRParen :: rest) ret
    = if chk_params ps then Ok (MFunc ret (m_params ps) (m_variadic ps), rest) else TooLarge.

Definition ptail (v : bool) (rest : list tok) : list tok :=
  (if v then [TComma; TEllipsis] else []) ++ TRParen :: rest.

Definition P_plist (l : plist) : Prop :=
  c11_ok_plist l = true ->
  forall fuel ret acc rest v, cost_plist l <= fuel ->
    params_loop fuel ((if is_nil acc then [] else [TComma]) ++ print_plist l ++ ptail v rest) ret acc
    = if chk_plist l then Ok (MFunc ret (rev acc ++ m_plist l) v, rest) else TooLarge.

Definition P_param (p : param) : Prop :=
  c11_ok_param p = true ->
  forall fuel rest, stops rest -> cost_param p <= fuel ->
    match p with Param b d =>
      declarator fuel (print_decl d ++ rest) (MBase b)
      = if chk d (MBase b) then Ok (name_of d, m_apply d (MBase b), rest) else TooLarge
    end.

Lemma loop_tail : forall f v rest ret acc,
  acc <> [] -> params_loop (S f) (ptail v rest) ret acc = Ok (MFunc ret (rev acc) v, rest).
Proof.
  intros f v rest ret acc Hacc. rewrite params_loop_S.
  destruct acc as [|a acc]; [congruence|].
  destruct v; reflexivity.
Qed.

Lemma ptail_stops : forall v rest, stops (ptail v rest).
Proof. intros [|] rest; reflexivity. Qed.

(* one parameter inside the loop *)
Lemma loop_param : forall f b d X ret acc,
  params_loop (S f) ((if is_nil acc then [] else [TComma]) ++ print_param (Param b d) ++ X) ret acc
  = do r <- declarator f (print_decl d ++ X) (MBase b);
    params_loop f (snd r) ret ((fst (fst r), adjust_param (snd (fst r))) :: acc).
Proof.
  intros f b d X ret acc. rewrite params_loop_S.
  destruct acc as [|a acc]; reflexivity.
Qed.

Lemma func_params_loop : forall f toks ret,
  (forall r, toks <> TBase LVoid :: TRParen :: r) ->
  func_params (S f) toks ret = params_loop f toks ret [].
Proof.
  intros f toks ret H. rewrite func_params_S.
  destruct toks as [|t toks]; [reflexivity|].
  destruct t; try reflexivity. destruct l; try reflexivity.
  destruct toks as [|t toks]; [reflexivity|]. destruct t; try reflexivity.
  exfalso. eapply H. reflexivity.
Qed.

Lemma print_decl_nil_dtl : forall d, print_decl d = [] -> dtl d = [].
Proof.
  destruct d as [q d'|dd]; cbn [print_decl]; [discriminate|].
  destruct dd as [[x|]|d|dd' n|dd' ps]; cbn [print_dd].
  - discriminate.
  - reflexivity.
  - discriminate.
  - destruct n; intros H; apply app_eq_nil in H; destruct H; discriminate.
  - intros H; apply app_eq_nil in H; destruct H; discriminate.
Qed.

Lemma plist_not_void : forall l v rest r,
  c11_ok_plist l = true -> print_plist l ++ ptail v rest <> TBase LVoid :: TRParen :: r.
Proof.
  intros l v rest r Hok E.
  destruct (plist_first l) as [b [d [X [Ep [Hp HX]]]]]. rewrite Ep in E. specialize (Hp Hok).
  cbn [app] in E. injection E as Eb E. subst b.
  cbn [c11_ok_param is_void andb] in Hp. apply andb_prop in Hp. destruct Hp as [_ Hp].
  pose proof (print_decl_hd d) as Hh. pose proof (print_decl_nil_dtl d) as Hn.
  destruct (print_decl d) as [|t pl].
  - rewrite (Hn eq_refl) in Hp. discriminate.
  - cbn [app] in E. injection E as Et _. subst t. discriminate Hh.
Qed.

Lemma cost_pos : forall d, 2 <= cost d.
Proof. induction d as [q d IH|dd]; cbn [cost]; [exact IH|lia]. Qed.

Theorem parse_all :
  (forall d, P_decl d) /\ (forall dd, P_dd dd) /\ (forall ps, P_params ps) /\
  (forall l, P_plist l) /\ (forall p, P_param p).
Proof.
  apply decl_mutind.
  - (* DPtr *)
    intros q d IH Hc fuel ty rest Hs Hf. cbn [c11_ok cost name_of m_apply chk] in *.
    destruct fuel as [|f]; [pose proof (cost_pos d); lia|].
    rewrite declarator_star by exact Hs. apply IH; assumption.
  - (* DDirect *)
    intros dd IH Hc fuel ty rest Hs Hf. cbn [c11_ok cost name_of m_apply print_decl chk] in *.
    destruct fuel as [|f]; [lia|].
    rewrite declarator_S, pointers_nostar by (apply hd_dd_rest, Hs). cbn [fst snd].
    assert (Hg := good_nil).
    specialize (IH Hc 1 [] Hg (fun _ => eq_refl) f ty rest Hs).
    cbn [print_sufs app m_sufs fold_right chk_sufs] in IH. rewrite andb_true_r in IH. apply IH. lia.
  - (* DIdent *)
    intros x _ c l Hg _ fuel ty rest Hs Hf. cbn [cost_dd name_of_dd m_apply_dd chk_dd andb] in *.
    destruct x as [x|]; cbn [print_dd app].
    + unfold direct_part. cbn [nested_start ident_opt fst snd].
      rewrite (Hg fuel ty rest Hs) by lia. destruct (chk_sufs l ty); reflexivity.
    + destruct (plain_sufs l rest Hs) as [E1 E2]. unfold direct_part. rewrite E1, E2. cbn [fst snd].
      rewrite (Hg fuel ty rest Hs) by lia. destruct (chk_sufs l ty); reflexivity.
  - (* DParen *)
    intros d IH Hc c l Hg _ fuel ty rest Hs Hf.
    cbn [c11_ok_dd cost_dd name_of_dd m_apply_dd print_dd chk_dd] in *.
    apply andb_prop in Hc. destruct Hc as [Hne Hc]. apply negb_true_iff in Hne.
    cbn [app]. rewrite <- !app_assoc. cbn [app]. unfold direct_part.
    rewrite (nested_start_paren d _ Hne).
    assert (Hs' : stops (TRParen :: print_sufs l ++ rest)) by reflexivity.
    rewrite (IH Hc fuel dummy _ Hs') by lia.
    destruct (chk d dummy); cbn [bind snd andb]; [|reflexivity].
    rewrite (Hg fuel ty rest Hs) by lia.
    destruct (chk_sufs l ty); cbn [bind fst snd]; [|rewrite andb_false_r; reflexivity].
    rewrite (IH Hc fuel (m_sufs l ty) _ Hs') by lia.
    destruct (chk d (m_sufs l ty)); reflexivity.
  - (* DArray *)
    intros dd' IH n Hc c l Hg Hfun fuel ty rest Hs Hf.
    cbn [c11_ok_dd cost_dd name_of_dd m_apply_dd is_func_dd chk_dd] in *.
    apply andb_prop in Hc. destruct Hc as [Hc _]. apply andb_prop in Hc. destruct Hc as [Hnf Hc].
    apply negb_true_iff in Hnf.
    assert (Ep : print_dd (DArray dd' n) ++ print_sufs l ++ rest
                 = print_dd dd' ++ print_sufs (SArr n :: l) ++ rest).
    { destruct n; cbn [print_dd print_sufs print_suf]; norm_app; reflexivity. }
    rewrite Ep.
    rewrite (IH Hc (c + 2) (SArr n :: l) (good_arr c l n Hg)); try assumption; [|intros H; congruence|lia].
    cbn [m_sufs fold_right m_suf chk_sufs]. fold (m_sufs l ty).
    destruct (fit n (m_sufs l ty)), (chk_sufs l ty), (chk_dd dd' (array_of (m_sufs l ty) (len_of n))); reflexivity.
  - (* DFunc *)
    intros dd' IH ps IHps Hc c l Hg Hfun fuel ty rest Hs Hf.
    cbn [c11_ok_dd cost_dd name_of_dd m_apply_dd is_func_dd chk_dd] in *.
    specialize (Hfun eq_refl). subst l.
    apply andb_prop in Hc. destruct Hc as [Hc Hcps]. apply andb_prop in Hc. destruct Hc as [Hnf Hc].
    apply negb_true_iff in Hnf.
    assert (Hg' : good (1 + cost_params ps) [SFun ps]).
    { intros fuel' ty' rest' Hs' Hf'. destruct fuel' as [|f']; [lia|].
      rewrite type_suffix_S. cbn [print_sufs print_suf app type_suffix_body m_sufs fold_right m_suf chk_sufs andb].
      rewrite app_nil_r, app_cons_assoc.
      apply (IHps Hcps). lia. }
    assert (Ep : print_dd (DFunc dd' ps) ++ print_sufs [] ++ rest
                 = print_dd dd' ++ print_sufs [SFun ps] ++ rest).
    { cbn [print_dd print_sufs print_suf]. norm_app. reflexivity. }
    rewrite Ep. cbn [m_sufs fold_right chk_sufs].
    rewrite (IH Hc (1 + cost_params ps) [SFun ps] Hg'); try assumption; [|intros H; congruence|lia].
    cbn [m_sufs fold_right m_suf chk_sufs andb].
    destruct (chk_params ps), (chk_dd dd' (MFunc ty (m_params ps) (m_variadic ps))); reflexivity.
  - (* PUnspec *)
    intros _ fuel ret rest Hf. cbn [cost_params print_params app m_params m_variadic chk_params] in *.
    destruct fuel as [|[|f]]; [lia|lia|]. reflexivity.
  - (* PVoid *)
    intros _ fuel ret rest Hf. cbn [cost_params print_params app m_params m_variadic chk_params] in *.
    destruct fuel as [|f]; [lia|]. reflexivity.
  - (* PList *)
    intros l IH v Hc fuel ret rest Hf. cbn [c11_ok_params cost_params print_params m_params m_variadic chk_params] in *.
    destruct fuel as [|f]; [lia|].
    rewrite <- app_assoc. change ((if v then [TComma; TEllipsis] else []) ++ TRParen :: rest) with (ptail v rest).
    rewrite func_params_loop by (intros r; apply plist_not_void; exact Hc).
    apply (IH Hc f ret [] rest v). lia.
  - (* POne *)
    intros p IH Hc fuel ret acc rest v Hf. destruct p as [b d].
    cbn [c11_ok_plist cost_plist print_plist m_plist chk_plist chk_param] in *.
    destruct fuel as [|[|f]]; [lia|lia|].
    specialize (IH Hc (S f) (ptail v rest) (ptail_stops v rest)). cbn [cost_param] in IH, Hf.
    rewrite loop_param, IH by lia.
    destruct (chk d (MBase b)); cbn [bind fst snd]; [|reflexivity].
    rewrite loop_tail by discriminate. cbn [rev m_param]. reflexivity.
  - (* PCons *)
    intros p IH l IHl Hc fuel ret acc rest v Hf. destruct p as [b d].
    cbn [c11_ok_plist cost_plist print_plist m_plist chk_plist chk_param] in *.
    apply andb_prop in Hc. destruct Hc as [Hc Hcl].
    destruct fuel as [|f]; [lia|].
    assert (Hs : stops (TComma :: print_plist l ++ ptail v rest)) by reflexivity.
    specialize (IH Hc f _ Hs). cbn [cost_param] in IH, Hf.
    rewrite <- app_assoc. cbn [app].
    rewrite loop_param, IH by lia.
    destruct (chk d (MBase b)); cbn [bind fst snd andb]; [|reflexivity].
    specialize (IHl Hcl f ret ((name_of d, adjust_param (m_apply d (MBase b))) :: acc) rest v).
    cbn [is_nil app] in IHl. rewrite IHl by lia.
    destruct (chk_plist l); [|reflexivity]. cbn [rev m_param]. rewrite <- app_assoc. reflexivity.
  - (* Param *)
    intros b d IH Hc fuel rest Hs Hf. cbn [c11_ok_param cost_param] in *.
    apply andb_prop in Hc. destruct Hc as [Hc _]. apply IH; assumption.
Qed.

(* ------------------------------------------------------------------ the fuel of the entry points is enough *)
Lemma cost_bound :
  (forall d, cost d <= 2 * length (print_decl d) + 2) /\
  (forall dd, cost_dd dd <= 2 * length (print_dd dd)) /\
  (forall ps, cost_params ps <= 2 * length (print_params ps) + 3) /\
  (forall l, cost_plist l <= 2 * length (print_plist l) + 2) /\
  (forall p, cost_param p <= 2 * length (print_param p)).
Proof.
  apply decl_mutind.
  - intros q d IH. cbn [cost print_decl length]. rewrite app_length. lia.
  - intros dd IH. cbn [cost print_decl]. lia.
  - intros x. cbn [cost_dd]. lia.
  - intros d IH. cbn [cost_dd print_dd length]. rewrite app_length. cbn [length]. lia.
  - intros dd IH n. cbn [cost_dd]. destruct n; cbn [print_dd]; rewrite app_length; cbn [length]; lia.
  - intros dd IH ps IHps. cbn [cost_dd print_dd]. rewrite app_length. cbn [length]. rewrite app_length. cbn [length]. lia.
  - cbn [cost_params print_params length]. lia.
  - cbn [cost_params print_params length]. lia.
  - intros l IH v. cbn [cost_params print_params]. rewrite app_length. lia.
  - intros p IH. cbn [cost_plist print_plist]. lia.
  - intros p IH l IHl. cbn [cost_plist print_plist]. rewrite app_length. cbn [length]. lia.
  - intros b d IH. cbn [cost_param print_param length]. lia.
Qed.

Lemma fuel_enough : forall d rest, cost d <= fuel_for (print_decl d ++ rest).
Proof.
  intros d rest. unfold fuel_for. rewrite app_length.
  pose proof (proj1 cost_bound d). lia.
Qed.

(* ------------------------------------------------------------------ declarator(): headline of part 1 *)
Theorem declarator_print : forall d, c11_ok d = true ->
  forall fuel ty rest, stops rest -> cost d <= fuel ->
    declarator fuel (print_decl d ++ rest) ty
    = if chk d ty then Ok (name_of d, m_apply d ty, rest) else TooLarge.
Proof. exact (proj1 parse_all). Qed.

Theorem parse_declarator_print : forall d ty rest, c11_ok d = true -> stops rest ->
  parse_declarator (print_decl d ++ rest) ty
  = if chk d ty then Ok (name_of d, m_apply d ty, rest) else TooLarge.
Proof.
  intros d ty rest Hc Hs. unfold parse_declarator.
  apply declarator_print; try assumption. apply fuel_enough.
Qed.

Theorem func_params_print : forall ps, c11_ok_params ps = true ->
  forall fuel ret rest, cost_params ps <= fuel ->
    func_params fuel (print_params ps ++ TRParen :: rest) ret
    = if chk_params ps then Ok (MFunc ret (m_params ps) (m_variadic ps), rest) else TooLarge.
Proof. exact (proj1 (proj2 (proj2 parse_all))). Qed.

(* ------------------------------------------------------------------ abstract_declarator() *)
Definition A_decl (d : decl) : Prop :=
  c11_ok d = true -> name_of d = None ->
  forall fuel ty rest, stops rest -> cost d <= fuel ->
    abstract_declarator fuel (print_decl d ++ rest) ty = if chk d ty then Ok (m_apply d ty, rest) else TooLarge.

Definition A_dd (dd : direct) : Prop :=
  c11_ok_dd dd = true -> name_of_dd dd = None ->
  forall c l, good c l ->
    (is_func_dd dd = true -> l = []) ->
  forall fuel ty rest, stops rest -> cost_dd dd + c <= fuel ->
    abstract_part fuel (print_dd dd ++ print_sufs l ++ rest) ty
    = if chk_dd dd (m_sufs l ty) && chk_sufs l ty then Ok (m_apply_dd dd (m_sufs l ty), rest) else TooLarge.

Theorem abstract_all : (forall d, A_decl d) /\ (forall dd, A_dd dd).
Proof.
  assert (H : (forall d, A_decl d) /\ (forall dd, A_dd dd) /\ (forall ps : params, True) /\
              (forall l : plist, True) /\ (forall p : param, True)).
  2: { split; [exact (proj1 H)|exact (proj1 (proj2 H))]. }
  apply decl_mutind; try (intros; exact I).
  - (* DPtr *)
    intros q d IH Hc Hn fuel ty rest Hs Hf. cbn [c11_ok cost name_of m_apply chk] in *.
    destruct fuel as [|f]; [pose proof (cost_pos d); lia|].
    rewrite abstract_star by exact Hs. apply IH; assumption.
  - (* DDirect *)
    intros dd IH Hc Hn fuel ty rest Hs Hf. cbn [c11_ok cost name_of m_apply print_decl chk] in *.
    destruct fuel as [|f]; [lia|].
    rewrite abstract_declarator_S, pointers_nostar by (apply hd_dd_rest, Hs). cbn [fst snd].
    assert (Hg := good_nil).
    specialize (IH Hc Hn 1 [] Hg (fun _ => eq_refl) f ty rest Hs).
    cbn [print_sufs app m_sufs fold_right chk_sufs] in IH. rewrite andb_true_r in IH. apply IH. lia.
  - (* DIdent *)
    intros x _ Hn c l Hg _ fuel ty rest Hs Hf. cbn [cost_dd name_of_dd m_apply_dd chk_dd andb] in *. subst x.
    cbn [print_dd app]. destruct (plain_sufs l rest Hs) as [E1 _]. unfold abstract_part. rewrite E1.
    apply Hg; [exact Hs|lia].
  - (* DParen *)
    intros d IH Hc Hn c l Hg _ fuel ty rest Hs Hf.
    cbn [c11_ok_dd cost_dd name_of_dd m_apply_dd print_dd chk_dd] in *.
    apply andb_prop in Hc. destruct Hc as [Hne Hc]. apply negb_true_iff in Hne.
    cbn [app]. rewrite <- !app_assoc. cbn [app]. unfold abstract_part.
    rewrite (nested_start_paren d _ Hne).
    assert (Hs' : stops (TRParen :: print_sufs l ++ rest)) by reflexivity.
    rewrite (IH Hc Hn fuel dummy _ Hs') by lia.
    destruct (chk d dummy); cbn [bind snd andb]; [|reflexivity].
    rewrite (Hg fuel ty rest Hs) by lia.
    destruct (chk_sufs l ty); cbn [bind fst snd]; [|rewrite andb_false_r; reflexivity].
    rewrite (IH Hc Hn fuel (m_sufs l ty) _ Hs') by lia.
    destruct (chk d (m_sufs l ty)); reflexivity.
  - (* DArray *)
    intros dd' IH n Hc Hn c l Hg Hfun fuel ty rest Hs Hf.
    cbn [c11_ok_dd cost_dd name_of_dd m_apply_dd is_func_dd chk_dd] in *.
    apply andb_prop in Hc. destruct Hc as [Hc _]. apply andb_prop in Hc. destruct Hc as [Hnf Hc].
    apply negb_true_iff in Hnf.
    assert (Ep : print_dd (DArray dd' n) ++ print_sufs l ++ rest
                 = print_dd dd' ++ print_sufs (SArr n :: l) ++ rest).
    { destruct n; cbn [print_dd print_sufs print_suf]; norm_app; reflexivity. }
    rewrite Ep.
    rewrite (IH Hc Hn (c + 2) (SArr n :: l) (good_arr c l n Hg)); try assumption; [|intros H; congruence|lia].
    cbn [m_sufs fold_right m_suf chk_sufs]. fold (m_sufs l ty).
    destruct (fit n (m_sufs l ty)), (chk_sufs l ty), (chk_dd dd' (array_of (m_sufs l ty) (len_of n))); reflexivity.
  - (* DFunc *)
    intros dd' IH ps _ Hc Hn c l Hg Hfun fuel ty rest Hs Hf.
    cbn [c11_ok_dd cost_dd name_of_dd m_apply_dd is_func_dd chk_dd] in *.
    specialize (Hfun eq_refl). subst l.
    apply andb_prop in Hc. destruct Hc as [Hc Hcps]. apply andb_prop in Hc. destruct Hc as [Hnf Hc].
    apply negb_true_iff in Hnf.
    assert (Hg' : good (1 + cost_params ps) [SFun ps]).
    { intros fuel' ty' rest' Hs' Hf'. destruct fuel' as [|f']; [lia|].
      rewrite type_suffix_S. cbn [print_sufs print_suf app type_suffix_body m_sufs fold_right m_suf chk_sufs andb].
      rewrite app_nil_r, app_cons_assoc.
      apply (func_params_print ps Hcps). lia. }
    assert (Ep : print_dd (DFunc dd' ps) ++ print_sufs [] ++ rest
                 = print_dd dd' ++ print_sufs [SFun ps] ++ rest).
    { cbn [print_dd print_sufs print_suf]. norm_app. reflexivity. }
    rewrite Ep. cbn [m_sufs fold_right chk_sufs].
    rewrite (IH Hc Hn (1 + cost_params ps) [SFun ps] Hg'); try assumption; [|intros H; congruence|lia].
    cbn [m_sufs fold_right m_suf chk_sufs andb].
    destruct (chk_params ps), (chk_dd dd' (MFunc ty (m_params ps) (m_variadic ps))); reflexivity.
Qed.

Theorem abstract_declarator_print : forall d, c11_ok d = true -> name_of d = None ->
  forall fuel ty rest, stops rest -> cost d <= fuel ->
    abstract_declarator fuel (print_decl d ++ rest) ty = if chk d ty then Ok (m_apply d ty, rest) else TooLarge.
Proof. exact (proj1 abstract_all). Qed.

Theorem parse_abstract_print : forall d ty rest,
  c11_ok d = true -> name_of d = None -> stops rest ->
  parse_abstract (print_decl d ++ rest) ty = if chk d ty then Ok (m_apply d ty, rest) else TooLarge.
Proof.
  intros d ty rest Hc Hn Hs. unfold parse_abstract.
  apply abstract_declarator_print; try assumption. apply fuel_enough.
Qed.

(* a type name: declaration specifiers (one token) and an abstract declarator *)
Theorem parse_typename_print : forall b d rest,
  c11_ok d = true -> name_of d = None -> stops rest ->
  parse_typename (TBase b :: print_decl d ++ rest)
  = if chk d (MBase b) then Ok (m_apply d (MBase b), rest) else TooLarge.
Proof.
  intros b d rest Hc Hn Hs. unfold parse_typename, typename.
  apply abstract_declarator_print; try assumption.
  pose proof (fuel_enough d rest) as H. unfold fuel_for in *. cbn [length]. lia.
Qed.
