(* Whole trees, stage 1: every constant tree built from float / double constants with + - * /, unary minus and casts to
   float / double is folded by chibicc (Model/FloatFold.v) to its C11 value (Spec/C11Float.v), up to the choice of NaN;
   composed with fpgen's run_expr_correct_wt: the folded value is what the emitted code computes at run time.
   Partial: integer leaves / nodes, comparisons, ! && || ?: , and casts to integer types are outside [fp_tree]. *)
From Coq Require Import ZArith Bool List Lia.
From Flocq Require Import Core Binary Bits.
From Chibicc Require Import Spec.C11Int Spec.C11Float Spec.C11LDouble Model.ConstFold Model.FloatGen Model.FloatFold
     Proofs.X86SseProofs Proofs.FloatOpsProofs Proofs.FloatGenProofs Proofs.FloatFoldConv Proofs.FloatFoldProofs.
Local Open Scope Z_scope.

Definition is_fop (o : binop) : bool := match o with Add | Sub | Mul | Div => true | _ => false end.
Fixpoint fp_tree (e : fexpr) : bool :=
  match e with
  | FLitS _ | FLitD _ => true
  | FUn Neg a => fp_tree a
  | FBin o a b => is_fop o && fp_tree a && fp_tree b
  | FCast t a => is_fp t && fp_tree a
  | _ => false
  end.

Lemma uac_fp a b : is_fp a = true -> is_fp b = true -> is_fp (uac_ty a b) = true.
Proof. destruct a as [x| |], b as [y| |]; try discriminate; reflexivity. Qed.
Lemma promote_fp a : is_fp a = true -> promote_ty a = a.
Proof. destruct a; try discriminate; reflexivity. Qed.

Lemma fp_tree_type e : fp_tree e = true -> is_fp (ftype_of e) = true.
Proof.
  induction e as [t z|x|x|t n|o a IHa|o a IHa b IHb|t a IHa|c IHc a IHa b IHb|a IHa b IHb]; cbn [fp_tree]; intros H; try discriminate; try reflexivity.
  - destruct o; try discriminate. cbn [ftype_of]. rewrite (promote_fp _ (IHa H)). exact (IHa H).
  - apply andb_true_iff in H as [H Hb]. apply andb_true_iff in H as [Ho Ha].
    destruct o; try discriminate Ho; cbn [ftype_of is_arith]; apply uac_fp; auto.
  - apply andb_true_iff in H as [Ht _]. exact Ht.
Qed.

Lemma fp_val t v : is_fp t = true -> val_ok t v = true -> forall h, hmatch v h -> exists y, h = HF y.
Proof.
  intros Ft Vv h Hm. destruct t as [it| |]; [discriminate Ft| |]; destruct v; try discriminate Vv; destruct h as [?|y]; try contradiction; exists y; reflexivity.
Qed.

Section Tree.
Variable rho : nat -> val.

Theorem fold_fp_tree : forall e v, fp_tree e = true -> feval rho e = Some v -> exists h, fold e = Some h /\ hmatch v h.
Proof.
  induction e as [t z|x|x|t n|o a IHa|o a IHa b IHb|t a IHa|c IHc a IHa b IHb|a IHa b IHb]; cbn [fp_tree]; intros v W H; try discriminate W.
  - injection H as <-. eexists. split; [reflexivity|]. cbn [hmatch]. apply round_to_s, feq_refl.
  - injection H as <-. eexists. split; [reflexivity|]. cbn [hmatch]. apply round_to_d, feq_refl.
  - (* unary minus *)
    destruct o; try discriminate W. cbn [feval] in H. destruct (feval rho a) as [x|] eqn:Ea; [|discriminate].
    pose proof (feval_ok rho a x Ea) as Vx. pose proof (fp_tree_type a W) as Fa.
    destruct (IHa x W eq_refl) as (h & Eh & Hm).
    cbn [fold mf_type]. rewrite mf_promote, (mf_type_is_c11 a), (promote_fp _ Fa), Eh. cbn [hbind].
    destruct (cast_to_fp_correct (ftype_of a) (ftype_of a) x x h Fa Vx Hm) as (h' & Ec & Hm').
    { rewrite <- (promote_fp _ Fa) at 1. apply convert_promote, Vx. }
    rewrite Ec. cbn [hbind]. destruct (fp_val _ _ Fa Vx h' Hm') as (y & ->).
    exists (HF (round_to (ftype_of a) (opp_l y))). split.
    + destruct (ftype_of a); [discriminate Fa|reflexivity|reflexivity].
    + apply (neg_node_correct (ftype_of a) x v y Fa Hm' Vx H).
  - (* + - * / *)
    apply andb_true_iff in W as [W Wb]. apply andb_true_iff in W as [Wo Wa].
    pose proof (fp_tree_type a Wa) as Fa. pose proof (fp_tree_type b Wb) as Fb.
    set (C := uac_ty (ftype_of a) (ftype_of b)). assert (FC : is_fp C = true) by (apply uac_fp; assumption).
    assert (H' : match feval rho a, feval rho b with
                 | Some x, Some y => match convert C x, convert C y with Some x', Some y' => eval_common o C x' y' | _, _ => None end
                 | _, _ => None end = Some v).
    { destruct o; try discriminate Wo; exact H. }
    clear H. destruct (feval rho a) as [x|] eqn:Ea; [|discriminate]. destruct (feval rho b) as [y|] eqn:Eb; [|discriminate].
    destruct (convert C x) as [x'|] eqn:Cx; [|discriminate]. destruct (convert C y) as [y'|] eqn:Cy; [|discriminate].
    destruct (IHa x Wa eq_refl) as (ha & Eha & Hma). destruct (IHb y Wb eq_refl) as (hb & Ehb & Hmb).
    destruct (cast_to_fp_correct (ftype_of a) C x x' ha FC (feval_ok rho a x Ea) Hma Cx) as (ha' & Eca & Hma').
    destruct (cast_to_fp_correct (ftype_of b) C y y' hb FC (feval_ok rho b y Eb) Hmb Cy) as (hb' & Ecb & Hmb').
    pose proof (convert_ok _ _ _ Cx) as Vx'. pose proof (convert_ok _ _ _ Cy) as Vy'.
    destruct (fp_val _ _ FC Vx' ha' Hma') as (ya & ->). destruct (fp_val _ _ FC Vy' hb' Hmb') as (yb & ->).
    assert (Ao : is_arith o = true) by (destruct o; try discriminate Wo; reflexivity).
    destruct (arith_node_correct C o x' y' v ya yb FC Ao Hma' Hmb' Vx' Vy' H') as (r & Er & Hr).
    exists (HF (round_to C r)). split; [|exact Hr].
    assert (Sh : is_shift o = false) by (destruct o; try discriminate Wo; reflexivity).
    assert (E : fold (FBin o a b) =
                hbind (hbind (fold a) (h_cast (mf_type a) (mf_common (mf_type a) (mf_type b)))) (fun x0 =>
                hbind (hbind (fold b) (h_cast (mf_type b) (mf_common (mf_type a) (mf_type b)))) (fun y0 =>
                  match mf_common (mf_type a) (mf_type b), x0, y0 with
                  | TI t, HI x1, HI y1 => of_fres (m_binop o t x1 y1)
                  | _, HF x1, HF y1 => if is_arith o then hbind (h_arith (mf_common (mf_type a) (mf_type b)) o x1 y1) (fun r0 => Some (HF (round_to (mf_common (mf_type a) (mf_type b)) r0)))
                                       else hbind (h_cmp o x1 y1) (fun z => Some (HI z))
                  | _, _, _ => None
                  end))).
    { destruct o; try discriminate Wo; reflexivity. }
    rewrite E, mf_common_is_uac, !mf_type_is_c11. fold C. rewrite Eha, Ehb. cbn [hbind]. rewrite Eca, Ecb. cbn [hbind].
    rewrite Ao, Er. cbn [hbind]. destruct C; [discriminate FC|reflexivity|reflexivity].
  - (* cast to float / double *)
    apply andb_true_iff in W as [Ft Wa]. cbn [feval] in H. destruct (feval rho a) as [x|] eqn:Ea; [|discriminate].
    destruct (IHa x Wa eq_refl) as (h & Eh & Hm). cbn [fold]. rewrite Eh, mf_type_is_c11. cbn [hbind].
    apply (cast_to_fp_correct (ftype_of a) t x v h Ft (feval_ok rho a x Ea) Hm H).
Qed.
End Tree.

Lemma fp_tree_constant e : fp_tree e = true -> constant e = true /\ well_typed e = true.
Proof.
  induction e as [t z|x|x|t n|o a IHa|o a IHa b IHb|t a IHa|c IHc a IHa b IHb|a IHa b IHb]; cbn [fp_tree constant well_typed]; intros H; try discriminate; auto.
  - destruct o; try discriminate. apply IHa, H.
  - apply andb_true_iff in H as [H Hb]. apply andb_true_iff in H as [Ho Ha].
    destruct (IHa Ha) as [-> ->], (IHb Hb) as [-> ->]. destruct o; try discriminate Ho; auto.
  - apply andb_true_iff in H as [_ Ha]. apply IHa, Ha.
Qed.

(* the bits write_gvar_data stores for `static float/double s = e;` are the bits the code emitted for e leaves in %xmm0 *)
Theorem static_equals_runtime rho e v : fp_tree e = true -> feval rho e = Some v ->
  exists h b, fold e = Some h /\ hmatch v h /\ run_expr rho e = Some b /\ result_is (ftype_of e) v b.
Proof.
  intros W H. destruct (fold_fp_tree rho e v W H) as (h & Eh & Hm).
  destruct (run_expr_correct_wt rho e v (proj2 (fp_tree_constant e W)) H) as (b & Eb & Rb).
  exists h, b. auto.
Qed.

(* in bytes: unless the value is a NaN (whose sign / payload C leaves open), the object bytes of `static T s = e;` ARE the run-time result bits *)
Theorem static_bits_equal_runtime rho e v : fp_tree e = true -> feval rho e = Some v ->
  exists sb b, static_bits (ftype_of e) e = Some sb /\ run_expr rho e = Some b /\
    match v with
    | VS x => ftype_of e = TF32 /\ (is_nan 24 128 x = false -> sb = b /\ b = bits_of_b32 x)
    | VD x => ftype_of e = TF64 /\ (is_nan 53 1024 x = false -> sb = b /\ b = bits_of_b64 x)
    | VI _ => False
    end.
Proof.
  intros W H. destruct (static_equals_runtime rho e v W H) as (h & b & Eh & Hm & Eb & Rb).
  pose proof (fp_tree_type e W) as Ft. pose proof (feval_ok rho e v H) as Vv.
  unfold static_bits. rewrite Eh. cbn [hbind].
  destruct (ftype_of e) eqn:Et; [discriminate Ft| |].
  - destruct v as [?|x|?]; try discriminate Vv. destruct h as [?|y]; [contradiction|]. cbn [hmatch as_ld] in *.
    eexists. exists b. split; [reflexivity|]. split; [exact Eb|]. split; [reflexivity|]. intros N.
    destruct Rb as (_ & _ & Rb). rewrite (feq_exact _ _ (carried_s y x Hm) N), (Rb N). split; reflexivity.
  - destruct v as [?|?|x]; try discriminate Vv. destruct h as [?|y]; [contradiction|]. cbn [hmatch as_ld] in *.
    eexists. exists b. split; [reflexivity|]. split; [exact Eb|]. split; [reflexivity|]. intros N.
    destruct Rb as (_ & _ & Rb). rewrite (feq_exact _ _ (carried_d y x Hm) N), (Rb N). split; reflexivity.
Qed.
