(* Model of print_tokens() in main.c (the -E printer), as it stands after the fixes 0bad2d4
   (prints preprocessing tokens), 2fd0144 (separates tokens that were not adjacent in one source
   text) and 3575287 (a `#` that is not a directive is not printed at the start of a line):

     int line = 1; Token *prev = NULL;
     for (; tok->kind != TK_EOF; tok = tok->next) {
       bool adjacent = prev && prev->file == tok->file && prev->loc + prev->len == tok->loc;
       if (line > 1 && tok->at_bol && !equal(tok, "#")) fprintf(out, "\n");
       else if (tok->has_space || (prev && !adjacent))  fprintf(out, " ");
       fprintf(out, "%.*s", tok->len, tok->loc);
       line++; prev = tok;
     }
     fprintf(out, "\n");

   What the C code looks at, per token: the spelling (loc, len), has_space, at_bol, and the pointer
   comparison `adjacent`.  Pointers are not modelled: the token carries the OUTCOME of that
   comparison as the boolean [e_adj] ("this token starts at the byte where its predecessor in the
   list ends, in the same File").  `line > 1` and `prev != NULL` both mean "not the first token".
   The kind is not looked at (apart from TK_EOF = end of list); it is carried for the theorems.

   [relex] is what a tokenizer run over the printed text must give back, flags included; the
   round-trip theorem (Proofs/EPrintProofs.v) says that Model/Lexer.v's tokenizer does. *)
From Coq Require Import List NArith Bool.
From Chibicc Require Import Model.Lexer.
Import ListNotations.
Local Open Scope N_scope.

Record etok := { e_kind : tkind; e_text : list N; e_space : bool; e_bol : bool; e_adj : bool }.

(* equal(tok, "#") *)
Definition is_hash (t : list N) : bool :=
  match t with [c] => c =? 35 | _ => false end.

(* the new-line branch of the printer *)
Definition starts_line (first : bool) (t : etok) : bool :=
  negb first && e_bol t && negb (is_hash (e_text t)).
(* the space branch, tried when the new-line branch is not taken *)
Definition wants_space (first : bool) (t : etok) : bool :=
  e_space t || (negb first && negb (e_adj t)).

Definition sep_before (first : bool) (t : etok) : list N :=
  if starts_line first t then [10] else if wants_space first t then [32] else [].

Fixpoint eprint_from (first : bool) (ts : list etok) : list N :=
  match ts with
  | [] => [10]
  | t :: r => sep_before first t ++ e_text t ++ eprint_from false r
  end.
Definition eprint (ts : list etok) : list N := eprint_from true ts.

(* ---------- what reading the printed text back must give ---------- *)
(* the token as the tokenizer sees it in the printed text: same kind and spelling; at the beginning
   of a line iff a new-line was printed before it (or it is the first token of the text); preceded
   by white space iff the printer printed the space *)
Definition relex_tok (first : bool) (t : etok) : tok :=
  if starts_line first t
  then {| t_kind := e_kind t; t_text := e_text t; t_space := false; t_bol := true |}
  else {| t_kind := e_kind t; t_text := e_text t; t_space := wants_space first t; t_bol := first |}.

Fixpoint relex_from (first : bool) (ts : list etok) : list tok :=
  match ts with
  | [] => []
  | t :: r => relex_tok first t :: relex_from false r
  end.
Definition relex (ts : list etok) : list tok := relex_from true ts.

(* tokens that come out of ONE tokenizer run, as the printer sees them: two consecutive tokens of
   one text are adjacent iff nothing was skipped between them, i.e. neither flag is set *)
Definition of_lexed (l : list tok) : list etok :=
  map (fun t => {| e_kind := t_kind t; e_text := t_text t; e_space := t_space t; e_bol := t_bol t;
                   e_adj := negb (t_space t) && negb (t_bol t) |}) l.

(* ---------- which token lists the printer is given ---------- *)
(* a token printed with nothing in front of it: not first, adjacent, no has_space, no new-line *)
Definition glued (t : etok) : bool :=
  e_adj t && negb (e_space t) && negb (e_bol t && negb (is_hash (e_text t))).

(* the spellings that follow a token without any separator in the printed text *)
Fixpoint glue_text (ts : list etok) : list N :=
  match ts with
  | t :: r => if glued t then e_text t ++ glue_text r else []
  | [] => []
  end.

Section WithTable.
Variable tbl : list (list N).

(* "the tokenizer, standing at the first byte of [a ++ ctx], takes exactly [a], as a token of kind k":
   no comment opens there and the scanners of tokenize() cut [a] *)
Definition lexed_in_b (k : tkind) (a ctx : list N) : bool :=
  negb (starts_with (a ++ ctx) [47; 47]) && negb (starts_with (a ++ ctx) [47; 42]) &&
  match first_token tbl (a ++ ctx) with
  | Some (k', n) => (match k, k' with
                     | LIdent, LIdent | LPunct, LPunct | LNum, LNum | LStr, LStr | LChr, LChr => true
                     | _, _ => false end) && Nat.eqb n (length a)
  | None => false
  end.

(* Decidable form of the hypothesis of the round-trip theorem (see [printable] in the proofs for the
   form that speaks about the source text): every token, followed by the spellings glued to it and
   then a new-line, is cut by the tokenizer as itself. *)
Fixpoint printable_b (ts : list etok) : bool :=
  match ts with
  | [] => true
  | t :: r => lexed_in_b (e_kind t) (e_text t) (glue_text r ++ [10]) && printable_b r
  end.
End WithTable.

(* the open finding C19-leading-hash: the first token of the whole output is `#` *)
Definition leading_hash (ts : list etok) : bool :=
  match ts with t :: _ => is_hash (e_text t) | [] => false end.
