(* Model of print_tokens() in main.c (the -E printer), as it stands after the fixes 0bad2d4
   (prints preprocessing tokens), 2fd0144 (separates tokens that were not adjacent in one source
   text), 3575287 (a `#` that is not a directive is not printed at the start of a line), f21a1fb
   (a lone `\` token is not printed directly before a new-line) and 87479b9 (a first token that
   begins with the bytes EF BB BF gets a space in front):

     if (!tok->has_space && !strncmp(tok->loc, "\xef\xbb\xbf", 3)) fprintf(out, " ");
     int line = 1; Token *prev = NULL;
     for (; tok->kind != TK_EOF; tok = tok->next) {
       bool adjacent = prev && prev->file == tok->file && prev->loc + prev->len == tok->loc;
       if (line > 1 && tok->at_bol && !equal(tok, "#")) fprintf(out, equal(prev, "\\") ? " \n" : "\n");
       else if (tok->has_space || (prev && !adjacent))  fprintf(out, " ");
       fprintf(out, "%.*s", tok->len, tok->loc);
       line++; prev = tok;
     }
     fprintf(out, prev && equal(prev, "\\") ? " \n" : "\n");

   What the C code looks at, per token: the spelling (loc, len), has_space, at_bol, and the pointer
   comparison `adjacent`.  Pointers are not modelled: the token carries the OUTCOME of that
   comparison as the boolean [e_adj] ("this token starts at the byte where its predecessor in the
   list ends, in the same File").  `line > 1` and `prev != NULL` both mean "not the first token"
   ([first]); `equal(prev, "\\")` is carried along as [pb] (false while there is no prev).
   The strncmp of the first statement looks at three bytes of the BUFFER at tok->loc; the model
   looks at the first three bytes of the SPELLING ([bom_start]): the same whenever the token has
   three bytes or more, and tokenize() cuts no shorter token beginning with EF (decode_utf8 demands
   the two continuation bytes).  For an empty list tok is the TK_EOF token of the main file, whose
   loc points at the terminating NUL: no space.
   The kind is not looked at (apart from TK_EOF = end of list); it is carried for the theorems.

   [relex] is what a tokenizer run over the printed text must give back, flags included; the
   round-trip theorem (Proofs/EPrintProofs.v) says that Model/Lexer.v's tokenizer does. *)
From Coq Require Import List NArith Bool.
From Chibicc Require Import Model.Lexer.
Import ListNotations.
Local Open Scope N_scope.

Record etok := { e_kind : tkind; e_text : list N; e_space : bool; e_bol : bool; e_adj : bool }.

(* equal(tok, "#"), equal(tok, "\\") *)
Definition is_hash (t : list N) : bool :=
  match t with [c] => c =? 35 | _ => false end.
Definition is_bslash (t : list N) : bool :=
  match t with [c] => c =? 92 | _ => false end.
(* !strncmp(tok->loc, "\xef\xbb\xbf", 3) *)
Definition bom_start (t : list N) : bool :=
  match t with a :: b :: c :: _ => (a =? 239) && (b =? 187) && (c =? 191) | _ => false end.

(* the new-line branch of the printer *)
Definition starts_line (first : bool) (t : etok) : bool :=
  negb first && e_bol t && negb (is_hash (e_text t)).
(* the space branch, tried when the new-line branch is not taken *)
Definition wants_space (first : bool) (t : etok) : bool :=
  e_space t || (negb first && negb (e_adj t)).

(* the new-line the printer writes: " \n" behind a `\` token, "\n" otherwise *)
Definition newline (pb : bool) : list N := if pb then [32; 10] else [10].

Definition sep_before (first pb : bool) (t : etok) : list N :=
  if starts_line first t then newline pb else if wants_space first t then [32] else [].

Fixpoint eprint_from (first pb : bool) (ts : list etok) : list N :=
  match ts with
  | [] => newline pb
  | t :: r => sep_before first pb t ++ e_text t ++ eprint_from false (is_bslash (e_text t)) r
  end.

(* the statement in front of the loop *)
Definition bom_guard (ts : list etok) : bool :=
  match ts with t :: _ => negb (e_space t) && bom_start (e_text t) | [] => false end.

Definition eprint (ts : list etok) : list N :=
  (if bom_guard ts then [32] else []) ++ eprint_from true false ts.

(* ---------- what reading the printed text back must give ---------- *)
(* the token as the tokenizer sees it in the printed text: same kind and spelling; at the beginning
   of a line iff a new-line was printed before it (or it is the first token of the text); preceded
   by white space iff a space was printed in front of it on its line ([sp0]: the space of the
   guard in front of the loop; the space of " \n" is on the line before and does not count) *)
Definition relex_tok (first sp0 : bool) (t : etok) : tok :=
  if starts_line first t
  then {| t_kind := e_kind t; t_text := e_text t; t_space := false; t_bol := true |}
  else {| t_kind := e_kind t; t_text := e_text t; t_space := sp0 || wants_space first t; t_bol := first |}.

Fixpoint relex_from (first sp0 : bool) (ts : list etok) : list tok :=
  match ts with
  | [] => []
  | t :: r => relex_tok first sp0 t :: relex_from false false r
  end.
Definition relex (ts : list etok) : list tok := relex_from true (bom_guard ts) ts.

(* tokens that come out of ONE tokenizer run, as the printer sees them: two consecutive tokens of
   one text are adjacent iff nothing was skipped between them, i.e. neither flag is set *)
Definition of_lexed (l : list tok) : list etok :=
  map (fun t => {| e_kind := t_kind t; e_text := t_text t; e_space := t_space t; e_bol := t_bol t;
                   e_adj := negb (t_space t) && negb (t_bol t) |}) l.

(* ---------- which token lists the printer is given ---------- *)
(* a token printed with nothing in front of it: not first, adjacent, no has_space, no new-line *)
Definition glued (t : etok) : bool :=
  e_adj t && negb (e_space t) && negb (e_bol t && negb (is_hash (e_text t))).

(* the spellings that follow a token without any separator in the printed text *)
Fixpoint glue_text (ts : list etok) : list N :=
  match ts with
  | t :: r => if glued t then e_text t ++ glue_text r else []
  | [] => []
  end.

Section WithTable.
Variable tbl : list (list N).

(* "the tokenizer, standing at the first byte of [a ++ ctx], takes exactly [a], as a token of kind k":
   no comment opens there and the scanners of tokenize() cut [a] *)
Definition lexed_in_b (k : tkind) (a ctx : list N) : bool :=
  negb (starts_with (a ++ ctx) [47; 47]) && negb (starts_with (a ++ ctx) [47; 42]) &&
  match first_token tbl (a ++ ctx) with
  | Some (k', n) => (match k, k' with
                     | LIdent, LIdent | LPunct, LPunct | LNum, LNum | LStr, LStr | LChr, LChr => true
                     | _, _ => false end) && Nat.eqb n (length a)
  | None => false
  end.

(* Decidable form of the hypothesis of the round-trip theorem (see [printable] in the proofs for the
   form that speaks about the source text): every token, followed by the spellings glued to it and
   then a new-line, is cut by the tokenizer as itself. *)
Fixpoint printable_b (ts : list etok) : bool :=
  match ts with
  | [] => true
  | t :: r => lexed_in_b (e_kind t) (e_text t) (glue_text r ++ [10]) && printable_b r
  end.
End WithTable.

(* the open finding C19-leading-hash: the first token of the whole output is `#` *)
Definition leading_hash (ts : list etok) : bool :=
  match ts with t :: _ => is_hash (e_text t) | [] => false end.

(* ---------- spellings that phases 1-2 of a reader would alter ---------- *)
(* Not looked at by the printer; hypotheses of the "survives phases 1-2" theorem.  A spelling is
   [clean] when it holds no carriage return, no backslash directly followed by a new-line, and does
   not end in a backslash unless it is the `\` token itself.  Spellings cut by tokenize() from a file
   are clean (the file went through phases 1-2; only the punctuator `\` ends in a backslash). *)
Fixpoint has_bs_nl (p : list N) : bool :=
  match p with
  | [] => false
  | c :: r => ((c =? 92) && match r with d :: _ => d =? 10 | [] => false end) || has_bs_nl r
  end.
Fixpoint ends_in_bslash (p : list N) : bool :=
  match p with
  | [] => false
  | c :: r => match r with [] => c =? 92 | _ :: _ => ends_in_bslash r end
  end.
Definition clean_text (a : list N) : bool :=
  negb (existsb (fun c => c =? 13) a) && negb (has_bs_nl a) && (negb (ends_in_bslash a) || is_bslash a).
Definition clean_tokens (ts : list etok) : bool := forallb (fun t => clean_text (e_text t)) ts.
