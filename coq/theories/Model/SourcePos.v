(* tokenize_file() as a whole: read_file's final new-line, the BOM skip, phases 1-2 (Phases.v),
   tokenize() (Lexer.v, here with the offset of every token) and add_line_numbers.  For every
   token the model also computes, through the origin indices of Phases.v, the physical line of
   the token's first byte in the file as stored and the number of splices pending there.
   Not modelled: convert_universal_chars (\uXXXX never contains or removes a line end), NUL bytes
   (the C string ends there). *)
From Coq Require Import List NArith Bool Arith.
From Chibicc Require Import Model.Lexer Model.Phases.
Import ListNotations.
Local Open Scope N_scope.

Section Pos.
Variable punct_table : list (list N).

(* lex with the length of the remaining input at each token start *)
Fixpoint lex_pos (fuel : nat) (p : list N) (bol sp : bool) : option (list (tok * nat)) :=
  match fuel with
  | O => match p with [] => Some [] | _ => None end
  | S f =>
    match p with
    | [] => Some []
    | c :: r =>
      if starts_with p [47; 47] then lex_pos f (skip_to_newline r) bol true
      else if starts_with p [47; 42] then
        match skip_block_comment (skipn 2 p) with Some r' => lex_pos f r' bol true | None => None end
      else if c =? 10 then lex_pos f r true false
      else if is_space c then lex_pos f r bol true
      else
        match first_token punct_table p with
        | Some (k, n) =>
          match lex_pos f (skipn n p) false false with
          | Some l => Some ((mk k p n sp bol, length p) :: l) | None => None end
        | None => None
        end
    end
  end.

(* read_file: the last line is terminated; tokenize_file: a leading BOM is skipped *)
Definition terminate (s : list N) : list N :=
  match rev s with 10 :: _ => s | _ => s ++ [10] end.
Definition skip_bom (s : list N) : list N :=
  match s with 239 :: 187 :: 191 :: r => r | _ => s end.
Definition load (s : list N) : list N := skip_bom (terminate s).

Record tokpos := { tp_tok : tok; tp_line : nat; tp_phys : nat; tp_pending : nat }.

Definition locate (s : list N) (j : nat) : option (nat * nat) :=      (* physical line, pending *)
  match nth_error (splice_idx 0 0 (canon s)) j with
  | Some (b, Some (i, k)) =>
    match nth_error (canon_idx 0 s) i with
    | Some (b', o) => if b =? b' then Some (phys_line s o, k) else None
    | None => None
    end
  | _ => None
  end.

Fixpoint annotate (s buf : list N) (l : list (tok * nat)) : option (list tokpos) :=
  match l with
  | [] => Some []
  | (t, rest) :: l' =>
    let j := (length buf - rest)%nat in
    match locate s j, annotate s buf l' with
    | Some (ph, k), Some r => Some ({| tp_tok := t; tp_line := line_at buf j; tp_phys := ph; tp_pending := k |} :: r)
    | _, _ => None
    end
  end.

Definition token_lines (file : list N) : option (list tokpos) :=
  let s := load file in
  let buf := phases12 s in
  match lex_pos (S (length buf)) buf true false with
  | Some l => annotate s buf l
  | None => None
  end.
End Pos.
