(* The cast table as the floating-point development expects it, row by row: written down once by
   hand from the reviewed sequences (u64 -> float/double by halving with a sticky bit, fp -> u64 by
   subtracting 2^63 and flipping bit 63, x87 stores with the control word set to truncation, the
   right sign/zero extension after every narrow store).  Gen/CastTable.v is regenerated from
   codegen.c on every run; Proofs/FloatConvProofs.v proves the two equal, so any edit of a row in
   codegen.c breaks that proof obligation. *)
From Coq Require Import List String.
From Chibicc Require Import Model.X86Int Model.CodegenInt.
Import ListNotations.
Local Open Scope string_scope.
Definition expected_cast_table : list (list (option (list xinsn))) :=
 [
  (* from I8 *) [None;
     None;
     None;
     Some [XI IMovsxd];
     Some [XI IMovzbl];
     Some [XI IMovzwl];
     None;
     Some [XI IMovsxd];
     Some [XText "cvtsi2ssl %eax, %xmm0"];
     Some [XText "cvtsi2sdl %eax, %xmm0"];
     Some [XText "mov %eax, -4(%rsp)"; XText "fildl -4(%rsp)"]];
  (* from I16 *) [Some [XI IMovsbl];
     None;
     None;
     Some [XI IMovsxd];
     Some [XI IMovzbl];
     Some [XI IMovzwl];
     None;
     Some [XI IMovsxd];
     Some [XText "cvtsi2ssl %eax, %xmm0"];
     Some [XText "cvtsi2sdl %eax, %xmm0"];
     Some [XText "mov %eax, -4(%rsp)"; XText "fildl -4(%rsp)"]];
  (* from I32 *) [Some [XI IMovsbl];
     Some [XI IMovswl];
     None;
     Some [XI IMovsxd];
     Some [XI IMovzbl];
     Some [XI IMovzwl];
     None;
     Some [XI IMovsxd];
     Some [XText "cvtsi2ssl %eax, %xmm0"];
     Some [XText "cvtsi2sdl %eax, %xmm0"];
     Some [XText "mov %eax, -4(%rsp)"; XText "fildl -4(%rsp)"]];
  (* from I64 *) [Some [XI IMovsbl];
     Some [XI IMovswl];
     None;
     None;
     Some [XI IMovzbl];
     Some [XI IMovzwl];
     None;
     None;
     Some [XText "cvtsi2ssq %rax, %xmm0"];
     Some [XText "cvtsi2sdq %rax, %xmm0"];
     Some [XText "movq %rax, -8(%rsp)"; XText "fildll -8(%rsp)"]];
  (* from U8 *) [Some [XI IMovsbl];
     None;
     None;
     Some [XI IMovsxd];
     None;
     None;
     None;
     Some [XI IMovsxd];
     Some [XText "cvtsi2ssl %eax, %xmm0"];
     Some [XText "cvtsi2sdl %eax, %xmm0"];
     Some [XText "mov %eax, -4(%rsp)"; XText "fildl -4(%rsp)"]];
  (* from U16 *) [Some [XI IMovsbl];
     Some [XI IMovswl];
     None;
     Some [XI IMovsxd];
     Some [XI IMovzbl];
     None;
     None;
     Some [XI IMovsxd];
     Some [XText "cvtsi2ssl %eax, %xmm0"];
     Some [XText "cvtsi2sdl %eax, %xmm0"];
     Some [XText "mov %eax, -4(%rsp)"; XText "fildl -4(%rsp)"]];
  (* from U32 *) [Some [XI IMovsbl];
     Some [XI IMovswl];
     None;
     Some [XI IMovEaxEax];
     Some [XI IMovzbl];
     Some [XI IMovzwl];
     None;
     Some [XI IMovEaxEax];
     Some [XI IMovEaxEax; XText "cvtsi2ssq %rax, %xmm0"];
     Some [XI IMovEaxEax; XText "cvtsi2sdq %rax, %xmm0"];
     Some [XI IMovEaxEax; XText "mov %rax, -8(%rsp)"; XText "fildll -8(%rsp)"]];
  (* from U64 *) [Some [XI IMovsbl];
     Some [XI IMovswl];
     None;
     None;
     Some [XI IMovzbl];
     Some [XI IMovzwl];
     None;
     None;
     Some [XText "test %rax,%rax"; XText "js 1f"; XText "pxor %xmm0,%xmm0"; XText "cvtsi2ss %rax,%xmm0"; XText "jmp 2f"; XText "1: mov %rax,%rdi"; XText "and $1,%eax"; XText "pxor %xmm0,%xmm0"; XText "shr %rdi"; XText "or %rax,%rdi"; XText "cvtsi2ss %rdi,%xmm0"; XText "addss %xmm0,%xmm0"; XText "2:"];
     Some [XText "test %rax,%rax"; XText "js 1f"; XText "pxor %xmm0,%xmm0"; XText "cvtsi2sd %rax,%xmm0"; XText "jmp 2f"; XText "1: mov %rax,%rdi"; XText "and $1,%eax"; XText "pxor %xmm0,%xmm0"; XText "shr %rdi"; XText "or %rax,%rdi"; XText "cvtsi2sd %rdi,%xmm0"; XText "addsd %xmm0,%xmm0"; XText "2:"];
     Some [XText "mov %rax, -8(%rsp)"; XText "fildq -8(%rsp)"; XText "test %rax, %rax"; XText "jns 1f"; XText "mov $1602224128, %eax"; XText "mov %eax, -4(%rsp)"; XText "fadds -4(%rsp)"; XText "1:"]];
  (* from F32 *) [Some [XText "cvttss2sil %xmm0, %eax"; XI IMovsbl];
     Some [XText "cvttss2sil %xmm0, %eax"; XI IMovswl];
     Some [XText "cvttss2sil %xmm0, %eax"];
     Some [XText "cvttss2siq %xmm0, %rax"];
     Some [XText "cvttss2sil %xmm0, %eax"; XI IMovzbl];
     Some [XText "cvttss2sil %xmm0, %eax"; XI IMovzwl];
     Some [XText "cvttss2siq %xmm0, %rax"];
     Some [XText "mov $0x5f000000, %edi"; XText "movd %edi, %xmm1"; XText "comiss %xmm1, %xmm0"; XText "jae 1f"; XText "cvttss2siq %xmm0, %rax"; XText "jmp 2f"; XText "1: subss %xmm1, %xmm0"; XText "cvttss2siq %xmm0, %rax"; XText "btc $63, %rax"; XText "2:"];
     None;
     Some [XText "cvtss2sd %xmm0, %xmm0"];
     Some [XText "movss %xmm0, -4(%rsp)"; XText "flds -4(%rsp)"]];
  (* from F64 *) [Some [XText "cvttsd2sil %xmm0, %eax"; XI IMovsbl];
     Some [XText "cvttsd2sil %xmm0, %eax"; XI IMovswl];
     Some [XText "cvttsd2sil %xmm0, %eax"];
     Some [XText "cvttsd2siq %xmm0, %rax"];
     Some [XText "cvttsd2sil %xmm0, %eax"; XI IMovzbl];
     Some [XText "cvttsd2sil %xmm0, %eax"; XI IMovzwl];
     Some [XText "cvttsd2siq %xmm0, %rax"];
     Some [XText "mov $0x43e0000000000000, %rdi"; XText "movq %rdi, %xmm1"; XText "comisd %xmm1, %xmm0"; XText "jae 1f"; XText "cvttsd2siq %xmm0, %rax"; XText "jmp 2f"; XText "1: subsd %xmm1, %xmm0"; XText "cvttsd2siq %xmm0, %rax"; XText "btc $63, %rax"; XText "2:"];
     Some [XText "cvtsd2ss %xmm0, %xmm0"];
     None;
     Some [XText "movsd %xmm0, -8(%rsp)"; XText "fldl -8(%rsp)"]];
  (* from F80 *) [Some [XText "fnstcw -10(%rsp)"; XText "movzwl -10(%rsp), %eax"; XText "or $12, %ah"; XText "mov %ax, -12(%rsp)"; XText "fldcw -12(%rsp)"; XText "fistps -24(%rsp)"; XText "fldcw -10(%rsp)"; XText "movsbl -24(%rsp), %eax"];
     Some [XText "fnstcw -10(%rsp)"; XText "movzwl -10(%rsp), %eax"; XText "or $12, %ah"; XText "mov %ax, -12(%rsp)"; XText "fldcw -12(%rsp)"; XText "fistps -24(%rsp)"; XText "fldcw -10(%rsp)"; XText "movswl -24(%rsp), %eax"];
     Some [XText "fnstcw -10(%rsp)"; XText "movzwl -10(%rsp), %eax"; XText "or $12, %ah"; XText "mov %ax, -12(%rsp)"; XText "fldcw -12(%rsp)"; XText "fistpl -24(%rsp)"; XText "fldcw -10(%rsp)"; XText "mov -24(%rsp), %eax"];
     Some [XText "fnstcw -10(%rsp)"; XText "movzwl -10(%rsp), %eax"; XText "or $12, %ah"; XText "mov %ax, -12(%rsp)"; XText "fldcw -12(%rsp)"; XText "fistpq -24(%rsp)"; XText "fldcw -10(%rsp)"; XText "mov -24(%rsp), %rax"];
     Some [XText "fnstcw -10(%rsp)"; XText "movzwl -10(%rsp), %eax"; XText "or $12, %ah"; XText "mov %ax, -12(%rsp)"; XText "fldcw -12(%rsp)"; XText "fistps -24(%rsp)"; XText "fldcw -10(%rsp)"; XText "movzbl -24(%rsp), %eax"];
     Some [XText "fnstcw -10(%rsp)"; XText "movzwl -10(%rsp), %eax"; XText "or $12, %ah"; XText "mov %ax, -12(%rsp)"; XText "fldcw -12(%rsp)"; XText "fistpl -24(%rsp)"; XText "fldcw -10(%rsp)"; XText "movzwl -24(%rsp), %eax"];
     Some [XText "fnstcw -10(%rsp)"; XText "movzwl -10(%rsp), %eax"; XText "or $12, %ah"; XText "mov %ax, -12(%rsp)"; XText "fldcw -12(%rsp)"; XText "fistpq -24(%rsp)"; XText "fldcw -10(%rsp)"; XText "mov -24(%rsp), %eax"];
     Some [XText "mov $0x5f000000, %eax"; XText "mov %eax, -4(%rsp)"; XText "flds -4(%rsp)"; XText "fcomip %st(1)"; XText "jbe 1f"; XText "fnstcw -10(%rsp)"; XText "movzwl -10(%rsp), %eax"; XText "or $12, %ah"; XText "mov %ax, -12(%rsp)"; XText "fldcw -12(%rsp)"; XText "fistpq -24(%rsp)"; XText "fldcw -10(%rsp)"; XText "mov -24(%rsp), %rax"; XText "jmp 2f"; XText "1: fsubs -4(%rsp)"; XText "fnstcw -10(%rsp)"; XText "movzwl -10(%rsp), %eax"; XText "or $12, %ah"; XText "mov %ax, -12(%rsp)"; XText "fldcw -12(%rsp)"; XText "fistpq -24(%rsp)"; XText "fldcw -10(%rsp)"; XText "mov -24(%rsp), %rax"; XText "btc $63, %rax"; XText "2:"];
     Some [XText "fstps -8(%rsp)"; XText "movss -8(%rsp), %xmm0"];
     Some [XText "fstpl -8(%rsp)"; XText "movsd -8(%rsp), %xmm0"];
     None]
 ].
