(* #include resolution (preprocess.c: the #include branch of preprocess2, search_include_paths,
   search_include_next; main.c: the order in which include_paths is built).  Directories and file
   names are abstract; [ex d n] says that file n exists in directory d.  The lookup cache of
   search_include_paths is transparent (it stores the index found), so it is not part of the model;
   that it is transparent is checked by the correspondence on repeated inclusions. *)
From Coq Require Import List Bool Arith.
Import ListNotations.

Section Inc.
Variables D N : Type.
Variable ex : D -> N -> bool.

(* main.c: -I directories in command-line order, then the standard ones, then -idirafter *)
Definition include_paths (dash_i std idirafter : list D) : list D := dash_i ++ std ++ idirafter.

Fixpoint search_from (i : nat) (paths : list D) (n : N) : option (nat * D) :=      (* index found, directory *)
  match paths with
  | [] => None
  | d :: r => if ex d n then Some (i, d) else search_from (S i) r n
  end.

(* #include "n" from a file in directory cur / #include <n> *)
Definition resolve (dquote : bool) (cur : D) (paths : list D) (n : N) : option D :=
  if dquote && ex cur n then Some cur else option_map snd (search_from 0 paths n).

(* #include_next: continue after the index where the previous search succeeded *)
Definition resolve_next (next_idx : nat) (paths : list D) (n : N) : option D :=
  option_map snd (search_from next_idx (skipn next_idx paths) n).
End Inc.
