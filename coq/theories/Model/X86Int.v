(* "x86-lite", integer part: the registers chibicc's expression code uses (rax, rdi, rdx, rcx as
   64-bit values 0 <= r < 2^64), the three conditions its setcc instructions read, and the
   instructions gen_expr / cast emit for integer operands.  My reading of the Intel SDM:
   - a 32-bit destination write zero-extends into the 64-bit register;
   - cmp sets ZF (equal), CF (unsigned below) and SF<>OF (signed less) from the operand-size view;
   - idiv/div raise #DE (modelled as [None]) on a zero divisor or a quotient that does not fit;
   - shift counts are taken modulo 32 (64 for 64-bit operands). *)
From Coq Require Import ZArith Bool List.
Import ListNotations.
Local Open Scope Z_scope.

Inductive opsz := W32 | W64.
Definition bits (w : opsz) : Z := match w with W32 => 32 | W64 => 64 end.

Record xstate := { rax : Z; rdi : Z; rdx : Z; rcx : Z; f_zf : bool; f_cf : bool; f_lt : bool }.

Definition lo (w : opsz) (z : Z) : Z := z mod 2 ^ bits w.
Definition sgn (w : opsz) (z : Z) : Z :=       (* signed view of the low [bits w] bits *)
  let r := z mod 2 ^ bits w in if 2 ^ (bits w - 1) <=? r then r - 2 ^ bits w else r.
Definition sx (n : Z) (z : Z) : Z := let r := z mod 2 ^ n in if 2 ^ (n - 1) <=? r then r - 2 ^ n else r.
Definition reg64 (z : Z) : Z := z mod 2 ^ 64.

Inductive cc := CE | CNE | CL | CLE | CB | CBE.

Inductive insn :=
| IAdd (w : opsz) | ISub (w : opsz) | IImul (w : opsz)          (* op %?di, %?ax *)
| IAnd (w : opsz) | IOr (w : opsz) | IXor (w : opsz)
| ICqo | ICdq | IIdiv (w : opsz)                                 (* cqo/cdq ; idiv %?di *)
| IMovZeroDx (w : opsz) | IDiv (w : opsz)                        (* mov $0, %?dx ; div %?di *)
| IMovRdxRax                                                     (* mov %rdx, %rax *)
| ICmp (w : opsz)                                                (* cmp %?di, %?ax *)
| ICmpZero (w : opsz)                                            (* cmp $0, %?ax *)
| ISet (c : cc)                                                  (* setcc %al *)
| IMovzbRax                                                      (* movzb %al, %rax *)
| IMovzxEax                                                      (* movzx %al, %eax *)
| IMovzxRax                                                      (* movzx %al, %rax *)
| IMovRdiRcx                                                     (* mov %rdi, %rcx *)
| IShl (w : opsz) | IShr (w : opsz) | ISar (w : opsz)            (* shift by %cl *)
| INeg (w : opsz) | INot (w : opsz)
| IMovsbl | IMovzbl | IMovswl | IMovzwl | IMovsxd | IMovEaxEax.  (* the integer cast-table entries *)

Definition set_rax (s : xstate) (v : Z) : xstate :=
  {| rax := v; rdi := rdi s; rdx := rdx s; rcx := rcx s; f_zf := f_zf s; f_cf := f_cf s; f_lt := f_lt s |}.
Definition wr (w : opsz) (s : xstate) (v : Z) : xstate := set_rax s (lo w v).   (* write to %eax / %rax *)
Definition set_al (s : xstate) (b : bool) : xstate := set_rax s (rax s - rax s mod 256 + (if b then 1 else 0)).

Definition cond (s : xstate) (c : cc) : bool :=
  match c with
  | CE => f_zf s | CNE => negb (f_zf s)
  | CL => f_lt s | CLE => f_lt s || f_zf s
  | CB => f_cf s | CBE => f_cf s || f_zf s
  end.

Definition exec1 (i : insn) (s : xstate) : option xstate :=
  match i with
  | IAdd w => Some (wr w s (lo w (rax s) + lo w (rdi s)))
  | ISub w => Some (wr w s (lo w (rax s) - lo w (rdi s)))
  | IImul w => Some (wr w s (lo w (rax s) * lo w (rdi s)))
  | IAnd w => Some (wr w s (Z.land (lo w (rax s)) (lo w (rdi s))))
  | IOr w => Some (wr w s (Z.lor (lo w (rax s)) (lo w (rdi s))))
  | IXor w => Some (wr w s (Z.lxor (lo w (rax s)) (lo w (rdi s))))
  | ICqo => Some {| rax := rax s; rdi := rdi s; rdx := (if sgn W64 (rax s) <? 0 then 2 ^ 64 - 1 else 0); rcx := rcx s;
                    f_zf := f_zf s; f_cf := f_cf s; f_lt := f_lt s |}
  | ICdq => Some {| rax := rax s; rdi := rdi s; rdx := rdx s - lo W32 (rdx s) + (if sgn W32 (rax s) <? 0 then 2 ^ 32 - 1 else 0); rcx := rcx s;
                    f_zf := f_zf s; f_cf := f_cf s; f_lt := f_lt s |}
  | IIdiv w =>
    (* dividend = ?dx:?ax as a signed 2*bits number *)
    let dividend := sgn w (rdx s) * 2 ^ bits w + lo w (rax s) in
    let d := sgn w (rdi s) in
    if d =? 0 then None
    else let q := Z.quot dividend d in let r := Z.rem dividend d in
         if (q <? - 2 ^ (bits w - 1)) || (2 ^ (bits w - 1) <=? q) then None
         else Some {| rax := lo w q; rdi := rdi s; rdx := lo w r; rcx := rcx s; f_zf := f_zf s; f_cf := f_cf s; f_lt := f_lt s |}
  | IMovZeroDx w => Some {| rax := rax s; rdi := rdi s; rdx := 0; rcx := rcx s; f_zf := f_zf s; f_cf := f_cf s; f_lt := f_lt s |}
  | IDiv w =>
    let dividend := lo w (rdx s) * 2 ^ bits w + lo w (rax s) in
    let d := lo w (rdi s) in
    if d =? 0 then None
    else let q := dividend / d in
         if 2 ^ bits w <=? q then None
         else Some {| rax := q; rdi := rdi s; rdx := dividend mod d; rcx := rcx s; f_zf := f_zf s; f_cf := f_cf s; f_lt := f_lt s |}
  | IMovRdxRax => Some (set_rax s (rdx s))
  | ICmp w =>
    Some {| rax := rax s; rdi := rdi s; rdx := rdx s; rcx := rcx s;
            f_zf := lo w (rax s) =? lo w (rdi s); f_cf := lo w (rax s) <? lo w (rdi s); f_lt := sgn w (rax s) <? sgn w (rdi s) |}
  | ICmpZero w =>
    Some {| rax := rax s; rdi := rdi s; rdx := rdx s; rcx := rcx s;
            f_zf := lo w (rax s) =? 0; f_cf := false; f_lt := sgn w (rax s) <? 0 |}
  | ISet c => Some (set_al s (cond s c))
  | IMovzbRax => Some (set_rax s (rax s mod 256))
  | IMovzxEax => Some (set_rax s (rax s mod 256))
  | IMovzxRax => Some (set_rax s (rax s mod 256))
  | IMovRdiRcx => Some {| rax := rax s; rdi := rdi s; rdx := rdx s; rcx := rdi s; f_zf := f_zf s; f_cf := f_cf s; f_lt := f_lt s |}
  | IShl w => Some (wr w s (lo w (rax s) * 2 ^ (rcx s mod bits w)))
  | IShr w => Some (wr w s (lo w (rax s) / 2 ^ (rcx s mod bits w)))
  | ISar w => Some (wr w s (sgn w (rax s) / 2 ^ (rcx s mod bits w)))
  | INeg w => Some (wr w s (- lo w (rax s)))
  | INot w => Some (wr w s (Z.lnot (lo w (rax s))))
  | IMovsbl => Some (set_rax s (lo W32 (sx 8 (rax s))))
  | IMovzbl => Some (set_rax s (rax s mod 2 ^ 8))
  | IMovswl => Some (set_rax s (lo W32 (sx 16 (rax s))))
  | IMovzwl => Some (set_rax s (rax s mod 2 ^ 16))
  | IMovsxd => Some (set_rax s (reg64 (sx 32 (rax s))))
  | IMovEaxEax => Some (set_rax s (rax s mod 2 ^ 32))
  end.

Fixpoint exec (p : list insn) (s : xstate) : option xstate :=
  match p with
  | [] => Some s
  | i :: r => match exec1 i s with Some s' => exec r s' | None => None end
  end.
