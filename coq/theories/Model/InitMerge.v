(* C05: the two ways a bit-field initializer reaches its storage unit.
   automatic storage: zero fill (ND_MEMZERO), then one assignment per initialized member: the
     bit-field store of codegen.c (Model/Bitfield.v bf_store: clear the field, or in the value);
   static storage: write_gvar_data on a zeroed buffer: combined = oldval | ((newval & mask) << bit_offset)
     - an OR without clearing.
   A unit's initialized bit-fields are given as a list of (value, bit offset, width). *)
From Coq Require Import List ZArith Bool.
From Chibicc Require Import Model.Bitfield.
Import ListNotations.
Local Open Scope Z_scope.

Definition field := (Z * Z * Z)%type.      (* value, offset, width *)

Definition static_merge (u : Z) (f : field) : Z :=
  let '(v, off, w) := f in w64 (Z.lor u (Z.shiftl (Z.land v (Z.ones w)) off)).
Definition auto_merge (u : Z) (f : field) : Z :=
  let '(v, off, w) := f in bf_store u v off w.

Definition static_unit (fs : list field) : Z := fold_left static_merge fs 0.
Definition auto_unit (fs : list field) : Z := fold_left auto_merge fs 0.
