(* C03 (package sw): what chibicc does with the statements of Spec/SwSem.v - the parser's
   bookkeeping (parse.c stmt(): brk_label / cont_label / current_switch saved and restored around
   switch and loops, the case list and default_case of the current switch, the labels list and
   resolve_goto_labels) and gen_stmt (codegen.c ND_IF ND_FOR ND_DO ND_SWITCH ND_CASE ND_BLOCK
   ND_GOTO ND_LABEL) - as one function from a statement to a flat list of instructions with
   absolute jump targets.  As in Model/Lowering.v a label denotes the position where gen_stmt
   prints it (chibicc's labels are unique, C12_labels_unique), so
     - `brk` / `cont` (parameters of sgen) are brk_label / cont_label: a loop replaces both for its
       body, a switch replaces brk only and hands cont down unchanged; the values of the caller are
       in force again after the statement (parse.c restores them) - that is parameter passing here;
     - break / continue are ND_GOTO nodes to brk_label / cont_label (parse.c), i.e. `jmp`;
     - `scases body` is current_switch->case_next: parse.c registers a case AFTER parsing the
       statement it labels (node->lhs = stmt(..) comes first), so the list is in post-order, and
       it is built by prepending, so gen_stmt's compare chain tests the cases in the REVERSE of
       that order.  Case labels of a nested switch are registered with the nested switch
       (current_switch), labels inside nested blocks / ifs / loops with the enclosing switch;
     - `sdefaults body`: default_case is overwritten by every default label, the last one
       registered is the one `jmp`ed to; chibicc does not diagnose a second default, nor equal
       case constants, nor a second definition of a label name (see swf in Spec/SwSem.v, and
       LoweringSwProofs: sw_duplicates_refuted);
     - `slabels body`: the labels list, also prepended after the labelled statement is parsed;
       resolve_goto_labels takes the first entry with the name, i.e. the last registered.
   Target machine: position, oracle, and one register that holds the value of the controlling
   expression of a switch (%eax / %rax) while the compare chain runs.
     JSel k      gen_expr(node->cond) of a switch: marker k, register := next oracle value
     JCase c t   cmp $c, %eax; je t
     JJmpTab k ts  ND_GOTO_EXPR whose operand reads a table of ND_LABEL_VAL (&&l: `lea label(%rip)`,
                 in a static initializer `.quad label`; resolved by resolve_goto_labels like a
                 goto): marker k, consume v, `jmp *%rax` with %rax = ts[v]
   Not modelled here: the value -> label step (ranges, widths: Control.v), .loc lines, return,
   label addresses flowing through other objects than such a table, asm, expression statements
   other than markers. *)
From Coq Require Import List Arith Bool.
Import ListNotations.
From Chibicc Require Import Spec.SwSem.

Inductive sinstr :=
| JMark (n : nat)
| JCondJf (k : nat) (target : nat)        (* marker k; consume v; jump if v = 0   (cmp $0; je) *)
| JCondJt (k : nat) (target : nat)        (* marker k; consume v; jump if v <> 0  (cmp $0; jne) *)
| JJmp (target : nat)
| JSel (k : nat)
| JCase (c : nat) (target : nat)
| JJmpTab (k : nat) (targets : list nat).  (* marker k; consume v; jmp *%rax with %rax = targets[v] *)

Definition sklen (k : option nat) : nat := match k with Some _ => 1 | None => 0 end.

(* instructions before the body of a switch: cond, one compare per case, jmp default, jmp brk *)
Definition sswitch_head (body : sstmt) : nat :=
  1 + length (scvals body) + (if sndef body =? 0 then 0 else 1) + 1.

Fixpoint ssize (s : sstmt) : nat :=
  match s with
  | SMark _ => 1
  | SSkip => 0
  | SSeq a b => ssize a + ssize b
  | SIf _ a b => 2 + ssize a + ssize b
  | SFor init k inc body => length init + sklen k + ssize body + length inc + 1
  | SDo body _ => ssize body + 1
  | SBreak | SContinue | SGoto _ | SGotoInd _ _ => 1
  | SSwitch _ body => sswitch_head body + ssize body
  | SCase _ s1 | SDefault s1 | SLabel _ s1 => ssize s1
  end.

(* current_switch->case_next in registration order, each with the position of its label, for a
   switch body generated at p *)
Fixpoint scases (s : sstmt) (p : nat) : list (nat * nat) :=
  match s with
  | SSeq a b => scases a p ++ scases b (p + ssize a)
  | SIf _ a b => scases a (p + 1) ++ scases b (p + 1 + ssize a + 1)
  | SFor init k _ body => scases body (p + length init + sklen k)
  | SDo body _ => scases body p
  | SCase c s1 => scases s1 p ++ [(c, p)]
  | SDefault s1 | SLabel _ s1 => scases s1 p
  | _ => []
  end.
(* every assignment to current_switch->default_case, in order *)
Fixpoint sdefaults (s : sstmt) (p : nat) : list nat :=
  match s with
  | SSeq a b => sdefaults a p ++ sdefaults b (p + ssize a)
  | SIf _ a b => sdefaults a (p + 1) ++ sdefaults b (p + 1 + ssize a + 1)
  | SFor init k _ body => sdefaults body (p + length init + sklen k)
  | SDo body _ => sdefaults body p
  | SDefault s1 => sdefaults s1 p ++ [p]
  | SCase _ s1 | SLabel _ s1 => sdefaults s1 p
  | _ => []
  end.
(* the function's labels in registration order *)
Fixpoint slabels (s : sstmt) (p : nat) : list (nat * nat) :=
  match s with
  | SSeq a b => slabels a p ++ slabels b (p + ssize a)
  | SIf _ a b => slabels a (p + 1) ++ slabels b (p + 1 + ssize a + 1)
  | SFor init k _ body => slabels body (p + length init + sklen k)
  | SDo body _ => slabels body p
  | SSwitch _ body => slabels body (p + sswitch_head body)
  | SLabel l s1 => slabels s1 p ++ [(l, p)]
  | SCase _ s1 | SDefault s1 => slabels s1 p
  | _ => []
  end.

Definition slast (l : list nat) : option nat :=
  match rev l with x :: _ => Some x | [] => None end.

(* resolve_goto_labels: lt is the labels list (newest first); the first entry with the name *)
Definition slabel_target (lt : list (nat * nat)) (l : nat) : nat :=
  match find (fun e => fst e =? l) lt with Some e => snd e | None => 0 end.
Definition slabel_defined (lt : list (nat * nat)) (l : nat) : bool :=
  match find (fun e => fst e =? l) lt with Some _ => true | None => false end.

(* gen_stmt at position p, with the label table of the function and brk_label / cont_label *)
Fixpoint sgen (lt : list (nat * nat)) (s : sstmt) (p brk cont : nat) : list sinstr :=
  match s with
  | SMark n => [JMark n]
  | SSkip => []
  | SSeq a b => sgen lt a p brk cont ++ sgen lt b (p + ssize a) brk cont
  | SIf k a b =>
    let pelse := p + 1 + ssize a + 1 in
    [JCondJf k pelse] ++ sgen lt a (p + 1) brk cont ++ [JJmp (pelse + ssize b)] ++ sgen lt b pelse brk cont
  | SFor init k inc body =>
    let begin := p + length init in
    let pbody := begin + sklen k in
    let pcont := pbody + ssize body in
    let pbrk := pcont + length inc + 1 in
    map JMark init ++ (match k with Some kk => [JCondJf kk pbrk] | None => [] end) ++
    sgen lt body pbody pbrk pcont ++ map JMark inc ++ [JJmp begin]
  | SDo body k =>
    let pcont := p + ssize body in
    sgen lt body p (pcont + 1) pcont ++ [JCondJt k p]
  | SBreak => [JJmp brk]
  | SContinue => [JJmp cont]
  | SSwitch k body =>
    let pbody := p + sswitch_head body in
    let pbrk := pbody + ssize body in
    [JSel k] ++ map (fun ct => JCase (fst ct) (snd ct)) (rev (scases body pbody)) ++
    (match slast (sdefaults body pbody) with Some d => [JJmp d] | None => [] end) ++
    [JJmp pbrk] ++ sgen lt body pbody pbrk cont
  | SCase _ s1 | SDefault s1 | SLabel _ s1 => sgen lt s1 p brk cont
  | SGoto l => [JJmp (slabel_target lt l)]
  | SGotoInd k tab => [JJmpTab k (map (slabel_target lt) tab)]
  end.

(* a function body: labels resolved over the whole body; no enclosing loop or switch (a break
   there is rejected by parse.c; the positions given are never jumped to in a run the theorem
   speaks about) *)
Definition slabtab (body : sstmt) : list (nat * nat) := rev (slabels body 0).
Definition sprogram (body : sstmt) : list sinstr := sgen (slabtab body) body 0 0 0.

(* what parse.c rejects: goto to a label the function does not define; break / continue outside *)
Fixpoint sgotos_defined (lt : list (nat * nat)) (s : sstmt) : bool :=
  match s with
  | SSeq a b | SIf _ a b => sgotos_defined lt a && sgotos_defined lt b
  | SFor _ _ _ body | SDo body _ | SSwitch _ body => sgotos_defined lt body
  | SCase _ s1 | SDefault s1 | SLabel _ s1 => sgotos_defined lt s1
  | SGoto l => slabel_defined lt l
  | SGotoInd _ tab => forallb (slabel_defined lt) tab
  | _ => true
  end.

(* ---------- the jump machine ---------- *)
Definition smstate := (nat * soracle * nat)%type.          (* position, oracle, register *)
Definition sstep (P : list sinstr) (st : smstate) : option (strace * smstate) :=
  let '(pc, o, r) := st in
  match nth_error P pc with
  | Some (JMark n) => Some ([n], (S pc, o, r))
  | Some (JJmp t) => Some ([], (t, o, r))
  | Some (JCondJf k t) => match o with v :: o' => Some ([k], ((if v =? 0 then t else S pc), o', r)) | [] => None end
  | Some (JCondJt k t) => match o with v :: o' => Some ([k], ((if v =? 0 then S pc else t), o', r)) | [] => None end
  | Some (JSel k) => match o with v :: o' => Some ([k], (S pc, o', v)) | [] => None end
  | Some (JCase c t) => Some ([], ((if r =? c then t else S pc), o, r))
  | Some (JJmpTab k ts) => match o with
                           | v :: o' => match nth_error ts v with Some t => Some ([k], (t, o', r)) | None => None end
                           | [] => None
                           end
  | None => None
  end.

Inductive sstar (P : list sinstr) : smstate -> strace -> smstate -> Prop :=
| sstar_refl st : sstar P st [] st
| sstar_step st ev st' tr st'' : sstep P st = Some (ev, st') -> sstar P st' tr st'' -> sstar P st (ev ++ tr) st''.

(* executable run, for the tie: until the position is the end of the program *)
Fixpoint smrun (fuel : nat) (P : list sinstr) (st : smstate) : option (strace * smstate) :=
  match fuel with
  | O => None
  | S f =>
    if fst (fst st) =? length P then Some ([], st)
    else match sstep P st with
         | Some (ev, st') => match smrun f P st' with Some (tr, st'') => Some (ev ++ tr, st'') | None => None end
         | None => None
         end
  end.
