(* "x86-lite", x87 part: the register stack (at most 8 values of the 80-bit extended format, kept as Flocq values of
   binary_float 64 16384; %st(0) is the head of the list) next to X86Sse's registers, and the steps chibicc's long
   double code consists of.  A step is one line printed by codegen.c: a single instruction, or one row of the cast
   table (several instructions separated by ';'), or the constant sequence of ND_NUM.
   My reading of the Intel SDM and of GNU as:
   - the precision control is at its start-up value (64-bit significand), rounding to nearest-even;
   - faddp / fmulp : st(1) := st(1) op st(0), pop;  AT&T "fsubrp" / "fdivrp" without operands assemble to the
     instruction that computes st(1) := st(1) - st(0) resp. st(1) / st(0), pop (the operand-order quirk of AT&T
     syntax): with lhs pushed first and rhs second the result is lhs - rhs, lhs / rhs;
   - fcomip / fucomip compare st(0) with st(1), set ZF PF CF like ucomis (unordered = 111) and pop;
   - fildl / fildll / fildq push a signed integer exactly; flds / fldl push a float / double exactly;
     fadds adds a float from memory; fstps / fstpl round to nearest-even, store and pop;
   - fistps / fistpl / fistpq under a control word with RC = 11 (what "or $12, %ah" sets) truncate; a NaN, an infinity
     or a value outside the destination gives the integer indefinite 100...0; they pop;
   - pushing onto a full register stack is a fault (modelled as no result).
   Abstractions: a long double object in memory is its value (the 10-byte encoding enters only through
   [encode80] / [decode80], which the proofs do not mention and the tie validates); the scratch slots below
   %rsp that the rows use are inside the rows; which NaN an operation delivers is not modelled ([nan80]). *)
From Coq Require Import ZArith Bool List String.
From Flocq Require Import Core Binary Bits.
From Chibicc Require Import Spec.C11Int Spec.C11Float Spec.C11LDouble Model.X86Int Model.X86Sse.
Import ListNotations.
Local Open Scope Z_scope.

(* ---------- the 80-bit encoding (explicit integer bit) ---------- *)
Definition decode80 (b : Z) : binary80 :=
  let s := 2 ^ 79 <=? b mod 2 ^ 80 in
  let e := (b / 2 ^ 64) mod 2 ^ 15 in
  let m := b mod 2 ^ 64 in
  if e =? 32767 then (if m mod 2 ^ 63 =? 0 then B754_infinity 64 16384 s else B754_nan 64 16384 s 1 eq_refl)
  else binary_normalize 64 16384 prec80 emax80 mode_NE (if s then - m else m) (if e =? 0 then -16445 else e - 16446) s.
Definition encode80 (x : binary80) : Z :=
  match x with
  | B754_zero _ _ s => if s then 2 ^ 79 else 0
  | B754_infinity _ _ s => (if s then 2 ^ 79 else 0) + 32767 * 2 ^ 64 + 2 ^ 63
  | B754_nan _ _ s pl _ => (if s then 2 ^ 79 else 0) + 32767 * 2 ^ 64 + 2 ^ 63 + 2 ^ 62
  | B754_finite _ _ s m e _ =>
    (if s then 2 ^ 79 else 0) + (if Zpos m <? 2 ^ 63 then 0 else (e + 16446) * 2 ^ 64) + Zpos m
  end.

(* ---------- conversions out of the register stack ---------- *)
(* fistp to a signed destination of n bits under truncation: the stored pattern *)
Definition fist (n : Z) (x : binary80) : Z :=
  match int_part x with
  | Some z => if (- 2 ^ (n - 1) <=? z) && (z <? 2 ^ (n - 1)) then z mod 2 ^ n else 2 ^ (n - 1)
  | None => 2 ^ (n - 1)
  end.

Definition two64_l : binary80 := l_of_int (2 ^ 64).      (* the float 0x5f800000 that u64f80 adds *)
Definition two63_l : binary80 := l_of_int (2 ^ 63).      (* the float 0x5f000000 that f80u64 compares with *)

(* ---------- steps ---------- *)
Inductive rowin := InL32 | InQ64 | InU32 | InU64 | InSS | InSD.          (* rows into long double *)
Inductive rowout := OutI8 | OutU8 | OutI16 | OutU16 | OutI32 | OutU32 | OutI64 | OutU64 | OutSS | OutSD.

Inductive linsn :=
| LConst (x : binary80)        (* mov $lo, %rax ; mov %rax, -16(%rsp) ; mov $hi, %rax ; mov %rax, -8(%rsp) ; fldt -16(%rsp) *)
| LLoad (n : nat)              (* lea h<n>(%rip), %rax ; fldt (%rax) *)
| LFchs
| LArith (o : fop)             (* faddp / fsubrp / fmulp / fdivrp *)
| LFldz
| LCompare (unordered_ok : bool)   (* fucomip (true) / fcomip (false) *)
| LFstp0                       (* fstp %st(0) *)
| LS (i : sinsn)               (* an instruction of X86Sse *)
| LRowIn (k : rowin)
| LRowOut (k : rowout)
| LText (l : list string).     (* a row outside this model *)

Record lstate := { st87 : list binary80; ms : mstate }.

Definition push87 (s : lstate) (x : binary80) : option lstate :=
  if (List.length (st87 s) <? 8)%nat then Some {| st87 := x :: st87 s; ms := ms s |} else None.
Definition with_ms (s : lstate) (m : mstate) : lstate := {| st87 := st87 s; ms := m |}.
Definition set_rax_l (s : lstate) (v : Z) : lstate := with_ms s (with_ix (ms s) (set_rax (ix (ms s)) v)).

Definition arith80 (o : fop) (a b : binary80) : binary80 :=
  match o with
  | FAdd => Bplus 64 16384 prec80 emax80 (fun _ _ => nan80) mode_NE a b
  | FSub => Bminus 64 16384 prec80 emax80 (fun _ _ => nan80) mode_NE a b
  | FMul => Bmult 64 16384 prec80 emax80 (fun _ _ => nan80) mode_NE a b
  | FDiv => Bdiv 64 16384 prec80 emax80 (fun _ _ => nan80) mode_NE a b
  end.

Section WithMem.
Variable mem : Z -> Z.                   (* objects of the other types (X86Sse) *)
Variable lmem : Z -> binary80.           (* the long double stored at an address *)

Definition row_in (k : rowin) (s : lstate) : option lstate :=
  let a := ix (ms s) in
  match k with
  | InL32 => push87 s (l_of_int (sgn W32 (rax a)))                               (* mov %eax, -4(%rsp); fildl -4(%rsp) *)
  | InQ64 => push87 s (l_of_int (sgn W64 (rax a)))                               (* movq %rax, -8(%rsp); fildll -8(%rsp) *)
  | InU32 => push87 (set_rax_l s (rax a mod 2 ^ 32)) (l_of_int (rax a mod 2 ^ 32))   (* mov %eax, %eax; mov %rax, -8(%rsp); fildll -8(%rsp) *)
  | InU64 =>                                                                     (* fildq; test; jns 1f; mov $0x5f800000, %eax; fadds; 1: *)
    let r := reg64 (rax a) in
    if r <? 2 ^ 63 then push87 s (l_of_int r)
    else push87 (set_rax_l s 1602224128) (arith80 FAdd (l_of_int (r - 2 ^ 64)) two64_l)
  | InSS => push87 s (l_of_fp (f32 (x0 (ms s))))                                 (* movss %xmm0, -4(%rsp); flds -4(%rsp) *)
  | InSD => push87 s (l_of_fp (f64 (x0 (ms s))))                                 (* movsd %xmm0, -8(%rsp); fldl -8(%rsp) *)
  end.

Definition row_out (k : rowout) (s : lstate) : option lstate :=
  match st87 s with
  | [] => None
  | x :: r =>
    let s' := {| st87 := r; ms := ms s |} in
    match k with
    | OutI8 => Some (set_rax_l s' (lo W32 (sx 8 (fist 16 x))))                  (* fistps; movsbl -24(%rsp), %eax *)
    | OutU8 => Some (set_rax_l s' (fist 16 x mod 2 ^ 8))                         (* fistps; movzbl *)
    | OutI16 => Some (set_rax_l s' (lo W32 (sx 16 (fist 16 x))))                 (* fistps; movswl *)
    | OutU16 => Some (set_rax_l s' (fist 32 x mod 2 ^ 16))                       (* fistpl; movzwl *)
    | OutI32 => Some (set_rax_l s' (fist 32 x))                                  (* fistpl; mov -24(%rsp), %eax *)
    | OutU32 => Some (set_rax_l s' (fist 64 x mod 2 ^ 32))                       (* fistpq; mov -24(%rsp), %eax *)
    | OutI64 => Some (set_rax_l s' (fist 64 x))                                  (* fistpq; mov -24(%rsp), %rax *)
    | OutU64 =>                                                                  (* flds 2^63; fcomip %st(1); jbe 1f; fistpq; jmp 2f; 1: fsubs; fistpq; btc $63; 2: *)
      if (List.length (st87 s) <? 8)%nat then
        match Bcompare 64 16384 two63_l x with
        | Some Gt => Some (set_rax_l s' (fist 64 x))                             (* 2^63 > x : jbe not taken *)
        | _ => Some (set_rax_l s' (Z.lxor (fist 64 (arith80 FSub x two63_l)) (2 ^ 63)))
        end
      else None
    | OutSS => Some (with_ms s' (with_x0 (ms s) (bits_of_b32 (s_of_l x))))       (* fstps -8(%rsp); movss -8(%rsp), %xmm0 *)
    | OutSD => Some (with_ms s' (with_x0 (ms s) (bits_of_b64 (d_of_l x))))       (* fstpl -8(%rsp); movsd -8(%rsp), %xmm0 *)
    end
  end.

Definition lexec1 (i : linsn) (s : lstate) : option lstate :=
  match i with
  | LConst x => push87 (set_rax_l s (encode80 x / 2 ^ 64)) x
  | LLoad n => push87 (set_rax_l s (addr_of n)) (lmem (addr_of n))
  | LFchs => match st87 s with x :: r => Some {| st87 := opp_l x :: r; ms := ms s |} | [] => None end
  | LArith o => match st87 s with
                | y :: x :: r => Some {| st87 := arith80 o x y :: r; ms := ms s |}      (* st(1) op st(0) *)
                | _ => None
                end
  | LFldz => push87 s (B754_zero 64 16384 false)
  | LCompare _ => match st87 s with
                  | y :: x :: r => Some {| st87 := x :: r; ms := after_ucomi (ms s) (Bcompare 64 16384 y x) |}
                  | _ => None
                  end
  | LFstp0 => match st87 s with _ :: r => Some {| st87 := r; ms := ms s |} | [] => None end
  | LS j => match sexec1 mem j (ms s) with Some m' => Some (with_ms s m') | None => None end
  | LRowIn k => row_in k s
  | LRowOut k => row_out k s
  | LText _ => None
  end.

Fixpoint lexec (p : list linsn) (s : lstate) : option lstate :=
  match p with
  | [] => Some s
  | i :: r => match lexec1 i s with Some s' => lexec r s' | None => None end
  end.
End WithMem.
