(* Model of /repo/hashmap.c (open addressing with tombstones).

   Structure follows the C code function by function:
     fnv_hash, rehash, match, get_entry, get_or_insert_entry,
     hashmap_get2, hashmap_put2, hashmap_delete2.
   - the bucket array is a [list slot]; [capacity] is its length
     (the C field is assigned only together with the allocation);
   - [used] is the C counter (non-NULL keys, i.e. live + tombstones);
   - C [int] overflow (undefined behaviour) and the two aborting sites
     ([unreachable()], [assert(map2.used == nkeys)], [assert(cap > 0)])
     are explicit [Crash] results;
   - the hash function is a parameter: every theorem holds for any
     collision pattern; [fnv_hash] below is the instance the C code uses;
   - the constants come from Gen/HashmapConsts.v, regenerated from the
     C source on every run.
   No proofs in this file (it must extract even when a proof breaks). *)
From Coq Require Import List NArith Bool.
Import ListNotations.
Local Open Scope N_scope.

Record hm_params := { init_size : N; high_wm : N; low_wm : N }.

Inductive crash :=
| Unreachable        (* unreachable() after a probe loop *)
| AssertUsed         (* assert(map2.used == nkeys) *)
| IntOverflow        (* signed int overflow / assert(cap > 0) *)
| NestedRehash       (* rehash() reached again from inside rehash(): not modelled *)
| GrowFuel.          (* doubling loop did not stop within the model's fuel *)

Inductive res (A : Type) := Ok (a : A) | Crash (c : crash).
Arguments Ok {A} a. Arguments Crash {A} c.

Definition bind {A B} (r : res A) (f : A -> res B) : res B :=
  match r with Ok a => f a | Crash c => Crash c end.

Section Model.
Variable K V : Type.
Variable keqb : K -> K -> bool.      (* keylen == keylen && memcmp == 0 *)
Variable hash : K -> N.              (* fnv_hash *)
Variable P : hm_params.

Inductive slot := Empty | Tomb | Full (k : K) (v : V).

Record hmap := { buckets : list slot; used : N }.

Definition capacity (m : hmap) : N := N.of_nat (length (buckets m)).

Definition empty_map : hmap := {| buckets := []; used := 0 |}.

Definition two64 : N := 18446744073709551616.
Definition int_max1 : N := 2147483648.   (* 2^31 *)

(* buckets[(hash + i) % map->capacity], with the uint64_t wrap-around of hash + i *)
Definition idx (h : N) (i : nat) (cap : nat) : nat :=
  N.to_nat (((h + N.of_nat i) mod two64) mod N.of_nat cap).

Definition pseq (h : N) (cap : nat) : list nat :=
  map (fun i => idx h i cap) (seq 0 cap).

Fixpoint set_nth {A} (j : nat) (x : A) (l : list A) : list A :=
  match l, j with
  | [], _ => []
  | _ :: r, O => x :: r
  | a :: r, S j' => a :: set_nth j' x r
  end.

(* The probe loop shared by get_entry and get_or_insert_entry.  [tomb]
   is the first tombstone seen so far (only the insert loop uses it). *)
Inductive walkres := Found (j : nat) (v : V) | Stop (j : nat) (tomb : option nat) | Exhausted.

Fixpoint walk (k : K) (bs : list slot) (ps : list nat) (tomb : option nat) : walkres :=
  match ps with
  | [] => Exhausted
  | j :: ps' =>
    match nth j bs Empty with
    | Full k' v => if keqb k k' then Found j v else walk k bs ps' tomb
    | Tomb => walk k bs ps' (match tomb with None => Some j | Some _ => tomb end)
    | Empty => Stop j tomb
    end
  end.

(* the same loop written as the C code writes it: for (int i = 0; i < capacity; i++) *)
Fixpoint walk_i (k : K) (bs : list slot) (h : N) (cap : nat) (i fuel : nat) (tomb : option nat) : walkres :=
  match fuel with
  | O => Exhausted
  | S f =>
    let j := idx h i cap in
    match nth j bs Empty with
    | Full k' v => if keqb k k' then Found j v else walk_i k bs h cap (S i) f tomb
    | Tomb => walk_i k bs h cap (S i) f (match tomb with None => Some j | Some _ => tomb end)
    | Empty => Stop j tomb
    end
  end.

Definition probe (k : K) (bs : list slot) : walkres :=
  walk_i k bs (hash k) (length bs) 0 (length bs) None.

(* get_entry + hashmap_get2 *)
Definition hm_get (m : hmap) (k : K) : res (option V) :=
  match buckets m with
  | [] => Ok None
  | _ =>
    match probe k (buckets m) with
    | Found _ v => Ok (Some v)
    | Stop _ _ => Ok None
    | Exhausted => Crash Unreachable
    end
  end.

(* the probe-and-claim part of get_or_insert_entry followed by ent->val = val *)
Definition insert_nr (m : hmap) (k : K) (v : V) : res hmap :=
  match probe k (buckets m) with
  | Found j _ => Ok {| buckets := set_nth j (Full k v) (buckets m); used := used m |}
  | Stop _ (Some t) => Ok {| buckets := set_nth t (Full k v) (buckets m); used := used m |}
  | Stop j None => Ok {| buckets := set_nth j (Full k v) (buckets m); used := used m + 1 |}
  | Exhausted => Crash Unreachable
  end.

(* while ((nkeys * 100) / cap >= LOW_WATERMARK) cap = cap * 2; *)
Fixpoint grow (fuel : nat) (nkeys cap : N) : res N :=
  match fuel with
  | O => Crash GrowFuel
  | S f =>
    if low_wm P <=? (nkeys * 100) / cap then
      if int_max1 <=? cap * 2 then Crash IntOverflow else grow f nkeys (cap * 2)
    else Ok cap
  end.

Definition live (bs : list slot) : list (K * V) :=
  flat_map (fun s => match s with Full k v => [(k, v)] | _ => [] end) bs.

(* hashmap_put2 as called from rehash on the fresh map: the load test of
   get_or_insert_entry is evaluated; reaching rehash() again is a Crash *)
Definition put_fresh (m : hmap) (kv : K * V) : res hmap :=
  if int_max1 <=? used m * 100 then Crash IntOverflow else
  if high_wm P <=? (used m * 100) / capacity m then Crash NestedRehash
  else insert_nr m (fst kv) (snd kv).

Definition rehash (m : hmap) : res hmap :=
  let lv := live (buckets m) in
  let nkeys := N.of_nat (length lv) in
  if int_max1 <=? nkeys * 100 then Crash IntOverflow else
  bind (grow 64 nkeys (capacity m)) (fun cap =>
  bind (fold_left (fun acc kv => bind acc (fun m2 => put_fresh m2 kv)) lv
          (Ok {| buckets := repeat Empty (N.to_nat cap); used := 0 |}))
       (fun m2 => if used m2 =? nkeys then Ok m2 else Crash AssertUsed)).

(* get_or_insert_entry + hashmap_put2 *)
Definition hm_put (m : hmap) (k : K) (v : V) : res hmap :=
  bind (match buckets m with
        | [] => Ok {| buckets := repeat Empty (N.to_nat (init_size P)); used := used m |}
        | _ =>
          if int_max1 <=? used m * 100 then Crash IntOverflow else
          if high_wm P <=? (used m * 100) / capacity m then rehash m else Ok m
        end)
       (fun m1 => insert_nr m1 k v).

(* hashmap_delete2 *)
Definition hm_delete (m : hmap) (k : K) : res hmap :=
  match buckets m with
  | [] => Ok m
  | _ =>
    match probe k (buckets m) with
    | Found j _ => Ok {| buckets := set_nth j Tomb (buckets m); used := used m |}
    | Stop _ _ => Ok m
    | Exhausted => Crash Unreachable
    end
  end.

(* histories *)
Inductive op := Put (k : K) (v : V) | Get (k : K) | Del (k : K).

Definition step (m : hmap) (o : op) : res (hmap * option V) :=
  match o with
  | Put k v => bind (hm_put m k v) (fun m' => Ok (m', None))
  | Get k => bind (hm_get m k) (fun r => Ok (m, r))
  | Del k => bind (hm_delete m k) (fun m' => Ok (m', None))
  end.

Fixpoint run (m : hmap) (ops : list op) : res (hmap * list (option V)) :=
  match ops with
  | [] => Ok (m, [])
  | o :: r =>
    bind (step m o) (fun mo =>
    bind (run (fst mo) r) (fun mr => Ok (fst mr, snd mo :: snd mr)))
  end.

End Model.

Arguments Empty {K V}. Arguments Tomb {K V}. Arguments Full {K V} k v.
Arguments buckets {K V} h. Arguments used {K V} h. Arguments capacity {K V} m.
Arguments Found {V} j v. Arguments Stop {V} j tomb. Arguments Exhausted {V}.
Arguments Put {K V} k v. Arguments Get {K V} k. Arguments Del {K V} k.

(* ---- the instance used by the C code: byte-string keys and FNV-1 ---- *)

Definition bytes := list N.

Fixpoint bytes_eqb (a b : bytes) : bool :=
  match a, b with
  | [], [] => true
  | x :: a', y :: b' => (x =? y) && bytes_eqb a' b'
  | _, _ => false
  end.

Definition fnv_hash_with (basis prime : N) (s : bytes) : N :=
  fold_left (fun h c => N.lxor ((h * prime) mod 18446744073709551616) c) s basis.
