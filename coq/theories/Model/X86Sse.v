(* "x86-lite", SSE part: the two vector registers chibicc's expression code uses (%xmm0, %xmm1: only
   the low 64-bit lane is ever looked at, kept as a bit pattern 0 <= x < 2^64; a float occupies its
   low 32 bits), the parity flag, and the scalar SSE instructions gen_expr / cast / cmp_zero emit
   for float and double operands.  The integer registers and ZF / CF are X86Int's.
   My reading of the Intel SDM (vol. 1 ch. 4.8 and 11, vol. 2 instruction pages):
   - addss/subss/mulss/divss (sd) operate on the low lane in the MXCSR rounding mode (round to
     nearest even, the start-up default; exceptions masked) and leave the other bits of the
     destination alone; a NaN result is the first source operand if it is a NaN (the destination:
     %xmm0 in "op %xmm1, %xmm0"), else the second one, made quiet; an invalid operation on
     non-NaN operands gives the "real indefinite" QNaN (sign 1, quiet bit, payload 0);
   - ucomiss/ucomisd op2, op1 compare op1 with op2: ZF,PF,CF = 111 unordered, 000 op1 > op2,
     001 op1 < op2, 100 equal; OF, SF, AF are cleared;
   - cvtsi2ss/sd convert a signed 32- or 64-bit integer, rounding to nearest even;
   - cvttss2si / cvttsd2si truncate; a NaN, an infinity or a result outside the destination's
     range gives the "integer indefinite" 1000...0;
   - cvtss2sd is exact, cvtsd2ss rounds; a NaN keeps its sign, is made quiet and its payload is
     shifted / truncated;
   - pxor %xmm0, %xmm0 clears the register; comiss/comisd set the flags as ucomis does; btc $63 flips bit 63;
   - movq %rax, %xmm zero-extends into the register; movss/movsd from memory clear the rest of the
     register; xorps/xorpd are bitwise.
   The arithmetic itself is Flocq's (Bplus, Bminus, Bmult, Bdiv, binary_normalize, Btrunc, Bcompare);
   what this file adds is where the operands are found, which bits are replaced, the NaN rules and
   the flag encoding.  PF is only written by ucomis; the integer instructions leave it alone
   (chibicc reads PF only immediately after a ucomis). *)
From Coq Require Import ZArith Bool List String.
From Flocq Require Import Core Binary Bits.
From Chibicc Require Import Model.X86Int.
Import ListNotations.
Local Open Scope Z_scope.

Notation mode_NE := BinarySingleNaN.mode_NE.
Definition xprec32 : Prec_gt_0 24 := eq_refl.
Definition xemax32 : BinarySingleNaN.Prec_lt_emax 24 128 := eq_refl.
Definition xprec64 : Prec_gt_0 53 := eq_refl.
Definition xemax64 : BinarySingleNaN.Prec_lt_emax 53 1024 := eq_refl.

(* ---------- bit patterns and lanes ---------- *)
Definition lane32 (x : Z) : Z := x mod 2 ^ 32.
Definition lane64 (x : Z) : Z := x mod 2 ^ 64.
Definition f32 (x : Z) : binary32 := b32_of_bits (lane32 x).        (* the float in the low 32 bits *)
Definition f64 (x : Z) : binary64 := b64_of_bits (lane64 x).        (* the double in the low 64 bits *)
Definition put32 (old new : Z) : Z := lane64 old - lane32 old + lane32 new.   (* replace the low 32 bits *)

(* ---------- NaN rules ---------- *)
(* a NaN given by its bit pattern (the fallback is never taken on the patterns used below) *)
Definition nan32_of_bits (b : Z) : { x : binary32 | is_nan 24 128 x = true } :=
  (if is_nan 24 128 (b32_of_bits b) as c return is_nan 24 128 (b32_of_bits b) = c -> _
   then fun H => exist _ (b32_of_bits b) H else fun _ => default_nan_pl32) eq_refl.
Definition nan64_of_bits (b : Z) : { x : binary64 | is_nan 53 1024 x = true } :=
  (if is_nan 53 1024 (b64_of_bits b) as c return is_nan 53 1024 (b64_of_bits b) = c -> _
   then fun H => exist _ (b64_of_bits b) H else fun _ => default_nan_pl64) eq_refl.

Definition quiet32 (x : binary32) := nan32_of_bits (Z.lor (bits_of_b32 x) (2 ^ 22)).
Definition quiet64 (x : binary64) := nan64_of_bits (Z.lor (bits_of_b64 x) (2 ^ 51)).
Definition indef32 := nan32_of_bits 4290772992.                (* 0xFFC00000 *)
Definition indef64 := nan64_of_bits 18444492273895866368.      (* 0xFFF8000000000000 *)

Definition x86_nan32 (a b : binary32) : { x : binary32 | is_nan 24 128 x = true } :=
  if is_nan 24 128 a then quiet32 a else if is_nan 24 128 b then quiet32 b else indef32.
Definition x86_nan64 (a b : binary64) : { x : binary64 | is_nan 53 1024 x = true } :=
  if is_nan 53 1024 a then quiet64 a else if is_nan 53 1024 b then quiet64 b else indef64.

(* ---------- the operations ---------- *)
Inductive fsz := SS | SD.
Inductive fop := FAdd | FSub | FMul | FDiv.

Definition arith32 (o : fop) (a b : binary32) : binary32 :=
  match o with
  | FAdd => Bplus 24 128 xprec32 xemax32 x86_nan32 mode_NE a b
  | FSub => Bminus 24 128 xprec32 xemax32 x86_nan32 mode_NE a b
  | FMul => Bmult 24 128 xprec32 xemax32 x86_nan32 mode_NE a b
  | FDiv => Bdiv 24 128 xprec32 xemax32 x86_nan32 mode_NE a b
  end.
Definition arith64 (o : fop) (a b : binary64) : binary64 :=
  match o with
  | FAdd => Bplus 53 1024 xprec64 xemax64 x86_nan64 mode_NE a b
  | FSub => Bminus 53 1024 xprec64 xemax64 x86_nan64 mode_NE a b
  | FMul => Bmult 53 1024 xprec64 xemax64 x86_nan64 mode_NE a b
  | FDiv => Bdiv 53 1024 xprec64 xemax64 x86_nan64 mode_NE a b
  end.

Definition cvtsi2ss (z : Z) : binary32 := binary_normalize 24 128 xprec32 xemax32 mode_NE z 0 false.
Definition cvtsi2sd (z : Z) : binary64 := binary_normalize 53 1024 xprec64 xemax64 mode_NE z 0 false.

Definition cvtss2sd (x : binary32) : binary64 :=
  match x with
  | B754_zero _ _ s => B754_zero 53 1024 s
  | B754_infinity _ _ s => B754_infinity 53 1024 s
  | B754_nan _ _ _ _ _ =>
    let b := bits_of_b32 x in
    proj1_sig (nan64_of_bits ((b / 2 ^ 31) * 2 ^ 63 + 9221120237041090560 + (b mod 2 ^ 22) * 2 ^ 29))   (* 0x7FF8000000000000 *)
  | B754_finite _ _ s m e _ => binary_normalize 53 1024 xprec64 xemax64 mode_NE (cond_Zopp s (Zpos m)) e s
  end.
Definition cvtsd2ss (x : binary64) : binary32 :=
  match x with
  | B754_zero _ _ s => B754_zero 24 128 s
  | B754_infinity _ _ s => B754_infinity 24 128 s
  | B754_nan _ _ _ _ _ =>
    let b := bits_of_b64 x in
    proj1_sig (nan32_of_bits ((b / 2 ^ 63) * 2 ^ 31 + 2143289344 + (b mod 2 ^ 51) / 2 ^ 29))            (* 0x7FC00000 *)
  | B754_finite _ _ s m e _ => binary_normalize 24 128 xprec32 xemax32 mode_NE (cond_Zopp s (Zpos m)) e s
  end.

(* truncating conversion to a signed integer of [bits w] bits, as the register content written *)
Definition cvtt {prec emax} (w : opsz) (x : binary_float prec emax) : Z :=
  let indefinite := 2 ^ (bits w - 1) in
  match x with
  | B754_nan _ _ _ _ _ | B754_infinity _ _ _ => indefinite
  | _ => let z := Btrunc prec emax x in
         if (- 2 ^ (bits w - 1) <=? z) && (z <? 2 ^ (bits w - 1)) then z mod 2 ^ bits w else indefinite
  end.

(* ---------- machine state ---------- *)
Record mstate := { ix : xstate; x0 : Z; x1 : Z; f_pf : bool }.

Definition with_ix (s : mstate) (i : xstate) : mstate := {| ix := i; x0 := x0 s; x1 := x1 s; f_pf := f_pf s |}.
Definition with_x0 (s : mstate) (v : Z) : mstate := {| ix := ix s; x0 := lane64 v; x1 := x1 s; f_pf := f_pf s |}.
Definition with_x1 (s : mstate) (v : Z) : mstate := {| ix := ix s; x0 := x0 s; x1 := lane64 v; f_pf := f_pf s |}.

Definition set_rdx (s : xstate) (v : Z) : xstate :=
  {| rax := rax s; rdi := rdi s; rdx := v; rcx := rcx s; f_zf := f_zf s; f_cf := f_cf s; f_lt := f_lt s |}.
Definition set_dl (s : xstate) (b : bool) : xstate := set_rdx s (rdx s - rdx s mod 256 + (if b then 1 else 0)).
Definition set_flags (s : xstate) (z c l : bool) : xstate :=
  {| rax := rax s; rdi := rdi s; rdx := rdx s; rcx := rcx s; f_zf := z; f_cf := c; f_lt := l |}.
Definition al (s : xstate) : Z := rax s mod 256.
Definition dl (s : xstate) : Z := rdx s mod 256.
(* write %al and the flags of a logical byte operation (and / or: CF = OF = 0) *)
Definition logic_al (s : xstate) (r : Z) : xstate :=
  set_flags (set_rax s (rax s - al s + r)) (r =? 0) false (128 <=? r).

(* ZF, PF, CF after ucomis a, b (a = first operand in Intel order) *)
Definition ucomi_flags (c : option comparison) : bool * bool * bool :=
  match c with
  | None => (true, true, true)
  | Some Gt => (false, false, false)
  | Some Lt => (false, false, true)
  | Some Eq => (true, false, false)
  end.
Definition after_ucomi (s : mstate) (c : option comparison) : mstate :=
  let '(z, p, cf) := ucomi_flags c in
  {| ix := set_flags (ix s) z cf false; x0 := x0 s; x1 := x1 s; f_pf := p |}.

(* the forms of load() *)
Inductive ldk := LdSB | LdZB | LdSW | LdZW | LdSL | LdQ | LdSS | LdSD.
Inductive xreg := X0 | X1.

Inductive sinsn :=
| SI (i : insn)                           (* an integer instruction of X86Int *)
| SMovImm (w : opsz) (v : Z)              (* mov $v, %eax / %rax *)
| SShlImm (n : Z)                         (* shl $n, %rax *)
| SMovqRax (r : xreg)                     (* movq %rax, %xmm0 / %xmm1 *)
| SXorp (z : fsz)                         (* xorps / xorpd %xmm1, %xmm0 *)
| SXorp11 (z : fsz)                       (* xorps / xorpd %xmm1, %xmm1 *)
| SArith (o : fop) (z : fsz)              (* addss ... %xmm1, %xmm0 *)
| SUcomi01 (z : fsz)                      (* ucomiss %xmm0, %xmm1 : compares %xmm1 with %xmm0 *)
| SUcomi10 (z : fsz)                      (* ucomiss %xmm1, %xmm0 : compares %xmm0 with %xmm1 *)
| SSeta | SSetae                          (* seta %al, setae %al *)
| SSetnpDl | SSetpDl                      (* setnp %dl, setp %dl *)
| SAndDlAl | SOrDlAl                      (* and %dl, %al ; or %dl, %al *)
| SAnd1Al                                 (* and $1, %al *)
| SCmp1Al                                 (* cmp $1, %al *)
| SLea (n : nat)                          (* lea g<n>(%rip), %rax *)
| SLoad (k : ldk)                         (* movsbl (%rax), %eax ... movsd (%rax), %xmm0 *)
| SCvtsi2s (z : fsz) (w : opsz)           (* cvtsi2ssl %eax, %xmm0 ... cvtsi2sdq %rax, %xmm0 *)
| SCvtts2si (z : fsz) (w : opsz)          (* cvttss2sil %xmm0, %eax ... cvttsd2siq %xmm0, %rax *)
| SCvtss2sd                               (* cvtss2sd %xmm0, %xmm0 *)
| SCvtsd2ss                               (* cvtsd2ss %xmm0, %xmm0 *)
| SU64ToF (z : fsz)                       (* the whole row u64f32 / u64f64 of the cast table (it branches on the sign bit) *)
| SFToU64 (z : fsz)                       (* the whole row f32u64 / f64u64 (it branches on x >= 2^63) *)
| SText (s : string).                     (* emitted text outside this model: execution is undefined *)

Definition with_rdi (s : xstate) (v : Z) : xstate :=
  {| rax := rax s; rdi := v; rdx := rdx s; rcx := rcx s; f_zf := f_zf s; f_cf := f_cf s; f_lt := f_lt s |}.

(* cvtsi2ss / cvtsi2sd of the signed integer v into a register holding old *)
Definition cvt_i2f (z : fsz) (old v : Z) : Z :=
  match z with SS => put32 old (bits_of_b32 (cvtsi2ss v)) | SD => bits_of_b64 (cvtsi2sd v) end.
(* addss / addsd %xmm0, %xmm0 *)
Definition double_self (z : fsz) (c : Z) : Z :=
  match z with
  | SS => put32 c (bits_of_b32 (arith32 FAdd (f32 c) (f32 c)))
  | SD => bits_of_b64 (arith64 FAdd (f64 c) (f64 c))
  end.

(* u64f32 / u64f64:
     test %rax,%rax; js 1f; pxor %xmm0,%xmm0; cvtsi2ss %rax,%xmm0; jmp 2f;
     1: mov %rax,%rdi; and $1,%eax; pxor %xmm0,%xmm0; shr %rdi; or %rax,%rdi; cvtsi2ss %rdi,%xmm0; addss %xmm0,%xmm0; 2:
   (cvtsi2ss with a 64-bit register operand is the 64-bit form) *)
Definition exec_u64_to_f (z : fsz) (s : mstate) : mstate :=
  let a := ix s in
  let r := reg64 (rax a) in
  if r <? 2 ^ 63 then
    {| ix := set_flags a (r =? 0) false false; x0 := lane64 (cvt_i2f z 0 (sgn W64 r)); x1 := x1 s; f_pf := f_pf s |}
  else
    let lowbit := Z.land r 1 in                           (* and $1,%eax: the 32-bit result is zero-extended *)
    let d := Z.lor (Z.shiftr r 1) lowbit in               (* shr %rdi ; or %rax,%rdi *)
    {| ix := set_flags (with_rdi (set_rax a lowbit) d) (d =? 0) false (2 ^ 63 <=? d);
       x0 := lane64 (double_self z (lane64 (cvt_i2f z 0 (sgn W64 d)))); x1 := x1 s; f_pf := f_pf s |}.

(* f32u64:  mov $0x5f000000,%edi; movd %edi,%xmm1; comiss %xmm1,%xmm0; jae 1f; cvttss2siq %xmm0,%rax; jmp 2f;
            1: subss %xmm1,%xmm0; cvttss2siq %xmm0,%rax; btc $63,%rax; 2:
   f64u64:  mov $0x43e0000000000000,%rdi; movq %rdi,%xmm1; comisd ...; subsd ...; cvttsd2siq ...; btc $63,%rax *)
Definition two63_bits (z : fsz) : Z := match z with SS => 1593835520 | SD => 4890909195324358656 end.
Definition exec_f_to_u64 (z : fsz) (s : mstate) : mstate :=
  let k := two63_bits z in
  let s0 := {| ix := with_rdi (ix s) k; x0 := x0 s; x1 := k; f_pf := f_pf s |} in
  let s1 := after_ucomi s0 (match z with
                            | SS => b32_compare (f32 (x0 s)) (f32 k)
                            | SD => b64_compare (f64 (x0 s)) (f64 k)
                            end) in
  if f_cf (ix s1) then                                    (* jae not taken: below 2^63, or unordered *)
    with_ix s1 (set_rax (ix s1) (match z with SS => cvtt W64 (f32 (x0 s)) | SD => cvtt W64 (f64 (x0 s)) end))
  else
    let y := match z with
             | SS => put32 (x0 s) (bits_of_b32 (arith32 FSub (f32 (x0 s)) (f32 k)))
             | SD => bits_of_b64 (arith64 FSub (f64 (x0 s)) (f64 k))
             end in
    {| ix := set_rax (ix s1) (Z.lxor (match z with SS => cvtt W64 (f32 y) | SD => cvtt W64 (f64 y) end) (2 ^ 63));
       x0 := lane64 y; x1 := k; f_pf := f_pf s1 |}.

(* where object number n lives; memory is read as the little-endian 8 bytes at an address *)
Definition addr_of (n : nat) : Z := Z.of_nat n.

Section WithMem.
Variable mem : Z -> Z.

Definition sexec1 (i : sinsn) (s : mstate) : option mstate :=
  let a := ix s in
  match i with
  | SI j => match exec1 j a with Some a' => Some (with_ix s a') | None => None end
  | SMovImm w v => Some (with_ix s (set_rax a (lo w v)))
  | SShlImm n => Some (with_ix s (set_rax a (reg64 (rax a * 2 ^ n))))
  | SMovqRax X0 => Some (with_x0 s (rax a))
  | SMovqRax X1 => Some (with_x1 s (rax a))
  | SXorp SS => Some (with_x0 s (put32 (x0 s) (Z.lxor (lane32 (x0 s)) (lane32 (x1 s)))))
  | SXorp SD => Some (with_x0 s (Z.lxor (lane64 (x0 s)) (lane64 (x1 s))))
  | SXorp11 _ => Some (with_x1 s 0)        (* (xorps clears all four lanes; only the low 64 bits are modelled) *)
  | SArith o SS => Some (with_x0 s (put32 (x0 s) (bits_of_b32 (arith32 o (f32 (x0 s)) (f32 (x1 s))))))
  | SArith o SD => Some (with_x0 s (bits_of_b64 (arith64 o (f64 (x0 s)) (f64 (x1 s)))))
  | SUcomi01 SS => Some (after_ucomi s (b32_compare (f32 (x1 s)) (f32 (x0 s))))
  | SUcomi01 SD => Some (after_ucomi s (b64_compare (f64 (x1 s)) (f64 (x0 s))))
  | SUcomi10 SS => Some (after_ucomi s (b32_compare (f32 (x0 s)) (f32 (x1 s))))
  | SUcomi10 SD => Some (after_ucomi s (b64_compare (f64 (x0 s)) (f64 (x1 s))))
  | SSeta => Some (with_ix s (set_al a (negb (f_cf a) && negb (f_zf a))))
  | SSetae => Some (with_ix s (set_al a (negb (f_cf a))))
  | SSetnpDl => Some (with_ix s (set_dl a (negb (f_pf s))))
  | SSetpDl => Some (with_ix s (set_dl a (f_pf s)))
  | SAndDlAl => Some (with_ix s (logic_al a (Z.land (al a) (dl a))))
  | SOrDlAl => Some (with_ix s (logic_al a (Z.lor (al a) (dl a))))
  | SAnd1Al => Some (with_ix s (logic_al a (Z.land (al a) 1)))
  | SCmp1Al => Some (with_ix s (set_flags a (al a =? 1) (al a <? 1) (sx 8 (al a) <? 1)))
  | SLea n => Some (with_ix s (set_rax a (addr_of n)))
  | SLoad k =>
    let m := mem (rax a) in
    match k with
    | LdSB => Some (with_ix s (set_rax a (lo W32 (sx 8 m))))
    | LdZB => Some (with_ix s (set_rax a (m mod 2 ^ 8)))
    | LdSW => Some (with_ix s (set_rax a (lo W32 (sx 16 m))))
    | LdZW => Some (with_ix s (set_rax a (m mod 2 ^ 16)))
    | LdSL => Some (with_ix s (set_rax a (reg64 (sx 32 m))))
    | LdQ => Some (with_ix s (set_rax a (reg64 m)))
    | LdSS => Some (with_x0 s (lane32 m))
    | LdSD => Some (with_x0 s (lane64 m))
    end
  | SCvtsi2s SS w => Some (with_x0 s (put32 (x0 s) (bits_of_b32 (cvtsi2ss (sgn w (rax a))))))
  | SCvtsi2s SD w => Some (with_x0 s (bits_of_b64 (cvtsi2sd (sgn w (rax a)))))
  | SCvtts2si SS w => Some (with_ix s (set_rax a (cvtt w (f32 (x0 s)))))
  | SCvtts2si SD w => Some (with_ix s (set_rax a (cvtt w (f64 (x0 s)))))
  | SCvtss2sd => Some (with_x0 s (bits_of_b64 (cvtss2sd (f32 (x0 s)))))
  | SCvtsd2ss => Some (with_x0 s (put32 (x0 s) (bits_of_b32 (cvtsd2ss (f64 (x0 s))))))
  | SU64ToF z => Some (exec_u64_to_f z s)
  | SFToU64 z => Some (exec_f_to_u64 z s)
  | SText _ => None
  end.

Fixpoint sexec (p : list sinsn) (s : mstate) : option mstate :=
  match p with
  | [] => Some s
  | i :: r => match sexec1 i s with Some s' => sexec r s' | None => None end
  end.
End WithMem.
