(* Integer side of the unsigned 64-bit -> floating conversion (u64f32 / u64f64 in codegen.c).
   cvtsi2ss/cvtsi2sd convert a SIGNED 64-bit integer, rounding to nearest even at 24 resp. 53
   significant bits.  For x >= 2^63 the emitted code converts y = (x >> 1) | (x & 1) and doubles the
   result.  [rne n s] is round-to-nearest-even of a non-negative integer to a multiple of 2^s - what
   the hardware does to an integer with (53 + s) resp. (24 + s) significant bits. *)
From Coq Require Import ZArith Bool.
Local Open Scope Z_scope.

Definition rne (n s : Z) : Z :=
  let q := n / 2 ^ s in let r := n mod 2 ^ s in let h := 2 ^ (s - 1) in
  2 ^ s * (if r <? h then q else if h <? r then q + 1 else if Z.even q then q else q + 1).

(* mov %rax,%rdi; and $1,%eax; shr %rdi; or %rax,%rdi *)
Definition halve_sticky (x : Z) : Z := Z.lor (Z.shiftr x 1) (Z.land x 1).
(* the same without the sticky bit (the tempting simplification) *)
Definition halve_plain (x : Z) : Z := Z.shiftr x 1.
