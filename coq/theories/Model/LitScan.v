(* Model of the literal scanners of /repo/tokenize.c:
     from_hex, read_escaped_char, string_literal_end, read_string_literal,
     read_utf16_string_literal, read_utf32_string_literal, read_char_literal (+ the
     per-prefix post-processing in tokenize()), read_universal_char, convert_universal_chars,
     and of convert_pp_int up to the type ladder (which is Model/IntLit.v), with the part of
     glibc's strtoul that convert_pp_int relies on.

   Conventions.
   * A [char *p] into the NUL-terminated input buffer is the list of the bytes from p up to
     (excluding) the terminating NUL; bytes are N in 0..255 (the unsigned char values).
     [peek p] is [*p] (0 at the terminator).  A function that would move a pointer beyond
     the terminator returns [PastEnd]; the theorems exclude it.
   * C [int] values are kept as their 32-bit patterns (N below 2^32); the additions
     [(c << 4) + from_hex( *p)] wrap modulo 2^32 (what the compiled code does; formally signed
     overflow).  Stores into char / uint16_t / uint32_t buffers truncate ([to_char],
     [to_u16], [u32] of Model/Unicode.v).
   * [error_at] / [error_tok] calls are the [Err _] results.
   * Pointer comparisons [p < end] compare remaining lengths.
   * Loops whose step is not structural carry fuel (= the length of the input); exhaustion is
     [OutOfFuel], excluded in the theorems.
   Trusted / abstracted: the values of '\a' ... '\r' are inherited from the compiler that
   compiled chibicc (ASCII here); isxdigit on bytes >= 128 is false; the bytes after a
   pp-number token are not alphanumeric (so the suffix comparisons of convert_pp_int never match
   beyond the token: the token text alone is the input); strtoul is glibc 2.36's for bases
   2, 8, 10, 16 on inputs that start with a digit or a period (no white space, no sign). *)
From Coq Require Import List NArith ZArith Bool.
From Chibicc Require Import Model.Unicode Model.IntLit.
Import ListNotations.
Local Open Scope N_scope.

Inductive lit_err :=
| ErrHexEscape        (* "invalid hex escape sequence" *)
| ErrUnclosedString   (* "unclosed string literal" *)
| ErrUnclosedChar     (* "unclosed char literal" *)
| ErrInvalidUtf8.     (* "invalid UTF-8 sequence" (decode_utf8) *)

Inductive res (A : Type) :=
| Ok (a : A)
| Err (e : lit_err)
| PastEnd
| OutOfFuel.
Arguments Ok {A} a.
Arguments Err {A} e.
Arguments PastEnd {A}.
Arguments OutOfFuel {A}.

Definition res_map {A B} (f : A -> B) (r : res A) : res B :=
  match r with Ok a => Ok (f a) | Err e => Err e | PastEnd => PastEnd | OutOfFuel => OutOfFuel end.

Definition peek (p : list N) : N := match p with [] => 0 | b :: _ => b end.

(* ---------------- character classes (C locale) ---------------- *)
Definition is_octal (b : N) : bool := (48 <=? b) && (b <=? 55).          (* '0' <= c && c <= '7' *)
Definition isdigit (b : N) : bool := (48 <=? b) && (b <=? 57).
Definition islower (b : N) : bool := (97 <=? b) && (b <=? 122).
Definition isupper (b : N) : bool := (65 <=? b) && (b <=? 90).
Definition isxdigit (b : N) : bool :=
  isdigit b || ((97 <=? b) && (b <=? 102)) || ((65 <=? b) && (b <=? 70)).
Definition tolower (b : N) : N := if isupper b then b + 32 else b.
Definition toupper (b : N) : N := if islower b then b - 32 else b.

(* static int from_hex(char c); only ever called on hexadecimal digits *)
Definition from_hex (b : N) : N :=
  if (48 <=? b) && (b <=? 57) then b - 48
  else if (97 <=? b) && (b <=? 102) then b - 97 + 10
  else b - 65 + 10.

(* (int)(char)b as a 32-bit pattern: plain char is signed *)
Definition char_to_int (b : N) : N := if b <? 128 then b else b + 4294967040.

(* ---------------- read_escaped_char ---------------- *)
(* for (; isxdigit( *p); p++) c = (c << 4) + from_hex( *p); *)
Fixpoint hex_loop (c : N) (p : list N) : N * list N :=
  match p with
  | b :: p' => if isxdigit b then hex_loop (u32 (N.shiftl c 4 + from_hex b)) p' else (c, p)
  | [] => (c, p)
  end.

Definition simple_escape (b : N) : N :=
  if b =? 97 then 7            (* 'a' -> '\a' *)
  else if b =? 98 then 8       (* 'b' *)
  else if b =? 116 then 9      (* 't' *)
  else if b =? 110 then 10     (* 'n' *)
  else if b =? 118 then 11     (* 'v' *)
  else if b =? 102 then 12     (* 'f' *)
  else if b =? 114 then 13     (* 'r' *)
  else if b =? 101 then 27     (* 'e' *)
  else char_to_int b.          (* default: return *p; *)

(* static int read_escaped_char(char **new_pos, char *p): p points behind the backslash;
   result: the int (32-bit pattern) and *new_pos *)
Definition read_escaped_char (p : list N) : res (N * list N) :=
  match p with
  | [] => PastEnd                              (* *new_pos = p + 1 steps over the terminator *)
  | b :: p1 =>
    if is_octal b then
      let c := b - 48 in
      if is_octal (peek p1) then
        let c2 := N.shiftl c 3 + (peek p1 - 48) in
        let p2 := tl p1 in
        if is_octal (peek p2) then Ok (N.shiftl c2 3 + (peek p2 - 48), tl p2)
        else Ok (c2, p2)
      else Ok (c, p1)
    else if b =? 120 then
      if isxdigit (peek p1) then Ok (hex_loop 0 p1) else Err ErrHexEscape
    else Ok (simple_escape b, p1)
  end.

(* ---------------- string literals ---------------- *)
(* static char *string_literal_end(char *p): the list from the closing quote on *)
Fixpoint string_literal_end (p : list N) : res (list N) :=
  match p with
  | [] => Err ErrUnclosedString
  | b :: p1 =>
    if b =? 34 then Ok p
    else if b =? 10 then Err ErrUnclosedString
    else if b =? 92 then
      match p1 with
      | [] => PastEnd                          (* the skipped character is the terminator *)
      | _ :: p2 => string_literal_end p2
      end
    else string_literal_end p1
  end.

(* one round of the body of the three scanning loops: the units stored and the new p *)
Definition esc_elem (trunc : N -> N) (p1 : list N) : res (list N * list N) :=
  match read_escaped_char p1 with
  | Ok (c, p') => Ok ([trunc c], p')
  | Err e => Err e
  | PastEnd => PastEnd
  | OutOfFuel => OutOfFuel
  end.

Definition dec_elem (f : N -> list N) (p : list N) : res (list N * list N) :=
  match decode_utf8 p with
  | DecOk c p' => Ok (f c, p')
  | DecErr => Err ErrInvalidUtf8
  | DecPastEnd => PastEnd
  end.

(* read_string_literal:  if ( *p == '\\') buf[len++] = read_escaped_char(&p, p + 1); else buf[len++] = *p++;  (char buf[]) *)
Definition narrow_elem (p : list N) : res (list N * list N) :=
  match p with
  | [] => PastEnd
  | b :: p1 => if b =? 92 then esc_elem to_char p1 else Ok ([b], p1)
  end.

(* read_utf16_string_literal (uint16_t buf[]) *)
Definition utf16_elem (p : list N) : res (list N * list N) :=
  match p with
  | [] => PastEnd
  | b :: p1 => if b =? 92 then esc_elem to_u16 p1 else dec_elem utf16_units p
  end.

(* read_utf32_string_literal (uint32_t buf[]) *)
Definition utf32_elem (p : list N) : res (list N * list N) :=
  match p with
  | [] => PastEnd
  | b :: p1 => if b =? 92 then esc_elem u32 p1 else dec_elem (fun c => [u32 c]) p
  end.

(* for (char *p = quote + 1; p < end;) ...   [endlen] = number of bytes from end to the terminator *)
Fixpoint lit_loop (elem : list N -> res (list N * list N)) (fuel : nat) (endlen : nat) (p : list N)
  : res (list N) :=
  if (length p <=? endlen)%nat then Ok []
  else
    match fuel with
    | O => OutOfFuel
    | S f =>
      match elem p with
      | Ok (us, p') => res_map (app us) (lit_loop elem f endlen p')
      | Err e => Err e
      | PastEnd => PastEnd
      | OutOfFuel => OutOfFuel
      end
    end.

(* p points behind the opening quote.  Result: the contents of the array (len + 1 units: the buffer
   comes from calloc, so the unit after the last one stored is 0; the array type is
   array_of(elem type, len + 1)) and the position behind the closing quote *)
Definition read_literal_with (elem : list N -> res (list N * list N)) (p : list N) : res (list N * list N) :=
  match string_literal_end p with
  | Ok e =>
    match lit_loop elem (length p) (length e) p with
    | Ok us => Ok (us ++ [0], tl e)
    | Err x => Err x
    | PastEnd => PastEnd
    | OutOfFuel => OutOfFuel
    end
  | Err x => Err x
  | PastEnd => PastEnd
  | OutOfFuel => OutOfFuel
  end.

Definition read_string_literal := read_literal_with narrow_elem.          (* "..." and u8"..." : ty_char *)
Definition read_utf16_string_literal := read_literal_with utf16_elem.     (* u"..." : ty_ushort *)
Definition read_utf32_string_literal := read_literal_with utf32_elem.     (* U"..." : ty_uint, L"..." : ty_int *)

(* tokenize(): which reader and which element type each prefix gets *)
Inductive str_prefix := StrNone | StrU8 | StrU16 | StrU32 | StrWide.
Inductive c_elem_ty := TyChar | TyUShort | TyUInt | TyInt.
Definition string_token (pf : str_prefix) (p : list N) : res (c_elem_ty * list N * list N) :=
  match pf with
  | StrNone | StrU8 => res_map (fun r => (TyChar, fst r, snd r)) (read_string_literal p)
  | StrU16 => res_map (fun r => (TyUShort, fst r, snd r)) (read_utf16_string_literal p)
  | StrU32 => res_map (fun r => (TyUInt, fst r, snd r)) (read_utf32_string_literal p)
  | StrWide => res_map (fun r => (TyInt, fst r, snd r)) (read_utf32_string_literal p)
  end.

(* ---------------- character constants ---------------- *)
(* the closing-quote loop of read_char_literal (commit 6181ddd):
     for (end = p; *end != '\''; end++) { if ( *end == 0) error; if ( *end == '\\' && end[1]) end++; }
   the list behind the closing quote; None = error_at(p, "unclosed char literal").  A backslash
   and the character behind it are stepped over together, so an escaped quote does not close. *)
Fixpoint char_literal_end (p : list N) : option (list N) :=
  match p with
  | [] => None
  | b :: p1 =>
    if b =? 39 then Some p1
    else if b =? 92 then
      match p1 with
      | [] => None                             (* end[1] == 0: no extra step; the next *end is the terminator *)
      | _ :: p2 => char_literal_end p2
      end
    else char_literal_end p1
  end.

(* static Token *read_char_literal(char *start, char *quote, Type *ty): p points behind the
   opening quote; result: int c (32-bit pattern) and the position behind the closing quote *)
Definition read_char_literal (p : list N) : res (N * list N) :=
  match p with
  | [] => Err ErrUnclosedChar
  | b :: p1 =>
    let r := if b =? 92 then read_escaped_char p1
             else match decode_utf8 p with
                  | DecOk c p' => Ok (u32 c, p')
                  | DecErr => Err ErrInvalidUtf8
                  | DecPastEnd => PastEnd
                  end in
    match r with
    | Ok (c, p') =>
      match char_literal_end p' with
      | Some rest => Ok (c, rest)
      | None => Err ErrUnclosedChar
      end
    | Err e => Err e
    | PastEnd => PastEnd
    | OutOfFuel => OutOfFuel
    end
  end.

Definition sext8 (x : N) : Z := if x <? 128 then Z.of_N x else Z.of_N x - 256.
Definition sext32 (x : N) : Z := if x <? 2147483648 then Z.of_N x else Z.of_N x - 4294967296.

Inductive chr_prefix := ChrNone | ChrU16 | ChrU32 | ChrWide.
Inductive c_char_ty := CTyInt | CTyUShort | CTyUInt.

(* tok->val (int64_t) and tok->ty after tokenize()'s post-processing:
     '..'  : ty_int,    cur->val = (char)cur->val
     u'..' : ty_ushort, cur->val &= 0xffff
     L'..' : ty_int     (val = c, sign-extended from int)
     U'..' : ty_uint    (val = c, sign-extended from int) *)
Definition char_token (pf : chr_prefix) (p : list N) : res (Z * c_char_ty * list N) :=
  match read_char_literal p with
  | Ok (c, rest) =>
    match pf with
    | ChrNone => Ok (sext8 (c mod 256), CTyInt, rest)
    | ChrU16 => Ok (Z.of_N (c mod 65536), CTyUShort, rest)
    | ChrWide => Ok (sext32 c, CTyInt, rest)
    | ChrU32 => Ok (sext32 c, CTyUInt, rest)
    end
  | Err e => Err e
  | PastEnd => PastEnd
  | OutOfFuel => OutOfFuel
  end.

(* the value of the constant expression: a number node of type ty holding val denotes val
   converted to ty *)
Definition num_value (ty : c_char_ty) (val : Z) : Z :=
  match ty with
  | CTyInt => let m := (val mod 4294967296)%Z in if (m <? 2147483648)%Z then m else (m - 4294967296)%Z
  | CTyUShort => (val mod 65536)%Z
  | CTyUInt => (val mod 4294967296)%Z
  end.

(* ---------------- integer constants: convert_pp_int ---------------- *)
(* startswith(p, q) *)
Fixpoint startswith (p q : list N) : bool :=
  match q with
  | [] => true
  | c :: q' => match p with b :: p' => (b =? c) && startswith p' q' | [] => false end
  end.

(* !strncasecmp(p, q, length q) for a q without NUL *)
Fixpoint caseeq (p q : list N) : bool :=
  match q with
  | [] => true
  | c :: q' => match p with b :: p' => (tolower b =? tolower c) && caseeq p' q' | [] => false end
  end.

(* glibc strtoul: the value of an alphanumeric as a digit *)
Definition strtoul_digit (b : N) : option N :=
  if isdigit b then Some (b - 48)
  else if islower b then Some (b - 97 + 10)
  else if isupper b then Some (b - 65 + 10)
  else None.

Definition is_base_digit (base b : N) : bool :=
  match strtoul_digit b with Some d => d <? base | None => false end.

Fixpoint strtoul_digits (base acc : N) (p : list N) : N * list N :=
  match p with
  | b :: p' =>
    match strtoul_digit b with
    | Some d => if d <? base then strtoul_digits base (acc * base + d) p' else (acc, p)
    | None => (acc, p)
    end
  | [] => (acc, p)
  end.

(* strtoul(p, &p, base) for base in 2, 8, 10, 16: with base 16 an optional 0x / 0X is skipped;
   no digits: value 0 and endptr = the start, or the x of a skipped prefix; overflow: ULONG_MAX,
   all digits consumed *)
Definition strtoul (p : list N) (base : N) : N * list N :=
  let skipped := (base =? 16) && (peek p =? 48) && (toupper (peek (tl p)) =? 88) in
  let s := if skipped then tl (tl p) else p in
  if is_base_digit base (peek s) then
    let r := strtoul_digits base 0 s in
    (N.min (fst r) 18446744073709551615, snd r)
  else (0, if skipped then tl p else p).

(* the suffix chain of convert_pp_int: (l, u, p) *)
Definition scan_suffix (p : list N) : bool * bool * list N :=
  if startswith p [76;76;85] || startswith p [76;76;117] ||          (* LLU LLu *)
     startswith p [108;108;85] || startswith p [108;108;117] ||      (* llU llu *)
     startswith p [85;76;76] || startswith p [85;108;108] ||         (* ULL Ull *)
     startswith p [117;76;76] || startswith p [117;108;108]          (* uLL ull *)
  then (true, true, skipn 3 p)
  else if caseeq p [108;117] || caseeq p [117;108] then (true, true, skipn 2 p)
  else if startswith p [76;76] || startswith p [108;108] then (true, false, skipn 2 p)
  else if (peek p =? 76) || (peek p =? 108) then (true, false, skipn 1 p)
  else if (peek p =? 85) || (peek p =? 117) then (false, true, skipn 1 p)
  else (false, false, p).

(* base detection *)
Definition scan_base (s : list N) : N * list N :=
  if caseeq s [48;120] && isxdigit (nth 2 s 0) then (16, skipn 2 s)
  else if caseeq s [48;98] && ((nth 2 s 0 =? 48) || (nth 2 s 0 =? 49)) then (2, skipn 2 s)
  else if peek s =? 48 then (8, s)
  else (10, s).

(* commit d1a8518: after the scanner has consumed its own prefix, a second 0x (resp. 0b) at that
   point is refused before strtoul - which would skip a 0x of its own - is called *)
Definition doubled_prefix (base : N) (p : list N) : bool :=
  ((base =? 16) && caseeq p [48;120]) || ((base =? 2) && caseeq p [48;98]).

(* the scanning part of convert_pp_int on the token text s: None = return false;
   Some (base, val as uint64, l, u) *)
Definition scan_int (s : list N) : option (N * N * bool * bool) :=
  let bp := scan_base s in
  if doubled_prefix (fst bp) (snd bp) then None
  else
    let vp := strtoul (snd bp) (fst bp) in
    let sp := scan_suffix (snd vp) in
    match snd sp with
    | [] => Some (fst bp, fst vp, fst (fst sp), snd (fst sp))       (* p == tok->loc + tok->len *)
    | _ :: _ => None
    end.

(* static bool convert_pp_int(Token *tok): tok->val (as uint64) and tok->ty *)
Definition convert_pp_int (s : list N) : option (N * lit_ty) :=
  match scan_int s with
  | Some (base, v, l, u) => Some (v, lit_type (base =? 10) l u v)
  | None => None
  end.

(* ---------------- universal character names ---------------- *)
(* static uint32_t read_universal_char(char *p, int len); 0 = not a universal character name *)
Fixpoint read_universal_char (p : list N) (len : nat) (c : N) : N :=
  match len with
  | O => c
  | S n =>
    if isxdigit (peek p) then read_universal_char (tl p) n (u32 (N.lor (N.shiftl c 4) (from_hex (peek p))))
    else 0
  end.

(* static void convert_universal_chars(char *p): the new buffer contents.  (The C code rewrites
   the buffer in place; the write position never overtakes the read position because every
   replacement is shorter than what it replaces.) *)
Fixpoint convert_universal_chars (fuel : nat) (p : list N) : res (list N) :=
  match p with
  | [] => Ok []
  | b :: p1 =>
    match fuel with
    | O => OutOfFuel
    | S f =>
      if startswith p [92;117] then
        let c := read_universal_char (skipn 2 p) 4 0 in
        if negb (c =? 0) then res_map (app (encode_utf8 c)) (convert_universal_chars f (skipn 6 p))
        else res_map (cons b) (convert_universal_chars f p1)
      else if startswith p [92;85] then
        let c := read_universal_char (skipn 2 p) 8 0 in
        if negb (c =? 0) then res_map (app (encode_utf8 c)) (convert_universal_chars f (skipn 10 p))
        else res_map (cons b) (convert_universal_chars f p1)
      else if b =? 92 then
        match p1 with
        | [] => PastEnd                        (* the second *q++ = *p++ copies the terminator *)
        | b2 :: p2 => res_map (fun r => b :: b2 :: r) (convert_universal_chars f p2)
        end
      else res_map (cons b) (convert_universal_chars f p1)
    end
  end.
