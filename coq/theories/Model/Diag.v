(* verror_at (tokenize.c): the line shown with a diagnostic.  `input` is the processed buffer of the
   file (no NUL inside), `loc` the offset of the offending token.
     line = loc;  step back while there is a previous byte and it is not a new-line
     end = loc;   step forward while the byte is neither NUL nor a new-line
   The model returns the offsets [line_start, line_end) and the text between them. *)
From Coq Require Import List NArith Arith Bool.
Import ListNotations.
Local Open Scope N_scope.

(* scan backwards from loc: the offset just after the last new-line before loc (0 if none) *)
Fixpoint line_start_from (prefix_rev : list N) (loc : nat) : nat :=
  match prefix_rev with
  | [] => loc
  | c :: r => if c =? 10 then loc else line_start_from r (pred loc)
  end.
Definition line_start (input : list N) (loc : nat) : nat := line_start_from (rev (firstn loc input)) loc.

Fixpoint scan_end (suffix : list N) (pos : nat) : nat :=
  match suffix with
  | [] => pos
  | c :: r => if c =? 10 then pos else scan_end r (S pos)
  end.
Definition line_end (input : list N) (loc : nat) : nat := scan_end (skipn loc input) loc.

Definition shown_line (input : list N) (loc : nat) : list N :=
  firstn (line_end input loc - line_start input loc) (skipn (line_start input loc) input).

(* add_line_numbers: the line number of the token at loc *)
Definition line_no (input : list N) (loc : nat) : nat := S (length (filter (fun c => c =? 10) (firstn loc input))).
