(* Model of translation phases 1-2 as tokenize_file() performs them (tokenize.c):
   canonicalize_newline, remove_backslash_newline (which re-inserts the removed new-lines at
   the next real line end so that later lines keep their numbers), and the line numbering of
   add_line_numbers (1 + the number of '\n' before the token's first byte in the processed
   buffer).  Each function also exists in an INDEXED form that carries, for every output byte,
   the offset of the input byte it came from (and, for splicing, how many removed new-lines are
   pending at that point); the proofs relate the computed line to the line of that origin. *)
From Coq Require Import List NArith Bool Arith.
Import ListNotations.
Local Open Scope N_scope.

(* canonicalize_newline *)
Fixpoint canon (p : list N) : list N :=
  match p with
  | [] => []
  | c :: r =>
    if c =? 13 then
      match r with
      | d :: r' => if d =? 10 then 10 :: canon r' else 10 :: canon r
      | [] => [10]
      end
    else c :: canon r
  end.

Fixpoint canon_idx (i : nat) (p : list N) : list (N * nat) :=
  match p with
  | [] => []
  | c :: r =>
    if c =? 13 then
      match r with
      | d :: r' => if d =? 10 then (10, i) :: canon_idx (S (S i)) r' else (10, i) :: canon_idx (S i) r
      | [] => [(10, i)]
      end
    else (c, i) :: canon_idx (S i) r
  end.

(* specification of physical lines in the file as stored: a line ends at LF, at CR LF (once, at
   the LF) or at a lone CR; [terms_before s i] = number of line ends strictly before offset i *)
Definition ends_line (c : N) (r : list N) : bool :=
  (c =? 10) || ((c =? 13) && negb match r with d :: _ => d =? 10 | [] => false end).
Fixpoint terms_before (s : list N) (i : nat) : nat :=
  match i, s with
  | S i', c :: r => ((if ends_line c r then 1 else 0) + terms_before r i')%nat
  | _, _ => 0%nat
  end.
Definition phys_line (s : list N) (i : nat) : nat := S (terms_before s i).

(* remove_backslash_newline on canonical text; n = new-lines removed and not yet re-inserted *)
Fixpoint splice (n : nat) (p : list N) : list N :=
  match p with
  | [] => repeat 10 n
  | c :: r =>
    let normal := if c =? 10 then 10 :: repeat 10 n ++ splice 0 r else c :: splice n r in
    match r with
    | d :: r' => if (c =? 92) && (d =? 10) then splice (S n) r' else normal
    | [] => normal
    end
  end.

(* indexed: Some (origin offset, pending) for a copied byte, None for a padding new-line *)
Fixpoint splice_idx (i n : nat) (p : list N) : list (N * option (nat * nat)) :=
  match p with
  | [] => repeat (10, None) n
  | c :: r =>
    let normal := if c =? 10 then (10, Some (i, n)) :: repeat (10, None) n ++ splice_idx (S i) 0 r
                  else (c, Some (i, n)) :: splice_idx (S i) n r in
    match r with
    | d :: r' => if (c =? 92) && (d =? 10) then splice_idx (S (S i)) (S n) r' else normal
    | [] => normal
    end
  end.

(* add_line_numbers: the line number given to a token that starts at offset [off] *)
Definition count_lf (l : list N) : nat := length (filter (fun c => c =? 10) l).
Definition line_at (text : list N) (off : nat) : nat := S (count_lf (firstn off text)).

(* tokenize_file's phases 1-2 *)
Definition phases12 (s : list N) : list N := splice 0 (canon s).
