(* Stack and x87 discipline of gen_expr / gen_stmt (codegen.c), for scalar expressions.
   Every value lives in one of three places: rax (integers, pointers), xmm0 (float, double) or
   st(0) (long double).  [gen] lists, in emission order, the instructions that move the machine
   stack or the x87 register stack (everything else is [OOther]); control flow is kept structured:
   [KBr] is a two-armed branch whose arms rejoin, [KLoop] a body that may srun any number of times.
   [srun] executes that on the pair (depth in 8-byte slots, x87 registers in use) and fails if the
   stack would go below its start, the x87 stack would exceed its 8 registers, the two arms of a
   branch rejoin with different states, or a loop body does not restore the state. *)
From Coq Require Import List ZArith Bool.
Import ListNotations.
Local Open Scope Z_scope.

Inductive cls := CI | CF | CX.

Inductive expr :=
| XNum (c : cls)
| XVar (c : cls)
| XBin (c : cls) (a b : expr)                       (* + - * / ...: operands and result in class c *)
| XCmp (c : cls) (a b : expr)                       (* == < ...: operands in class c, result CI *)
| XNeg (c : cls) (a : expr)
| XLNot (c : cls) (a : expr)                        (* ! : operand class c, result CI *)
| XCast (from to : cls) (a : expr)
| XToVoid (c : cls) (a : expr)                      (* (void)a, a of class c; modelled as producing CI garbage *)
| XAssign (c : cls) (addr v : expr)                 (* *addr = v: addr computes the address (CI), v of class c *)
| XCond (c0 c : cls) (cond a b : expr)              (* cond of class c0, arms of class c *)
| XLogAnd (c1 c2 : cls) (a b : expr)
| XLogOr (c1 c2 : cls) (a b : expr)
| XComma (c1 : cls) (a b : expr)
| XCall (ret : cls) (pad : bool) (args : list (cls * bool * expr)).   (* alignment pad emitted?; per argument: class, pass_by_stack, expression *)

Inductive stmt :=
| SExpr (c : cls) (e : expr)
| SIf (c0 : cls) (cond : expr) (s1 s2 : stmt)
| SFor (init : stmt) (c0 : cls) (cond : expr) (ci : cls) (inc : expr) (body : stmt)
| SDo (body : stmt) (c0 : cls) (cond : expr)
| SBlock (l : list stmt)
| SReturn (c : cls) (e : expr)
| SNop.

Inductive op := OPush | OPop | OPushF | OPopF | OSubRsp (n : Z) | OAddRsp (n : Z) | OFPush | OFPop | OOther.
Inductive code := KI (o : op) | KSeq (a b : code) | KSkip | KBr (a b : code) | KLoop (body : code) | KRet (a : code).
Infix ";;" := KSeq (at level 61, right associativity).

Definition state := (Z * Z)%type.

Definition step (o : op) (s : state) : option state :=
  let (d, x) := s in
  match o with
  | OPush | OPushF => Some (d + 1, x)
  | OPop | OPopF => if 0 <? d then Some (d - 1, x) else None
  | OSubRsp n => Some (d + n, x)
  | OAddRsp n => if n <=? d then Some (d - n, x) else None
  | OFPush => if x <? 8 then Some (d, x + 1) else None
  | OFPop => if 0 <? x then Some (d, x - 1) else None
  | OOther => Some s
  end.

Definition state_eqb (a b : state) : bool := (fst a =? fst b) && (snd a =? snd b).

Fixpoint srun (c : code) (s : state) : option state :=
  match c with
  | KI o => step o s
  | KSeq a b => match srun a s with Some s' => srun b s' | None => None end
  | KSkip => Some s
  | KBr a b => match srun a s, srun b s with
              | Some s1, Some s2 => if state_eqb s1 s2 then Some s1 else None
              | _, _ => None end
  | KLoop body => match srun body s with Some s' => if state_eqb s' s then Some s else None | None => None end
  | KRet a => match srun a s with Some _ => Some s | None => None end      (* control leaves; what follows is not reached from here *)
  end.

(* ---------- the generator ---------- *)
Definition load (c : cls) : code := match c with CX => KI OFPush | _ => KI OOther end.
Definition cmp_zero (c : cls) : code := match c with CX => KI OFPush ;; KI OFPop ;; KI OFPop | _ => KI OOther end.
Definition discard (c : cls) : code := match c with CX => KI OFPop | _ => KSkip end.
Definition push_val (c : cls) : code := match c with CI => KI OPush | CF => KI OPushF | CX => KI (OSubRsp 2) ;; KI OFPop end.
Definition cast_code (from to : cls) : code :=
  match from, to with
  | CX, CX => KSkip
  | CX, _ => KI OFPop                      (* fistp / fstp to memory, then load into rax / xmm0 *)
  | _, CX => KI OFPush                     (* store to memory, fild / fld *)
  | _, _ => KI OOther
  end.
Definition slots (c : cls) : Z := match c with CX => 2 | _ => 1 end.

Fixpoint stack_slots (args : list (cls * bool * expr)) : Z :=
  match args with [] => 0 | (c, st, _) :: r => (if st then slots c else 0) + stack_slots r end.
Fixpoint reg_pops (args : list (cls * bool * expr)) : code :=
  match args with
  | [] => KSkip
  | (c, st, _) :: r => (if st then KSkip else match c with CF => KI OPopF | _ => KI OPop end) ;; reg_pops r
  end.

Fixpoint gen (e : expr) : code :=
  match e with
  | XNum c => load c
  | XVar c => KI OOther ;; load c
  | XBin c a b =>
    match c with
    | CI => gen b ;; KI OPush ;; gen a ;; KI OPop ;; KI OOther
    | CF => gen b ;; KI OPushF ;; gen a ;; KI OPopF ;; KI OOther
    | CX => gen a ;; gen b ;; KI OFPop
    end
  | XCmp c a b =>
    match c with
    | CI => gen b ;; KI OPush ;; gen a ;; KI OPop ;; KI OOther
    | CF => gen b ;; KI OPushF ;; gen a ;; KI OPopF ;; KI OOther
    | CX => gen a ;; gen b ;; KI OFPop ;; KI OFPop ;; KI OOther
    end
  | XNeg c a => gen a ;; KI OOther
  | XLNot c a => gen a ;; cmp_zero c ;; KI OOther
  | XCast from to a => gen a ;; cast_code from to
  | XToVoid c a => gen a ;; discard c
  | XAssign c addr v => gen addr ;; KI OPush ;; gen v ;; KI OPop ;; match c with CX => KI OFPop ;; KI OFPush | _ => KI OOther end
  | XCond c0 c cond a b => gen cond ;; cmp_zero c0 ;; KBr (gen a) (gen b)
  | XLogAnd c1 c2 a b => gen a ;; cmp_zero c1 ;; KBr (KI OOther) (gen b ;; cmp_zero c2 ;; KBr (KI OOther) (KI OOther))
  | XLogOr c1 c2 a b => gen a ;; cmp_zero c1 ;; KBr (KI OOther) (gen b ;; cmp_zero c2 ;; KBr (KI OOther) (KI OOther))
  | XComma c1 a b => gen a ;; discard c1 ;; gen b
  | XCall ret pad args =>
    (* push_args: alignment pad, then the stack-passed arguments, then the register-passed ones, each right to left *)
    (if pad then KI (OSubRsp 1) else KSkip) ;;
    (fix go (l : list (cls * bool * expr)) : code :=
       match l with
       | [] => KSkip
       | x :: r => go r ;; (if snd (fst x) then gen (snd x) ;; push_val (fst (fst x)) else KSkip)
       end) args ;;
    (fix go (l : list (cls * bool * expr)) : code :=
       match l with
       | [] => KSkip
       | x :: r => go r ;; (if snd (fst x) then KSkip else gen (snd x) ;; push_val (fst (fst x)))
       end) args ;;
    reg_pops args ;; KI OOther ;; KI (OAddRsp (stack_slots args + (if pad then 1 else 0))) ;;
    match ret with CX => KI OFPush | _ => KI OOther end
  end.

Fixpoint gs (s : stmt) : code :=
  match s with
  | SExpr c e => gen e ;; discard c
  | SIf c0 cond s1 s2 => gen cond ;; cmp_zero c0 ;; KBr (gs s1) (gs s2)
  | SFor init c0 cond ci inc body => gs init ;; KLoop (gen cond ;; cmp_zero c0 ;; gs body ;; gen inc ;; discard ci)
  | SDo body c0 cond => KLoop (gs body ;; gen cond ;; cmp_zero c0)
  | SBlock l => (fix go (l : list stmt) : code := match l with [] => KSkip | s :: r => gs s ;; go r end) l
  | SReturn c e => KRet (gen e)
  | SNop => KSkip
  end.
