(* Model of tokenize() in tokenize.c on a byte list (after canonicalize_newline /
   remove_backslash_newline / convert_universal_chars): the order of the tests of the main loop,
   maximal munch over the punctuator table regenerated from the source, the pp-number scanner,
   string and character literal scanners, identifiers, comments and white space, and the
   at_bol / has_space flags.  Bytes are N.  Simplification (stated in the trusted base):
   a byte >= 128 is treated as an identifier character (the C code decodes UTF-8 and asks
   is_ident1/is_ident2: C11's development). *)
From Coq Require Import List NArith Bool.
Import ListNotations.
Local Open Scope N_scope.

Inductive tkind := LIdent | LPunct | LNum | LStr | LChr.
Record tok := { t_kind : tkind; t_text : list N; t_space : bool; t_bol : bool }.

Definition is_digit (c : N) := (48 <=? c) && (c <=? 57).
Definition is_alpha (c : N) := ((65 <=? c) && (c <=? 90)) || ((97 <=? c) && (c <=? 122)).
Definition is_alnum (c : N) := is_digit c || is_alpha c.
Definition is_space (c : N) := (c =? 32) || ((9 <=? c) && (c <=? 13)).                  (* isspace *)
Definition is_punct (c : N) :=                                                            (* ispunct *)
  ((33 <=? c) && (c <=? 47)) || ((58 <=? c) && (c <=? 64)) || ((91 <=? c) && (c <=? 96)) || ((123 <=? c) && (c <=? 126)).
Definition is_ident1 (c : N) := is_alpha c || (c =? 95) || (c =? 36) || (128 <=? c).
Definition is_ident2 (c : N) := is_ident1 c || is_digit c.

Fixpoint starts_with (p pre : list N) : bool :=
  match pre, p with
  | [], _ => true
  | x :: pre', y :: p' => (x =? y) && starts_with p' pre'
  | _, [] => false
  end.

Section Lex.
Variable punct_table : list (list N).

(* read_punct *)
Fixpoint first_match (p : list N) (tbl : list (list N)) : option (list N) :=
  match tbl with
  | [] => None
  | kw :: r => if starts_with p kw then Some kw else first_match p r
  end.
Definition read_punct (p : list N) : nat :=
  match first_match p punct_table with
  | Some kw => length kw
  | None => match p with c :: _ => if is_punct c then 1%nat else 0%nat | [] => 0%nat end
  end.

(* read_ident: number of bytes *)
Fixpoint scan_ident2 (p : list N) : nat :=
  match p with c :: r => if is_ident2 c then S (scan_ident2 r) else 0%nat | [] => 0%nat end.
Definition read_ident (p : list N) : nat :=
  match p with c :: r => if is_ident1 c then S (scan_ident2 r) else 0%nat | [] => 0%nat end.

(* the pp-number loop after the first character *)
Definition is_exp (c : N) := (c =? 101) || (c =? 69) || (c =? 112) || (c =? 80).           (* e E p P *)
Definition is_sign (c : N) := (c =? 43) || (c =? 45).
Definition num_char (c : N) : bool := is_alnum c || (c =? 46).
Fixpoint scan_num (p : list N) : nat :=
  match p with
  | [] => 0%nat
  | c0 :: p' =>
    match p' with
    | c1 :: r =>
      if is_exp c0 && is_sign c1 then S (S (scan_num r))
      else if num_char c0 then S (scan_num p') else 0%nat
    | [] => if num_char c0 then 1%nat else 0%nat
    end
  end.

(* string_literal_end: index of the closing quote; None = unclosed *)
Fixpoint string_end (p : list N) : option nat :=
  match p with
  | [] => None
  | c :: r =>
    if c =? 34 then Some 0%nat
    else if c =? 10 then None
    else if c =? 92 then match r with _ :: r' => option_map (fun n => S (S n)) (string_end r') | [] => None end
    else option_map S (string_end r)
  end.

(* position of the next ' (strchr) *)
Fixpoint find_quote (p : list N) : option nat :=
  match p with [] => None | c :: r => if c =? 39 then Some 0%nat else option_map S (find_quote r) end.

(* read_char_literal, from the byte after the opening quote: length up to and including the closing quote *)
Definition char_body (p : list N) : option nat :=
  match p with
  | [] => None
  | c :: r =>
    if c =? 92 then match r with _ :: r' => option_map (fun n => S (S (S n))) (find_quote r') | [] => None end
    else option_map (fun n => S (S n)) (find_quote r)
  end.

Inductive lexres := LexOk (l : list tok) | LexErr.

Definition mk (k : tkind) (p : list N) (n : nat) (sp bol : bool) : tok :=
  {| t_kind := k; t_text := firstn n p; t_space := sp; t_bol := bol |}.

(* prefixes of string / character literals *)
Definition str_prefix (p : list N) : option nat :=
  if starts_with p [34] then Some 0%nat
  else if starts_with p [117; 56; 34] then Some 2%nat
  else if starts_with p [117; 34] || starts_with p [76; 34] || starts_with p [85; 34] then Some 1%nat
  else None.
Definition chr_prefix (p : list N) : option nat :=
  if starts_with p [39] then Some 0%nat
  else if starts_with p [117; 39] || starts_with p [76; 39] || starts_with p [85; 39] then Some 1%nat
  else None.

Fixpoint skip_to_newline (p : list N) : list N :=
  match p with [] => [] | c :: r => if c =? 10 then p else skip_to_newline r end.
Fixpoint skip_block_comment (p : list N) : option (list N) :=
  match p with
  | [] => None
  | c :: r => match r with
              | d :: r' => if (c =? 42) && (d =? 47) then Some r' else skip_block_comment r
              | [] => None
              end
  end.

(* the token that starts at a position holding neither white space nor a comment:
   kind and length, in the order tokenize() tries the scanners; None = "invalid token" or an
   unclosed literal *)
Definition first_token (p : list N) : option (tkind * nat) :=
  match p with
  | [] => None
  | c :: r =>
    if is_digit c || ((c =? 46) && match r with d :: _ => is_digit d | [] => false end)
    then Some (LNum, S (scan_num r))
    else match str_prefix p with
    | Some k => match string_end (skipn (S k) p) with
                | Some n => Some (LStr, (S k + n + 1)%nat) | None => None end
    | None =>
      match chr_prefix p with
      | Some k => match char_body (skipn (S k) p) with
                  | Some n => Some (LChr, (S k + n)%nat) | None => None end
      | None =>
        match read_ident p with
        | S n => Some (LIdent, S n)
        | O => match read_punct p with
               | S n => Some (LPunct, S n)
               | O => None
               end
        end
      end
    end
  end.

Fixpoint lex (fuel : nat) (p : list N) (bol sp : bool) : lexres :=
  match fuel with
  | O => match p with [] => LexOk [] | _ => LexErr end
  | S f =>
    match p with
    | [] => LexOk []
    | c :: r =>
      if starts_with p [47; 47] then lex f (skip_to_newline r) bol true
      else if starts_with p [47; 42] then
        match skip_block_comment (skipn 2 p) with Some r' => lex f r' bol true | None => LexErr end
      else if c =? 10 then lex f r true false
      else if is_space c then lex f r bol true
      else
        match first_token p with
        | Some (k, n) =>
          match lex f (skipn n p) false false with
          | LexOk l => LexOk (mk k p n sp bol :: l) | LexErr => LexErr end
        | None => LexErr
        end
    end
  end.

Definition tokenize (p : list N) : lexres := lex (S (length p)) p true false.
End Lex.

(* print_tokens (main.c): a new line before a token at the beginning of a line (not the first),
   otherwise a space if the token had one or if it was not adjacent to the previous token in the
   source; [adj] tells, per token, whether it was source-adjacent to its predecessor *)
Fixpoint print_from (first : bool) (ts : list (tok * bool)) : list N :=
  match ts with
  | [] => [10]
  | (t, adj) :: r =>
    (if negb first && t_bol t then [10]
     else if t_space t || (negb first && negb adj) then [32] else []) ++ t_text t ++ print_from false r
  end.
Definition print_tokens (ts : list (tok * bool)) : list N := print_from true ts.
