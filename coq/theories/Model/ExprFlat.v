(* The jump-level form of the code tree of ExprGen.v: && || ?: become compares, conditional jumps and
   labels exactly as gen_expr prints them (ND_LOGAND, ND_LOGOR, ND_COND), with labels as absolute
   instruction positions; and the machine that runs it (program counter, registers, stack). *)
From Chibicc Require Import Base.Mach Spec.C11Int Model.X86Int Model.CodegenInt Model.ExprGen.
Local Open Scope Z_scope.

Inductive finstr :=
| FIns (i : insn)
| FImm (v : Z)                 (* mov $v, %rax *)
| FPush | FPopRdi
| FJz (target : nat)           (* je *)
| FJnz (target : nat)          (* jne *)
| FJmp (target : nat).

Fixpoint fsize (c : gcode) : nat :=
  match c with
  | GIns p => length p
  | GImm _ | GPush | GPopRdi => 1
  | GSeq a b => fsize a + fsize b
  | GAnd a _ b _ | GOr a _ b _ => fsize a + fsize b + 7
  | GCond c _ a b => fsize c + fsize a + fsize b + 3
  end%nat.

(* gen_cmp_zero is one instruction *)
Definition cmpz (t : ity) : list finstr := map FIns (gen_cmp_zero t).

Fixpoint gflatten (c : gcode) (p : nat) : list finstr :=
  match c with
  | GIns l => map FIns l
  | GImm v => [FImm v]
  | GPush => [FPush]
  | GPopRdi => [FPopRdi]
  | GSeq a b => gflatten a p ++ gflatten b (p + fsize a)
  | GAnd a ta b tb =>
    let pf := (p + fsize a + fsize b + 6)%nat in let pe := (pf + 1)%nat in
    gflatten a p ++ cmpz ta ++ [FJz pf] ++ gflatten b (p + fsize a + 2) ++ cmpz tb ++ [FJz pf; FImm 1; FJmp pe; FImm 0]
  | GOr a ta b tb =>
    let pt := (p + fsize a + fsize b + 6)%nat in let pe := (pt + 1)%nat in
    gflatten a p ++ cmpz ta ++ [FJnz pt] ++ gflatten b (p + fsize a + 2) ++ cmpz tb ++ [FJnz pt; FImm 0; FJmp pe; FImm 1]
  | GCond c tc a b =>
    let pelse := (p + fsize c + 2 + fsize a + 1)%nat in
    gflatten c p ++ cmpz tc ++ [FJz pelse] ++ gflatten a (p + fsize c + 2) ++ [FJmp (pelse + fsize b)] ++ gflatten b pelse
  end.

Definition fstate := (nat * gstate)%type.
Definition fstep (P : list finstr) (st : fstate) : option fstate :=
  let '(pc, (s, k)) := st in
  match nth_error P pc with
  | Some (FIns i) => match exec1 i s with Some s' => Some (S pc, (s', k)) | None => None end
  | Some (FImm v) => Some (S pc, (set_rax s (v mod 2 ^ 64), k))
  | Some FPush => Some (S pc, (s, rax s :: k))
  | Some FPopRdi => match k with v :: k' => Some (S pc, (set_rdi s v, k')) | [] => None end
  | Some (FJz t) => Some ((if f_zf s then t else S pc), (s, k))
  | Some (FJnz t) => Some ((if f_zf s then S pc else t), (s, k))
  | Some (FJmp t) => Some (t, (s, k))
  | None => None
  end.

Inductive fstar (P : list finstr) : fstate -> fstate -> Prop :=
| fstar_refl st : fstar P st st
| fstar_step st st' st'' : fstep P st = Some st' -> fstar P st' st'' -> fstar P st st''.
