(* C03: lowering of structured statements to jumps, as gen_stmt emits it (codegen.c ND_IF, ND_FOR,
   ND_DO, ND_BLOCK, break/continue as jmp to the loop's labels).
   Source: statements whose only observable actions are markers; every controlling expression is
   itself a marker (its evaluation is observable) followed by the consumption of one boolean from an
   loracle - so the theorem holds for EVERY sequence of condition outcomes.
   Target: a flat list of instructions with absolute jump targets.  Labels are positions: chibicc's
   labels are unique (C12_labels_unique), so a label denotes the position where gen_stmt prints it. *)
From Coq Require Import List Arith Bool.
Import ListNotations.

Inductive lstmt :=
| LMark (n : nat)
| LSkip
| LSeq (a b : lstmt)
| LIf (k : nat) (a b : lstmt)                       (* if (E(k)) a else b *)
| LFor (init : lstmt) (k : option nat) (inc body : lstmt)   (* for (init; E(k); inc) body - while is for without init/inc *)
| LDo (body : lstmt) (k : nat)                      (* do body while (E(k)) *)
| LBreak
| LContinue.

Inductive loutcome := ONormal | OBreak | OCont.
Definition ltrace := list nat.
Definition loracle := list bool.

(* ---------- the abstract machine of C11 6.8 on this fragment ---------- *)
Section Loops.
Variable ex : lstmt -> loracle -> option (ltrace * loracle * loutcome).
(* for: the iteration after init.  One unit of fuel per iteration. *)
Fixpoint lfor_loop (fuel : nat) (k : option nat) (inc body : lstmt) (o : loracle) : option (ltrace * loracle) :=
  match fuel with
  | O => None
  | S f =>
    let after_cond (t0 : ltrace) (o0 : loracle) :=
      match ex body o0 with
      | Some (t1, o1, OBreak) => Some (t0 ++ t1, o1)
      | Some (t1, o1, _) =>
        match ex inc o1 with
        | Some (t2, o2, ONormal) => match lfor_loop f k inc body o2 with Some (t3, o3) => Some (t0 ++ t1 ++ t2 ++ t3, o3) | None => None end
        | _ => None
        end
      | None => None
      end in
    match k with
    | None => after_cond [] o
    | Some kk => match o with
                 | [] => None
                 | v :: o' => if v then after_cond [kk] o' else Some ([kk], o')
                 end
    end
  end.
Fixpoint ldo_loop (fuel : nat) (body : lstmt) (k : nat) (o : loracle) : option (ltrace * loracle) :=
  match fuel with
  | O => None
  | S f =>
    match ex body o with
    | Some (t1, o1, OBreak) => Some (t1, o1)
    | Some (t1, o1, _) =>
      match o1 with
      | [] => None
      | v :: o2 => if v then match ldo_loop f body k o2 with Some (t3, o3) => Some (t1 ++ [k] ++ t3, o3) | None => None end
                   else Some (t1 ++ [k], o2)
      end
    | None => None
    end
  end.
End Loops.

Fixpoint lexec (fuel : nat) (s : lstmt) (o : loracle) : option (ltrace * loracle * loutcome) :=
  match fuel with
  | O => None
  | S f =>
    match s with
    | LMark n => Some ([n], o, ONormal)
    | LSkip => Some ([], o, ONormal)
    | LSeq a b => match lexec f a o with
                  | Some (t1, o1, ONormal) => match lexec f b o1 with Some (t2, o2, out) => Some (t1 ++ t2, o2, out) | None => None end
                  | r => r
                  end
    | LIf k a b => match o with
                   | [] => None
                   | v :: o' => match lexec f (if v then a else b) o' with Some (t, o2, out) => Some (k :: t, o2, out) | None => None end
                   end
    | LFor init k inc body =>
      match lexec f init o with
      | Some (t0, o0, ONormal) => match lfor_loop (lexec f) f k inc body o0 with Some (t, o1) => Some (t0 ++ t, o1, ONormal) | None => None end
      | _ => None
      end
    | LDo body k => match ldo_loop (lexec f) f body k o with Some (t, o1) => Some (t, o1, ONormal) | None => None end
    | LBreak => Some ([], o, OBreak)
    | LContinue => Some ([], o, OCont)
    end
  end.

(* ---------- target ---------- *)
Inductive linstr := IMark (n : nat) | ICondJf (k : nat) (target : nat) | ICondJt (k : nat) (target : nat) | IJmp (target : nat).

Fixpoint lsize (s : lstmt) : nat :=
  match s with
  | LMark _ => 1 | LSkip => 0
  | LSeq a b => lsize a + lsize b
  | LIf _ a b => 2 + lsize a + lsize b
  | LFor init k inc body => lsize init + (match k with Some _ => 1 | None => 0 end) + lsize body + lsize inc + 1
  | LDo body _ => lsize body + 1
  | LBreak | LContinue => 1
  end.

(* gen_stmt at position p with the enclosing loop's break / continue targets *)
Fixpoint lgen (s : lstmt) (p brk cont : nat) : list linstr :=
  match s with
  | LMark n => [IMark n]
  | LSkip => []
  | LSeq a b => lgen a p brk cont ++ lgen b (p + lsize a) brk cont
  | LIf k a b =>
    let pelse := p + 1 + lsize a + 1 in
    [ICondJf k pelse] ++ lgen a (p + 1) brk cont ++ [IJmp (pelse + lsize b)] ++ lgen b pelse brk cont
  | LFor init k inc body =>
    let begin := p + lsize init in
    let pbody := begin + (match k with Some _ => 1 | None => 0 end) in
    let pcont := pbody + lsize body in
    let pbrk := pcont + lsize inc + 1 in
    lgen init p brk cont ++ (match k with Some kk => [ICondJf kk pbrk] | None => [] end) ++
    lgen body pbody pbrk pcont ++ lgen inc pcont pbrk pcont ++ [IJmp begin]
  | LDo body k =>
    let pcont := p + lsize body in
    lgen body p (pcont + 1) pcont ++ [ICondJt k p]
  | LBreak => [IJmp brk]
  | LContinue => [IJmp cont]
  end.

Definition lmstate := (nat * loracle)%type.
Definition lstep (P : list linstr) (st : lmstate) : option (ltrace * lmstate) :=
  let (pc, o) := st in
  match nth_error P pc with
  | Some (IMark n) => Some ([n], (S pc, o))
  | Some (IJmp t) => Some ([], (t, o))
  | Some (ICondJf k t) => match o with v :: o' => Some ([k], ((if v then S pc else t), o')) | [] => None end
  | Some (ICondJt k t) => match o with v :: o' => Some ([k], ((if v then t else S pc), o')) | [] => None end
  | None => None
  end.

Inductive lstar (P : list linstr) : lmstate -> ltrace -> lmstate -> Prop :=
| star_refl st : lstar P st [] st
| star_step st ev st' tr st'' : lstep P st = Some (ev, st') -> lstar P st' tr st'' -> lstar P st (ev ++ tr) st''.
