(* Model of the type-specifier loop of declspec() (parse.c).  The table and the counter
   operations are regenerated from the C source (Gen/DeclspecTable.v); this file holds the
   loop itself, parameterised by them: every type keyword updates the counter and the
   resulting value must be a case of the switch, otherwise "invalid type". Qualifiers,
   storage-class specifiers, _Alignas(...) and _Atomic do not touch the counter. *)
From Coq Require Import List NArith Bool.
Import ListNotations.
Local Open Scope N_scope.

Inductive kw := KVoid | KBool | KChar | KShort | KInt | KLong | KFloat | KDouble | KSigned | KUnsigned.
Inductive bty := BVoid | BBool | BChar | BUChar | BShort | BUShort | BInt | BUInt | BLong | BULong
               | BFloat | BDouble | BLDouble.
Inductive dtok := TKw (k : kw) | TOther.     (* TOther: const volatile static extern _Alignas(..) ... *)

Section Loop.
Variable kw_op : kw -> bool * N.
Variable ds_table : list (N * bty).

Definition ds_step (counter : N) (k : kw) : N :=
  let op := kw_op k in if fst op then N.lor counter (snd op) else counter + snd op.

Fixpoint lookup (c : N) (t : list (N * bty)) : option bty :=
  match t with [] => None | (v, ty) :: r => if c =? v then Some ty else lookup c r end.

Fixpoint ds_run (counter : N) (ty : bty) (ts : list dtok) : option bty :=
  match ts with
  | [] => Some ty
  | TOther :: r => ds_run counter ty r
  | TKw k :: r =>
    let c := ds_step counter k in
    match lookup c ds_table with
    | Some t => ds_run c t r
    | None => None
    end
  end.

Definition declspec (ts : list dtok) : option bty := ds_run 0 BInt ts.
End Loop.
