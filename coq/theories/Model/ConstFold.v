(* Model of the translation-time evaluator of parse.c / type.c on integer expressions:
   get_common_type + the casts add_type inserts (usual_arith_conv, promotion of the operand of
   unary -, ~, +, << and >>), and eval2 with its host semantics made explicit:
   values are int64_t (wrap-around), (uint64_t) casts select unsigned /, %, >>, < and <=,
   narrow_to_type reduces every node's value to the node's type, division by zero and
   INT64_MIN / -1 are diagnosed (eval_div), a host shift count outside 0..63 is host-undefined.
   Every int64_t operation is written as the mathematical operation followed by [wrap64]
   (what a 64-bit ALU computes; the identity where the C operation cannot leave the range). *)
From Coq Require Import ZArith Bool List.
From Chibicc Require Import Spec.C11Int.
Local Open Scope Z_scope.

(* get_common_type restricted to integer types: decided by size, then by the unsigned flag *)
Definition m_common (a b : ity) : ity :=
  let a := if size_of a <? 4 then I32 else a in
  let b := if size_of b <? 4 then I32 else b in
  if negb (size_of a =? size_of b) then (if size_of a <? size_of b then b else a)
  else if negb (is_signed b) then b else a.

Fixpoint m_type (e : expr) : ity :=
  match e with
  | Lit t _ => t
  | Un LogNot _ => I32
  | Un Plus a => if size_of (m_type a) <? 4 then I32 else m_type a       (* unary(): new_cast(node, ty_int) *)
  | Un _ a => m_common I32 (m_type a)                                      (* ND_NEG, ND_BITNOT *)
  | Bin o a b =>
    if is_arith o then m_common (m_type a) (m_type b)
    else if is_shift o then m_common I32 (m_type a)
    else I32
  | Cast t _ => t
  | Cond _ a b => m_common (m_type a) (m_type b)
  | Comma _ b => m_type b
  end.

Inductive fres := Val (z : Z) | ErrDivZero | ErrOverflow | HostUB.

Definition two64 : Z := 18446744073709551616.
Definition two63 : Z := 9223372036854775808.
Definition wrap64 (z : Z) : Z := let r := z mod two64 in if two63 <=? r then r - two64 else r.  (* int64_t *)
Definition u64 (z : Z) : Z := z mod two64.                                                       (* (uint64_t) *)

Definition sx (w z : Z) : Z := let r := z mod 2 ^ w in if 2 ^ (w - 1) <=? r then r - 2 ^ w else r.

(* narrow_to_type *)
Definition narrow (t : ity) (z : Z) : Z :=
  match t with
  | IBool => if z =? 0 then 0 else 1
  | I8 => sx 8 z | U8 => z mod 2 ^ 8
  | I16 => sx 16 z | U16 => z mod 2 ^ 16
  | I32 => sx 32 z | U32 => z mod 2 ^ 32
  | I64 | U64 => z
  end.

Definition fbind (r : fres) (f : Z -> fres) : fres := match r with Val z => f z | e => e end.

(* eval_div *)
Definition m_div (t : ity) (is_mod : bool) (x y : Z) : fres :=
  if y =? 0 then ErrDivZero
  else if negb (is_signed t) then Val (wrap64 (if is_mod then u64 x mod u64 y else u64 x / u64 y))
  else if (x =? - two63) && (y =? -1) then ErrOverflow
  else Val (wrap64 (if is_mod then Z.rem x y else Z.quot x y)).

(* the shift cases of eval2; t is the (promoted) type of the node, n the folded right operand *)
Definition m_shift (o : binop) (t : ity) (x n : Z) : fres :=
  if (n <? 0) || (64 <=? n) then HostUB
  else match o with
       | Shl => Val (narrow t (wrap64 (x * 2 ^ n)))
       | _ => if negb (is_signed t) && (size_of t =? 8)
              then Val (narrow t (wrap64 (u64 x / 2 ^ n)))
              else Val (narrow t (wrap64 (x / 2 ^ n)))
       end.

(* the arithmetic, bitwise and comparison cases; both operands were cast to t by add_type *)
Definition m_binop (o : binop) (t : ity) (x y : Z) : fres :=
  match o with
  | Add => Val (narrow t (wrap64 (x + y)))
  | Sub => Val (narrow t (wrap64 (x - y)))
  | Mul => Val (narrow t (wrap64 (x * y)))
  | Div => fbind (m_div t false x y) (fun r => Val (narrow t r))
  | Mod => fbind (m_div t true x y) (fun r => Val (narrow t r))
  | BAnd => Val (narrow t (wrap64 (Z.land x y)))
  | BOr => Val (narrow t (wrap64 (Z.lor x y)))
  | BXor => Val (narrow t (wrap64 (Z.lxor x y)))
  | OEq => Val (if x =? y then 1 else 0)
  | ONe => Val (if x =? y then 0 else 1)
  | OLt => Val (if (if is_signed t then x <? y else u64 x <? u64 y) then 1 else 0)
  | OLe => Val (if (if is_signed t then x <=? y else u64 x <=? u64 y) then 1 else 0)
  | OGt => Val (if (if is_signed t then y <? x else u64 y <? u64 x) then 1 else 0)     (* parsed as b < a *)
  | OGe => Val (if (if is_signed t then y <=? x else u64 y <=? u64 x) then 1 else 0)   (* parsed as b <= a *)
  | _ => HostUB
  end.

Fixpoint m_eval (e : expr) : fres :=
  let cast_to (t : ity) (a : expr) := fbind (m_eval a) (fun x => Val (narrow t x)) in
  match e with
  | Lit t v => Val (narrow t (wrap64 v))
  | Un LogNot a => fbind (m_eval a) (fun x => Val (if x =? 0 then 1 else 0))
  | Un Plus a => cast_to (m_type e) a
  | Un Neg a => let t := m_type e in fbind (cast_to t a) (fun x => Val (narrow t (wrap64 (- x))))
  | Un BitNot a => let t := m_type e in fbind (cast_to t a) (fun x => Val (narrow t (wrap64 (Z.lnot x))))
  | Bin LAnd a b =>
    fbind (m_eval a) (fun x => if x =? 0 then Val 0 else fbind (m_eval b) (fun y => Val (if y =? 0 then 0 else 1)))
  | Bin LOr a b =>
    fbind (m_eval a) (fun x => if negb (x =? 0) then Val 1 else fbind (m_eval b) (fun y => Val (if y =? 0 then 0 else 1)))
  | Bin o a b =>
    if is_shift o then
      let t := m_type e in
      fbind (cast_to t a) (fun x => fbind (m_eval b) (fun n => m_shift o t x n))
    else
      let t := m_common (m_type a) (m_type b) in
      fbind (cast_to t a) (fun x => fbind (cast_to t b) (fun y => m_binop o t x y))
  | Cast t a => cast_to t a
  | Cond c a b =>
    let t := m_type e in
    fbind (m_eval c) (fun x => if negb (x =? 0) then cast_to t a else cast_to t b)
  | Comma _ b => m_eval b
  end.
