(* Model of the System V argument-passing decisions in codegen.c:
   has_flonum / has_flonum1 / has_flonum2 / count_struct_regs, the caller side
   (push_args marks pass_by_stack and counts stack words; the pop loop of ND_FUNCALL assigns
   registers), and the callee side (assign_lvar_offsets gives stack parameters their offsets;
   the prologue of emit_text stores register parameters in order). GP_MAX / FP_MAX come from
   Gen/AbiConsts.v. *)
From Coq Require Import List ZArith Bool Arith.
Import ListNotations.
Local Open Scope Z_scope.

(* a type as has_flonum sees it: scalars (floating or not), arrays, aggregates with member offsets *)
Inductive aty :=
| ASc (isflt : bool)
| AArr (elem : aty) (esize : Z) (n : nat)
| AAgg (ms : list (Z * aty)).

Fixpoint has_flonum (ty : aty) (lo hi off : Z) : bool :=
  match ty with
  | ASc f => (off <? lo) || (hi <=? off) || f
  | AArr e esz n =>
    (fix go (i : nat) : bool :=
       match i with O => true | S i' => go i' && has_flonum e lo hi (off + esz * Z.of_nat i') end) n
  | AAgg ms =>
    (fix go (l : list (Z * aty)) : bool :=
       match l with [] => true | (o, m) :: r => has_flonum m lo hi (off + o) && go r end) ms
  end.

Definition has_flonum1 ty := has_flonum ty 0 8 0.
Definition has_flonum2 ty := has_flonum ty 8 16 0.

Definition b2n (b : bool) : nat := if b then 1%nat else 0%nat.

(* count_struct_regs: (gp, fp) *)
Definition count_struct_regs (ty : aty) (size : Z) : nat * nat :=
  let two := (8 <? size)%Z in
  let fp := (b2n (has_flonum1 ty) + b2n (two && has_flonum2 ty))%nat in
  ((if two then 2 else 1) - fp, fp)%nat.

(* an argument as the three sites see it *)
Inductive arg :=
| AInt                                   (* integer / pointer: default case *)
| AFlt                                   (* float / double *)
| ALdbl                                  (* long double: always on the stack, 2 words *)
| ASmall (ngp nfp : nat) (words : nat)   (* struct/union <= 16 bytes with its register needs *)
| ABig (words : nat).                    (* struct/union > 16 bytes *)

Inductive loc := InRegs (gp fp : nat) | OnStack (word : nat).   (* first register indices / first stack word *)

Section Place.
Variables GP_MAX FP_MAX : nat.

(* push_args: pass_by_stack flag of every argument, in order, with the running counters *)
Fixpoint caller_flags (gp fp : nat) (args : list arg) : list bool :=
  match args with
  | [] => []
  | a :: r =>
    match a with
    | ABig _ | ALdbl => true :: caller_flags gp fp r
    | ASmall ngp nfp _ =>
      if (fp + nfp <=? FP_MAX)%nat && (gp + ngp <=? GP_MAX)%nat
      then false :: caller_flags (gp + ngp) (fp + nfp) r else true :: caller_flags gp fp r
    | AFlt => if (fp <? FP_MAX)%nat then false :: caller_flags gp (S fp) r else true :: caller_flags gp fp r
    | AInt => if (gp <? GP_MAX)%nat then false :: caller_flags (S gp) fp r else true :: caller_flags gp fp r
    end
  end.

Definition words_of (a : arg) : nat :=
  match a with AInt | AFlt => 1 | ALdbl => 2 | ASmall _ _ w => w | ABig w => w end%nat.

(* the pop loop of ND_FUNCALL: it recomputes the register decision with its own counters and
   pops registers in order; stack arguments stay where push_args2 left them: the second pass
   pushes them right to left, so the leftmost one is at the lowest address *)
Fixpoint caller_place (gp fp stack : nat) (args : list arg) : list loc :=
  match args with
  | [] => []
  | a :: r =>
    match a with
    | ABig w => OnStack stack :: caller_place gp fp (stack + w) r
    | ALdbl => OnStack stack :: caller_place gp fp (stack + 2) r
    | ASmall ngp nfp w =>
      if (fp + nfp <=? FP_MAX)%nat && (gp + ngp <=? GP_MAX)%nat
      then InRegs gp fp :: caller_place (gp + ngp) (fp + nfp) stack r
      else OnStack stack :: caller_place gp fp (stack + w) r
    | AFlt => if (fp <? FP_MAX)%nat then InRegs gp fp :: caller_place gp (S fp) stack r
              else OnStack stack :: caller_place gp fp (stack + 1) r
    | AInt => if (gp <? GP_MAX)%nat then InRegs gp fp :: caller_place (S gp) fp stack r
              else OnStack stack :: caller_place gp fp (stack + 1) r
    end
  end.

(* consistency between the two caller passes: an argument is popped into registers exactly
   when push_args did not mark it pass_by_stack *)
Definition is_stack (l : loc) : bool := match l with OnStack _ => true | InRegs _ _ => false end.

(* assign_lvar_offsets + prologue: stack parameters get offset 16 + 8 * word (top aligned to 8
   before each, advanced by the size); register parameters are stored from the next registers *)
Fixpoint callee_place (gp fp : nat) (top : nat) (params : list arg) : list loc :=
  match params with
  | [] => []
  | a :: r =>
    match a with
    | ABig w => OnStack top :: callee_place gp fp (top + w) r
    | ALdbl => OnStack top :: callee_place gp fp (top + 2) r
    | ASmall ngp nfp w =>
      if (fp + nfp <=? FP_MAX)%nat && (gp + ngp <=? GP_MAX)%nat
      then InRegs gp fp :: callee_place (gp + ngp) (fp + nfp) top r
      else OnStack top :: callee_place gp fp (top + w) r
    | AFlt => if (fp <? FP_MAX)%nat then InRegs gp fp :: callee_place gp (S fp) top r
              else OnStack top :: callee_place gp fp (top + 1) r
    | AInt => if (gp <? GP_MAX)%nat then InRegs gp fp :: callee_place (S gp) fp top r
              else OnStack top :: callee_place gp fp (top + 1) r
    end
  end.
End Place.
