(* gen_expr on integer expressions over LOCAL VARIABLES (codegen.c, with the rewrites of parse.c and
   the conversions of type.c), continuing ExprGen.v:
     ND_VAR      gen_addr (lea off(%rbp), %rax) ; load(ty)
     load(ty)    movsbl/movzbl (%rax), %eax for size 1 ; movswl/movzwl for size 2 ;
                 movsxd (%rax), %rax for size 4 (signed AND unsigned) ; mov (%rax), %rax for size 8 ;
                 "movz" iff ty->is_unsigned - _Bool is {TY_BOOL, 1, 1} with is_unsigned = false: movsbl
     ND_ASSIGN   gen_addr(lhs) ; push ; gen_expr(rhs) ; store(ty) = pop %rdi ; mov %al|%ax|%eax|%rax, (%rdi)
                 add_type casts the rhs to the type of the lhs
     A op= B     to_assign: tmp = &A, *tmp = *tmp op B with a fresh pointer-typed local tmp per occurrence
     ++A --A     A += 1, A -= 1 (unary)
     A++ A--     new_inc_dec / to_assign_old(.., true):  (typeof A)(tmp = &A, old = *tmp, *tmp = old + d, old),
                 d = 1 / -1, with a fresh local `old` of the type of A created BEFORE tmp
                 [/repo at commit 20d74ad; this form was introduced by 43b829f, before that it was
                  (typeof A)((A += d) - d), which was wrong for _Bool - finding C01-bool-postfix, now fixed]
   Memory is a byte map; the frame gives every variable and every temporary (pointer temporaries of
   op=, saved old values of postfix ++/--) an offset from a fixed %rbp.  Code stays a tree as in ExprGen.v (&& || ?: as tests of %rax); [mtext] prints it as the
   -S text with the labels gen_expr would number from a given counter.
   Abstracted: the registers not used here, the flags after non-compare instructions, %rsp (push / pop
   work on an operand stack disjoint from the frame), .loc lines. *)
From Coq Require Import ZArith Bool List String DecimalString.
From Chibicc Require Import Base.Mach Spec.C11Int Spec.C11IntMem Model.X86Int Model.CodegenInt Model.ConstFold
     Gen.CastTable Model.ExprGen.
Import ListNotations.
Local Open Scope Z_scope.

(* ---------- byte memory, little endian ---------- *)
Definition mem := Z -> Z.

Fixpoint load_le (m : mem) (a : Z) (n : nat) : Z :=
  match n with
  | O => 0
  | S k => m a mod 256 + 256 * load_le m (a + 1) k
  end.

Fixpoint store_le (m : mem) (a : Z) (n : nat) (v : Z) : mem :=
  match n with
  | O => m
  | S k => store_le (fun p => if p =? a then v mod 256 else m p) (a + 1) k (v / 256)
  end.

(* an access of n bytes at a lies inside the 64-bit address space *)
Definition valid_addr (a : Z) (n : nat) : bool := (0 <=? a) && (a + Z.of_nat n <=? 2 ^ 64).

(* ---------- the memory instructions of load() and store() ---------- *)
Inductive ldk := LdSB | LdZB | LdSW | LdZW | LdSXD | LdQ.
Inductive stk := St1 | St2 | St4 | St8.

Definition ld_bytes (k : ldk) : nat :=
  match k with LdSB | LdZB => 1 | LdSW | LdZW => 2 | LdSXD => 4 | LdQ => 8 end%nat.
Definition st_bytes (k : stk) : nat := match k with St1 => 1 | St2 => 2 | St4 => 4 | St8 => 8 end%nat.

(* what the loaded bytes become in %rax: a 32-bit destination zero-extends into the upper half *)
Definition ld_ext (k : ldk) (raw : Z) : Z :=
  match k with
  | LdSB => lo W32 (X86Int.sx 8 raw)
  | LdSW => lo W32 (X86Int.sx 16 raw)
  | LdSXD => reg64 (X86Int.sx 32 raw)
  | LdZB | LdZW | LdQ => raw
  end.

(* Type.is_unsigned as type.c sets it: false for _Bool *)
Definition unsigned_flag (t : ity) : bool := match t with U8 | U16 | U32 | U64 => true | _ => false end.

Definition load_kind (t : ity) : ldk :=
  if size_of t =? 1 then (if unsigned_flag t then LdZB else LdSB)
  else if size_of t =? 2 then (if unsigned_flag t then LdZW else LdSW)
  else if size_of t =? 4 then LdSXD
  else LdQ.

Definition store_kind (t : ity) : stk :=
  if size_of t =? 1 then St1 else if size_of t =? 2 then St2 else if size_of t =? 4 then St4 else St8.

(* ---------- code ---------- *)
Inductive mcode :=
| CIns (p : list insn)                 (* straight-line integer instructions *)
| CImm (v : Z)                         (* mov $v, %rax *)
| CPush                                (* push %rax *)
| CPopRdi                              (* pop %rdi *)
| CLea (off : Z)                       (* lea off(%rbp), %rax *)
| CLoad (k : ldk)                      (* load through %rax into %rax *)
| CStore (k : stk)                     (* mov %al|%ax|%eax|%rax, (%rdi) *)
| CSeq (a b : mcode)
| CAnd (a : mcode) (ta : ity) (b : mcode) (tb : ity)
| COr (a : mcode) (ta : ity) (b : mcode) (tb : ity)
| CCond (c : mcode) (tc : ity) (a b : mcode).
Infix ";;;" := CSeq (at level 61, right associativity).

(* registers, operand stack, memory *)
Definition mstate := (xstate * list Z * mem)%type.

Section Run.
Variable rbp : Z.

Fixpoint mrun (c : mcode) (st : mstate) : option mstate :=
  let '(s, k, m) := st in
  match c with
  | CIns p => match exec p s with Some s' => Some (s', k, m) | None => None end
  | CImm v => Some (set_rax s (v mod 2 ^ 64), k, m)
  | CPush => Some (s, rax s :: k, m)
  | CPopRdi => match k with v :: k' => Some (set_rdi s v, k', m) | [] => None end
  | CLea off => Some (set_rax s ((rbp + off) mod 2 ^ 64), k, m)
  | CLoad ld =>
    if valid_addr (rax s) (ld_bytes ld) then Some (set_rax s (ld_ext ld (load_le m (rax s) (ld_bytes ld))), k, m) else None
  | CStore sk =>
    if valid_addr (rdi s) (st_bytes sk) then Some (s, k, store_le m (rdi s) (st_bytes sk) (rax s)) else None
  | CSeq a b => match mrun a st with Some st' => mrun b st' | None => None end
  | CAnd a ta b tb =>
    match mrun a st with
    | Some (s1, k1, m1) =>
      match test_zero ta s1 with
      | Some (true, s2) => Some (set_rax s2 0, k1, m1)
      | Some (false, s2) =>
        match mrun b (s2, k1, m1) with
        | Some (s3, k3, m3) => match test_zero tb s3 with
                               | Some (z, s4) => Some (set_rax s4 (if z then 0 else 1), k3, m3)
                               | None => None end
        | None => None
        end
      | None => None
      end
    | None => None
    end
  | COr a ta b tb =>
    match mrun a st with
    | Some (s1, k1, m1) =>
      match test_zero ta s1 with
      | Some (false, s2) => Some (set_rax s2 1, k1, m1)
      | Some (true, s2) =>
        match mrun b (s2, k1, m1) with
        | Some (s3, k3, m3) => match test_zero tb s3 with
                               | Some (z, s4) => Some (set_rax s4 (if z then 0 else 1), k3, m3)
                               | None => None end
        | None => None
        end
      | None => None
      end
    | None => None
    end
  | CCond c tc a b =>
    match mrun c st with
    | Some (s1, k1, m1) =>
      match test_zero tc s1 with
      | Some (true, s2) => mrun b (s2, k1, m1)
      | Some (false, s2) => mrun a (s2, k1, m1)
      | None => None
      end
    | None => None
    end
  end.
End Run.

(* ---------- the frame ---------- *)
(* the unnamed locals the parser creates: a pointer (to_assign) or a saved old value of type t (postfix ++/--) *)
Inductive tkind := TPtr | TSaved (t : ity).
Definition tk_size (k : tkind) : Z := match k with TPtr => 8 | TSaved t => size_of t end.

(* variables (type, offset from %rbp) in declaration order; the temporaries in creation order *)
Record frame := { frbp : Z; fvars : list (ity * Z); ftemps : list (tkind * Z) }.
Definition ftys (F : frame) : tyenv := map fst (fvars F).
Definition voff (F : frame) (x : nat) : Z := snd (nth x (fvars F) (I32, 0)).
Definition toff (F : frame) (i : nat) : Z := snd (nth i (ftemps F) (TPtr, 0)).
Definition tkind_at (F : frame) (i : nat) : tkind := fst (nth i (ftemps F) (TPtr, 0)).
Definition vaddr (F : frame) (x : nat) : Z := frbp F + voff F x.
Definition taddr (F : frame) (i : nat) : Z := frbp F + toff F i.
Definition vsize (F : frame) (x : nat) : Z := size_of (vty (ftys F) x).
Definition tsize (F : frame) (i : nat) : Z := tk_size (tkind_at F i).

(* assign_lvar_offsets for a function whose locals are these variables followed by these temporaries:
   the list of locals is walked newest first, each gets bottom += size, aligned to its alignment
   (= size for integer types and pointers); offset = -bottom *)
Fixpoint lay_temps (ks : list tkind) (bottom : Z) : list (tkind * Z) * Z :=      (* newest first *)
  match ks with
  | [] => ([], bottom)
  | k :: r => let b := (bottom + tk_size k + tk_size k - 1) / tk_size k * tk_size k in
              let '(l, b') := lay_temps r b in ((k, - b) :: l, b')
  end.
Fixpoint lay_vars (ts : list ity) (bottom : Z) : list (ity * Z) * Z :=   (* newest first *)
  match ts with
  | [] => ([], bottom)
  | t :: r => let b := (bottom + size_of t + size_of t - 1) / size_of t * size_of t in
              let '(l, b') := lay_vars r b in ((t, - b) :: l, b')
  end.
Definition layout (rbp : Z) (ts : list ity) (ks : list tkind) : frame :=
  let '(tl, b) := lay_temps (rev ks) 0 in
  let '(vl, _) := lay_vars (rev ts) b in
  {| frbp := rbp; fvars := rev vl; ftemps := rev tl |}.

(* ---------- typing as type.c does it (get_common_type by size) ---------- *)
Fixpoint mm_type (G : tyenv) (e : mexpr) : ity :=
  match e with
  | MLit t _ => t
  | MVar x => vty G x
  | MUn LogNot _ => I32
  | MUn Plus a => if size_of (mm_type G a) <? 4 then I32 else mm_type G a
  | MUn _ a => m_common I32 (mm_type G a)
  | MBin o a b =>
    if is_arith o then m_common (mm_type G a) (mm_type G b)
    else if is_shift o then m_common I32 (mm_type G a)
    else I32
  | MCast t _ => t
  | MCond _ a b => m_common (mm_type G a) (mm_type G b)
  | MComma _ b => mm_type G b
  | MAssign x _ | MOpAssign _ x _ | MIncDec _ _ x => vty G x
  end.

(* ---------- the rewrites of the parser ---------- *)
(* unary ++ / --: to_assign(new_add / new_sub (A, 1)).  Postfix ++ / -- (new_inc_dec) stays a node of its own
   here, because its expansion uses a local that is not a variable of the source (see mcomp) *)
Fixpoint desugar (G : tyenv) (e : mexpr) : mexpr :=
  match e with
  | MLit _ _ | MVar _ => e
  | MUn o a => MUn o (desugar G a)
  | MBin o a b => MBin o (desugar G a) (desugar G b)
  | MCast t a => MCast t (desugar G a)
  | MCond c a b => MCond (desugar G c) (desugar G a) (desugar G b)
  | MComma a b => MComma (desugar G a) (desugar G b)
  | MAssign x a => MAssign x (desugar G a)
  | MOpAssign o x a => MOpAssign o x (desugar G a)
  | MIncDec false inc x => MOpAssign (if inc then Add else Sub) x (MLit I32 1)
  | MIncDec true _ _ => e
  end.

(* the temporaries an expression needs, in creation (= parse) order: to_assign creates its pointer after
   parsing the right-hand side; postfix ++/-- creates the saved value, then the pointer *)
Fixpoint temps_of (G : tyenv) (e : mexpr) : list tkind :=
  match e with
  | MLit _ _ | MVar _ => []
  | MUn _ a | MCast _ a | MAssign _ a => temps_of G a
  | MBin _ a b | MComma a b => temps_of G a ++ temps_of G b
  | MCond c a b => temps_of G c ++ temps_of G a ++ temps_of G b
  | MOpAssign _ _ a => temps_of G a ++ [TPtr]
  | MIncDec false _ _ => [TPtr]
  | MIncDec true _ x => [TSaved (vty G x); TPtr]
  end.
(* their number *)
Fixpoint ntemps (e : mexpr) : nat :=
  match e with
  | MLit _ _ | MVar _ => 0
  | MUn _ a | MCast _ a | MAssign _ a => ntemps a
  | MBin _ a b | MComma a b => ntemps a + ntemps b
  | MCond c a b => ntemps c + ntemps a + ntemps b
  | MOpAssign _ _ a => S (ntemps a)
  | MIncDec false _ _ => 1
  | MIncDec true _ _ => 2
  end%nat.

(* ---------- gen_expr ---------- *)
Definition mcast (from to : ity) : mcode :=
  match gen_cast cast_table from to with Some p => CIns p | None => CIns [] end.

(* rhs first, pushed; then lhs; pop rhs into %rdi; operate.  t = type the operands are converted to *)
Definition mcbin (o : binop) (t : ity) (ca : mcode) (ta : ity) (cb : mcode) (tb : ity) (cast_rhs : bool) : mcode :=
  cb ;;; (if cast_rhs then mcast tb t else CIns []) ;;; CPush ;;; ca ;;; mcast ta t ;;; CPopRdi ;;; CIns (gen_binop o t).

(* a > b is parsed as b < a (so a is evaluated first), a >= b as b <= a *)
Definition swapped (o : binop) : bool := match o with OGt | OGe => true | _ => false end.

Definition bin_code (o : binop) (ca : mcode) (ta : ity) (cb : mcode) (tb : ity) : mcode :=
  match o with
  | OGt => mcbin OLt (m_common tb ta) cb tb ca ta true
  | OGe => mcbin OLe (m_common tb ta) cb tb ca ta true
  | _ => if is_shift o then mcbin o (m_common I32 ta) ca ta cb tb false
         else mcbin o (m_common ta tb) ca ta cb tb true
  end.

(* the type of the node  A o B  *)
Definition bin_type (o : binop) (ta tb : ity) : ity :=
  if is_arith o then m_common ta tb else if is_shift o then m_common I32 ta else I32.

(* n = index of the first temporary this expression may use (temporaries are created in
   parse order: those of the left operand first; to_assign creates its own after parsing the rhs) *)
Fixpoint mcomp (F : frame) (n : nat) (e : mexpr) : mcode :=
  let G := ftys F in
  match e with
  | MLit _ v => CImm v
  | MVar x => CLea (voff F x) ;;; CLoad (load_kind (vty G x))
  | MUn LogNot a => mcomp F n a ;;; CIns (gen_unop LogNot (mm_type G a))
  | MUn Plus a => mcomp F n a ;;; mcast (mm_type G a) (mm_type G e)
  | MUn o a => mcomp F n a ;;; mcast (mm_type G a) (mm_type G e) ;;; CIns (gen_unop o (mm_type G e))
  | MBin LAnd a b => CAnd (mcomp F n a) (mm_type G a) (mcomp F (n + ntemps a) b) (mm_type G b)
  | MBin LOr a b => COr (mcomp F n a) (mm_type G a) (mcomp F (n + ntemps a) b) (mm_type G b)
  | MBin o a b => bin_code o (mcomp F n a) (mm_type G a) (mcomp F (n + ntemps a) b) (mm_type G b)
  | MCast t a => mcomp F n a ;;; mcast (mm_type G a) t
  | MCond c a b =>
    let t := m_common (mm_type G a) (mm_type G b) in
    CCond (mcomp F n c) (mm_type G c)
          (mcomp F (n + ntemps c) a ;;; mcast (mm_type G a) t)
          (mcomp F (n + ntemps c + ntemps a) b ;;; mcast (mm_type G b) t)
  | MComma a b => mcomp F n a ;;; mcomp F (n + ntemps a) b
  | MAssign x a =>
    CLea (voff F x) ;;; CPush ;;; mcomp F n a ;;; mcast (mm_type G a) (vty G x) ;;; CPopRdi ;;; CStore (store_kind (vty G x))
  | MOpAssign o x a =>
    let tmp := toff F (n + ntemps a) in
    let tx := vty G x in
    (* tmp = &A *)
    CLea tmp ;;; CPush ;;; CLea (voff F x) ;;; CPopRdi ;;; CStore St8 ;;;
    (* *tmp = (typeof A)( *tmp o B ) *)
    CLea tmp ;;; CLoad LdQ ;;; CPush ;;;
    bin_code o (CLea tmp ;;; CLoad LdQ ;;; CLoad (load_kind tx)) tx (mcomp F n a) (mm_type G a) ;;;
    mcast (bin_type o tx (mm_type G a)) tx ;;; CPopRdi ;;; CStore (store_kind tx)
  | MIncDec true inc x =>
    let sv := toff F n in let tmp := toff F (S n) in
    let tx := vty G x in
    (* tmp = &A *)
    CLea tmp ;;; CPush ;;; CLea (voff F x) ;;; CPopRdi ;;; CStore St8 ;;;
    (* old = *tmp   (ND_ASSIGN: the rhs is cast to the type of old) *)
    CLea sv ;;; CPush ;;; CLea tmp ;;; CLoad LdQ ;;; CLoad (load_kind tx) ;;; mcast tx tx ;;; CPopRdi ;;; CStore (store_kind tx) ;;;
    (* *tmp = (typeof A)(old + d) *)
    CLea tmp ;;; CLoad LdQ ;;; CPush ;;;
    bin_code Add (CLea sv ;;; CLoad (load_kind tx)) tx (CImm (if inc then 1 else -1)) I32 ;;;
    mcast (bin_type Add tx I32) tx ;;; CPopRdi ;;; CStore (store_kind tx) ;;;
    (* , old   and the cast of new_inc_dec *)
    CLea sv ;;; CLoad (load_kind tx) ;;; mcast tx tx
  | MIncDec false _ _ => CIns []          (* rewritten by the parser: see desugar *)
  end.

Definition mcompile (F : frame) (e : mexpr) : mcode := mcomp F 0 (desugar (ftys F) e).

(* ---------- -S text ---------- *)
Local Infix "+++" := String.append (at level 60, right associativity).
Local Open Scope string_scope.
Local Open Scope list_scope.
Definition zs (z : Z) : string := NilZero.string_of_int (Z.to_int z).
Definition ns (n : nat) : string := zs (Z.of_nat n).
Definition ld_text (k : ldk) : string :=
  match k with
  | LdSB => "movsbl (%rax), %eax" | LdZB => "movzbl (%rax), %eax"
  | LdSW => "movswl (%rax), %eax" | LdZW => "movzwl (%rax), %eax"
  | LdSXD => "movsxd (%rax), %rax" | LdQ => "mov (%rax), %rax"
  end.
Definition st_text (k : stk) : string :=
  match k with
  | St1 => "mov %al, (%rdi)" | St2 => "mov %ax, (%rdi)" | St4 => "mov %eax, (%rdi)" | St8 => "mov %rax, (%rdi)"
  end.
Definition cmpz_text (t : ity) : list string := map insn_text (gen_cmp_zero t).

(* lines (labels end in ':') and the next free label number; gen_expr takes its number BEFORE the operands *)
Fixpoint mtext (c : mcode) (l : nat) : list string * nat :=
  match c with
  | CIns p => (map insn_text p, l)
  | CImm v => (["mov $" +++ zs v +++ ", %rax"], l)
  | CPush => (["push %rax"], l)
  | CPopRdi => (["pop %rdi"], l)
  | CLea off => (["lea " +++ zs off +++ "(%rbp), %rax"], l)
  | CLoad k => ([ld_text k], l)
  | CStore k => ([st_text k], l)
  | CSeq a b => let '(ta, l1) := mtext a l in let '(tb, l2) := mtext b l1 in (ta ++ tb, l2)
  | CAnd a ta b tb =>
    let '(xa, l1) := mtext a (S l) in let '(xb, l2) := mtext b l1 in
    (xa ++ cmpz_text ta ++ ["je .L.false." +++ ns l] ++ xb ++ cmpz_text tb ++
     ["je .L.false." +++ ns l; "mov $1, %rax"; "jmp .L.end." +++ ns l; ".L.false." +++ ns l +++ ":"; "mov $0, %rax"; ".L.end." +++ ns l +++ ":"], l2)
  | COr a ta b tb =>
    let '(xa, l1) := mtext a (S l) in let '(xb, l2) := mtext b l1 in
    (xa ++ cmpz_text ta ++ ["jne .L.true." +++ ns l] ++ xb ++ cmpz_text tb ++
     ["jne .L.true." +++ ns l; "mov $0, %rax"; "jmp .L.end." +++ ns l; ".L.true." +++ ns l +++ ":"; "mov $1, %rax"; ".L.end." +++ ns l +++ ":"], l2)
  | CCond c tc a b =>
    let '(xc, l1) := mtext c (S l) in let '(xa, l2) := mtext a l1 in let '(xb, l3) := mtext b l2 in
    (xc ++ cmpz_text tc ++ ["je .L.else." +++ ns l] ++ xa ++ ["jmp .L.end." +++ ns l; ".L.else." +++ ns l +++ ":"] ++ xb ++ [".L.end." +++ ns l +++ ":"], l3)
  end.
