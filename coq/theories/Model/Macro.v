(* Model of macro definition and expansion in preprocess.c: read_macro_definition / read_macro_params,
   read_macro_args / read_macro_arg_one, subst (with #, ##, `, ## __VA_ARGS__`, __VA_OPT__),
   stringize / join_tokens / quote_string, paste (re-tokenisation through the lexer model),
   hide sets, expand_macro and the main loop of preprocess2 for text lines, #define and #undef.
   Token lists replace the EOF-terminated linked lists.  Every potentially unbounded loop takes
   fuel; running out is the distinguished result [MFuel] (never a normal-looking value).
   Not modelled: built-in dynamic macros (__LINE__ ...), all other directives ([MUnsup]). *)
From Coq Require Import List NArith Bool Arith.
From Chibicc Require Import Model.Lexer.
Import ListNotations.
Local Open Scope N_scope.

Definition name := list N.
Fixpoint txt_eqb (a b : list N) : bool :=
  match a, b with
  | [], [] => true
  | x :: a', y :: b' => (x =? y) && txt_eqb a' b'
  | _, _ => false
  end.

Record mtok := MT { m_txt : list N; m_kind : tkind; m_sp : bool; m_bol : bool; m_hs : list name }.
Record macro := MC { mc_obj : bool; mc_params : list name; mc_va : option name; mc_body : list mtok }.
Definition env := list (name * macro).

Inductive mres (A : Type) := MOk (a : A) | MErr | MFuel | MUnsup.
Arguments MOk {A}. Arguments MErr {A}. Arguments MFuel {A}. Arguments MUnsup {A}.

Definition is (t : mtok) (s : list N) : bool := txt_eqb (m_txt t) s.
Definition LP := [40]. Definition RP := [41]. Definition COMMA := [44]. Definition HASH := [35]. Definition HASHHASH := [35; 35].
Definition ELLIPSIS := [46; 46; 46].
Definition VA_ARGS : name := [95; 95; 86; 65; 95; 65; 82; 71; 83; 95; 95].
Definition VA_OPT : name := [95; 95; 86; 65; 95; 79; 80; 84; 95; 95].
Definition DEFINE : name := [100; 101; 102; 105; 110; 101].
Definition UNDEF : name := [117; 110; 100; 101; 102].

(* ---------- hide sets ---------- *)
Definition hs_contains (hs : list name) (s : name) : bool := existsb (txt_eqb s) hs.
Definition hs_union (a b : list name) : list name := a ++ b.
Definition hs_inter (a b : list name) : list name := filter (hs_contains b) a.
Definition add_hideset (hs : list name) (ts : list mtok) : list mtok :=
  map (fun t => MT (m_txt t) (m_kind t) (m_sp t) (m_bol t) (hs_union (m_hs t) hs)) ts.

Fixpoint lookup (e : env) (s : name) : option macro :=
  match e with [] => None | (n, m) :: r => if txt_eqb n s then Some m else lookup r s end.
Definition find_macro (e : env) (t : mtok) : option macro :=
  match m_kind t with LIdent => lookup e (m_txt t) | _ => None end.
Fixpoint undef (e : env) (s : name) : env :=
  match e with [] => [] | (n, m) :: r => if txt_eqb n s then undef r s else (n, m) :: undef r s end.

(* ---------- argument collection ---------- *)
Fixpoint read_arg_one (read_rest : bool) (level : nat) (ts : list mtok) : option (list mtok * list mtok) :=
  match ts with
  | [] => None                                                   (* premature end of input *)
  | t :: r =>
    if Nat.eqb level 0 && is t RP then Some ([], ts)
    else if Nat.eqb level 0 && negb read_rest && is t COMMA then Some ([], ts)
    else
      let level' := if is t LP then S level else if is t RP then pred level else level in
      match read_arg_one read_rest level' r with
      | Some (a, rest) => Some (t :: a, rest)
      | None => None
      end
  end.

Definition skip (s : list N) (ts : list mtok) : option (list mtok) :=
  match ts with t :: r => if is t s then Some r else None | [] => None end.

Record marg := MA { a_name : name; a_toks : list mtok; a_va : bool }.

Fixpoint read_fixed_args (first : bool) (params : list name) (ts : list mtok) : option (list marg * list mtok) :=
  match params with
  | [] => Some ([], ts)
  | p :: ps =>
    match (if first then Some ts else skip COMMA ts) with
    | None => None
    | Some ts1 =>
      match read_arg_one false 0 ts1 with
      | None => None
      | Some (a, rest) =>
        match read_fixed_args false ps rest with
        | Some (l, rest') => Some (MA p a false :: l, rest')
        | None => None
        end
      end
    end
  end.

(* ts starts after the "(" ; result: arguments, the closing parenthesis, the tokens after it *)
Definition read_macro_args (params : list name) (va : option name) (ts : list mtok)
  : option (list marg * mtok * list mtok) :=
  match read_fixed_args true params ts with
  | None => None
  | Some (args, rest) =>
    let with_va :=
      match va with
      | None => Some (args, rest)
      | Some vn =>
        match rest with
        | t :: _ =>
          if is t RP then Some (args ++ [MA vn [] true], rest)
          else
            match (match params with [] => Some rest | _ => skip COMMA rest end) with
            | None => None
            | Some rest1 =>
              match read_arg_one true 0 rest1 with
              | Some (a, rest2) => Some (args ++ [MA vn a true], rest2)
              | None => None
              end
            end
        | [] => None
        end
      end in
    match with_va with
    | Some (args', t :: r) => if is t RP then Some (args', t, r) else None
    | _ => None
    end
  end.

Fixpoint find_arg (args : list marg) (t : mtok) : option marg :=
  match args with [] => None | a :: r => if txt_eqb (a_name a) (m_txt t) then Some a else find_arg r t end.

Definition has_varargs (args : list marg) : bool :=
  existsb (fun a => txt_eqb (a_name a) VA_ARGS && match a_toks a with [] => false | _ => true end) args.

(* ---------- # and ## ---------- *)
Fixpoint join_tokens (first : bool) (ts : list mtok) : list N :=
  match ts with
  | [] => []
  | t :: r => (if negb first && (m_sp t || m_bol t) then [32] else []) ++ m_txt t ++ join_tokens false r
  end.
Fixpoint quote_body (s : list N) : list N :=
  match s with [] => [] | c :: r => (if (c =? 92) || (c =? 34) then [92; c] else [c]) ++ quote_body r end.
Definition stringize (hash : mtok) (arg : list mtok) : mtok :=
  MT ([34] ++ quote_body (join_tokens true arg) ++ [34]) LStr (m_sp hash) (m_bol hash) [].

Section Paste.
Variable punct_table : list (list N).
Definition paste (l r : mtok) : option mtok :=
  match tokenize punct_table (m_txt l ++ m_txt r) with
  | LexOk [t] => Some (MT (t_text t) (t_kind t) (m_sp l) (m_bol l) [])
  | _ => None
  end.

Definition set_flags (bol sp : bool) (ts : list mtok) : list mtok :=
  match ts with t :: r => MT (m_txt t) (m_kind t) sp bol (m_hs t) :: r | [] => [] end.

(* subst: acc is the output built so far, newest first; pp expands an argument completely *)
Section Subst.
Variable pp : list mtok -> mres (list mtok).
Variable objlike : bool.
Fixpoint subst (n : nat) (body : list mtok) (args : list marg) (acc : list mtok) : mres (list mtok) :=
  match n with
  | O => MFuel
  | S n' =>
    match body with
    | [] => MOk (rev acc)
    | t :: r =>
      (* "#" followed by a parameter *)
      if is t HASH && negb objlike then
        match r with
        | p :: r' => match find_arg args p with
                     | Some a => subst n' r' args (stringize t (a_toks a) :: acc)
                     | None => MErr end
        | [] => MErr
        end
      else
      (* ", ## __VA_ARGS__" *)
      let gnu_comma :=
        if is t COMMA then
          match r with
          | h :: p :: r' => if is h HASHHASH then
                              match find_arg args p with
                              | Some a => if a_va a then Some (a, p, r') else None
                              | None => None end
                            else None
          | _ => None
          end
        else None in
      match gnu_comma with
      | Some (a, p, r') =>
        match a_toks a with
        | [] => subst n' r' args acc
        | toks => subst n' r' args (rev (set_flags (m_bol p) (m_sp p) toks) ++ t :: acc)
        end
      | None =>
      if is t HASHHASH then
        match acc, r with
        | [], _ => MErr
        | _, [] => MErr
        | cur :: acc', nx :: r' =>
          match find_arg args nx with
          | Some a =>
            match a_toks a with
            | [] => subst n' r' args acc
            | a0 :: arest => match paste cur a0 with
                             | Some pt => subst n' r' args (rev arest ++ pt :: acc')
                             | None => MErr end
            end
          | None => match paste cur nx with
                    | Some pt => subst n' r' args (pt :: acc')
                    | None => MErr end
          end
        end
      else
      match find_arg args t with
      | Some a =>
        match r with
        | h :: r' =>
          if is h HASHHASH then
            match a_toks a with
            | [] =>
              match r' with
              | rhs :: r'' =>
                match find_arg args rhs with
                | Some a2 =>
                  (* a ## b ## c with a empty: the result of the first paste is b, which is the left operand of the next ## *)
                  if match r'' with h2 :: _ => is h2 HASHHASH | [] => false end then subst n' r' args acc
                  else subst n' r'' args (rev (set_flags (m_bol rhs) (m_sp rhs) (a_toks a2)) ++ acc)
                | None => subst n' r'' args (rhs :: acc)
                end
              | [] => MErr        (* the C code dereferences the EOF token here *)
              end
            | toks => subst n' r args (rev (set_flags (m_bol t) (m_sp t) toks) ++ acc)
            end
          else
            match pp (a_toks a) with
            | MOk ex => subst n' r args (rev (set_flags (m_bol t) (m_sp t) ex) ++ acc)
            | MErr => MErr | MFuel => MFuel | MUnsup => MUnsup
            end
        | [] =>
          match pp (a_toks a) with
          | MOk ex => subst n' r args (rev (set_flags (m_bol t) (m_sp t) ex) ++ acc)
          | MErr => MErr | MFuel => MFuel | MUnsup => MUnsup
          end
        end
      | None =>
        (* __VA_OPT__ ( ... ) *)
        if is t VA_OPT && match r with h :: _ => is h LP | [] => false end then
          match read_arg_one true 0 (tl r) with
          | Some (content, rp :: r') =>
            (* the content is substituted like the rest of the body (parameters, #, ##) before it is appended *)
            if has_varargs args then
              match subst n' content args [] with
              | MOk c' => subst n' r' args (rev c' ++ acc)
              | e => e
              end
            else subst n' r' args acc
          | _ => MErr
          end
        else subst n' r args (t :: acc)
      end
      end
    end
  end.
End Subst.

(* ---------- #define ---------- *)
Fixpoint take_line (ts : list mtok) : list mtok * list mtok :=           (* copy_line *)
  match ts with
  | [] => ([], [])
  | t :: r => if m_bol t then ([], ts) else let (a, b) := take_line r in (t :: a, b)
  end.

(* read_macro_params: ts starts after "(" *)
Fixpoint read_params (n : nat) (first : bool) (ts : list mtok) : option (list name * option name * list mtok) :=
  match n with
  | O => None
  | S n' =>
    match ts with
    | [] => None
    | t :: r =>
      if is t RP then Some ([], None, r)
      else
        match (if first then Some ts else skip COMMA ts) with
        | None => None
        | Some [] => None
        | Some (p :: r1) =>
          if is p ELLIPSIS then match skip RP r1 with Some r2 => Some ([], Some VA_ARGS, r2) | None => None end
          else match m_kind p with
          | LIdent =>
            match r1 with
            | e :: r2 =>
              if is e ELLIPSIS then match skip RP r2 with Some r3 => Some ([], Some (m_txt p), r3) | None => None end
              else match read_params n' false r1 with
                   | Some (ps, va, rest) => Some (m_txt p :: ps, va, rest)
                   | None => None end
            | [] => None
            end
          | _ => None
          end
        end
    end
  end.

(* ts starts after "define" *)
Definition read_definition (e : env) (ts : list mtok) : option (env * list mtok) :=
  match ts with
  | nm :: r =>
    match m_kind nm with
    | LIdent =>
      match r with
      | lp :: r1 =>
        if negb (m_sp lp) && negb (m_bol lp) && is lp LP then       (* a "(" starts a parameter list only on the same line, directly after the name (730c5b4) *)
          match read_params (S (length r1)) true r1 with
          | Some (ps, va, rest) => let (body, rest') := take_line rest in Some ((m_txt nm, MC false ps va body) :: e, rest')
          | None => None
          end
        else let (body, rest') := take_line r in Some ((m_txt nm, MC true [] None body) :: e, rest')
      | [] => Some ((m_txt nm, MC true [] None []) :: e, [])
      end
    | _ => None
    end
  | [] => None
  end.

Definition other_directives : list name :=
  [[105;110;99;108;117;100;101]; [105;110;99;108;117;100;101;95;110;101;120;116]; [105;102]; [105;102;100;101;102]; [105;102;110;100;101;102];
   [101;108;105;102]; [101;108;115;101]; [101;110;100;105;102]; [108;105;110;101]; [112;114;97;103;109;97]; [101;114;114;111;114]].

(* ---------- expand_macro and preprocess2 ---------- *)
Inductive expansion := NoExp | Exp (ts : list mtok) | ExpErr | ExpFuel | ExpUnsup.

Definition expand_macro (pp : list mtok -> mres (list mtok)) (e : env) (t : mtok) (rest : list mtok) : expansion :=
  if hs_contains (m_hs t) (m_txt t) then NoExp else
  match find_macro e t with
  | None => NoExp
  | Some m =>
    if mc_obj m then
      let hs := hs_union (m_hs t) [m_txt t] in
      match subst pp true (S (length (mc_body m))) (mc_body m) [] [] with
      | MOk body => Exp (set_flags (m_bol t) (m_sp t) (add_hideset hs body) ++ rest)
      | MErr => ExpErr | MFuel => ExpFuel | MUnsup => ExpUnsup
      end
    else
      match rest with
      | lp :: r =>
        if is lp LP then
          match read_macro_args (mc_params m) (mc_va m) r with
          | None => ExpErr
          | Some (args, rparen, after) =>
            let hs := hs_union (hs_inter (m_hs t) (m_hs rparen)) [m_txt t] in
            match subst pp false (S (length (mc_body m))) (mc_body m) args [] with
            | MOk body => Exp (set_flags (m_bol t) (m_sp t) (add_hideset hs body) ++ after)
            | MErr => ExpErr | MFuel => ExpFuel | MUnsup => ExpUnsup
            end
          end
        else NoExp
      | [] => NoExp
      end
  end.

(* a token of the source text, as opposed to one that results from macro replacement: every replacement
   token carries at least the name of its macro in its hide set (add_hideset), source tokens carry none.
   Only a source '#' begins a directive (C11 6.10.3.4p3; is_hash tests tok->origin) *)
Definition from_source (t : mtok) : bool := match m_hs t with [] => true | _ => false end.

(* preprocess2 without directive handling: used for macro arguments *)
Fixpoint pp_args (f : nat) (e : env) (ts : list mtok) : mres (list mtok) :=
  match f with
  | O => MFuel
  | S f' =>
    match ts with
    | [] => MOk []
    | t :: r =>
      match expand_macro (pp_args f' e) e t r with
      | Exp ts' => pp_args f' e ts'
      | ExpErr => MErr | ExpFuel => MFuel | ExpUnsup => MUnsup
      | NoExp =>
        if m_bol t && is t HASH && from_source t then MUnsup
        else match pp_args f' e r with MOk l => MOk (t :: l) | x => x end
      end
    end
  end.

Fixpoint pp2 (f : nat) (e : env) (ts : list mtok) : mres (list mtok) :=
  match f with
  | O => MFuel
  | S f' =>
    match ts with
    | [] => MOk []
    | t :: r =>
      match expand_macro (pp_args f' e) e t r with
      | Exp ts' => pp2 f' e ts'
      | ExpErr => MErr | ExpFuel => MFuel | ExpUnsup => MUnsup
      | NoExp =>
        if m_bol t && is t HASH && from_source t then
          match r with
          | d :: r1 =>
            if is d DEFINE then
              match read_definition e r1 with Some (e', rest) => pp2 f' e' rest | None => MErr end
            else if is d UNDEF then
              match r1 with
              | nm :: r2 => match m_kind nm with
                            | LIdent => pp2 f' (undef e (m_txt nm)) (snd (take_line r2))
                            | _ => MErr end
              | [] => MErr
              end
            else if existsb (is d) other_directives || match m_kind d with LNum => true | _ => false end then MUnsup
            else if m_bol d then pp2 f' e r                               (* null directive *)
            else MErr                                                      (* invalid preprocessor directive *)
          | [] => MOk []
          end
        else match pp2 f' e r with MOk l => MOk (t :: l) | x => x end
      end
    end
  end.
End Paste.

Definition of_lex (l : list tok) : list mtok := map (fun t => MT (t_text t) (t_kind t) (t_space t) (t_bol t) []) l.
