(* C15: the two list algorithms of parse.c that decide which symbols an object file defines.
   (1) scan_globals: a tentative definition is dropped when the unit has a real definition of the
       name or when a tentative definition of the name has already been kept.
   (2) mark_live: static inline functions are emitted only if reachable, through the recorded
       references, from a function that is always emitted; depth-first search with a visited mark. *)
From Coq Require Import List Bool Arith.
Import ListNotations.

Record gvar := { g_name : nat; g_def : bool; g_tent : bool }.     (* is_definition, is_tentative *)

Definition same (a : nat) (g : gvar) : bool := Nat.eqb a (g_name g).

(* the loop of scan_globals: kept is the output list so far (in order) *)
Fixpoint scan (all : list gvar) (rest : list gvar) (kept : list gvar) : list gvar :=
  match rest with
  | [] => kept
  | v :: r =>
    if negb (g_tent v) then scan all r (kept ++ [v])
    else
      let redundant :=
        existsb (fun k => g_tent k && same (g_name v) k) kept ||
        existsb (fun o => g_def o && negb (g_tent o) && same (g_name v) o) all in
      if redundant then scan all r kept else scan all r (kept ++ [v])
  end.
Definition scan_globals (gs : list gvar) : list gvar := scan gs gs [].

(* what emit_data then defines: every entry that is a definition *)
Definition defined_names (gs : list gvar) : list nat := map g_name (filter g_def (scan_globals gs)).

(* ---------- liveness ---------- *)
Record func := { f_name : nat; f_root : bool; f_refs : list nat }.   (* root = not (static and inline) *)

Fixpoint find_func (fs : list func) (n : nat) : option func :=
  match fs with [] => None | f :: r => if Nat.eqb (f_name f) n then Some f else find_func r n end.

Fixpoint mark_live (fuel : nat) (fs : list func) (live : list nat) (n : nat) : list nat :=
  match fuel with
  | O => live
  | S fuel' =>
    match find_func fs n with
    | None => live
    | Some f =>
      if existsb (Nat.eqb n) live then live
      else fold_left (fun l u => mark_live fuel' fs l u) (f_refs f) (n :: live)
    end
  end.

Definition live_set (fs : list func) : list nat :=
  fold_left (fun l f => if f_root f then mark_live (S (length fs)) fs l (f_name f) else l) fs [].
