(* C15 (package emit): from declarations to the symbol table, as chibicc does it.

   parse.c   global_variable / function / declaration (block-scope static) / new_string_literal /
             primary (reference recording) / mark_live / scan_globals      -> parse_flags
   codegen.c emit_data / emit_text (the directives that matter for the symbol table) / gen_addr
                                                                          -> emit, gen_addr
   GNU as    the meaning of those directives                               -> asm, sym_lookup

   Mirrored quirk of the C code (excluded by kb_extern_init_static in the theorems, shown real in EmitExtra):
     - global_variable: is_static comes from the specifiers of the declaration itself, so
       `static int x; extern int x = 5;` emits a GLOBAL x (C11 6.2.2p4: internal linkage).
   Repaired in /repo and mirrored here as repaired:
     Update 2 - f841ff9 (current_fn reset, is_root kept), 7f591c9 (block-scope static _Thread_local), ec870ff / 82bbc19
       (_Alignas on block-scope statics; carried from an earlier file-scope declaration: prev_align / new_align);
     Update 3 - 2049a24 (an initializer makes a definition, `extern` or not), 85373f4 (is_inline_def: an inline definition
       becomes external when a later file-scope declaration lacks `inline` or has `extern`), 62ebd1d (owner_fn: a block-scope
       static is emitted only if its function is live).
   Abstracted away: types (size, alignment, array-ness are given), expression code (a body is the
   list of identifiers it names; every use goes through gen_addr), the bytes of initializers,
   block scopes other than `static` objects, compound literals, builtin alloca (declared, never
   defined, never referenced here).  A reference to an undeclared identifier, a second function
   body, `static` after non-static are compile errors in C; here they are silently processed and
   excluded by `valid`.  scan below is Linkage.scan copied for the richer record. *)
From Coq Require Import List Bool Arith ZArith.
From Chibicc Require Import Model.Linkage Spec.LinkSpec.
Import ListNotations.

Inductive ident := User (n : nat) | Anon (k : nat).          (* Anon k is the label .L..k *)
Definition ident_eqb (a b : ident) : bool :=
  match a, b with User x, User y => Nat.eqb x y | Anon x, Anon y => Nat.eqb x y | _, _ => false end.

(* a use of a variable in a function body, resolved by find_var at parse time *)
Inductive rref := RFun (n : nat) | RObj (n : nat) (tls : bool) | RAnon (k : nat) (tls : bool).

Record obj := mkObj {
  ob_name : ident; ob_function : bool; ob_definition : bool; ob_static : bool; ob_tentative : bool;
  ob_tls : bool; ob_inline : bool; ob_root : bool; ob_live : bool;
  ob_init : bool;                 (* init_data != NULL *)
  ob_rel : option nat;            (* one relocation at offset 0: .quad name+0 *)
  ob_size : Z; ob_align : Z; ob_array : bool;
  ob_refs : list nat;             (* Obj.refs: names of functions the body mentions *)
  ob_body : list rref;
  ob_inline_def : bool;           (* is_inline_def (85373f4): local only as an inline definition, 6.7.4p7 *)
  ob_owner : option nat }.        (* owner_fn (62ebd1d): the enclosing function of a block-scope static *)

Definition is_fun_named (n : nat) (o : obj) : bool := ob_function o && ident_eqb (User n) (ob_name o).

(* ---------- parse.c ---------- *)
Record pstate := mkPS {
  ps_globals : list obj;                       (* the list `globals`, newest first *)
  ps_scope : list (nat * (bool * bool));       (* file scope, newest first: name -> (is_function, is_tls) *)
  ps_anon : nat;                               (* new_unique_name's counter *)
  ps_cur : option nat }.                       (* current_fn *)

Fixpoint resolve (sc : list (nat * (bool * bool))) (n : nat) : option (bool * bool) :=
  match sc with [] => None | (m, k) :: r => if Nat.eqb m n then Some k else resolve r n end.

(* find_func: the function object of that name *)
Fixpoint find_fun (n : nat) (gs : list obj) : option obj :=
  match gs with [] => None | o :: r => if is_fun_named n o then Some o else find_fun n r end.

Definition update_fun (n : nat) (f : obj -> obj) (gs : list obj) : list obj :=
  map (fun o => if is_fun_named n o then f o else o) gs.

Definition set_root (o : obj) : obj :=
  mkObj (ob_name o) (ob_function o) (ob_definition o) (ob_static o) (ob_tentative o) (ob_tls o) (ob_inline o) true (ob_live o)
        (ob_init o) (ob_rel o) (ob_size o) (ob_align o) (ob_array o) (ob_refs o) (ob_body o) (ob_inline_def o) (ob_owner o).
Definition add_ref (t : nat) (o : obj) : obj :=
  mkObj (ob_name o) (ob_function o) (ob_definition o) (ob_static o) (ob_tentative o) (ob_tls o) (ob_inline o) (ob_root o) (ob_live o)
        (ob_init o) (ob_rel o) (ob_size o) (ob_align o) (ob_array o) (ob_refs o ++ [t]) (ob_body o) (ob_inline_def o) (ob_owner o).
Definition set_live (b : bool) (o : obj) : obj :=
  mkObj (ob_name o) (ob_function o) (ob_definition o) (ob_static o) (ob_tentative o) (ob_tls o) (ob_inline o) (ob_root o) b
        (ob_init o) (ob_rel o) (ob_size o) (ob_align o) (ob_array o) (ob_refs o) (ob_body o) (ob_inline_def o) (ob_owner o).

(* new_gvar + global_variable; a: var->align, see new_align *)
Definition obj_of_decl (n : nat) (d : objdecl) (a : Z) : obj :=
  let ext := sc_eqb (o_sc d) SC_extern in
  mkObj (User n) false (negb ext || has_init (o_init d)) (sc_eqb (o_sc d) SC_static)      (* 2049a24: an initializer makes a definition *)
        (negb (has_init (o_init d)) && negb ext)
        (o_tls d) false false false
        (has_init (o_init d)) (match o_init d with IAddr t => Some t | _ => None end)
        (o_size d) a (o_array d) [] [] false None.

(* global_variable (82bbc19): `prev = find_var(name)` before the new object is made; attr->align wins, otherwise
   the alignment of the earlier declaration of the object stays: MAX(ty->align, prev->var->align) *)
Definition prev_align (gs : list obj) (n : nat) : option Z :=
  match find (fun o => ident_eqb (User n) (ob_name o)) gs with
  | Some o => if ob_function o then None else Some (ob_align o)
  | None => None
  end.
Definition new_align (d : objdecl) (prev : option Z) : Z :=
  match o_alignas d with
  | Some a => a
  | None => match prev with Some pa => Z.max (o_align d) pa | None => o_align d end
  end.

(* new_anon_gvar: static, definition, never tentative; declaration() copies _Thread_local and _Alignas *)
Definition anon_obj_of (k : nat) (tls hasinit : bool) (size align : Z) (arr : bool) (owner : option nat) : obj :=
  mkObj (Anon k) false true true false tls false false false hasinit None size align arr [] [] false owner.

(* primary() on an identifier that names a function, outside / inside a function *)
Definition note_fun_ref (cur : option nat) (t : nat) (gs : list obj) : list obj :=
  match cur with
  | Some g => update_fun g (add_ref t) gs
  | None => update_fun t set_root gs
  end.

(* the body of a function: anonymous objects are prepended to globals as they are met *)
Fixpoint parse_body (sc : list (nat * (bool * bool))) (fn : nat) (items : list bitem) (anon : nat) (gs : list obj)
                    (refs : list nat) (body : list rref) : list obj * nat * list nat * list rref :=
  match items with
  | [] => (gs, anon, refs, body)
  | BRef m :: r =>
      match resolve sc m with
      | Some (true, _) => parse_body sc fn r anon gs (refs ++ [m]) (body ++ [RFun m])
      | Some (false, tls) => parse_body sc fn r anon gs refs (body ++ [RObj m tls])
      | None => parse_body sc fn r anon gs refs body                  (* C: error "undefined variable" *)
      end
  | BStatic tls sz al arr hi :: r =>
      parse_body sc fn r (S anon) (anon_obj_of anon tls hi sz al arr (Some fn) :: gs) refs (body ++ [RAnon anon tls])    (* owner_fn = current_fn *)
  | BString sz :: r =>
      parse_body sc fn r (S anon) (anon_obj_of anon false true sz 1 true None :: gs) refs (body ++ [RAnon anon false])
  end.

Definition new_fun (n : nat) (sc : sclass) (inl_ : bool) : obj :=
  let st := sc_eqb sc SC_static || (inl_ && negb (sc_eqb sc SC_extern)) in
  mkObj (User n) true false st false false inl_ false false false None 0 0 false [] []      (* calloc: is_root = false *)
        (st && negb (sc_eqb sc SC_static)) None.

(* the part of function() that runs for every declaration after the first: is_definition accumulates; an inline
   definition becomes an external one when this file-scope declaration lacks `inline` or has `extern` (85373f4);
   then, for every declaration, is_root = is_root || !(is_static && is_inline) *)
Definition clears_inline_def (sc : sclass) (inl_ : bool) : bool := negb (sc_eqb sc SC_static) && (negb inl_ || sc_eqb sc SC_extern).
Definition redeclare (first : bool) (hasbody : bool) (sc : sclass) (inl_ : bool) (o : obj) : obj :=
  let clr := negb first && ob_inline_def o && clears_inline_def sc inl_ in
  let st := if clr then false else ob_static o in
  mkObj (ob_name o) (ob_function o) (ob_definition o || hasbody) st (ob_tentative o) (ob_tls o) (ob_inline o)
        (ob_root o || negb (st && ob_inline o)) (ob_live o)
        (ob_init o) (ob_rel o) (ob_size o) (ob_align o) (ob_array o) (ob_refs o) (ob_body o)
        (if clr then false else ob_inline_def o) (ob_owner o).
(* what compound_stmt leaves in the function object *)
Definition set_body (refs : list nat) (body : list rref) (o : obj) : obj :=
  mkObj (ob_name o) (ob_function o) (ob_definition o) (ob_static o) (ob_tentative o) (ob_tls o) (ob_inline o) (ob_root o) (ob_live o)
        (ob_init o) (ob_rel o) (ob_size o) (ob_align o) (ob_array o) (ob_refs o ++ refs) body (ob_inline_def o) (ob_owner o).

Definition step (s : pstate) (d : decl) : pstate :=
  match d with
  | DObj n od =>
      let gs := obj_of_decl n od (new_align od (prev_align (ps_globals s) n)) :: ps_globals s in
      let sc := (n, (false, o_tls od)) :: ps_scope s in
      let gs' := match o_init od with
                 | IAddr t => match resolve sc t with
                              | Some (true, _) => note_fun_ref (ps_cur s) t gs
                              | _ => gs
                              end
                 | _ => gs
                 end in
      mkPS gs' sc (ps_anon s) (ps_cur s)
  | DFun n sc inl_ fsz body =>
      let hasbody := match body with Some _ => true | None => false end in
      let '(gs1, scope1) :=
        match find_fun n (ps_globals s) with
        | Some _ => (update_fun n (redeclare false hasbody sc inl_) (ps_globals s), ps_scope s)
        | None => (redeclare true hasbody sc inl_ (new_fun n sc inl_) :: ps_globals s, (n, (true, false)) :: ps_scope s)
        end in
      match body with
      | None => mkPS gs1 scope1 (ps_anon s) (ps_cur s)
      | Some items =>
          let a := ps_anon s in
          let gs2 := anon_obj_of (S a) false true fsz 1 true None :: anon_obj_of a false true fsz 1 true None :: gs1 in   (* __func__, __FUNCTION__ *)
          let '(gs3, a3, refs, rb) := parse_body scope1 n items (S (S a)) gs2 [] [] in
          mkPS (update_fun n (set_body refs rb) gs3) scope1 a3 None      (* current_fn = NULL at the end of function() *)
      end
  end.

Definition parse (ds : list decl) : pstate := fold_left step ds (mkPS [] [] 0 None).

(* scan_globals (Linkage.scan on the richer record; strcmp on the names) *)
Definition same_name (a : ident) (o : obj) : bool := ident_eqb a (ob_name o).
Fixpoint scan (all rest kept : list obj) : list obj :=
  match rest with
  | [] => kept
  | v :: r =>
    if negb (ob_tentative v) then scan all r (kept ++ [v])
    else
      let redundant :=
        existsb (fun k => ob_tentative k && same_name (ob_name v) k) kept ||
        existsb (fun o => ob_definition o && negb (ob_tentative o) && same_name (ob_name v) o) all in
      if redundant then scan all r kept else scan all r (kept ++ [v])
  end.
Definition scan_globals (gs : list obj) : list obj := scan gs gs [].

(* mark_live from every root, through Linkage.live_set *)
Definition graph (gs : list obj) : list func :=
  flat_map (fun o => match ob_name o with
                     | User n => if ob_function o then [ {| f_name := n; f_root := ob_root o; f_refs := ob_refs o |} ] else []
                     | Anon _ => []
                     end) gs.
Definition model_live (gs : list obj) (n : nat) : bool := existsb (Nat.eqb n) (live_set (graph gs)).
Definition mark (gs : list obj) : list obj :=
  map (fun o => match ob_name o with
                | User n => if ob_function o then set_live (model_live gs n) o else o
                | Anon _ => o
                end) gs.

(* parse(): the program handed to codegen *)
Definition parse_flags (ds : list decl) : list obj := scan_globals (mark (ps_globals (parse ds))).

(* ---------- codegen.c ---------- *)
Inductive insn :=
| I_mov_rbp                    (* mov off(%rbp), %rax          VLA *)
| I_lea_rbp                    (* lea off(%rbp), %rax          local *)
| I_tlsgd (s : ident)          (* data16 lea s@tlsgd(%rip), %rdi *)
| I_value6666 | I_rex64 | I_call_tls_get_addr
| I_mov_got (s : ident)        (* mov s@GOTPCREL(%rip), %rax *)
| I_mov_fs0                    (* mov %fs:0, %rax *)
| I_add_tpoff (s : ident)      (* add $s@tpoff, %rax *)
| I_lea_rip (s : ident).       (* lea s(%rip), %rax *)

Record var := mkVar { v_name : ident; v_vla : bool; v_local : bool; v_function : bool; v_definition : bool; v_tls : bool }.

Definition gen_addr (pic : bool) (v : var) : list insn :=
  if v_vla v then [I_mov_rbp]
  else if v_local v then [I_lea_rbp]
  else if pic then
    (if v_tls v then [I_tlsgd (v_name v); I_value6666; I_rex64; I_call_tls_get_addr] else [I_mov_got (v_name v)])
  else if v_tls v then [I_mov_fs0; I_add_tpoff (v_name v)]
  else if v_function v then (if v_definition v then [I_lea_rip (v_name v)] else [I_mov_got (v_name v)])
  else [I_lea_rip (v_name v)].

Inductive directive :=
| D_globl (s : ident) | D_local (s : ident) | D_comm (s : ident) (size align : Z)
| D_section (p : place)        (* .text / .data / .bss / .section .tdata,"awT",@progbits / .section .tbss,"awT",@nobits *)
| D_type (s : ident) (t : stype) | D_size (s : ident) (z : Z) | D_align (a : Z) | D_label (s : ident)
| D_zero (n : Z) | D_bytes (n : Z) | D_quad (target : ident)
| D_code                       (* instructions that name no symbol *)
| D_insn (i : insn).

Definition eff_align (o : obj) : Z := if ob_array o && (16 <=? ob_size o)%Z then Z.max 16 (ob_align o) else ob_align o.

(* 62ebd1d: a block-scope static goes away with a function that is not emitted *)
Definition owner_live (prog : list obj) (o : obj) : bool :=
  match ob_owner o with
  | Some g => match find_fun g prog with Some f => ob_live f | None => false end
  | None => true
  end.
Definition emit_data_obj (fc : bool) (prog : list obj) (o : obj) : list directive :=
  if ob_function o || negb (ob_definition o) then []
  else if negb (owner_live prog o) then []
  else
    let nm := ob_name o in
    (if ob_static o then D_local nm else D_globl nm) ::
    if fc && ob_tentative o && negb (ob_tls o) then [D_comm nm (ob_size o) (eff_align o)]
    else if ob_init o then
      D_section (if ob_tls o then P_tdata else P_data) :: D_type nm T_object :: D_size nm (ob_size o) :: D_align (eff_align o) :: D_label nm ::
      match ob_rel o with
      | Some t => [D_quad (User t); D_bytes (ob_size o - 8)]
      | None => [D_bytes (ob_size o)]
      end
    else
      [D_section (if ob_tls o then P_tbss else P_bss); D_type nm T_object; D_size nm (ob_size o); D_align (eff_align o); D_label nm; D_zero (ob_size o)].

(* the variable a resolved use points to; for functions is_definition is read when code is generated *)
Definition var_of_ref (prog : list obj) (r : rref) : var :=
  match r with
  | RFun n => mkVar (User n) false false true (match find_fun n prog with Some f => ob_definition f | None => false end) false
  | RObj n tls => mkVar (User n) false false false true tls
  | RAnon k tls => mkVar (Anon k) false false false true tls
  end.

Definition emit_text_obj (pic : bool) (prog : list obj) (o : obj) : list directive :=
  if negb (ob_function o) || negb (ob_definition o) then []
  else if negb (ob_live o) then []
  else
    let nm := ob_name o in
    (if ob_static o then D_local nm else D_globl nm) :: D_section P_text :: D_type nm T_func :: D_label nm :: D_code ::
    flat_map (fun r => map D_insn (gen_addr pic (var_of_ref prog r)) ++ [D_code]) (ob_body o) ++ [D_code].

Definition emit (o : opts) (prog : list obj) : list directive :=
  flat_map (emit_data_obj (fcommon o) prog) prog ++ flat_map (emit_text_obj (fpic o) prog) prog.

(* ---------- GNU as, for the directive sequences above ---------- *)
Inductive event :=
| EBind (s : ident) (b : binding)
| EType (s : ident) (t : stype)
| ESize (s : ident) (z : Z)
| EDef (s : ident) (p : place) (al : option Z)       (* a label: section and the .align in front of it *)
| EComm (s : ident) (z : Z) (al : Z)
| ERef (s : ident) (tls : bool).                     (* a relocation against s; tls: @tpoff / @tlsgd *)

Definition insn_events (i : insn) : list event :=
  match i with
  | I_tlsgd s | I_add_tpoff s => [ERef s true]
  | I_mov_got s | I_lea_rip s => [ERef s false]
  | _ => []                                           (* __tls_get_addr: a name of the run-time, not of the program *)
  end.

Fixpoint asm (sec : place) (al : option Z) (ds : list directive) : list event :=
  match ds with
  | [] => []
  | d :: r =>
    match d with
    | D_globl s => EBind s B_global :: asm sec al r
    | D_local s => EBind s B_local :: asm sec al r
    | D_comm s z a => EComm s z a :: asm sec al r
    | D_section p => asm p None r
    | D_type s t => EType s t :: asm sec al r
    | D_size s z => ESize s z :: asm sec al r
    | D_align a => asm sec (Some a) r
    | D_label s => EDef s sec al :: asm sec None r
    | D_zero _ | D_bytes _ | D_code => asm sec None r
    | D_quad t => ERef t false :: asm sec None r
    | D_insn i => insn_events i ++ asm sec None r
    end
  end.

Definition ev_name (e : event) : ident :=
  match e with EBind s _ | EType s _ | ESize s _ | EDef s _ _ | EComm s _ _ | ERef s _ => s end.

(* last .globl/.local wins; default: local *)
Definition ev_binding (s : ident) (evs : list event) : binding :=
  fold_left (fun acc e => match e with EBind x b => if ident_eqb s x then b else acc | _ => acc end) evs B_local.
Definition ev_stype (s : ident) (evs : list event) : stype :=
  fold_left (fun acc e => match e with EType x t => if ident_eqb s x then t else acc | _ => acc end) evs T_notype.
Definition ev_size (s : ident) (evs : list event) : option Z :=
  fold_left (fun acc e => match e with
                          | ESize x z => if ident_eqb s x then Some z else acc
                          | EComm x z _ => if ident_eqb s x then Some z else acc
                          | _ => acc end) evs None.
Definition ev_defs (s : ident) (evs : list event) : list event :=
  filter (fun e => match e with EDef x _ _ | EComm x _ _ => ident_eqb s x | _ => false end) evs.
Definition ev_refs (s : ident) (evs : list event) : list bool :=
  flat_map (fun e => match e with ERef x t => if ident_eqb s x then [t] else [] | _ => [] end) evs.

Inductive lookup_result := Absent | Present (e : entry) | Clash.     (* Clash: "symbol is already defined" *)

Definition tls_place (p : place) : bool := match p with P_tdata | P_tbss => true | _ => false end.

Definition sym_lookup (evs : list event) (s : ident) : lookup_result :=
  match ev_defs s evs with
  | [] =>
      match ev_refs s evs with
      | [] => Absent
      | ts => Present (mkEntry B_global (if existsb (fun t => t) ts then T_tls else T_notype) P_undef None None)
      end
  | [EDef _ p al] =>
      let t := ev_stype s evs in
      Present (mkEntry (ev_binding s evs) (if tls_place p then T_tls else t) p
                       (ev_size s evs) al)
  | [EComm _ z al] =>
      (* .comm of a symbol declared .local is allocated in .bss; otherwise a common symbol *)
      match ev_binding s evs with
      | B_local => Present (mkEntry B_local T_object P_bss (Some z) (Some al))
      | B_global => Present (mkEntry B_global T_object P_common (Some z) (Some al))
      end
  | _ => Clash
  end.

(* what nm / readelf -s show for the identifiers of the program: labels starting with .L are not kept *)
Definition symtab_of (ds : list directive) (n : nat) : lookup_result := sym_lookup (asm P_text None ds) (User n).

(* the anonymous objects, oldest first: where they were placed *)
Definition anon_placements (ds : list directive) : list anon_obj :=
  let evs := asm P_text None ds in
  rev (flat_map (fun e => match e with
                          | EDef (Anon k) p al => [mkAnon p (match ev_size (Anon k) evs with Some z => z | None => 0%Z end)
                                                         (match al with Some a => a | None => 1%Z end)]
                          | _ => [] end) evs).

(* ---------- the one deviation of the C code from C11 that this model still mirrors (EmitExtra shows it is real) ---------- *)
(* `static int x; extern int x = 5;`: 6.2.2p4 keeps the internal linkage, global_variable takes is_static from this
   declaration's specifiers alone and emits a GLOBAL x *)
Definition kb_extern_init_static_seq (s : list objdecl) : bool :=
  existsb (fun d => sc_eqb (o_sc d) SC_extern && has_init (o_init d)) s
  && match obj_linkage s with Some L_internal => true | _ => false end.
Definition kb_extern_init_static (ds : list decl) : bool := existsb (fun n => kb_extern_init_static_seq (objseq n ds)) (map decl_name ds).
Definition no_known_bad (ds : list decl) : bool := negb (kb_extern_init_static ds).
