(* gen_expr (codegen.c) on expression trees over int / float / double operands, with the conversions
   add_type (type.c) inserts: the type get_common_type computes (double, then float, then the integer
   rule by size), the SSE branch of the binary operators selected by the type of the converted left
   operand (rhs first, pushf; lhs; popf into %xmm1; addss/addsd ...; ucomis %xmm0, %xmm1 + setcc with the
   parity test for == and !=), ND_NEG by xor with the sign bit, cmp_zero on float / double, ND_NUM
   for floating constants (bits through %eax / %rax), loads of global objects, and the cast table
   (the regenerated Gen/CastTable.v: its text entries are parsed into X86Sse instructions; the
   four branching unsigned-64-bit rows are recognised as a whole and executed as one step).
   Code is a tree as in ExprGen.v (labels of && || ?: are structure); [ctext] prints it as the
   lines chibicc writes, with labels numbered by a counter. *)
From Coq Require Import ZArith Bool List String DecimalString.
From Flocq Require Import Core Binary Bits.
From Chibicc Require Import Spec.C11Int Spec.C11Float Model.X86Int Model.CodegenInt Model.ConstFold Model.X86Sse Gen.CastTable.
Import ListNotations.
Local Open Scope Z_scope.

(* ---------- typing as chibicc does it ---------- *)
(* get_common_type on arithmetic types *)
Definition mf_common (a b : ty) : ty :=
  match a, b with
  | TF64, _ | _, TF64 => TF64
  | TF32, _ | _, TF32 => TF32
  | TI x, TI y => TI (m_common x y)
  end.

Fixpoint mf_type (e : fexpr) : ty :=
  match e with
  | FLit t _ => TI t
  | FLitS _ => TF32
  | FLitD _ => TF64
  | FVar t _ => t
  | FUn LogNot _ => TI I32
  | FUn Plus a => match mf_type a with TI t => TI (if size_of t <? 4 then I32 else t) | t => t end   (* unary() *)
  | FUn _ a => mf_common (TI I32) (mf_type a)                                                          (* ND_NEG, ND_BITNOT *)
  | FBin o a b =>
    if is_arith o then mf_common (mf_type a) (mf_type b)
    else if is_shift o then mf_common (TI I32) (mf_type a)
    else TI I32
  | FCast t _ => t
  | FCond _ a b => mf_common (mf_type a) (mf_type b)
  | FComma _ b => mf_type b
  end.

(* ---------- instruction selection ---------- *)
Definition fsz_of (t : ty) : fsz := match t with TF32 => SS | _ => SD end.

(* cmp_zero(ty): leaves ZF = "the value compares equal to zero" *)
Definition m_cmp_zero (t : ty) : list sinsn :=
  match t with
  | TI it => map SI (gen_cmp_zero it)
  | _ => [SXorp11 (fsz_of t); SUcomi10 (fsz_of t); SI (ISet CE); SSetnpDl; SAndDlAl; SCmp1Al]
  end.

(* getTypeId *)
Definition tid (t : ty) : nat := match t with TI it => type_id it | TF32 => 8%nat | TF64 => 9%nat end.

Local Open Scope string_scope.
(* the text entries of the cast table this model gives a meaning to *)
Definition parse_text (s : string) : sinsn :=
  if s =? "cvtsi2ssl %eax, %xmm0" then SCvtsi2s SS W32
  else if s =? "cvtsi2sdl %eax, %xmm0" then SCvtsi2s SD W32
  else if s =? "cvtsi2ssq %rax, %xmm0" then SCvtsi2s SS W64
  else if s =? "cvtsi2sdq %rax, %xmm0" then SCvtsi2s SD W64
  else if s =? "cvttss2sil %xmm0, %eax" then SCvtts2si SS W32
  else if s =? "cvttss2siq %xmm0, %rax" then SCvtts2si SS W64
  else if s =? "cvttsd2sil %xmm0, %eax" then SCvtts2si SD W32
  else if s =? "cvttsd2siq %xmm0, %rax" then SCvtts2si SD W64
  else if s =? "cvtss2sd %xmm0, %xmm0" then SCvtss2sd
  else if s =? "cvtsd2ss %xmm0, %xmm0" then SCvtsd2ss
  else SText s.
Local Close Scope string_scope.

Definition of_xinsn (x : xinsn) : sinsn := match x with XI i => SI i | XText s => parse_text s end.

(* the four branching rows, recognised as a whole *)
Local Open Scope string_scope.
Definition row_u64_to_f (z : fsz) : list string :=
  match z with
  | SS => ["test %rax,%rax"; "js 1f"; "pxor %xmm0,%xmm0"; "cvtsi2ss %rax,%xmm0"; "jmp 2f"; "1: mov %rax,%rdi"; "and $1,%eax";
           "pxor %xmm0,%xmm0"; "shr %rdi"; "or %rax,%rdi"; "cvtsi2ss %rdi,%xmm0"; "addss %xmm0,%xmm0"; "2:"]
  | SD => ["test %rax,%rax"; "js 1f"; "pxor %xmm0,%xmm0"; "cvtsi2sd %rax,%xmm0"; "jmp 2f"; "1: mov %rax,%rdi"; "and $1,%eax";
           "pxor %xmm0,%xmm0"; "shr %rdi"; "or %rax,%rdi"; "cvtsi2sd %rdi,%xmm0"; "addsd %xmm0,%xmm0"; "2:"]
  end.
Definition row_f_to_u64 (z : fsz) : list string :=
  match z with
  | SS => ["mov $0x5f000000, %edi"; "movd %edi, %xmm1"; "comiss %xmm1, %xmm0"; "jae 1f"; "cvttss2siq %xmm0, %rax"; "jmp 2f";
           "1: subss %xmm1, %xmm0"; "cvttss2siq %xmm0, %rax"; "btc $63, %rax"; "2:"]
  | SD => ["mov $0x43e0000000000000, %rdi"; "movq %rdi, %xmm1"; "comisd %xmm1, %xmm0"; "jae 1f"; "cvttsd2siq %xmm0, %rax"; "jmp 2f";
           "1: subsd %xmm1, %xmm0"; "cvttsd2siq %xmm0, %rax"; "btc $63, %rax"; "2:"]
  end.
Local Close Scope string_scope.
Fixpoint row_is (l : list xinsn) (r : list string) : bool :=
  match l, r with
  | [], [] => true
  | XText s :: l', t :: r' => String.eqb s t && row_is l' r'
  | _, _ => false
  end.
Definition of_row (l : list xinsn) : list sinsn :=
  if row_is l (row_u64_to_f SS) then [SU64ToF SS]
  else if row_is l (row_u64_to_f SD) then [SU64ToF SD]
  else if row_is l (row_f_to_u64 SS) then [SFToU64 SS]
  else if row_is l (row_f_to_u64 SD) then [SFToU64 SD]
  else map of_xinsn l.

(* cast(from, to) *)
Definition mcast (from to : ty) : list sinsn :=
  match to with
  | TI IBool => m_cmp_zero from ++ [SI (ISet CNE); SI IMovzxEax]
  | _ => match nth (tid to) (nth (tid from) cast_table []) None with
         | None => []
         | Some l => of_row l
         end
  end.

Definition fop_of (o : binop) : option fop :=
  match o with Add => Some FAdd | Sub => Some FSub | Mul => Some FMul | Div => Some FDiv | _ => None end.

(* the operator, operands converted to t: lhs in %rax / %xmm0, rhs in %rdi / %xmm1 *)
Definition mbinop (o : binop) (t : ty) : list sinsn :=
  match t with
  | TI it => map SI (gen_binop o it)
  | _ =>
    let z := fsz_of t in
    match o with
    | Add | Sub | Mul | Div => match fop_of o with Some f => [SArith f z] | None => [] end
    | OEq => [SUcomi01 z; SI (ISet CE); SSetnpDl; SAndDlAl; SAnd1Al; SI IMovzbRax]
    | ONe => [SUcomi01 z; SI (ISet CNE); SSetpDl; SOrDlAl; SAnd1Al; SI IMovzbRax]
    | OLt => [SUcomi01 z; SSeta; SAnd1Al; SI IMovzbRax]
    | OLe => [SUcomi01 z; SSetae; SAnd1Al; SI IMovzbRax]
    | _ => [SText "error: invalid expression"]
    end
  end.

Definition mneg (t : ty) : list sinsn :=
  match t with
  | TI _ => [SI (INeg W64)]
  | TF32 => [SMovImm W64 1; SShlImm 31; SMovqRax X1; SXorp SS]
  | TF64 => [SMovImm W64 1; SShlImm 63; SMovqRax X1; SXorp SD]
  end.

(* load(ty) *)
Definition load_kind (t : ty) : ldk :=
  match t with
  | TF32 => LdSS | TF64 => LdSD
  | TI it => if size_of it =? 1 then (if is_signed it || ity_eqb it IBool then LdSB else LdZB)
             else if size_of it =? 2 then (if is_signed it then LdSW else LdZW)
             else if size_of it =? 4 then LdSL else LdQ
  end.

(* ---------- code ---------- *)
Inductive fcode :=
| CIns (p : list sinsn)
| CPush                                   (* push %rax *)
| CPopRdi                                 (* pop %rdi *)
| CPushF                                  (* sub $8, %rsp ; movsd %xmm0, (%rsp) *)
| CPopF1                                  (* movsd (%rsp), %xmm1 ; add $8, %rsp *)
| CSeq (a b : fcode)
| CAnd (a : fcode) (ta : ty) (b : fcode) (tb : ty)
| COr (a : fcode) (ta : ty) (b : fcode) (tb : ty)
| CCond (c : fcode) (tc : ty) (a b : fcode).
Infix ";;" := CSeq (at level 61, right associativity).

Definition ccast (from to : ty) : fcode := CIns (mcast from to).

(* rhs first, saved on the stack; then lhs; rhs restored into %rdi / %xmm1; operate *)
Definition cbin (o : binop) (t : ty) (ca : fcode) (ta : ty) (cb : fcode) (tb : ty) (cast_rhs : bool) : fcode :=
  cb ;; (if cast_rhs then ccast tb t else CIns []) ;; (if is_fp t then CPushF else CPush) ;;
  ca ;; ccast ta t ;; (if is_fp t then CPopF1 else CPopRdi) ;; CIns (mbinop o t).

Fixpoint compile (e : fexpr) : fcode :=
  match e with
  | FLit _ z => CIns [SMovImm W64 z]
  | FLitS x => CIns [SMovImm W32 (bits_of_b32 x); SMovqRax X0]
  | FLitD x => CIns [SMovImm W64 (bits_of_b64 x); SMovqRax X0]
  | FVar t n => CIns [SLea n; SLoad (load_kind t)]
  | FUn LogNot a => compile a ;; CIns (m_cmp_zero (mf_type a) ++ [SI (ISet CE); SI IMovzxRax])
  | FUn Plus a => compile a ;; ccast (mf_type a) (mf_type e)
  | FUn Neg a => compile a ;; ccast (mf_type a) (mf_type e) ;; CIns (mneg (mf_type e))
  | FUn BitNot a => compile a ;; ccast (mf_type a) (mf_type e) ;; CIns [SI (INot W64)]
  | FBin LAnd a b => CAnd (compile a) (mf_type a) (compile b) (mf_type b)
  | FBin LOr a b => COr (compile a) (mf_type a) (compile b) (mf_type b)
  | FBin OGt a b => cbin OLt (mf_common (mf_type b) (mf_type a)) (compile b) (mf_type b) (compile a) (mf_type a) true   (* parsed as b < a *)
  | FBin OGe a b => cbin OLe (mf_common (mf_type b) (mf_type a)) (compile b) (mf_type b) (compile a) (mf_type a) true
  | FBin o a b =>
    if is_shift o then cbin o (mf_common (TI I32) (mf_type a)) (compile a) (mf_type a) (compile b) (mf_type b) false
    else cbin o (mf_common (mf_type a) (mf_type b)) (compile a) (mf_type a) (compile b) (mf_type b) true
  | FCast t a => compile a ;; ccast (mf_type a) t
  | FCond c a b =>
    let t := mf_common (mf_type a) (mf_type b) in
    CCond (compile c) (mf_type c) (compile a ;; ccast (mf_type a) t) (compile b ;; ccast (mf_type b) t)
  | FComma a b => compile a ;; compile b
  end.

(* every emitted instruction has a meaning in X86Sse *)
Definition insn_modelled (i : sinsn) : bool := match i with SText _ => false | _ => true end.
Fixpoint modelled (c : fcode) : bool :=
  match c with
  | CIns p => forallb insn_modelled p
  | CSeq a b => modelled a && modelled b
  | CAnd a _ b _ | COr a _ b _ => modelled a && modelled b
  | CCond c _ a b => modelled c && modelled a && modelled b
  | _ => true
  end.

(* ---------- execution: X86Sse's registers plus the stack of 8-byte slots ---------- *)
Definition fstate := (mstate * list Z)%type.

Section Run.
Variable mem : Z -> Z.

(* cmp_zero(t) followed by je / jne: the zero flag after the emitted sequence *)
Definition test_zero (t : ty) (s : mstate) : option (bool * mstate) :=
  match sexec mem (m_cmp_zero t) s with Some s' => Some (f_zf (ix s'), s') | None => None end.

Definition imm_rax (s : mstate) (v : Z) : mstate := with_ix s (set_rax (ix s) v).       (* mov $0 / $1, %rax *)
Definition set_rdi (s : xstate) (v : Z) : xstate :=
  {| rax := rax s; rdi := v; rdx := rdx s; rcx := rcx s; f_zf := f_zf s; f_cf := f_cf s; f_lt := f_lt s |}.

Fixpoint frun (c : fcode) (st : fstate) : option fstate :=
  match c with
  | CIns p => match sexec mem p (fst st) with Some s' => Some (s', snd st) | None => None end
  | CPush => Some (fst st, rax (ix (fst st)) :: snd st)
  | CPopRdi => match snd st with v :: k => Some (with_ix (fst st) (set_rdi (ix (fst st)) v), k) | [] => None end
  | CPushF => Some (fst st, x0 (fst st) :: snd st)
  | CPopF1 => match snd st with v :: k => Some (with_x1 (fst st) v, k) | [] => None end
  | CSeq a b => match frun a st with Some st' => frun b st' | None => None end
  | CAnd a ta b tb =>
    match frun a st with
    | Some (s1, k1) =>
      match test_zero ta s1 with
      | Some (true, s2) => Some (imm_rax s2 0, k1)
      | Some (false, s2) =>
        match frun b (s2, k1) with
        | Some (s3, k3) => match test_zero tb s3 with
                           | Some (z, s4) => Some (imm_rax s4 (if z then 0 else 1), k3)
                           | None => None end
        | None => None
        end
      | None => None
      end
    | None => None
    end
  | COr a ta b tb =>
    match frun a st with
    | Some (s1, k1) =>
      match test_zero ta s1 with
      | Some (false, s2) => Some (imm_rax s2 1, k1)
      | Some (true, s2) =>
        match frun b (s2, k1) with
        | Some (s3, k3) => match test_zero tb s3 with
                           | Some (z, s4) => Some (imm_rax s4 (if z then 0 else 1), k3)
                           | None => None end
        | None => None
        end
      | None => None
      end
    | None => None
    end
  | CCond c tc a b =>
    match frun c st with
    | Some (s1, k1) =>
      match test_zero tc s1 with
      | Some (true, s2) => frun b (s2, k1)
      | Some (false, s2) => frun a (s2, k1)
      | None => None
      end
    | None => None
    end
  end.
End Run.

(* ---------- the text chibicc prints ---------- *)
Local Open Scope string_scope.
Definition zstr (z : Z) : string := NilZero.string_of_int (Z.to_int z).
Definition nstr (n : nat) : string := zstr (Z.of_nat n).
Definition sfx (z : fsz) : string := match z with SS => "ss" | SD => "sd" end.
Definition psfx (z : fsz) : string := match z with SS => "ps" | SD => "pd" end.
Definition isfx (w : opsz) : string := match w with W32 => "l" | W64 => "q" end.
Definition fop_name (o : fop) : string := match o with FAdd => "add" | FSub => "sub" | FMul => "mul" | FDiv => "div" end.

Definition sinsn_text (i : sinsn) : string :=
  match i with
  | SI j => insn_text j
  | SMovImm w v => "mov $" ++ zstr v ++ ", " ++ r_ax w
  | SShlImm n => "shl $" ++ zstr n ++ ", %rax"
  | SMovqRax X0 => "movq %rax, %xmm0"
  | SMovqRax X1 => "movq %rax, %xmm1"
  | SXorp z => "xor" ++ psfx z ++ " %xmm1, %xmm0"
  | SXorp11 z => "xor" ++ psfx z ++ " %xmm1, %xmm1"
  | SArith o z => fop_name o ++ sfx z ++ " %xmm1, %xmm0"
  | SUcomi01 z => "ucomi" ++ sfx z ++ " %xmm0, %xmm1"
  | SUcomi10 z => "ucomi" ++ sfx z ++ " %xmm1, %xmm0"
  | SSeta => "seta %al"
  | SSetae => "setae %al"
  | SSetnpDl => "setnp %dl"
  | SSetpDl => "setp %dl"
  | SAndDlAl => "and %dl, %al"
  | SOrDlAl => "or %dl, %al"
  | SAnd1Al => "and $1, %al"
  | SCmp1Al => "cmp $1, %al"
  | SLea n => "lea g" ++ nstr n ++ "(%rip), %rax"
  | SLoad LdSB => "movsbl (%rax), %eax"
  | SLoad LdZB => "movzbl (%rax), %eax"
  | SLoad LdSW => "movswl (%rax), %eax"
  | SLoad LdZW => "movzwl (%rax), %eax"
  | SLoad LdSL => "movsxd (%rax), %rax"
  | SLoad LdQ => "mov (%rax), %rax"
  | SLoad LdSS => "movss (%rax), %xmm0"
  | SLoad LdSD => "movsd (%rax), %xmm0"
  | SCvtsi2s z w => "cvtsi2" ++ sfx z ++ isfx w ++ " " ++ r_ax w ++ ", %xmm0"
  | SCvtts2si z w => "cvtt" ++ sfx z ++ "2si" ++ isfx w ++ " %xmm0, " ++ r_ax w
  | SCvtss2sd => "cvtss2sd %xmm0, %xmm0"
  | SCvtsd2ss => "cvtsd2ss %xmm0, %xmm0"
  | SU64ToF z => String.concat "; " (row_u64_to_f z)
  | SFToU64 z => String.concat "; " (row_f_to_u64 z)
  | SText s => s
  end.

(* lines of the code tree; n = the value count() returns next (labels are numbered in pre-order) *)
Fixpoint ctext (c : fcode) (n : nat) : list string * nat :=
  match c with
  | CIns p => (map sinsn_text p, n)
  | CPush => (["push %rax"], n)
  | CPopRdi => (["pop %rdi"], n)
  | CPushF => (["sub $8, %rsp"; "movsd %xmm0, (%rsp)"], n)
  | CPopF1 => (["movsd (%rsp), %xmm1"; "add $8, %rsp"], n)
  | CSeq a b => let '(la, n1) := ctext a n in let '(lb, n2) := ctext b n1 in (List.concat [la; lb], n2)
  | CAnd a ta b tb =>
    let '(la, n1) := ctext a (S n) in let '(lb, n2) := ctext b n1 in
    (List.concat [la; map sinsn_text (m_cmp_zero ta); ["je .L.false." ++ nstr n];
             lb; map sinsn_text (m_cmp_zero tb); ["je .L.false." ++ nstr n; "mov $1, %rax"; "jmp .L.end." ++ nstr n;
             ".L.false." ++ nstr n ++ ":"; "mov $0, %rax"; ".L.end." ++ nstr n ++ ":"]], n2)
  | COr a ta b tb =>
    let '(la, n1) := ctext a (S n) in let '(lb, n2) := ctext b n1 in
    (List.concat [la; map sinsn_text (m_cmp_zero ta); ["jne .L.true." ++ nstr n];
             lb; map sinsn_text (m_cmp_zero tb); ["jne .L.true." ++ nstr n; "mov $0, %rax"; "jmp .L.end." ++ nstr n;
             ".L.true." ++ nstr n ++ ":"; "mov $1, %rax"; ".L.end." ++ nstr n ++ ":"]], n2)
  | CCond c tc a b =>
    let '(lc, n1) := ctext c (S n) in let '(la, n2) := ctext a n1 in let '(lb, n3) := ctext b n2 in
    (List.concat [lc; map sinsn_text (m_cmp_zero tc); ["je .L.else." ++ nstr n];
             la; ["jmp .L.end." ++ nstr n; ".L.else." ++ nstr n ++ ":"]; lb; [".L.end." ++ nstr n ++ ":"]], n3)
  end.

Definition code_text (e : fexpr) : list string := fst (ctext (compile e) 1).

(* ---------- running the code of a tree on stored objects ---------- *)
Local Close Scope string_scope.
(* the 8 bytes at the address of an object holding v (a float occupies the low 4; an integer is in two's complement) *)
Definition obj_bits (v : val) : Z :=
  match v with VI z => z mod 2 ^ 64 | VS x => bits_of_b32 x | VD x => bits_of_b64 x end.
Definition mem_of (rho : nat -> val) (a : Z) : Z := obj_bits (rho (Z.to_nat a)).

Definition x_init : xstate := {| rax := 0; rdi := 0; rdx := 0; rcx := 0; f_zf := false; f_cf := false; f_lt := false |}.
Definition s_init : mstate := {| ix := x_init; x0 := 0; x1 := 0; f_pf := false |}.

(* where the value of a type is found after the code ran *)
Definition result_bits (t : ty) (s : mstate) : Z :=
  match t with
  | TI it => if size_of it =? 8 then rax (ix s) else rax (ix s) mod 2 ^ 32
  | TF32 => lane32 (x0 s)
  | TF64 => lane64 (x0 s)
  end.

Definition run_expr (rho : nat -> val) (e : fexpr) : option Z :=
  match frun (mem_of rho) (compile e) (s_init, []) with
  | Some (s, []) => Some (result_bits (mf_type e) s)
  | _ => None
  end.
