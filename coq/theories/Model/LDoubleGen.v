(* gen_expr (codegen.c) on long double trees (Spec/C11LDouble.v), x87 path: ND_NUM for long double (the two words
   of the constant through %rax and -16(%rsp), fldt), loads by fldt, ND_NEG by fchs, the TY_LDOUBLE branch of
   the binary operators (lhs, then rhs, on the register stack; faddp / fsubrp / fmulp / fdivrp; fcomip + fstp
   + setcc with the parity test for == and !=), cmp_zero on long double (fldz; fucomip; fstp), and the f80 row
   and column of the regenerated cast table (recognised row by row; an unknown row stays text without meaning).
   Operands of the other arithmetic types are whole trees of FloatGen.v followed by their row into long double. *)
From Coq Require Import ZArith Bool List String.
From Flocq Require Import Core Binary Bits.
From Chibicc Require Import Spec.C11Int Spec.C11Float Spec.C11LDouble Model.X86Int Model.CodegenInt Model.X86Sse Model.FloatGen
     Model.FloatFlat Model.X87 Gen.CastTable.
Import ListNotations.
Local Open Scope Z_scope.

(* ---------- the f80 row and column of the cast table ---------- *)
Local Open Scope string_scope.
Definition from_f80_cw (fist : string) : list string :=
  ["fnstcw -10(%rsp)"; "movzwl -10(%rsp), %eax"; "or $12, %ah"; "mov %ax, -12(%rsp)"; "fldcw -12(%rsp)";
   fist ++ " -24(%rsp)"; "fldcw -10(%rsp)"].
Definition rowin_text (k : rowin) : list string :=
  match k with
  | InL32 => ["mov %eax, -4(%rsp)"; "fildl -4(%rsp)"]
  | InQ64 => ["movq %rax, -8(%rsp)"; "fildll -8(%rsp)"]
  | InU32 => ["mov %eax, %eax"; "mov %rax, -8(%rsp)"; "fildll -8(%rsp)"]
  | InU64 => ["mov %rax, -8(%rsp)"; "fildq -8(%rsp)"; "test %rax, %rax"; "jns 1f"; "mov $1602224128, %eax"; "mov %eax, -4(%rsp)";
              "fadds -4(%rsp)"; "1:"]
  | InSS => ["movss %xmm0, -4(%rsp)"; "flds -4(%rsp)"]
  | InSD => ["movsd %xmm0, -8(%rsp)"; "fldl -8(%rsp)"]
  end.
Definition rowout_text (k : rowout) : list string :=
  match k with
  | OutI8 => from_f80_cw "fistps" ++ ["movsbl -24(%rsp), %eax"]
  | OutU8 => from_f80_cw "fistps" ++ ["movzbl -24(%rsp), %eax"]
  | OutI16 => from_f80_cw "fistps" ++ ["movswl -24(%rsp), %eax"]
  | OutU16 => from_f80_cw "fistpl" ++ ["movzwl -24(%rsp), %eax"]
  | OutI32 => from_f80_cw "fistpl" ++ ["mov -24(%rsp), %eax"]
  | OutU32 => from_f80_cw "fistpq" ++ ["mov -24(%rsp), %eax"]
  | OutI64 => from_f80_cw "fistpq" ++ ["mov -24(%rsp), %rax"]
  | OutU64 => ["mov $0x5f000000, %eax"; "mov %eax, -4(%rsp)"; "flds -4(%rsp)"; "fcomip %st(1)"; "jbe 1f"] ++
              from_f80_cw "fistpq" ++ ["mov -24(%rsp), %rax"; "jmp 2f"; "1: fsubs -4(%rsp)"] ++
              from_f80_cw "fistpq" ++ ["mov -24(%rsp), %rax"; "btc $63, %rax"; "2:"]
  | OutSS => ["fstps -8(%rsp)"; "movss -8(%rsp), %xmm0"]
  | OutSD => ["fstpl -8(%rsp)"; "movsd -8(%rsp), %xmm0"]
  end.
Local Close Scope string_scope.

Definition xrow_text (l : list xinsn) : list string :=
  map (fun x => match x with XI i => insn_text i | XText s => s end) l.
Fixpoint strs_eqb (a b : list string) : bool :=
  match a, b with
  | [], [] => true
  | x :: a', y :: b' => String.eqb x y && strs_eqb a' b'
  | _, _ => false
  end.
Definition find_rowin (l : list string) : linsn :=
  match find (fun k => strs_eqb l (rowin_text k)) [InL32; InQ64; InU32; InU64; InSS; InSD] with
  | Some k => LRowIn k | None => LText l end.
Definition find_rowout (l : list string) : linsn :=
  match find (fun k => strs_eqb l (rowout_text k)) [OutI8; OutU8; OutI16; OutU16; OutI32; OutU32; OutI64; OutU64; OutSS; OutSD] with
  | Some k => LRowOut k | None => LText l end.

(* cmp_zero(ty_ldouble) *)
Definition l_cmp_zero : list linsn :=
  [LFldz; LCompare true; LFstp0; LS (SI (ISet CE)); LS SSetnpDl; LS SAndDlAl; LS SCmp1Al].

(* cast(from, long double), cast(long double, to) *)
Definition lcast_in (from : ty) : list linsn :=
  match nth 10 (nth (tid from) cast_table []) None with Some l => [find_rowin (xrow_text l)] | None => [] end.
Definition lcast_out (to : ty) : list linsn :=
  match to with
  | TI IBool => l_cmp_zero ++ [LS (SI (ISet CNE)); LS (SI IMovzxEax)]
  | _ => match nth (tid to) (nth 10 cast_table []) None with Some l => [find_rowout (xrow_text l)] | None => [] end
  end.

(* ---------- code ---------- *)
Inductive litem :=
| LI (i : linsn)
| LF (c : fcode).               (* the code of an operand of another arithmetic type *)

Fixpoint lcompile (e : lexpr) : list litem :=
  match e with
  | LLit x => [LI (LConst x)]
  | LVar n => [LI (LLoad n)]
  | LOf e => LF (compile e) :: map LI (lcast_in (mf_type e))
  | LNeg a => lcompile a ++ [LI LFchs]
  | LBin o a b =>
    lcompile a ++ lcompile b ++
    [LI (match fop_of o with Some f => LArith f | None => LText ["error: invalid expression"%string] end)]
  end.

(* lhs, rhs on the register stack: fcomip compares the right operand with the left one *)
Definition lcmp_code (o : binop) : list linsn :=
  [LCompare false; LFstp0] ++
  match o with
  | OEq => [LS (SI (ISet CE)); LS SSetnpDl; LS SAndDlAl]
  | ONe => [LS (SI (ISet CNE)); LS SSetpDl; LS SOrDlAl]
  | OLt => [LS SSeta]
  | OLe => [LS SSetae]
  | _ => [LText ["error: invalid expression"%string]]
  end ++ [LS (SI IMovzbRax)].
Definition lcompile_cmp (o : binop) (a b : lexpr) : list litem :=
  match o with
  | OGt => lcompile b ++ lcompile a ++ map LI (lcmp_code OLt)        (* parsed as b < a *)
  | OGe => lcompile b ++ lcompile a ++ map LI (lcmp_code OLe)
  | _ => lcompile a ++ lcompile b ++ map LI (lcmp_code o)
  end.
Definition lcompile_not (a : lexpr) : list litem :=
  lcompile a ++ map LI (l_cmp_zero ++ [LS (SI (ISet CE)); LS (SI IMovzxRax)]).
Definition lcompile_cast (t : ty) (a : lexpr) : list litem := lcompile a ++ map LI (lcast_out t).

Definition linsn_modelled (i : linsn) : bool :=
  match i with LText _ => false | LS j => insn_modelled j | _ => true end.
Definition litem_modelled (i : litem) : bool := match i with LI j => linsn_modelled j | LF c => modelled c end.

(* how many registers of the x87 stack the code of a tree needs *)
Fixpoint lneed (e : lexpr) : nat :=
  match e with
  | LLit _ | LVar _ | LOf _ => 1
  | LNeg a => lneed a
  | LBin _ a b => Nat.max (lneed a) (1 + lneed b)
  end.

(* ---------- execution ---------- *)
Definition lfstate := (lstate * list Z)%type.
Section Run.
Variable mem : Z -> Z.
Variable lmem : Z -> binary80.

Definition lrun1 (i : litem) (st : lfstate) : option lfstate :=
  match i with
  | LI j => match lexec1 mem lmem j (fst st) with Some s' => Some (s', snd st) | None => None end
  | LF c => match frun mem c (ms (fst st), snd st) with
            | Some (m', k') => Some (with_ms (fst st) m', k')
            | None => None
            end
  end.
Fixpoint lrun (p : list litem) (st : lfstate) : option lfstate :=
  match p with
  | [] => Some st
  | i :: r => match lrun1 i st with Some st' => lrun r st' | None => None end
  end.
End Run.

(* ---------- text ---------- *)
Local Open Scope string_scope.
Definition joined (l : list string) : list string := [String.concat "; " l].
Definition linsn_text (i : linsn) : list string :=
  match i with
  | LConst x => ["mov $" ++ zstr (encode80 x mod 2 ^ 64) ++ ", %rax"; "mov %rax, -16(%rsp)";
                 "mov $" ++ zstr (encode80 x / 2 ^ 64) ++ ", %rax"; "mov %rax, -8(%rsp)"; "fldt -16(%rsp)"]
  | LLoad n => ["lea h" ++ nstr n ++ "(%rip), %rax"; "fldt (%rax)"]
  | LFchs => ["fchs"]
  | LArith FAdd => ["faddp"] | LArith FSub => ["fsubrp"] | LArith FMul => ["fmulp"] | LArith FDiv => ["fdivrp"]
  | LFldz => ["fldz"]
  | LCompare true => ["fucomip"] | LCompare false => ["fcomip"]
  | LFstp0 => ["fstp %st(0)"]
  | LS j => [sinsn_text j]
  | LRowIn InU64 => joined (rowin_text InU64)            (* rows with local labels are one step, printed whole *)
  | LRowIn k => rowin_text k
  | LRowOut OutU64 => joined (rowout_text OutU64)
  | LRowOut k => rowout_text k
  | LText l => l
  end.
(* lines, jump targets of the embedded trees as positions; p = position of the first line *)
Fixpoint ltext (c : list litem) (p : nat) : list string :=
  match c with
  | [] => []
  | LI i :: r => let l := linsn_text i in (l ++ ltext r (p + List.length l))%list
  | LF f :: r => (map finstr_text (flatten f p) ++ ltext r (p + fsize f))%list
  end.

(* ---------- runners for the tie ---------- *)
Local Close Scope string_scope.
Definition l_init : lstate := {| st87 := []; ms := s_init |}.
Definition run_l (rho : nat -> val) (lrho : nat -> binary80) (c : list litem) : option lfstate :=
  lrun (mem_of rho) (fun a => lrho (Z.to_nat a)) c (l_init, []).
