(* gen_expr on integer expression trees (codegen.c), with the conversions add_type (type.c) inserts:
   how the per-operator instruction sequences of CodegenInt.v are composed - right operand first,
   pushed; left operand; pop into %rdi; operator - and how && || ?: are lowered to tests of %rax.
   Code is kept as a tree (the labels of && || ?: are structure, not positions: that part of the
   lowering is the business of Lowering.v); the machine is X86Int's register file plus the stack
   that push/pop use. *)
From Chibicc Require Import Base.Mach Spec.C11Int Model.X86Int Model.CodegenInt Model.ConstFold Gen.CastTable.
Local Open Scope Z_scope.

Inductive gcode :=
| GIns (p : list insn)                 (* straight-line integer instructions *)
| GImm (v : Z)                         (* mov $v, %rax *)
| GPush                                (* push %rax *)
| GPopRdi                              (* pop %rdi *)
| GSeq (a b : gcode)
| GAnd (a : gcode) (ta : ity) (b : gcode) (tb : ity)     (* a; cmp0; je F; b; cmp0; je F; mov $1; jmp E; F: mov $0; E: *)
| GOr (a : gcode) (ta : ity) (b : gcode) (tb : ity)      (* a; cmp0; jne T; b; cmp0; jne T; mov $0; jmp E; T: mov $1; E: *)
| GCond (c : gcode) (tc : ity) (a b : gcode).            (* c; cmp0; je else; a; jmp end; else: b; end: *)
Infix ";;" := GSeq (at level 61, right associativity).

Definition gstate := (xstate * list Z)%type.
Definition set_rdi (s : xstate) (v : Z) : xstate :=
  {| rax := rax s; rdi := v; rdx := rdx s; rcx := rcx s; f_zf := f_zf s; f_cf := f_cf s; f_lt := f_lt s |}.

(* cmp_zero(ty) followed by je / jne: the zero flag after the emitted compare *)
Definition test_zero (t : ity) (s : xstate) : option (bool * xstate) :=
  match exec (gen_cmp_zero t) s with Some s' => Some (f_zf s', s') | None => None end.

Fixpoint grun (c : gcode) (st : gstate) : option gstate :=
  match c with
  | GIns p => match exec p (fst st) with Some s' => Some (s', snd st) | None => None end
  | GImm v => Some (set_rax (fst st) (v mod 2 ^ 64), snd st)
  | GPush => Some (fst st, rax (fst st) :: snd st)
  | GPopRdi => match snd st with v :: k => Some (set_rdi (fst st) v, k) | [] => None end
  | GSeq a b => match grun a st with Some st' => grun b st' | None => None end
  | GAnd a ta b tb =>
    match grun a st with
    | Some (s1, k1) =>
      match test_zero ta s1 with
      | Some (true, s2) => Some (set_rax s2 0, k1)
      | Some (false, s2) =>
        match grun b (s2, k1) with
        | Some (s3, k3) => match test_zero tb s3 with
                           | Some (z, s4) => Some (set_rax s4 (if z then 0 else 1), k3)
                           | None => None end
        | None => None
        end
      | None => None
      end
    | None => None
    end
  | GOr a ta b tb =>
    match grun a st with
    | Some (s1, k1) =>
      match test_zero ta s1 with
      | Some (false, s2) => Some (set_rax s2 1, k1)
      | Some (true, s2) =>
        match grun b (s2, k1) with
        | Some (s3, k3) => match test_zero tb s3 with
                           | Some (z, s4) => Some (set_rax s4 (if z then 0 else 1), k3)
                           | None => None end
        | None => None
        end
      | None => None
      end
    | None => None
    end
  | GCond c tc a b =>
    match grun c st with
    | Some (s1, k1) =>
      match test_zero tc s1 with
      | Some (true, s2) => grun b (s2, k1)
      | Some (false, s2) => grun a (s2, k1)
      | None => None
      end
    | None => None
    end
  end.

(* cast(from, to): the regenerated table; an entry outside the integer model would be empty here and
   is excluded by C01_cast_table (every integer entry is present) *)
Definition ccast (from to : ity) : gcode :=
  match gen_cast cast_table from to with Some p => GIns p | None => GIns [] end.

(* rhs first, pushed; then lhs; pop rhs into %rdi; operate.  t = type the operands are converted to *)
Definition cbin (o : binop) (t : ity) (ca : gcode) (ta : ity) (cb : gcode) (tb : ity) (cast_rhs : bool) : gcode :=
  cb ;; (if cast_rhs then ccast tb t else GIns []) ;; GPush ;; ca ;; ccast ta t ;; GPopRdi ;; GIns (gen_binop o t).

Fixpoint compile (e : expr) : gcode :=
  match e with
  | Lit _ v => GImm v
  | Un LogNot a => compile a ;; GIns (gen_unop LogNot (m_type a))
  | Un Plus a => compile a ;; ccast (m_type a) (m_type e)
  | Un o a => compile a ;; ccast (m_type a) (m_type e) ;; GIns (gen_unop o (m_type e))
  | Bin LAnd a b => GAnd (compile a) (m_type a) (compile b) (m_type b)
  | Bin LOr a b => GOr (compile a) (m_type a) (compile b) (m_type b)
  | Bin OGt a b => cbin OLt (m_common (m_type b) (m_type a)) (compile b) (m_type b) (compile a) (m_type a) true   (* parsed as b < a *)
  | Bin OGe a b => cbin OLe (m_common (m_type b) (m_type a)) (compile b) (m_type b) (compile a) (m_type a) true
  | Bin o a b =>
    if is_shift o then cbin o (m_common I32 (m_type a)) (compile a) (m_type a) (compile b) (m_type b) false
    else cbin o (m_common (m_type a) (m_type b)) (compile a) (m_type a) (compile b) (m_type b) true
  | Cast t a => compile a ;; ccast (m_type a) t
  | Cond c a b =>
    let t := m_common (m_type a) (m_type b) in
    GCond (compile c) (m_type c) (compile a ;; ccast (m_type a) t) (compile b ;; ccast (m_type b) t)
  | Comma a b => compile a ;; compile b
  end.
