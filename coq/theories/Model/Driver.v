(* Model of the driver loop of main() in main.c: which subprocesses are started in which order,
   which temporary files are created, what happens when a step fails (run_subprocess calls
   exit(1); the atexit handler [cleanup] unlinks every temporary created so far), and which
   outputs get written.  The environment is an oracle: one outcome per started subprocess
   (the k-th cc1 / as / ld succeeds, exits non-zero or dies from a signal - the driver only
   tests status != 0).  Assumed of the tools (stated in the trusted base): a subprocess that
   fails leaves its output path as it was; cc1 writes its output only after code generation
   succeeded (open_memstream buffer, then one fwrite). *)
From Coq Require Import List Bool Arith.
Import ListNotations.

Inductive kind := KC | KAsm | KObj.                 (* .c  .s  .o/.a/.so *)
Inductive mode := ME | MS | MC | MLink.             (* -E  -S  -c  (link) *)

Inductive path :=
| POut (i : nat)          (* the output derived from input i: replace_extn(input, .s/.o) *)
| POpt                    (* the -o argument *)
| PAout                   (* a.out *)
| PStdout
| PTmp (n : nat).         (* the n-th temporary created by this run *)

Inductive proc :=
| Cc1 (input : nat) (out : option path)
| As (src : path + nat) (out : path)               (* source: a temporary / -S output, or input file i *)
| Ld (out : path).

Inductive event := EMkTmp (n : nat) | ESpawn (p : proc) (ok : bool) | EUnlink (n : nat).

Record dstate := { tmps : nat;                      (* temporaries created so far *)
                   trace : list event;
                   ld_args : nat;                   (* number of linker inputs collected *)
                   nspawn : nat }.                  (* subprocesses started so far *)

Inductive outcome := Running (s : dstate) | Exited (code : nat) (tr : list event).

(* exit(): the atexit handler unlinks every temporary *)
Definition do_exit (s : dstate) (code : nat) : outcome :=
  Exited code (trace s ++ map EUnlink (seq 0 (tmps s))).

Section Oracle.
Variable orc : nat -> bool.          (* outcome of the k-th started subprocess: true = wait status 0 *)

(* run_subprocess: fork/exec/wait; exit(1) if status != 0 *)
Definition spawn (s : dstate) (p : proc) : outcome :=
  let ok := orc (nspawn s) in
  let s' := {| tmps := tmps s; trace := trace s ++ [ESpawn p ok]; ld_args := ld_args s; nspawn := S (nspawn s) |} in
  if ok then Running s' else do_exit s' 1.

Definition mktmp (s : dstate) : nat * dstate :=
  (tmps s, {| tmps := S (tmps s); trace := trace s ++ [EMkTmp (tmps s)]; ld_args := ld_args s; nspawn := nspawn s |}).

Definition add_ld (s : dstate) : dstate :=
  {| tmps := tmps s; trace := trace s; ld_args := S (ld_args s); nspawn := nspawn s |}.

Definition andthen (o : outcome) (f : dstate -> outcome) : outcome :=
  match o with Running s => f s | e => e end.

Section Loop.
Variable md : mode.
Variable has_o : bool.

Definition out_of (i : nat) : path := if has_o then POpt else POut i.

(* "-E implies that the input is the C macro language" (parse_args sets opt_x = FILE_C) *)
Definition eff_kind (k : kind) : kind := match md with ME => KC | _ => k end.

(* one iteration of the for loop over input_paths *)
Definition do_input (s : dstate) (i : nat) (k : kind) : outcome :=
  match eff_kind k with
  | KObj => Running (add_ld s)
  | KAsm =>
    match md with
    | ME | MS => Running s
    | MC => spawn s (As (inr i) (out_of i))
    | MLink =>
      let (t, s1) := mktmp s in
      andthen (spawn s1 (As (inr i) (PTmp t))) (fun s2 => Running (add_ld s2))
    end
  | KC =>
    match md with
    | ME => spawn s (Cc1 i (if has_o then Some POpt else None))     (* the child sees the same -o *)
    | MS => spawn s (Cc1 i (Some (out_of i)))
    | MC =>
      let (t, s1) := mktmp s in
      andthen (spawn s1 (Cc1 i (Some (PTmp t)))) (fun s2 => spawn s2 (As (inl (PTmp t)) (out_of i)))
    | MLink =>
      let (t1, s1) := mktmp s in
      let (t2, s2) := mktmp s1 in
      andthen (spawn s2 (Cc1 i (Some (PTmp t1)))) (fun s3 =>
      andthen (spawn s3 (As (inl (PTmp t1)) (PTmp t2))) (fun s4 => Running (add_ld s4)))
    end
  end.

Fixpoint loop (s : dstate) (i : nat) (inputs : list kind) : outcome :=
  match inputs with
  | [] => Running s
  | k :: r => andthen (do_input s i k) (fun s' => loop s' (S i) r)
  end.

Definition driver (inputs : list kind) : outcome :=
  let s0 := {| tmps := 0; trace := []; ld_args := 0; nspawn := 0 |} in
  (* "cannot specify '-o' with '-c,' '-S' or '-E' with multiple files" *)
  if (1 <? length inputs) && has_o && (match md with MLink => false | _ => true end) then do_exit s0 1
  else
    andthen (loop s0 0 inputs) (fun s =>
      andthen (if (0 <? ld_args s) && (match md with MLink => true | _ => false end)
               then spawn s (Ld (if has_o then POpt else PAout)) else Running s)
              (fun s' => do_exit s' 0)).
End Loop.
End Oracle.

(* ---- observations on a finished run ---- *)
Definition final (o : outcome) : nat * list event :=
  match o with Exited c tr => (c, tr) | Running s => (2, trace s) end.

Definition tmp_created (tr : list event) : list nat := flat_map (fun e => match e with EMkTmp n => [n] | _ => [] end) tr.
Definition tmp_unlinked (tr : list event) : list nat := flat_map (fun e => match e with EUnlink n => [n] | _ => [] end) tr.

(* paths written by successful subprocesses (a failed one leaves its output alone) *)
Definition written (tr : list event) : list path :=
  flat_map (fun e => match e with
                     | ESpawn (Cc1 _ (Some p)) true => [p]
                     | ESpawn (Cc1 _ None) true => [PStdout]
                     | ESpawn (As _ p) true => [p]
                     | ESpawn (Ld p) true => [p]
                     | _ => [] end) tr.
Definition outcomes (tr : list event) : list bool :=
  flat_map (fun e => match e with ESpawn _ ok => [ok] | _ => [] end) tr.
