(* Bit-field access as codegen.c emits it (ND_MEMBER load, ND_ASSIGN store) on a 64-bit register,
   and element address arithmetic as parse.c new_add builds it.
   load : the storage unit u (as loaded by load(mem->ty), only its low 8*size bits matter), then
          shl $(64 - width - offset); shr/sar $(64 - width)
   store: unit' = (u & ~(mask << offset)) | ((v & mask) << offset), mask = ~0UL >> (64 - width);
          the value of the assignment is v after shl $(64 - width); shr/sar $(64 - width). *)
From Coq Require Import ZArith Bool.
Local Open Scope Z_scope.

Definition w64 (x : Z) : Z := Z.land x (Z.ones 64).                       (* what a 64-bit register keeps *)
Definition sx64 (x : Z) : Z := if Z.testbit x 63 then Z.lor x (Z.shiftl (-1) 64) else x.   (* the register read as signed *)

Definition bf_load_u (u off w : Z) : Z := Z.shiftr (w64 (Z.shiftl u (64 - w - off))) (64 - w).
Definition bf_load_s (u off w : Z) : Z := Z.shiftr (sx64 (w64 (Z.shiftl u (64 - w - off)))) (64 - w).

Definition bf_store (u v off w : Z) : Z :=
  w64 (Z.lor (Z.land u (w64 (Z.lnot (Z.shiftl (Z.ones w) off)))) (w64 (Z.shiftl (Z.land v (Z.ones w)) off))).

(* store(ty) writes the low 8*size bits of the register *)
Definition unit_write (size reg : Z) : Z := Z.land reg (Z.ones (8 * size)).

(* new_add: base + index * sizeof(element), the multiplication and addition in 64 bits *)
Definition elem_addr (base idx size : Z) : Z := w64 (base + w64 (w64 idx * size)).
