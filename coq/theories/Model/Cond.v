(* Conditional inclusion in preprocess2 (preprocess.c) at the granularity of lines: a line is a
   directive of the #if family with the truth value its controlling expression has (#if, #ifdef,
   #ifndef are all [If b]), #elif with its value, #else, #endif, or text with a payload.
   [go] is the directive dispatcher with the cond_incl stack (ctx, included); [skipd] is
   skip_cond_incl / skip_cond_incl2 (the recursion of the C functions on nested #if is a depth
   counter here).  The specification is the section tree of C11 6.10.1: [select]. *)
From Coq Require Import List Bool Arith.
Import ListNotations.

Section Cond.
Variable P : Type.                                   (* payload of a text line *)
Inductive line := If (b : bool) | Elif (b : bool) | Else | Endif | Text (p : P).

(* d = 0: skip_cond_incl (stops in front of #elif/#else/#endif); d > 0: inside skip_cond_incl2 *)
Fixpoint skipd (d : nat) (l : list line) : list line :=
  match l with
  | [] => []
  | If _ :: r => skipd (S d) r
  | Endif :: r => match d with O => l | S d' => skipd d' r end
  | Elif _ :: r => match d with O => l | S _ => skipd d r end
  | Else :: r => match d with O => l | S _ => skipd d r end
  | Text _ :: r => skipd d r
  end.

Inductive ctx := InThen | InElif | InElse.
Definition stack := list (ctx * bool).

Fixpoint go (f : nat) (l : list line) (st : stack) : option (list P) :=
  match f with
  | O => None
  | S f' =>
    match l with
    | [] => match st with [] => Some [] | _ => None end            (* unterminated conditional directive *)
    | Text p :: r => option_map (cons p) (go f' r st)
    | If b :: r => if b then go f' r ((InThen, b) :: st) else go f' (skipd 0 r) ((InThen, b) :: st)
    | Elif b :: r =>
      match st with
      | [] => None                                                  (* stray #elif *)
      | (InElse, _) :: _ => None
      | (_, inc) :: s => if negb inc && b then go f' r ((InElif, true) :: s) else go f' (skipd 0 r) ((InElif, inc) :: s)
      end
    | Else :: r =>
      match st with
      | [] => None
      | (InElse, _) :: _ => None
      | (_, inc) :: s => if inc then go f' (skipd 0 r) ((InElse, inc) :: s) else go f' r ((InElse, inc) :: s)
      end
    | Endif :: r => match st with [] => None | _ :: s => go f' r s end
    end
  end.

Definition run (l : list line) : option (list P) := go (S (length l)) l [].

(* ---------- specification: the tree of if-sections ---------- *)
Inductive item := T (p : P) | Sec (b : bool) (body : list item) (elifs : list (bool * list item)) (els : option (list item)).

Definition flatten (fl : item -> list line) : list item -> list line :=
  fix go (l : list item) : list line := match l with [] => [] | i :: r => fl i ++ go r end.
Fixpoint flat_item (i : item) : list line :=
  match i with
  | T p => [Text p]
  | Sec b body elifs els =>
    If b :: flatten flat_item body ++
    (fix fe (es : list (bool * list item)) : list line :=
       match es with [] => [] | (c, bd) :: r => Elif c :: flatten flat_item bd ++ fe r end) elifs ++
    match els with Some bd => Else :: flatten flat_item bd | None => [] end ++ [Endif]
  end.
Definition flat (l : list item) : list line := flatten flat_item l.

Definition sel (si : item -> list P) : list item -> list P :=
  fix go (l : list item) : list P := match l with [] => [] | i :: r => si i ++ go r end.
Fixpoint sel_item (i : item) : list P :=
  match i with
  | T p => [p]
  | Sec b body elifs els =>
    if b then sel sel_item body
    else (fix fe (es : list (bool * list item)) : list P :=
            match es with
            | [] => match els with Some bd => sel sel_item bd | None => [] end
            | (c, bd) :: r => if c then sel sel_item bd else fe r
            end) elifs
  end.
Definition select (l : list item) : list P := sel sel_item l.
End Cond.
