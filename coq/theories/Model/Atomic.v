(* Model of what chibicc emits for read-modify-write operations on an _Atomic object, as
   per-thread programs over ATOMIC STEPS (one instruction that touches the shared object):
   - `A op= B`, ++/--, atomic_fetch_op (to_assign / stdatomic.h):
        old = *addr                         plain load (one step)
        do new = old op val;                thread-local
        while (!CAS(addr, &old, new))       lock cmpxchg (one step): on success the object
                                            becomes new; on failure old := the observed value
   - atomic_exchange:  xchg (one step)
   - atomic_compare_exchange: lock cmpxchg (one step), failure writes the observed value back
     into the expected-value object.
   Modelling assumption (Intel SDM, not a theorem): a lock-prefixed instruction and xchg with a
   memory operand are single indivisible, sequentially consistent steps; the scheduler is
   arbitrary (any list of thread ids). Values are integers modulo 2^(8*size). *)
From Coq Require Import List ZArith Bool.
Import ListNotations.
Local Open Scope Z_scope.

Inductive aop :=
| Rmw (f : Z -> Z) (returns_new : bool)     (* op= returns the new value, atomic_fetch_* the old one *)
| Xchg (v : Z)
| Cas (expected desired : Z).

Inductive result := RVal (v : Z) | RCas (ok : bool) (expected_after : Z).

(* where a thread is inside its current operation *)
Inductive pc := PStart | PLoaded (old : Z).

Record thread := { prog : list aop; at_pc : pc; results : list result }.

Record event := { e_tid : nat; e_op : aop; e_before : Z; e_result : result }.

Record sys := { mem : Z; threads : list thread; hist : list event }.

Section Width.
Variable modulus : Z.                    (* 2^(8*size) *)
Definition wrap (z : Z) : Z := z mod modulus.

Definition upd_thread (ts : list thread) (i : nat) (t : thread) : list thread :=
  firstn i ts ++ t :: skipn (S i) ts.

(* one scheduling step of thread [i] *)
Definition step (s : sys) (i : nat) : sys :=
  match nth_error (threads s) i with
  | None => s
  | Some t =>
    match prog t with
    | [] => s
    | op :: rest =>
      let finish (m' : Z) (r : result) :=
        {| mem := m'; threads := upd_thread (threads s) i {| prog := rest; at_pc := PStart; results := results t ++ [r] |};
           hist := hist s ++ [{| e_tid := i; e_op := op; e_before := mem s; e_result := r |}] |} in
      match op, at_pc t with
      | Rmw f rn, PStart =>               (* old = *addr *)
        {| mem := mem s; threads := upd_thread (threads s) i {| prog := prog t; at_pc := PLoaded (mem s); results := results t |};
           hist := hist s |}
      | Rmw f rn, PLoaded old =>          (* lock cmpxchg new, (addr) with rax = old *)
        if mem s =? old then finish (wrap (f old)) (RVal (if rn then wrap (f old) else old))
        else {| mem := mem s; threads := upd_thread (threads s) i {| prog := prog t; at_pc := PLoaded (mem s); results := results t |};
                hist := hist s |}
      | Xchg v, _ => finish (wrap v) (RVal (mem s))
      | Cas e d, _ => if mem s =? e then finish (wrap d) (RCas true e) else finish (mem s) (RCas false (mem s))
      end
    end
  end.

Definition run (s : sys) (sched : list nat) : sys := fold_left step sched s.

(* ---- the specification: one atomic object, operations applied one at a time ---- *)
Definition seq_apply (op : aop) (m : Z) : Z * result :=
  match op with
  | Rmw f rn => (wrap (f m), RVal (if rn then wrap (f m) else m))
  | Xchg v => (wrap v, RVal m)
  | Cas e d => if m =? e then (wrap d, RCas true e) else (m, RCas false m)
  end.

Fixpoint replay (m : Z) (h : list event) : Z :=
  match h with [] => m | e :: r => replay (fst (seq_apply (e_op e) m)) r end.

(* every event carries the value and result a sequential execution in history order would give *)
Fixpoint consistent (m : Z) (h : list event) : Prop :=
  match h with
  | [] => True
  | e :: r => e_before e = m /\ e_result e = snd (seq_apply (e_op e) m) /\ consistent (fst (seq_apply (e_op e) m)) r
  end.
End Width.
