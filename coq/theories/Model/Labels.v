(* Deterministic numbering (codegen.c count(), parse.c new_unique_name): every construct that needs
   labels takes the next value of one counter, in traversal order.  The model numbers a tree of
   label-consuming constructs; the numbering is a function of the tree alone - there is no other
   input - which is the model-level content of "output depends only on the input". *)
From Coq Require Import List Arith.
Import ListNotations.

Inductive ctree := Node (children : list ctree).     (* one label-consuming construct with nested ones *)

Fixpoint number (fuel : nat) (t : ctree) (next : nat) : list nat * nat :=
  match fuel with
  | O => ([], next)
  | S f =>
    match t with
    | Node cs =>
      let c := S next in                                   (* count(): return ++i *)
      let '(ls, n') := fold_left (fun acc ch => let '(l, n) := acc in let '(l2, n2) := number f ch n in (l ++ l2, n2)) cs ([], c) in
      (c :: ls, n')
    end
  end.
