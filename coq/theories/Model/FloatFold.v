(* The translation-time evaluator of parse.c on constant trees with int / float / double operands:
   eval_double / eval_double2, the floating branches of eval2 / eval2_raw (ND_CAST of a floating operand,
   comparisons of floating operands), eval_truth, and the scalar cases of write_gvar_data.
   The carrier of eval_double is the HOST's long double (x87 extended, Flocq's binary_float 64 16384):
     - a node of integer type yields (long double)eval(node), through (unsigned long) when the type is unsigned;
     - + - * / of a float node are computed as (float)l + (float)r, of a double node as (double)l + (double)r:
       chibicc is compiled for x86-64 with FLT_EVAL_METHOD 0, so the host adds two floats in float, i.e.
       it rounds the exact sum ONCE to 24 bits (b32_plus mode_NE) - the operands are float values already
       (usual_arith_conv cast them), so (float)l is exact; the float sum is then carried exactly in a long double;
     - eval_double ends with (float)val / (double)val for float / double nodes;
     - unary minus is the long double negation; ND_COND tests eval_double(cond) against 0;
     - a cast to an integer type converts the long double with (int64_t) / (uint64_t) / != 0, then narrow_to_type.
   Conversions of the host that are undefined in C when the value is out of range are given the value the
   x86-64 binary produces (the x87 "integer indefinite" 0x8000000000000000); no theorem relies on it.
   Integer nodes are evaluated as in Model/ConstFold.v (int64_t wrap-around, narrow_to_type, eval_div).
   The conversions long double <-> float / double / integer are the IEEE ones of Spec/C11LDouble.v (Flocq's
   binary_normalize); types are those chibicc computes (Model/FloatGen.v: mf_type, mf_common).
   A tree stands for the node add_type builds: usual_arith_conv, ND_NEG and unary + insert ND_CAST nodes
   ([castv] below).  long double typed nodes are not part of [fexpr] and are not modelled. *)
From Coq Require Import ZArith Bool List.
From Flocq Require Import Core Binary Bits.
From Chibicc Require Import Spec.C11Int Spec.C11Float Spec.C11LDouble Model.ConstFold Model.FloatGen.
Local Open Scope Z_scope.

(* what eval2 (HI: an int64_t) or eval_double (HF: a long double) returns for a node, by the node's type *)
Inductive hv := HI (z : Z) | HF (x : binary80).

(* ty->is_unsigned *)
Definition m_unsigned (t : ity) : bool := match t with U8 | U16 | U32 | U64 => true | _ => false end.

(* the tail of eval_double: (float)val, (double)val, returned as long double *)
Definition round_to (t : ty) (x : binary80) : binary80 :=
  match t with TF32 => l_of_fp (s_of_l x) | TF64 => l_of_fp (d_of_l x) | TI _ => x end.

(* eval_double(node) from the node's own result: (long double)eval(node) for an integer node *)
Definition as_ld (t : ty) (h : hv) : binary80 :=
  match h with
  | HF x => x
  | HI z => match t with TI it => if m_unsigned it then l_of_int (u64 z) else l_of_int z | _ => l_of_int z end
  end.

(* eval_truth *)
Definition h_truth (h : hv) : bool :=
  match h with HF x => negb (is_zero x) | HI z => negb (z =? 0) end.

(* (int64_t)val of a long double: truncation; out of range, infinite or NaN: what fisttp delivers *)
Definition h_to_i64 (x : binary80) : Z :=
  match int_part x with
  | Some z => if (- two63 <=? z) && (z <? two63) then z else - two63
  | None => - two63
  end.
(* (uint64_t)val as the host compiler does it: below 2^63 as above; otherwise subtract 2^63, convert, flip bit 63 *)
Definition h_to_u64 (x : binary80) : Z :=
  match int_part x with
  | Some z => if z <? two63 then h_to_i64 x else if z <? two64 then z - two64 else 0
  | None => match x with B754_infinity _ _ false => 0 | _ => - two63 end
  end.

(* + - * / in the node's type k on the long double operands l, r *)
Definition h_arith (k : ty) (o : binop) (l r : binary80) : option binary80 :=
  match k with
  | TF32 =>
    let a := s_of_l l in let b := s_of_l r in
    match o with
    | Add => Some (l_of_fp (b32_plus mode_NE a b)) | Sub => Some (l_of_fp (b32_minus mode_NE a b))
    | Mul => Some (l_of_fp (b32_mult mode_NE a b)) | Div => Some (l_of_fp (b32_div mode_NE a b))
    | _ => None
    end
  | TF64 =>
    let a := d_of_l l in let b := d_of_l r in
    match o with
    | Add => Some (l_of_fp (b64_plus mode_NE a b)) | Sub => Some (l_of_fp (b64_minus mode_NE a b))
    | Mul => Some (l_of_fp (b64_mult mode_NE a b)) | Div => Some (l_of_fp (b64_div mode_NE a b))
    | _ => None
    end
  | TI _ => None
  end.

(* == != < <= on long doubles; a > b was parsed as b < a *)
Definition h_cmp (o : binop) (x y : binary80) : option Z :=
  let lt u v := match Bcompare 64 16384 u v with Some Lt => true | _ => false end in
  let eq u v := match Bcompare 64 16384 u v with Some Eq => true | _ => false end in
  match o with
  | OEq => Some (b2z (eq x y)) | ONe => Some (b2z (negb (eq x y)))
  | OLt => Some (b2z (lt x y)) | OLe => Some (b2z (lt x y || eq x y))
  | OGt => Some (b2z (lt y x)) | OGe => Some (b2z (lt y x || eq y x))
  | _ => None
  end.

Definition hbind {A B} (o : option A) (f : A -> option B) : option B := match o with Some x => f x | None => None end.
Definition of_fres (r : fres) : option hv := match r with Val z => Some (HI z) | _ => None end.

(* the value of an ND_CAST node of type t whose operand has type [from] and evaluated to h *)
Definition h_cast (from t : ty) (h : hv) : option hv :=
  match t with
  | TI it =>
    match h with
    | HF x =>                                              (* eval2_raw, ND_CAST of a floating operand *)
      Some (HI (narrow it (match it with
                           | IBool => b2z (negb (is_zero x))
                           | U64 => h_to_u64 x
                           | _ => h_to_i64 x
                           end)))
    | HI z => Some (HI (narrow it z))
    end
  | _ => Some (HF (round_to t (as_ld from h)))              (* eval_double2, ND_CAST; then the tail of eval_double *)
  end.

Fixpoint fold (e : fexpr) : option hv :=
  let T := mf_type e in
  let castv (t : ty) (a : fexpr) := hbind (fold a) (h_cast (mf_type a) t) in
  match e with
  | FLit t z => Some (HI (narrow t (wrap64 z)))
  | FLitS x => Some (HF (round_to TF32 (l_of_fp x)))        (* node->fval holds the float value *)
  | FLitD x => Some (HF (round_to TF64 (l_of_fp x)))
  | FVar _ _ => None                                         (* "not a compile-time constant" *)
  | FUn LogNot a => hbind (fold a) (fun h => Some (HI (b2z (negb (h_truth h)))))
  | FUn Plus a =>
    match mf_type a with
    | TI t => if size_of t <? 4 then castv (TI I32) a else fold a
    | _ => fold a
    end
  | FUn Neg a =>
    hbind (castv T a) (fun h =>
      match T, h with
      | TI t, HI x => Some (HI (narrow t (wrap64 (- x))))
      | _, HF x => Some (HF (round_to T (opp_l x)))
      | _, _ => None
      end)
  | FUn BitNot a =>
    hbind (castv T a) (fun h =>
      match T, h with
      | TI t, HI x => Some (HI (narrow t (wrap64 (Z.lnot x))))
      | _, _ => None
      end)
  | FBin LAnd a b =>
    hbind (fold a) (fun x => if negb (h_truth x) then Some (HI 0)
                             else hbind (fold b) (fun y => Some (HI (b2z (h_truth y)))))
  | FBin LOr a b =>
    hbind (fold a) (fun x => if h_truth x then Some (HI 1)
                             else hbind (fold b) (fun y => Some (HI (b2z (h_truth y)))))
  | FBin o a b =>
    if is_shift o then
      hbind (castv T a) (fun x => hbind (fold b) (fun n =>
        match T, x, n with
        | TI t, HI x, HI n => of_fres (m_shift o t x n)
        | _, _, _ => None
        end))
    else
      let C := mf_common (mf_type a) (mf_type b) in
      hbind (castv C a) (fun x => hbind (castv C b) (fun y =>
        match C, x, y with
        | TI t, HI x, HI y => of_fres (m_binop o t x y)
        | _, HF x, HF y =>
          if is_arith o then hbind (h_arith C o x y) (fun r => Some (HF (round_to C r)))
          else hbind (h_cmp o x y) (fun z => Some (HI z))
        | _, _, _ => None
        end))
  | FCast t a => castv t a
  | FCond c a b =>
    hbind (fold c) (fun x =>
      if (if is_fp T then negb (is_zero (as_ld (mf_type c) x))      (* eval_double2: eval_double(cond) != 0 *)
          else h_truth x)                                           (* eval2_raw: eval_truth(cond) *)
      then hbind (castv T a) (fun h => Some (match h with HF y => HF (round_to T y) | _ => h end))
      else hbind (castv T b) (fun h => Some (match h with HF y => HF (round_to T y) | _ => h end)))
  | FComma _ b => fold b
  end.

(* ---------- the consumers ---------- *)
(* eval(node) / eval2(node, &label) at the root: a node of floating type goes through (int64_t)eval_double(node) *)
Definition fold_int (e : fexpr) : option Z :=
  hbind (fold e) (fun h => Some (match h with HI z => z | HF x => h_to_i64 x end)).

(* write_gvar_data for a scalar object of type t initialised with e: the object's bytes as an unsigned number
   (e is the initializer expression as parsed; write_gvar_data itself converts a floating initializer of an integer
   object to the object's type - since /repo 3687651 - and reads float / double / _Bool objects through eval_double) *)
Definition static_bits (t : ty) (e : fexpr) : option Z :=
  hbind (fold e) (fun h =>
    match t with
    | TF32 => Some (bits_of_b32 (s_of_l (as_ld (mf_type e) h)))
    | TF64 => Some (bits_of_b64 (d_of_l (as_ld (mf_type e) h)))
    | TI IBool => Some (b2z (h_truth h))
    | TI it =>
      (* add_type(init->expr); a floating initializer of an integer object gets new_cast(init->expr, ty); then eval2, write_buf *)
      hbind (if is_fp (mf_type e) then h_cast (mf_type e) (TI it) h else Some h) (fun h' =>
        Some ((match h' with HI z => z | HF x => h_to_i64 x end) mod 2 ^ (8 * size_of it)))
    end).

(* no object is read *)
Fixpoint constant (e : fexpr) : bool :=
  match e with
  | FLit _ _ | FLitS _ | FLitD _ => true
  | FVar _ _ => false
  | FUn _ a => constant a
  | FBin _ a b => constant a && constant b
  | FCast _ a => constant a
  | FCond c a b => constant c && constant a && constant b
  | FComma a b => constant a && constant b
  end.
