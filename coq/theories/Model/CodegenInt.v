(* Model of the integer part of gen_expr / cast / cmp_zero (codegen.c): which instructions are
   emitted for an operator given the types add_type left on the operands.  The cast table
   itself is regenerated from the source (Gen/CastTable.v); this file holds the table lookup
   (getTypeId) and the instruction selection of the operators. *)
From Coq Require Import ZArith Bool List String.
From Chibicc Require Import Spec.C11Int Model.X86Int.
Import ListNotations.
Local Open Scope Z_scope.

(* an entry of the cast table: an x86-lite instruction or (floating point) verbatim text *)
Inductive xinsn := XI (i : insn) | XText (s : string).

(* getTypeId: the row / column of a type.  _Bool (and enum) fall to the default U64 *)
Definition type_id (t : ity) : nat :=
  match t with
  | I8 => 0 | I16 => 1 | I32 => 2 | I64 => 3 | U8 => 4 | U16 => 5 | U32 => 6 | U64 => 7 | IBool => 7
  end%nat.

Definition opw (t : ity) : opsz := if size_of t =? 8 then W64 else W32.

Section WithTable.
Variable cast_table : list (list (option (list xinsn))).

Definition table_entry (from to : ity) : option (list xinsn) :=
  nth (type_id to) (nth (type_id from) cast_table []) None.

(* integer instructions of an entry; None if the entry contains text the integer model does not cover *)
Fixpoint int_insns (l : list xinsn) : option (list insn) :=
  match l with
  | [] => Some []
  | XI i :: r => match int_insns r with Some r' => Some (i :: r') | None => None end
  | XText _ :: _ => None
  end.

(* cmp_zero on an integer type *)
Definition gen_cmp_zero (t : ity) : list insn := [ICmpZero (if size_of t <=? 4 then W32 else W64)].

(* cast(from, to) *)
Definition gen_cast (from to : ity) : option (list insn) :=
  match to with
  | IBool => Some (gen_cmp_zero from ++ [ISet CNE; IMovzxEax])
  | _ => match table_entry from to with
         | None => Some []
         | Some l => int_insns l
         end
  end.
End WithTable.

(* the binary operators: t is the type of the (converted) left operand, rhs in %rdi, lhs in %rax *)
Definition gen_divmod (t : ity) : list insn :=
  let w := opw t in
  if is_signed t then [if size_of t =? 8 then ICqo else ICdq; IIdiv w] else [IMovZeroDx w; IDiv w].

Definition gen_binop (o : binop) (t : ity) : list insn :=
  let w := opw t in
  match o with
  | Add => [IAdd w] | Sub => [ISub w] | Mul => [IImul w]
  | Div => gen_divmod t
  | Mod => gen_divmod t ++ [IMovRdxRax]
  | BAnd => [IAnd w] | BOr => [IOr w] | BXor => [IXor w]
  | OEq => [ICmp w; ISet CE; IMovzbRax]
  | ONe => [ICmp w; ISet CNE; IMovzbRax]
  | OLt => [ICmp w; ISet (if is_signed t then CL else CB); IMovzbRax]
  | OLe => [ICmp w; ISet (if is_signed t then CLE else CBE); IMovzbRax]
  | Shl => [IMovRdiRcx; IShl w]
  | Shr => [IMovRdiRcx; if is_signed t then ISar w else IShr w]
  | _ => []            (* > and >= are parsed as < and <= with swapped operands; && || are control flow *)
  end.

Definition gen_unop (o : unop) (t : ity) : list insn :=
  match o with
  | Neg => [INeg W64]
  | BitNot => [INot W64]
  | LogNot => gen_cmp_zero t ++ [ISet CE; IMovzxRax]      (* t = type of the operand *)
  | Plus => []
  end.

(* AT&T text of an instruction, as codegen.c prints it (used to compare with -S output) *)
Local Open Scope string_scope.
Definition r_ax (w : opsz) := match w with W32 => "%eax" | W64 => "%rax" end.
Definition r_di (w : opsz) := match w with W32 => "%edi" | W64 => "%rdi" end.
Definition r_dx (w : opsz) := match w with W32 => "%edx" | W64 => "%rdx" end.
Definition cc_name (c : cc) := match c with CE => "e" | CNE => "ne" | CL => "l" | CLE => "le" | CB => "b" | CBE => "be" end.
Definition insn_text (i : insn) : string :=
  match i with
  | IAdd w => "add " ++ r_di w ++ ", " ++ r_ax w
  | ISub w => "sub " ++ r_di w ++ ", " ++ r_ax w
  | IImul w => "imul " ++ r_di w ++ ", " ++ r_ax w
  | IAnd w => "and " ++ r_di w ++ ", " ++ r_ax w
  | IOr w => "or " ++ r_di w ++ ", " ++ r_ax w
  | IXor w => "xor " ++ r_di w ++ ", " ++ r_ax w
  | ICqo => "cqo" | ICdq => "cdq"
  | IIdiv w => "idiv " ++ r_di w
  | IMovZeroDx w => "mov $0, " ++ r_dx w
  | IDiv w => "div " ++ r_di w
  | IMovRdxRax => "mov %rdx, %rax"
  | ICmp w => "cmp " ++ r_di w ++ ", " ++ r_ax w
  | ICmpZero w => "cmp $0, " ++ r_ax w
  | ISet c => "set" ++ cc_name c ++ " %al"
  | IMovzbRax => "movzb %al, %rax"
  | IMovzxEax => "movzx %al, %eax"
  | IMovzxRax => "movzx %al, %rax"
  | IMovRdiRcx => "mov %rdi, %rcx"
  | IShl w => "shl %cl, " ++ r_ax w
  | IShr w => "shr %cl, " ++ r_ax w
  | ISar w => "sar %cl, " ++ r_ax w
  | INeg w => "neg " ++ r_ax w
  | INot w => "not " ++ r_ax w
  | IMovsbl => "movsbl %al, %eax" | IMovzbl => "movzbl %al, %eax"
  | IMovswl => "movswl %ax, %eax" | IMovzwl => "movzwl %ax, %eax"
  | IMovsxd => "movsxd %eax, %rax" | IMovEaxEax => "mov %eax, %eax"
  end.
