(* Model of chibicc's variadic-function machinery:
   - the caller (codegen.c push_args / ND_FUNCALL pops) passing named and variadic actuals; the
     register-or-stack decision is the one of Model/Abi.v (caller_place), reused here;
   - the callee prologue of a variadic function in codegen.c emit_text: the 200-byte __va_area__
     = { gp_offset @0, fp_offset @4, overflow_arg_area @8, reg_save_area @16, six GP slots @24..,
     eight XMM slots @72.. sixteen bytes apart }, and the initial gp/fp/overflow values computed
     from the NAMED parameters (var->offset > 0 = stack parameter);
   - include/stdarg.h: va_start (copy of the first 24 bytes), __va_arg_mem / __va_arg_gp /
     __va_arg_fp / __va_arg_struct and the va_arg dispatch on __builtin_reg_class (parse.c).
   Memory is a memory of 8-byte words; a value is the list of its eightbytes. Addresses in the
   overflow area are byte offsets from %rbp (which is 16-byte aligned at that point: trusted). *)
From Coq Require Import List ZArith Bool Arith.
From Chibicc Require Import Model.Abi Gen.AbiConsts.
Import ListNotations.
Local Open Scope Z_scope.

(* the types of the package alphabet after default argument promotion *)
Inductive vty :=
| VInt                                        (* long / int / pointer: one INTEGER eightbyte *)
| VFlt                                        (* double: one SSE eightbyte *)
| VLdbl                                       (* long double: X87, 16 bytes, alignment 16 *)
| VSmall (c1 : bool) (c2 : option bool)       (* struct <= 16 bytes: is eightbyte 1 / 2 of class SSE *)
| VBig (w : nat).                             (* struct > 16 bytes of w eightbytes, alignment <= 8 *)

Definition b2z (b : bool) : Z := if b then 1 else 0.

Definition classes (t : vty) : list bool :=
  match t with
  | VInt => [false] | VFlt => [true] | VLdbl => [] | VBig _ => []
  | VSmall c1 c2 => c1 :: match c2 with Some b => [b] | None => [] end
  end.

Definition words (t : vty) : nat :=
  match t with VInt | VFlt => 1 | VLdbl => 2 | VSmall _ None => 1 | VSmall _ (Some _) => 2 | VBig w => w end%nat.

(* count_struct_regs on a small struct, as (gp, fp) *)
Definition small_regs (c1 : bool) (c2 : option bool) : nat * nat :=
  let fp := (b2n c1 + match c2 with Some b => b2n b | None => 0 end)%nat in
  ((match c2 with Some _ => 2 | None => 1 end) - fp, fp)%nat.

(* the view of Model/Abi.v *)
Definition to_arg (t : vty) : arg :=
  match t with
  | VInt => AInt | VFlt => AFlt | VLdbl => ALdbl
  | VSmall c1 c2 => ASmall (fst (small_regs c1 c2)) (snd (small_regs c1 c2)) (words t)
  | VBig w => ABig w
  end.

(* ---------- caller ---------- *)
(* what the callee finds on entry: the GP argument registers set so far (%rdi first), the vector
   registers set so far (%xmm0 first), the stack words from 16(%rbp) upwards. A register the
   caller did not set has no defined content: reading it yields None below. *)
Record frame := Frame { fr_gp : list Z; fr_fp : list Z; fr_stk : list Z }.
Definition frame0 : frame := Frame [] [] [].

Definition pick (want : bool) (cs : list bool) (v : list Z) : list Z :=
  map snd (filter (fun p => Bool.eqb (fst p) want) (combine cs v)).

(* one more argument (type, eightbytes): the decision is caller_place's with the counters
   gp = registers used = length fr_gp etc. *)
Definition pass_one (fr : frame) (a : vty * list Z) : frame :=
  let '(t, v) := a in
  match caller_place GP_MAX FP_MAX (length (fr_gp fr)) (length (fr_fp fr)) (length (fr_stk fr)) [to_arg t] with
  | InRegs _ _ :: _ => Frame (fr_gp fr ++ pick false (classes t) v) (fr_fp fr ++ pick true (classes t) v) (fr_stk fr)
  | _ => Frame (fr_gp fr) (fr_fp fr) (fr_stk fr ++ v)
  end.

Definition pass_args (fr : frame) (args : list (vty * list Z)) : frame := fold_left pass_one args fr.

(* mov $fp, %rax before the call: the number of vector registers used *)
Definition caller_al (fr : frame) : nat := length (fr_fp fr).

(* ---------- callee prologue ---------- *)
Inductive src := SrcGp (i : nat) | SrcXmm (i : nat).

(* the register stores into __va_area__, as (byte offset from the area, source register) *)
Definition prologue_stores : list (Z * src) :=
  [(24, SrcGp 0); (32, SrcGp 1); (40, SrcGp 2); (48, SrcGp 3); (56, SrcGp 4); (64, SrcGp 5)]
  ++ map (fun i => (72 + Z.of_nat i * 16, SrcXmm i)) (seq 0 8).

(* registers counted for one named register parameter *)
Definition param_regs (t : vty) : nat * nat :=
  match t with
  | VSmall c1 c2 => small_regs c1 c2
  | VBig _ => (1, 0)%nat          (* unreachable: a large struct is always on the stack; count_struct_regs not modelled there *)
  | VFlt | VLdbl => (0, 1)%nat    (* is_flonum *)
  | VInt => (1, 0)%nat
  end.

(* the loop over fn->params: locs are the offsets assign_lvar_offsets gave (Abi.callee_place) *)
Fixpoint va_counts (params : list vty) (locs : list loc) (gp fp : nat) (overflow : Z) : nat * nat * Z :=
  match params, locs with
  | t :: ps, l :: ls =>
    match l with
    | OnStack w => va_counts ps ls gp fp (Z.max overflow (16 + 8 * Z.of_nat w + 8 * Z.of_nat (words t)))
    | InRegs _ _ => va_counts ps ls (gp + fst (param_regs t)) (fp + snd (param_regs t)) overflow
    end
  | _, _ => (gp, fp, overflow)
  end.

Record va_list := VaList { gp_offset : Z; fp_offset : Z; overflow_arg_area : Z; reg_save_area : Z }.

(* the first 24 bytes of __va_area__ as the prologue writes them (reg_save_area as an offset
   from the area itself); va_start copies them *)
Definition va_start (named : list vty) : va_list :=
  let '(gp, fp, ov) := va_counts named (callee_place GP_MAX FP_MAX 0 0 0 (map to_arg named)) 0 0 16 in
  VaList (Z.of_nat gp * 8) (Z.of_nat fp * 16 + 48) ov 24.

(* ---------- memory seen by the walkers ---------- *)
Inductive ptr := PArea (off : Z) | PStack (off : Z).

Definition load_area (fr : frame) (off : Z) : option Z :=
  match find (fun s => fst s =? off) prologue_stores with
  | Some (_, SrcGp i) => nth_error (fr_gp fr) i
  | Some (_, SrcXmm i) => nth_error (fr_fp fr) i
  | None => None
  end.

Definition load_stack (fr : frame) (off : Z) (n : nat) : option (list Z) :=
  if (16 <=? off) && (off mod 8 =? 0) then
    let l := firstn n (skipn (Z.to_nat ((off - 16) / 8)) (fr_stk fr)) in
    if (length l =? n)%nat then Some l else None
  else None.

Definition load (fr : frame) (p : ptr) (n : nat) : option (list Z) :=
  match p with
  | PStack off => load_stack fr off n
  | PArea off => match n with 1%nat => option_map (fun x => [x]) (load_area fr off) | _ => None end
  end.

(* ---------- stdarg.h ---------- *)
Definition va_arg_mem (ap : va_list) (sz align : Z) : ptr * va_list :=
  let p := overflow_arg_area ap in
  let p := if 8 <? align then (p + 15) / 16 * 16 else p in
  (PStack p, VaList (gp_offset ap) (fp_offset ap) ((p + sz + 7) / 8 * 8) (reg_save_area ap)).

Definition va_arg_gp (ap : va_list) (sz align : Z) : ptr * va_list :=
  if 48 <=? gp_offset ap then va_arg_mem ap sz align
  else (PArea (reg_save_area ap + gp_offset ap),
        VaList (gp_offset ap + 8) (fp_offset ap) (overflow_arg_area ap) (reg_save_area ap)).

Definition va_arg_fp (ap : va_list) (sz align : Z) : ptr * va_list :=
  if 176 <=? fp_offset ap then va_arg_mem ap sz align
  else (PArea (reg_save_area ap + fp_offset ap),
        VaList (gp_offset ap) (fp_offset ap + 16) (overflow_arg_area ap) (reg_save_area ap)).

(* the loop of __va_arg_struct: i = 0 .. while i * 8 < sz; buf is returned as a list *)
Fixpoint struct_loop (fr : frame) (ap : va_list) (sz sse : Z) (i : nat) (n : nat) : option (list Z) * va_list :=
  match n with
  | O => (Some [], ap)
  | S n' =>
    if Z.of_nat i * 8 <? sz then
      let '(p, ap1) := if Z.testbit sse (Z.of_nat i) then va_arg_fp ap 8 8 else va_arg_gp ap 8 8 in
      let '(rest, ap2) := struct_loop fr ap1 sz sse (S i) n' in
      (match load fr p 1, rest with Some x, Some r => Some (x ++ r) | _, _ => None end, ap2)
    else (Some [], ap)
  end.

(* result: the eightbytes of the object va_arg yields, and the new va_list *)
Definition va_arg_struct (fr : frame) (ap : va_list) (sz align sse : Z) (nw : nat) : option (list Z) * va_list :=
  let fp := Z.land sse 1 + (if (8 <? sz) && negb (Z.land sse 2 =? 0) then 1 else 0) in
  let gp := (if 8 <? sz then 2 else 1) - fp in
  if (48 <? gp_offset ap + gp * 8) || (176 <? fp_offset ap + fp * 16)
  then let '(p, ap1) := va_arg_mem ap sz align in (load fr p nw, ap1)
  else struct_loop fr ap sz sse 0 2.      (* sz <= 16: at most two rounds *)

(* sizeof, _Alignof, __builtin_reg_class of the alphabet (sizes of structs at their maximum;
   only (sz + 7) / 8 and sz > 8 matter) *)
Definition size_of (t : vty) : Z := 8 * Z.of_nat (words t).
Definition align_of (t : vty) : Z := match t with VLdbl => 16 | _ => 8 end.
Definition reg_class (t : vty) : Z :=
  match t with
  | VInt => 0 | VFlt => 1 | VLdbl | VBig _ => 2
  (* has_flonum(ty, 8, 16, 0) is true for a struct without a second eightbyte *)
  | VSmall c1 c2 => 3 + b2z c1 + 2 * b2z (match c2 with Some b => b | None => true end)
  end.

Definition va_arg (fr : frame) (ap : va_list) (t : vty) : option (list Z) * va_list :=
  let klass := reg_class t in
  let sz := size_of t in let al := align_of t in
  if klass =? 0 then let '(p, ap1) := va_arg_gp ap sz al in (load fr p (words t), ap1)
  else if klass =? 1 then let '(p, ap1) := va_arg_fp ap sz al in (load fr p (words t), ap1)
  else if klass =? 2 then let '(p, ap1) := va_arg_mem ap sz al in (load fr p (words t), ap1)
  else va_arg_struct fr ap sz al (klass - 3) (words t).

Fixpoint va_args (fr : frame) (ap : va_list) (ts : list vty) : list (option (list Z)) * va_list :=
  match ts with
  | [] => ([], ap)
  | t :: r => let '(x, ap1) := va_arg fr ap t in let '(xs, ap2) := va_args fr ap1 r in (x :: xs, ap2)
  end.

(* a whole call f(named..., variadic...): what the callee reads with va_start + one va_arg per
   variadic actual, with the types of the actuals *)
Definition call_reads (named variadic : list (vty * list Z)) : list (option (list Z)) :=
  let fr := pass_args frame0 (named ++ variadic) in
  fst (va_args fr (va_start (map fst named)) (map fst variadic)).
