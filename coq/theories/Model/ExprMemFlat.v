(* The jump-level form of the code tree of ExprMem.v (continuing ExprFlat.v): && || ?: become compares,
   conditional jumps and labels exactly as gen_expr prints them, with labels as absolute instruction
   positions; and the machine that runs it (program counter, registers, operand stack, byte memory). *)
From Coq Require Import ZArith Bool List String.
From Chibicc Require Import Base.Mach Spec.C11Int Model.X86Int Model.CodegenInt Model.ExprGen Model.ExprMem.
Import ListNotations.
Local Open Scope Z_scope.

Inductive minstr :=
| XIns (i : insn)
| XImm (v : Z)                 (* mov $v, %rax *)
| XPush | XPopRdi
| XLea (off : Z)               (* lea off(%rbp), %rax *)
| XLoad (k : ldk)
| XStore (k : stk)
| XJz (target : nat)           (* je *)
| XJnz (target : nat)          (* jne *)
| XJmp (target : nat).

Fixpoint msize (c : mcode) : nat :=
  match c with
  | CIns p => length p
  | CImm _ | CPush | CPopRdi | CLea _ | CLoad _ | CStore _ => 1
  | CSeq a b => msize a + msize b
  | CAnd a _ b _ | COr a _ b _ => msize a + msize b + 7
  | CCond c _ a b => msize c + msize a + msize b + 3
  end%nat.

Definition xcmpz (t : ity) : list minstr := map XIns (gen_cmp_zero t).

Fixpoint mflatten (c : mcode) (p : nat) : list minstr :=
  match c with
  | CIns l => map XIns l
  | CImm v => [XImm v]
  | CPush => [XPush]
  | CPopRdi => [XPopRdi]
  | CLea off => [XLea off]
  | CLoad k => [XLoad k]
  | CStore k => [XStore k]
  | CSeq a b => mflatten a p ++ mflatten b (p + msize a)
  | CAnd a ta b tb =>
    let pf := (p + msize a + msize b + 6)%nat in let pe := (pf + 1)%nat in
    mflatten a p ++ xcmpz ta ++ [XJz pf] ++ mflatten b (p + msize a + 2) ++ xcmpz tb ++ [XJz pf; XImm 1; XJmp pe; XImm 0]
  | COr a ta b tb =>
    let pt := (p + msize a + msize b + 6)%nat in let pe := (pt + 1)%nat in
    mflatten a p ++ xcmpz ta ++ [XJnz pt] ++ mflatten b (p + msize a + 2) ++ xcmpz tb ++ [XJnz pt; XImm 0; XJmp pe; XImm 1]
  | CCond c tc a b =>
    let pelse := (p + msize c + 2 + msize a + 1)%nat in
    mflatten c p ++ xcmpz tc ++ [XJz pelse] ++ mflatten a (p + msize c + 2) ++ [XJmp (pelse + msize b)] ++ mflatten b pelse
  end.

Definition xstate := (nat * mstate)%type.
Definition xstep (rbp : Z) (P : list minstr) (st : xstate) : option xstate :=
  let '(pc, (s, k, m)) := st in
  match nth_error P pc with
  | Some (XIns i) => match exec1 i s with Some s' => Some (S pc, (s', k, m)) | None => None end
  | Some (XImm v) => Some (S pc, (set_rax s (v mod 2 ^ 64), k, m))
  | Some XPush => Some (S pc, (s, rax s :: k, m))
  | Some XPopRdi => match k with v :: k' => Some (S pc, (set_rdi s v, k', m)) | [] => None end
  | Some (XLea off) => Some (S pc, (set_rax s ((rbp + off) mod 2 ^ 64), k, m))
  | Some (XLoad ld) =>
    if valid_addr (rax s) (ld_bytes ld) then Some (S pc, (set_rax s (ld_ext ld (load_le m (rax s) (ld_bytes ld))), k, m)) else None
  | Some (XStore sk) =>
    if valid_addr (rdi s) (st_bytes sk) then Some (S pc, (s, k, store_le m (rdi s) (st_bytes sk) (rax s))) else None
  | Some (XJz t) => Some ((if f_zf s then t else S pc), (s, k, m))
  | Some (XJnz t) => Some ((if f_zf s then S pc else t), (s, k, m))
  | Some (XJmp t) => Some (t, (s, k, m))
  | None => None
  end.

Inductive xstar (rbp : Z) (P : list minstr) : xstate -> xstate -> Prop :=
| xstar_refl st : xstar rbp P st st
| xstar_step st st' st'' : xstep rbp P st = Some st' -> xstar rbp P st' st'' -> xstar rbp P st st''.

(* -S text of the jump code, a jump target printed as @position (what a label resolves to) *)
Definition xinstr_text (i : minstr) : string :=
  match i with
  | XIns i => insn_text i
  | XImm v => String.append "mov $" (String.append (zs v) ", %rax")
  | XPush => "push %rax"
  | XPopRdi => "pop %rdi"
  | XLea off => String.append "lea " (String.append (zs off) "(%rbp), %rax")
  | XLoad k => ld_text k
  | XStore k => st_text k
  | XJz t => String.append "je @" (ns t)
  | XJnz t => String.append "jne @" (ns t)
  | XJmp t => String.append "jmp @" (ns t)
  end%string.
