(* C03: the two decision procedures of control flow and scoping that are pure functions.
   (1) switch dispatch as gen_stmt(ND_SWITCH) emits it: the controlling value is compared in 32
       bits unless its type is 8 bytes wide; the cases are tested in list order; a single value by
       cmp/je (equality modulo 2^w), a GNU range by sub / cmp / jbe (unsigned comparison of
       v - begin with end - begin modulo 2^w); then default, else the break label.  Case values
       are stored as parse.c stores them: long, converted to int when the comparison is 32-bit.
   (2) block scopes as parse.c keeps them: a stack of frames, each with one table for ordinary
       identifiers (objects, functions, typedef names, enumerators) and one for tags. *)
From Coq Require Import List ZArith Bool.
Import ListNotations.
Local Open Scope Z_scope.

Record case := { c_begin : Z; c_end : Z; c_label : nat }.

Definition wrap (w v : Z) : Z := v mod 2 ^ w.

Fixpoint dispatch (w v : Z) (cs : list case) (default : option nat) (brk : nat) : nat :=
  match cs with
  | [] => match default with Some l => l | None => brk end
  | c :: r =>
    if c_begin c =? c_end c
    then if wrap w v =? wrap w (c_begin c) then c_label c else dispatch w v r default brk
    else if wrap w (v - c_begin c) <=? wrap w (c_end c - c_begin c) then c_label c else dispatch w v r default brk
  end.

(* parse.c: the stored case value for a controlling expression compared in 32 bits is (int)value *)
Definition to_int32 (v : Z) : Z := (v + 2 ^ 31) mod 2 ^ 32 - 2 ^ 31.
Definition stored (w v : Z) : Z := if w =? 32 then to_int32 v else v.

(* ---------- scopes ---------- *)
Section Scope.
Variables K V T : Type.
Variable keq : K -> K -> bool.
Record frame := { f_vars : list (K * V); f_tags : list (K * T) }.
Definition scopes := list frame.

Fixpoint assoc {A} (l : list (K * A)) (k : K) : option A :=
  match l with [] => None | (k', a) :: r => if keq k' k then Some a else assoc r k end.

Fixpoint find_var (s : scopes) (k : K) : option V :=
  match s with [] => None | f :: r => match assoc (f_vars f) k with Some v => Some v | None => find_var r k end end.
Fixpoint find_tag (s : scopes) (k : K) : option T :=
  match s with [] => None | f :: r => match assoc (f_tags f) k with Some v => Some v | None => find_tag r k end end.

Definition enter_scope (s : scopes) : scopes := {| f_vars := []; f_tags := [] |} :: s.
Definition leave_scope (s : scopes) : scopes := tl s.
Definition push_var (s : scopes) (k : K) (v : V) : scopes :=
  match s with f :: r => {| f_vars := (k, v) :: f_vars f; f_tags := f_tags f |} :: r | [] => [] end.
Definition push_tag (s : scopes) (k : K) (t : T) : scopes :=
  match s with f :: r => {| f_vars := f_vars f; f_tags := (k, t) :: f_tags f |} :: r | [] => [] end.
End Scope.
