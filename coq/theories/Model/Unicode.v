(* Model of /repo/unicode.c (encode_utf8, decode_utf8, in_range / is_ident1 / is_ident2) and of
   the UTF-16 transcoding step of read_utf16_string_literal in tokenize.c.
   Bytes and code points are N; the bit operators of the C code are kept as bit operators
   (N.lor / N.land / N.shiftr / N.shiftl), and the store into a [char] buffer is the
   truncation [mod 256].  The range tables come from Gen/UnicodeTables.v. *)
From Coq Require Import List NArith Bool.
Import ListNotations.
Local Open Scope N_scope.

Definition to_char (x : N) : N := x mod 256.               (* buf[i] = <int expression> *)
Definition u32 (x : N) : N := x mod 4294967296.

(* int encode_utf8(char *buf, uint32_t c) : the bytes written *)
Definition encode_utf8 (c : N) : list N :=
  if c <=? 127 then [to_char c]
  else if c <=? 2047 then
    [to_char (N.lor 192 (N.shiftr c 6)); to_char (N.lor 128 (N.land c 63))]
  else if c <=? 65535 then
    [to_char (N.lor 224 (N.shiftr c 12));
     to_char (N.lor 128 (N.land (N.shiftr c 6) 63));
     to_char (N.lor 128 (N.land c 63))]
  else
    [to_char (N.lor 240 (N.shiftr c 18));
     to_char (N.lor 128 (N.land (N.shiftr c 12) 63));
     to_char (N.lor 128 (N.land (N.shiftr c 6) 63));
     to_char (N.lor 128 (N.land c 63))].

Inductive dec_result :=
| DecOk (c : N) (rest : list N)
| DecErr                (* error_at(start, "invalid UTF-8 sequence") *)
| DecPastEnd.           (* the C code would read past the terminating NUL: excluded below *)

(* the continuation loop: for (i = 1; i < len; i++) ... c = (c << 6) | (p[i] & 0b111111) *)
Fixpoint dec_cont (n : nat) (c : N) (p : list N) : dec_result :=
  match n with
  | O => DecOk c p
  | S n' =>
    match p with
    | [] => DecPastEnd
    | b :: p' =>
      if N.shiftr b 6 =? 2 then dec_cont n' (u32 (N.lor (N.shiftl c 6) (N.land b 63))) p'
      else DecErr
    end
  end.

(* uint32_t decode_utf8(char **new_pos, char *p); bytes are the unsigned char values *)
Definition decode_utf8 (p : list N) : dec_result :=
  match p with
  | [] => DecPastEnd
  | b :: p' =>
    if b <? 128 then DecOk b p'
    else if 240 <=? b then dec_cont 3 (N.land b 7) p'
    else if 224 <=? b then dec_cont 2 (N.land b 15) p'
    else if 192 <=? b then dec_cont 1 (N.land b 31) p'
    else DecErr
  end.

(* UTF-16 code units produced for one decoded code point (buf is uint16_t[]) *)
Definition to_u16 (x : N) : N := x mod 65536.
Definition utf16_units (c : N) : list N :=
  if c <? 65536 then [to_u16 c]
  else
    let c' := u32 (c + 4294967296 - 65536) in          (* c -= 0x10000 on uint32_t *)
    [to_u16 (55296 + N.land (N.shiftr c' 10) 1023); to_u16 (56320 + N.land c' 1023)].

(* static bool in_range(uint32_t *range, uint32_t c): pairs up to the -1 terminator *)
Fixpoint in_range (range : list (N * N)) (c : N) : bool :=
  match range with
  | [] => false
  | (lo, hi) :: r => if (lo <=? c) && (c <=? hi) then true else in_range r c
  end.
