(* The hashmap model at the instance hashmap.c uses: byte-string keys, FNV-1 with the
   constants regenerated from the C source, integer values standing for non-NULL pointers. *)
From Coq Require Import List NArith.
From Chibicc Require Import Model.Hashmap Gen.HashmapConsts.
Import ListNotations.
Local Open Scope N_scope.

Definition fnv : bytes -> N := fnv_hash_with fnv_basis fnv_prime.

Definition cmap := hmap bytes N.
Definition c_empty : cmap := empty_map bytes N.
Definition c_step := step bytes N bytes_eqb fnv hm_consts.
Definition c_run_from := run bytes N bytes_eqb fnv hm_consts.
Definition c_run := c_run_from c_empty.
