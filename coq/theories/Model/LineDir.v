(* The per-file #line bookkeeping of preprocess.c: read_line_marker sets
   file->line_delta = N - (line of the directive); every later token of that file reports
   line_no + line_delta (preprocess(): t->line_no += t->line_delta; line_macro the same).
   A file is abstracted to the list of its physical lines, each a directive `#line N` or text.
   Spec (C11 6.10.4p3): the line FOLLOWING the directive has number N. *)
From Coq Require Import List ZArith.
Import ListNotations.
Local Open Scope Z_scope.

Inductive pline := Dir (n : Z) | Text.

(* presumed line numbers the implementation reports for the text lines; l = physical line of the head *)
Fixpoint impl_lines (delta l : Z) (f : list pline) : list (option Z) :=
  match f with
  | [] => []
  | Dir n :: r => None :: impl_lines (n - l) (l + 1) r
  | Text :: r => Some (l + delta) :: impl_lines delta (l + 1) r
  end.

Fixpoint spec_lines (delta l : Z) (f : list pline) : list (option Z) :=
  match f with
  | [] => []
  | Dir n :: r => None :: spec_lines (n - (l + 1)) (l + 1) r
  | Text :: r => Some (l + delta) :: spec_lines delta (l + 1) r
  end.

Fixpoint has_dir (f : list pline) : bool := match f with [] => false | Dir _ :: _ => true | Text :: r => has_dir r end.
