(* Model of struct_decl / union_decl (parse.c): assignment of member offsets, bit positions,
   struct size and alignment.  A member is summarised by what the C code reads from it:
   mem->ty->size, mem->align (the _Alignas value or the type's alignment), is_bitfield /
   bit_width, and whether it has a name.  Nested aggregates and arrays enter through their
   (size, align) only, exactly as in the C code.  bits, offsets and sizes are C ints >= 0;
   they are N here (overflow beyond 2^31 bits is out of scope). *)
From Coq Require Import List NArith Bool.
Import ListNotations.
Local Open Scope N_scope.

Record minfo := { m_size : N; m_align : N; m_bf : option N; m_named : bool }.
Record place := { p_off : N; p_bit : N }.

Definition align_to (n a : N) : N := (n + a - 1) / a * a.
(* align_down(n, a) is align_to(n - a + 1, a) in C: (n - a + 1 + a - 1) / a * a on ints, n >= 0 *)
Definition align_down (n a : N) : N := n / a * a.

Record lstate := { ls_bits : N; ls_align : N }.

Definition unnamed_bf (m : minfo) : bool :=
  match m_bf m with Some _ => negb (m_named m) | None => false end.

Definition struct_step (packed : bool) (st : lstate) (m : minfo) : place * lstate :=
  let bits := ls_bits st in
  let pb :=
    match m_bf m with
    | Some 0 => ({| p_off := 0; p_bit := 0 |}, align_to bits (m_size m * 8))
    | Some w =>
      let u := m_size m * 8 in
      let bits1 := if negb (bits / u =? (bits + w - 1) / u) then align_to bits u else bits in
      ({| p_off := align_down (bits1 / 8) (m_size m); p_bit := bits1 mod u |}, bits1 + w)
    | None =>
      let bits1 := align_to bits (if packed then 8 else m_align m * 8) in
      ({| p_off := bits1 / 8; p_bit := 0 |}, bits1 + m_size m * 8)
    end in
  let al := if negb packed && negb (unnamed_bf m) && (ls_align st <? m_align m)
            then m_align m else ls_align st in
  (fst pb, {| ls_bits := snd pb; ls_align := al |}).

Fixpoint struct_members (packed : bool) (st : lstate) (ms : list minfo) : list place * lstate :=
  match ms with
  | [] => ([], st)
  | m :: r =>
    let ps := struct_step packed st m in
    let rs := struct_members packed (snd ps) r in
    (fst ps :: fst rs, snd rs)
  end.

Record layout := { l_size : N; l_align : N; l_places : list place }.

(* align0 = 1 from struct_type(), or the aligned(n) attribute *)
Definition struct_layout (packed : bool) (align0 : N) (ms : list minfo) : layout :=
  let r := struct_members packed {| ls_bits := 0; ls_align := align0 |} ms in
  let al := ls_align (snd r) in
  {| l_size := align_to (ls_bits (snd r)) (al * 8) / 8; l_align := al; l_places := fst r |}.

(* union_decl: a packed union takes no alignment from its members (20d74ad; an _Alignas member would, but the summary of a member does
   not record where its alignment comes from: such members are not part of this model) *)
Definition union_layout (packed : bool) (align0 : N) (ms : list minfo) : layout :=
  let al := fold_left (fun a m => if negb packed && negb (unnamed_bf m) && (a <? m_align m) then m_align m else a) ms align0 in
  let sz := fold_left (fun s m =>
               let c := match m_bf m with Some w => (w + 7) / 8 | None => m_size m end in
               if s <? c then c else s) ms 0 in
  {| l_size := align_to sz al; l_align := al; l_places := map (fun _ => {| p_off := 0; p_bit := 0 |}) ms |}.
